(* Extract_bigint.v -- extraction of the BigInt model, specification and oracle (C19). *)
From Coq Require Import Extraction ExtrOcamlBasic NArith ZArith.
From Qv Require Import BigIntModel.
Extraction Language OCaml.
Set Extraction Optimize.
Extraction "model_bigint.ml"
  N.add N.mul N.sub N.div_eucl N.compare Z.add Z.mul Z.sub Z.div_eucl Z.compare Z.of_N Z.to_N Z.opp
  N.pow N.eqb N.ltb N.log2
  BigIntModel.run_ops BigIntModel.zero_big BigIntModel.oracle BigIntModel.spec_len
  BigIntModel.mul2 BigIntModel.div2 BigIntModel.mul2_half BigIntModel.div2_half.
