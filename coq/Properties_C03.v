(* Properties_C03.v -- the C03 theorems and nothing else.  Each is closed by
   [exact] of a lemma proved in EscapeProofs.v / EscapeRouting.v and followed
   by Print Assumptions.  All quantify over every string (unbounded). *)
From Coq Require Import NArith List.
From Qv Require Import gen.Tables EscapeModel EscapeProofs EscapeRouting.
Import ListNotations.
Local Open Scope N_scope.

(* the headers' entity strings are the standard ones (re-checked per run) *)
Theorem c03_tables_char :
  html_amp_c8 = std_amp /\ html_lt_c8 = std_lt /\ html_gt_c8 = std_gt /\
  html_quot_c8 = std_quot /\ html_apos_c8 = std_apos /\
  html_amp_len_c8 = 5 /\ html_lt_len_c8 = 4 /\ html_gt_len_c8 = 4 /\
  html_quot_len_c8 = 6 /\ html_apos_len_c8 = 6 /\ html_semicolon_c8 = 59.
Proof. exact tables_c8. Qed.
Print Assumptions c03_tables_char.

Theorem c03_all_widths_same : forall w s, escape_w w s = escape_std s.
Proof. exact escape_w_std. Qed.
Print Assumptions c03_all_widths_same.

Theorem c03_default_is_on : cfg_auto_escape_html = true.
Proof. exact default_is_on. Qed.
Print Assumptions c03_default_is_on.

(* the emitted text is a concatenation of non-special units and complete entities *)
Theorem c03_escape_safe : forall w s, Safe (escape_w w s).
Proof. exact escape_safe. Qed.
Print Assumptions c03_escape_safe.

(* ... hence contains none of the four special characters ... *)
Theorem c03_no_raw_special : forall w s c, In c (escape_w w s) -> special c = false.
Proof. intros w s. exact (safe_no_special _ (escape_safe w s)). Qed.
Print Assumptions c03_no_raw_special.

(* ... and & only as the start of one of the five entities *)
Theorem c03_amp_starts_entity : forall w s i, nth_error (escape_w w s) i = Some ch_amp ->
  exists e, In e (map fst std_entities) /\ firstn (length e) (skipn i (escape_w w s)) = e.
Proof. intros w s. exact (safe_amp_entity _ (escape_safe w s)). Qed.
Print Assumptions c03_amp_starts_entity.

Theorem c03_decode_preserved : forall w s, decode (escape_w w s) = decode s.
Proof. exact decode_escape. Qed.
Print Assumptions c03_decode_preserved.

Theorem c03_idempotent : forall w s, escape_w w (escape_w w s) = escape_w w s.
Proof. exact escape_idem. Qed.
Print Assumptions c03_idempotent.

Theorem c03_raw_verbatim : forall a w s, c03_emit_cfg a w 2 s = s.
Proof. exact emit_raw_verbatim. Qed.
Print Assumptions c03_raw_verbatim.

Theorem c03_off_is_raw : forall w kind s, In kind [0; 1; 2] -> c03_emit_cfg false w kind s = s.
Proof. exact emit_off_is_raw. Qed.
Print Assumptions c03_off_is_raw.

(* every {var:} position of the routing model (resolved string, loop key,
   super-variable phrase incl. {n} substitution, echoed source, strings reached
   through a pointer-to-value) emits Safe text *)
Theorem c03_every_var_path_safe : forall w kind s,
  In kind [0; 1; 3; 4; 5; 7; 8; 10] -> Safe (c03_emit_cfg true w kind s).
Proof. exact emit_var_positions_safe. Qed.
Print Assumptions c03_every_var_path_safe.

Theorem c03_stream_prefix_kept : forall w s,
  exists out, c03_emit_cfg true w 6 s = pre_stream ++ out /\ Safe out /\ decode out = decode s.
Proof. exact emit_stream_prefix_kept. Qed.
Print Assumptions c03_stream_prefix_kept.

(* the boolean oracle applied to the implementation's output decides the specification *)
Theorem c03_oracle_sound : forall s out, c03_oracle s out = true <-> (Safe out /\ decode out = decode s).
Proof. exact oracle_sound. Qed.
Print Assumptions c03_oracle_sound.
