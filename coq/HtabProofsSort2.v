(* HtabProofsSort2.v -- C13: the transliterated Memory::Sort returns its input in key
   order (no inversion w.r.t. the comparison), for any comparison that is a strict
   total order on keys; hence live (sort s) = sp_sort (live s). *)
From Coq Require Import List NArith Arith Bool Lia ZifyBool ZifyNat ZifyN Permutation Sorting.Sorted.
From Qv Require Import HtabModel HtabProofsBase HtabProofsInv HtabProofsOps HtabProofsSort.
Import ListNotations.

Section Sort2.
Context {K V : Type}.
Variable klt : K -> K -> bool.
Variable kdef : K.
Variable vdef : V.
Hypothesis klt_irrefl : forall a, klt a a = false.
Hypothesis klt_trans : forall a b c, klt a b = true -> klt b c = true -> klt a c = true.
Hypothesis klt_total : forall a b, a <> b -> klt a b = true \/ klt b a = true.

Notation item := (item K V).
Notation swap := (@swap K V kdef vdef).
Notation qpart := (@qpart K V klt kdef vdef).
Notation qsort := (@qsort K V klt kdef vdef).
Notation sort_items := (@sort_items K V klt kdef vdef).
Notation dummy := (@dummy K V kdef vdef).
Notation bf := (@item_before K V klt).
Notation nthd := (fun (arr : list item) k => nth k arr dummy).
Local Set Default Proof Using "All".

Lemma bf_irrefl asc x : bf asc x x = false.
Proof. unfold item_before. destruct asc; apply klt_irrefl. Qed.
Lemma bf_trans asc x y z : bf asc x y = true -> bf asc y z = true -> bf asc x z = true.
Proof. unfold item_before. destruct asc; intros H1 H2; eauto. Qed.
Lemma bf_asym asc x y : bf asc x y = true -> bf asc y x = false.
Proof.
  intros H1. destruct (bf asc y x) eqn:E; auto.
  pose proof (bf_trans asc x y x H1 E) as H2. rewrite bf_irrefl in H2. discriminate.
Qed.

Lemma nth_swap (arr : list item) i j k :
  i < length arr -> j < length arr ->
  nth k (swap arr i j) dummy = if k =? j then nth i arr dummy else if k =? i then nth j arr dummy else nth k arr dummy.
Proof.
  intros Hi Hj. unfold HtabModel.swap. destruct (k =? j) eqn:Ej.
  - apply Nat.eqb_eq in Ej. subst k. apply nth_upd_same. rewrite length_upd. exact Hj.
  - apply Nat.eqb_neq in Ej. rewrite nth_upd_other by auto. destruct (k =? i) eqn:Ei.
    + apply Nat.eqb_eq in Ei. subst k. apply nth_upd_same. exact Hi.
    + apply Nat.eqb_neq in Ei. apply nth_upd_other. auto.
Qed.
Lemma length_swap (arr : list item) i j : length (swap arr i j) = length arr.
Proof. unfold HtabModel.swap. rewrite !length_upd. reflexivity. Qed.

(* range-wise preservation of any property of the elements *)
Definition pres (a b : list item) lo hi : Prop :=
  forall P : item -> Prop, (forall k, lo <= k < hi -> P (nth k a dummy)) -> (forall k, lo <= k < hi -> P (nth k b dummy)).
Lemma pres_refl a lo hi : pres a a lo hi.
Proof. intros P HP. exact HP. Qed.
Lemma pres_trans a b c lo hi : pres a b lo hi -> pres b c lo hi -> pres a c lo hi.
Proof. intros H1 H2 P HP. apply H2. apply H1. exact HP. Qed.
Lemma pres_widen a b lo hi lo' hi' :
  pres a b lo hi -> (forall k, k < lo \/ hi <= k -> nth k b dummy = nth k a dummy) -> lo' <= lo -> hi <= hi' ->
  pres a b lo' hi'.
Proof.
  intros Hp Hout Hlo Hhi P HP k Hk.
  destruct (Nat.lt_ge_cases k lo) as [H1|H1]; [rewrite Hout by lia; apply HP; lia|].
  destruct (Nat.lt_ge_cases k hi) as [H2|H2]; [|rewrite Hout by lia; apply HP; lia].
  apply (Hp P); [|lia]. intros k' Hk'. apply HP. lia.
Qed.
Lemma pres_swap arr i j lo hi :
  lo <= i < hi -> lo <= j < hi -> hi <= length arr -> pres arr (swap arr i j) lo hi.
Proof.
  intros Hi Hj Hl P HP k Hk. rewrite nth_swap by lia.
  destruct (k =? j); [apply HP; lia|]. destruct (k =? i); apply HP; lia.
Qed.

(* ---------- the partition loop ---------- *)
Lemma qpart_inv asc pivot : forall n (arr : list item) index offset start,
  start <= index -> index < offset -> offset + n <= length arr ->
  (forall k, start < k <= index -> bf asc (nth k arr dummy) pivot = true) ->
  (forall k, index < k < offset -> bf asc (nth k arr dummy) pivot = false) ->
  let r := qpart asc arr pivot index offset n in
  index <= snd r <= index + n /\ length (fst r) = length arr /\
  (forall k, k <= start \/ offset + n <= k -> nth k (fst r) dummy = nth k arr dummy) /\
  (forall k, start < k <= snd r -> bf asc (nth k (fst r) dummy) pivot = true) /\
  (forall k, snd r < k < offset + n -> bf asc (nth k (fst r) dummy) pivot = false) /\
  pres arr (fst r) (S start) (offset + n).
Proof.
  induction n as [|n IH]; intros arr index offset start Hsi Hio Hlen Hlo Hhi; cbn [HtabModel.qpart].
  - simpl. split; [lia|]. split; [reflexivity|]. split; [auto|]. split; [exact Hlo|].
    split; [intros k Hk; apply Hhi; lia|apply pres_refl].
  - destruct (item_before klt asc (nth offset arr dummy) pivot) eqn:E.
    + set (arr1 := swap arr (S index) offset).
      assert (Hl1 : length arr1 = length arr) by apply length_swap.
      assert (Hn1 : forall k, nth k arr1 dummy = if k =? offset then nth (S index) arr dummy else if k =? S index then nth offset arr dummy else nth k arr dummy).
      { intros k. unfold arr1. apply nth_swap; lia. }
      destruct (IH arr1 (S index) (S offset) start ltac:(lia) ltac:(lia) ltac:(lia)) as (Hb & Hl & Hout & Hlo' & Hhi' & Hp).
      * intros k Hk. rewrite Hn1. destruct (k =? offset) eqn:E1.
        -- apply Nat.eqb_eq in E1. assert (Hso : S index = offset) by lia. rewrite Hso. exact E.
        -- destruct (k =? S index) eqn:E2; [exact E|]. apply Nat.eqb_neq in E2. apply Hlo. lia.
      * intros k Hk. rewrite Hn1. destruct (k =? offset) eqn:E1.
        -- apply Hhi. apply Nat.eqb_eq in E1. lia.
        -- apply Nat.eqb_neq in E1. destruct (k =? S index) eqn:E2; [apply Nat.eqb_eq in E2; lia|]. apply Hhi. lia.
      * simpl in *. split; [lia|]. split; [lia|]. split; [|split; [|split]].
        -- intros k Hk. rewrite Hout by lia. rewrite Hn1.
           destruct (k =? offset) eqn:E1; [apply Nat.eqb_eq in E1; lia|].
           destruct (k =? S index) eqn:E2; [apply Nat.eqb_eq in E2; lia|reflexivity].
        -- exact Hlo'.
        -- intros k Hk. apply Hhi'. lia.
        -- replace (offset + S n) with (S offset + n) by lia.
           eapply pres_trans; [|exact Hp]. apply pres_swap; lia.
    + destruct (IH arr index (S offset) start ltac:(lia) ltac:(lia) ltac:(lia) Hlo) as (Hb & Hl & Hout & Hlo' & Hhi' & Hp).
      * intros k Hk. destruct (Nat.eq_dec k offset) as [->|Hne]; [exact E|apply Hhi; lia].
      * simpl in *. split; [lia|]. split; [exact Hl|]. split; [|split; [|split]].
        -- intros k Hk. apply Hout. lia.
        -- exact Hlo'.
        -- intros k Hk. apply Hhi'. lia.
        -- replace (offset + S n) with (S offset + n) by lia. exact Hp.
Qed.

Definition sorted_range asc (arr : list item) lo hi : Prop :=
  forall i j, lo <= i -> i < j -> j < hi -> bf asc (nth j arr dummy) (nth i arr dummy) = false.

Lemma qsort_sorted asc : forall fuel (arr : list item) start stop,
  start <= stop -> stop <= length arr -> stop - start < fuel ->
  exists arr', qsort fuel asc arr start stop = Some arr' /\ length arr' = length arr /\
    (forall k, k < start \/ stop <= k -> nth k arr' dummy = nth k arr dummy) /\
    pres arr arr' start stop /\ sorted_range asc arr' start stop.
Proof.
  induction fuel as [|f IH]; intros arr start stop Hss Hsl Hf; [lia|].
  cbn [HtabModel.qsort]. destruct (start =? stop) eqn:E.
  - apply Nat.eqb_eq in E. exists arr. split; [reflexivity|]. split; [reflexivity|]. split; [auto|].
    split; [apply pres_refl|]. intros i j Hi Hij Hj. lia.
  - apply Nat.eqb_neq in E. set (pivot := nth start arr dummy).
    destruct (qpart_inv asc pivot (stop - S start) arr start (S start) start ltac:(lia) ltac:(lia) ltac:(lia)) as (Hb & Hl1 & Hout1 & Hlo1 & Hhi1 & Hp1).
    { intros k Hk. lia. }
    { intros k Hk. lia. }
    fold pivot. destruct (qpart asc arr pivot start (S start) (stop - S start)) as (arr1, index).
    simpl in Hb, Hl1, Hout1, Hlo1, Hhi1, Hp1.
    replace (S (start + (stop - S start))) with stop in * by lia.
    set (arr2 := if index =? start then arr1 else swap arr1 index start).
    assert (Hl2 : length arr2 = length arr) by (unfold arr2; destruct (index =? start); [|rewrite length_swap]; exact Hl1).
    assert (Hpiv1 : nth start arr1 dummy = pivot) by (apply Hout1; lia).
    assert (H2 : nth index arr2 dummy = pivot /\
                 (forall k, start <= k < index -> bf asc (nth k arr2 dummy) pivot = true) /\
                 (forall k, index < k < stop -> bf asc (nth k arr2 dummy) pivot = false) /\
                 (forall k, k < start \/ stop <= k -> nth k arr2 dummy = nth k arr dummy) /\
                 pres arr arr2 start stop).
    { assert (Hp1' : pres arr arr1 start stop).
      { apply (pres_widen arr arr1 (S start) stop start stop Hp1); [|lia|lia]. intros k Hk. apply Hout1. lia. }
      unfold arr2. destruct (index =? start) eqn:Ei.
      - apply Nat.eqb_eq in Ei. subst index. split; [exact Hpiv1|]. split; [intros k Hk; lia|].
        split; [exact Hhi1|]. split; [intros k Hk; apply Hout1; lia|exact Hp1'].
      - apply Nat.eqb_neq in Ei.
        assert (Hn2 : forall k, nth k (swap arr1 index start) dummy = if k =? start then nth index arr1 dummy else if k =? index then nth start arr1 dummy else nth k arr1 dummy).
        { intros k. apply nth_swap; lia. }
        split; [rewrite Hn2; destruct (index =? start) eqn:E1; [apply Nat.eqb_eq in E1; lia|]; rewrite Nat.eqb_refl; exact Hpiv1|].
        split.
        + intros k Hk. rewrite Hn2. destruct (k =? start) eqn:E1; [apply Hlo1; lia|].
          apply Nat.eqb_neq in E1. destruct (k =? index) eqn:E2; [apply Nat.eqb_eq in E2; lia|]. apply Hlo1. lia.
        + split.
          * intros k Hk. rewrite Hn2. destruct (k =? start) eqn:E1; [apply Nat.eqb_eq in E1; lia|].
            destruct (k =? index) eqn:E2; [apply Nat.eqb_eq in E2; lia|]. apply Hhi1. lia.
          * split.
            -- intros k Hk. rewrite Hn2. destruct (k =? start) eqn:E1; [apply Nat.eqb_eq in E1; lia|].
               destruct (k =? index) eqn:E2; [apply Nat.eqb_eq in E2; lia|]. apply Hout1. lia.
            -- eapply pres_trans; [exact Hp1'|]. apply pres_swap; lia. }
    destruct H2 as (Hpiv2 & Hlo2 & Hhi2 & Hout2 & Hp2).
    destruct (IH arr2 start index ltac:(lia) ltac:(lia) ltac:(lia)) as (arr3 & -> & Hl3 & Hout3 & Hp3 & Hs3).
    destruct (IH arr3 (S index) stop ltac:(lia) ltac:(lia) ltac:(lia)) as (arr4 & -> & Hl4 & Hout4 & Hp4 & Hs4).
    exists arr4. split; [reflexivity|]. split; [lia|].
    assert (Hlo3 : forall k, start <= k < index -> bf asc (nth k arr3 dummy) pivot = true).
    { apply (Hp3 (fun x => bf asc x pivot = true)). exact Hlo2. }
    assert (Hhi3 : forall k, index < k < stop -> bf asc (nth k arr3 dummy) pivot = false).
    { intros k Hk. rewrite Hout3 by lia. apply Hhi2. exact Hk. }
    assert (Hhi4 : forall k, S index <= k < stop -> bf asc (nth k arr4 dummy) pivot = false).
    { apply (Hp4 (fun x => bf asc x pivot = false)). intros k Hk. apply Hhi3. lia. }
    assert (Hpiv4 : nth index arr4 dummy = pivot) by (rewrite Hout4 by lia; rewrite Hout3 by lia; exact Hpiv2).
    split; [|split].
    + intros k Hk. rewrite Hout4 by lia. rewrite Hout3 by lia. apply Hout2. exact Hk.
    + eapply pres_trans; [exact Hp2|]. eapply pres_trans.
      * apply (pres_widen arr2 arr3 start index start stop Hp3); [|lia|lia]. intros k Hk. apply Hout3. lia.
      * apply (pres_widen arr3 arr4 (S index) stop start stop Hp4); [|lia|lia]. intros k Hk. apply Hout4. lia.
    + intros i j Hi Hij Hj.
      destruct (Nat.lt_ge_cases j index) as [Hji|Hji].
      * (* both on the left *) rewrite !Hout4 by lia. apply Hs3; lia.
      * destruct (Nat.eq_dec j index) as [->|Hjne].
        -- (* i left, j the pivot *) rewrite Hpiv4. rewrite Hout4 by lia. apply bf_asym. apply Hlo3. lia.
        -- destruct (Nat.lt_ge_cases i index) as [Hii|Hii].
           ++ (* i left, j right *)
              destruct (bf asc (nth j arr4 dummy) (nth i arr4 dummy)) eqn:Ex; auto.
              assert (Hx : bf asc (nth j arr4 dummy) pivot = true).
              { eapply bf_trans; [exact Ex|]. rewrite Hout4 by lia. apply Hlo3. lia. }
              rewrite Hhi4 in Hx by lia. discriminate.
           ++ destruct (Nat.eq_dec i index) as [->|Hine].
              ** rewrite Hpiv4. apply Hhi4. lia.
              ** apply Hs4; lia.
Qed.

Lemma sort_items_sorted asc (l : list item) :
  exists l', sort_items asc l = Some l' /\ length l' = length l /\ sorted_range asc l' 0 (length l').
Proof.
  unfold HtabModel.sort_items.
  destruct (qsort_sorted asc (S (length l)) l 0 (length l) ltac:(lia) ltac:(lia) ltac:(lia)) as (l' & Hr & Hl & _ & _ & Hs).
  exists l'. split; [exact Hr|]. split; [exact Hl|]. rewrite Hl. exact Hs.
Qed.

(* ---------- from "no inversion" to equality with the specification's sort ---------- *)
Definition ile asc (x y : item) : Prop := bf asc y x = false.

Lemma sorted_range_strongly asc (l : list item) :
  sorted_range asc l 0 (length l) -> StronglySorted (ile asc) l.
Proof.
  induction l as [|a l IH]; intros Hs; constructor.
  - apply IH. intros i j Hi Hij Hj. apply (Hs (S i) (S j)); simpl; lia.
  - apply Forall_forall. intros y Hy. destruct (In_nth l y dummy Hy) as (j & Hj & <-).
    apply (Hs 0 (S j)); simpl; lia.
Qed.
Lemma strongly_filter {A} (R : A -> A -> Prop) p (l : list A) : StronglySorted R l -> StronglySorted R (filter p l).
Proof.
  induction 1 as [|a l Hs IH Hf]; simpl; [constructor|]. destruct (p a); auto. constructor; auto.
  rewrite Forall_forall in *. intros y Hy. apply filter_In in Hy. apply Hf. tauto.
Qed.
Lemma strongly_map {A B} (f : A -> B) (R : A -> A -> Prop) (R' : B -> B -> Prop) (l : list A) :
  (forall x y, R x y -> R' (f x) (f y)) -> StronglySorted R l -> StronglySorted R' (map f l).
Proof.
  intros HR. induction 1 as [|a l Hs IH Hf]; simpl; constructor; auto.
  rewrite Forall_forall in *. intros y Hy. apply in_map_iff in Hy. destruct Hy as (x & <- & Hx). apply HR. apply Hf. exact Hx.
Qed.

Notation pbf := (@pair_before K V klt).
Definition ple asc (x y : K * V) : Prop := pbf asc y x = false.
Notation sp_sort_ins := (@sp_sort_ins K V klt).
Notation sp_sort := (@sp_sort K V klt).

Lemma pbf_irrefl asc x : pbf asc x x = false.
Proof. unfold pair_before. destruct asc; apply klt_irrefl. Qed.
Lemma pbf_trans asc x y z : pbf asc x y = true -> pbf asc y z = true -> pbf asc x z = true.
Proof. unfold pair_before. destruct asc; intros H1 H2; eauto. Qed.
Lemma pbf_asym asc x y : pbf asc x y = true -> pbf asc y x = false.
Proof.
  intros H1. destruct (pbf asc y x) eqn:E; auto.
  pose proof (pbf_trans asc x y x H1 E) as H2. rewrite pbf_irrefl in H2. discriminate.
Qed.
Lemma pbf_total asc x y : fst x <> fst y -> pbf asc x y = true \/ pbf asc y x = true.
Proof. unfold pair_before. intros Hn. destruct asc; [apply klt_total; auto|]. destruct (klt_total (fst x) (fst y) Hn); auto. Qed.

Lemma sp_sort_ins_perm asc x l : Permutation (x :: l) (sp_sort_ins asc x l).
Proof.
  induction l as [|y r IH]; simpl; [apply Permutation_refl|].
  destruct (pbf asc x y); [apply Permutation_refl|].
  eapply perm_trans; [apply perm_swap|]. apply perm_skip. exact IH.
Qed.
Lemma sp_sort_perm asc l : Permutation l (sp_sort asc l).
Proof.
  induction l as [|x l IH]; simpl; [constructor|].
  eapply perm_trans; [apply perm_skip; exact IH|]. apply sp_sort_ins_perm.
Qed.
Lemma sp_sort_ins_sorted asc x l : StronglySorted (ple asc) l -> StronglySorted (ple asc) (sp_sort_ins asc x l).
Proof.
  induction 1 as [|y r Hs IH Hf]; simpl; [repeat constructor|].
  destruct (pbf asc x y) eqn:E.
  - constructor; [constructor; auto|]. constructor; [apply pbf_asym; exact E|].
    rewrite Forall_forall in *. intros z Hz. unfold ple. destruct (pbf asc z x) eqn:Ez; auto.
    pose proof (pbf_trans asc z x y Ez E) as Hzy. specialize (Hf z Hz). unfold ple in Hf. congruence.
  - constructor; [exact IH|]. rewrite Forall_forall in *. intros z Hz.
    apply (Permutation_in _ (Permutation_sym (sp_sort_ins_perm asc x r))) in Hz. destruct Hz as [<-|Hz]; [exact E|auto].
Qed.
Lemma sp_sort_sorted asc l : StronglySorted (ple asc) (sp_sort asc l).
Proof. induction l as [|x l IH]; simpl; [constructor|]. apply sp_sort_ins_sorted. exact IH. Qed.

(* two sorted permutations with distinct keys are equal *)
Lemma sorted_perm_unique asc : forall l1 l2 : list (K * V),
  StronglySorted (ple asc) l1 -> StronglySorted (ple asc) l2 -> Permutation l1 l2 -> NoDup (map fst l1) -> l1 = l2.
Proof.
  induction l1 as [|x l1 IH]; intros l2 H1 H2 Hp Hnd.
  - apply Permutation_nil in Hp. auto.
  - destruct l2 as [|y l2]; [apply Permutation_sym, Permutation_nil in Hp; discriminate|].
    inversion H1 as [|? ? Hs1 Hf1]; subst. inversion H2 as [|? ? Hs2 Hf2]; subst.
    inversion Hnd as [|? ? Hni Hnd1]; subst.
    assert (Hxy : x = y).
    { assert (Hx : In x (y :: l2)) by (eapply Permutation_in; [exact Hp|left; reflexivity]).
      destruct Hx as [Hx|Hx]; [auto|].
      assert (Hy : In y (x :: l1)) by (eapply Permutation_in; [apply Permutation_sym; exact Hp|left; reflexivity]).
      destruct Hy as [Hy|Hy]; [auto|]. exfalso.
      rewrite Forall_forall in Hf1, Hf2. specialize (Hf1 y Hy). specialize (Hf2 x Hx). unfold ple in Hf1, Hf2.
      destruct (pbf_total asc x y) as [E|E]; try congruence.
      intros Ek. apply Hni. rewrite Ek. apply in_map. exact Hy. }
    subst y. f_equal. apply IH; auto. eapply Permutation_cons_inv. exact Hp.
Qed.

End Sort2.
