(* DigitProofsAccEmit.v -- C10 accuracy: the digit emission (Digit::bigIntToString) writes exactly the
   decimal digits of the big integer, least significant first; chained with the exact scaling theorems
   (DigitProofsAccScale) the digit run handed to the formatter is the exact truncated decimal expansion. *)
From Coq Require Import NArith ZArith List Bool Lia ZifyBool ZifyN ZifyNat.
From Qv Require Import gen.Tables_digit DigitModel DigitModelSpec DigitProofsInt DigitProofsParse DigitProofsRoundtripInt DigitProofsAccPos DigitProofsAccScale.
Import ListNotations.
Local Open Scope N_scope.

Definition T19 : N := 10000000000000000000.
Lemma T19_pow : T19 = 10 ^ 19. Proof. reflexivity. Qed.

Lemma dval_zeros : forall l, Forall (fun c => c = 48) l -> dval l = 0.
Proof.
  induction l as [|c l IH]; intros H; [reflexivity|]. inversion H as [|? ? H1 H2]; subst.
  rewrite dval_cons1, IH by exact H2. lia.
Qed.

(* one chunk: digits (q * 10^19 + r) = digits q ++ zero padding ++ digits r *)
Lemma digits_chunk : forall q r hiq z hir,
  q <> 0 -> decimal_of q hiq -> Forall dig hir -> dval hir = r ->
  Forall (fun c => c = 48) z -> N.of_nat (length z) + N.of_nat (length hir) = 19 ->
  decimal_of (q * T19 + r) (hiq ++ z ++ hir).
Proof.
  intros q r hiq z hir Hq [Hd [Hv [Hne Hh]]] Hdr Hvr Hz Hl. unfold decimal_of. repeat split.
  - apply Forall_app. split; [exact Hd|]. apply Forall_app. split; [|exact Hdr].
    eapply Forall_impl; [|exact Hz]. intros c ->. unfold dig. lia.
  - rewrite dval_app. rewrite Hv. rewrite app_length, Nat2N.inj_add, Hl.
    rewrite (dval_app z hir). rewrite (dval_zeros z Hz). rewrite Hvr.
    rewrite N.mul_0_l, N.add_0_l. reflexivity.
  - destruct hiq; [congruence|discriminate].
  - destruct hiq as [|a t]; [congruence|]. cbn [app hd].
    destruct Hh as [Hh|Hh]; [left; exact Hh|]. exfalso. rewrite Hh in Hv. apply Hq. rewrite <- Hv. reflexivity.
Qed.

Lemma T19_lt_2_64 : T19 < 2 ^ 64. Proof. vm_compute. reflexivity. Qed.
Lemma T19_le_two64 : T19 <= two64. Proof. vm_compute. discriminate. Qed.
Lemma T19_nz : T19 <> 0. Proof. discriminate. Qed.

Lemma u64_len19 : forall r, r < T19 -> N.of_nat (length (u64_to_string r)) <= 19.
Proof.
  intros r Hr. destruct (N.eq_dec r 0) as [->|Hn]; [vm_compute; discriminate|].
  apply (decimal_length r); [|lia|rewrite <- T19_pow; exact Hr].
  apply u64_to_string_decimal. eapply N.lt_trans; [exact Hr|exact T19_lt_2_64].
Qed.

Theorem big_to_string_digits : forall fuel b ds,
  big_to_string fuel b = Ok ds -> (b = 0 /\ ds = []) \/ (b <> 0 /\ decimal_of b (rev ds)).
Proof.
  induction fuel as [|f IH]; intros b ds H; [discriminate|].
  cbn [big_to_string] in H. change dg_max_pow10_value with T19 in H. change dg_max_pow10 with 19 in H.
  destruct (two64 <=? b) eqn:E64.
  - apply N.leb_le in E64. right.
    assert (HTb : T19 <= b) by (eapply N.le_trans; [exact T19_le_two64|exact E64]).
    set (r := b mod T19) in *. set (q := b / T19) in *.
    assert (Hr : r < T19) by (apply N.mod_lt; exact T19_nz).
    assert (Hq : q <> 0).
    { apply N.neq_0_lt_0. apply N.div_str_pos. split; [reflexivity|exact HTb]. }
    assert (Hbq : b = q * T19 + r) by (rewrite N.mul_comm; apply N.div_mod; exact T19_nz).
    pose proof (u64_len19 r Hr) as Hlen.
    rewrite u64_to_string_rev_mirror in H. unfold blen in H. rewrite rev_length in H.
    set (hi := u64_to_string r) in *.
    set (k := 19 - N.of_nat (length hi)) in *.
    assert (Hk : k + N.of_nat (length hi) = 19) by (unfold k; lia).
    unfold zeros in H.
    assert (Ez : (100000 <? k) = false) by (apply N.ltb_ge; unfold k; lia). rewrite Ez in H. cbn [bind] in H.
    destruct (big_to_string f q) as [more|] eqn:Em; [|discriminate]. cbn [bind] in H.
    assert (Hds : ds = rev hi ++ repeat ch_zero (N.to_nat k) ++ more) by congruence. clear H.
    destruct (IH q more Em) as [[Hq0 _]|[_ Hdm]]; [exfalso; exact (Hq Hq0)|].
    assert (Hhi : decimal_of r hi).
    { apply u64_to_string_decimal. eapply N.lt_trans; [exact Hr|exact T19_lt_2_64]. }
    destruct Hhi as [Hd1 [Hv1 _]].
    split; [rewrite Hbq; intros Hz0; apply N.eq_add_0 in Hz0; destruct Hz0 as [Hz0 _];
            apply N.eq_mul_0 in Hz0; destruct Hz0 as [Hz0|Hz0]; [exact (Hq Hz0)|exact (T19_nz Hz0)]|].
    rewrite Hds, !rev_app_distr, rev_involutive, <- app_assoc, Hbq.
    apply digits_chunk; try assumption.
    + apply Forall_rev. apply Forall_forall. intros x Hx. apply repeat_spec in Hx. exact Hx.
    + rewrite rev_length, repeat_length, N2Nat.id. exact Hk.
  - apply N.leb_gt in E64. destruct (b =? 0) eqn:E0.
    + apply N.eqb_eq in E0. left. split; [exact E0|congruence].
    + apply N.eqb_neq in E0. right. split; [exact E0|].
      assert (Hds : ds = u64_to_string_rev b) by congruence. rewrite Hds.
      rewrite u64_to_string_rev_mirror, rev_involutive. apply u64_to_string_decimal.
      unfold two64 in E64. exact E64.
Qed.

(* ---- chained with the exact scaling: the digit run is the exact truncated decimal expansion ---- *)
Theorem digit_run_exact_fraction_ge1 : forall fi mantissa be precision is_fixed b fl ru ds,
  let ms := fi_msize fi in let pe := be - fi_bias fi in
  mantissa <> 0 -> ms <= 63 -> fi_bias fi <= be -> be - fi_bias fi <= 4000 -> precision < 2 ^ 20 ->
  let fs := ctz mantissa in
  let digits := (pe * 30103) / 100000 + 1 in
  fs <= ms -> ((ms - fs <=? pe) || ((precision <? digits) && negb is_fixed)) = false ->
  real_scale fi mantissa be precision is_fixed = Ok (b, fl, ru) ->
  big_to_string 80 b = Ok ds ->
  let o := mantissa / 2 ^ fs in let F := ms - fs - pe in
  let X := (o * 5 ^ fl) / 2 ^ (F - fl) in            (* = floor (value * 10^fl), value = o / 2^F *)
  ru = negb ((o * 5 ^ fl) mod 2 ^ (F - fl) =? 0)      (* = "value * 10^fl is not an integer" *)
  /\ ((X = 0 /\ ds = []) \/ (X <> 0 /\ decimal_of X (rev ds))).
Proof.
  intros fi mantissa be precision is_fixed b fl ru ds ms pe Hm Hms Hbe Hbe2 Hp fs digits Hfs Hnf Hs Hb o F X.
  destruct (scale_fraction_path_ge1 fi mantissa be precision is_fixed b fl ru Hm Hms Hbe Hbe2 Hp Hfs Hnf Hs) as [_ [Hbv [Hru _]]].
  split; [exact Hru|]. fold ms pe fs in Hbv. fold o F in Hbv. fold X in Hbv. rewrite <- Hbv.
  exact (big_to_string_digits 80 b ds Hb).
Qed.

Theorem digit_run_exact_integer : forall fi mantissa be precision is_fixed b fl ru ds,
  let ms := fi_msize fi in let pe := be - fi_bias fi in
  mantissa <> 0 -> ms <= 64 -> fi_bias fi <= be -> be - fi_bias fi <= 4000 -> precision < 2 ^ 20 ->
  let first_bit := ms - ctz mantissa in
  let digits := (pe * 30103) / 100000 + 1 in
  ((first_bit <=? pe) || ((precision <? digits) && negb is_fixed)) = true -> ctz mantissa <= ms ->
  real_scale fi mantissa be precision is_fixed = Ok (b, fl, ru) ->
  big_to_string 80 b = Ok ds ->
  fl = 0 /\ exists drop, (drop = 0 \/ (is_fixed = false /\ drop = digits - (precision + 1)))
    /\ let X := (mantissa * 2 ^ pe) / (2 ^ ms * 10 ^ drop) in     (* = floor (value / 10^drop) *)
       ru = negb ((mantissa * 2 ^ pe) mod (2 ^ ms * 10 ^ drop) =? 0)
       /\ ((X = 0 /\ ds = []) \/ (X <> 0 /\ decimal_of X (rev ds))).
Proof.
  intros fi mantissa be precision is_fixed b fl ru ds ms pe Hm Hms Hbe Hbe2 Hp first_bit digits Hnf Hc Hs Hb.
  destruct (scale_integer_path fi mantissa be precision is_fixed b fl ru Hm Hms Hbe Hbe2 Hp Hnf Hc Hs) as [Hfl [drop [Hd [Hbv Hru]]]].
  split; [exact Hfl|]. exists drop. split; [exact Hd|]. cbv zeta. split; [exact Hru|].
  fold ms pe in Hbv. rewrite <- Hbv. exact (big_to_string_digits 80 b ds Hb).
Qed.

(* non-vacuity: the run of 11150.001 at Fixed 2 is "10005111" reversed = 11150001 = floor (11150.001 * 10^3) *)
Example emit_examples :
  big_to_string 80 11150001 = Ok [49; 48; 48; 48; 53; 49; 49; 49]
  /\ big_to_string 80 0 = Ok []
  /\ big_to_string 80 (10 ^ 40 + 7) = Ok ([55] ++ repeat 48 39 ++ [49]).
Proof. repeat (match goal with |- _ /\ _ => split end); vm_compute; reflexivity. Qed.
