(* TmplModel.v -- template rendering (Include/Template.hpp), definitions only.

   Specification layer: a template AST ([tnode]), its printer ([print_nodes],
   the documented tag grammar) and the reference interpreter [expand] of
   Documentation/Template.md.  The expression language here is the integer
   fragment (exact Z arithmetic, one binary operator per parenthesis level, so
   that precedence -- property C04 -- plays no role); a real is the bit pattern of a
   double, printed by the model of Digit::NumberToString (DigitModel.v).

   Implementation layer (TmplRender.v): the tag tree with offsets into the
   printed text and the renderer working on slices, as Template.hpp does. *)
From Coq Require Import NArith ZArith List Bool.
From Qv Require Import gen.Tables gen.Tables_tmplfmt EscapeModel.
From Qv Require gen.Tables_digit DigitModel.
Import ListNotations.
Local Open Scope N_scope.

(* ------------------------------------------------------------------ *)
(* Values *)
Inductive jv : Type :=
| JUndef | JNull | JTrue | JFalse
| JNat (n : N)
| JInt (z : Z)            (* negative integers *)
| JReal (bits : N)        (* a double: its IEEE-754 bit pattern *)
| JStr (s : list N)
| JArr (l : list jv)
| JObj (l : list (list N * jv)).

Definition str (s : list N) := s.
Definition s_true : list N := [116; 114; 117; 101].
Definition s_false : list N := [102; 97; 108; 115; 101].
Definition s_null : list N := [110; 117; 108; 108].
Definition ch_minus : N := 45.
Definition ch_dot : N := 46.
Definition ch_lbr : N := 91.
Definition ch_rbr : N := 93.

(* decimal text of a natural: fuel = number of bits + 1 is always enough *)
Fixpoint dec_go (fuel : nat) (n : N) (acc : list N) : list N :=
  match fuel with
  | O => acc
  | S k => if n <? 10 then (48 + n) :: acc else dec_go k (n / 10) ((48 + n mod 10) :: acc)
  end.
Definition dec (n : N) : list N := dec_go (S (N.to_nat (N.size n))) n [].
Definition dec_z (z : Z) : list N :=
  match z with Zneg p => ch_minus :: dec (Npos p) | _ => dec (Z.to_N z) end.

(* Digit::NumberToString(double, {precision, format}) (DigitModel.real_to_string, bit-faithful).
   In a template: {Config::TemplatePrecision, QENTEM_TEMPLATE_DOUBLE_FORMAT}; Value::CopyValueTo's default
   (the group names of GroupBy): RealFormatInfo{Config::DoublePrecision}.  The model's explicit error outcomes
   (fuel, array bounds) are not a text. *)
Definition real_string (precision fmt bits : N) : option (list N) :=
  match DigitModel.real_to_string DigitModel.finfo_double [] bits precision fmt with
  | DigitModel.Ok s => Some s
  | DigitModel.Err _ => None
  end.
(* the value a JSON numeral denotes: Digit::StringToNumber decides kind and bits (DigitModel.string_to_number; the
   conversion is within one ulp, not always the nearest double -- C09 -- so the bits are taken from it) *)
Definition jv_of_numeral (text : list N) : jv :=
  match DigitModel.string_to_number text with
  | DigitModel.Ok p =>
    let k := DigitModel.p_kind p in let b := DigitModel.p_bits p in
    if N.eqb k Tables_digit.qn_real then JReal b
    else if N.eqb k Tables_digit.qn_natural then JNat b
    else if N.eqb k Tables_digit.qn_integer then JInt (if N.ltb b 9223372036854775808 then Z.of_N b else (Z.of_N b - 18446744073709551616)%Z)
    else JUndef
  | DigitModel.Err _ => JUndef
  end.
Definition real_text (bits : N) : option (list N) := real_string tf_template_precision tf_template_format bits.
Definition real_text_default (bits : N) : option (list N) := real_string tf_default_precision tf_default_format bits.

(* Value::CopyValueTo: the text of a scalar; [esc] is applied to strings only *)
Definition value_text (esc : list N -> list N) (v : jv) : option (list N) :=
  match v with
  | JStr s => Some (esc s)
  | JNat n => Some (dec n)
  | JInt z => Some (dec_z z)
  | JReal b => real_text b
  | JTrue => Some s_true
  | JFalse => Some s_false
  | JNull => Some s_null
  | _ => None
  end.

(* Value::SetCharAndLength *)
Definition char_and_length (v : jv) : option (list N) :=
  match v with
  | JStr s => Some s | JTrue => Some s_true | JFalse => Some s_false | JNull => Some s_null
  | _ => None
  end.

(* Digit::FastStringToNumber into a 32-bit SizeT *)
Definition two32 : N := 4294967296.
Definition fast_index (key : list N) : N :=
  fold_left (fun acc c => (acc * 10 + c + two32 - 48) mod two32) key 0.

Fixpoint assoc (key : list N) (l : list (list N * jv)) : option jv :=
  match l with
  | [] => None
  | (k, v) :: r => if list_eqb k key then Some v else assoc key r
  end.

Definition defined (o : option jv) : option jv :=
  match o with Some JUndef => None | x => x end.

(* Value::GetValue(key, length) *)
Definition get_key (v : jv) (key : list N) : option jv :=
  match v with
  | JObj l => defined (assoc key l)
  | JArr l => defined (nth_error l (N.to_nat (fast_index key)))
  | _ => None
  end.

(* ------------------------------------------------------------------ *)
(* Template AST *)
Definition path : Type := (list N * list (list N))%type.     (* name, indices *)

Inductive expr :=
| ENum (n : N)
| EVar (p : path)
| EBin (op : N) (a b : expr).
(* operators of the fragment *)
Definition op_add : N := 0.  Definition op_sub : N := 1.  Definition op_mul : N := 2.
Definition op_eq : N := 3.   Definition op_ne : N := 4.
Definition op_lt : N := 5.   Definition op_gt : N := 6.   Definition op_le : N := 7.  Definition op_ge : N := 8.
Definition op_and : N := 9.  Definition op_or : N := 10.

Inductive tnode :=
| TText (s : list N)
| TVar (p : path)
| TRaw (p : path)
| TMath (e : expr)
| TSVar (p : path) (subs : list tnode)
| TIIf (c : expr) (t : list tnode) (f : option (list tnode))
| TIf (first : expr) (body : list tnode) (more : list (option expr * list tnode))
| TLoop (set : option path) (val : list N) (group : list N) (sort : N) (body : list tnode).
(* TLoop: val = [] means no value attribute, group = [] no group attribute,
   sort: 0 none, 1 ascend, 2 descend *)

(* ---- printer ---- *)
Fixpoint print_idx (l : list (list N)) : list N :=
  match l with [] => [] | i :: r => ch_lbr :: i ++ ch_rbr :: print_idx r end.
Definition print_path (p : path) : list N := fst p ++ print_idx (snd p).

Definition lit (s : list N) := s.
Definition s_var_open : list N := [123; 118; 97; 114; 58].
Definition s_raw_open : list N := [123; 114; 97; 119; 58].
Definition s_math_open : list N := [123; 109; 97; 116; 104; 58].
Definition s_svar_open : list N := [123; 115; 118; 97; 114; 58].
Definition s_close : list N := [125].
Definition s_iif_open : list N := [123; 105; 102; 32; 99; 97; 115; 101; 61; 34].
Definition s_true_attr : list N := [34; 32; 116; 114; 117; 101; 61; 34].
Definition s_false_attr : list N := [34; 32; 102; 97; 108; 115; 101; 61; 34].
Definition s_iif_close : list N := [34; 125].
Definition s_if_open : list N := [60; 105; 102; 32; 99; 97; 115; 101; 61; 34].
Definition s_tag_close : list N := [34; 62].
Definition s_elseif_open : list N := [60; 101; 108; 115; 101; 32; 105; 102; 32; 99; 97; 115; 101; 61; 34].
Definition s_else : list N := [60; 101; 108; 115; 101; 62].
Definition s_if_end : list N := [60; 47; 105; 102; 62].
Definition s_loop_open : list N := [60; 108; 111; 111; 112].
Definition s_set_attr : list N := [32; 115; 101; 116; 61; 34].
Definition s_value_attr : list N := [32; 118; 97; 108; 117; 101; 61; 34].
Definition s_group_attr : list N := [32; 103; 114; 111; 117; 112; 61; 34].
Definition s_sort_asc : list N := [32; 115; 111; 114; 116; 61; 34; 97; 115; 99; 101; 110; 100; 34].
Definition s_sort_desc : list N := [32; 115; 111; 114; 116; 61; 34; 100; 101; 115; 99; 101; 110; 100; 34].
Definition s_quote : list N := [34].
Definition s_gt : list N := [62].
Definition s_loop_end : list N := [60; 47; 108; 111; 111; 112; 62].
Definition s_comma_sp : list N := [44; 32].

Definition op_text (op : N) : list N :=
  match op with
  | 0 => [43] | 1 => [45] | 2 => [42]
  | 3 => [61; 61] | 4 => [33; 61]
  | 5 => [60] | 6 => [62] | 7 => [60; 61] | 8 => [62; 61]
  | 9 => [38; 38] | _ => [124; 124]
  end.

(* an operand is an atom, or a parenthesised binary expression *)
Fixpoint print_operand (e : expr) : list N :=
  match e with
  | ENum n => dec n
  | EVar p => s_var_open ++ print_path p ++ s_close
  | EBin op a b => [40] ++ print_operand a ++ [32] ++ op_text op ++ [32] ++ print_operand b ++ [41]
  end.
Definition print_expr (e : expr) : list N :=
  match e with
  | EBin op a b => print_operand a ++ [32] ++ op_text op ++ [32] ++ print_operand b
  | _ => print_operand e
  end.

Fixpoint print_node (n : tnode) : list N :=
  let pl := fix pl (l : list tnode) : list N := match l with [] => [] | x :: r => print_node x ++ pl r end in
  match n with
  | TText s => s
  | TVar p => s_var_open ++ print_path p ++ s_close
  | TRaw p => s_raw_open ++ print_path p ++ s_close
  | TMath e => s_math_open ++ print_expr e ++ s_close
  | TSVar p subs =>
    s_svar_open ++ print_path p ++
    (fix ps (l : list tnode) : list N := match l with [] => [] | x :: r => s_comma_sp ++ print_node x ++ ps r end) subs
    ++ s_close
  | TIIf c t f =>
    s_iif_open ++ print_expr c ++ s_true_attr ++ pl t ++
    match f with Some fl => s_false_attr ++ pl fl | None => [] end ++ s_iif_close
  | TIf c body more =>
    s_if_open ++ print_expr c ++ s_tag_close ++ pl body ++
    (fix pm (l : list (option expr * list tnode)) : list N :=
       match l with
       | [] => []
       | (Some e, b) :: r => s_elseif_open ++ print_expr e ++ s_tag_close ++ pl b ++ pm r
       | (None, b) :: r => s_else ++ pl b ++ pm r
       end) more ++ s_if_end
  | TLoop set val group sort body =>
    s_loop_open ++
    match set with Some p => s_set_attr ++ print_path p ++ s_quote | None => [] end ++
    match val with [] => [] | _ => s_value_attr ++ val ++ s_quote end ++
    match group with [] => [] | _ => s_group_attr ++ group ++ s_quote end ++
    match sort with 0 => [] | 1 => s_sort_asc | _ => s_sort_desc end ++
    s_gt ++ pl body ++ s_loop_end
  end.
Fixpoint print_nodes (l : list tnode) : list N :=
  match l with [] => [] | x :: r => print_node x ++ print_nodes r end.

(* ------------------------------------------------------------------ *)
(* Variable resolution.  A binding is an enclosing loop: its value name, the
   current item and the current key (empty for array items). *)
Record binding := { b_name : list N; b_item : jv; b_key : list N }.

Fixpoint is_pfx (p s : list N) : bool :=
  match p, s with
  | [], _ => true
  | x :: p', y :: s' => N.eqb x y && is_pfx p' s'
  | _, [] => false
  end.

(* checkLoopVariable: innermost enclosing loop whose value name is a prefix of
   the printed variable text.  (A loop without a value name binds nothing.) *)
Fixpoint find_binding (ctx : list binding) (text : list N) : option binding :=
  match ctx with
  | [] => None
  | b :: r =>
    match b_name b with
    | [] => find_binding r text
    | nm => if is_pfx nm text then Some b else find_binding r text
    end
  end.

Fixpoint walk (v : option jv) (idx : list (list N)) : option jv :=
  match idx with
  | [] => v
  | i :: r => match v with Some x => walk (get_key x i) r | None => None end
  end.

(* getValue at the level of the AST (names and indices without brackets):
   returns the value and the binding it went through *)
Definition resolve (root : jv) (ctx : list binding) (p : path) : option jv * option binding :=
  match find_binding ctx (print_path p) with
  | Some b =>
    (* a loop variable: the indices are those following the value NAME in the
       text; the AST printer puts them all after the name, and the name of the
       variable is the loop's value name or merely starts with it -- in the
       latter case without indices the item itself is denoted *)
    (match snd p with
     | [] => Some (b_item b)
     | idx => if list_eqb (fst p) (b_name b) then walk (Some (b_item b)) idx else None
     end, Some b)
  | None =>
    (match snd p with
     | [] => get_key root (fst p)
     | idx => match fst p with [] => None | nm => walk (get_key root nm) idx end
     end, None)
  end.

(* ------------------------------------------------------------------ *)
(* Expressions (integer fragment) *)
(* Digit::StringToNumber restricted to what the fragment generates: a string
   of decimal digits without a leading zero (or "0" itself) is that natural;
   every other string generated here is not a number. *)
Fixpoint digits_val (s : list N) (acc : N) : option N :=
  match s with
  | [] => Some acc
  | c :: r => if (48 <=? c) && (c <=? 57) then digits_val r (acc * 10 + (c - 48)) else None
  end.
Definition nat_of_string (s : list N) : option N :=
  match s with
  | [] => None
  | [48] => Some 0
  | 48 :: _ => None
  | _ => digits_val s 0
  end.

Definition num_of (v : jv) : option Z :=       (* Value::SetNumber, exact kinds only *)
  match v with
  | JStr s => match nat_of_string s with Some n => Some (Z.of_N n) | None => None end
  | JNat n => Some (Z.of_N n)
  | JInt z => Some z
  | JTrue => Some 1%Z
  | JFalse | JNull => Some 0%Z
  | _ => None
  end.
Definition is_number_kind (v : jv) : bool :=   (* GetNumberType() != NotANumber *)
  match v with JNat _ | JInt _ | JReal _ => true | _ => false end.

Definition zb (b : bool) : Z := if b then 1%Z else 0%Z.

Inductive side := SNum (z : Z) | SVal (v : jv) | SNone.

Section Eval.
  Variable root : jv.
  Variable ctx : list binding.

  Definition arith (op : N) (x y : Z) : Z :=
    match op with
    | 0 => (x + y)%Z | 1 => (x - y)%Z | 2 => (x * y)%Z
    | 5 => zb (x <? y)%Z | 6 => zb (x >? y)%Z | 7 => zb (x <=? y)%Z | 8 => zb (x >=? y)%Z
    | 9 => zb ((x >? 0)%Z && (y >? 0)%Z) | _ => zb ((x >? 0)%Z || (y >? 0)%Z)
    end.

  Definition var_side (p : path) : side :=
    match fst (resolve root ctx p) with Some v => SVal v | None => SNone end.
  Definition num_side (o : option Z) : side :=
    match o with Some z => SNum z | None => SNone end.

  (* isEqual: numeric when either side is a number, textual when neither is *)
  Definition eq_sides (a b : side) : option bool :=
    match a, b with
    | SNone, _ | _, SNone => None
    | SNum x, SNum y => Some (x =? y)%Z
    | SNum x, SVal v => match num_of v with Some y => Some (x =? y)%Z | None => None end
    | SVal v, SNum y => match num_of v with Some x => Some (x =? y)%Z | None => None end
    | SVal u, SVal v =>
      if is_number_kind u || is_number_kind v then
        match num_of u, num_of v with Some x, Some y => Some (x =? y)%Z | _, _ => None end
      else
        match char_and_length u, char_and_length v with
        | Some s, Some t => Some (list_eqb s t) | _, _ => None end
    end.

  (* value of an operand that stands next to an operator *)
  Fixpoint eval_operand (e : expr) : option Z :=
    match e with
    | ENum n => Some (Z.of_N n)
    | EVar p => match fst (resolve root ctx p) with Some v => num_of v | None => None end
    | EBin op a b =>
      if (op =? op_eq) || (op =? op_ne) then
        let sa := match a with EVar p => var_side p | _ => num_side (eval_operand a) end in
        let sb := match b with EVar p => var_side p | _ => num_side (eval_operand b) end in
        match eq_sides sa sb with
        | Some t => Some (if op =? op_eq then zb t else zb (negb t))
        | None => None
        end
      else
        match eval_operand a, eval_operand b with
        | Some x, Some y => Some (arith op x y)
        | _, _ => None
        end
    end.

  (* a whole case / math expression *)
  Definition eval_expr (e : expr) : option Z :=
    match e with
    | EVar p =>
      match fst (resolve root ctx p) with
      | Some v =>
        match num_of v with
        | Some z => Some z
        | None => Some (zb (match v with JStr (_ :: _) => true | _ => false end))
        end
      | None => Some 0%Z
      end
    | ENum n => Some (Z.of_N n)
    | EBin _ _ _ => eval_operand e
    end.
End Eval.

(* ------------------------------------------------------------------ *)
(* Loop sets *)
Fixpoint lex_ltb (a b : list N) : bool :=
  match a, b with
  | [], [] => false
  | [], _ :: _ => true
  | _ :: _, [] => false
  | x :: a', y :: b' => if x <? y then true else if y <? x then false else lex_ltb a' b'
  end.

Fixpoint insert_by {A} (lt : A -> A -> bool) (x : A) (l : list A) : list A :=
  match l with
  | [] => [x]
  | y :: r => if lt x y then x :: l else y :: insert_by lt x r
  end.
Definition sort_by {A} (lt : A -> A -> bool) (l : list A) : list A :=
  fold_right (insert_by lt) [] l.

(* order on the values the fragment sorts: naturals by magnitude, strings
   lexicographically (other kinds keep their relative order: not generated) *)
Definition jv_ltb (a b : jv) : bool :=
  match a, b with
  | JNat x, JNat y => x <? y
  | JStr s, JStr t => lex_ltb s t
  | _, _ => false
  end.

Definition sort_set (asc : bool) (v : jv) : jv :=
  match v with
  | JObj l =>
    JObj (sort_by (fun a b => if asc then lex_ltb (fst a) (fst b) else lex_ltb (fst b) (fst a)) l)
  | JArr l => JArr (sort_by (fun a b => if asc then jv_ltb a b else jv_ltb b a) l)
  | x => x
  end.

(* Value::GroupBy (after the repair of D12/D13: the key is looked up in every
   element).  The group name is the text of the key's value. *)
Fixpoint remove_key (key : list N) (l : list (list N * jv)) : list (list N * jv) :=
  match l with
  | [] => []
  | (k, v) :: r => if list_eqb k key then r else (k, v) :: remove_key key r
  end.
Fixpoint group_add (name : list N) (item : jv) (groups : list (list N * jv)) : list (list N * jv) :=
  match groups with
  | [] => [(name, JArr [item])]
  | (g, JArr l) :: r => if list_eqb g name then (g, JArr (l ++ [item])) :: r else (g, JArr l) :: group_add name item r
  | x :: r => x :: group_add name item r
  end.
Definition group_name (v : jv) : option (list N) :=
  match char_and_length v with
  | Some s => Some s
  | None => match v with JReal b => real_text_default b | _ => value_text (fun s => s) v end
  end.
Fixpoint group_go (key : list N) (items : list jv) (acc : list (list N * jv)) : option (list (list N * jv)) :=
  match items with
  | [] => Some acc
  | JObj l :: r =>
    match assoc key l with
    | Some kv =>
      match group_name kv with
      | Some nm => group_go key r (group_add nm (JObj (remove_key key l)) acc)
      | None => None
      end
    | None => None
    end
  | _ :: _ => None
  end.
Definition group_by (key : list N) (v : jv) : option jv :=
  match v with
  | JArr [] => None
  | JArr l => match group_go key l [] with Some g => Some (JObj g) | None => None end
  | _ => None
  end.

(* the members a loop visits: (item, key) *)
Definition members (v : jv) : list (jv * list N) :=
  match v with
  | JObj l => flat_map (fun kv => match snd kv with JUndef => [] | x => [(x, fst kv)] end) l
  | JArr l => flat_map (fun x => match x with JUndef => [] | _ => [(x, [])] end) l
  | _ => []
  end.

(* ------------------------------------------------------------------ *)
(* The reference interpreter *)
Section Expand.
  Variable auto : bool.          (* Config::AutoEscapeHTML *)
  Variable w : N.                (* character width selector (entity tables) *)
  Variable root : jv.
  Let esc := var_text_cfg auto w.

  Definition var_out (ctx : list binding) (p : path) (source : list N) : list N :=
    let (v, b) := resolve root ctx p in
    match match v with Some x => value_text esc x | None => None end with
    | Some t => t
    | None =>
      match b with
      | Some bb => match b_key bb with [] => esc source | k => esc k end
      | None => esc source
      end
    end.
  Definition raw_out (ctx : list binding) (p : path) (source : list N) : list N :=
    match match fst (resolve root ctx p) with Some x => value_text (fun s => s) x | None => None end with
    | Some t => t
    | None => source
    end.
  Definition math_out (ctx : list binding) (e : expr) (source : list N) : list N :=
    match eval_expr root ctx e with
    | Some z => dec_z z
    | None => source
    end.
  Definition truth (ctx : list binding) (e : expr) : option bool :=
    match eval_expr root ctx e with Some z => Some (z >? 0)%Z | None => None end.

  (* inline pieces: text, var, raw, math *)
  Definition leaf_out (ctx : list binding) (n : tnode) : list N :=
    match n with
    | TText s => s
    | TVar p => var_out ctx p (print_node n)
    | TRaw p => raw_out ctx p (print_node n)
    | TMath e => math_out ctx e (print_node n)
    | _ => []
    end.

  Fixpoint expand_node (ctx : list binding) (n : tnode) {struct n} : list N :=
    let el := fix el (ctx : list binding) (l : list tnode) {struct l} : list N :=
                match l with [] => [] | x :: r => expand_node ctx x ++ el ctx r end in
    match n with
    | TText _ | TVar _ | TRaw _ | TMath _ => leaf_out ctx n
    | TSVar p subs =>
      match subs with
      | [] => print_node n
      | _ =>
        match match fst (resolve root ctx p) with Some v => char_and_length v | None => None end with
        | Some phrase => svar_go auto w (map (leaf_out ctx) subs) phrase [] 0
        | None => print_node n
        end
      end
    | TIIf c t f =>
      match truth ctx c with
      | Some true => el ctx t
      | Some false => match f with Some fl => el ctx fl | None => [] end
      | None => []
      end
    | TIf c body more =>
      match truth ctx c with
      | Some true => el ctx body
      | _ =>
        (fix pick (l : list (option expr * list tnode)) : list N :=
           match l with
           | [] => []
           | (None, b) :: _ => el ctx b
           | (Some e, b) :: r => match truth ctx e with Some true => el ctx b | _ => pick r end
           end) more
      end
    | TLoop set val group sort body =>
      let s0 := match set with
                | Some p => fst (resolve root ctx p)
                | None => Some root
                end in
      let s1 := match s0 with
                | Some s => match group with [] => Some s | g => group_by g s end
                | None => None
                end in
      match s1 with
      | None => []
      | Some s =>
        let s2 := match sort with 0 => s | 1 => sort_set true s | _ => sort_set false s end in
        (fix each (ms : list (jv * list N)) : list N :=
           match ms with
           | [] => []
           | (item, key) :: r =>
             el ({| b_name := val; b_item := item; b_key := key |} :: ctx) body ++ each r
           end) (members s2)
      end
    end.
  Fixpoint expand_nodes (ctx : list binding) (l : list tnode) : list N :=
    match l with [] => [] | x :: r => expand_node ctx x ++ expand_nodes ctx r end.
End Expand.

(* What Template::Render appends for the printed template of [ast]. *)
Definition expand (auto : bool) (w : N) (root : jv) (ast : list tnode) : list N :=
  expand_nodes auto w root [] ast.
