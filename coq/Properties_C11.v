(* Properties_C11.v -- C11: every finite double survives format(17) -> parse.  PARTIAL.
   NO unbounded theorem: the statement is a joint property of two heuristic
   algorithms (the parser is only within one ulp in general); proving it would need
   an error analysis of the 19-digit cut, the 256-bit scaling and the reciprocal
   tables that is out of reach here.  The statement is kept as a Definition; inside
   Coq only sampled facts are established (vm_compute on the model).  The evidence
   for the property is the correspondence run (model = implementation on the
   intermediate text and the parse result) plus the C++ sweeps (all 2^32 floats in
   the thorough tier). *)
From Coq Require Import NArith List Bool.
From Qv Require Import gen.Tables_digit DigitModel DigitModelSpec DigitProofsInt DigitProofsRoundtrip DigitProofsRoundtripInt.
Import ListNotations.
Local Open Scope N_scope.

(* finite double bit patterns *)
Definition finite_double (bits : N) : Prop := bits < 2 ^ 64 /\ N.land bits dg_d_expmask <> dg_d_expmask.
Definition finite_float (bits : N) : Prop := bits < 2 ^ 32 /\ N.land bits dg_f_expmask <> dg_f_expmask.

(* the full statements (not proved, not refuted: no counterexample is known) *)
Definition c11_roundtrip_all_doubles : Prop := forall bits, finite_double bits -> rt_double_ok bits = true.
Definition c11_roundtrip_all_floats : Prop := forall bits, finite_float bits -> rt_float_ok bits = true.

(* what is established inside Coq: 268 doubles (every 8th binade, extremes, +-0, subnormals, integers)
   and 263 floats round-trip on the model *)
Theorem c11_on_model_sample_double : forallb rt_double_ok rt_sample_double = true.
Proof. exact rt_sample_double_ok. Qed.
Print Assumptions c11_on_model_sample_double.

Theorem c11_on_model_sample_float : forallb rt_float_ok rt_sample_float = true.
Proof. exact rt_sample_float_ok. Qed.
Print Assumptions c11_on_model_sample_float.

(* ================= Phase 3: integers ================= *)
(* double_of_nat n: the bit pattern of the double n (exponent field 1023 + log2 n, mantissa n * 2^(52 - log2 n) - 2^52).
   For EVERY natural 0 < n < 2^53: formatting with 17 digits gives the decimal numeral of n (u64_to_string n,
   proved to be the decimal representation in c10_int_exact) and parsing it gives the natural number n,
   which denotes the same double: the integer paths of both directions compose. *)
Theorem c11_integers_roundtrip : forall n, 0 < n -> n < 2 ^ 53 ->
  roundtrip finfo_double 17 (double_of_nat n)
  = Ok (u64_to_string n, mkPres qn_natural n (N.of_nat (length (u64_to_string n)))).
Proof. exact roundtrip_integer_double. Qed.
Print Assumptions c11_integers_roundtrip.

Theorem c11_integers_examples :
  double_of_nat 1 = 4607182418800017408 /\ double_of_nat 3 = 4613937818241073152
  /\ double_of_nat 9007199254740991 = 4845873199050653695.
Proof. exact double_of_nat_examples. Qed.
Print Assumptions c11_integers_examples.
