(* Properties_C11.v -- C11: every finite double survives format(17) -> parse.  PARTIAL.
   NO unbounded theorem: the statement is a joint property of two heuristic
   algorithms (the parser is only within one ulp in general); proving it would need
   an error analysis of the 19-digit cut, the 256-bit scaling and the reciprocal
   tables that is out of reach here.  The statement is kept as a Definition; inside
   Coq only sampled facts are established (vm_compute on the model).  The evidence
   for the property is the correspondence run (model = implementation on the
   intermediate text and the parse result) plus the C++ sweeps (all 2^32 floats in
   the thorough tier). *)
From Coq Require Import NArith List Bool.
From Qv Require Import gen.Tables_digit DigitModel DigitModelSpec DigitProofsRoundtrip.
Import ListNotations.
Local Open Scope N_scope.

(* finite double bit patterns *)
Definition finite_double (bits : N) : Prop := bits < 2 ^ 64 /\ N.land bits dg_d_expmask <> dg_d_expmask.
Definition finite_float (bits : N) : Prop := bits < 2 ^ 32 /\ N.land bits dg_f_expmask <> dg_f_expmask.

(* the full statements (not proved, not refuted: no counterexample is known) *)
Definition c11_roundtrip_all_doubles : Prop := forall bits, finite_double bits -> rt_double_ok bits = true.
Definition c11_roundtrip_all_floats : Prop := forall bits, finite_float bits -> rt_float_ok bits = true.

(* what is established inside Coq: 268 doubles (every 8th binade, extremes, +-0, subnormals, integers)
   and 263 floats round-trip on the model *)
Theorem c11_on_model_sample_double : forallb rt_double_ok rt_sample_double = true.
Proof. exact rt_sample_double_ok. Qed.
Print Assumptions c11_on_model_sample_double.

Theorem c11_on_model_sample_float : forallb rt_float_ok rt_sample_float = true.
Proof. exact rt_sample_float_ok. Qed.
Print Assumptions c11_on_model_sample_float.
