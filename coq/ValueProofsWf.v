(* ValueProofsWf.v -- member keys stay unique in every object of every document
   reachable by a history (the invariant C18's declarative theorem assumes). *)
From Coq Require Import NArith ZArith List Bool Lia.
From Qv Require Import gen.Tables_value ValueModel ValueProofs ValueProofsObs ValueProofsGroup.
Import ListNotations.

Inductive wf : doc -> Prop :=
| wf_undef : wf DUndef
| wf_ptr : forall i, wf (DPtr i)
| wf_sc : forall s, wf (DSc s)
| wf_arr : forall l, Forall wf l -> wf (DArr l)
| wf_obj : forall b m, NoDup (map fst m) -> Forall (fun kv => wf (snd kv)) m -> wf (DObj b m).

Section DocInd.
  Variable P : doc -> Prop.
  Hypothesis HU : P DUndef.
  Hypothesis HP : forall i, P (DPtr i).
  Hypothesis HS : forall s, P (DSc s).
  Hypothesis HA : forall l, Forall P l -> P (DArr l).
  Hypothesis HO : forall b m, Forall (fun kv => P (snd kv)) m -> P (DObj b m).
  Fixpoint doc_ind' (d : doc) : P d :=
    match d with
    | DUndef => HU
    | DPtr i => HP i
    | DSc s => HS s
    | DArr l => HA l ((fix go (l : list doc) : Forall P l :=
                         match l with [] => Forall_nil _ | x :: r => Forall_cons _ (doc_ind' x) (go r) end) l)
    | DObj b m => HO b m ((fix go (l : members) : Forall (fun kv => P (snd kv)) l :=
                             match l with
                             | [] => Forall_nil _
                             | kv :: r => @Forall_cons _ (fun kv => P (snd kv)) kv r (doc_ind' (snd kv)) (go r)
                             end) m)
    end.
End DocInd.

Definition wfm (m : members) : Prop := NoDup (map fst m) /\ Forall (fun kv => wf (snd kv)) m.

Lemma wf_obj_iff : forall b m, wf (DObj b m) <-> wfm m.
Proof. intros b m. split; [intros H; inversion H; subst; split; assumption|intros [H1 H2]; constructor; assumption]. Qed.

(* ---- association-list operations ---- *)
Lemma put_keys_in : forall k f m x, In x (map fst (m_put k f m)) -> x = k \/ In x (map fst m).
Proof.
  intros k f m x. induction m as [|[k' y] r IH]; cbn [m_put map fst].
  - intros [H|[]]. left. symmetry. exact H.
  - destruct (str_eqb k k') eqn:E; cbn [map fst]; intros [H|H].
    + right. left. exact H.
    + right. right. exact H.
    + right. left. exact H.
    + destruct (IH H) as [H1|H1]; [left; exact H1|right; right; exact H1].
Qed.

Lemma put_wfm : forall k f m,
    wfm m -> (forall o, (forall x, o = Some x -> wf x) -> wf (f o)) -> wfm (m_put k f m).
Proof.
  intros k f m [Hnd Hall] Hf. induction m as [|[k' y] r IH].
  - cbn. split; [constructor; [intros []|constructor]|]. constructor; [|constructor].
    apply Hf. intros x H. discriminate.
  - cbn [map fst] in Hnd. inversion Hnd as [|? ? Hk' Hr]; subst. inversion Hall as [|? ? Hy Hrest]; subst.
    cbn [m_put]. destruct (str_eqb k k') eqn:E.
    + split; [exact Hnd|]. constructor; [|exact Hrest]. cbn [snd]. apply Hf. intros x H. injection H as H. subst. exact Hy.
    + destruct (IH Hr Hrest) as [I1 I2]. split.
      * cbn [map fst]. constructor; [|exact I1]. intros Hin. apply put_keys_in in Hin as [Hin|Hin].
        -- subst. rewrite str_eqb_refl in E. discriminate.
        -- contradiction.
      * constructor; assumption.
Qed.

Lemma remove_wfm : forall k m, wfm m -> wfm (snd (m_remove k m)).
Proof.
  intros k m. induction m as [|[k' y] r IH]; intros [Hnd Hall]; [split; [constructor|constructor]|].
  cbn [map fst] in Hnd. inversion Hnd as [|? ? Hk' Hr]; subst. inversion Hall as [|? ? Hy Hrest]; subst.
  cbn [m_remove]. destruct (str_eqb k k'); [split; assumption|].
  destruct (m_remove k r) as [b r'] eqn:E. cbn [snd] in *. destruct (IH (conj Hr Hrest)) as [I1 I2].
  assert (Hsub : forall x, In x (map fst r') -> In x (map fst r)).
  { clear -E. revert b r' E. induction r as [|[k2 y2] r IHr]; intros b r' E; cbn [m_remove] in E.
    - injection E as _ E. subst. intros x [].
    - destruct (str_eqb k k2).
      + injection E as _ E. subst. intros x H. right. exact H.
      + destruct (m_remove k r) as [b2 r2] eqn:E2. injection E as _ E. subst. cbn [map fst].
        intros x [H|H]; [left; exact H|right; apply (IHr b2 r2 eq_refl); exact H]. }
  split; [cbn [map fst]; constructor; [intros H; apply Hk'; apply Hsub; exact H|exact I1]|constructor; assumption].
Qed.

Lemma merge_wfm : forall src dst, wfm dst -> Forall (fun kv => wf (snd kv)) src -> wfm (m_merge dst src).
Proof.
  unfold m_merge. induction src as [|[k x] r IH]; intros dst Hd Hs; [exact Hd|].
  inversion Hs as [|? ? Hx Hr]; subst. cbn [fold_left fst snd]. apply IH; [|exact Hr].
  apply put_wfm; [exact Hd|]. intros o _. exact Hx.
Qed.

Lemma map_snd_wfm : forall (g : doc -> doc) m,
    wfm m -> (forall x, wf x -> wf (g x)) -> wfm (map (fun kv => (fst kv, g (snd kv))) m).
Proof.
  intros g m [Hnd Hall] Hg. split.
  - rewrite map_map. cbn [fst]. exact Hnd.
  - rewrite Forall_map. cbn [snd]. eapply Forall_impl; [|exact Hall]. intros kv H. apply Hg. exact H.
Qed.

(* ---- copy, compaction ---- *)
Lemma copy_wf : forall d, wf d -> wf (d_copy d).
Proof.
  induction d as [| i | s | l IH | b m IH] using doc_ind'; intros H; try exact H.
  - inversion H as [| | |? Hl|]; subst. cbn [d_copy]. constructor. rewrite Forall_map.
    rewrite Forall_forall in *. intros x Hx. apply IH; [exact Hx|apply Hl; exact Hx].
  - apply wf_obj_iff in H. cbn [d_copy]. apply wf_obj_iff.
    destruct H as [Hnd Hall]. split; [rewrite map_map; exact Hnd|].
    rewrite Forall_map. cbn [snd]. rewrite Forall_forall in *. intros kv Hkv. apply IH; [exact Hkv|apply Hall; exact Hkv].
Qed.

Definition compact_items : list doc -> list doc :=
  fix go (l : list doc) : list doc :=
    match l with [] => [] | x :: r => if d_is_undef x then go r else d_compact x :: go r end.

Lemma compact_wf : forall d, wf d -> wf (d_compact d).
Proof.
  induction d as [| i | s | l IH | b m IH] using doc_ind'; intros H; try exact H.
  - inversion H as [| | |? Hl|]; subst.
    change (d_compact (DArr l)) with (DArr (compact_items l)). constructor. clear H.
    induction l as [|x r IHr]; [constructor|].
    inversion IH as [|? ? Hx Hr]; subst. inversion Hl as [|? ? Wx Wr]; subst.
    cbn [compact_items]. destruct (d_is_undef x); [apply IHr; assumption|].
    constructor; [apply Hx; exact Wx|apply IHr; assumption].
  - apply wf_obj_iff in H. cbn [d_compact]. apply wf_obj_iff.
    destruct H as [Hnd Hall]. split; [rewrite map_map; exact Hnd|].
    rewrite Forall_map. cbn [snd]. rewrite Forall_forall in *. intros kv Hkv. apply IH; [exact Hkv|apply Hall; exact Hkv].
Qed.

(* ---- node-level operations ---- *)
Lemma items_wf : forall d, wf d -> Forall wf (d_items d).
Proof. intros d H. destruct d; try constructor. inversion H; assumption. Qed.
Lemma members_wfm : forall d, wf d -> wfm (d_members d).
Proof. intros d H. destruct d; try (split; constructor). apply wf_obj_iff in H. exact H. Qed.

Lemma repeat_wf : forall n, Forall wf (repeat DUndef n).
Proof. induction n; constructor; [constructor|assumption]. Qed.

Lemma set_nth_wf : forall i y l, wf y -> Forall wf l -> Forall wf (d_set_nth i y l).
Proof.
  induction i as [|i IH]; intros y [|x r] Hy Hl; cbn [d_set_nth].
  - constructor.
  - inversion Hl; subst. constructor; assumption.
  - constructor.
  - inversion Hl; subst. constructor; [assumption|apply IH; assumption].
Qed.

Lemma m_set_nth_wfm : forall i y m, wf y -> wfm m -> wfm (m_set_nth i y m).
Proof.
  induction i as [|i IH]; intros y [|[k x] r] Hy [Hnd Hall]; try (split; assumption).
  - inversion Hall; subst. split; [exact Hnd|constructor; assumption].
  - cbn [map fst] in Hnd. inversion Hnd as [|? ? Hk Hr]; subst. inversion Hall as [|? ? Hx Hrest]; subst.
    destruct (IH y r Hy (conj Hr Hrest)) as [I1 I2]. cbn [m_set_nth]. split.
    + cbn [map fst]. constructor; [|exact I1].
      assert (E : map fst (m_set_nth i y r) = map fst r).
      { clear. revert r. induction i as [|i IHi]; intros [|[k2 x2] r]; try reflexivity. cbn. f_equal. apply IHi. }
      rewrite E. exact Hk.
    + constructor; assumption.
Qed.

Lemma m_drop_nth_wfm : forall i m, wfm m -> wfm (m_drop_nth i m).
Proof.
  induction i as [|i IH]; intros [|[k x] r] [Hnd Hall]; try (split; assumption).
  - cbn [map fst] in Hnd. inversion Hnd; subst. inversion Hall; subst. split; assumption.
  - cbn [map fst] in Hnd. inversion Hnd as [|? ? Hk Hr]; subst. inversion Hall as [|? ? Hx Hrest]; subst.
    destruct (IH r (conj Hr Hrest)) as [I1 I2]. cbn [m_drop_nth]. split; [|constructor; assumption].
    cbn [map fst]. constructor; [|exact I1]. intros Hin. apply Hk.
    clear -Hin. revert r Hin. induction i as [|i IHi]; intros [|[k2 x2] r] Hin; cbn in *; try contradiction.
    + right. exact Hin.
    + destruct Hin as [H|H]; [left; exact H|right; apply IHi; exact H].
Qed.

Lemma idx_fresh_wf : forall (x : option doc) l i,
    (forall y, x = Some y -> wf y) -> Forall wf l ->
    wf (DArr (match x with Some y => d_set_nth i y (d_extend l i) | None => d_extend l i end)).
Proof.
  intros x l i Hx Hl. constructor.
  assert (He : Forall wf (d_extend l i)) by (unfold d_extend; apply Forall_app; split; [exact Hl|apply repeat_wf]).
  destruct x as [y|]; [apply set_nth_wf; [apply Hx; reflexivity|exact He]|exact He].
Qed.

Lemma idx_write_wf : forall d i x d', wf d -> (forall y, x = Some y -> wf y) -> d_idx_write d i x = Some d' -> wf d'.
Proof.
  intros d i x d' Hd Hx H. destruct d as [| j | s | l | b m]; cbn [d_idx_write] in H.
  1-3: injection H as H; subst; apply idx_fresh_wf; [exact Hx|constructor].
  - injection H as H. subst. apply idx_fresh_wf; [exact Hx|inversion Hd; assumption].
  - destruct b; [discriminate|]. apply wf_obj_iff in Hd. destruct (Nat.ltb i (length m)).
    + injection H as H. subst. apply wf_obj_iff. destruct x as [y|]; [apply m_set_nth_wfm; [apply Hx; reflexivity|exact Hd]|exact Hd].
    + injection H as H. subst. apply idx_fresh_wf; [exact Hx|constructor].
Qed.

Lemma key_write_wf : forall d k x, wf d -> (forall y, x = Some y -> wf y) -> wf (d_key_write d k x).
Proof.
  intros d k x Hd Hx. unfold d_key_write. apply wf_obj_iff. apply put_wfm; [apply members_wfm; exact Hd|].
  intros o Ho. destruct x as [y|]; [apply Hx; reflexivity|]. destruct o as [z|]; [apply Ho; reflexivity|constructor].
Qed.

Lemma append_wf : forall d x, wf d -> wf x -> wf (d_append d x).
Proof.
  intros d x Hd Hx. unfold d_append. constructor. apply Forall_app. split; [apply items_wf; exact Hd|constructor; [exact Hx|constructor]].
Qed.

Lemma copy_members_wf : forall m, Forall (fun kv => wf (snd kv)) m -> Forall (fun kv => wf (snd kv)) (d_copy_members m).
Proof.
  intros m H. unfold d_copy_members. rewrite Forall_map. cbn [snd]. eapply Forall_impl; [|exact H].
  intros kv Hkv. apply copy_wf. exact Hkv.
Qed.

Lemma append_v_wf : forall mv d1 d2, wf d1 -> wf d2 -> wf (fst (d_append_v mv d1 d2)) /\ wf (snd (d_append_v mv d1 d2)).
Proof.
  intros mv d1 d2 H1 H2. unfold d_append_v.
  assert (Hgen : wf (fst (if mv then (d_append d1 d2, DUndef) else (d_append d1 (d_copy d2), d2)))
                 /\ wf (snd (if mv then (d_append d1 d2, DUndef) else (d_append d1 (d_copy d2), d2)))).
  { destruct mv; cbn [fst snd]; split;
      [apply append_wf; assumption | constructor | apply append_wf; [assumption|apply copy_wf; assumption] | assumption]. }
  destruct d1 as [| j | s | l | b1 m1]; try exact Hgen.
  destruct d2 as [| j' | s' | l' | b2 m2]; try exact Hgen. clear Hgen.
  apply wf_obj_iff in H1. pose proof H2 as H2'. apply wf_obj_iff in H2. destruct H2 as [_ A2].
  destruct mv; cbn [fst snd]; split.
  - apply wf_obj_iff. apply merge_wfm; assumption.
  - constructor.
  - apply wf_obj_iff. apply merge_wfm; [assumption|apply copy_members_wf; assumption].
  - exact H2'.
Qed.

Lemma filter_wf : forall f (l : list doc), Forall wf l -> Forall wf (filter f l).
Proof. intros f l H. rewrite Forall_forall in *. intros x Hx. apply filter_In in Hx as [Hx _]. apply H. exact Hx. Qed.

Lemma merge_v_wf : forall mv d1 d2, wf d1 -> wf d2 -> wf (fst (d_merge_v mv d1 d2)) /\ wf (snd (d_merge_v mv d1 d2)).
Proof.
  intros mv d1 d2 H1 H2. unfold d_merge_v. cbn [fst snd]. split; [|destruct mv; [constructor|exact H2]].
  assert (H1' : wf (if d_is_undef d1 then DArr [] else d1)) by (destruct (d_is_undef d1); [constructor; constructor|exact H1]).
  destruct (if d_is_undef d1 then DArr [] else d1) as [| j | s | l1 | b1 m1]; try exact H1'.
  - destruct d2 as [| j' | s' | l2 | b2 m2]; try exact H1'. constructor. inversion H1'; subst. inversion H2; subst.
    apply Forall_app. split; [assumption|]. destruct mv; [apply filter_wf; assumption|].
    rewrite Forall_map. eapply Forall_impl; [|apply filter_wf; eassumption]. intros a Ha. apply copy_wf. exact Ha.
  - destruct d2 as [| j' | s' | l2 | b2 m2]; try exact H1'. apply wf_obj_iff in H1'. apply wf_obj_iff in H2.
    destruct H2 as [_ A2]. apply wf_obj_iff. apply merge_wfm; [exact H1'|]. destruct mv; [exact A2|apply copy_members_wf; exact A2].
Qed.

Lemma insert_v_wf : forall d1 k d2, wf d1 -> wf d2 -> wf (fst (d_insert_v d1 k d2)) /\ wf (snd (d_insert_v d1 k d2)).
Proof.
  intros d1 k d2 H1 H2. unfold d_insert_v. cbn [fst snd]. split; [|constructor].
  apply wf_obj_iff. apply put_wfm; [apply members_wfm; exact H1|]. intros o _. exact H2.
Qed.

Lemma remove_key_wf : forall d k, wf d -> wf (d_remove_key d k).
Proof.
  intros d k H. destruct d as [| j | s | l | b m]; try exact H. cbn [d_remove_key].
  apply wf_obj_iff in H. pose proof (remove_wfm k m H) as R. destruct (m_remove k m) as [f m']. apply wf_obj_iff. exact R.
Qed.

Lemma remove_index_wf : forall d i d', wf d -> d_remove_index d i = Some d' -> wf d'.
Proof.
  intros d i d' H E. destruct d as [| j | s | l | b m]; cbn [d_remove_index] in E; try (injection E as E; subst; exact H).
  - injection E as E. subst. destruct (Nat.ltb i (length l)); [|exact H]. constructor. inversion H; subst.
    apply set_nth_wf; [constructor|assumption].
  - destruct b; [discriminate|]. injection E as E. subst. destruct (Nat.ltb i (length m)); [|exact H].
    apply wf_obj_iff in H. apply wf_obj_iff. apply m_drop_nth_wfm. exact H.
Qed.

Lemma empty_kind_wf : forall k, wf (d_empty_of_kind k).
Proof.
  intros k. unfold d_empty_of_kind.
  repeat match goal with |- context [N.eqb k ?c] => destruct (N.eqb k c) end;
    try constructor; try constructor.
Qed.

Lemma assign_cont_wf : forall d1 d2, wf d1 -> wf d2 -> wf (fst (d_assign_cont d1 d2)) /\ wf (snd (d_assign_cont d1 d2)).
Proof.
  intros d1 d2 H1 H2. unfold d_assign_cont. cbn [fst snd]. split; [|exact H2].
  destruct d2; try exact H1; apply copy_wf; exact H2.
Qed.

Lemma append_cont_wf : forall d1 d2, wf d1 -> wf d2 -> wf (fst (d_append_cont d1 d2)) /\ wf (snd (d_append_cont d1 d2)).
Proof.
  intros d1 d2 H1 H2. unfold d_append_cont. cbn [fst snd]. split; [|exact H2].
  destruct d2 as [| j | s | l2 | b2 m2]; try exact H1.
  - destruct l2 as [|x l2]; [apply append_wf; [exact H1|constructor; constructor]|].
    constructor. apply Forall_app. split; [apply items_wf; exact H1|]. inversion H2; subst.
    rewrite Forall_map. eapply Forall_impl; [|eassumption]. intros a Ha. apply copy_wf. exact Ha.
  - destruct d1 as [| j | s | l1 | b1 m1]; try (apply append_wf; [exact H1|apply copy_wf; exact H2]).
    apply wf_obj_iff in H1. apply wf_obj_iff in H2. destruct H2 as [_ A2]. apply wf_obj_iff.
    apply merge_wfm; [exact H1|apply copy_members_wf; exact A2].
Qed.

(* ---- paths ---- *)
Lemma find_wf : forall k m x, Forall (fun kv => wf (snd kv)) m -> m_find k m = Some x -> wf x.
Proof.
  intros k m x H. induction m as [|[k' y] r IH]; cbn [m_find]; [discriminate|].
  inversion H as [|? ? Hy Hr]; subst. destruct (str_eqb k k'); [intros E; injection E as E; subst; exact Hy|apply IH; exact Hr].
Qed.

Lemma get_at_wf : forall p d x, wf d -> d_get_at p d = Some x -> wf x.
Proof.
  induction p as [|[k|i] r IH]; intros d x Hd E; cbn [d_get_at] in E.
  - injection E as E. subst. exact Hd.
  - destruct d as [| j | s | l | b m]; try discriminate. apply wf_obj_iff in Hd. destruct Hd as [_ Hall].
    destruct (m_find k m) as [y|] eqn:Ef; [|discriminate]. destruct (d_is_undef y); [discriminate|].
    apply (IH y x); [apply (find_wf k m y Hall Ef)|exact E].
  - destruct d as [| j | s | l | b m]; try discriminate. inversion Hd as [| | |? Hl|]; subst.
    destruct (nth_error l i) as [y|] eqn:En; [|discriminate]. destruct (d_is_undef y); [discriminate|].
    apply (IH y x); [|exact E]. rewrite Forall_forall in Hl. apply Hl. eapply nth_error_In. exact En.
Qed.

Definition preserves (g : doc -> option doc) : Prop := forall x y, wf x -> g x = Some y -> wf y.

Lemma upd_member_wfm : forall k g m m', preserves g -> wfm m -> d_upd_member k g m = Some m' -> wfm m'.
Proof.
  intros k g m. induction m as [|[k' x] r IH]; intros m' Hg [Hnd Hall] E; cbn [d_upd_member] in E; [discriminate|].
  cbn [map fst] in Hnd. inversion Hnd as [|? ? Hk Hr]; subst. inversion Hall as [|? ? Hx Hrest]; subst.
  destruct (str_eqb k k').
  - destruct (d_is_undef x); [discriminate|]. destruct (g x) as [y|] eqn:Eg; [|discriminate]. injection E as E. subst.
    split; [exact Hnd|constructor; [apply (Hg x y Hx Eg)|exact Hrest]].
  - destruct (d_upd_member k g r) as [r'|] eqn:Er; [|discriminate]. injection E as E. subst.
    destruct (IH r' Hg (conj Hr Hrest) eq_refl) as [I1 I2].
    assert (Ek : map fst r' = map fst r).
    { clear -Er. revert r' Er. induction r as [|[k2 x2] r IHr]; intros r' Er; cbn [d_upd_member] in Er; [discriminate|].
      destruct (str_eqb k k2).
      - destruct (d_is_undef x2); [discriminate|]. destruct (g x2); [|discriminate]. injection Er as Er. subst. reflexivity.
      - destruct (d_upd_member k g r) as [r2|]; [|discriminate]. injection Er as Er. subst. cbn. f_equal. apply IHr. reflexivity. }
    split; [cbn [map fst]; rewrite Ek; exact Hnd|constructor; assumption].
Qed.

Lemma upd_nth_wf : forall i g l l', preserves g -> Forall wf l -> d_upd_nth i g l = Some l' -> Forall wf l'.
Proof.
  induction i as [|i IH]; intros g [|x r] l' Hg Hl E; cbn [d_upd_nth] in E; try discriminate;
    inversion Hl as [|? ? Hx Hr]; subst.
  - destruct (d_is_undef x); [discriminate|]. destruct (g x) as [y|] eqn:Eg; [|discriminate]. injection E as E. subst.
    constructor; [apply (Hg x y Hx Eg)|exact Hr].
  - destruct (d_upd_nth i g r) as [r'|] eqn:Er; [|discriminate]. injection E as E. subst.
    constructor; [exact Hx|apply (IH g r r' Hg Hr Er)].
Qed.

Lemma upd_at_wf : forall p f, preserves f -> preserves (d_upd_at p f).
Proof.
  induction p as [|[k|i] r IH]; intros f Hf d d' Hd E; cbn [d_upd_at] in E.
  - apply (Hf d d' Hd E).
  - destruct d as [| j | s | l | b m]; try discriminate. apply wf_obj_iff in Hd.
    destruct (d_upd_member k (d_upd_at r f) m) as [m'|] eqn:Em; [|discriminate]. injection E as E. subst.
    apply wf_obj_iff. apply (upd_member_wfm k _ m m' (IH f Hf) Hd Em).
  - destruct d as [| j | s | l | b m]; try discriminate. inversion Hd as [| | |? Hl|]; subst.
    destruct (d_upd_nth i (d_upd_at r f) l) as [l'|] eqn:El; [|discriminate]. injection E as E. subst.
    constructor. apply (upd_nth_wf i _ l l' (IH f Hf) Hl El).
Qed.

(* ---- states ---- *)
Definition wfs (st : dstate) : Prop := Forall wf st.

Lemma set_var_wfs : forall i x st, wf x -> wfs st -> wfs (d_set_var i x st).
Proof.
  induction i as [|i IH]; intros x [|y r] Hx Hs; cbn [d_set_var]; try constructor; inversion Hs; subst; try assumption.
  apply IH; assumption.
Qed.

Lemma ds_get_wf : forall st t x, wfs st -> ds_get st t = Some x -> wf x.
Proof.
  intros st t x Hs E. unfold ds_get in E. destruct (nth_error st (fst t)) as [v|] eqn:En; [|discriminate].
  apply (get_at_wf (snd t) v x); [|exact E]. unfold wfs in Hs. rewrite Forall_forall in Hs. apply Hs. eapply nth_error_In. exact En.
Qed.

Lemma ds_upd_wfs : forall st t f st', preserves f -> wfs st -> ds_upd st t f = Some st' -> wfs st'.
Proof.
  intros st t f st' Hf Hs E. unfold ds_upd in E. destruct (nth_error st (fst t)) as [v|] eqn:En; [|discriminate].
  destruct (d_upd_at (snd t) f v) as [v'|] eqn:Eu; [|discriminate]. injection E as E. subst.
  apply set_var_wfs; [|exact Hs]. apply (upd_at_wf (snd t) f Hf v v'); [|exact Eu].
  unfold wfs in Hs. rewrite Forall_forall in Hs. apply Hs. eapply nth_error_In. exact En.
Qed.

Lemma ds_set_wfs : forall st t x st', wf x -> wfs st -> ds_set st t x = Some st' -> wfs st'.
Proof.
  intros st t x st' Hx Hs E. unfold ds_set in E. refine (ds_upd_wfs st t _ st' _ Hs E).
  intros a b _ Hb. injection Hb as Hb. subst. exact Hx.
Qed.

Definition oc_wfs (o : outcome dstate) : Prop := match o with Done st _ => wfs st | _ => True end.

Lemma unary_wfs : forall st t f, preserves f -> wfs st -> oc_wfs (d_unary st t f).
Proof.
  intros st t f Hf Hs. unfold d_unary. destruct (ds_get st t) as [v|] eqn:Eg; [|exact Logic.I].
  destruct (f v) as [v'|] eqn:Ef; [|exact Logic.I].
  destruct (ds_set st t v') as [st'|] eqn:Es; [|exact Logic.I]. cbn [oc_wfs].
  apply (ds_set_wfs st t v' st'); [|exact Hs|exact Es]. apply (Hf v v'); [apply (ds_get_wf st t v Hs Eg)|exact Ef].
Qed.

Lemma binary_wfs : forall st t1 t2 g,
    (forall a b, wf a -> wf b -> wf (fst (g a b)) /\ wf (snd (g a b))) -> wfs st -> oc_wfs (d_binary st t1 t2 g).
Proof.
  intros st t1 t2 g Hg Hs. unfold d_binary. destruct (related t1 t2); [exact Logic.I|].
  destruct (ds_get st t1) as [v1|] eqn:E1; [|exact Logic.I]. destruct (ds_get st t2) as [v2|] eqn:E2; [|exact Logic.I].
  destruct (Hg v1 v2 (ds_get_wf _ _ _ Hs E1) (ds_get_wf _ _ _ Hs E2)) as [G1 G2].
  destruct (g v1 v2) as [d s]. cbn [fst snd] in *.
  destruct (ds_set st t2 s) as [st1|] eqn:S1; [|exact Logic.I].
  destruct (ds_set st1 t1 d) as [st2|] eqn:S2; [|exact Logic.I]. cbn [oc_wfs].
  apply (ds_set_wfs st1 t1 d st2 G1); [|exact S2]. apply (ds_set_wfs st t2 s st1 G2 Hs S1).
Qed.

Lemma assign_op_wfs : forall st t1 t2 mv ctor, wfs st -> oc_wfs (d_assign_op st t1 t2 mv ctor).
Proof.
  intros st t1 t2 mv ctor Hs. unfold d_assign_op.
  destruct (ds_get st t1) as [v1|] eqn:E1; [|exact Logic.I]. destruct (ds_get st t2) as [v2|] eqn:E2; [|exact Logic.I].
  pose proof (ds_get_wf _ _ _ Hs E2) as W2.
  destruct (same_target t1 t2).
  - destruct (ctor && negb mv); [|exact Hs].
    destruct (ds_set st t1 (d_copy v2)) as [st'|] eqn:S; [|exact Logic.I]. apply (ds_set_wfs _ _ _ _ (copy_wf _ W2) Hs S).
  - destruct mv.
    + destruct (src_is_ancestor t1 t2); [exact Logic.I|].
      destruct (ds_set st t2 DUndef) as [st1|] eqn:S1; [|exact Logic.I].
      destruct (ds_set st1 t1 v2) as [st2|] eqn:S2; [|exact Logic.I].
      apply (ds_set_wfs _ _ _ _ W2 (ds_set_wfs _ _ _ _ wf_undef Hs S1) S2).
    + destruct (ds_set st t1 (d_copy v2)) as [st'|] eqn:S; [|exact Logic.I]. apply (ds_set_wfs _ _ _ _ (copy_wf _ W2) Hs S).
Qed.

(* ---- GroupBy ---- *)
Lemma sub_first_wfm : forall k m acc seen,
    Forall (fun kv => wf (snd kv)) m -> wfm acc -> wfm (d_sub_object_first k m acc seen).
Proof.
  intros k m. induction m as [|[k' x] r IH]; intros acc seen Hm Ha; [exact Ha|].
  inversion Hm as [|? ? Hx Hr]; subst. cbn [d_sub_object_first].
  destruct (negb seen && str_eqb k k'); [apply IH; assumption|]. apply IH; [exact Hr|].
  destruct (d_is_undef x); [exact Ha|]. apply put_wfm; [exact Ha|]. intros o _. apply copy_wf. exact Hx.
Qed.

Lemma group_step_wfm : forall k e acc acc', wf e -> wfm acc -> d_group_step k e acc = Some acc' -> wfm acc'.
Proof.
  intros k e acc acc' He Ha E. destruct e as [| j | s | l | b m]; try discriminate. cbn [d_group_step] in E.
  destruct (m_find k m) as [kv|]; [|discriminate]. destruct (d_group_name kv) as [nm|]; [|discriminate].
  injection E as E. subst. apply wf_obj_iff in He. destruct He as [_ Hall].
  apply put_wfm; [exact Ha|]. intros o Ho. apply append_wf.
  - destruct o as [z|]; [apply Ho; reflexivity|constructor].
  - apply wf_obj_iff. apply sub_first_wfm; [exact Hall|split; constructor].
Qed.

Lemma group_loop_wfm : forall k l acc, Forall wf l -> wfm acc -> wfm (snd (d_group_loop k l acc)).
Proof.
  intros k l. induction l as [|e r IH]; intros acc Hl Ha; [exact Ha|].
  inversion Hl as [|? ? He Hr]; subst. cbn [d_group_loop].
  destruct (d_group_step k e acc) as [acc'|] eqn:E; [|exact Ha].
  apply IH; [exact Hr|apply (group_step_wfm k e acc acc' He Ha E)].
Qed.

Lemma dpool_wf : forall id, wf (dpool_get id).
Proof.
  assert (H : Forall wf dpool).
  { unfold dpool, pool. cbn [map abs].
    repeat constructor; cbn; try (intros [H|H]; [discriminate|contradiction]); try (intros []). }
  intros id. unfold dpool_get. destruct (nth_error dpool id) as [d|] eqn:E.
  - rewrite (nth_error_nth _ _ _ E). rewrite Forall_forall in H. apply H. eapply nth_error_In. exact E.
  - rewrite nth_overflow; [constructor|]. apply nth_error_None. exact E.
Qed.

Lemma group_by_wf : forall d k ok g, wf d -> d_group_by d k = (ok, Some g) -> wf g.
Proof.
  intros d k ok g Hd E. unfold d_group_by in E.
  assert (Hdd : wf (d_deref d)) by (destruct d; try exact Hd; apply dpool_wf).
  destruct (d_deref d) as [| j | s | l | b m]; try discriminate.
  destruct l as [|e r].
  - injection E as _ E. subst. apply wf_obj_iff. split; constructor.
  - pose proof (group_loop_wfm k (e :: r) [] ltac:(inversion Hdd; assumption) ltac:(split; constructor)) as H.
    destruct (d_group_loop k (e :: r) []) as [ok' g']. injection E as _ E. subst. apply wf_obj_iff. exact H.
Qed.

(* ---- steps and histories ---- *)
Lemma step_wfs : forall st o, wfs st -> oc_wfs (d_step st o).
Proof.
  intros st o Hs. destruct o; unfold d_step; cbn [d_step_g].
  - exact Hs.
  - apply unary_wfs; [|exact Hs]. intros a b _ E. injection E as E. subst. constructor.
  - apply unary_wfs; [|exact Hs]. intros a b Ha E. injection E as E. subst. apply key_write_wf; [exact Ha|].
    intros y Hy. destruct p; [injection Hy as Hy; subst; constructor|discriminate].
  - apply unary_wfs; [|exact Hs]. intros a b Ha E. apply (idx_write_wf a i (option_map DSc p) b Ha); [|exact E].
    intros y Hy. destruct p; [injection Hy as Hy; subst; constructor|discriminate].
  - apply unary_wfs; [|exact Hs]. intros a b Ha E. injection E as E. subst. apply append_wf; [exact Ha|constructor].
  - apply binary_wfs; [|exact Hs]. intros a b. apply append_v_wf.
  - apply binary_wfs; [|exact Hs]. intros a b. apply merge_v_wf.
  - apply binary_wfs; [|exact Hs]. intros a b. apply insert_v_wf.
  - apply unary_wfs; [|exact Hs]. intros a b Ha E. injection E as E. subst. apply remove_key_wf. exact Ha.
  - apply unary_wfs; [|exact Hs]. intros a b Ha E. apply (remove_index_wf a i b Ha E).
  - apply unary_wfs; [|exact Hs]. intros a b _ E. injection E as E. subst. constructor.
  - apply unary_wfs; [|exact Hs]. intros a b Ha E. injection E as E. subst. apply compact_wf. exact Ha.
  - apply assign_op_wfs. exact Hs.
  - apply assign_op_wfs. exact Hs.
  - apply unary_wfs; [|exact Hs]. intros a b _ E. injection E as E. subst. destruct id; constructor.
  - apply unary_wfs; [|exact Hs]. intros a b Ha E. injection E as E. subst. apply append_wf; [exact Ha|destruct id; constructor].
  - apply unary_wfs; [|exact Hs]. intros a b _ E. injection E as E. subst. repeat constructor.
  - destruct (ds_get st t); exact Hs || exact Logic.I.
  - destruct (related t1 t2); [exact Logic.I|].
    destruct (ds_get st t1) as [v1|] eqn:E1; [|exact Logic.I]. destruct (ds_get st t2) as [v2|] eqn:E2; [|exact Logic.I].
    destruct (d_group_by v2 k) as [ok [g|]] eqn:Eg; [|exact Hs].
    destruct (ds_set st t1 g) as [st'|] eqn:S; [|exact Logic.I]. cbn [oc_wfs].
    apply (ds_set_wfs st t1 g st'); [|exact Hs|exact S]. apply (group_by_wf v2 k ok g (ds_get_wf _ _ _ Hs E2) Eg).
  - destruct (ds_get st t); exact Hs || exact Logic.I.
  - apply unary_wfs; [|exact Hs]. intros a b _ E. injection E as E. subst. apply empty_kind_wf.
  - apply binary_wfs; [|exact Hs]. intros a b. apply assign_cont_wf.
  - apply binary_wfs; [|exact Hs]. intros a b. apply append_cont_wf.
Qed.

Theorem reachable_wfs : forall ops st, wfs st -> oc_wfs (d_final st ops).
Proof.
  induction ops as [|o r IH]; intros st Hs; [exact Hs|].
  cbn [d_final]. pose proof (step_wfs st o Hs) as H.
  destruct (d_step st o) as [st' out| |]; [apply IH; exact H|apply IH; exact Hs|exact Logic.I].
Qed.

Lemma init_wfs : wfs d_init.
Proof. repeat constructor. Qed.

(* C18 over reachable states: whatever history built the array, GroupBy returns
   partition_by_key wherever that is defined *)
Theorem reachable_group_by_is_partition : forall ops st out t recs k g,
    d_final d_init ops = Done st out ->
    ds_get st t = Some (DArr recs) ->
    partition_by_key recs k = Some g ->
    d_group_by (DArr recs) k = (true, Some g).
Proof.
  intros ops st out t recs k g Hf Hg Hp.
  pose proof (reachable_wfs ops d_init init_wfs) as Hw. rewrite Hf in Hw. cbn [oc_wfs] in Hw.
  pose proof (ds_get_wf st t _ Hw Hg) as Wr. inversion Wr as [| | |? Hl|]; subst.
  apply group_by_is_partition_by_key; [|exact Hp].
  eapply Forall_impl; [|exact Hl]. intros r Hr. destruct (members_wfm r Hr) as [Hnd _]. exact Hnd.
Qed.

(* the same on the model of the C++: after ANY history, GroupBy on any value
   the history built whose abstraction is an array of records returns
   partition_by_key of those records wherever that is defined *)
Theorem model_group_by_is_partition : forall ops st out t v recs k g,
    final init_state ops = Done st out ->
    st_get st t = Some v ->
    abs v = DArr recs ->
    partition_by_key recs k = Some g ->
    gb_abs (group_by v k) = (true, Some g).
Proof.
  intros ops st out t v recs k g Hf Hg Ha Hp.
  pose proof (history_refines ops init_state) as Hr. rewrite Hf in Hr. cbn [oc_abs] in Hr.
  change (abss init_state) with d_init in Hr. symmetry in Hr.
  pose proof (st_get_abs st t) as Hga. rewrite Hg in Hga. cbn [oabs option_map] in Hga. rewrite Ha in Hga. symmetry in Hga.
  rewrite group_by_abs, Ha.
  apply (reachable_group_by_is_partition ops (abss st) out t recs k g Hr Hga Hp).
Qed.
