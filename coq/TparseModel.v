(* TparseModel.v -- Template.hpp::parse (TemplateCore<...>::parse, checkLoopVariable,
   parseLoopAttributes, parseIfCase, areInLineIfSubTagsValid) and the reads of
   parseExpressions / parseValue / getOperation / isExpression, as a state
   machine over the Finder model (FinderModel.v).  DEFINITIONS ONLY.

   The code modelled is /repo as it is now (with the repairs D21-D27, D34, D80) plus
   findings/D70 (areInLineIfSubTagsValid rejects a sub tag that is not a
   variable / raw variable / math tag instead of reading it as a VariableTag) and
   findings/D71 (an inline if longer than 65535 units is not a tag) and
   findings/D72 (a '}' that pops the storage of an open loop resets loop_tag to
   the loop's Parent; without it loop_tag can dangle: heap-use-after-free) and
   findings/D73 (an inline if re-opened by a '}' inside a value is not validated and
   keeps nothing of the partial attribute scan) and findings/D75 (an inline if whose
   start id does not fit 8 bits is dropped) and findings/D91 (a <loop> opened while more than
   255 tags are open is left as text: Level is 8 bits wide, see TparseLevels.v).

   Representation.
   * offsets are [nat] (SizeT; texts shorter than 2^32 units), code units and the
     narrow fields of Tags.hpp are [N]; SizeT8 / SizeT16 stores are [t8] / [t16]
     (mod 2^8, mod 2^16), "& 0xFF" is [t8] as well.
   * every content[i] is [rd site i]: [Error (EOob site)] when i >= length.
   * every unsigned subtraction is [csub site a b]: [Error (ENeg site)] when a < b.
   * arrays of tags are lists.  [ps_stack] is parent_storage (innermost first):
     each entry is the complete contents of that array; [ps_cur] is the array
     [storage] points to.  In the C++ [storage] is the open child array of the
     last element of parent_storage.Last(); the model keeps a copy, and writes it
     back into that element when the entry is popped ([writeback]); a last
     element that is missing ([EEmpty]) or of a kind without sub tags ([EKind])
     is an error, as is Last() of an empty array and Get<Kind>Tag() on a record
     of another kind.
   * loop_tag is the list [ps_chain] of the (immutable after the head is parsed)
     fields checkLoopVariable reads, innermost first; LoopTag::Parent is the
     chain at the time the loop was opened ([l_parent]).  Pointer liveness is not
     modelled by an error; instead TparseSafety.v proves that the chain is always
     exactly the list of the loops whose storage is on the parent_storage stack
     ([chain_is_open_loops]), i.e. records that are alive.
   * expressions: the tree of QExpression records with Operation, Type, the
     VariableTag of a variable operand (incl. IDLength / Level from
     checkLoopVariable) and Value.Offset / Value.Length of a text operand; a
     number operand is the result of the number scanner [numf] on the slice
     (instantiated with DigitModel.string_to_number; the proofs hold for any
     [numf]).  Evaluation is ExprModel.v.
   * loops: structural recursion or fuel ([Error EFuel]). *)
From Coq Require Import NArith List Bool Arith.
From Qv Require Import gen.Tables_tmpl gen.Tables_expr gen.Tables_tparse FinderModel.
From Qv Require DigitModel.
Import ListNotations.

Inductive perr :=
| EOob (site : N)        (* content[i] with i >= length *)
| EEmpty (site : N)      (* Last() of an empty array dereferenced *)
| EKind (site : N)       (* a tag record read as another kind *)
| ENeg (site : N)        (* unsigned subtraction below zero *)
| EFuel.

Inductive res (A : Type) :=
| Ok (a : A)
| Error (e : perr).
Arguments Ok {A} a.
Arguments Error {A} e.

Definition bind {A B} (x : res A) (f : A -> res B) : res B :=
  match x with Ok a => f a | Error e => Error e end.

Definition t8 (n : nat) : N := (N.of_nat n mod 256)%N.
Definition t16 (n : nat) : N := (N.of_nat n mod 65536)%N.

(* ---- records of Tags.hpp / VariableTag.hpp / QExpression.hpp ---- *)
Record vtag := mkV { v_off : nat; v_len : N; v_idlen : N; v_level : N }.

Inductive qexpr :=
| QNum (op kind bits : N)                 (* Natural / Integer / Real literal: QNumberType, the 64 bits *)
| QText (op : N) (off len : nat)          (* NotANumber: Value.Offset, Value.Length *)
| QVar (op : N) (v : vtag)                (* Variable *)
| QSub (op : N) (l : list qexpr).         (* SubOperation *)

(* what checkLoopVariable reads of a LoopTag *)
Record loopinfo := mkLI { li_off : nat; li_voff : N; li_vlen : N; li_level : N }.

Record looprec := mkL {
  l_off : nat; l_end : nat; l_coff : N;
  l_voff : N; l_vlen : N; l_goff : N; l_glen : N; l_opts : N; l_level : N;
  l_set : vtag; l_parent : list loopinfo }.

Record iifrec := mkI {
  i_off : nat; i_len : N; i_toff : N; i_tlen : N; i_foff : N; i_flen : N; i_tid : N; i_fid : N }.

Inductive tag :=
| PVar (v : vtag)
| PRaw (v : vtag)
| PMath (off endoff : nat) (e : list qexpr)
| PSVar (off endoff : nat) (v : vtag) (subs : list tag)
| PIIf (i : iifrec) (c : list qexpr) (subs : list tag)
| PLoop (l : looprec) (subs : list tag)
| PIf (off endoff : nat) (cases : list ifcase)
with ifcase :=
| PCase (off endoff : nat) (c : list qexpr) (subs : list tag).

Definition info_of (l : looprec) : loopinfo := mkLI (l_off l) (l_voff l) (l_vlen l) (l_level l).

(* (all but the last element, the last element) *)
Fixpoint split_last {A} (l : list A) : option (list A * A) :=
  match l with
  | [] => None
  | x :: r => match split_last r with None => Some ([], x) | Some (i, y) => Some (x :: i, y) end
  end.

Definition slice (c : list N) (a b : nat) : list N := firstn (b - a) (skipn a c).

Section Parse.
  Variable numf : list N -> N * N * nat.     (* number scanner: (QNumberType, bits, units consumed) *)
  Variable w : N.                            (* width selector of the Finder tables *)
  Variable content : list N.
  Let len := length content.

  Definition rd (site : N) (i : nat) : res N :=
    match nth_error content i with Some c => Ok c | None => Error (EOob site) end.
  Definition csub (site : N) (a b : nat) : res nat :=
    if b <=? a then Ok (a - b) else Error (ENeg site).

  (* Finder::Next from cursor [fo]: (match, new cursor) *)
  Definition fnext (fo : nat) : res (N * nat) :=
    match next_w w content fo with FOk m o => Ok (m, o) | FErr => Error (EOob 1) end.

  (* while ((offset < e) && p(content[offset])) ++offset;   call with fuel = e - offset *)
  Fixpoint skip_while (site : N) (p : N -> bool) (fuel off e : nat) : res nat :=
    if off <? e then
      match fuel with
      | O => Error EFuel
      | S k => bind (rd site off) (fun ch => if p ch then skip_while site p k (S off) e else Ok off)
      end
    else Ok off.
  Definition skip_eq (site : N) (c : N) (off e : nat) := skip_while site (fun ch => N.eqb ch c) (e - off) off e.
  Definition skip_ne (site : N) (c : N) (off e : nat) := skip_while site (fun ch => negb (N.eqb ch c)) (e - off) off e.
  (* do { ++offset; } while ((offset < e) && (content[offset] == c)) *)
  Definition skip_eq_do (site : N) (c : N) (off e : nat) := skip_eq site c (S off) e.
  Definition skip_ne_do (site : N) (c : N) (off e : nat) := skip_ne site c (S off) e.

  (* StringUtils::IsEqual(content + off, word, |word|): sequential, stops at the first difference *)
  Fixpoint is_equal_at (site : N) (off : nat) (word : list N) : res bool :=
    match word with
    | [] => Ok true
    | wc :: wr => bind (rd site off) (fun ch => if N.eqb ch wc then is_equal_at site (S off) wr else Ok false)
    end.
  (* ((e - off) > |word|) && IsEqual(content + off, word, |word|) *)
  Definition word_at (site : N) (off e : nat) (word : list N) : res bool :=
    if length word <? e - off then is_equal_at site off word else Ok false.

  (* StringUtils::IsEqual(content + a, content + b, n) *)
  Fixpoint is_equal_cc (site : N) (a b n : nat) : res bool :=
    match n with
    | O => Ok true
    | S k => bind (rd site a) (fun x => bind (rd site b) (fun y =>
               if N.eqb x y then is_equal_cc site (S a) (S b) k else Ok false))
    end.

  (* checkLoopVariable *)
  Fixpoint check_loop_variable (v : vtag) (chain : list loopinfo) : res vtag :=
    match chain with
    | [] => Ok v
    | l :: r =>
      if N.eqb (li_vlen l) 0 then check_loop_variable v r
      else bind (is_equal_cc 10 (v_off v) (li_off l + N.to_nat (li_voff l)) (N.to_nat (li_vlen l))) (fun b =>
             if b then Ok (mkV (v_off v) (v_len v) (li_vlen l) (li_level l))
             else check_loop_variable v r)
    end.

  (* ---------------------------------------------------------------- *)
  (* expressions: getOperation / isExpression / parseValue / parseExpressions *)

  Fixpoint is_expression (offset : nat) : res bool :=
    match offset with
    | O => Ok false
    | S o' =>
      bind (rd 20 o') (fun ch =>
        if N.eqb ch sym_Space then is_expression o'
        else if N.eqb ch sym_ParenEnd || N.eqb ch sym_BracketEnd then Ok true
        else Ok (N.leb dg_Zero ch && N.leb ch dg_Nine))
    end.

  (* while (offset < e) { if ')' {if skip == 0 break; --skip} else if '(' ++skip; ++offset } *)
  Fixpoint skip_paren (fuel offset e : nat) (skip : N) : res nat :=
    if offset <? e then
      match fuel with
      | O => Error EFuel
      | S f =>
        bind (rd 21 offset) (fun ch =>
          if N.eqb ch sym_ParenEnd then (if N.eqb skip 0 then Ok offset else skip_paren f (S offset) e (skip - 1))
          else if N.eqb ch sym_ParenStart then skip_paren f (S offset) e (skip + 1)
          else skip_paren f (S offset) e skip)
      end
    else Ok offset.

  (* getOperation: (operator, offset after the call); fuel = e - offset + 1 *)
  Fixpoint get_operation (fuel offset e : nat) : res (N * nat) :=
    if offset <? e then
      match fuel with
      | O => Error EFuel
      | S f =>
        bind (rd 22 offset) (fun ch =>
          (* /repo 4703e54 (D80): the second unit of an operator is only looked at inside the expression *)
          let two (sym yes no : N) :=
            if S offset <? e then bind (rd 23 (S offset)) (fun nx => Ok ((if N.eqb nx sym then yes else no), offset))
            else Ok (no, offset) in
          if N.eqb ch sym_Or then two sym_Or op_Or op_BitwiseOr
          else if N.eqb ch sym_And then two sym_And op_And op_BitwiseAnd
          else if N.eqb ch sym_Greater then two sym_Equal op_GreaterOrEqual op_Greater
          else if N.eqb ch sym_Less then two sym_Equal op_LessOrEqual op_Less
          else if N.eqb ch sym_Not then two sym_Equal op_NotEqual op_Error
          else if N.eqb ch sym_Equal then two sym_Equal op_Equal op_Error
          else if N.eqb ch sym_Subtract then
            bind (is_expression offset) (fun b => if b then Ok (op_Subtraction, offset) else get_operation f (S offset) e)
          else if N.eqb ch sym_Add then
            bind (is_expression offset) (fun b => if b then Ok (op_Addition, offset) else get_operation f (S offset) e)
          else if N.eqb ch sym_Divide then Ok (op_Division, offset)
          else if N.eqb ch sym_Multiple then Ok (op_Multiplication, offset)
          else if N.eqb ch sym_Remainder then Ok (op_Remainder, offset)
          else if N.eqb ch sym_Exponent then Ok (op_Exponent, offset)
          else if N.eqb ch sym_ParenStart then
            bind (skip_paren (e - S offset) (S offset) e 0) (fun o2 =>
              if o2 <? e then get_operation f o2 e else Ok (op_Error, o2))
          else if N.eqb ch sym_BracketStart then
            bind (skip_ne_do 24 sym_BracketEnd offset e) (fun o2 =>
              if o2 <? e then get_operation f o2 e else Ok (op_Error, e))
          else get_operation f (S offset) e)
      end
    else Ok (op_NoOp, offset).

  Definition is_ws (ch : N) : bool := N.eqb ch ws_Space || N.eqb ch ws_Line || N.eqb ch ws_Tab || N.eqb ch ws_Carriage.
  (* StringUtils::TrimRight: fuel = e - offset *)
  Fixpoint trim_right (fuel offset e : nat) : res nat :=
    if offset <? e then
      match fuel with
      | O => Error EFuel
      | S f => bind (rd 26 (e - 1)) (fun ch => if is_ws ch then trim_right f offset (e - 1) else Ok e)
      end
    else Ok e.

  (* parseExpressions / its while loop / parseValue.  The list grows reversed.
     Result [] = "QExpressions{}" (failure). *)
  Fixpoint parse_expressions (fuel offset e : nat) (chain : list loopinfo) {struct fuel} : res (list qexpr) :=
    match fuel with
    | O => Error EFuel
    | S f => pe_loop f offset e chain [] op_NoOp
    end
  with pe_loop (fuel offset e : nat) (chain : list loopinfo) (acc : list qexpr) (last_oper : N) {struct fuel}
    : res (list qexpr) :=
    match fuel with
    | O => Error EFuel
    | S f =>
      if offset <? e then
        bind (get_operation (S (e - offset)) offset e) (fun r =>
          let oper := fst r in let off2 := snd r in
          if N.eqb oper op_Error then Ok []
          else
            bind (parse_value f oper last_oper offset off2 chain acc) (fun pv =>
              match pv with
              | None => Ok []
              | Some acc' =>
                let off3 := S off2 + (if N.ltb oper op_Greater then 1 else 0) in
                pe_loop f off3 e chain acc' oper
              end))
      else if e <? offset then Ok (rev acc) else Ok []
    end
  with parse_value (fuel : nat) (oper last_oper : N) (offset e : nat) (chain : list loopinfo) (acc : list qexpr)
    {struct fuel} : res (option (list qexpr)) :=       (* None: parseValue returned false *)
    match fuel with
    | O => Error EFuel
    | S f =>
      bind (skip_while 25 is_ws (e - offset) offset e) (fun offset =>
      bind (trim_right (e - offset) offset e) (fun e =>
        if offset <? e then
          bind (rd 27 offset) (fun ch =>
            if N.eqb ch sym_ParenStart then
              bind (parse_expressions f (S offset) (e - 1) chain) (fun sub =>
                if negb (N.eqb last_oper oper) || negb (N.eqb oper op_NoOp) then
                  match sub with [] => Ok None | _ => Ok (Some (QSub oper sub :: acc)) end
                else
                  (* "The entire expression is inside (...)": exprs = parseExpressions(...) *)
                  match sub with [] => Ok None | _ => Ok (Some (rev sub)) end)
            else if N.eqb ch sym_BracketStart then
              if tpp_VariableFullLength <? e - offset then
                let e1 := e - tpp_InLineSuffixLength in
                bind (rd 28 e1) (fun lastc =>
                  if N.eqb lastc tpp_InLineLastChar then
                    let vo := offset + tpp_VariablePrefixLength in
                    bind (check_loop_variable (mkV vo (t16 (e1 - vo)) 0 0) chain) (fun v =>
                      Ok (Some (QVar oper v :: acc)))
                  else Ok None)
              else Ok None
            else
              let '(kind, bits, used) := numf (slice content offset e) in
              if negb (N.eqb kind 0) && (offset + used =? e) then Ok (Some (QNum oper kind bits :: acc))
              else if negb (N.eqb last_oper op_Equal) && negb (N.eqb last_oper op_NotEqual) &&
                      negb (N.eqb oper op_Equal) && negb (N.eqb oper op_NotEqual) then Ok None
              else Ok (Some (QText oper offset (e - offset) :: acc)))
        else Ok None))
    end.

  (* parseExpressions(content, offset, end_offset, loop_tag) with enough fuel *)
  Definition pexpr (offset e : nat) (chain : list loopinfo) : res (list qexpr) :=
    parse_expressions (3 * (e - offset) + 4) offset e chain.

  (* ---------------------------------------------------------------- *)
  (* parseIfCase: (offset, case_offset, case_end_offset) *)
  Definition parse_if_case (offset e : nat) : res (nat * nat * nat) :=
    bind (skip_eq 30 tpp_SpaceChar offset e) (fun offset =>
      bind (if offset <? e then word_at 31 offset e tpp_Case else Ok false) (fun is_case =>
        if is_case then
          let offset := offset + tpp_CaseLength in
          bind (skip_ne 32 tpp_EqualChar offset e) (fun offset =>
          bind (skip_eq_do 33 tpp_SpaceChar offset e) (fun offset =>
            if offset <? e then
              bind (rd 34 offset) (fun quote =>
                let case_offset := S offset in
                bind (skip_ne 35 quote case_offset e) (fun case_end =>
                bind (skip_ne 36 tpp_MultiLineLastChar case_end e) (fun offset =>
                  Ok (S offset, case_offset, case_end))))
            else Ok (offset, 0, 0)))
        else Ok (offset, 0, 0))).

  (* ---------------------------------------------------------------- *)
  (* parseLoopAttributes.  att: 0 None, 1 Set, 2 Value, 3 Sort, 4 Group *)
  Definition set_attr (l : looprec) (att : N) (att_offset offset : nat) : res looprec :=
    match att with
    | 1%N =>
      bind (csub 40 offset att_offset) (fun d =>
      bind (check_loop_variable (mkV att_offset (t16 d) (v_idlen (l_set l)) (v_level (l_set l))) (l_parent l)) (fun v =>
        Ok (mkL (l_off l) (l_end l) (l_coff l) (l_voff l) (l_vlen l) (l_goff l) (l_glen l) (l_opts l) (l_level l) v (l_parent l))))
    | 2%N =>
      bind (csub 41 att_offset (l_off l)) (fun d1 =>
      bind (csub 42 offset att_offset) (fun d2 =>
        Ok (mkL (l_off l) (l_end l) (l_coff l) (t8 d1) (t8 d2) (l_goff l) (l_glen l) (l_opts l) (l_level l) (l_set l) (l_parent l))))
    | 3%N =>
      bind (rd 43 att_offset) (fun ch =>
        let o := N.lor (l_opts l) (if N.eqb ch tpp_SortAscendChar then tpp_SortAscend else tpp_SortDescend) in
        Ok (mkL (l_off l) (l_end l) (l_coff l) (l_voff l) (l_vlen l) (l_goff l) (l_glen l) o (l_level l) (l_set l) (l_parent l)))
    | 4%N =>
      bind (csub 44 att_offset (l_off l)) (fun d1 =>
      bind (csub 45 offset att_offset) (fun d2 =>
        Ok (mkL (l_off l) (l_end l) (l_coff l) (l_voff l) (l_vlen l) (t8 d1) (t8 d2) (l_opts l) (l_level l) (l_set l) (l_parent l))))
    | _ => Ok l
    end.

  (* the attribute name at [offset]: Some (offset after the switch, att) or None for "default: ++offset; continue" *)
  Definition loop_attr_name (offset e : nat) (att : N) : res (option (nat * N)) :=
    bind (rd 46 offset) (fun ch =>
      if N.eqb ch tpp_SetSortChar then
        bind (word_at 47 offset e tpp_Set) (fun b1 =>
          if b1 then Ok (Some (offset + tpp_SetLength, 1%N))
          else bind (word_at 48 offset e tpp_Sort) (fun b2 =>
            if b2 then Ok (Some (offset + tpp_SortLength, 3%N)) else Ok (Some (S offset, att))))
      else if N.eqb ch tpp_ValueChar then
        bind (word_at 49 offset e tpp_Value) (fun b =>
          if b then Ok (Some (offset + tpp_ValueLength, 2%N)) else Ok (Some (S offset, att)))
      else if N.eqb ch tpp_GroupChar then
        bind (word_at 50 offset e tpp_Group) (fun b =>
          if b then Ok (Some (offset + tpp_GroupLength, 4%N)) else Ok (Some (S offset, att)))
      else Ok None).

  (* the do { ... } while (offset < end_offset) of parseLoopAttributes; fuel = e - offset + 1 *)
  Fixpoint loop_attrs (fuel offset e : nat) (att : N) (l : looprec) : res looprec :=
    match fuel with
    | O => Error EFuel
    | S f =>
      bind (skip_eq 51 tpp_SpaceChar offset e) (fun offset =>
      bind (if offset <? e then loop_attr_name offset e att else Ok (Some (offset, att))) (fun nm =>
        match nm with
        | None => (* default: ++offset; continue; *)
          if S offset <? e then loop_attrs f (S offset) e att l else Ok l
        | Some (offset, att) =>
          bind (skip_ne 52 tpp_EqualChar offset e) (fun offset =>
          bind (skip_eq_do 53 tpp_SpaceChar offset e) (fun offset =>
            if offset <? e then
              bind (rd 54 offset) (fun quote =>
              bind (skip_ne_do 55 quote offset e) (fun offset2 =>
              bind (set_attr l att (S offset) offset2) (fun l' =>
                if S offset2 <? e then loop_attrs f (S offset2) e att l' else Ok l')))
            else Ok l))
        end))
    end.

  Definition parse_loop_attributes (e : nat) (l : looprec) : res looprec :=
    let offset := l_off l + tpp_LoopPrefixLength in
    loop_attrs (S (e - offset)) offset e 0%N l.

  (* ---------------------------------------------------------------- *)
  (* the attribute scanner of an inline if, run when its closing brace is seen.
     Result: (tag fields, re-pushed?) *)
  Definition set_iif_value (i : iifrec) (is_true : bool) (att_offset offset : nat) : res iifrec :=
    bind (csub 60 att_offset (i_off i)) (fun d1 =>
    bind (csub 61 offset att_offset) (fun d2 =>
      if is_true then Ok (mkI (i_off i) (i_len i) (t16 d1) (t16 d2) (i_foff i) (i_flen i) (i_tid i) (i_fid i))
      else Ok (mkI (i_off i) (i_len i) (i_toff i) (i_tlen i) (t16 d1) (t16 d2) (i_tid i) (i_fid i)))).

  (* the name at [offset]: None = break; Some (offset, is_true) *)
  Definition iif_attr_name (offset e : nat) (is_true : bool) : res (option (nat * bool)) :=
    bind (rd 62 offset) (fun ch =>
      if N.eqb ch tpp_TrueChar then
        bind (word_at 63 offset e tpp_True) (fun b =>
          if b then Ok (Some (offset + tpp_TrueLength, true)) else Ok (Some (offset, is_true)))
      else if N.eqb ch tpp_FalseChar then
        bind (word_at 64 offset e tpp_False) (fun b =>
          if b then Ok (Some (offset + tpp_FalseLength, is_true)) else Ok None)
      else Ok None).

  (* fuel = e - offset + 1 *)
  Fixpoint iif_attrs (fuel offset e : nat) (is_true : bool) (true_offset : N) (i : iifrec) : res (iifrec * bool) :=
    match fuel with
    | O => Error EFuel
    | S f =>
      bind (skip_eq 65 tpp_SpaceChar offset e) (fun offset =>
        if offset <? e then
          bind (iif_attr_name offset e is_true) (fun nm =>
            match nm with
            | None => Ok (i, false)                                  (* break *)
            | Some (offset, is_true) =>
              bind (skip_ne 66 tpp_EqualChar offset e) (fun offset =>
              bind (skip_eq_do 67 tpp_SpaceChar offset e) (fun offset =>
                if offset <? e then
                  bind (rd 68 offset) (fun quote =>
                  bind (skip_ne 69 quote (S offset) e) (fun offset2 =>
                    if offset2 <? e then
                      bind (set_iif_value i is_true (S offset) offset2) (fun i' =>
                        (* continue: is_true is cleared when it was used *)
                        if S offset2 <? e then iif_attrs f (S offset2) e false true_offset i' else Ok (i', false))
                    else
                      (* "Found '}' inside 'True' or 'False'": back to the state after the tag was created (findings/D73) *)
                      Ok (mkI (i_off i) (i_len i) true_offset 0 0 0 (i_tid i) (i_fid i), true)))
                else if S offset <? e then iif_attrs f (S offset) e is_true true_offset i else Ok (i, false)))
            end)
        else Ok (i, false))
    end.

  (* the "Set StartID" scan: Some id, or None when a sub tag of another kind is met (skip) *)
  Fixpoint startid_scan (subs : list tag) (first_offset : nat) (id : nat) : option nat :=
    match subs with
    | [] => Some id
    | s :: r =>
      match (match s with PVar v | PRaw v => Some (v_off v) | PMath o _ _ => Some o | _ => None end) with
      | None => None
      | Some offset => if first_offset <=? offset then Some id else startid_scan r first_offset (S id)
      end
    end.

  (* areInLineIfSubTagsValid (with findings/D70: a sub tag of another kind is invalid) *)
  Fixpoint sub_tags_valid (i : iifrec) (subs : list tag) : res bool :=
    match subs with
    | [] => Ok true
    | s :: r =>
      let true_start := i_off i + N.to_nat (i_toff i) in
      let true_end := true_start + N.to_nat (i_tlen i) in
      let false_start := i_off i + N.to_nat (i_foff i) in
      let false_end := false_start + N.to_nat (i_flen i) in
      let inside (start e : nat) :=
        (negb (N.eqb (i_toff i) 0) && (true_start <=? start) && (e <=? true_end)) ||
        (negb (N.eqb (i_foff i) 0) && (false_start <=? start) && (e <=? false_end)) in
      match s with
      | PMath o e _ => if inside o e then sub_tags_valid i r else Ok false
      | PVar v | PRaw v =>
        bind (csub 70 (v_off v) tpp_VariablePrefixLength) (fun start =>
          if inside start (v_off v + N.to_nat (v_len v) + tpp_InLineSuffixLength) then sub_tags_valid i r else Ok false)
      | _ => Ok false
      end
    end.

  (* ---------------------------------------------------------------- *)
  (* parser state *)
  Record pstate := mkS {
    ps_fo : nat; ps_fm : N;
    ps_stack : list (list tag); ps_cur : list tag;
    ps_child : bool; ps_chain : list loopinfo }.

  (* put [cur] back as the open child array of the last element of [top] *)
  Definition writeback (site : N) (top cur : list tag) : res (list tag) :=
    match split_last top with
    | None => Error (EEmpty site)
    | Some (init, t) =>
      match t with
      | PSVar o e v _ => Ok (init ++ [PSVar o e v cur])
      | PIIf i c _ => Ok (init ++ [PIIf i c cur])
      | PLoop l _ => Ok (init ++ [PLoop l cur])
      | PIf o e cases =>
        match split_last cases with
        | None => Error (EEmpty (site + 100))
        | Some (ci, PCase co ce cc _) => Ok (init ++ [PIf o e (ci ++ [PCase co ce cc cur])])
        end
      | _ => Error (EKind site)
      end
    end.

  (* closing brace of an inline if: [init ++ [PIIf i c subs]] is the popped array *)
  Definition finalize_iif (fo : nat) (rest : list (list tag)) (init : list tag) (i : iifrec) (c : list qexpr)
             (subs : list tag) (chain : list loopinfo) : res pstate :=
    let true_offset := i_toff i in
    let offset := i_off i + N.to_nat true_offset in
    bind (csub 80 fo (i_off i)) (fun d =>
      let i1 := mkI (i_off i) (t16 d) 0 (i_tlen i) (i_foff i) (i_flen i) (i_tid i) (i_fid i) in
      (* findings/D71: a tag longer than the 16-bit fields can describe is dropped *)
      if N.ltb 65535 (N.of_nat d) then Ok (mkS fo 0 rest init false chain) else
      bind (iif_attrs (S (fo - offset)) offset fo false true_offset i1) (fun r =>
        let i2 := fst r in
        if snd r then
          (* findings/D73: re-opened ('}' inside a value): no start ids, nothing validated; scanned again later *)
          Ok (mkS fo 0 ((init ++ [PIIf i2 c subs]) :: rest) subs true chain)
        else
        (* storage->Drop(1): the tag is dropped *)
        let dropped := mkS fo 0 rest init false chain in
        if negb (N.eqb (i_toff i2) 0) || negb (N.eqb (i_foff i2) 0) then
          let first_offset := N.to_nat (if N.ltb (i_toff i2) (i_foff i2) then i_foff i2 else i_toff i2) + i_off i2 in
          match startid_scan subs first_offset 0 with
          | None => Ok dropped
          | Some id =>
            let i3 :=
              if N.ltb (i_toff i2) (i_foff i2)
              then mkI (i_off i2) (i_len i2) (i_toff i2) (i_tlen i2) (i_foff i2) (i_flen i2) (i_tid i2) (t8 id)
              else mkI (i_off i2) (i_len i2) (i_toff i2) (i_tlen i2) (i_foff i2) (i_flen i2) (t8 id) (i_fid i2) in
            (* findings/D75: more sub tags than the 8-bit start id can count: dropped *)
            if 255 <? id then Ok dropped else
            bind (sub_tags_valid i3 subs) (fun ok =>
              if ok then Ok (mkS fo 0 rest (init ++ [PIIf i3 c subs]) false chain) else Ok dropped)
          end
        else Ok dropped)).

  (* case TagPatterns::LineEndID (the state returned still needs finder.Next()) *)
  Definition do_line_end (st : pstate) : res pstate :=
    match ps_child st, ps_stack st with
    | true, top :: rest =>
      bind (writeback 1 top (ps_cur st)) (fun cur1 =>
        match split_last cur1 with
        | None => Error (EEmpty 2)
        | Some (init, t) =>
          match t with
          | PSVar o _ v subs => Ok (mkS (ps_fo st) 0 rest (init ++ [PSVar o (ps_fo st) v subs]) false (ps_chain st))
          | PIIf i c subs => finalize_iif (ps_fo st) rest init i c subs (ps_chain st)
          | PLoop l _ =>
            (* findings/D72: an open loop abandoned by the '}' of a super variable / inline if: loop_tag = tag.Parent *)
            Ok (mkS (ps_fo st) 0 rest cur1 false (l_parent l))
          | _ => Ok (mkS (ps_fo st) 0 rest cur1 false (ps_chain st))
          end
        end)
    | _, _ => Ok st
    end.

  Definition with_finder (st : pstate) (mo : N * nat) : pstate :=
    mkS (snd mo) (fst mo) (ps_stack st) (ps_cur st) (ps_child st) (ps_chain st).
  Definition with_cur (st : pstate) (cur : list tag) : pstate :=
    mkS (ps_fo st) (ps_fm st) (ps_stack st) cur (ps_child st) (ps_chain st).
  (* parent_storage += storage; storage = &(tag->SubTags)  after the tag was inserted *)
  Definition push_tag (st : pstate) (t : tag) (child : bool) (chain : list loopinfo) : pstate :=
    mkS (ps_fo st) (ps_fm st) ((ps_cur st ++ [t]) :: ps_stack st) [] child chain.

  (* case VariableID / RawVariableID *)
  Definition do_var (mk : vtag -> tag) (st : pstate) : res pstate :=
    let offset := ps_fo st in
    bind (fnext offset) (fun mo =>
      if N.eqb (fst mo) tpp_LineEndID then
        bind (csub 90 (snd mo) offset) (fun d =>
        bind (csub 91 d tpp_InLineSuffixLength) (fun d1 =>
          let var_length := t8 d1 in
          bind (if N.eqb var_length 0 then Ok (ps_cur st)
                else bind (check_loop_variable (mkV offset var_length 0 0) (ps_chain st)) (fun v =>
                       Ok (ps_cur st ++ [mk v]))) (fun cur =>
          bind (fnext (snd mo)) (fun mo2 => Ok (with_finder (with_cur st cur) mo2)))))
      else Ok (with_finder st mo)).

  (* the while (true) of case MathID: (end_offset, finder state); fuel = number of matches left *)
  Fixpoint math_scan (fuel : nat) (mo : N * nat) (skip_var : nat) : res (nat * (N * nat)) :=
    match fuel with
    | O => Error EFuel
    | S f =>
      bind (if N.ltb (fst mo) tpp_MathID && negb (N.eqb (fst mo) tpp_LineEndID)
            then bind (fnext (snd mo)) (fun mo' => Ok (mo', S skip_var)) else Ok (mo, skip_var)) (fun r =>
        let mo1 := fst r in let sv := snd r in
        if N.eqb (fst mo1) tpp_LineEndID then
          match sv with
          | S sv' => bind (fnext (snd mo1)) (fun mo2 => math_scan f mo2 sv')
          | O => bind (fnext (snd mo1)) (fun mo2 => Ok (snd mo1, mo2))
          end
        else Ok (0, mo1))
    end.

  Definition do_math (st : pstate) : res pstate :=
    let offset := ps_fo st in
    bind (fnext offset) (fun mo =>
    bind (math_scan (S len) mo 0) (fun r =>
      let end_offset := fst r in
      if end_offset =? 0 then Ok (with_finder st (snd r))
      else
        bind (csub 92 offset tpp_MathPrefixLength) (fun o =>
        bind (csub 93 end_offset tpp_InLineSuffixLength) (fun e1 =>
        bind (pexpr offset e1 (ps_chain st)) (fun ex =>
          Ok (with_finder (with_cur st (ps_cur st ++ [PMath o end_offset ex])) (snd r))))))).

  Definition do_svar (st : pstate) : res pstate :=
    let offset := ps_fo st in
    bind (csub 94 offset tpp_SuperVariablePrefixLength) (fun svar_offset =>
    bind (fnext offset) (fun mo =>
      let end_offset := snd mo in
      bind (skip_ne 95 tpp_VariablesSeparatorChar offset end_offset) (fun offset2 =>
      bind (csub 96 offset2 offset) (fun d =>
        let var_length := t8 d in
        let st1 := with_finder st mo in
        if N.eqb var_length 0 then Ok st1
        else Ok (push_tag st1 (PSVar svar_offset 0 (mkV offset var_length 0 0) []) true (ps_chain st)))))).

  (* the while ((match = finder.GetMatch()) != 0U) of case InLineIfID:
     (offset, match after the loop, finder state) *)
  Fixpoint iif_case_scan (fuel : nat) (quote : N) (offset end_offset : nat) (mo : N * nat) : res (nat * N * (N * nat)) :=
    match fuel with
    | O => Error EFuel
    | S f =>
      if N.eqb (fst mo) 0 then Ok (offset, 0%N, mo)
      else
        bind (skip_ne 97 quote offset end_offset) (fun offset =>
          if offset <? end_offset then Ok (offset, fst mo, mo)
          else
            bind (fnext (snd mo)) (fun mo1 =>
              if N.eqb (fst mo1) tpp_LineEndID then
                bind (fnext (snd mo1)) (fun mo2 => iif_case_scan f quote offset (snd mo2) mo2)
              else Ok (offset, fst mo1, mo1)))
    end.

  Definition do_iif (st : pstate) : res pstate :=
    let offset := ps_fo st in
    bind (csub 98 offset tpp_InLineIfPrefixLength) (fun iif_offset =>
    bind (fnext offset) (fun mo =>
      let end_offset := snd mo in
      bind (skip_eq 99 tpp_SpaceChar offset end_offset) (fun offset =>
      bind (if offset <? end_offset then word_at 100 offset end_offset tpp_Case else Ok false) (fun is_case =>
        if is_case then
          let offset := offset + tpp_CaseLength in
          bind (skip_ne 101 tpp_EqualChar offset end_offset) (fun offset =>
          bind (skip_eq_do 102 tpp_SpaceChar offset end_offset) (fun offset =>
            if offset <? end_offset then
              bind (rd 103 offset) (fun quote =>
                let case_offset := S offset in
                bind (iif_case_scan (S len) quote case_offset end_offset mo) (fun r =>
                  let '(offset, mtch, mo') := r in
                  let st1 := with_finder st mo' in
                  if N.eqb mtch 0 then Ok st1
                  else
                    bind (pexpr case_offset offset (ps_chain st)) (fun ex =>
                    bind (csub 104 (S offset) iif_offset) (fun d =>
                      Ok (push_tag st1 (PIIf (mkI iif_offset 0 (t16 d) 0 0 0 0 0) ex []) true (ps_chain st))))))
            else Ok (with_finder st mo)))
        else Ok (with_finder st mo))))).

  Definition do_loop (st : pstate) : res pstate :=
    let offset := ps_fo st in
    bind (csub 105 offset tpp_LoopPrefixLength) (fun loop_offset =>
    bind (fnext offset) (fun mo =>
      let end_offset := snd mo in
      bind (skip_ne 106 tpp_MultiLineLastChar offset end_offset) (fun offset =>
        let st1 := with_finder st mo in
        (* findings/D91: Level is 8 bits wide; a loop opened while more than 255 tags are open is left as text *)
        if (offset <? end_offset) && (length (ps_stack st) <=? 255) then
          let l0 := mkL loop_offset 0 0 0 0 0 0 0 (t8 (length (ps_stack st))) (mkV 0 0 0 0) (ps_chain st) in
          bind (parse_loop_attributes offset l0) (fun l1 =>
          bind (csub 107 (offset + tpp_MultiLineSuffixLength) loop_offset) (fun d =>
            let l2 := mkL (l_off l1) (l_end l1) (t16 d) (l_voff l1) (l_vlen l1) (l_goff l1) (l_glen l1) (l_opts l1)
                          (l_level l1) (l_set l1) (l_parent l1) in
            Ok (push_tag st1 (PLoop l2 []) (ps_child st) (info_of l2 :: ps_chain st))))
        else Ok st1))).

  (* case LoopEndID (still needs finder.Next()) *)
  Definition do_loop_end (st : pstate) : res pstate :=
    match ps_chain st, ps_stack st with
    | _ :: _, top :: rest =>
      match split_last top with
      | None => Error (EEmpty 3)
      | Some (init, PLoop l _) =>
        bind (csub 108 (ps_fo st) tpp_LoopSuffixLength) (fun e =>
          let l' := mkL (l_off l) e (l_coff l) (l_voff l) (l_vlen l) (l_goff l) (l_glen l) (l_opts l) (l_level l) (l_set l) (l_parent l) in
          let cur := if e <? l_off l + N.to_nat (l_coff l) then init else init ++ [PLoop l' (ps_cur st)] in
          Ok (mkS (ps_fo st) (ps_fm st) rest cur (ps_child st) (l_parent l)))
      | Some _ => Ok st
      end
    | _, _ => Ok st
    end.

  Definition do_if (st : pstate) : res pstate :=
    let offset := ps_fo st in
    bind (csub 109 offset tpp_IfPrefixLength) (fun if_offset =>
    bind (parse_if_case offset len) (fun r =>
      let '(offset, case_offset, case_end) := r in
      bind (if offset <? len then
              bind (pexpr case_offset case_end (ps_chain st)) (fun ex =>
                Ok (push_tag st (PIf if_offset 0 [PCase offset 0 ex []]) (ps_child st) (ps_chain st)))
            else Ok st) (fun st1 =>
      bind (fnext offset) (fun mo => Ok (with_finder st1 mo))))).

  (* case IfEndID (still needs finder.Next()) *)
  Definition do_if_end (st : pstate) : res pstate :=
    match ps_stack st with
    | top :: rest =>
      match split_last top with
      | None => Error (EEmpty 4)
      | Some (init, PIf o _ cases) =>
        match split_last cases with
        | None => Error (EEmpty 5)
        | Some (ci, PCase co _ cc _) =>
          bind (csub 110 (ps_fo st) tpp_IfSuffixLength) (fun e =>
            Ok (mkS (ps_fo st) (ps_fm st) rest (init ++ [PIf o (ps_fo st) (ci ++ [PCase co e cc (ps_cur st)])])
                    (ps_child st) (ps_chain st)))
        end
      | Some _ => Ok st
      end
    | [] => Ok st
    end.

  (* while ((offset < length) && (content[offset] != '>')) { if (content[offset] == 'i') {offset += 2; break;} ++offset; } *)
  Fixpoint else_scan (fuel offset : nat) : res (nat * bool) :=
    if offset <? len then
      match fuel with
      | O => Error EFuel
      | S f =>
        bind (rd 111 offset) (fun ch =>
          if N.eqb ch tpp_MultiLineLastChar then Ok (offset, false)
          else if N.eqb ch tpp_IfFirstChar then Ok (offset + tpp_IfAfterElseLength, true)
          else else_scan f (S offset))
      end
    else Ok (offset, false).

  (* case ElseID: (state, finder.Next() still to be called?) *)
  Definition do_else (st : pstate) : res (pstate * bool) :=
    match ps_stack st with
    | top :: rest =>
      match split_last top with
      | None => Error (EEmpty 6)
      | Some (init, PIf o eo cases) =>
        match split_last cases with
        | None => Error (EEmpty 7)
        | Some (ci, PCase co _ cc _) =>
          bind (csub 112 (ps_fo st) tpp_ElsePrefixLength) (fun e =>
            let cases1 := ci ++ [PCase co e cc (ps_cur st)] in
            let opened (coff : nat) (ex : list qexpr) (mo : N * nat) :=
              mkS (snd mo) (fst mo) ((init ++ [PIf o eo (cases1 ++ [PCase coff 0 ex []])]) :: rest) [] (ps_child st) (ps_chain st) in
            let bad (fo : nat) (fm : N) := mkS fo fm rest init (ps_child st) (ps_chain st) in
            bind (else_scan (len - ps_fo st) (ps_fo st)) (fun sc =>
              let offset := fst sc in
              if snd sc then
                bind (parse_if_case offset len) (fun r =>
                  let '(offset, case_offset, case_end) := r in
                  bind (fnext offset) (fun mo =>
                    if (offset <? len) && negb (case_end =? 0) then
                      bind (pexpr case_offset case_end (ps_chain st)) (fun ex => Ok (opened offset ex mo, false))
                    else Ok (bad (snd mo) (fst mo), true)))
              else if offset <? len then
                bind (fnext (S offset)) (fun mo => Ok (opened (S offset) [] mo, false))
              else Ok (bad (ps_fo st) (ps_fm st), true)))
        end
      | Some _ => Ok (st, true)
      end
    | [] => Ok (st, true)
    end.

  Definition then_next (r : res pstate) : res pstate :=
    bind r (fun st => bind (fnext (ps_fo st)) (fun mo => Ok (with_finder st mo))).

  (* one iteration of the main loop's switch (match <> 0) *)
  Definition step (st : pstate) : res pstate :=
    let m := ps_fm st in
    if N.eqb m tpp_LineEndID then then_next (do_line_end st)
    else if N.eqb m tpp_VariableID then do_var PVar st
    else if N.eqb m tpp_RawVariableID then do_var PRaw st
    else if N.eqb m tpp_MathID then do_math st
    else if N.eqb m tpp_SuperVariableID then do_svar st
    else if N.eqb m tpp_InLineIfID then do_iif st
    else if N.eqb m tpp_LoopID then do_loop st
    else if N.eqb m tpp_LoopEndID then then_next (do_loop_end st)
    else if N.eqb m tpp_IfID then do_if st
    else if N.eqb m tpp_IfEndID then then_next (do_if_end st)
    else if N.eqb m tpp_ElseID then
      bind (do_else st) (fun r => if snd r then then_next (Ok (fst r)) else Ok (fst r))
    else Ok st.     (* default: no such match id; the C++ would spin -- excluded by next_ids *)

  (* while ((match = finder.GetMatch()) != 0U) *)
  Fixpoint main_loop (fuel : nat) (st : pstate) : res pstate :=
    if N.eqb (ps_fm st) 0 then Ok st
    else match fuel with
         | O => Error EFuel
         | S f => bind (step st) (main_loop f)
         end.

  (* while (parent_storage.Size() != 0) { storage = top; storage->Drop(1); pop } : what is left in tags_cache *)
  Definition unwind (st : pstate) : list tag :=
    match ps_stack st with
    | [] => ps_cur st
    | _ => removelast (last (ps_stack st) [])
    end.

  Definition parse_state : res pstate :=
    bind (fnext 0) (fun mo => main_loop (S (S len)) (mkS (snd mo) (fst mo) [] [] false [])).

  Definition parse_gen : res (list tag) := bind parse_state (fun st => Ok (unwind st)).
End Parse.

(* the number scanner: Digit::StringToNumber on the slice (component digit) *)
Definition numf_digit (s : list N) : N * N * nat :=
  match DigitModel.string_to_number s with
  | DigitModel.Ok p => (DigitModel.p_kind p, DigitModel.p_bits p, N.to_nat (DigitModel.p_off p))
  | DigitModel.Err _ => (99%N, 0%N, 0)
  end.

(* TemplateCore<Char_T, ...>::Parse(content, length, tags_cache) for width selector w
   (0 char, 1 char16_t, 2 char32_t, 3 wchar_t) *)
Definition parse_model (w : N) (content : list N) : res (list tag) := parse_gen numf_digit w content.

(* ------------------------------------------------------------------ *)
(* SPECIFICATION of the tree: the offset discipline the renderer relies on.
   [tstart t, tend t) is the stretch of text render() skips for a tag.  A tag list
   of one array is [wf_tags tl lv lo hi]: the tags follow each other inside [lo, hi]
   (every literal piece render() copies between / after them has a length >= 0)
   and every tag is well formed itself.  [tl] is the length of the text, [lv] the
   Level fields of the enclosing loops (the slots of loops_items_ that exist while
   the tag is rendered).
   * variable tag records ([vt_ok]): Offset + Length <= tl; IDLength <> 0 only with a
     Level of an enclosing loop
   * variable / raw: the prefix fits before the name;  math: Offset < EndOffset;  svar / if: Offset <= EndOffset
   * svar, loop, if-case: the sub tags lie in order inside the tag (loop: inside
     [Offset + ContentOffset, EndOffset], in particular ContentOffset <= EndOffset; its
     sub tags see its Level; the group name lies inside the text;
     if: the cases follow each other, each [Offset, EndOffset] holding its sub tags)
   * inline if ([iif_ok], exactly what renderInLineIf uses): the start ids are within
     SubTags; the sub tags rendered for the true value (the first FalseTagsStartID ones when
     TrueOffset < FalseOffset, otherwise those from TrueTagsStartID on) are variable / raw / math
     tags lying in order inside the true slice, the same for the false value; both slices end
     inside [Offset, Offset + Length]. *)
Definition tstart (t : tag) : nat :=
  match t with
  | PVar v | PRaw v => v_off v - tpp_VariablePrefixLength
  | PMath o _ _ | PSVar o _ _ _ | PIf o _ _ => o
  | PIIf i _ _ => i_off i
  | PLoop l _ => l_off l
  end.
Definition tend (t : tag) : nat :=
  match t with
  | PVar v | PRaw v => v_off v + N.to_nat (v_len v) + tpp_InLineSuffixLength
  | PMath _ e _ | PSVar _ e _ _ | PIf _ e _ => e
  | PIIf i _ _ => i_off i + N.to_nat (i_len i)
  | PLoop l _ => l_end l + tpp_LoopSuffixLength
  end.

Definition vt_ok (tl : nat) (lv : list N) (v : vtag) : Prop :=
  v_off v + N.to_nat (v_len v) <= tl /\ (v_idlen v <> 0%N -> In (v_level v) lv).

(* the tags an inline if may own *)
Definition leaf_wf (lv : list N) (t : tag) : Prop :=
  match t with
  | PVar v | PRaw v => tpp_VariablePrefixLength <= v_off v /\ (v_idlen v <> 0%N -> In (v_level v) lv)
  | PMath o e _ => o < e
  | _ => False
  end.
Fixpoint leaf_seq (lv : list N) (lo hi : nat) (l : list tag) {struct l} : Prop :=
  match l with
  | [] => lo <= hi
  | x :: r => lo <= tstart x /\ leaf_wf lv x /\ leaf_seq lv (tend x) hi r
  end.
Definition iif_ok (lv : list N) (i : iifrec) (subs : list tag) : Prop :=
  let n := length subs in
  let ts := i_off i + N.to_nat (i_toff i) in let te := ts + N.to_nat (i_tlen i) in
  let fs := i_off i + N.to_nat (i_foff i) in let fe := fs + N.to_nat (i_flen i) in
  let tid := N.to_nat (i_tid i) in let fid := N.to_nat (i_fid i) in
  (if N.ltb (i_toff i) (i_foff i) then fid <= n /\ leaf_seq lv ts te (firstn fid subs)
   else tid <= n /\ leaf_seq lv ts te (skipn tid subs)) /\
  (if N.ltb (i_foff i) (i_toff i) then tid <= n /\ leaf_seq lv fs fe (firstn tid subs)
   else fid <= n /\ leaf_seq lv fs fe (skipn fid subs)) /\
  te <= i_off i + N.to_nat (i_len i) /\ fe <= i_off i + N.to_nat (i_len i).

Fixpoint wf_tag (tl : nat) (lv : list N) (t : tag) {struct t} : Prop :=
  let wfl := fix wfl (lv : list N) (lo hi : nat) (l : list tag) {struct l} : Prop :=
               match l with
               | [] => lo <= hi
               | x :: r => lo <= tstart x /\ wf_tag tl lv x /\ wfl lv (tend x) hi r
               end in
  match t with
  | PVar v | PRaw v => tpp_VariablePrefixLength <= v_off v /\ (v_idlen v <> 0%N -> In (v_level v) lv)
  | PMath o e _ => o < e
  | PSVar o e v subs => o <= e /\ vt_ok tl lv v /\ wfl lv o e subs
  | PIIf i _ subs => iif_ok lv i subs
  | PLoop l subs =>
    l_off l + N.to_nat (l_coff l) <= l_end l /\ vt_ok tl lv (l_set l) /\
    l_off l + N.to_nat (l_goff l) + N.to_nat (l_glen l) <= tl /\
    wfl (l_level l :: lv) (l_off l + N.to_nat (l_coff l)) (l_end l) subs
  | PIf o e cases =>
    o <= e /\
    (fix wfc (lo : nat) (cs : list ifcase) {struct cs} : Prop :=
       match cs with
       | [] => lo <= e
       | PCase co ce _ sb :: r => lo <= co /\ wfl lv co ce sb /\ wfc ce r
       end) o cases
  end.
Section WfTags.
  Variable tl : nat.
  Fixpoint wf_tags (lv : list N) (lo hi : nat) (l : list tag) {struct l} : Prop :=
    match l with
    | [] => lo <= hi
    | x :: r => lo <= tstart x /\ wf_tag tl lv x /\ wf_tags lv (tend x) hi r
    end.
  Fixpoint wf_cases (lv : list N) (e lo : nat) (cs : list ifcase) {struct cs} : Prop :=
    match cs with
    | [] => lo <= e
    | PCase co ce _ sb :: r => lo <= co /\ wf_tags lv co ce sb /\ wf_cases lv e ce r
    end.
End WfTags.
(* the whole tree of a text of [len] units: no enclosing loop at the top *)
Definition tree_ok (len : nat) (l : list tag) : Prop := wf_tags len [] 0 len l.

(* the same as a boolean test (used by the correspondence run on every generated text) *)
Definition inb (x : N) (l : list N) : bool := existsb (N.eqb x) l.
Definition vt_okb (tl : nat) (lv : list N) (v : vtag) : bool :=
  (v_off v + N.to_nat (v_len v) <=? tl) && (N.eqb (v_idlen v) 0 || inb (v_level v) lv).
Definition leaf_wfb (lv : list N) (t : tag) : bool :=
  match t with
  | PVar v | PRaw v => (tpp_VariablePrefixLength <=? v_off v) && (N.eqb (v_idlen v) 0 || inb (v_level v) lv)
  | PMath o e _ => o <? e
  | _ => false
  end.
Fixpoint leaf_seqb (lv : list N) (lo hi : nat) (l : list tag) {struct l} : bool :=
  match l with
  | [] => lo <=? hi
  | x :: r => (lo <=? tstart x) && leaf_wfb lv x && leaf_seqb lv (tend x) hi r
  end.
Definition iif_okb (lv : list N) (i : iifrec) (subs : list tag) : bool :=
  let n := length subs in
  let ts := i_off i + N.to_nat (i_toff i) in let te := ts + N.to_nat (i_tlen i) in
  let fs := i_off i + N.to_nat (i_foff i) in let fe := fs + N.to_nat (i_flen i) in
  let tid := N.to_nat (i_tid i) in let fid := N.to_nat (i_fid i) in
  (if N.ltb (i_toff i) (i_foff i) then (fid <=? n) && leaf_seqb lv ts te (firstn fid subs)
   else (tid <=? n) && leaf_seqb lv ts te (skipn tid subs)) &&
  (if N.ltb (i_foff i) (i_toff i) then (tid <=? n) && leaf_seqb lv fs fe (firstn tid subs)
   else (fid <=? n) && leaf_seqb lv fs fe (skipn fid subs)) &&
  (te <=? i_off i + N.to_nat (i_len i)) && (fe <=? i_off i + N.to_nat (i_len i)).
Fixpoint wf_tagb (tl : nat) (lv : list N) (t : tag) {struct t} : bool :=
  let wfl := fix wfl (lv : list N) (lo hi : nat) (l : list tag) {struct l} : bool :=
               match l with
               | [] => lo <=? hi
               | x :: r => (lo <=? tstart x) && wf_tagb tl lv x && wfl lv (tend x) hi r
               end in
  match t with
  | PVar v | PRaw v => (tpp_VariablePrefixLength <=? v_off v) && (N.eqb (v_idlen v) 0 || inb (v_level v) lv)
  | PMath o e _ => o <? e
  | PSVar o e v subs => (o <=? e) && vt_okb tl lv v && wfl lv o e subs
  | PIIf i _ subs => iif_okb lv i subs
  | PLoop l subs =>
    (l_off l + N.to_nat (l_coff l) <=? l_end l) && vt_okb tl lv (l_set l) &&
    (l_off l + N.to_nat (l_goff l) + N.to_nat (l_glen l) <=? tl) &&
    wfl (l_level l :: lv) (l_off l + N.to_nat (l_coff l)) (l_end l) subs
  | PIf o e cases =>
    (o <=? e) &&
    (fix wfc (lo : nat) (cs : list ifcase) {struct cs} : bool :=
       match cs with
       | [] => lo <=? e
       | PCase co ce _ sb :: r => (lo <=? co) && wfl lv co ce sb && wfc ce r
       end) o cases
  end.
Fixpoint wf_tagsb (tl : nat) (lv : list N) (lo hi : nat) (l : list tag) {struct l} : bool :=
  match l with
  | [] => lo <=? hi
  | x :: r => (lo <=? tstart x) && wf_tagb tl lv x && wf_tagsb tl lv (tend x) hi r
  end.
Definition tree_okb (len : nat) (l : list tag) : bool := wf_tagsb len [] 0 len l.
