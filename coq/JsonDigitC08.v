(* JsonDigitC08.v -- C08 with the reals discharged to booleans on the text NumberToString emits:
   the predicates real_numeral / real_rfc of c08_roundtrip / c08_rfc_valid become, per real leaf, the boolean
   "the scanner takes the text whole as a real, and the text is a number of the RFC grammar";
   for a leaf that is the 17-digit text of a double (DigitModel.real_to_string) the digit-level round trip
   string_to_number (real_to_string 17 bits) = bits is the third boolean. *)
From Coq Require Import NArith ZArith List Bool Lia.
From Qv Require Import gen.Tables_json JsonModel JsonSpec JsonProofsBase JsonProofsStr JsonProofsNum JsonProofsParse
  JsonProofsComplete JsonProofsDoc JsonProofsInt JsonProofsWrite JsonProofsRoundtrip JsonProofsRfc JsonDigitExt JsonDigitRfc JsonDigitC06.
From Qv Require gen.Tables_digit DigitModel.
Import ListNotations.
Local Open Scope N_scope.

(* ---------------- the RFC recogniser does not care what follows a number either ---------------- *)
Lemma fchar_rfc_gen : forall c, fchar c ->
  rfc_dig c = false /\ (c =? 46) = false /\ (c =? 101) = false /\ (c =? 69) = false /\ (c =? 45) = false /\ (c =? 48) = false /\ (c =? 43) = false.
Proof.
  intros c H. unfold fchar, is_ws in H.
  repeat (apply orb_true_iff in H; destruct H as [H|H]); apply N.eqb_eq in H; subst c; repeat split; reflexivity.
Qed.

Section RfcExt.
Variables (c : N) (rt : list N).
Hypothesis Hc : fchar c.
Let R := c :: rt.
Let fchar_rfc := fchar_rfc_gen c Hc.

Lemma rfc_digits_ext : forall l, rfc_digits (l ++ R) = rfc_digits l ++ R.
Proof.
  destruct fchar_rfc as (Hd & _).
  induction l as [|a t IH]; cbn [app rfc_digits].
  - unfold R. cbn [rfc_digits]. rewrite Hd. reflexivity.
  - destruct (rfc_dig a); [exact IH|reflexivity].
Qed.

Lemma rfc_digits1_ext : forall l r, rfc_digits1 l = Some r -> rfc_digits1 (l ++ R) = Some (r ++ R).
Proof.
  intros l r H. destruct l as [|a t]; [discriminate|]. cbn [app rfc_digits1] in *.
  destruct (rfc_dig a); [|discriminate]. inversion H; subst. rewrite rfc_digits_ext. reflexivity.
Qed.

Definition ep_stage (r3 : list N) : option (list N) :=
  match r3 with
  | c3 :: t3 =>
    if (c3 =? 101) || (c3 =? 69) then
      match t3 with
      | s :: t4 => if (s =? 43) || (s =? 45) then rfc_digits1 t4 else rfc_digits1 t3
      | [] => None
      end
    else Some r3
  | [] => Some r3
  end.
Definition fp_stage (r2 : list N) : option (list N) :=
  match r2 with c2 :: t2 => if c2 =? 46 then rfc_digits1 t2 else Some r2 | [] => Some r2 end.

Lemma ep_stage_ext : forall l r, ep_stage l = Some r -> ep_stage (l ++ R) = Some (r ++ R).
Proof.
  destruct fchar_rfc as (Hd & _ & He & Hue & _).
  intros l r H. destruct l as [|c3 t3]; cbn [app ep_stage] in *.
  - inversion H; subst. unfold R. cbn [ep_stage]. rewrite He, Hue. reflexivity.
  - destruct ((c3 =? 101) || (c3 =? 69)); [|inversion H; subst; reflexivity].
    destruct t3 as [|s t4]; [discriminate|]. cbn [app].
    destruct ((s =? 43) || (s =? 45)); [apply rfc_digits1_ext; exact H|].
    change (s :: t4 ++ R) with ((s :: t4) ++ R). apply rfc_digits1_ext. exact H.
Qed.

Lemma fp_stage_ext : forall l r, fp_stage l = Some r -> fp_stage (l ++ R) = Some (r ++ R).
Proof.
  destruct fchar_rfc as (_ & Hdot & _).
  intros l r H. destruct l as [|c2 t2]; cbn [app fp_stage] in *.
  - inversion H; subst. unfold R. cbn [fp_stage]. rewrite Hdot. reflexivity.
  - destruct (c2 =? 46); [apply rfc_digits1_ext; exact H|inversion H; subst; reflexivity].
Qed.

Lemma rfc_number_stages : forall r,
  rfc_number r =
  (let r1 := match r with c0 :: t => if c0 =? 45 then t else r | [] => r end in
   match r1 with
   | c1 :: t =>
     match (if c1 =? 48 then Some t else if rfc_dig c1 then Some (rfc_digits t) else None) with
     | None => None
     | Some r2 => match fp_stage r2 with None => None | Some r3 => ep_stage r3 end
     end
   | [] => None
   end).
Proof. intros r. reflexivity. Qed.

Lemma rfc_number_ext_c : forall l r, rfc_number l = Some r -> rfc_number (l ++ R) = Some (r ++ R).
Proof.
  destruct fchar_rfc as (Hd & _ & _ & _ & Hm & Hz & _).
  intros l r H. rewrite rfc_number_stages in *. cbv zeta in *.
  assert (Hbody : forall b, match b with
     | c1 :: t => match (if c1 =? 48 then Some t else if rfc_dig c1 then Some (rfc_digits t) else None) with
                  | None => None | Some r2 => match fp_stage r2 with None => None | Some r3 => ep_stage r3 end end
     | [] => None end = Some r ->
     match b ++ R with
     | c1 :: t => match (if c1 =? 48 then Some t else if rfc_dig c1 then Some (rfc_digits t) else None) with
                  | None => None | Some r2 => match fp_stage r2 with None => None | Some r3 => ep_stage r3 end end
     | [] => None end = Some (r ++ R)).
  { intros b Hb. destruct b as [|c1 t]; [discriminate|]. cbn [app].
    destruct (c1 =? 48).
    - destruct (fp_stage t) as [r3|] eqn:E; [|discriminate]. rewrite (fp_stage_ext _ _ E). apply ep_stage_ext. exact Hb.
    - destruct (rfc_dig c1); [|discriminate]. rewrite rfc_digits_ext.
      destruct (fp_stage (rfc_digits t)) as [r3|] eqn:E; [|discriminate]. rewrite (fp_stage_ext _ _ E). apply ep_stage_ext. exact Hb. }
  destruct l as [|c0 t0]; [discriminate|]. cbn [app].
  destruct (c0 =? 45); [apply (Hbody t0); exact H|]. change (c0 :: t0 ++ R) with ((c0 :: t0) ++ R). apply (Hbody (c0 :: t0)). exact H.
Qed.

End RfcExt.

Definition rfc_numb (txt : list N) : bool := match rfc_number txt with Some [] => true | _ => false end.

Theorem real_rfc_decided : forall txt, rfc_numb txt = true -> real_rfc txt.
Proof.
  intros txt H rest Hf. unfold rfc_numb in H. destruct (rfc_number txt) as [[|x r]|] eqn:E; try discriminate.
  destruct rest as [|c rt]; [rewrite app_nil_r; exact E|].
  apply (rfc_number_ext_c c rt Hf txt [] E).
Qed.

(* ---------------- trees ---------------- *)
(* per real leaf: the scanner takes the text whole as a real, and the text is an RFC number *)
Definition vleafb (txt : list N) : bool := real_wholeb txt && rfc_numb txt.

Fixpoint vreals_okb (v : vt) : bool :=
  match v with
  | VReal txt => vleafb txt
  | VArr xs => (fix go (l : list vt) : bool := match l with [] => true | x :: t => vreals_okb x && go t end) xs
  | VObj ms => (fix go (l : list (list N * vt)) : bool := match l with [] => true | (_, x) :: t => vreals_okb x && go t end) ms
  | VPtr p => vreals_okb p
  | _ => true
  end.

(* twf without the clause on reals *)
Fixpoint twf_shape (v : vt) : Prop :=
  match v with
  | VUndef => False
  | VNull | VTrue | VFalse | VStr _ | VReal _ => True
  | VNat n => n < 18446744073709551616
  | VInt z => (- 9223372036854775808 <= z < 9223372036854775808)%Z
  | VArr xs => (fix go (l : list vt) : Prop := match l with [] => True | x :: t => (v_undef x = true \/ twf_shape x) /\ go t end) xs
  | VObj ms =>
    (fix go (l : list (list N * vt)) : Prop := match l with [] => True | (_, x) :: t => (v_undef x = true \/ twf_shape x) /\ go t end) ms
    /\ NoDup (map fst (livem ms))
  | VPtr p => twf_shape p
  end.

Lemma twf_decided : forall n v, (tsize v < n)%nat -> twf_shape v -> vreals_okb v = true -> twf v /\ reals_rfc v.
Proof.
  induction n as [|n IH]; intros v Hn Hs Hb; [lia|].
  destruct v as [| | | |x|z|txt|s|xs|ms|p]; cbn [twf_shape twf reals_rfc vreals_okb] in *; try (split; [exact Hs|exact I]); try contradiction.
  - unfold vleafb in Hb. apply andb_true_iff in Hb. destruct Hb as [H1 H2].
    split; [apply real_numeral_decided; exact H1|apply real_rfc_decided; exact H2].
  - cbn [tsize] in Hn. induction xs as [|x t IHt]; [split; exact I|].
    destruct Hs as [Hx Ht]. apply andb_true_iff in Hb. destruct Hb as [Hb1 Hb2].
    destruct IHt as [IH1 IH2]; [lia|assumption|assumption|].
    destruct Hx as [Hx|Hx].
    + split; [split; [left; exact Hx|exact IH1]|]. split; [|exact IH2].
      (* an Undefined member has no reals *)
      clear -Hx. induction x; try discriminate; try exact I. cbn [v_undef reals_rfc] in *. auto.
    + destruct (IH x ltac:(lia) Hx Hb1) as [Hx1 Hx2]. split; [split; [right; exact Hx1|exact IH1]|split; [exact Hx2|exact IH2]].
  - cbn [tsize] in Hn. destruct Hs as [Hs Hnd].
    assert (Hgo : (fix go (l : list (list N * vt)) : Prop := match l with [] => True | (_, x) :: t => (v_undef x = true \/ twf x) /\ go t end) ms /\
                  (fix go (l : list (list N * vt)) : Prop := match l with [] => True | (_, x) :: t => reals_rfc x /\ go t end) ms).
    { clear Hnd. induction ms as [|[k x] t IHt]; [split; exact I|].
      destruct Hs as [Hx Ht]. apply andb_true_iff in Hb. destruct Hb as [Hb1 Hb2].
      destruct IHt as [IH1 IH2]; [lia|assumption|assumption|].
      destruct Hx as [Hx|Hx].
      + split; [split; [left; exact Hx|exact IH1]|]. split; [|exact IH2].
        clear -Hx. induction x; try discriminate; try exact I. cbn [v_undef reals_rfc] in *. auto.
      + destruct (IH x ltac:(lia) Hx Hb1) as [Hx1 Hx2]. split; [split; [right; exact Hx1|exact IH1]|split; [exact Hx2|exact IH2]]. }
    destruct Hgo as [H1 H2]. split; [split; [exact H1|exact Hnd]|exact H2].
  - cbn [tsize] in Hn. apply IH; [lia|assumption|assumption].
Qed.

Theorem stringify_roundtrip_decided : forall w t, twf_shape t -> vreals_okb t = true -> tcontainer t = true ->
  parse w (stringify t) = JOk (normalize t) /\ rfc_ok (stringify t) = true /\ stringify (embed (normalize t)) = stringify t.
Proof.
  intros w t Hs Hb Hc. destruct (twf_decided (S (tsize t)) t (Nat.lt_succ_diag_r _) Hs Hb) as [Hw Hr].
  split; [apply stringify_roundtrip; assumption|]. split; [apply stringify_rfc_valid; assumption|apply stringify_fixpoint; assumption].
Qed.

(* ---------------- leaves that are the 17-digit text of a double ---------------- *)
Definition dtext (bits : N) : list N :=
  match DigitModel.real_to_string DigitModel.finfo_double [] bits 17 Tables_digit.rf_default with
  | DigitModel.Ok t => t
  | DigitModel.Err _ => []
  end.

(* the three per-leaf booleans: taken whole as a real, RFC number, and the digit-level round trip (C11's subject) *)
Definition bits_leaf_okb (bits : N) : bool :=
  vleafb (dtext bits) && match real_bits (dtext bits) with Some b => b =? bits | None => false end.

Theorem bits_leaf : forall bits, bits_leaf_okb bits = true ->
  vleafb (dtext bits) = true /\ values (JReal (dtext bits)) = WReal (Some bits).
Proof.
  intros bits H. unfold bits_leaf_okb in H. apply andb_true_iff in H. destruct H as [H1 H2]. split; [exact H1|].
  cbn [values]. destruct (real_bits (dtext bits)) as [b|]; [|discriminate]. apply N.eqb_eq in H2. subst. reflexivity.
Qed.

(* the composed statement: stringify, parse, read the values *)
Theorem stringify_parse_values : forall w t, twf_shape t -> vreals_okb t = true -> tcontainer t = true ->
  parse_values w (stringify t) = Some (values (normalize t)).
Proof.
  intros w t Hs Hb Hc. unfold parse_values. destruct (stringify_roundtrip_decided w t Hs Hb Hc) as [H _]. rewrite H. reflexivity.
Qed.


(* non-vacuity: doubles as leaves -- 1.5, 0.1, 1e22, the largest double, the smallest subnormal, -2.5e-5 *)
Definition bits_ex : list N :=
  [4609434218613702656; 4591870180066957722; 4936209963552724370; 9218868437227405311; 1; 13833184029128941724].
Example bits_ex_ok : forallb bits_leaf_okb bits_ex = true.
Proof. vm_compute. reflexivity. Qed.

Definition tree_of (texts : list (list N)) (t0 : list N) : vt :=
  VObj [([97], VArr (map VReal texts)); ([98], VUndef); ([99], VPtr (VReal t0))].

Lemma tree_of_shape : forall texts t0, twf_shape (tree_of texts t0).
Proof.
  intros texts t0. unfold tree_of. cbn [twf_shape].
  split.
  - split; [right|split; [left; reflexivity|split; [right; exact I|exact I]]].
    induction texts as [|t l IH]; cbn [map]; [exact I|]. split; [right; exact I|exact IH].
  - cbn. repeat constructor; cbn; intuition discriminate.
Qed.

Definition bits_tree : vt := tree_of (map dtext bits_ex) (dtext 4609434218613702656).
Example bits_tree_roundtrip : parse 0 (stringify bits_tree) = JOk (normalize bits_tree) /\ rfc_ok (stringify bits_tree) = true.
Proof.
  assert (Hb : vreals_okb bits_tree = true) by (vm_compute; reflexivity).
  destruct (stringify_roundtrip_decided 0 bits_tree (tree_of_shape _ _) Hb eq_refl) as (H1 & H2 & _). auto.
Qed.
