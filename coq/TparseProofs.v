(* TparseProofs.v -- bounded-read lemmas for the sub-scanners of the parser model
   (TparseModel.v): skip loops, word tests, parseIfCase, parseLoopAttributes, the
   inline-if attribute scanner, getOperation / parseValue / parseExpressions.
   Every lemma has the form [good P r] (= [post P r]): the call returns [Ok a]
   with [P a]; no error of any kind.  The IsEqual inside checkLoopVariable is
   bounded by [li_ok] (the value name of every loop in the chain contains neither
   '>' nor '}') and [terminated] (a '>' or '}' stands at or after the compared
   text), which TparseSafety.v maintains as part of the parser invariant. *)
From Coq Require Import NArith ZArith List Bool Arith Lia ZifyBool ZifyNat ZifyN.
From Qv Require Import gen.Tables_tmpl gen.Tables_expr gen.Tables_tparse FinderModel FinderProofs TparseModel.
Import ListNotations.
Ltac Zify.zify_post_hook ::= Z.div_mod_to_equations.

(* outcome predicate: Ok with P (kept under two names: [post] for the callers of checkLoopVariable) *)
Definition post {A} (P : A -> Prop) (r : res A) : Prop :=
  match r with Ok a => P a | Error e => False end.
(* outcome predicate of the scanners that are safe outright *)
Definition good {A} (P : A -> Prop) (r : res A) : Prop :=
  match r with Ok a => P a | Error _ => False end.

Lemma good_post : forall A (P : A -> Prop) r, good P r -> post P r.
Proof. intros A P [a|e] H; [exact H|destruct H]. Qed.

Lemma post_bind : forall A B (Q : A -> Prop) (P : B -> Prop) (x : res A) (f : A -> res B),
  post Q x -> (forall a, Q a -> post P (f a)) -> post P (bind x f).
Proof. intros A B Q P [a|e] f Hx Hf; cbn in *; [apply Hf; exact Hx|destruct Hx]. Qed.

Lemma good_bind : forall A B (Q : A -> Prop) (P : B -> Prop) (x : res A) (f : A -> res B),
  good Q x -> (forall a, Q a -> good P (f a)) -> good P (bind x f).
Proof. intros A B Q P [a|e] f Hx Hf; cbn in *; [apply Hf; exact Hx|destruct Hx]. Qed.

Lemma post_weaken : forall A (P Q : A -> Prop) r, post P r -> (forall a, P a -> Q a) -> post Q r.
Proof. intros A P Q [a|e] H HPQ; cbn in *; auto. Qed.
Lemma good_weaken : forall A (P Q : A -> Prop) r, good P r -> (forall a, P a -> Q a) -> good Q r.
Proof. intros A P Q [a|e] H HPQ; cbn in *; auto. Qed.

Lemma good_ok : forall A (P : A -> Prop) r, good P r -> exists a, r = Ok a /\ P a.
Proof. intros A P [a|e] H; [exists a; split; [reflexivity|exact H]|destruct H]. Qed.

Section Scanners.
  Variable content : list N.
  Notation len := (length content).

  Lemma rd_good : forall site i, i < len -> good (fun _ => True) (rd content site i).
  Proof.
    intros site i Hi. unfold rd. destruct (nth_error content i) as [c|] eqn:E; [exact I|].
    apply nth_error_None in E. lia.
  Qed.

  Lemma rd_val : forall site i, i < len -> good (fun c => nth_error content i = Some c) (rd content site i).
  Proof.
    intros site i Hi. unfold rd. destruct (nth_error content i) as [c|] eqn:E; [reflexivity|].
    apply nth_error_None in E. lia.
  Qed.

  Lemma csub_good : forall site a b, b <= a -> good (fun d => d = a - b) (csub site a b).
  Proof. intros site a b H. unfold csub. destruct (Nat.leb_spec b a); [reflexivity|lia]. Qed.

  (* the skip loops: stay inside [off, max off e] *)
  Lemma skip_while_good : forall site p fuel off e,
    e <= len -> e - off <= fuel ->
    good (fun o => off <= o /\ (o <= e \/ o = off)) (skip_while content site p fuel off e).
  Proof.
    intros site p fuel; induction fuel as [|k IH]; intros off e He Hf.
    - cbn [skip_while]. destruct (Nat.ltb_spec off e); [lia|]. cbn. lia.
    - cbn [skip_while]. destruct (Nat.ltb_spec off e) as [Hlt|Hge]; [|cbn; lia].
      apply good_bind with (Q := fun _ => True); [apply rd_good; lia|].
      intros ch _. destruct (p ch); [|cbn; lia].
      eapply good_weaken; [apply IH; lia|]. cbn. intros o Ho. lia.
  Qed.

  Lemma skip_eq_good : forall site c off e, e <= len ->
    good (fun o => off <= o /\ (o <= e \/ o = off)) (skip_eq content site c off e).
  Proof. intros. unfold skip_eq. apply skip_while_good; lia. Qed.
  Lemma skip_ne_good : forall site c off e, e <= len ->
    good (fun o => off <= o /\ (o <= e \/ o = off)) (skip_ne content site c off e).
  Proof. intros. unfold skip_ne. apply skip_while_good; lia. Qed.
  Lemma skip_eq_do_good : forall site c off e, e <= len ->
    good (fun o => S off <= o /\ (o <= e \/ o = S off)) (skip_eq_do content site c off e).
  Proof. intros. unfold skip_eq_do. apply skip_eq_good; assumption. Qed.
  Lemma skip_ne_do_good : forall site c off e, e <= len ->
    good (fun o => S off <= o /\ (o <= e \/ o = S off)) (skip_ne_do content site c off e).
  Proof. intros. unfold skip_ne_do. apply skip_ne_good; assumption. Qed.

  (* where a not-equal skip stops inside the range, the sought character stands *)
  Lemma skip_while_stop : forall site p fuel off e o,
    skip_while content site p fuel off e = Ok o -> o < e ->
    exists ch, nth_error content o = Some ch /\ p ch = false.
  Proof.
    intros site p fuel; induction fuel as [|k IH]; intros off e o H Ho.
    - cbn [skip_while] in H. destruct (Nat.ltb_spec off e); [discriminate H|]. injection H as <-. lia.
    - cbn [skip_while] in H. destruct (Nat.ltb_spec off e) as [Hlt|Hge]; [|injection H as <-; lia].
      unfold rd in H. destruct (nth_error content off) as [ch|] eqn:E; [|discriminate H]. cbn [bind] in H.
      destruct (p ch) eqn:Ep.
      + apply (IH _ _ _ H Ho).
      + injection H as <-. exists ch. split; assumption.
  Qed.

  (* every unit a skip loop passes satisfies its predicate *)
  Lemma skip_while_all : forall site p fuel off e o,
    skip_while content site p fuel off e = Ok o ->
    forall i, off <= i < o -> exists ch, nth_error content i = Some ch /\ p ch = true.
  Proof.
    intros site p fuel; induction fuel as [|k IH]; intros off e o H i Hi.
    - cbn [skip_while] in H. destruct (Nat.ltb_spec off e); [discriminate H|]. injection H as <-. lia.
    - cbn [skip_while] in H. destruct (Nat.ltb_spec off e) as [Hlt|Hge]; [|injection H as <-; lia].
      unfold rd in H. destruct (nth_error content off) as [ch|] eqn:E; [|discriminate H]. cbn [bind] in H.
      destruct (p ch) eqn:Ep; [|injection H as <-; lia].
      destruct (Nat.eq_dec i off) as [->|Hne]; [exists ch; split; assumption|].
      apply (IH _ _ _ H). lia.
  Qed.

  Lemma is_equal_at_good : forall site word off,
    off + length word <= len -> good (fun _ => True) (is_equal_at content site off word).
  Proof.
    intros site word; induction word as [|wc wr IH]; intros off H; [exact I|].
    cbn [is_equal_at]. cbn [length] in H.
    apply good_bind with (Q := fun _ => True); [apply rd_good; lia|].
    intros ch _. destruct (N.eqb ch wc); [apply IH; lia|exact I].
  Qed.

  Lemma word_at_good : forall site off e word, e <= len -> good (fun _ => True) (word_at content site off e word).
  Proof.
    intros site off e word He. unfold word_at.
    destruct (Nat.ltb_spec (length word) (e - off)); [apply is_equal_at_good; lia|exact I].
  Qed.
End Scanners.

Section Subparsers.
  Variable content : list N.
  Notation len := (length content).
  Notation T := (fun _ => True).

  Ltac gbind X := apply good_bind with (Q := X).
  Ltac pbind X := apply post_bind with (Q := X).

(* ---- checkLoopVariable ---- *)
  Definition clean (c : N) : Prop := c <> 62%N /\ c <> 125%N.             (* neither '>' nor '}' *)
  (* the value name of a loop: inside the text, without '>' and '}' *)
  Definition li_ok (li : loopinfo) : Prop :=
    forall k, k < N.to_nat (li_vlen li) ->
      exists c, nth_error content (li_off li + N.to_nat (li_voff li) + k) = Some c /\ clean c.
  (* a '>' or a '}' stands at or after position a *)
  Definition terminated (a : nat) : Prop :=
    exists q c, a <= q /\ nth_error content q = Some c /\ (c = 62%N \/ c = 125%N).

  Lemma is_equal_cc_good : forall n a b,
    (forall k, k < n -> exists c, nth_error content (b + k) = Some c /\ clean c) -> terminated a ->
    good T (is_equal_cc content 10 a b n).
  Proof.
    intros n; induction n as [|k IH]; intros a b Hb (q & c & Hq & Hc & Hnc); [exact I|].
    cbn [is_equal_cc].
    assert (Hql : q < len) by (apply nth_error_Some; rewrite Hc; discriminate).
    gbind (fun x => nth_error content a = Some x); [apply rd_val; lia|]. intros x Hx.
    destruct (Hb 0) as (y & Hy & Hcl); [lia|]. rewrite Nat.add_0_r in Hy.
    assert (Hbl : b < len) by (apply nth_error_Some; rewrite Hy; discriminate).
    gbind (fun y' => nth_error content b = Some y'); [apply rd_val; exact Hbl|]. intros y' Hy'.
    rewrite Hy in Hy'. injection Hy' as <-.
    destruct (N.eqb_spec x y) as [E|E]; [|exact I]. subst y.
    apply IH.
    - intros j Hj. destruct (Hb (S j)) as (z & Hz & Hzc); [lia|]. exists z. split; [|exact Hzc].
      replace (S b + j) with (b + S j) by lia. exact Hz.
    - exists q, c. split; [|split; assumption].
      destruct (Nat.eq_dec a q) as [->|Hne]; [|lia].
      rewrite Hx in Hc. injection Hc as ->. destruct Hcl as [C1 C2]. destruct Hnc; contradiction.
  Qed.

  Lemma check_loop_variable_post : forall chain v,
    Forall li_ok chain -> terminated (v_off v) ->
    post (fun v' => v_off v' = v_off v /\ v_len v' = v_len v) (check_loop_variable content v chain).
  Proof.
    intros chain; induction chain as [|l r IH]; intros v Hch Ht; [cbn; auto|].
    inversion Hch as [|? ? Hl Hr]; subst.
    cbn [check_loop_variable]. destruct (N.eqb (li_vlen l) 0); [apply IH; assumption|].
    pbind (fun _ : bool => True); [apply good_post, is_equal_cc_good; [exact Hl|exact Ht]|]. intros b _.
    destruct b; [cbn; auto|apply IH; assumption].
  Qed.

  (* ---- parseIfCase ---- *)
  Lemma parse_if_case_good : forall offset,
    good (fun r => let '(o, co, ce) := r in offset <= o /\ (o < len -> ce < len))
         (parse_if_case content offset len).
  Proof.
    intros offset. unfold parse_if_case.
    gbind (fun o => offset <= o /\ (o <= len \/ o = offset)); [apply skip_eq_good; lia|].
    intros o1 H1.
    gbind (fun _ : bool => True).
    { destruct (o1 <? len); [apply word_at_good; lia|exact I]. }
    intros is_case _. destruct is_case; [|cbn; split; [lia|intros; lia]].
    gbind (fun o => o1 + tpp_CaseLength <= o); [eapply good_weaken; [apply skip_ne_good; lia|cbn; intros; lia]|].
    intros o2 H2.
    gbind (fun o => S o2 <= o); [eapply good_weaken; [apply skip_eq_do_good; lia|cbn; intros; lia]|].
    intros o3 H3.
    destruct (Nat.ltb_spec o3 len) as [Hlt|Hge]; [|cbn; split; [lia|intros; lia]].
    gbind (fun _ : N => True); [apply rd_good; exact Hlt|]. intros quote _.
    gbind (fun o => S o3 <= o /\ o <= len); [eapply good_weaken; [apply skip_ne_good; lia|cbn; intros; lia]|].
    intros ce Hce.
    gbind (fun o => ce <= o /\ o <= len); [eapply good_weaken; [apply skip_ne_good; lia|cbn; intros; lia]|].
    intros o4 H4. cbn. split; [lia|intros; lia].
  Qed.

  (* ---- parseLoopAttributes ---- *)
  Definition lsame (l l' : looprec) : Prop :=
    l_off l' = l_off l /\ l_end l' = l_end l /\ l_coff l' = l_coff l /\ l_level l' = l_level l /\ l_parent l' = l_parent l.

  Lemma lsame_refl : forall l, lsame l l.
  Proof. intros l. unfold lsame. auto. Qed.
  Lemma lsame_trans : forall a b c, lsame a b -> lsame b c -> lsame a c.
  Proof. unfold lsame. intros a b c (?&?&?&?&?) (?&?&?&?&?). repeat split; congruence. Qed.

Definition vreg (e : nat) (l : looprec) : Prop :=
    N.to_nat (l_voff l) + N.to_nat (l_vlen l) <= e - l_off l.

  Arguments vreg e l : simpl never.

  Lemma t8_le : forall x, N.to_nat (t8 x) <= x.
  Proof. intros x. unfold t8. lia. Qed.

  Lemma set_attr_post : forall l att att_offset offset e,
    l_off l <= att_offset -> att_offset <= offset -> att_offset < len -> offset <= e ->
    Forall li_ok (l_parent l) -> terminated att_offset -> vreg e l ->
    post (fun l' => lsame l l' /\ vreg e l') (set_attr content l att att_offset offset).
  Proof.
    intros l att ao o e H1 H2 H3 H4 Hp Ht Hv. unfold set_attr.
    destruct att as [|[[|[]|]|[[]|[]|]|]]; try (cbn; split; [apply lsame_refl|exact Hv]).
    - (* 3 Sort *)
      apply good_post. gbind (fun _ : N => True); [apply rd_good; lia|]. intros ch _. cbn [post good]. split; [unfold lsame; cbn; auto|exact Hv].
    - (* 2 Value / 4 Group *)
      apply good_post. gbind (fun d => d = ao - l_off l); [apply csub_good; lia|]. intros d1 ->.
      gbind (fun d => d = o - ao); [apply csub_good; lia|]. intros d2 ->.
      cbn [good]. split; [unfold lsame; cbn; auto|]. unfold vreg in *. cbn [l_voff l_vlen l_off].
      pose proof (t8_le (ao - l_off l)) as Ha. pose proof (t8_le (o - ao)) as Hb.
      revert Ha Hb. generalize (N.to_nat (t8 (ao - l_off l))) (N.to_nat (t8 (o - ao))). intros a b Ha Hb. lia.
    - (* 4 Group / 2 Value *)
      apply good_post. gbind (fun d => d = ao - l_off l); [apply csub_good; lia|]. intros d1 ->.
      gbind (fun d => d = o - ao); [apply csub_good; lia|]. intros d2 ->.
      cbn [good]. split; [unfold lsame; cbn; auto|]. unfold vreg in *. cbn [l_voff l_vlen l_off].
      pose proof (t8_le (ao - l_off l)) as Ha. pose proof (t8_le (o - ao)) as Hb.
      revert Ha Hb. generalize (N.to_nat (t8 (ao - l_off l))) (N.to_nat (t8 (o - ao))). intros a b Ha Hb. lia.
    - (* 1 Set *)
      pbind (fun _ : nat => True); [apply good_post; eapply good_weaken; [apply csub_good; lia|auto]|]. intros d _.
      pbind (fun _ : vtag => True); [eapply post_weaken; [apply check_loop_variable_post; [exact Hp|exact Ht]|auto]|]. intros v _.
      cbn [post good]. split; [unfold lsame; cbn; auto|exact Hv].
  Qed.

  Lemma loop_attr_name_good : forall offset e att, offset < e -> e <= len ->
    good (fun r => match r with None => True | Some (o, _) => offset <= o end) (loop_attr_name content offset e att).
  Proof.
    intros offset e att Ho He. unfold loop_attr_name.
    gbind (fun _ : N => True); [apply rd_good; lia|]. intros ch _.
    destruct (N.eqb ch tpp_SetSortChar).
    - gbind (fun _ : bool => True); [apply word_at_good; lia|]. intros b1 _. destruct b1; [cbn; lia|].
      gbind (fun _ : bool => True); [apply word_at_good; lia|]. intros b2 _. destruct b2; cbn; lia.
    - destruct (N.eqb ch tpp_ValueChar).
      + gbind (fun _ : bool => True); [apply word_at_good; lia|]. intros b _. destruct b; cbn; lia.
      + destruct (N.eqb ch tpp_GroupChar); [|exact I].
        gbind (fun _ : bool => True); [apply word_at_good; lia|]. intros b _. destruct b; cbn; lia.
  Qed.

Lemma loop_attrs_post : forall fuel offset e att l,
    e < len -> l_off l <= offset -> e - offset < fuel ->
    Forall li_ok (l_parent l) -> nth_error content e = Some 62%N -> vreg e l ->
    post (fun l' => lsame l l' /\ vreg e l') (loop_attrs content fuel offset e att l).
  Proof.
    intros fuel; induction fuel as [|f IH]; intros offset e att l He Hl Hf Hp Hgt Hv; [lia|].
    assert (Hrefl : lsame l l /\ vreg e l) by (split; [apply lsame_refl|exact Hv]).
    cbn [loop_attrs].
    pbind (fun o => offset <= o /\ (o <= e \/ o = offset)); [apply good_post, skip_eq_good; lia|]. intros o1 H1.
    pbind (fun r : option (nat * N) => match r with None => o1 < e | Some (o, _) => o1 <= o end).
    { destruct (Nat.ltb_spec o1 e) as [Hlt|Hge]; [|cbn; lia].
      apply good_post. eapply good_weaken; [apply loop_attr_name_good; lia|].
      intros [[o a]|] H; [exact H|exact Hlt]. }
    intros [[o2 att2]|] H2.
    - pbind (fun o => o2 <= o); [apply good_post; eapply good_weaken; [apply skip_ne_good; lia|cbn; intros; lia]|]. intros o3 H3.
      pbind (fun o => S o3 <= o); [apply good_post; eapply good_weaken; [apply skip_eq_do_good; lia|cbn; intros; lia]|]. intros o4 H4.
      destruct (Nat.ltb_spec o4 e) as [Hlt|Hge]; [|exact Hrefl].
      pbind (fun _ : N => True); [apply good_post, rd_good; lia|]. intros quote _.
      pbind (fun o => S o4 <= o /\ o <= e); [apply good_post; eapply good_weaken; [apply skip_ne_do_good; lia|cbn; intros; lia]|]. intros o5 H5.
      pbind (fun l' => lsame l l' /\ vreg e l').
      { apply set_attr_post with (e := e); try lia; try assumption.
        exists e, 62%N. split; [lia|split; [exact Hgt|left; reflexivity]]. }
      intros l' [Hl' Hv'].
      destruct (Nat.ltb_spec (S o5) e) as [Hlt2|Hge2]; [|split; assumption].
      destruct Hl' as (E1 & E2 & E3 & E4 & E5).
      eapply post_weaken; [apply IH; [exact He|rewrite E1; lia|lia|rewrite E5; exact Hp|exact Hgt|exact Hv']|].
      intros l'' [Hl'' Hv'']. split; [eapply lsame_trans; [|exact Hl'']; unfold lsame; auto|exact Hv''].
    - destruct (Nat.ltb_spec (S o1) e) as [Hlt|Hge]; [|exact Hrefl].
      apply IH; try assumption; lia.
  Qed.

  Lemma parse_loop_attributes_post : forall e l, e < len ->
    Forall li_ok (l_parent l) -> nth_error content e = Some 62%N -> vreg e l ->
    post (fun l' => lsame l l' /\ vreg e l') (parse_loop_attributes content e l).
  Proof. intros e l He Hp Hgt Hv. unfold parse_loop_attributes. apply loop_attrs_post; try assumption; lia. Qed.

  (* ---- the attribute scanner of an inline if ---- *)
  Definition isame (i i' : iifrec) : Prop := i_off i' = i_off i /\ i_len i' = i_len i.

  Lemma set_iif_value_good : forall i is_true att_offset offset,
    i_off i <= att_offset -> att_offset <= offset ->
    good (isame i) (set_iif_value i is_true att_offset offset).
  Proof.
    intros i is_true ao o H1 H2. unfold set_iif_value.
    gbind (fun _ : nat => True); [eapply good_weaken; [apply csub_good; lia|auto]|]. intros d1 _.
    gbind (fun _ : nat => True); [eapply good_weaken; [apply csub_good; lia|auto]|]. intros d2 _.
    destruct is_true; cbn; unfold isame; cbn; auto.
  Qed.

  Lemma iif_attr_name_good : forall offset e is_true, offset < e -> e <= len ->
    good (fun r => match r with None => True | Some (o, _) => offset <= o end) (iif_attr_name content offset e is_true).
  Proof.
    intros offset e is_true Ho He. unfold iif_attr_name.
    gbind (fun _ : N => True); [apply rd_good; lia|]. intros ch _.
    destruct (N.eqb ch tpp_TrueChar).
    - gbind (fun _ : bool => True); [apply word_at_good; lia|]. intros b _. destruct b; cbn; lia.
    - destruct (N.eqb ch tpp_FalseChar); [|exact I].
      gbind (fun _ : bool => True); [apply word_at_good; lia|]. intros b _. destruct b; cbn; [lia|exact I].
  Qed.

  Lemma iif_attrs_good : forall fuel offset e is_true toff i,
    e <= len -> i_off i <= offset -> e - offset < fuel ->
    good (fun r => isame i (fst r)) (iif_attrs content fuel offset e is_true toff i).
  Proof.
    intros fuel; induction fuel as [|f IH]; intros offset e is_true toff i He Hi Hf; [lia|].
    assert (Hrefl : isame i i) by (unfold isame; auto).
    cbn [iif_attrs].
    gbind (fun o => offset <= o /\ (o <= e \/ o = offset)); [apply skip_eq_good; lia|]. intros o1 H1.
    destruct (Nat.ltb_spec o1 e) as [Hlt|Hge]; [|exact Hrefl].
    gbind (fun r : option (nat * bool) => match r with None => True | Some (o, _) => o1 <= o end);
      [apply iif_attr_name_good; lia|].
    intros [[o2 it2]|] H2; [|exact Hrefl].
    gbind (fun o => o2 <= o); [eapply good_weaken; [apply skip_ne_good; lia|cbn; intros; lia]|]. intros o3 H3.
    gbind (fun o => S o3 <= o); [eapply good_weaken; [apply skip_eq_do_good; lia|cbn; intros; lia]|]. intros o4 H4.
    destruct (Nat.ltb_spec o4 e) as [Hlt4|Hge4].
    - gbind (fun _ : N => True); [apply rd_good; lia|]. intros quote _.
      gbind (fun o => S o4 <= o); [eapply good_weaken; [apply skip_ne_good; lia|cbn; intros; lia]|]. intros o5 H5.
      destruct (Nat.ltb_spec o5 e) as [Hlt5|Hge5]; [|cbn; unfold isame; cbn; auto].
      gbind (isame i); [apply set_iif_value_good; lia|]. intros i' Hi'.
      destruct (Nat.ltb_spec (S o5) e) as [Hlt6|Hge6]; [|exact Hi'].
      eapply good_weaken; [apply IH; [exact He|destruct Hi' as [E _]; rewrite E; lia|lia]|].
      intros r Hr. destruct Hi' as [E1 E2]. destruct Hr as [E3 E4]. unfold isame. split; congruence.
    - destruct (Nat.ltb_spec (S o4) e) as [Hlt6|Hge6]; [|exact Hrefl].
      apply IH; [exact He|lia|lia].
  Qed.

  Lemma sub_tags_valid_good : forall i subs,
    Forall (fun s => match s with PVar v | PRaw v => tpp_VariablePrefixLength <= v_off v | _ => True end) subs ->
    good T (sub_tags_valid i subs).
  Proof.
    intros i subs; induction subs as [|s r IH]; intros H; [exact I|].
    inversion H as [|s' r' Hs Hr]; subst. cbn [sub_tags_valid].
    destruct s as [v|v|o e ex| | | |]; try exact I.
    - gbind (fun _ : nat => True); [eapply good_weaken; [apply csub_good; exact Hs|auto]|]. intros st _.
      match goal with |- good _ (if ?c then _ else _) => destruct c end; [apply IH; exact Hr|exact I].
    - gbind (fun _ : nat => True); [eapply good_weaken; [apply csub_good; exact Hs|auto]|]. intros st _.
      match goal with |- good _ (if ?c then _ else _) => destruct c end; [apply IH; exact Hr|exact I].
    - match goal with |- good _ (if ?c then _ else _) => destruct c end; [apply IH; exact Hr|exact I].
  Qed.

  (* ---- expressions ---- *)
  Lemma is_expression_good : forall offset, offset <= len -> good T (is_expression content offset).
  Proof.
    intros offset; induction offset as [|o IH]; intros H; [exact I|].
    cbn [is_expression]. gbind (fun _ : N => True); [apply rd_good; lia|]. intros ch _.
    destruct (N.eqb ch sym_Space); [apply IH; lia|].
    destruct (N.eqb ch sym_ParenEnd || N.eqb ch sym_BracketEnd); exact I.
  Qed.

  Lemma skip_paren_good : forall fuel offset e skip, e <= len -> e - offset <= fuel ->
    good (fun o => offset <= o /\ (o <= e \/ o = offset)) (skip_paren content fuel offset e skip).
  Proof.
    intros fuel; induction fuel as [|k IH]; intros offset e skip He Hf.
    - cbn [skip_paren]. destruct (Nat.ltb_spec offset e); [lia|]. cbn. lia.
    - cbn [skip_paren]. destruct (Nat.ltb_spec offset e) as [Hlt|Hge]; [|cbn; lia].
      gbind (fun _ : N => True); [apply rd_good; lia|]. intros ch _.
      destruct (N.eqb ch sym_ParenEnd).
      + destruct (N.eqb skip 0); [cbn; lia|]. eapply good_weaken; [apply IH; lia|]. cbn. intros; lia.
      + destruct (N.eqb ch sym_ParenStart); (eapply good_weaken; [apply IH; lia|]; cbn; intros; lia).
  Qed.

  Lemma get_operation_good : forall fuel offset e, e < len -> e - offset < fuel ->
    good (fun r => offset <= snd r /\ (snd r <= e \/ snd r = offset)) (get_operation content fuel offset e).
  Proof.
    intros fuel; induction fuel as [|f IH]; intros offset e He Hf; [lia|].
    cbn [get_operation]. destruct (Nat.ltb_spec offset e) as [Hlt|Hge]; [|cbn; lia].
    gbind (fun _ : N => True); [apply rd_good; lia|]. intros ch _.
    assert (Htwo : forall sym yes no, good (fun r : N * nat => offset <= snd r /\ (snd r <= e \/ snd r = offset))
              (if S offset <? e then bind (rd content 23 (S offset)) (fun nx => Ok ((if N.eqb nx sym then yes else no), offset))
               else Ok (no, offset))).
    { intros sym yes no. destruct (Nat.ltb_spec (S offset) e); [|cbn; lia].
      gbind (fun _ : N => True); [apply rd_good; lia|]. intros nx _. cbn. lia. }
    assert (Hrec : forall o2, offset < o2 <= e -> good (fun r : N * nat => offset <= snd r /\ (snd r <= e \/ snd r = offset))
              (get_operation content f o2 e)).
    { intros o2 Ho2. eapply good_weaken; [apply IH; lia|]. cbn. intros r Hr. lia. }
    repeat match goal with
    | |- good _ (if N.eqb ch ?s then _ else _) => destruct (N.eqb ch s)
    end; try apply Htwo; try (cbn; lia); try (apply Hrec; lia).
    - gbind (fun _ : bool => True); [apply is_expression_good; lia|]. intros b _. destruct b; [cbn; lia|apply Hrec; lia].
    - gbind (fun _ : bool => True); [apply is_expression_good; lia|]. intros b _. destruct b; [cbn; lia|apply Hrec; lia].
    - gbind (fun o => S offset <= o /\ (o <= e \/ o = S offset)); [apply skip_paren_good; lia|]. intros o2 H2.
      destruct (Nat.ltb_spec o2 e); [apply Hrec; lia|cbn; lia].
    - gbind (fun o => S offset <= o /\ (o <= e \/ o = S offset)); [apply skip_ne_do_good; lia|]. intros o2 H2.
      destruct (Nat.ltb_spec o2 e); [apply Hrec; lia|cbn; lia].
  Qed.

  Lemma trim_right_good : forall fuel offset e, e <= len -> e - offset <= fuel ->
    good (fun e' => e' <= e /\ (offset <= e' \/ e' = e)) (trim_right content fuel offset e).
  Proof.
    intros fuel; induction fuel as [|k IH]; intros offset e He Hf.
    - cbn [trim_right]. destruct (Nat.ltb_spec offset e); [lia|]. cbn. lia.
    - cbn [trim_right]. destruct (Nat.ltb_spec offset e) as [Hlt|Hge]; [|cbn; lia].
      gbind (fun _ : N => True); [apply rd_good; lia|]. intros ch _.
      destruct (is_ws ch); [|cbn; lia].
      eapply good_weaken; [apply IH; lia|]. cbn. intros; lia.
  Qed.

  Variable numf : list N -> N * N * nat.

  Lemma parse_expr_post : forall n,
    (forall off e chain, Forall li_ok chain -> e < len -> 3 * (e - off) + 2 <= n ->
       post T (parse_expressions numf content n off e chain)) /\
    (forall off e chain acc last, Forall li_ok chain -> e < len -> 3 * (e - off) + 1 <= n ->
       post T (pe_loop numf content n off e chain acc last)) /\
    (forall oper last off e chain acc, Forall li_ok chain -> e < len -> 1 <= n -> 3 * (e - off) <= n ->
       post T (parse_value numf content n oper last off e chain acc)).
  Proof.
    intros n; induction n as [|f IH]; [repeat split; intros; lia|].
    destruct IH as (IHx & IHl & IHv).
    repeat split.
    - intros off e chain Hch He Hf. cbn [parse_expressions]. apply IHl; [exact Hch|exact He|lia].
    - intros off e chain acc last Hch He Hf. cbn [pe_loop].
      destruct (Nat.ltb_spec off e) as [Hlt|Hge]; [|destruct (e <? off); exact I].
      pbind (fun r : N * nat => off <= snd r /\ (snd r <= e \/ snd r = off));
        [apply good_post, get_operation_good; [exact He|lia]|].
      intros [oper off2] H2. cbn [fst snd] in *.
      destruct (N.eqb oper op_Error); [exact I|].
      pbind (fun _ : option (list qexpr) => True); [apply IHv; [exact Hch|lia|lia|lia]|].
      intros [acc'|] _; [|exact I].
      apply IHl; [exact Hch|exact He|]. destruct (N.ltb oper op_Greater); lia.
    - intros oper last off e chain acc Hch He H1 Hf. cbn [parse_value].
      pbind (fun o => off <= o /\ (o <= e \/ o = off)); [apply good_post, skip_while_good; lia|]. intros o1 Ho1.
      pbind (fun e' => e' <= e /\ (o1 <= e' \/ e' = e)); [apply good_post, trim_right_good; lia|]. intros e1 He1.
      destruct (Nat.ltb_spec o1 e1) as [Hlt|Hge]; [|exact I].
      pbind (fun _ : N => True); [apply good_post, rd_good; lia|]. intros ch _.
      destruct (N.eqb ch sym_ParenStart).
      + pbind (fun _ : list qexpr => True); [apply IHx; [exact Hch|lia|lia]|]. intros sub _.
        destruct (negb (N.eqb last oper) || negb (N.eqb oper op_NoOp)); destruct sub; exact I.
      + destruct (N.eqb ch sym_BracketStart).
        * destruct (Nat.ltb_spec tpp_VariableFullLength (e1 - o1)) as [Hvl|Hvl]; [|exact I].
          unfold tpp_VariableFullLength in Hvl.
          pbind (fun c => nth_error content (e1 - tpp_InLineSuffixLength) = Some c);
            [apply good_post, rd_val; unfold tpp_InLineSuffixLength; lia|]. intros lastc Hlast.
          destruct (N.eqb_spec lastc tpp_InLineLastChar) as [El|El]; [|exact I].
          pbind (fun _ : vtag => True); [eapply post_weaken; [apply check_loop_variable_post; [exact Hch|]|auto]|].
          { cbn [v_off]. exists (e1 - tpp_InLineSuffixLength), lastc.
            split; [unfold tpp_InLineSuffixLength, tpp_VariablePrefixLength; lia|split; [exact Hlast|right; exact El]]. }
          intros v _. exact I.
        * destruct (numf (slice content o1 e1)) as [[kind bits] used].
          destruct (negb (N.eqb kind 0) && (o1 + used =? e1)); [exact I|].
          match goal with |- post _ (if ?c then _ else _) => destruct c end; exact I.
  Qed.

  Lemma pexpr_post : forall off e chain, Forall li_ok chain -> e < len \/ e <= off -> post T (pexpr numf content off e chain).
  Proof.
    intros off e chain Hch [H|H].
    - unfold pexpr. apply (proj1 (parse_expr_post _)); [exact Hch|exact H|lia].
    - unfold pexpr. replace (e - off) with 0 by lia. change (3 * 0 + 4) with 4.
      cbn [parse_expressions pe_loop].
      destruct (Nat.ltb_spec off e); [lia|]. destruct (e <? off); exact I.
  Qed.
End Subparsers.
