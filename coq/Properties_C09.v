(* Properties_C09.v -- C09: text to number.  PARTIAL.
   Proved (unbounded in the surrounding text, on the model coq/DigitModel.v, which
   describes Digit.hpp after findings/D28, D43, D44, D45):
     every integer numeral that fits is returned exactly with the right kind and
     the right consumed length (19-digit window, 20th-digit overflow test, 2^63 and
     2^64 boundaries), leading zeros and a lone dot are rejected, the sign of a
     negative numeral is kept (incl. -0), the generated tables are what the code
     assumes.
   NOT proved: the one-ulp bound for non-integer numerals and the rejection of every
   numeral above the largest finite double (Definitions below; tested against the
   exact-rational oracle of DigitModelSpec.v by the correspondence run).
   Phase 3 additions: repeated dot / empty exponent rejected on every path (inside and
   beyond the 19-digit window), the bare "0", the sign of a negative numeral on ALL
   paths, and the rejection of the syntactic class  d ds (e|E)[+]es  with
   (mantissa digits) + (written exponent) >= 310  (value >= 10^309).  Still only tested:
   the band DBL_MAX .. 10^309, overflowing mantissas with a point or > 19 digits, and the
   sign bit being CLEAR for non-negative numerals (needs a bound on the computed exponent). *)
From Coq Require Import NArith ZArith List Bool.
From Qv Require Import gen.Tables_digit DigitModel DigitModelSpec DigitProofsInt DigitProofsParse DigitProofsReject DigitProofsSign DigitProofsOverflow DigitProofsAccPos DigitProofsAccNeg.
Import ListNotations.
Local Open Scope N_scope.

(* dig c: c is '0'..'9';  dval s: the number the digit string s denotes;
   delim rest: the text after the numeral is empty or starts with something that is no digit, '.', 'e', 'E' *)

(* unsigned, up to 19 digits (every such numeral fits): Natural, exact, consumed = the digits *)
Theorem c09_int_exact_unsigned : forall d ds rest,
  is_nz_digit d = true -> Forall dig ds -> delim rest -> (length ds <= 18)%nat ->
  string_to_number (d :: ds ++ rest) = Ok (mkPres qn_natural (dval (d :: ds)) (1 + N.of_nat (length ds))).
Proof. exact stn_unsigned_int. Qed.
Print Assumptions c09_int_exact_unsigned.

(* twenty digits: exact and Natural exactly when the value is below 2^64 *)
Theorem c09_int_exact_20_digits : forall d ds d20 rest,
  is_nz_digit d = true -> Forall dig ds -> dig d20 -> delim rest -> length ds = 18%nat ->
  dval (d :: ds ++ [d20]) < 2 ^ 64 ->
  string_to_number (d :: ds ++ d20 :: rest) = Ok (mkPres qn_natural (dval (d :: ds ++ [d20])) 20).
Proof. exact stn_unsigned_int20. Qed.
Print Assumptions c09_int_exact_20_digits.

Theorem c09_int_exact_plus : forall d ds rest,
  is_nz_digit d = true -> Forall dig ds -> delim rest -> (length ds <= 18)%nat ->
  string_to_number (ch_pos :: d :: ds ++ rest) = Ok (mkPres qn_natural (dval (d :: ds)) (2 + N.of_nat (length ds))).
Proof. exact stn_plus_int. Qed.
Print Assumptions c09_int_exact_plus.

(* negative, magnitude up to 2^63 INCLUSIVE (D28): Integer, two's complement pattern of -n *)
Theorem c09_int_exact_negative : forall d ds rest,
  is_nz_digit d = true -> Forall dig ds -> delim rest -> (length ds <= 18)%nat ->
  dval (d :: ds) <= 2 ^ 63 ->
  string_to_number (ch_neg :: d :: ds ++ rest) = Ok (mkPres qn_integer (2 ^ 64 - dval (d :: ds)) (2 + N.of_nat (length ds))).
Proof. exact stn_negative_int. Qed.
Print Assumptions c09_int_exact_negative.

(* c09_consumed: the offsets in the four theorems above are exactly the end of the numeral *)

Theorem c09_leading_zero_rejected : forall d rest,
  is_digit d = true ->
  (exists p, string_to_number (ch_zero :: d :: rest) = Ok p /\ p_kind p = qn_nan)
  /\ (exists p, string_to_number (ch_neg :: ch_zero :: d :: rest) = Ok p /\ p_kind p = qn_nan).
Proof. intros d rest H. split; [apply stn_leading_zero_rejected|apply stn_negative_leading_zero_rejected]; exact H. Qed.
Print Assumptions c09_leading_zero_rejected.

Theorem c09_lone_dot_rejected : forall rest,
  match rest with [] => True | c :: _ => is_digit c = false end ->
  (exists p, string_to_number (ch_dot :: rest) = Ok p /\ p_kind p = qn_nan)
  /\ (exists p, string_to_number (ch_neg :: ch_dot :: rest) = Ok p /\ p_kind p = qn_nan).
Proof. exact stn_lone_dot_rejected. Qed.
Print Assumptions c09_lone_dot_rejected.

(* whatever follows the mantissa loop of a negative numeral, a Real result carries the sign bit *)
Theorem c09_sign_preserved : forall d r p,
  is_nz_digit d = true ->
  string_to_number (ch_neg :: d :: r) = Ok p -> p_kind p = qn_real -> N.testbit (p_bits p) 63 = true.
Proof. exact stn_negative_sign_preserved. Qed.
Print Assumptions c09_sign_preserved.

(* -0, -0.0, -0.5, -0e5 and +0.5: by computation *)
Theorem c09_sign_zero_examples :
  string_to_number [45; 48] = Ok (mkPres qn_real sign_bit 2)
  /\ string_to_number [45; 48; 46; 48] = Ok (mkPres qn_real sign_bit 4)
  /\ string_to_number [45; 48; 46; 53] = Ok (mkPres qn_real 13826050856027422720 4)
  /\ string_to_number [45; 48; 101; 53] = Ok (mkPres qn_real sign_bit 4)
  /\ string_to_number [48; 46; 53] = Ok (mkPres qn_real 4602678819172646912 3).
Proof. exact sign_examples. Qed.
Print Assumptions c09_sign_zero_examples.

Theorem c09_tables_ok :
  (dg_pow5 = map (fun i => 5 ^ N.of_nat i) (seq 0 28) /\ dg_max_pow5 = 27 /\ dg_max_shift = 64
   /\ dg_max_pow10 = 19 /\ dg_max_pow10_value = 10 ^ 19)
  /\ (recip_check = true /\ recip5 0 = 1 /\ recip5_shift 0 = 0).
Proof. exact (conj pow5_table_ok recip_table_ok). Qed.
Print Assumptions c09_tables_ok.

(* ---- the real-valued claims: statements only ---- *)
(* every well-formed numeral is accepted with a double within one ulp of the correctly rounded value *)
Definition c09_real_one_ulp : Prop :=
  forall content p, string_to_number content = Ok p ->
    c09_oracle content (p_kind p) (p_bits p) (p_off p) = 1.
(* refuted on the faithful model: numerals below 1e-325 are rejected (class KF-C09b; pinned by the repository's suite) *)
Theorem c09_real_one_ulp_refuted : ~ c09_real_one_ulp.
Proof.
  intros H.
  (* 4.708944e-326 *)
  specialize (H [52;46;55;48;56;57;52;52;101;45;51;50;54] (nan_res 4708944 13)).
  assert (E : string_to_number [52;46;55;48;56;57;52;52;101;45;51;50;54] = Ok (nan_res 4708944 13)) by (vm_compute; reflexivity).
  specialize (H E). vm_compute in H. inversion H.
Qed.
Print Assumptions c09_real_one_ulp_refuted.

(* partial: computed boundary and malformed examples (non-vacuity of the theorems above) *)
Theorem c09_examples :
  string_to_number [57;50;50;51;51;55;50;48;51;54;56;53;52;55;55;53;56;48;55] = Ok (mkPres qn_natural 9223372036854775807 19)
  /\ string_to_number [45;57;50;50;51;51;55;50;48;51;54;56;53;52;55;55;53;56;48;56] = Ok (mkPres qn_integer 9223372036854775808 20)
  /\ string_to_number [49;56;52;52;54;55;52;52;48;55;51;55;48;57;53;53;49;54;49;53] = Ok (mkPres qn_natural 18446744073709551615 20)
  /\ string_to_number [49; 50; 44] = Ok (mkPres qn_natural 12 2)
  /\ p_kind (match string_to_number [49;46;50;46;51] with Ok p => p | Err _ => mkPres 9 0 0 end) = qn_nan
  /\ p_kind (match string_to_number [49;101] with Ok p => p | Err _ => mkPres 9 0 0 end) = qn_nan.
Proof. repeat (match goal with |- _ /\ _ => split end); vm_compute; reflexivity. Qed.
Print Assumptions c09_examples.

(* ================= Phase 3 ================= *)
(* sign_prefix sg: sg is "", "-" or "+".  bad_tail hd l (DigitProofsReject): syntactic, number-free
   description of a text on which the scan after the mantissa fails: digits are skipped, then a
   decimal point when one was seen already (hd = true), or e / E followed by no exponent digits. *)

(* GENERAL: [sign] d r1 with d a non-zero digit and a failing tail is NotANumber, on every path *)
Theorem c09_bad_tail_rejected : forall sg d r1,
  sign_prefix sg -> is_nz_digit d = true -> bad_tail false r1 = true ->
  exists p, string_to_number (sg ++ d :: r1) = Ok p /\ p_kind p = qn_nan.
Proof. exact stn_bad_tail_rejected. Qed.
Print Assumptions c09_bad_tail_rejected.

(* repeated dot: [sign] d ds1 . ds2 . anything   (ds1, ds2 any digit strings, also empty; any length) *)
Theorem c09_repeated_dot_rejected : forall sg d ds1 ds2 rest,
  sign_prefix sg -> is_nz_digit d = true -> Forall dig ds1 -> Forall dig ds2 ->
  exists p, string_to_number (sg ++ d :: ds1 ++ ch_dot :: ds2 ++ ch_dot :: rest) = Ok p /\ p_kind p = qn_nan.
Proof. exact stn_repeated_dot_rejected. Qed.
Print Assumptions c09_repeated_dot_rejected.

(* empty exponent: [sign] d ds1 (e|E) tail  with bad_exp tail: tail is empty, or starts with no digit
   and no sign, or is a sign followed by nothing / by no digit *)
Theorem c09_empty_exponent_rejected : forall sg d ds1 c tail,
  sign_prefix sg -> is_nz_digit d = true -> Forall dig ds1 -> exp_marker c -> bad_exp tail = true ->
  exists p, string_to_number (sg ++ d :: ds1 ++ c :: tail) = Ok p /\ p_kind p = qn_nan.
Proof. exact stn_empty_exponent_rejected. Qed.
Print Assumptions c09_empty_exponent_rejected.

Theorem c09_empty_exponent_frac_rejected : forall sg d ds1 ds2 c tail,
  sign_prefix sg -> is_nz_digit d = true -> Forall dig ds1 -> Forall dig ds2 -> exp_marker c -> bad_exp tail = true ->
  exists p, string_to_number (sg ++ d :: ds1 ++ ch_dot :: ds2 ++ c :: tail) = Ok p /\ p_kind p = qn_nan.
Proof. exact stn_empty_exponent_frac_rejected. Qed.
Print Assumptions c09_empty_exponent_frac_rejected.

(* zero mantissas: 0e<empty exponent>;  0.<tail that fails>, e.g. 0.5.3, 0.0e, 0.e+ *)
Theorem c09_zero_empty_exponent_rejected : forall sg c tail,
  sign_prefix sg -> exp_marker c -> bad_exp tail = true ->
  exists p, string_to_number (sg ++ ch_zero :: c :: tail) = Ok p /\ p_kind p = qn_nan.
Proof. exact stn_zero_empty_exponent_rejected. Qed.
Print Assumptions c09_zero_empty_exponent_rejected.

Theorem c09_zero_dot_bad_tail_rejected : forall sg r2,
  sign_prefix sg -> bad_tail true r2 = true ->
  exists p, string_to_number (sg ++ ch_zero :: ch_dot :: r2) = Ok p /\ p_kind p = qn_nan.
Proof. exact stn_zero_dot_bad_tail_rejected. Qed.
Print Assumptions c09_zero_dot_bad_tail_rejected.

(* the bare zero: "0" is the natural 0, "+0" too, "-0" is the real -0.0; consumed = 1 / 2 / 2 *)
Theorem c09_zero_exact : forall rest,
  delim rest -> match rest with c :: _ => c <> ch_x /\ c <> ch_ux | [] => True end ->
  string_to_number (ch_zero :: rest) = Ok (mkPres qn_natural 0 1)
  /\ string_to_number (ch_pos :: ch_zero :: rest) = Ok (mkPres qn_natural 0 2)
  /\ string_to_number (ch_neg :: ch_zero :: rest) = Ok (mkPres qn_real sign_bit 2).
Proof. exact stn_zero. Qed.
Print Assumptions c09_zero_exact.

(* sign on ALL paths: whatever follows '-', a Real result has bit 63 set (-.5, -0.x, -0e5, hex, ... included;
   rejected forms are not Real, so the statement holds for them vacuously) *)
Theorem c09_sign_preserved_all_paths : forall r p,
  string_to_number (ch_neg :: r) = Ok p -> p_kind p = qn_real -> N.testbit (p_bits p) 63 = true.
Proof. exact stn_negative_sign_all_paths. Qed.
Print Assumptions c09_sign_preserved_all_paths.

(* overflow: [sign] d ds (e|E) [+] es <no digit>  with at most 19 mantissa digits and
   (1 + |ds|) + value(es) >= 310, i.e. value >= 10^309 > DBL_MAX: NotANumber.  es may be arbitrarily long. *)
Theorem c09_overflow_rejected : forall sg d ds c plus es rest,
  sign_prefix sg -> is_nz_digit d = true -> Forall dig ds -> (length ds <= 18)%nat -> exp_marker c ->
  (plus = [] \/ plus = [ch_pos]) -> es <> [] -> Forall dig es -> nodigit rest ->
  N.of_nat (length (sg ++ d :: ds ++ c :: plus ++ es ++ rest)) < 2 ^ 32 ->
  310 <= 1 + N.of_nat (length ds) + dval es ->
  exists p, string_to_number (sg ++ d :: ds ++ c :: plus ++ es ++ rest) = Ok p /\ p_kind p = qn_nan.
Proof. exact stn_overflow_rejected. Qed.
Print Assumptions c09_overflow_rejected.

(* ================= Accuracy phase: the positive power-of-ten path (Digit::powerOfPositiveTen) ================= *)
(* A finite normal double with bit pattern bits is  dbl_M bits * 2^(dbl_x bits - 1075)  with
   dbl_M = 2^52 + bits mod 2^52 and dbl_x = bits / 2^52; all inequalities are multiplied by 2^1075.
   c09_decode_agrees_with_spec: this decoding is the one of the specification oracle (DigitModelSpec.classify). *)
Theorem c09_decode_agrees_with_spec : forall bits, 1 <= dbl_x bits <= 2046 ->
  classify fmt_double bits =
  (if 1075 <=? dbl_x bits then FFin false (dbl_M bits * 2 ^ (dbl_x bits - 1075)) 1
   else FFin false (dbl_M bits) (2 ^ (1075 - dbl_x bits))).
Proof. exact classify_normal. Qed.
Print Assumptions c09_decode_agrees_with_spec.

(* STRICTLY within one ulp: for every mantissa 0 < m < 2^64 (the 19/20-digit window) and every decimal
   exponent e the double r returned for m * 10^e satisfies | m * 10^e - r | < ulp(r).
   NOT claimed (and false): correct rounding -- ties are rounded up and the bits below the 54-bit prefix are ignored
   (1e23, see the example).  NOT covered: the bookkeeping of stringToNumber that produces (m, e) from the text
   (tested by the correspondence run), the negative-power path, numerals whose digits beyond the window are dropped. *)
Theorem c09_pos_power_one_ulp : forall m e bits,
  0 < m -> m < 2 ^ 64 -> e < 2 ^ 20 ->
  power_of_positive_ten m e = Ok (Some bits) ->
  1023 <= dbl_x bits <= 2046
  /\ dbl_M bits * 2 ^ dbl_x bits < m * 10 ^ e * 2 ^ 1075 + 2 ^ dbl_x bits
  /\ m * 10 ^ e * 2 ^ 1075 < dbl_M bits * 2 ^ dbl_x bits + 2 ^ dbl_x bits.
Proof. exact ppt_accuracy. Qed.
Print Assumptions c09_pos_power_one_ulp.

(* EXACT when m * 5^e < 2^53 (every integer below 2^53 written with an exponent, 1e22, ...) *)
Theorem c09_pos_power_exact : forall m e bits,
  0 < m -> m < 2 ^ 64 -> e < 2 ^ 20 -> m * 5 ^ e < 2 ^ 53 ->
  power_of_positive_ten m e = Ok (Some bits) ->
  1023 <= dbl_x bits <= 2046 /\ dbl_M bits * 2 ^ dbl_x bits = m * 10 ^ e * 2 ^ 1075.
Proof. exact ppt_exact. Qed.
Print Assumptions c09_pos_power_exact.

(* a value at or above 2^1024 never gets a finite double on this path (D43 made it NotANumber) *)
Theorem c09_pos_power_overflow_rejected : forall m e bits,
  0 < m -> m < 2 ^ 64 -> e < 2 ^ 20 -> 2 ^ 1024 <= m * 10 ^ e ->
  power_of_positive_ten m e <> Ok (Some bits).
Proof. exact ppt_overflow_rejected. Qed.
Print Assumptions c09_pos_power_overflow_rejected.

(* non-vacuity: 12345e10 exact; 7.999952e308 rejected; 1e23 is an exact tie, rounded UP by the code
   (strtod / round-half-even gives the neighbour below) *)
Theorem c09_pos_power_examples :
  power_of_positive_ten 12345 10 = Ok (Some 4817745202031689728)
  /\ power_of_positive_ten 7999952 302 = Ok None
  /\ power_of_positive_ten 1 23 = Ok (Some 4950912855330343671).
Proof. exact ppt_examples. Qed.
Print Assumptions c09_pos_power_examples.

(* ================= Accuracy phase 2: the negative power-of-ten path (Digit::powerOfNegativeTen) ================= *)
(* power_of_negative_ten m e = pnt_scaled m e (the reciprocal-of-five multiplications) followed by pnt_final
   (rounding and packing).  NInv K b e A :  | b * 5^e - A | * 2^62 <= K * 5^e * 2^62 + K * A. *)
Theorem c09_neg_power_split : forall m e,
  power_of_negative_ten m e = (do '(b2, sh2) <- pnt_scaled m e; pnt_final b2 sh2).
Proof. exact pnt_unfold. Qed.
Print Assumptions c09_neg_power_split.

(* GENERIC BOUND, every mantissa < 2^64 and exponent: the scaled integer b2 (which should be
   m * 2^sh2 / 10^e = A / 5^e with A = m * 2^(sh2 - e)) is off by at most K units plus a relative K * 2^-62,
   K <= e / 27 + 1 the number of multiplications.  Uses the reciprocal table facts re-checked per run. *)
Theorem c09_neg_power_scaled_bound : forall m e b2 sh2,
  m < 2 ^ 64 -> e < 2 ^ 20 -> pnt_scaled m e = Ok (b2, sh2) ->
  exists K, K <= e / 27 + 1 /\ e + 64 <= sh2 /\ NInv K b2 e (m * 2 ^ (sh2 - e)).
Proof. exact pnt_scaled_bound. Qed.
Print Assumptions c09_neg_power_scaled_bound.

(* ONE ULP under the guard pnt_guard m e (a boolean, measured by the check on its generated numerals):
   the scaled integer has at least 59 bits (5 guard bits below the 53-bit result), e <= 377, and the result
   is a normal double.  Then | m / 10^e - r | < ulp(r)  (multiplied by 10^e * 2^1075).
   NOT covered: numerals outside the guard (1- or 2-digit mantissas with exponents near -300: only ~3 guard
   bits; subnormal results), for which only the generic bound above is proved; correct rounding (not claimed). *)
Theorem c09_neg_power_one_ulp_guarded : forall m e bits,
  0 < m -> m < 2 ^ 64 -> pnt_guard m e = true ->
  power_of_negative_ten m e = Ok bits ->
  1 <= dbl_x bits
  /\ dbl_M bits * 2 ^ dbl_x bits * 10 ^ e < m * 2 ^ 1075 + 2 ^ dbl_x bits * 10 ^ e
  /\ m * 2 ^ 1075 < dbl_M bits * 2 ^ dbl_x bits * 10 ^ e + 2 ^ dbl_x bits * 10 ^ e.
Proof. exact pnt_one_ulp_guarded. Qed.
Print Assumptions c09_neg_power_one_ulp_guarded.

(* non-vacuity: 15e-11 and 12345678901234567e-30 are inside the guard, 1e-325 is not *)
Theorem c09_neg_power_examples :
  pnt_guard 15 11 = true /\ power_of_negative_ten 15 11 = Ok 4459862875403570764
  /\ pnt_guard 12345678901234567 30 = true /\ pnt_guard 1 325 = false.
Proof. exact pnt_examples. Qed.
Print Assumptions c09_neg_power_examples.
