(* BigIntShiftL.v -- C19 lemmas, part 4: ShiftLeft (whole-word move with the D7 repair,
   then bit shift with carry into a new top word). *)
From Coq Require Import Arith NArith ZArith List Bool Lia Psatz.
From Coq Require Import ZifyBool ZifyNat ZifyN.
From Qv Require Import BigIntModel BigIntProofs BigIntHelpers BigIntShift.
Import ListNotations.
Local Open Scope N_scope.

Lemma nth_firstn_N : forall m (l : list N) j, nth j (firstn m l) 0 = if (j <? m)%nat then nth j l 0 else 0.
Proof.
  induction m as [|m IH]; intros l j.
  - cbn. destruct j; reflexivity.
  - destruct l as [|a t].
    { cbn [firstn]. destruct j; cbn [nth]; match goal with |- context [if ?c then _ else _] => destruct c end; reflexivity. }
    destruct j as [|j]; [reflexivity|]. cbn [firstn nth]. rewrite IH.
    change (S j <? S m)%nat with (j <? m)%nat. reflexivity.
Qed.

Section W.
  Variable w : N.
  Notation B := (Bw w).
  Notation val := (value w).
  Notation pw := (pw w).
  Notation bval := (bval w).

  Lemma move_up_spec : forall k l move, wordsok w l -> (1 <= move)%nat -> (k + move <= length l)%nat ->
    exists l', move_up k l move = Ok l' /\ length l' = length l /\ wordsok w l' /\
      (forall j, (j < k)%nat -> nth (j + move) l' 0 = nth j l 0) /\
      (forall j, (j < move \/ k + move <= j)%nat -> nth j l' 0 = nth j l 0).
  Proof.
    induction k as [|j IH]; intros l move Hw Hm Hl.
    - exists l. cbn. repeat split; auto. intros j Hj. lia.
    - cbn [move_up]. rewrite rd_ok by lia. cbn [bind]. rewrite wr_ok by lia. cbn [bind].
      set (l1 := upd l (j + move) (nth j l 0)).
      destruct (IH l1 move) as (l' & Hrun & Hlen & Hw' & Hm' & Hs').
      + apply wordsok_upd; [assumption|apply wordsok_nth; [assumption|lia]].
      + assumption.
      + unfold l1. rewrite length_upd. lia.
      + unfold l1 in Hlen. rewrite length_upd in Hlen.
        exists l'. split; [exact Hrun|]. split; [exact Hlen|]. split; [exact Hw'|]. split.
        * intros i Hi. destruct (Nat.eq_dec i j) as [->|Hne].
          -- rewrite Hs' by lia. unfold l1. apply nth_upd_same. lia.
          -- rewrite Hm' by lia. unfold l1. apply nth_upd_other. lia.
        * intros i Hi. rewrite Hs' by lia. unfold l1. apply nth_upd_other. lia.
  Qed.

  (* the whole-word part of ShiftLeft *)
  Lemma shl_words_part : forall s move, WF w s -> (1 <= move)%nat ->
    (index s + move < length (words s))%nat ->
    exists l1 l2 k, move_up (S (index s)) (words s) move = Ok l1 /\ clear_down move l1 0 = Ok l2 /\
      scan_down l2 (index s + move) = Ok k /\
      WF w (mkBig l2 k) /\ val l2 = pw move * bval s /\ length l2 = length (words s).
  Proof.
    intros s move HWF Hm Hfit. pose proof HWF as ((Hw & Hi & Ha) & Ht).
    destruct (move_up_spec (S (index s)) (words s) move Hw Hm ltac:(lia))
      as (l1 & Hr1 & Hlen1 & Hw1 & Hm1 & Hs1).
    destruct (clear_down_spec w move l1 0 Hw1 ltac:(lia)) as (l2 & Hr2 & Hlen2 & Hw2 & Hz2 & Hs2).
    assert (Hnth : forall j, nth j l2 0 = if (j <? move)%nat then 0 else nth (j - move) (words s) 0).
    { intros j. destruct (Nat.ltb_spec j move) as [Hj|Hj].
      - apply Hz2. lia.
      - rewrite Hs2 by lia. destruct (Nat.le_gt_cases (j - move) (index s)) as [Hj2|Hj2].
        + replace j with ((j - move) + move)%nat at 1 by lia. apply Hm1. lia.
        + rewrite Hs1 by lia. rewrite (Ha (j - move)%nat) by lia. apply Ha. lia. }
    assert (H02 : WF0 w (mkBig l2 (index s + move))).
    { split; [exact Hw2|]. split; [cbn; lia|]. intros j Hj. cbn [words index] in *.
      rewrite Hnth. destruct (Nat.ltb_spec j move); [reflexivity|]. apply Ha. lia. }
    destruct (scan_down_WF w _ H02) as (k & Hk & HWFk & _). cbn [words index] in Hk.
    exists l1, l2, k. split; [exact Hr1|]. split; [exact Hr2|]. split; [exact Hk|]. split; [exact HWFk|].
    split; [|lia].
    rewrite (value_split w move l2).
    rewrite (val_all_zero w (firstn move l2)).
    - rewrite (val_ext w (skipn move l2) (words s)); [unfold BigIntProofs.bval; lia|].
      intros j. rewrite nth_skipn_N, Hnth. destruct (Nat.ltb_spec (move + j) move); [lia|]. f_equal; lia.
    - intros j. rewrite nth_firstn_N. destruct (Nat.ltb_spec j move) as [Hj|]; [|reflexivity].
      rewrite Hnth. destruct (Nat.ltb_spec j move); [reflexivity|lia].
  Qed.

  Section Bits.
    Variable off : N.
    Hypothesis off_pos : 0 < off.
    Hypothesis off_lt : off < w.
    Let E := 2 ^ off.
    Let F := 2 ^ (w - off).

    Lemma EF' : B = E * F.
    Proof. unfold Bw, E, F. rewrite <- N.pow_add_r. f_equal. lia. Qed.
    Lemma E_pos' : 0 < E.
    Proof. unfold E. apply N.neq_0_lt_0, N.pow_nonzero. lia. Qed.
    Lemma F_pos' : 0 < F.
    Proof. unfold F. apply N.neq_0_lt_0, N.pow_nonzero. lia. Qed.

    (* b = hb * F + lb: the top `off` bits move to the next word *)
    Lemma word_split_l : forall b, b < B ->
      b / F < E /\ (b * E) mod B = (b mod F) * E /\ b = (b / F) * F + b mod F /\ b mod F < F.
    Proof.
      intros b Hb. pose proof EF' as HEF. pose proof E_pos' as HE. pose proof F_pos' as HF.
      pose proof (N.div_mod b F ltac:(lia)) as Hdm. pose proof (N.mod_lt b F ltac:(lia)) as Hml.
      split; [apply N.div_lt_upper_bound; lia|]. split; [|split; [lia|exact Hml]].
      symmetry. apply (N.mod_unique _ _ (b / F)).
      - rewrite HEF, (N.mul_comm E F). apply N.mul_lt_mono_pos_r; assumption.
      - rewrite HEF. rewrite Hdm at 1. ring.
    Qed.

    Lemma shl_loop_spec : forall k l, wordsok w l -> (k < length l)%nat ->
      (exists c, c < F /\ nth k l 0 = c * E) ->
      exists l', shl_loop w k l off = Ok l' /\ length l' = length l /\ wordsok w l' /\
        (forall j, (k < j)%nat -> nth j l' 0 = nth j l 0) /\ nth k l 0 <= nth k l' 0 /\
        val l' + val (firstn k l) = val l + E * val (firstn k l).
    Proof.
      pose proof EF' as HEF. pose proof E_pos' as HE. pose proof F_pos' as HF.
      induction k as [|j IH]; intros l Hw Hl (c & Hc & Hx).
      - exists l. cbn [shl_loop firstn value]. repeat split; auto; lia.
      - cbn [shl_loop]. rewrite rd_ok by lia. cbn [bind]. rewrite rd_ok by lia. cbn [bind].
        rewrite Hx. set (b := nth j l 0).
        pose proof (wordsok_nth w l j Hw ltac:(lia)) as Hb. fold b in Hb.
        destruct (word_split_l b Hb) as (Hhb & Hshift & Hbsplit & Hlb).
        set (hb := b / F) in *. set (lb := b mod F) in *.
        fold F. fold E. rewrite Hshift.
        rewrite N.lor_comm. unfold E at 1. rewrite lor_disjoint_add by exact Hhb. fold E.
        assert (Hnew : hb + c * E < B).
        { rewrite HEF. assert (c * E + E <= F * E).
          { replace (c * E + E) with ((c + 1) * E) by ring. apply N.mul_le_mono_r. lia. }
          lia. }
        assert (Hnew2 : lb * E < B).
        { rewrite HEF, (N.mul_comm E F). apply N.mul_lt_mono_pos_r; assumption. }
        rewrite wr_ok by lia. cbn [bind].
        set (l1 := upd l (S j) (hb + c * E)).
        rewrite wr_ok by (unfold l1; rewrite length_upd; lia). cbn [bind].
        set (l2 := upd l1 j (lb * E)).
        assert (Hw2 : wordsok w l2) by (unfold l2, l1; apply wordsok_upd; [apply wordsok_upd|]; assumption).
        assert (Hlen2 : length l2 = length l) by (unfold l2, l1; rewrite !length_upd; reflexivity).
        destruct (IH l2 Hw2 ltac:(lia)) as (l' & Hrun & Hlen & Hw' & Hs' & Hge' & Hval).
        + exists lb. split; [exact Hlb|]. unfold l2. apply nth_upd_same. unfold l1. rewrite length_upd. lia.
        + assert (N1 : nth (S j) l2 0 = hb + c * E).
          { unfold l2. rewrite nth_upd_other by lia. unfold l1. apply nth_upd_same. lia. }
          exists l'. split; [exact Hrun|]. split; [lia|]. split; [exact Hw'|]. split; [|split].
          * intros i Hi. rewrite Hs' by lia. unfold l2, l1. rewrite !nth_upd_other by lia. reflexivity.
          * rewrite Hs' by lia. rewrite N1. lia.
          * pose proof (value_upd w l (S j) (hb + c * E) ltac:(lia)) as Hv1. rewrite Hx in Hv1. fold l1 in Hv1.
            assert (Hn1 : nth j l1 0 = b) by (unfold l1; apply nth_upd_other; lia).
            pose proof (value_upd w l1 j (lb * E) ltac:(unfold l1; rewrite length_upd; lia)) as Hv2.
            fold l2 in Hv2. rewrite Hn1 in Hv2.
            assert (F2 : firstn j l2 = firstn j l).
            { unfold l2. rewrite firstn_upd_ge by lia. unfold l1. apply firstn_upd_ge. lia. }
            rewrite F2 in Hval.
            rewrite (value_firstn_S w l j) by lia. fold b.
            set (f := val (firstn j l)) in *.
            rewrite pw_S in *. set (P := pw j) in *.
            set (V := val l) in *. set (V1 := val l1) in *. set (V2 := val l2) in *. set (V' := val l') in *.
            rewrite HEF in *. clearbody f P V V1 V2 V' hb lb.
            rewrite Hbsplit in Hv2 |- *. clear - Hv1 Hv2 Hval. nia.
    Qed.

    Lemma shl_bits_spec : forall s, WF w s -> bval s * E < pw (length (words s)) ->
      exists s', shl_bits w s off = Ok s' /\ WF w s' /\ bval s' = bval s * E /\
                 length (words s') = length (words s).
    Proof.
      pose proof EF' as HEF. pose proof E_pos' as HE. pose proof F_pos' as HF.
      intros s HWF Hfit. pose proof HWF as ((Hw & Hi & Ha) & Ht). unfold shl_bits.
      destruct (N.eqb_spec off 0) as [|_]; [lia|].
      rewrite rd_ok by lia. cbn [bind]. rewrite wr_ok by lia. cbn [bind].
      set (idx := index s) in *. set (a := nth idx (words s) 0).
      pose proof (wordsok_nth w _ idx Hw Hi) as Hab. fold a in Hab.
      destruct (word_split_l a Hab) as (Hha & Hshift & Hasplit & Hla).
      fold F. fold E. rewrite Hshift.
      set (ha := a / F) in *. set (la := a mod F) in *.
      set (l0 := upd (words s) idx (la * E)).
      assert (Hla2 : la * E < B).
      { rewrite HEF, (N.mul_comm E F). apply N.mul_lt_mono_pos_r; assumption. }
      assert (Hw0 : wordsok w l0) by (unfold l0; apply wordsok_upd; assumption).
      assert (Hlen0 : length l0 = length (words s)) by (unfold l0; apply length_upd).
      pose proof (WF0_value_firstn w s (proj1 HWF)) as Hvs. fold idx in Hvs.
      rewrite value_firstn_S in Hvs by assumption. fold a in Hvs.
      set (f := val (firstn idx (words s))) in *.
      pose proof (value_upd w (words s) idx (la * E) Hi) as Hv0. fold a l0 in Hv0.
      pose proof (pw_pos w idx) as Hpp.
      (* state after the top word: (l1, idx') *)
      assert (Htop : exists l1 idx', 
        (do '(l1, idx') <-
          (if negb (idx =? length (words s) - 1)%nat then
             do c <- rd l0 (if ha =? 0 then idx else S idx);
             do l1 <- wr l0 (if ha =? 0 then idx else S idx) (N.lor c ha);
             Ok (l1, if ha =? 0 then idx else S idx)
           else Ok (l0, idx));
         do l2 <- shl_loop w idx l1 off;
         Ok (mkBig l2 idx')) =
        (do l2 <- shl_loop w idx l1 off; Ok (mkBig l2 idx')) /\
        length l1 = length (words s) /\ wordsok w l1 /\ (idx <= idx' < length (words s))%nat /\
        nth idx l1 0 = la * E /\ firstn idx l1 = firstn idx (words s) /\
        (forall j, (idx' < j)%nat -> nth j l1 0 = 0) /\
        (idx' = idx \/ nth idx' l1 0 <> 0) /\ (idx' = idx -> ha = 0) /\
        val l1 = f + la * E * pw idx + ha * pw (S idx)).
      { assert (Hn0 : nth idx l0 0 = la * E) by (unfold l0; apply nth_upd_same; assumption).
        assert (Hf0 : firstn idx l0 = firstn idx (words s)) by (unfold l0; apply firstn_upd_ge; lia).
        assert (Hz0 : forall j, (idx < j)%nat -> nth j l0 0 = 0).
        { intros j Hj. unfold l0. rewrite nth_upd_other by lia. apply Ha, Hj. }
        assert (Hval0 : val l0 = f + la * E * pw idx) by (unfold BigIntProofs.bval in Hvs; clear - Hvs Hv0; lia).
        destruct (Nat.eqb_spec idx (length (words s) - 1)) as [Hmax|Hnmax]; cbn [negb].
        - (* top word of the array: the shifted-out bits must be zero, otherwise the result does not fit *)
          assert (ha = 0).
          { destruct (N.eq_dec ha 0) as [|Hne]; [assumption|exfalso].
            assert (Hidx : length (words s) = S idx) by lia. rewrite Hidx, pw_S in Hfit.
            rewrite <- Hvs in Hfit.
            assert (HFa : F <= a).
            { rewrite Hasplit. assert (1 * F <= ha * F) by (apply N.mul_le_mono_r; lia). lia. }
            rewrite HEF in Hfit.
            assert (H3 : F * pw idx * E <= a * pw idx * E) by (apply N.mul_le_mono_r, N.mul_le_mono_r; exact HFa).
            clear - Hfit H3. lia. }
          exists l0, idx. cbn [bind]. split; [reflexivity|]. repeat split; auto; try lia.
        - destruct (N.eqb_spec ha 0) as [Hz|Hnz].
          + rewrite rd_ok by lia. cbn [bind]. rewrite Hz, N.lor_0_r. rewrite wr_ok by lia. cbn [bind].
            assert (Hsame : upd l0 idx (nth idx l0 0) = l0).
            { apply nth_ext with (d := 0) (d' := 0); [apply length_upd|]. intros j Hj.
              destruct (Nat.eq_dec j idx) as [->|Hne]; [apply nth_upd_same; lia|apply nth_upd_other; lia]. }
            rewrite Hsame. exists l0, idx. split; [reflexivity|]. repeat split; auto; try lia.
          + rewrite rd_ok by lia. cbn [bind]. rewrite (Hz0 (S idx)) by lia. rewrite N.lor_0_l.
            rewrite wr_ok by lia. cbn [bind].
            exists (upd l0 (S idx) ha), (S idx). split; [reflexivity|].
            assert (Hhab : ha < B).
            { rewrite HEF. assert (E <= E * F) by (replace E with (E * 1) at 1 by ring; apply N.mul_le_mono_l; lia). lia. }
            pose proof (value_upd w l0 (S idx) ha ltac:(lia)) as Hv1. rewrite (Hz0 (S idx)) in Hv1 by lia.
            split; [rewrite length_upd; lia|]. split; [apply wordsok_upd; assumption|]. split; [lia|].
            split; [rewrite nth_upd_other by lia; exact Hn0|].
            split; [rewrite firstn_upd_ge by lia; exact Hf0|].
            split; [intros j Hj; rewrite nth_upd_other by lia; apply Hz0; lia|].
            split; [right; rewrite nth_upd_same by lia; exact Hnz|].
            split; [lia|]. lia. }
      destruct Htop as (l1 & idx' & Heq & Hlen1 & Hw1 & Hidx' & Hn1 & Hf1 & Hz1 & Htop1 & Hcar & Hval1).
      rewrite Heq. clear Heq.
      destruct (shl_loop_spec idx l1 Hw1 ltac:(lia)) as (l2 & Hrun & Hlen2 & Hw2 & Hs2 & Hge2 & Hval2).
      { exists la. split; [exact Hla|exact Hn1]. }
      rewrite Hrun. cbn [bind]. exists (mkBig l2 idx'). split; [reflexivity|].
      rewrite Hf1 in Hval2. fold f in Hval2.
      unfold top_nonzero in Ht. fold idx in Ht. fold a in Ht. clearbody a la ha f l0.
      split; [|split; [|cbn [words]; lia]].
      - split; [split; [exact Hw2|split; [cbn; lia|]]|].
        + intros j Hj. cbn [words index] in *. rewrite Hs2 by lia. apply Hz1, Hj.
        + unfold top_nonzero. cbn [words index].
          destruct Htop1 as [Hsame|Hnz].
          * (* no carry: the old top word keeps all its bits *)
            rewrite Hsame. destruct Ht as [Ht|Ht]; [left; exact Ht|right].
            rewrite Hn1 in Hge2. specialize (Hcar Hsame). rewrite Hcar in Hasplit.
            assert (Hla0 : la <> 0) by (clear - Hasplit Ht; lia).
            assert (Hpos : 0 < la * E) by (apply N.mul_pos_pos; lia).
            clear - Hpos Hge2. lia.
          * right. destruct (Nat.eq_dec idx' idx) as [Heq'|Hne'].
            -- subst idx'. clear - Hnz Hge2. lia.
            -- rewrite Hs2 by lia. exact Hnz.
      - unfold BigIntProofs.bval. cbn [words]. unfold BigIntProofs.bval in Hvs. rewrite pw_S in Hval1.
        rewrite HEF in *. set (P := pw idx) in *. clearbody P. rewrite Hasplit in Hvs.
        clear - Hval1 Hval2 Hvs. nia.
    Qed.
  End Bits.

  Hypothesis w_pos : 0 < w.

  Lemma pw_le_mono : forall a b, (a <= b)%nat -> pw a <= pw b.
  Proof.
    intros a b H. replace b with (a + (b - a))%nat by lia. rewrite pw_add.
    pose proof (pw_pos w (b - a)). pose proof (pw_pos w a). nia.
  Qed.

  Theorem shift_left_correct : forall s offset, WF w s ->
    bval s * 2 ^ offset < pw (length (words s)) ->
    exists s', shift_left w s offset = Ok s' /\ WF w s' /\ bval s' = bval s * 2 ^ offset /\
               length (words s') = length (words s).
  Proof.
    intros s offset HWF Hfit. pose proof HWF as ((Hw & Hi & Ha) & Ht). unfold shift_left.
    destruct (N.leb_spec w offset) as [Hge|Hlt].
    - pose proof (N.div_mod offset w ltac:(lia)) as Hdm. pose proof (N.mod_lt offset w ltac:(lia)) as Hml.
      set (mv := offset / w) in *.
      assert (Hoff : offset - mv * w = offset mod w) by lia. rewrite Hoff.
      assert (Hmv : 1 <= mv) by (unfold mv; apply N.div_le_lower_bound; lia).
      assert (Hpow : 2 ^ offset = pw (N.to_nat mv) * 2 ^ (offset mod w)).
      { rewrite pw_bits, N2Nat.id, <- N.pow_add_r. f_equal. lia. }
      assert (Hp2 : 0 < 2 ^ (offset mod w)) by (apply N.neq_0_lt_0, N.pow_nonzero; lia).
      destruct (Nat.ltb_spec (length (words s) - 1) (index s + N.to_nat mv)) as [Hover|Hin].
      + (* the moved top word would leave the array: only the value zero fits *)
        assert (Hz : bval s = 0).
        { destruct (N.eq_dec (bval s) 0) as [|Hnz]; [assumption|exfalso].
          assert (Hlow : pw (index s) <= bval s).
          { destruct (Nat.eq_dec (index s) 0) as [E0|E0]; [rewrite E0, pw_0; lia|apply WF_lower; assumption]. }
          pose proof (pw_le_mono (length (words s)) (index s + N.to_nat mv) ltac:(lia)) as Hmono.
          rewrite pw_add in Hmono. rewrite Hpow in Hfit.
          pose proof (pw_pos w (N.to_nat mv)). nia. }
        pose proof (proj1 (WF_zero_iff w s HWF) Hz) as (Hidx & _).
        destruct (Nat.leb_spec (index s + N.to_nat mv - (length (words s) - 1)) (index s)) as [|_]; [lia|].
        destruct (clear_correct w s (proj1 HWF)) as (s' & Hrun & HWF' & Hv & Hl).
        exists s'. split; [exact Hrun|]. split; [exact HWF'|]. split; [|exact Hl]. rewrite Hv, Hz. reflexivity.
      + destruct (shl_words_part s (N.to_nat mv) HWF ltac:(lia) ltac:(lia))
          as (l1 & l2 & k & Hr1 & Hr2 & Hk & HWF2 & Hv2 & Hl2).
        unfold shl_words. rewrite Hr1. cbn [bind]. rewrite Hr2. cbn [bind]. rewrite Hk. cbn [bind].
        destruct (N.eq_dec (offset mod w) 0) as [Hz|Hnz].
        * unfold shl_bits. rewrite Hz. cbn [N.eqb]. eexists. split; [reflexivity|].
          split; [exact HWF2|]. split; [|exact Hl2].
          unfold BigIntProofs.bval at 1. cbn [words]. rewrite Hv2, Hpow, Hz. cbn. lia.
        * destruct (shl_bits_spec (offset mod w) ltac:(lia) Hml _ HWF2) as (s' & Hrun & HWF' & Hv & Hl).
          { unfold BigIntProofs.bval at 1. cbn [words]. rewrite Hv2, Hl2. rewrite Hpow in Hfit. lia. }
          exists s'. split; [exact Hrun|]. split; [exact HWF'|]. split; [|cbn [words] in Hl; lia].
          rewrite Hv. unfold BigIntProofs.bval at 1. cbn [words]. rewrite Hv2, Hpow. lia.
    - destruct (N.eq_dec offset 0) as [->|Hnz].
      + unfold shl_bits. cbn [N.eqb]. exists s. split; [reflexivity|]. split; [exact HWF|].
        split; [cbn; lia|reflexivity].
      + exact (shl_bits_spec offset ltac:(lia) Hlt s HWF Hfit).
  Qed.
End W.
