(* LedgerModel.v -- C16: observers of the block-heap model of coq/SeqModel.v (Array / String /
   StringStream).  Definitions only; nothing of SeqModel.v is changed: the step functions are the
   ones the C14 theorems and the C14 correspondence run are about.

   How the model shows a broken release discipline (SeqModel.v):
     [alloc]  hands out the block id [next h] and increments [next]: an id is never handed out twice;
     [free]   of the null pointer is a no-op; of a block that is not live (already released, or never
              allocated) it is [Error UAF].  So "released twice" and "released but never allocated"
              are errors of [run], and every read / write of a released block is [Error UAF] too.
   What is added here:
     [al h b]          block b is live (allocated, not yet released)
     [live_blocks h]   the live block ids (all ids below [next h] are examined)
     [ledger_inv w]    the ownership ledger: a block is live iff exactly one object of the pool holds it
     [destroy_obj]     the destructor of a container object: release its storage (Array<T> of trivially
                       destructible T, String, StringStream: ~Array / ~String / ~StringStream call
                       Memory::Deallocate(Storage()); elements are values in this model)
     [destroy_all n]   destroy the objects 0 .. n-1 of the pool
     [aidx / sidx / tidx]  the object indices an operation names (to bound the pool of a history). *)
From Coq Require Import NArith List Arith Bool.
From Qv Require Import SeqModel.
Import ListNotations.

Section Ledger.
Context {A : Type}.
Notation heap := (@heap A).
Notation world := (@world A).

Definition al (h : heap) (b : nat) : bool :=
  match cells_of h b with Some _ => true | None => false end.

(* pointer p is block b *)
Definition pis (p : @ptr) (b : nat) : bool :=
  match p with Some c => c =? b | None => false end.

Definition live_blocks (h : heap) : list nat := filter (al h) (seq 0 (next h)).

Record ledger_inv (w : world) : Prop := mkLedgerInv {
  li_fresh : forall b, next (hp w) <= b -> al (hp w) b = false;           (* ids not yet handed out are not live *)
  li_owned_live : forall k b, blk (ob w k) = Some b -> al (hp w) b = true; (* no object holds a released block *)
  li_one_owner : forall k k' b, blk (ob w k) = Some b -> blk (ob w k') = Some b -> k = k';  (* no sharing *)
  li_no_orphan : forall b, al (hp w) b = true -> exists k, blk (ob w k) = Some b           (* no leak *)
}.

Definition destroy_obj (w : world) (k : nat) : res world :=
  h <- free (hp w) (blk (ob w k)) ;; Ok (mkW h (upd (ob w) k null_obj)).

Fixpoint destroy_pool (ks : list nat) (w : world) : res world :=
  match ks with
  | [] => Ok w
  | k :: r => w1 <- destroy_obj w k ;; destroy_pool r w1
  end.

Definition destroy_all (n : nat) (w : world) : res world := destroy_pool (seq 0 n) w.

(* every object outside 0 .. n-1 is in the empty state *)
Definition pool_within (n : nat) (w : world) : Prop := forall k, n <= k -> blk (ob w k) = None.

Definition aidx (op : @aop A) : list nat :=
  match op with
  | ANewSized i _ _ | AAppendItem i _ | AAppendOwn i _ | AClear i | AReset i | ADetach i | AReserve i _ _
  | AResize i _ | AResizeInit i _ | AExpect i _ | ACompress i | ADrop i _ | ASwap i _ _ | AIter i => [i]
  | ACopyCtor i j | AMoveCtor i j | AMoveAssign i j | ACopyAssign i j | AAppendMove i j | AAppendCopy i j => [i; j]
  end.
End Ledger.

Definition sidx (op : sop) : list nat :=
  match op with
  | SDefault i | SNewLen i _ | SNewCopy i _ | SNewCstr i _ | SNewAdopt i _ | SAssignCstr i _ | SAssignOwn i _
  | SAppendCstr i _ | SAppendChar i _ | SWrite i _ | SEqCstr i _ | SEqNull i | SIsEqual i _ | SReset i | SDetach i
  | SStepBack i _ | SReverse i _ | SInsertAt i _ _ | SIter i | SLast i | SIsEmpty i | SStreamOut i => [i]
  | SCopyCtor i j | SMoveCtor i j | SMoveAssign i j | SCopyAssign i j | SAppendMove i j | SAppendObj i j
  | SPlusCstr i j _ | STrim i j | SEqObj i j => [i; j]
  | SPlus i j k _ => [i; j; k]
  end.

Definition tidx (op : top) : list nat :=
  match op with
  | TNew i _ | TAssignExt i _ | TAssignCstr i _ | TAppendChar i _ | TAppendExt i _ | TAppendCstr i _ | TEqExt i _ | TEqCstr i _
  | TClear i | TReset i | TDetach i | TStepBack i _ | TReverse i _ | TInsertAt i _ _ | TSetLength i _ _ | TBuffer i _
  | TExpect i _ | TReserve i _ | TGetString i | TGetStringView i | TInsertNull i | TIter i | TStreamOut i => [i]
  | TCopyCtor i j | TMoveCtor i j | TMoveAssign i j | TCopyAssign i j | TAppendObj i j | TEqObj i j => [i; j]
  end.

(* all operations of a history name objects below n *)
Definition within {Op} (idx : Op -> list nat) (n : nat) (ops : list Op) : Prop :=
  Forall (fun op => Forall (fun k => k < n) (idx op)) ops.
