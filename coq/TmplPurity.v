(* TmplPurity.v -- purity of rendering on the model (C17): a render only appends
   to the stream, its result is a function of (text, tag tree, value) alone, so a
   parsed tag tree can be reused with any later value and any stream. *)
From Coq Require Import NArith ZArith List Bool Lia.
From Qv Require Import gen.Tables EscapeModel TmplModel TmplRender TmplProofs.
Import ListNotations.

(* Template::Render(content, length, value, stream, tags_cache) on a stream that
   already holds [pre]; the cache is the tag tree, the value is not returned
   because the renderer has no way to change it (it is an argument, not state) *)
Definition render_to (pre : list N) (auto : bool) (w : N) (root : jv) (content : list N) (tags : list gtag) : list N :=
  pre ++ render auto w root content tags.

Lemma render_to_appends : forall pre auto w root content tags,
  exists out, render_to pre auto w root content tags = pre ++ out /\
              out = render_to [] auto w root content tags.
Proof. intros. exists (render auto w root content tags). split; reflexivity. Qed.

(* a sequence of renders through ONE tag tree, each with its own value, into one
   stream = the concatenation of the fresh single renders *)
Lemma render_sequence : forall auto w content tags roots pre,
  fold_left (fun s r => render_to s auto w r content tags) roots pre =
  pre ++ concat (map (fun r => render auto w r content tags) roots).
Proof.
  intros auto w content tags roots. induction roots as [|r rs IH]; intros pre; cbn [fold_left map concat].
  - now rewrite app_nil_r.
  - rewrite IH. unfold render_to. now rewrite app_assoc.
Qed.

(* rendering through the cached tag tree of a template equals the documented
   expansion for every value presented later (the tree depends on the text only) *)
Lemma cached_render_is_expansion : forall auto w ast, wf_ast ast = true ->
  forall roots pre,
  fold_left (fun s r => render_to s auto w r (print_nodes ast) (lay_nodes 0 ast)) roots pre =
  pre ++ concat (map (fun r => expand auto w r ast) roots).
Proof.
  intros auto w ast Hwf roots pre. rewrite render_sequence. f_equal. f_equal.
  apply map_ext. intros r. apply (render_ast_expand auto w r ast Hwf).
Qed.
