(* Properties_C05.v -- C05: parsing any code-unit string as JSON is memory-safe and terminates.
   Statements only; proofs in JsonProofsStr.v, JsonProofsNum.v, JsonProofsParse.v.
   The model (JsonModel.v) describes the reader after the repairs D2, D11, D15, D61, D62
   (+ D28, D43..D45 of Digit.hpp).  Every content[offset] of the C++ is [rd site r], every
   ++offset is [adv site r]; both have an explicit error outcome. *)
From Coq Require Import NArith ZArith List Bool.
From Qv Require Import gen.Tables_json JsonModel JsonSpec JsonProofsBase JsonProofsStr JsonProofsNum JsonProofsParse.
Import ListNotations.
Local Open Scope N_scope.

(* no read outside [content, content+length), for every text, width and amount of fuel *)
Theorem c05_no_oob : forall f w s site, parse_fuel f w s <> JErr (OOB site).
Proof. intros f w s site H. apply parse_fuel_no_err in H. destruct H as [H _]. discriminate. Qed.
Print Assumptions c05_no_oob.

(* the cursor never passes the end of the text *)
Theorem c05_no_overrun : forall f w s site, parse_fuel f w s <> JErr (Past site).
Proof. intros f w s site H. apply parse_fuel_no_err in H. destruct H as [H _]. discriminate. Qed.
Print Assumptions c05_no_overrun.

(* termination: the recursion (value / member loop / element loop) is at most 2|s| deep *)
Theorem c05_terminates : forall f w s, (2 * length s < f)%nat -> forall e, parse_fuel f w s <> JErr e.
Proof. intros f w s Hf e H. apply parse_fuel_no_err in H. destruct H as [_ H]. apply (Nat.lt_irrefl f). eapply Nat.le_lt_trans; eauto. Qed.
Print Assumptions c05_terminates.

(* the result is a complete (fully defined) value of the grammar, or Undefined *)
Theorem c05_total_result : forall w s,
  exists v, parse w s = JOk v /\ (v = JUndef \/ (definedb v = true /\ Document w s v)).
Proof. exact parse_total. Qed.
Print Assumptions c05_total_result.

(* the two leaf scanners on their own *)
Theorem c05_unescape_safe : forall w r st e, unescape w r st <> JErr e.
Proof. exact unescape_no_err. Qed.
Print Assumptions c05_unescape_safe.

Theorem c05_number_scanner_safe : forall r e, scan_number r <> JErr e.
Proof. exact scan_number_no_err. Qed.
Print Assumptions c05_number_scanner_safe.

(* the count UnEscape hands back stays inside the text it was given *)
Theorem c05_unescape_count : forall w r st n st', unescape w r st = JOk (n, st') -> (n <= length r)%nat.
Proof. intros w r st n st' H. unfold unescape in H. apply unesc_count in H. destruct H as [H|H]; [subst; apply Nat.le_0_l|]. destruct H as [_ H]. exact H. Qed.
Print Assumptions c05_unescape_count.

(* the whitespace set of TrimLeft, probed unit by unit from the current headers for every width
   (tools/gentables_json.cpp), is exactly {TAB, LF, CR, space} and is what the model's is_ws decides:
   a change of that set in StringUtils.hpp breaks this obligation *)
Theorem c05_whitespace_set_exact :
  ws_probe_c8 = [9; 10; 13; 32] /\ ws_probe_c16 = [9; 10; 13; 32] /\ ws_probe_c32 = [9; 10; 13; 32] /\
  ws_probe_wc = [9; 10; 13; 32] /\ forall c, is_ws c = true <-> In c ws_probe_c8.
Proof. destruct ws_set_exact as (H1 & H2 & H3 & H4). repeat split; auto; apply is_ws_probe. Qed.
Print Assumptions c05_whitespace_set_exact.

(* wchar_t is four bytes on the modelled platform: width 3 (wchar_t) takes the UTF-32 paths of
   width 2 (char32_t); all theorems above are for every width *)
Theorem c05_wchar_is_the_four_byte_path : jc_sizeof_wchar = 4 /\ cu_bits 3 = cu_bits 2 /\ forall c, to_utf 3 c = to_utf 2 c.
Proof. exact wchar_is_utf32. Qed.
Print Assumptions c05_wchar_is_the_four_byte_path.

(* non-vacuity: the error outcomes exist -- the keyword matcher without its terminator test
   (before D62) runs off the literal, and a read at the end of the text is an error *)
Example c05_oob_is_expressible : kw_loop [] [0] = JErr (OOB 1216) /\ rd 1178 [] = JErr (OOB 1178) /\ adv 1180 [] = JErr (Past 1180).
Proof. repeat split. Qed.

(* NOT proved here (runtime quantity): "512 levels without exhausting the stack".  The model
   shows the recursion depth is bounded by the fuel actually consumed (c05_terminates: <= 2|s|);
   the check runs 512- and 2048-level documents under a 1 MiB stack (a test). *)
