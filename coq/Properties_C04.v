(* Properties_C04.v -- the C04 theorems and nothing else.  Each is closed by
   [exact] of a lemma proved in ExprProofs*.v and followed by Print Assumptions.
   The model (ExprModel.v) describes Template.hpp / QExpression.hpp after
   findings/D1_precedence_after_recursion.patch (/repo d87efe1), findings/D14_remainder_by_zero.patch
   (/repo 8e23fd8), D47 (/repo 3d5d94b, x % -1 = 0) and findings/D90 (whole numbers compared by value). *)
From Coq Require Import NArith ZArith QArith List.
From Qv Require Import gen.Tables_expr ExprModel ExprProofs ExprProofs2 ExprProofs3 ExprProofs4.
Import ListNotations.
Local Open Scope N_scope.

(* PRECEDENCE.  For every well-formed item list (any length, any operators,
   any operands, any variable environment, parenthesised groups to any depth
   below d): the model of ParseExpressions' output run through
   TemplateCore::evaluate equals the evaluation of the textbook
   precedence-climbing tree (left associative, rank = QOperation value), at
   every parenthesis level -- values, "no value" and errors alike.  The loop
   fuel 2*|l|+2 of the model is thereby proved sufficient. *)
Theorem c04_precedence : forall e d l, wf_deep d l -> eval_items e d l = spec_items e d l.
Proof. exact precedence_model. Qed.
Print Assumptions c04_precedence.

(* one level, groups evaluated by any function: the tree exists and the flat evaluation is its evaluation *)
Theorem c04_precedence_level : forall e sub l, wf l ->
  exists t, std_tree l = Some t /\
    ev_top (leaf_value e sub) (apply_op e) is_nan_type l =
    tree_eval_top (fun ctx o => leaf_value e sub ctx op_NoOp o) (apply_op e) is_nan_type t.
Proof. exact precedence_level. Qed.
Print Assumptions c04_precedence_level.

(* RANKS.  The generated ranks are monotone with respect to the documented levels
   (parentheses; ^ %; * /; + -; & |; comparisons; && ||) ... *)
Theorem c04_rank_refines_doc :
  (forall a b, In a all_ops -> In b all_ops -> doc_level a < doc_level b -> a < b) /\
  (forall a, In a all_ops -> 1 <= doc_level a <= 6 /\ op_NoOp < a /\ a < op_Error) /\ NoDup all_ops.
Proof. exact (conj rank_monotone_doc rank_levels). Qed.
Print Assumptions c04_rank_refines_doc.

(* ... the order inside the levels, as the code has it (the documentation does not order a level) ... *)
Theorem c04_rank_within_levels :
  op_Remainder < op_Exponent /\ op_Multiplication < op_Division /\ op_Addition < op_Subtraction /\
  op_BitwiseOr < op_BitwiseAnd /\
  op_Equal < op_NotEqual /\ op_NotEqual < op_GreaterOrEqual /\ op_GreaterOrEqual < op_LessOrEqual /\
  op_LessOrEqual < op_Greater /\ op_Greater < op_Less /\
  op_Or < op_And.
Proof. exact rank_within_levels. Qed.
Print Assumptions c04_rank_within_levels.

(* ... and in the two arithmetic levels that tie-break changes no value in exact arithmetic *)
Theorem c04_tiebreak_neutral :
  (forall a b c : Z, (a + (b - c) = (a + b) - c)%Z) /\
  (forall a b c : Q, (a + (b - c) == (a + b) - c)%Q) /\
  (forall a b c : Q, ~ (c == 0)%Q -> (a * (b / c) == (a * b) / c)%Q).
Proof. exact (conj tiebreak_add_sub_Z (conj tiebreak_add_sub_Q tiebreak_mul_div_Q)). Qed.
Print Assumptions c04_tiebreak_neutral.

(* INTEGER FRAGMENT.  [zspec] is the exact value over Z of a tree under THE GUARD (ExprProofs3.zspec):
   leaves are Naturals anywhere below 2^64 or Integers inside (-2^63, 2^63); operands and results of
   + - * % ^ stay inside (-2^63, 2^63); operands of < <= > >= && || == != may be any Natural below 2^64
   (after findings/D90 whole numbers are compared by value) or Integer inside (-2^63, 2^63).
   The evaluator returns exactly [z]; the kind is Natural iff [u] (unsigned -> signed promotion:
   + * keep Natural only for two Naturals, - also needs a non-negative result, % always yields Integer,
   ^ yields Integer only for a negative base and odd exponent, comparisons / logic yield Natural 0/1).
   [okw u z]: 0 <= z < 2^64 for a Natural, -2^63 < z < 2^63 for an Integer. *)
Theorem c04_integer_exact : forall e sub t z u, zspec t = Some (z, u) ->
  okw u z /\
  forall c, tree_eval_ctx (fun ctx o => leaf_value e sub ctx op_NoOp o) (apply_op e) c t = Ok (enc u z).
Proof. exact integer_exact. Qed.
Print Assumptions c04_integer_exact.

(* ... and so does the flat list that ParseExpressions produces for it *)
Theorem c04_integer_exact_flat : forall e sub l t z u, wf l -> std_tree l = Some t -> zspec t = Some (z, u) ->
  ev_top (leaf_value e sub) (apply_op e) is_nan_type l = Ok (enc u z).
Proof. exact integer_exact_flat. Qed.
Print Assumptions c04_integer_exact_flat.

(* COMPARISONS AND LOGIC answer 0 or 1 for every pair of operands (numbers of any kind, text, variables) *)
Theorem c04_cmp_logic_01 : forall e op a b v, In op cmp_logic_ops -> apply_op e op a b = Ok v -> v = QNat 0 \/ v = QNat 1.
Proof. exact cmp_logic_01. Qed.
Print Assumptions c04_cmp_logic_01.

(* truth is "greater than zero" in each kind; && and || are defined from it *)
Theorem c04_truth_is_gt0 :
  (forall n, q_true (QNat n) = Ok (0 <? n)) /\
  (forall b, q_true (QInt b) = Ok (0 <? signed b)%Z) /\
  (forall f, q_true (QReal f) = Ok (f_gt f fzero)) /\
  (forall e a b, apply_op e op_And a b = bind (q_true a) (fun x => bind (q_true b) (fun y => Ok (of_bool (x && y))))) /\
  (forall e a b, apply_op e op_Or a b = bind (q_true a) (fun x => bind (q_true b) (fun y => Ok (of_bool (x || y))))).
Proof. exact truth_is_gt0. Qed.
Print Assumptions c04_truth_is_gt0.

(* NO TRAP.  No operator of the repaired evaluator can raise a hardware trap, whatever the
   operands: a zero divisor of % or / gives "no value" (fix 8e23fd8), x % -1 answers 0 without
   dividing (fix 3d5d94b; INT64_MIN % -1 was the last trap).  [ETrap] is the model's trap outcome. *)
Theorem c04_no_trap :
  (forall e op a b s, apply_op e op a b <> Err (ETrap s)) /\
  (forall l r, iview r = Ok 0 -> q_rem l r = NoValue) /\
  (forall l r d, iview r = Ok d -> signed d = (-1)%Z -> is_nan_type l = false -> q_rem l r = Ok (QInt 0)) /\
  (forall l, q_div l (QNat 0) = NoValue /\ q_div l (QInt 0) = NoValue /\
             q_div l (QReal (SpecFloat.S754_zero false)) = NoValue /\ q_div l (QReal (SpecFloat.S754_zero true)) = NoValue).
Proof. exact (conj (fun e op a b s => apply_no_trap e op a b s) (conj rem_zero_no_value (conj rem_minus_one div_zero_no_value))). Qed.
Print Assumptions c04_no_trap.

(* == / != answer Natural 0/1 whatever the operands; every operator that answers leaves a number *)
Theorem c04_operators_yield_numbers : forall e op a b v, apply_op e op a b = Ok v -> is_nan_type v = false.
Proof. exact apply_not_nan. Qed.
Print Assumptions c04_operators_yield_numbers.

(* EQUALITY.  == / != compare the texts when neither side is a number and compare
   numerically when either side is one; [eq_classify] says what counts as a number
   (literals, numeric results, variables holding numbers) and what as text
   (literal text, variables holding a string, true, false, null). *)
Theorem c04_eq_numeric_or_textual : forall e a b sa sb,
  eq_classify e a = Ok sa -> eq_classify e b = Ok sb ->
  match sa, sb with
  | SideText s1 _, SideText s2 _ =>
    is_equal e a b = Ok (of_bool (list_eqb s1 s2)) /\
    apply_op e op_NotEqual a b = Ok (of_bool (negb (list_eqb s1 s2)))
  | _, _ =>
    is_equal e a b =
      bind (eq_force_number sa) (fun x => bind (eq_force_number sb) (fun y => bind (q_eq x y) (fun c => Ok (of_bool c))))
  end.
Proof. exact eq_numeric_or_textual. Qed.
Print Assumptions c04_eq_numeric_or_textual.

Theorem c04_text_equality_is_equality : forall a b, list_eqb a b = true <-> a = b.
Proof. exact list_eqb_spec. Qed.
Print Assumptions c04_text_equality_is_equality.
