(* Properties_C04.v -- the C04 theorems and nothing else. *)
From Coq Require Import NArith ZArith List.
From Qv Require Import gen.Tables_expr ExprModel.
Import ListNotations.
Local Open Scope N_scope.

(* the generated ranks are monotone with respect to the documented levels *)
Theorem c04_rank_monotone_doc :
  forall a b, In a all_ops -> In b all_ops -> doc_level a < doc_level b -> a < b.
Proof.
  intros a b Ha Hb. simpl in Ha, Hb.
  repeat (destruct Ha as [<-|Ha]; [repeat (destruct Hb as [<-|Hb]; [vm_compute; try reflexivity; intros H; discriminate H|]); destruct Hb|]).
  destruct Ha.
Qed.
Print Assumptions c04_rank_monotone_doc.
