(* DigitProofsOverflow.v -- C09: a syntactic class of numerals above the largest finite
   double that the model rejects:  [sign] d ds (e|E) [+] es  with at most 19 mantissa
   digits (no point) and  (number of mantissa digits) + (written exponent) >= 310,
   i.e. value >= 10^309 > DBL_MAX.  The written exponent may have any number of digits
   (it saturates, D44).  NOT covered by a theorem: the band DBL_MAX .. 10^309 (decided by
   the computed binary exponent, D43), mantissas with a point or more than 19 digits. *)
From Coq Require Import NArith ZArith List Bool Lia ZifyBool ZifyN ZifyNat.
From Qv Require Import gen.Tables_digit DigitModel DigitProofsInt DigitProofsParse DigitProofsReject.
Import ListNotations.
Local Open Scope N_scope.
Ltac Zify.zify_post_hook ::= Z.div_mod_to_equations.

Lemma sub32_self_add : forall a b, a + b < 2 ^ 32 -> sub32 (a + b) a = b.
Proof. intros a b H. unfold sub32, two32. change 4294967296 with (2 ^ 32). set (M := 2 ^ 32) in *. assert (M = 4294967296) by reflexivity. lia. Qed.
Lemma sub32_zero : forall a, a < 2 ^ 32 -> sub32 a 0 = a.
Proof. intros a H. unfold sub32, two32. change 4294967296 with (2 ^ 32). set (M := 2 ^ 32) in *. assert (M = 4294967296) by reflexivity. lia. Qed.
Lemma sub32_self : forall a, a < 2 ^ 32 -> sub32 a a = 0.
Proof. intros a H. unfold sub32, two32. change 4294967296 with (2 ^ 32). set (M := 2 ^ 32) in *. assert (M = 4294967296) by reflexivity. lia. Qed.
Lemma add32_small : forall a b, a + b < 2 ^ 32 -> add32 a b = a + b.
Proof. intros a b H. unfold add32, two32. change 4294967296 with (2 ^ 32). apply N.mod_small. exact H. Qed.

(* the saturating exponent accumulator against the true value *)
Definition sat_step (e c : N) : N := if e <? 100000000 then (e * 10 + (c - ch_zero)) mod two32 else e.
Definition sat_inv (e a : N) : Prop := (e = a /\ a < 1000000000) \/ (100000000 <= e < 1000000000 /\ 100000000 <= a).

Lemma exp_digits_run : forall es rest off e,
  Forall dig es -> nodigit rest ->
  exp_digits (es ++ rest) off e = (rest, off + len es, fold_left sat_step es e).
Proof.
  induction es as [|c es IH]; intros rest off e Hd Hr.
  - cbn [app length fold_left]. change (N.of_nat 0) with 0. rewrite N.add_0_r.
    destruct rest as [|x xs]; [reflexivity|]. cbn in Hr. cbn [exp_digits]. rewrite Hr. reflexivity.
  - inversion Hd as [|? ? H1 H2]; subst. cbn [app exp_digits length fold_left].
    assert (E : is_digit c = true) by (apply dig_is_digit; exact H1). rewrite E.
    rewrite IH by assumption. rewrite Nat2N.inj_succ. f_equal. f_equal. lia.
Qed.

Lemma sat_fold_inv : forall es e a, Forall dig es -> sat_inv e a ->
  sat_inv (fold_left sat_step es e) (fold_left (fun a c => a * 10 + (c - 48)) es a).
Proof.
  induction es as [|c es IH]; intros e a Hd Hi; [exact Hi|].
  inversion Hd as [|? ? H1 H2]; subst. cbn [fold_left]. apply IH; [exact H2|].
  unfold sat_step, sat_inv in *. unfold dig in H1. change ch_zero with 48. unfold two32.
  destruct (e <? 100000000) eqn:El; [apply N.ltb_lt in El|apply N.ltb_ge in El].
  - destruct Hi as [[-> Ha]|[[Hlo _] _]]; [|lia].
    rewrite N.mod_small by lia. left. split; lia.
  - destruct Hi as [[-> Ha]|[[Hlo Hhi] Ha]]; right; split; lia.
Qed.

Lemma sat_value : forall es, Forall dig es ->
  let E := fold_left sat_step es 0 in
  E < 1000000000 /\ (E = dval es \/ 100000000 <= E).
Proof.
  intros es Hd. pose proof (sat_fold_inv es 0 0 Hd) as H. fold (dval es) in H.
  destruct H as [[H1 H2]|[[H1 H2] H3]].
  - left. split; lia.
  - split; [lia|left; exact H1].
  - split; [exact H2|right; exact H1].
Qed.

Lemma parse_exponent_digits : forall plus es rest off,
  (plus = [] \/ plus = [ch_pos]) -> es <> [] -> Forall dig es -> nodigit rest ->
  parse_exponent 3 (plus ++ es ++ rest) off false false
  = Some (rest, off + len plus + len es, fold_left sat_step es 0, false).
Proof.
  intros plus es rest off Hp Hne Hd Hr.
  destruct es as [|c es']; [congruence|].
  inversion Hd as [|? ? H1 H2]; subst.
  destruct (digit_not_sign c H1) as [En Ep].
  assert (Hlen : 0 < len (c :: es')) by (cbn [length]; lia).
  destruct Hp as [->| ->]; cbn [app parse_exponent].
  - rewrite Ep, En.
    change (c :: es' ++ rest) with ((c :: es') ++ rest). rewrite exp_digits_run by assumption.
    assert (E : (off + len (c :: es') =? off) = false) by (apply N.eqb_neq; lia). rewrite E.
    cbn [length]. change (N.of_nat 0) with 0. rewrite N.add_0_r. reflexivity.
  - rewrite N.eqb_refl. cbv iota. rewrite Ep, En.
    change (c :: es' ++ rest) with ((c :: es') ++ rest). rewrite exp_digits_run by assumption.
    assert (E : (off + 1 + len (c :: es') =? off + 1) = false) by (apply N.eqb_neq; lia). rewrite E.
    cbn [length]. change (N.of_nat 1) with 1. reflexivity.
Qed.

Theorem stn_body_overflow : forall is_neg off0 d ds c plus es rest endo,
  is_nz_digit d = true -> Forall dig ds -> (length ds <= 18)%nat -> exp_marker c ->
  (plus = [] \/ plus = [ch_pos]) -> es <> [] -> Forall dig es -> nodigit rest ->
  endo = off0 + 1 + len ds + 1 + len plus + len es + len rest -> endo < 2 ^ 32 ->
  310 <= 1 + len ds + dval es ->
  exists p, stn_body is_neg off0 (d :: ds ++ c :: plus ++ es ++ rest) endo = Ok p /\ p_kind p = qn_nan.
Proof.
  intros is_neg off0 d ds c plus es rest endo Hd Hds Hl Hc Hp Hne Hes Hr He H32 Hbig.
  destruct (is_nz_digit_dig d Hd) as [Hdd Hd0].
  destruct (marker_facts c Hc) as [Ec1 [Ec2 Ec3]].
  assert (Hbound : dval (d :: ds) < 10 ^ 19).
  { eapply N.lt_le_trans; [apply dval_bound; constructor; assumption|].
    apply N.pow_le_mono_r; [lia|]. cbn [length]. lia. }
  assert (H1019 : 10 ^ 19 < 2 ^ 64) by (vm_compute; reflexivity).
  assert (Hpos : 1 <= dval (d :: ds)).
  { rewrite dval_cons1. unfold dig in Hdd.
    assert (1 <= 10 ^ len ds) by (apply N.lt_succ_r, N.lt_pred_lt_succ; cbn; apply N.neq_0_lt_0, N.pow_nonzero; lia). nia. }
  unfold stn_body. rewrite Hd. cbn [bind].
  set (maxend := if endo - off0 <? 19 then endo else off0 + 19).
  assert (Hw : off0 + 1 + len ds <= maxend) by (unfold maxend; destruct (endo - off0 <? 19); lia).
  set (tail := c :: plus ++ es ++ rest).
  assert (Hnd : nodigit tail) by (cbn; exact Ec1).
  destruct (N.to_nat endo) as [|f] eqn:Ef; [lia|].
  cbn [main_loop s_rest s_off s_num s_digit s_hasdot s_dot s_isreal].
  destruct (ds ++ tail) as [|x xs] eqn:Eapp; [destruct ds; discriminate|]. rewrite <- Eapp.
  rewrite dval_cons1 in *. unfold dig in Hdd. change ch_zero with 48.
  destruct (scan_all_nd ds tail (off0 + 1) maxend (d - 48) d Hds Hnd Hw ltac:(lia)) as [g [Hg Hor]].
  rewrite Hg.
  assert (Hgd : (g =? ch_dot) = false).
  { apply N.eqb_neq. destruct Hor as [->|[Hin|[r Hr']]].
    - apply dig_not_dot. unfold dig. lia.
    - apply dig_not_dot. rewrite Forall_forall in Hds. apply Hds. exact Hin.
    - unfold tail in Hr'. inversion Hr'; subst. apply N.eqb_neq. exact Ec2. }
  rewrite Hgd.
  set (N19 := (d - 48) * 10 ^ len ds + dval ds) in *.
  set (offc := off0 + 1 + len ds).
  (* after the loop *)
  unfold stn_after. cbn [s_isreal s_rest s_off s_num s_dot s_hasdot negb]. unfold tail.
  rewrite Ec2. cbn [orb].
  assert (Ece : (c =? ch_e) || (c =? ch_ue) = true) by exact Ec3. rewrite Ece.
  cbn [s_isreal s_rest s_off s_num s_dot s_hasdot negb andb b2n].
  cbn [tail_scan t_off t_hasdot t_dot t_expoff t_exp t_negexp]. rewrite Ec1, Ec2, Ece.
  rewrite (parse_exponent_digits plus es rest (offc + 1)) by assumption.
  cbn [t_off t_hasdot t_dot t_expoff t_exp t_negexp negb andb].
  destruct (sat_value es Hes) as [Esmall Eval]. set (E := fold_left sat_step es 0) in *.
  assert (Eoff : (offc =? offc + 1 + len plus + len es) = false) by (apply N.eqb_neq; lia). rewrite Eoff. cbn [negb].
  assert (Eexp : (offc =? 0) = false) by (apply N.eqb_neq; unfold offc; lia). rewrite Eexp.
  assert (Hoffc : offc < 2 ^ 32) by (unfold offc; lia).
  rewrite (sub32_self offc Hoffc).
  rewrite (add32_small E 0) by lia. rewrite N.add_0_r.
  assert (Ep10 : sub32 (sub32 offc off0) 0 = 1 + len ds).
  { unfold offc. replace (off0 + 1 + len ds) with (off0 + (1 + len ds)) by lia.
    rewrite (sub32_self_add off0 (1 + len ds)) by (unfold offc in Hoffc; lia).
    apply sub32_zero. lia. }
  rewrite !Ep10.
  assert (E0 : (0 <=? E) = true) by (apply N.leb_le; lia). rewrite E0.
  rewrite (sub32_zero E) by lia.
  assert (En0 : (N19 =? 0) = false) by (apply N.eqb_neq; lia). rewrite En0.
  rewrite (add32_small E (1 + len ds)) by lia.
  assert (Ebig : (309 <? E + (1 + len ds)) = true) by (apply N.ltb_lt; destruct Eval as [->|Hs]; lia).
  rewrite Ebig. cbn [negb andb]. eexists. split; reflexivity.
Qed.

Theorem stn_overflow_rejected : forall sg d ds c plus es rest,
  sign_prefix sg -> is_nz_digit d = true -> Forall dig ds -> (length ds <= 18)%nat -> exp_marker c ->
  (plus = [] \/ plus = [ch_pos]) -> es <> [] -> Forall dig es -> nodigit rest ->
  len (sg ++ d :: ds ++ c :: plus ++ es ++ rest) < 2 ^ 32 ->
  310 <= 1 + len ds + dval es ->
  exists p, string_to_number (sg ++ d :: ds ++ c :: plus ++ es ++ rest) = Ok p /\ p_kind p = qn_nan.
Proof.
  intros sg d ds c plus es rest Hs Hd Hds Hl Hc Hp Hne Hes Hr H32 Hbig.
  destruct (stn_signed sg (d :: ds ++ c :: plus ++ es ++ rest) Hs) as [is_neg [off0 [H Ho]]].
  - intros c0 r E. inversion E; subst. apply nz_not_sign. exact Hd.
  - discriminate.
  - rewrite H. apply stn_body_overflow; auto.
    rewrite Ho. rewrite !app_length. cbn [length]. rewrite !app_length. cbn [length]. rewrite !app_length. lia.
Qed.

(* non-vacuity: 1e310, -9e309, 1234567890123456789E+291, 1e99999999999 are instances (by computation too) *)
Example overflow_examples :
  p_kind (match string_to_number [49; 101; 51; 49; 48] with Ok p => p | Err _ => mkPres 9 0 0 end) = qn_nan
  /\ p_kind (match string_to_number [45; 57; 101; 51; 48; 57] with Ok p => p | Err _ => mkPres 9 0 0 end) = qn_nan
  /\ p_kind (match string_to_number [49; 101; 57; 57; 57; 57; 57; 57; 57; 57; 57; 57; 57] with Ok p => p | Err _ => mkPres 9 0 0 end) = qn_nan
  (* and just below the class: 1e308 is a finite Real *)
  /\ p_kind (match string_to_number [49; 101; 51; 48; 56] with Ok p => p | Err _ => mkPres 9 0 0 end) = qn_real.
Proof. repeat (match goal with |- _ /\ _ => split end); vm_compute; reflexivity. Qed.
