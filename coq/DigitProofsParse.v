(* DigitProofsParse.v -- C09: integer numerals are returned exactly with the right
   kind and the right consumed length; malformed numerals are rejected; tables. *)
From Coq Require Import NArith ZArith List Bool Lia ZifyBool ZifyN ZifyNat.
From Qv Require Import gen.Tables_digit DigitModel DigitProofsInt.
Import ListNotations.
Local Open Scope N_scope.

Notation len l := (N.of_nat (length l)).

(* what may follow an integer numeral: nothing, or a unit that is no digit, '.', 'e', 'E' *)
Definition delim (rest : list N) : Prop :=
  match rest with
  | [] => True
  | c :: _ => is_digit c = false /\ c <> ch_dot /\ c <> ch_e /\ c <> ch_ue
  end.

Lemma dig_is_digit : forall c, dig c <-> is_digit c = true.
Proof.
  intros c. unfold dig, is_digit. change ch_zero with 48. change ch_nine with 57.
  rewrite andb_true_iff, !N.leb_le. tauto.
Qed.

Lemma dig_not_dot : forall c, dig c -> c <> ch_dot.
Proof. intros c H. unfold dig in H. change ch_dot with 46. lia. Qed.

Lemma m64_small : forall x, x < 2 ^ 64 -> m64 x = x.
Proof. intros x H. unfold m64, two64. change 18446744073709551616 with (2 ^ 64). apply N.mod_small. exact H. Qed.

Definition nodigit (rest : list N) : Prop :=
  match rest with [] => True | c :: _ => is_digit c = false end.
Lemma delim_nodigit : forall rest, delim rest -> nodigit rest.
Proof. intros [|c r] H; [exact I|]. destruct H as [H _]. exact H. Qed.

(* the digit window: all of [ds] lies inside it *)
Lemma scan_all_nd : forall ds rest off maxend num dgt,
  Forall dig ds -> nodigit rest -> off + len ds <= maxend ->
  num * 10 ^ len ds + dval ds < 2 ^ 64 ->
  exists dgt', scan_window (ds ++ rest) off maxend num dgt = (rest, off + len ds, num * 10 ^ len ds + dval ds, dgt')
            /\ (dgt' = dgt \/ In dgt' ds \/ exists r, rest = dgt' :: r).
Proof.
  induction ds as [|d ds IH]; intros rest off maxend num dgt Hd Hr Hw Hb.
  - cbn [app length]. change (N.of_nat 0) with 0. rewrite N.add_0_r, N.pow_0_r, N.mul_1_r.
    unfold dval; cbn [fold_left]. rewrite N.add_0_r.
    destruct rest as [|c r]; cbn [scan_window].
    + exists dgt. auto.
    + destruct (off <? maxend).
      * pose proof Hr as Hc. cbn in Hc. rewrite Hc. exists c. split; [reflexivity|]. right. right. exists r. reflexivity.
      * exists dgt. auto.
  - inversion Hd as [|? ? Hd1 Hd2]; subst.
    cbn [app scan_window length] in *. rewrite Nat2N.inj_succ in *.
    assert (E1 : (off <? maxend) = true) by (apply N.ltb_lt; lia). rewrite E1.
    assert (E2 : is_digit d = true) by (apply dig_is_digit; exact Hd1). rewrite E2.
    rewrite dval_cons1 in *. rewrite N.pow_succ_r' in *.
    unfold dig in Hd1. change ch_zero with 48.
    assert (Hp : 1 <= 10 ^ len ds) by (apply N.lt_succ_r, N.lt_pred_lt_succ; cbn; apply N.neq_0_lt_0, N.pow_nonzero; lia).
    assert (Hs : num * 10 + d - 48 < 2 ^ 64) by nia.
    rewrite m64_small by exact Hs.
    destruct (IH rest (off + 1) maxend (num * 10 + d - 48) d Hd2 Hr ltac:(lia) ltac:(nia)) as [g [Hg Hor]].
    exists g. split.
    + assert (Eo : off + 1 + len ds = off + N.succ (len ds)) by lia.
      assert (Ev : (num * 10 + d - 48) * 10 ^ len ds + dval ds
                   = num * (10 * 10 ^ len ds) + ((d - 48) * 10 ^ len ds + dval ds)) by nia.
      rewrite Hg, Eo, Ev. reflexivity.
    + destruct Hor as [->|[Hin|Hex]]; [right; left; left; reflexivity|right; left; right; exact Hin|right; right; exact Hex].
Qed.

Lemma scan_all : forall ds rest off maxend num dgt,
  Forall dig ds -> delim rest -> off + len ds <= maxend ->
  num * 10 ^ len ds + dval ds < 2 ^ 64 ->
  exists dgt', scan_window (ds ++ rest) off maxend num dgt = (rest, off + len ds, num * 10 ^ len ds + dval ds, dgt')
            /\ (dgt' = dgt \/ In dgt' ds \/ exists r, rest = dgt' :: r).
Proof. intros. apply scan_all_nd; auto. apply delim_nodigit. assumption. Qed.

(* the window ends exactly after [ds]: whatever follows is left alone *)
Lemma scan_stop : forall ds tail off maxend num dgt,
  Forall dig ds -> off + len ds = maxend ->
  num * 10 ^ len ds + dval ds < 2 ^ 64 ->
  exists dgt', scan_window (ds ++ tail) off maxend num dgt = (tail, maxend, num * 10 ^ len ds + dval ds, dgt')
            /\ (dgt' = dgt \/ In dgt' ds).
Proof.
  induction ds as [|d ds IH]; intros tail off maxend num dgt Hd Hw Hb.
  - cbn [app length] in *. change (N.of_nat 0) with 0 in *. rewrite N.add_0_r in Hw. subst maxend.
    rewrite N.pow_0_r, N.mul_1_r. unfold dval; cbn [fold_left]. rewrite N.add_0_r.
    exists dgt. split; [|auto].
    destruct tail as [|c r]; cbn [scan_window]; [reflexivity|]. rewrite N.ltb_irrefl. reflexivity.
  - inversion Hd as [|? ? Hd1 Hd2]; subst.
    cbn [app scan_window length] in *. rewrite Nat2N.inj_succ in *.
    assert (E1 : (off <? off + N.succ (len ds)) = true) by (apply N.ltb_lt; lia). rewrite E1.
    assert (E2 : is_digit d = true) by (apply dig_is_digit; exact Hd1). rewrite E2.
    rewrite dval_cons1 in *. rewrite N.pow_succ_r' in *.
    unfold dig in Hd1. change ch_zero with 48.
    assert (Hp : 1 <= 10 ^ len ds) by (apply N.lt_succ_r, N.lt_pred_lt_succ; cbn; apply N.neq_0_lt_0, N.pow_nonzero; lia).
    assert (Hs : num * 10 + d - 48 < 2 ^ 64) by nia.
    rewrite m64_small by exact Hs.
    destruct (IH tail (off + 1) (off + N.succ (len ds)) (num * 10 + d - 48) d Hd2 ltac:(lia) ltac:(nia)) as [g [Hg Hor]].
    exists g. split.
    + assert (Ev : (num * 10 + d - 48) * 10 ^ len ds + dval ds
                   = num * (10 * 10 ^ len ds) + ((d - 48) * 10 ^ len ds + dval ds)) by nia.
      rewrite Hg, Ev. reflexivity.
    + destruct Hor as [->|Hin]; [right; left; reflexivity|right; right; exact Hin].
Qed.

(* the result for an integer numeral of value n that ends at offset off *)
Definition int_result (is_neg : bool) (n off : N) : pres :=
  if negb is_neg then mkPres qn_natural n off
  else if n =? 0 then mkPres qn_real sign_bit off
  else mkPres qn_integer (two64 - n) off.

Lemma stn_after_int : forall is_neg start fraconly off rest num dgt dot hasdot,
  delim rest -> num < 2 ^ 64 -> (is_neg = true -> num <= 2 ^ 63) ->
  stn_after is_neg start fraconly (mkSt off rest num dgt dot false hasdot) = Ok (int_result is_neg num off).
Proof.
  intros is_neg start fraconly off rest num dgt dot hasdot Hr Hn Hs.
  unfold stn_after, int_result. cbn [s_isreal s_rest s_off s_num s_dot s_hasdot negb].
  assert (Hfin : forall g,
    (let num0 := num in
     match (if negb is_neg then Some (mkPres qn_natural num0 off)
            else if num0 =? 0 then Some (mkPres qn_real sign_bit off)
            else if num0 <=? sign_bit then Some (mkPres qn_integer (m64 (two64 - num0)) off) else None) with
     | Some p => Ok p | None => g end) =
    Ok (if negb is_neg then mkPres qn_natural num off else if num =? 0 then mkPres qn_real sign_bit off
        else mkPres qn_integer (two64 - num) off)).
  { intros g. cbn zeta. destruct is_neg; cbn [negb]; [|reflexivity].
    destruct (num =? 0) eqn:Ez; [reflexivity|].
    assert (E : (num <=? sign_bit) = true) by (apply N.leb_le; change sign_bit with (2 ^ 63); auto).
    rewrite E. rewrite m64_small; [reflexivity|]. unfold two64. change 18446744073709551616 with (2 ^ 64). apply N.eqb_neq in Ez. lia. }
  destruct rest as [|c r].
  - cbn [s_isreal s_num s_off negb]. apply Hfin.
  - destruct Hr as [Hc [Hdot [He Hue]]].
    apply N.eqb_neq in Hdot. apply N.eqb_neq in He. apply N.eqb_neq in Hue.
    rewrite Hdot, He, Hue, Hc. cbn [orb s_isreal s_num s_off negb]. apply Hfin.
Qed.

Lemma is_nz_digit_dig : forall d, is_nz_digit d = true -> dig d /\ d <> 48.
Proof.
  intros d H. unfold is_nz_digit in H. change ch_zero with 48 in H. change ch_nine with 57 in H.
  apply andb_prop in H. destruct H as [H1 H2]. apply N.ltb_lt in H1. apply N.leb_le in H2. unfold dig. lia.
Qed.

(* at most 19 digits: every such numeral fits 64 bits *)
Theorem stn_body_int19 : forall is_neg off0 d ds rest endo,
  is_nz_digit d = true -> Forall dig ds -> delim rest ->
  (length ds <= 18)%nat ->
  endo = off0 + 1 + len ds + len rest ->
  (is_neg = true -> dval (d :: ds) <= 2 ^ 63) ->
  stn_body is_neg off0 (d :: ds ++ rest) endo = Ok (int_result is_neg (dval (d :: ds)) (off0 + 1 + len ds)).
Proof.
  intros is_neg off0 d ds rest endo Hd Hds Hr Hl He Hs.
  destruct (is_nz_digit_dig d Hd) as [Hdd Hd0].
  assert (Hbound : dval (d :: ds) < 10 ^ 19).
  { eapply N.lt_le_trans; [apply dval_bound; constructor; assumption|].
    apply N.pow_le_mono_r; [lia|]. cbn [length]. lia. }
  assert (H1019 : 10 ^ 19 < 2 ^ 64) by (vm_compute; reflexivity).
  unfold stn_body. rewrite Hd. cbn [bind].
  set (maxend := if endo - off0 <? 19 then endo else off0 + 19).
  assert (Hw : off0 + 1 + len ds <= maxend).
  { unfold maxend. destruct (endo - off0 <? 19); lia. }
  rewrite dval_cons1 in *.
  unfold dig in Hdd. change ch_zero with 48.
  destruct (ds ++ rest) as [|x xs] eqn:Eapp.
  - (* single digit at the very end *)
    apply app_eq_nil in Eapp. destruct Eapp as [-> ->].
    cbn [main_loop s_rest]. cbn [length] in *. change (N.of_nat 0) with 0 in *.
    rewrite N.add_0_r. unfold dval in *; cbn [fold_left] in *. rewrite N.pow_0_r, N.mul_1_r, N.add_0_r in *.
    apply stn_after_int; [exact I|lia|exact Hs].
  - rewrite <- Eapp. cbn [main_loop s_rest s_off s_num s_digit s_hasdot s_dot s_isreal].
    assert (Hne : exists y ys, ds ++ rest = y :: ys) by (rewrite Eapp; eauto).
    destruct Hne as [y [ys Hy]]. rewrite Hy. rewrite <- Hy.
    destruct (scan_all ds rest (off0 + 1) maxend (d - 48) d Hds Hr Hw ltac:(lia)) as [g [Hg Hor]].
    rewrite Hg.
    assert (Hgd : (g =? ch_dot) = false).
    { apply N.eqb_neq. destruct Hor as [->|[Hin|[r ->]]].
      - apply dig_not_dot. unfold dig. lia.
      - apply dig_not_dot. rewrite Forall_forall in Hds. apply Hds. exact Hin.
      - destruct Hr as [_ [Hdot _]]. exact Hdot. }
    rewrite Hgd.
    apply stn_after_int; [exact Hr|lia|exact Hs].
Qed.

(* malformed: a leading zero followed by a digit *)
Theorem stn_body_leading_zero : forall is_neg off0 d rest endo,
  is_digit d = true -> endo = off0 + 2 + len rest ->
  exists p, stn_body is_neg off0 (ch_zero :: d :: rest) endo = Ok p /\ p_kind p = qn_nan.
Proof.
  intros is_neg off0 d rest endo Hd He. unfold stn_body.
  change (is_nz_digit ch_zero) with false. cbn [orb]. rewrite N.eqb_refl. cbn [orb andb].
  assert (E : (off0 + 1 <? endo) = true) by (apply N.ltb_lt; lia). rewrite E.
  assert (Hx : (d =? ch_x) || (d =? ch_ux) = false).
  { apply dig_is_digit in Hd. unfold dig in Hd. change ch_x with 120. change ch_ux with 88.
    apply orb_false_iff; split; apply N.eqb_neq; lia. }
  rewrite Hx, Hd. cbn [bind]. eexists. split; [reflexivity|reflexivity].
Qed.

(* malformed: a lone dot (nothing or a non-digit after it) *)
Theorem stn_body_lone_dot : forall is_neg off0 rest endo,
  match rest with [] => True | c :: _ => is_digit c = false end ->
  exists p, stn_body is_neg off0 (ch_dot :: rest) endo = Ok p /\ p_kind p = qn_nan.
Proof.
  intros is_neg off0 rest endo Hr. unfold stn_body.
  change (is_nz_digit ch_dot) with false. change (ch_dot =? ch_zero) with false. rewrite N.eqb_refl. cbn [orb andb tl].
  destruct rest as [|c r]; cbn [skipz].
  - rewrite !N.eqb_refl. change (is_digit ch_dot) with false. cbn [andb negb bind]. eexists; split; reflexivity.
  - assert (Hz : (c =? ch_zero) = false).
    { apply N.eqb_neq. intros ->. vm_compute in Hr. discriminate. }
    rewrite Hz. rewrite !N.eqb_refl, Hr. cbn [andb negb bind]. eexists; split; reflexivity.
Qed.

(* ---- tables ---- *)
Lemma pow5_table_ok : dg_pow5 = map (fun i => 5 ^ N.of_nat i) (seq 0 28) /\ dg_max_pow5 = 27 /\ dg_max_shift = 64
                      /\ dg_max_pow10 = 19 /\ dg_max_pow10_value = 10 ^ 19.
Proof. repeat (match goal with |- _ /\ _ => split end); vm_compute; reflexivity. Qed.

(* reciprocal entries: normalised 64-bit approximations of 2^(64+shift_i) / 5^i, off by less than one *)
Definition recip_check : bool :=
  forallb (fun i => let r := recip5 i in let sh := recip5_shift i in
                    (2 ^ 63 <=? r) && (r <? 2 ^ 64)
                    && (r * 5 ^ i <? 2 ^ (64 + sh) + 5 ^ i) && (2 ^ (64 + sh) <? (r + 1) * 5 ^ i))
          (map N.of_nat (seq 1 27)).
Lemma recip_table_ok : recip_check = true /\ recip5 0 = 1 /\ recip5_shift 0 = 0.
Proof. repeat (match goal with |- _ /\ _ => split end); vm_compute; reflexivity. Qed.

(* twenty digits: the 20th-digit overflow test admits exactly the values below 2^64 *)
Theorem stn_body_int20 : forall off0 d ds d20 rest endo,
  is_nz_digit d = true -> Forall dig ds -> dig d20 -> delim rest ->
  length ds = 18%nat ->
  endo = off0 + 20 + len rest ->
  dval (d :: ds ++ [d20]) < 2 ^ 64 ->
  stn_body false off0 (d :: ds ++ d20 :: rest) endo = Ok (mkPres qn_natural (dval (d :: ds ++ [d20])) (off0 + 20)).
Proof.
  intros off0 d ds d20 rest endo Hd Hds Hd20 Hr Hl He Hn.
  destruct (is_nz_digit_dig d Hd) as [Hdd Hd0].
  assert (Hbound : dval (d :: ds) < 10 ^ 19).
  { eapply N.lt_le_trans; [apply dval_bound; constructor; assumption|].
    apply N.pow_le_mono_r; [lia|]. cbn [length]. lia. }
  assert (H1019 : 10 ^ 19 < 2 ^ 64) by (vm_compute; reflexivity).
  change (d :: ds ++ [d20]) with ((d :: ds) ++ [d20]) in *. rewrite dval_app in *.
  cbn [length] in Hn |- *. change (N.of_nat 1) with 1 in *. rewrite N.pow_1_r in *.
  replace (dval [d20]) with (d20 - 48) in * by (unfold dval; cbn [fold_left]; lia).
  unfold stn_body. rewrite Hd. cbn [bind].
  assert (Ew : (endo - off0 <? 19) = false) by (apply N.ltb_ge; lia). rewrite Ew.
  rewrite dval_cons1 in *. assert (Hl18 : len ds = 18) by (rewrite Hl; reflexivity). rewrite Hl18 in *.
  unfold dig in Hdd, Hd20. change ch_zero with 48.
  destruct (ds ++ d20 :: rest) as [|x xs] eqn:Eapp; [destruct ds; discriminate|]. rewrite <- Eapp.
  cbn [main_loop s_rest s_off s_num s_digit s_hasdot s_dot s_isreal].
  rewrite Eapp. rewrite <- Eapp.
  destruct (scan_stop ds (d20 :: rest) (off0 + 1) (off0 + 19) (d - 48) d Hds ltac:(lia) ltac:(rewrite Hl18; lia)) as [g [Hg Hor]].
  rewrite Hg. rewrite Hl18.
  assert (Hgd : (g =? ch_dot) = false).
  { apply N.eqb_neq. destruct Hor as [->|Hin].
    - apply dig_not_dot. unfold dig. lia.
    - apply dig_not_dot. rewrite Forall_forall in Hds. apply Hds. exact Hin. }
  rewrite Hgd.
  unfold stn_after. cbn [s_isreal s_rest s_off s_num s_dot s_hasdot negb].
  assert (E1 : (d20 =? ch_dot) = false) by (apply N.eqb_neq; change ch_dot with 46; lia).
  assert (E2 : (d20 =? ch_e) = false) by (apply N.eqb_neq; change ch_e with 101; lia).
  assert (E3 : (d20 =? ch_ue) = false) by (apply N.eqb_neq; change ch_ue with 69; lia).
  assert (E4 : is_digit d20 = true) by (apply dig_is_digit; unfold dig; lia).
  rewrite E1, E2, E3, E4. cbn [orb].
  set (N19 := (d - 48) * 10 ^ 18 + dval ds) in *.
  change (2 ^ 64) with 18446744073709551616 in Hn.
  assert (E5 : (1844674407370955161 <? N19) = false) by (apply N.ltb_ge; lia).
  assert (E6 : (N19 =? 1844674407370955161) && (ch_five <? d20) = false).
  { change ch_five with 53. destruct (N19 =? 1844674407370955161) eqn:E; [|reflexivity].
    apply N.eqb_eq in E. cbn [andb]. apply N.ltb_ge. lia. }
  rewrite E5, E6. cbn [orb].
  change ch_zero with 48.
  rewrite m64_small by (change (2 ^ 64) with 18446744073709551616; lia).
  assert (Hreal : match rest with [] => false | d2 :: _ => (d2 =? ch_dot) || (d2 =? ch_e) || (d2 =? ch_ue) || is_digit d2 end = false).
  { destruct rest as [|c r]; [reflexivity|]. destruct Hr as [Hc [Hdot [He' Hue]]].
    apply N.eqb_neq in Hdot. apply N.eqb_neq in He'. apply N.eqb_neq in Hue. rewrite Hdot, He', Hue, Hc. reflexivity. }
  rewrite Hreal. cbn [s_isreal s_num s_off negb].
  f_equal. f_equal; lia.
Qed.

(* ---- at the level of Digit::StringToNumber(content, length) ---- *)
Lemma digit_not_sign : forall d, dig d -> (d =? ch_neg) = false /\ (d =? ch_pos) = false.
Proof. intros d H. unfold dig in H. change ch_neg with 45. change ch_pos with 43. split; apply N.eqb_neq; lia. Qed.

Lemma len_app3 : forall (d : N) ds rest, len (d :: ds ++ rest) = 1 + len ds + len rest.
Proof. intros. cbn [length]. rewrite app_length. lia. Qed.

Theorem stn_unsigned_int : forall d ds rest,
  is_nz_digit d = true -> Forall dig ds -> delim rest -> (length ds <= 18)%nat ->
  string_to_number (d :: ds ++ rest) = Ok (mkPres qn_natural (dval (d :: ds)) (1 + len ds)).
Proof.
  intros d ds rest Hd Hds Hr Hl. unfold string_to_number.
  destruct (digit_not_sign d (proj1 (is_nz_digit_dig d Hd))) as [E1 E2]. rewrite E1, E2.
  rewrite (stn_body_int19 false 0 d ds rest _ Hd Hds Hr Hl); [reflexivity|rewrite len_app3; lia|discriminate].
Qed.

Theorem stn_plus_int : forall d ds rest,
  is_nz_digit d = true -> Forall dig ds -> delim rest -> (length ds <= 18)%nat ->
  string_to_number (ch_pos :: d :: ds ++ rest) = Ok (mkPres qn_natural (dval (d :: ds)) (2 + len ds)).
Proof.
  intros d ds rest Hd Hds Hr Hl. unfold string_to_number.
  change (ch_pos =? ch_neg) with false. rewrite N.eqb_refl.
  rewrite (stn_body_int19 false 1 d ds rest _ Hd Hds Hr Hl); [unfold int_result; cbn [negb]; f_equal; f_equal; lia| |discriminate].
  change (ch_pos :: d :: ds ++ rest) with ([ch_pos] ++ (d :: ds ++ rest)). rewrite app_length, Nat2N.inj_add, len_app3. cbn [length]. lia.
Qed.

Theorem stn_negative_int : forall d ds rest,
  is_nz_digit d = true -> Forall dig ds -> delim rest -> (length ds <= 18)%nat ->
  dval (d :: ds) <= 2 ^ 63 ->
  string_to_number (ch_neg :: d :: ds ++ rest) = Ok (mkPres qn_integer (2 ^ 64 - dval (d :: ds)) (2 + len ds)).
Proof.
  intros d ds rest Hd Hds Hr Hl Hn. unfold string_to_number. rewrite N.eqb_refl.
  rewrite (stn_body_int19 true 1 d ds rest _ Hd Hds Hr Hl); [| |intros _; exact Hn].
  - unfold int_result. cbn [negb].
    assert (Hz : (dval (d :: ds) =? 0) = false).
    { apply N.eqb_neq. destruct (is_nz_digit_dig d Hd) as [Hdd Hd0]. rewrite dval_cons1. unfold dig in Hdd.
      assert (1 <= 10 ^ len ds) by (apply N.lt_succ_r, N.lt_pred_lt_succ; cbn; apply N.neq_0_lt_0, N.pow_nonzero; lia). nia. }
    rewrite Hz. reflexivity.
  - change (ch_neg :: d :: ds ++ rest) with ([ch_neg] ++ (d :: ds ++ rest)). rewrite app_length, Nat2N.inj_add, len_app3. cbn [length]. lia.
Qed.

Theorem stn_unsigned_int20 : forall d ds d20 rest,
  is_nz_digit d = true -> Forall dig ds -> dig d20 -> delim rest -> length ds = 18%nat ->
  dval (d :: ds ++ [d20]) < 2 ^ 64 ->
  string_to_number (d :: ds ++ d20 :: rest) = Ok (mkPres qn_natural (dval (d :: ds ++ [d20])) 20).
Proof.
  intros d ds d20 rest Hd Hds Hd20 Hr Hl Hn. unfold string_to_number.
  destruct (digit_not_sign d (proj1 (is_nz_digit_dig d Hd))) as [E1 E2]. rewrite E1, E2.
  rewrite (stn_body_int20 0 d ds d20 rest _ Hd Hds Hd20 Hr Hl); [reflexivity| |exact Hn].
  cbn [length]. rewrite app_length. cbn [length]. rewrite Hl. lia.
Qed.

(* malformed numerals at the top level *)
Theorem stn_leading_zero_rejected : forall d rest,
  is_digit d = true -> exists p, string_to_number (ch_zero :: d :: rest) = Ok p /\ p_kind p = qn_nan.
Proof.
  intros d rest Hd. unfold string_to_number. change (ch_zero =? ch_neg) with false. change (ch_zero =? ch_pos) with false.
  apply stn_body_leading_zero; [exact Hd|]. cbn [length]. lia.
Qed.

Theorem stn_negative_leading_zero_rejected : forall d rest,
  is_digit d = true -> exists p, string_to_number (ch_neg :: ch_zero :: d :: rest) = Ok p /\ p_kind p = qn_nan.
Proof.
  intros d rest Hd. unfold string_to_number. rewrite N.eqb_refl.
  apply stn_body_leading_zero; [exact Hd|]. cbn [length]. lia.
Qed.

Theorem stn_lone_dot_rejected : forall rest,
  match rest with [] => True | c :: _ => is_digit c = false end ->
  (exists p, string_to_number (ch_dot :: rest) = Ok p /\ p_kind p = qn_nan)
  /\ (exists p, string_to_number (ch_neg :: ch_dot :: rest) = Ok p /\ p_kind p = qn_nan).
Proof.
  intros rest Hr. split; unfold string_to_number.
  - change (ch_dot =? ch_neg) with false. change (ch_dot =? ch_pos) with false. apply stn_body_lone_dot. exact Hr.
  - rewrite N.eqb_refl. apply stn_body_lone_dot. exact Hr.
Qed.

(* non-vacuity and the boundaries, by computation on the model *)
Definition str (l : list N) := l.
Example parse_examples :
  (* 9223372036854775807, 9223372036854775808, -9223372036854775808 (D28), -9223372036854775809 *)
  string_to_number [57;50;50;51;51;55;50;48;51;54;56;53;52;55;55;53;56;48;55] = Ok (mkPres qn_natural 9223372036854775807 19)
  /\ string_to_number [45;57;50;50;51;51;55;50;48;51;54;56;53;52;55;55;53;56;48;56] = Ok (mkPres qn_integer 9223372036854775808 20)
  /\ p_kind (match string_to_number [45;57;50;50;51;51;55;50;48;51;54;56;53;52;55;55;53;56;48;57] with Ok p => p | Err _ => mkPres 9 0 0 end) = qn_real
  (* 18446744073709551615 and 18446744073709551616 *)
  /\ string_to_number [49;56;52;52;54;55;52;52;48;55;51;55;48;57;53;53;49;54;49;53] = Ok (mkPres qn_natural 18446744073709551615 20)
  /\ p_kind (match string_to_number [49;56;52;52;54;55;52;52;48;55;51;55;48;57;53;53;49;54;49;54] with Ok p => p | Err _ => mkPres 9 0 0 end) = qn_real
  (* "-0" is the real -0.0; "0" the natural 0; "12," stops before the comma *)
  /\ string_to_number [45; 48] = Ok (mkPres qn_real 9223372036854775808 2)
  /\ string_to_number [48] = Ok (mkPres qn_natural 0 1)
  /\ string_to_number [49; 50; 44] = Ok (mkPres qn_natural 12 2)
  (* "-1.5e3" *)
  /\ string_to_number [45;49;46;53;101;51] = Ok (mkPres qn_real 13877683922067783680 6)
  (* repeated dot, empty exponent *)
  /\ p_kind (match string_to_number [49;46;50;46;51] with Ok p => p | Err _ => mkPres 9 0 0 end) = qn_nan
  /\ p_kind (match string_to_number [49;101] with Ok p => p | Err _ => mkPres 9 0 0 end) = qn_nan
  /\ p_kind (match string_to_number [49;46;53;101;43] with Ok p => p | Err _ => mkPres 9 0 0 end) = qn_nan.
Proof. repeat (match goal with |- _ /\ _ => split end); vm_compute; reflexivity. Qed.

(* ---- sign ---- *)
Lemma kinds_distinct : qn_nan <> qn_real /\ qn_natural <> qn_real /\ qn_integer <> qn_real.
Proof. repeat split; vm_compute; discriminate. Qed.

Lemma stn_after_neg_sign : forall start fo s p,
  stn_after true start fo s = Ok p -> p_kind p = qn_real -> N.testbit (p_bits p) 63 = true.
Proof.
  intros start fo s p H Hk. unfold stn_after in H.
  destruct kinds_distinct as [K1 [K2 K3]].
  match type of H with (let '(s2, tmp2) := ?X in _) = _ => destruct X as [s2 tmp2] end.
  cbn [negb] in H.
  destruct (negb (s_isreal s2)).
  - destruct (s_num s2 =? 0).
    + inversion H; subst p. reflexivity.
    + destruct (s_num s2 <=? sign_bit).
      * inversion H; subst p. cbn in Hk. congruence.
      * revert H. match goal with |- context [tail_scan ?a ?b] => destruct (tail_scan a b) as [t|] end; intros H;
          [|inversion H; subst p; (vm_compute in Hk; inversion Hk)].
        repeat match type of H with (let '(a, b) := ?X in _) = _ => destruct X as [? ?] end.
        repeat match type of H with
               | (if ?c then _ else _) = _ => destruct c
               | bind ?r _ = _ => destruct r as [?|?]; cbn [bind] in H
               | match ?o with Some _ => _ | None => _ end = _ => destruct o
               end;
        try discriminate; inversion H; subst p; cbn [p_kind p_bits] in Hk |- *; try (vm_compute in Hk; inversion Hk); lazy beta iota delta [p_bits];
        first [reflexivity | rewrite N.lor_spec; apply orb_true_r].
  - revert H. match goal with |- context [tail_scan ?a ?b] => destruct (tail_scan a b) as [t|] end; intros H;
      [|inversion H; subst p; (vm_compute in Hk; inversion Hk)].
    repeat match type of H with (let '(a, b) := ?X in _) = _ => destruct X as [? ?] end.
    repeat match type of H with
           | (if ?c then _ else _) = _ => destruct c
           | bind ?r _ = _ => destruct r as [?|?]; cbn [bind] in H
           | match ?o with Some _ => _ | None => _ end = _ => destruct o
           end;
    try discriminate; inversion H; subst p; cbn [p_kind p_bits] in Hk |- *; try (vm_compute in Hk; inversion Hk); lazy beta iota delta [p_bits];
    first [reflexivity | rewrite N.lor_spec; apply orb_true_r].
Qed.


(* the sign of a negative numeral that starts with a non-zero digit survives every path
   (integer too large for the signed kind, fraction, exponent, dropped digits) *)
Theorem stn_negative_sign_preserved : forall d r p,
  is_nz_digit d = true ->
  string_to_number (ch_neg :: d :: r) = Ok p -> p_kind p = qn_real -> N.testbit (p_bits p) 63 = true.
Proof.
  intros d r p Hd H Hk. unfold string_to_number in H. rewrite N.eqb_refl in H.
  unfold stn_body in H. rewrite Hd in H. cbn [bind] in H.
  match type of H with match ?m with _ => _ end = _ => destruct m as [| |s] end;
    [inversion H; subst p; vm_compute in Hk; inversion Hk|discriminate|].
  eapply stn_after_neg_sign; eauto.
Qed.

Example sign_examples :
  string_to_number [45; 48] = Ok (mkPres qn_real sign_bit 2)                 (* -0 *)
  /\ string_to_number [45; 48; 46; 48] = Ok (mkPres qn_real sign_bit 4)      (* -0.0 *)
  /\ string_to_number [45; 48; 46; 53] = Ok (mkPres qn_real 13826050856027422720 4)   (* -0.5 *)
  /\ string_to_number [45; 48; 101; 53] = Ok (mkPres qn_real sign_bit 4)     (* -0e5 (D45) *)
  /\ string_to_number [48; 46; 53] = Ok (mkPres qn_real 4602678819172646912 3).
Proof. repeat (match goal with |- _ /\ _ => split end); vm_compute; reflexivity. Qed.
