(* ValueProofsObs.v -- the observers (GroupBy, rendering, dumps, Stringify, typed
   reads) give the same result on a value and on its abstraction; the
   refinement is lifted to whole histories. *)
From Coq Require Import NArith ZArith List Bool Lia.
From Qv Require Import gen.Tables_value ValueModel ValueProofs.
Import ListNotations.

Lemma pool_abs : forall id, dpool_get id = abs (pool_get id).
Proof. intros id. unfold dpool_get, dpool, pool_get. change DUndef with (abs (Undef 0)). apply map_nth. Qed.

Lemma deref_abs : forall v, abs (deref v) = d_deref (abs v).
Proof. intros [s|i|s|l|sl]; try reflexivity. cbn [deref abs d_deref]. symmetry. apply pool_abs. Qed.

Lemma group_name_abs : forall v, group_name v = d_group_name (abs v).
Proof.
  intros v. unfold group_name, d_group_name. rewrite <- deref_abs.
  destruct (deref v) as [s|i|s|l|sl]; reflexivity.
Qed.

Lemma key_slot_abs : forall k sl,
    option_map (fun p => abs (snd p)) (key_slot k sl) = m_find k (absm sl).
Proof.
  intros k sl. induction sl as [|[[k' x]|] r IH]; [reflexivity| |].
  - rewrite absm_cons_some. cbn [key_slot m_find]. destruct (str_eqb k k'); [reflexivity|].
    rewrite <- IH. destruct (key_slot k r); reflexivity.
  - cbn [key_slot]. rewrite absm_cons_none, <- IH. destruct (key_slot k r); reflexivity.
Qed.

Definition sub_acc (x : value) (k' : str) (acc : slots) : slots :=
  if is_undef x then acc else slot_put k' (fun _ => copy_value x) acc.

Lemma sub_acc_abs : forall x k' acc,
    absm (sub_acc x k' acc) = (if d_is_undef (abs x) then absm acc else m_put k' (fun _ => d_copy (abs x)) (absm acc))
    /\ has_hole (sub_acc x k' acc) = has_hole acc.
Proof.
  intros x k' acc. unfold sub_acc. rewrite abs_is_undef. destruct (is_undef x); [split; reflexivity|].
  rewrite put_hole. split; [|reflexivity]. apply put_abs. intros o. apply copy_abs.
Qed.

(* after the key's slot has been passed *)
Lemma sub_after : forall k sl pos ki acc, (ki < pos)%nat ->
    absm (sub_object_at pos ki sl acc) = d_sub_object_first k (absm sl) (absm acc) true
    /\ has_hole (sub_object_at pos ki sl acc) = has_hole acc.
Proof.
  intros k sl. induction sl as [|[[k' x]|] r IH]; intros pos ki acc Hlt; [split; reflexivity| |].
  - cbn [sub_object_at]. destruct (Nat.eqb pos ki) eqn:E; [apply Nat.eqb_eq in E; lia|].
    rewrite absm_cons_some. cbn [d_sub_object_first negb andb].
    destruct (IH (S pos) ki (sub_acc x k' acc) ltac:(lia)) as [E1 E2].
    destruct (sub_acc_abs x k' acc) as [A1 A2]. fold (sub_acc x k' acc).
    rewrite E1, E2, A1, A2. split; reflexivity.
  - cbn [sub_object_at]. destruct (Nat.eqb pos ki) eqn:E; [apply Nat.eqb_eq in E; lia|].
    rewrite absm_cons_none. apply IH. lia.
Qed.

Lemma sub_before : forall k sl pos j kv acc, key_slot k sl = Some (j, kv) ->
    absm (sub_object_at pos (pos + j) sl acc) = d_sub_object_first k (absm sl) (absm acc) false
    /\ has_hole (sub_object_at pos (pos + j) sl acc) = has_hole acc.
Proof.
  intros k sl. induction sl as [|[[k' x]|] r IH]; intros pos j kv acc Hk; [discriminate| |].
  - cbn [key_slot] in Hk. rewrite absm_cons_some. cbn [sub_object_at d_sub_object_first negb andb].
    destruct (str_eqb k k') eqn:Ek.
    + injection Hk as Hj Hv. subst j. rewrite Nat.add_0_r, Nat.eqb_refl.
      apply sub_after. lia.
    + destruct (key_slot k r) as [[j' kv']|] eqn:Er; [|discriminate]. cbn [option_map fst snd] in Hk.
      injection Hk as Hj Hv. subst j kv.
      destruct (Nat.eqb pos (pos + S j')) eqn:E; [apply Nat.eqb_eq in E; lia|].
      fold (sub_acc x k' acc).
      replace (pos + S j')%nat with (S pos + j')%nat by lia.
      destruct (IH (S pos) j' kv' (sub_acc x k' acc) eq_refl) as [E1 E2].
      destruct (sub_acc_abs x k' acc) as [A1 A2]. rewrite E1, E2, A1, A2. split; reflexivity.
  - cbn [key_slot] in Hk. destruct (key_slot k r) as [[j' kv']|] eqn:Er; [|discriminate].
    cbn [option_map fst snd] in Hk. injection Hk as Hj Hv. subst j kv.
    cbn [sub_object_at]. destruct (Nat.eqb pos (pos + S j')) eqn:E; [apply Nat.eqb_eq in E; lia|].
    rewrite absm_cons_none. replace (pos + S j')%nat with (S pos + j')%nat by lia.
    apply (IH (S pos) j' kv' acc eq_refl).
Qed.

Lemma group_step_abs : forall k e acc,
    option_map (fun s => (has_hole s, absm s)) (group_step k e acc)
    = option_map (fun m => (has_hole acc, m)) (d_group_step k (abs e) (absm acc)).
Proof.
  intros k e acc. destruct e as [s|i|s|l|sl]; try reflexivity.
  rewrite abs_obj. cbn [group_step d_group_step]. rewrite <- key_slot_abs.
  destruct (key_slot k sl) as [[ki kv]|] eqn:Ek; [|reflexivity]. cbn [option_map snd].
  rewrite <- group_name_abs. destruct (group_name kv) as [nm|]; [|reflexivity]. cbn [option_map].
  rewrite put_hole. f_equal. f_equal. apply put_abs. intros o.
  rewrite append_abs, abs_obj.
  destruct (sub_before k sl 0 ki kv [] Ek) as [E1 E2]. cbn [Nat.add] in E1, E2. rewrite E1, E2.
  destruct o; reflexivity.
Qed.

Lemma group_loop_abs : forall k l acc,
    (fst (group_loop k l acc), has_hole (snd (group_loop k l acc)), absm (snd (group_loop k l acc)))
    = (fst (d_group_loop k (map abs l) (absm acc)), has_hole acc, snd (d_group_loop k (map abs l) (absm acc))).
Proof.
  intros k l. induction l as [|e r IH]; intros acc; [reflexivity|].
  cbn [group_loop d_group_loop map]. pose proof (group_step_abs k e acc) as H.
  destruct (group_step k e acc) as [acc'|]; destruct (d_group_step k (abs e) (absm acc)) as [m'|];
    cbn [option_map] in H; try discriminate; [|reflexivity].
  injection H as E1 E2. rewrite IH, E1, E2. reflexivity.
Qed.

Definition gb_abs (r : bool * option value) : bool * option doc := (fst r, oabs (snd r)).

Lemma group_by_abs : forall v k, gb_abs (group_by v k) = d_group_by (abs v) k.
Proof.
  intros v k. unfold group_by, d_group_by. rewrite <- deref_abs.
  destruct (deref v) as [s|i|s|l|sl]; try reflexivity.
  destruct l as [|e r]; [reflexivity|]. cbn [abs map].
  pose proof (group_loop_abs k (e :: r) []) as H. cbn [map] in H.
  change (absm []) with (@nil (str * doc)) in H.
  destruct (group_loop k (e :: r) []) as [ok g]. destruct (d_group_loop k (abs e :: map abs r) []) as [ok' g'].
  cbn [fst snd] in H. injection H as E1 E2 E3. unfold gb_abs. cbn [fst snd oabs option_map].
  rewrite abs_obj, E1, E2, E3. reflexivity.
Qed.

(* ---- steps and histories (state level) ---- *)
Definition is_reader (o : op) : bool :=
  match o with ORead _ | ORender _ _ => true | _ => false end.

Lemma step_abs : forall st o, is_reader o = false ->
    oc_abs (step st o) = d_step (abss st) o.
Proof.
  intros st o Ho. destruct (is_observer o) eqn:Hobs; [|apply step_abs_core; exact Hobs].
  destruct o; try discriminate. unfold d_step. cbn [step d_step_g].
  destruct (related t1 t2); [reflexivity|]. rewrite <- !st_get_abs.
  destruct (st_get st t1) as [v1|]; [|reflexivity]. destruct (st_get st t2) as [v2|]; [|reflexivity].
  cbn [oabs option_map]. rewrite <- group_by_abs. destruct (group_by v2 k) as [ok [g|]]; unfold gb_abs; cbn [fst snd oabs option_map].
  - rewrite <- st_set_abs. destruct (st_set st t1 g); reflexivity.
  - reflexivity.
Qed.

(* the state a history ends in (reads do not change it) *)
Fixpoint final (st : state) (ops : list op) : outcome state :=
  match ops with
  | [] => Done st []
  | o :: r =>
    match step st o with
    | Done st' _ => final st' r
    | Skipped => final st r
    | Unspec => Unspec
    end
  end.
Fixpoint d_final (st : dstate) (ops : list op) : outcome dstate :=
  match ops with
  | [] => Done st []
  | o :: r =>
    match d_step st o with
    | Done st' _ => d_final st' r
    | Skipped => d_final st r
    | Unspec => Unspec
    end
  end.

Lemma reader_step : forall st o, is_reader o = true ->
    (step st o = Skipped \/ exists out, step st o = Done st out)
    /\ (d_step (abss st) o = Skipped \/ exists out, d_step (abss st) o = Done (abss st) out)
    /\ (step st o = Skipped <-> d_step (abss st) o = Skipped).
Proof.
  intros st o Ho. destruct o; try discriminate; unfold d_step; cbn [step d_step_g];
    rewrite <- st_get_abs; destruct (st_get st t) as [v|]; cbn [oabs option_map];
      (split; [|split]); try (left; reflexivity); try (right; eexists; reflexivity);
        split; intros H; try discriminate; reflexivity.
Qed.

Theorem history_refines : forall ops st,
    oc_abs (final st ops) = d_final (abss st) ops.
Proof.
  induction ops as [|o r IH]; intros st; [reflexivity|].
  cbn [final d_final]. destruct (is_reader o) eqn:Hr.
  - destruct (reader_step st o Hr) as [[H1|[out1 H1]] [[H2|[out2 H2]] H3]]; rewrite H1, H2.
    + apply IH.
    + apply H3 in H1. rewrite H1 in H2. discriminate.
    + apply H3 in H2. rewrite H2 in H1. discriminate.
    + apply IH.
  - rewrite <- (step_abs st o Hr). destruct (step st o) as [st' out| |]; cbn [oc_abs]; [apply IH|apply IH|reflexivity].
Qed.

(* a moved-from value is Undefined (its stale payload is never read: no model
   function inspects the argument of Undef) *)
Lemma moved_from_undefined : forall v1 v2 k,
    is_undef (snd (append_v true v1 v2)) = true
    /\ is_undef (snd (merge_v true v1 v2)) = true
    /\ is_undef (snd (insert_v v1 k v2)) = true.
Proof.
  intros v1 v2 k. split; [|split; reflexivity].
  unfold append_v. destruct v1; destruct v2; reflexivity.
Qed.

Lemma move_assign_leaves_undefined : forall v1 v2 : value,
    forall st t1 t2 ctor, same_target t1 t2 = false -> src_is_ancestor t1 t2 = false ->
    st_get st t1 = Some v1 -> st_get st t2 = Some v2 ->
    step st (OMove t1 t2 ctor) =
    match st_set st t2 (Undef (stale_of v2)) with
    | Some st1 => match st_set st1 t1 v2 with Some st2 => Done st2 [] | None => Skipped end
    | None => Skipped
    end.
Proof.
  intros v1 v2 st t1 t2 ctor Hs Ha H1 H2. cbn [step]. unfold assign_op. rewrite H1, H2, Hs, Ha. reflexivity.
Qed.

(* non-vacuity: a history with a keyed write, a removal (tombstone), a copy
   (which drops it) and a move; the specification reaches the expected documents *)
Local Open Scope N_scope.
Example history_example :
  d_final d_init
    [OKeyW (O, []) [97] (Some (SUInt 1)); OKeyW (O, []) [98] (Some STrue); ORemove (O, []) [97];
     OCopy (1%nat, []) (O, []) false; OMove (2%nat, []) (O, []) false; OIdxW (1%nat, []) O (Some SNull)]
  = Done [DUndef; DObj false [([98], DSc SNull)]; DObj true [([98], DSc STrue)]] [].
Proof. reflexivity. Qed.
Example history_example_model :
  oc_abs (final init_state
    [OKeyW (O, []) [97] (Some (SUInt 1)); OKeyW (O, []) [98] (Some STrue); ORemove (O, []) [97];
     OCopy (1%nat, []) (O, []) false; OMove (2%nat, []) (O, []) false; OIdxW (1%nat, []) O (Some SNull)])
  = Done [DUndef; DObj false [([98], DSc SNull)]; DObj true [([98], DSc STrue)]] [].
Proof. reflexivity. Qed.
(* the same positional write on the object that still holds the removed entry is unspecified *)
Example unspecified_example :
  final init_state [OKeyW (O, []) [97] (Some (SUInt 1)); ORemove (O, []) [97]; OIdxW (O, []) O (Some SNull)] = Unspec.
Proof. reflexivity. Qed.
