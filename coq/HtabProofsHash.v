(* HtabProofsHash.v -- C13: the modelled StringUtils::Hash never runs out of fuel,
   stays below 2^32 and always has bit 31 set (so it is never 0, the tombstone mark). *)
From Coq Require Import List NArith Arith Bool Lia ZifyBool ZifyNat ZifyN.
From Qv Require Import HtabModel.
Import ListNotations.
Local Open Scope N_scope.

Lemma hash_loop_fuel : forall fuel key hash base offset length,
  (N.to_nat (length - offset) < fuel)%nat -> hash < w32 ->
  exists h, hash_loop fuel key hash base offset length = Some h /\ h < w32.
Proof.
  induction fuel as [|f IH]; intros key hash base offset length Hf Hh; [lia|].
  cbn [hash_loop].
  destruct (offset <? length) eqn:E; [|exists hash; auto].
  assert (Hm : forall x, x mod w32 < w32) by (intros x; apply N.mod_lt; discriminate).
  destruct (negb (offset =? length)); apply IH; try apply Hm; lia.
Qed.

Lemma c13_hash_raw_some : forall key, exists h, c13_hash_raw key = Some h /\ h < w32.
Proof.
  intros key. unfold c13_hash_raw. apply hash_loop_fuel; [lia|reflexivity].
Qed.

Lemma c13_hash_top_bit_l : forall key, N.testbit (c13_hash key) 31 = true /\ c13_hash key < w32.
Proof.
  intros key. unfold c13_hash. destruct (c13_hash_raw_some key) as (h & -> & Hh).
  split.
  - rewrite N.lor_spec. change 2147483648 with (2 ^ 31). rewrite N.pow2_bits_true. apply orb_true_r.
  - change w32 with (2 ^ 32) in *. change 2147483648 with (2 ^ 31).
    destruct (N.eq_dec (N.lor h (2 ^ 31)) 0) as [->|Hnz]; [reflexivity|].
    apply N.log2_lt_pow2; [lia|]. rewrite N.log2_lor.
    assert (N.log2 h < 32).
    { destruct (N.eq_dec h 0) as [->|Hh0]; [reflexivity|]. apply N.log2_lt_pow2; lia. }
    rewrite N.log2_pow2 by lia. lia.
Qed.

Lemma c13_hash_nonzero_l : forall key, c13_hash key <> 0.
Proof.
  intros key Hz. destruct (c13_hash_top_bit_l key) as [Hb _]. rewrite Hz in Hb. discriminate.
Qed.

Example c13_hash_empty : c13_hash [] = 2147483659. Proof. reflexivity. Qed.
Example c13_hash_ab0x : c13_hash [97; 98; 0; 200] = 2147490092. Proof. vm_compute. reflexivity. Qed.
