(* Extract_value.v -- extraction of the Value model, the document specification
   and the C12 / C18 oracles to OCaml (ExtrOcamlBasic only). *)
From Coq Require Import Extraction ExtrOcamlBasic NArith ZArith.
From Qv Require Import ValueModel.
Extraction Language OCaml.
Set Extraction Optimize.
Extraction "model_value.ml"
  N.add N.mul N.sub N.div_eucl N.compare Z.add Z.mul Z.sub Z.div_eucl Z.compare Z.of_N Z.to_N Z.opp
  ValueModel.run_model ValueModel.run_spec ValueModel.plan_model ValueModel.c12_oracle
  ValueModel.c18_oracle.
