(* TfullExpr.v -- C02 on the faithful models, parser half, expressions: parseExpressions of the parser model on the printed
   text of an expression of the integer fragment (naturals, {var:path}, parenthesised binary expressions) builds exactly
   [qexpr_of env off e]. *)
From Coq Require Import NArith ZArith List Bool Arith Lia ZifyBool ZifyNat ZifyN.
From Qv Require Import gen.Tables gen.Tables_tmpl gen.Tables_expr gen.Tables_digit gen.Tables_tparse EscapeModel
  TmplModel TmplRender TmplProofs TparseModel TparseRound TrenderModel TfullModel TfullSem TfullParse.
Import ListNotations.
Ltac Zify.zify_post_hook ::= Z.div_mod_to_equations.

(* ---- the decimal text of a natural ---- *)
Definition isdig (c : N) : bool := N.leb 48 c && N.leb c 57.

Lemma dec_go_S : forall k n acc, dec_go (S k) n acc =
  if (n <? 10)%N then (48 + n)%N :: acc else dec_go k (n / 10)%N ((48 + n mod 10)%N :: acc).
Proof. reflexivity. Qed.

Lemma dec_go_spec : forall k n acc, (n < 10 ^ N.of_nat (S k))%N ->
  exists s, dec_go (S k) n acc = s ++ acc /\ s <> [] /\ forallb isdig s = true.
Proof.
  intros k; induction k as [|k IH]; intros n acc Hn.
  - rewrite dec_go_S. change (10 ^ N.of_nat 1)%N with 10%N in Hn. destruct (N.ltb_spec n 10) as [_|X]; [|lia].
    exists [(48 + n)%N]. split; [reflexivity|]. split; [discriminate|]. cbn [forallb]. unfold isdig. lia.
  - rewrite dec_go_S. destruct (N.ltb_spec n 10) as [H10|H10].
    + exists [(48 + n)%N]. split; [reflexivity|]. split; [discriminate|]. cbn [forallb]. unfold isdig. lia.
    + assert (Hd : (n / 10 < 10 ^ N.of_nat (S k))%N).
      { apply N.div_lt_upper_bound; [lia|]. replace (N.of_nat (S (S k))) with (N.succ (N.of_nat (S k))) in Hn by lia.
        rewrite N.pow_succ_r' in Hn. exact Hn. }
      destruct (IH (n / 10)%N ((48 + n mod 10)%N :: acc) Hd) as (s & E & Hne & Hdg).
      exists (s ++ [(48 + n mod 10)%N]). split; [rewrite E, <- app_assoc; reflexivity|]. split; [destruct s; discriminate|].
      rewrite forallb_app, Hdg. cbn [forallb]. unfold isdig. assert (n mod 10 < 10)%N by (apply N.mod_lt; lia). lia.
Qed.

Lemma dec_digits : forall n, dec n <> [] /\ forallb isdig (dec n) = true.
Proof.
  intros n. unfold dec.
  destruct (dec_go_spec (N.to_nat (N.size n)) n []) as (s & E & Hne & Hdg).
  - replace (N.of_nat (S (N.to_nat (N.size n)))) with (N.succ (N.size n)) by lia.
    destruct n as [|p]; [cbn; lia|]. pose proof (N.size_gt (N.pos p)) as H1.
    assert (H2 : (2 ^ N.size (N.pos p) <= 10 ^ N.size (N.pos p))%N) by (apply N.pow_le_mono_l; lia).
    assert (H3 : (10 ^ N.size (N.pos p) <= 10 ^ N.succ (N.size (N.pos p)))%N) by (apply N.pow_le_mono_r; lia).
    lia.
  - rewrite E, app_nil_r. split; assumption.
Qed.

(* ---- slices of a known piece ---- *)
Lemma at_slice : forall content s o, at_ content o s -> slice content o (o + length s) = s.
Proof.
  intros content s o H. unfold slice. replace (o + length s - o) with (length s) by lia.
  revert o H. induction s as [|x s IH]; intros o H; [reflexivity|].
  assert (H0 : nth_error content o = Some x) by (apply (at_nth _ _ _ H 0 x eq_refl); lia).
  assert (Hs : skipn o content = x :: skipn (S o) content).
  { clear - H0. revert o H0. induction content as [|c t IHc]; intros [|o] H0; try discriminate H0.
    - cbn in H0. injection H0 as ->. reflexivity.
    - cbn [skipn]. apply IHc. exact H0. }
  rewrite Hs. cbn [length firstn]. f_equal. apply IH.
  intros k Hk. replace (S o + k) with (o + S k) by lia. apply (H (S k)). cbn; lia.
Qed.

(* ---- getOperation ---- *)
(* a unit getOperation steps over *)
Definition gplain (c : N) : bool :=
  negb (N.eqb c sym_Or) && negb (N.eqb c sym_And) && negb (N.eqb c sym_Greater) && negb (N.eqb c sym_Less) &&
  negb (N.eqb c sym_Not) && negb (N.eqb c sym_Equal) && negb (N.eqb c sym_Subtract) && negb (N.eqb c sym_Add) &&
  negb (N.eqb c sym_Divide) && negb (N.eqb c sym_Multiple) && negb (N.eqb c sym_Remainder) && negb (N.eqb c sym_Exponent) &&
  negb (N.eqb c sym_ParenStart) && negb (N.eqb c sym_BracketStart).

Section Expr.
  Variable content : list N.

  Lemma go_plain : forall f o e c, nth_error content o = Some c -> gplain c = true -> o < e ->
    get_operation content (S f) o e = get_operation content f (S o) e.
  Proof.
    intros f o e c Hc Hp He. cbn [get_operation]. destruct (Nat.ltb_spec o e) as [_|X]; [|lia].
    rewrite (rd_at content 22 o c Hc). cbn [bind].
    unfold gplain in Hp. repeat (apply andb_prop in Hp; destruct Hp as [Hp ?]).
    repeat match goal with X : negb _ = true |- _ => apply negb_true_iff in X; rewrite X; clear X end.
    reflexivity.
  Qed.

  Lemma go_run : forall s f o e, at_ content o s -> forallb gplain s = true -> o + length s <= e ->
    get_operation content (length s + f) o e = get_operation content f (o + length s) e.
  Proof.
    intros s; induction s as [|x s IH]; intros f o e Ha Hp He; [cbn [length Nat.add]; rewrite Nat.add_0_r; reflexivity|].
    cbn [forallb length] in *. apply andb_prop in Hp. destruct Hp as [Hx Hp].
    cbn [Nat.add]. rewrite (go_plain _ o e x); [|apply (at_nth _ _ _ Ha 0 x eq_refl); lia|exact Hx|lia].
    replace (o + S (length s)) with (S o + length s) by lia. apply IH; [|exact Hp|lia].
    intros k Hk. replace (S o + k) with (o + S k) by lia. apply (Ha (S k)). cbn; lia.
  Qed.

  Lemma go_end : forall f e, get_operation content f e e = Ok (op_NoOp, e).
  Proof. intros f e. destruct f; cbn [get_operation]; rewrite Nat.ltb_irrefl; reflexivity. Qed.

  (* ---- the parenthesis skip of getOperation ---- *)
  Fixpoint pdepth (s : list N) (k : N) : option N :=
    match s with
    | [] => Some k
    | c :: r =>
      if N.eqb c sym_ParenEnd then (if N.eqb k 0 then None else pdepth r (k - 1))
      else if N.eqb c sym_ParenStart then pdepth r (k + 1) else pdepth r k
    end.
  Definition pch (c : N) : bool := negb (N.eqb c 40) && negb (N.eqb c 41).

  Lemma pdepth_app : forall s t k, pdepth (s ++ t) k = match pdepth s k with Some k' => pdepth t k' | None => None end.
  Proof.
    intros s; induction s as [|c r IH]; intros t k; [reflexivity|]. cbn [app pdepth].
    destruct (N.eqb c sym_ParenEnd); [destruct (N.eqb k 0); [reflexivity|apply IH]|].
    destruct (N.eqb c sym_ParenStart); apply IH.
  Qed.
  Lemma pdepth_plain : forall s k, forallb pch s = true -> pdepth s k = Some k.
  Proof.
    intros s; induction s as [|c r IH]; intros k H; [reflexivity|]. cbn [forallb] in H. apply andb_prop in H. destruct H as [Hc Hr].
    unfold pch in Hc. apply andb_prop in Hc. destruct Hc as [H40 H41]. apply negb_true_iff in H40, H41.
    cbn [pdepth]. unfold sym_ParenEnd, sym_ParenStart. rewrite H40, H41. apply IH. exact Hr.
  Qed.

  Lemma sp_scan : forall s fuel o e k k', at_ content o s -> pdepth s k = Some k' -> o + length s <= e -> length s <= fuel ->
    skip_paren content fuel o e k = skip_paren content (fuel - length s) (o + length s) e k'.
  Proof.
    intros s; induction s as [|c r IH]; intros fuel o e k k' Ha Hp He Hf.
    - cbn [length pdepth] in *. injection Hp as <-. rewrite Nat.add_0_r, Nat.sub_0_r. reflexivity.
    - cbn [length] in *. destruct fuel as [|f]; [lia|]. cbn [skip_paren]. destruct (Nat.ltb_spec o e) as [_|X]; [|lia].
      rewrite (rd_at content 21 o c) by (apply (at_nth _ _ _ Ha 0 c eq_refl); lia). cbn [bind].
      assert (Ha' : at_ content (S o) r).
      { intros j Hj. replace (S o + j) with (o + S j) by lia. apply (Ha (S j)). cbn; lia. }
      replace (S f - S (length r)) with (f - length r) by lia. replace (o + S (length r)) with (S o + length r) by lia.
      cbn [pdepth] in Hp.
      destruct (N.eqb c sym_ParenEnd).
      + destruct (N.eqb k 0); [discriminate Hp|]. apply IH; try assumption; lia.
      + destruct (N.eqb c sym_ParenStart); apply IH; try assumption; lia.
  Qed.

  (* ---- characters of a printed operand ---- *)
  Fixpoint pok (e : expr) : bool :=
    match e with
    | ENum n => N.ltb n 10000000000000000000
    | EVar p => wf_epath p
    | EBin op a b => N.leb op 10 && pok a && pok b
    end.
  Lemma wf_expr_pok : forall names e, wf_expr names e = true -> pok e = true.
  Proof.
    intros names e; induction e as [n|p|op a IHa b IHb]; intros H; cbn [wf_expr pok] in *; [exact H| |].
    - apply andb_prop in H. exact (proj1 H).
    - apply andb_prop in H. destruct H as [H Hb]. apply andb_prop in H. destruct H as [Ho Ha].
      rewrite Ho, (IHa Ha), (IHb Hb). reflexivity.
  Qed.

  Lemma op_text_cases : forall op, (op <= 10)%N ->
    (op_text op = [43] /\ opq op = op_Addition \/ op_text op = [45] /\ opq op = op_Subtraction \/
     op_text op = [42] /\ opq op = op_Multiplication \/ op_text op = [61; 61] /\ opq op = op_Equal \/
     op_text op = [33; 61] /\ opq op = op_NotEqual \/ op_text op = [60] /\ opq op = op_Less \/
     op_text op = [62] /\ opq op = op_Greater \/ op_text op = [60; 61] /\ opq op = op_LessOrEqual \/
     op_text op = [62; 61] /\ opq op = op_GreaterOrEqual \/ op_text op = [38; 38] /\ opq op = op_And \/
     op_text op = [124; 124] /\ opq op = op_Or)%N.
  Proof.
    intros op H. destruct op as [|p]; [left; split; reflexivity|].
    do 4 (try destruct p as [p|p|]); cbn; try lia; tauto.
  Qed.
  Lemma op_text_pch : forall op, forallb pch (op_text op) = true.
  Proof. intros op. destruct op as [|p]; [reflexivity|]. do 4 (try destruct p as [p|p|]); reflexivity. Qed.

  Lemma isdig_pch : forall s, forallb isdig s = true -> forallb pch s = true.
  Proof.
    intros s H. apply forallb_forall. intros c Hc. rewrite forallb_forall in H. specialize (H c Hc). unfold isdig in H. unfold pch.
    destruct (N.eqb_spec c 40), (N.eqb_spec c 41); cbn; lia.
  Qed.
  Lemma isdig_gplain : forall s, forallb isdig s = true -> forallb gplain s = true.
  Proof.
    intros s H. apply forallb_forall. intros c Hc. rewrite forallb_forall in H. specialize (H c Hc). unfold isdig in H.
    unfold gplain, sym_Or, sym_And, sym_Greater, sym_Less, sym_Not, sym_Equal, sym_Subtract, sym_Add, sym_Divide, sym_Multiple,
      sym_Remainder, sym_Exponent, sym_ParenStart, sym_BracketStart.
    repeat (apply andb_true_intro; split); apply negb_true_iff; apply N.eqb_neq; lia.
  Qed.

  Lemma epath_pch : forall p, wf_epath p = true -> forallb pch (print_path p) = true.
  Proof. intros p H. unfold wf_epath in H. apply andb_prop in H. exact (proj2 H). Qed.
  Lemma epath_wf : forall p, wf_epath p = true -> TfullModel.wf_path p = true.
  Proof. intros p H. unfold wf_epath in H. apply andb_prop in H. exact (proj1 H). Qed.

  Lemma pdepth_operand : forall a k, pok a = true -> pdepth (print_operand a) k = Some k.
  Proof.
    intros a; induction a as [n|p|op a IHa b IHb]; intros k H; cbn [pok print_operand] in *.
    - apply pdepth_plain. apply isdig_pch. apply (dec_digits n).
    - apply pdepth_plain. repeat rewrite forallb_app. rewrite (epath_pch p H). reflexivity.
    - apply andb_prop in H. destruct H as [H Hb]. apply andb_prop in H. destruct H as [Ho Ha].
      cbn [app pdepth]. change (N.eqb 40 sym_ParenEnd) with false. change (N.eqb 40 sym_ParenStart) with true. cbv iota.
      rewrite pdepth_app, (IHa _ Ha). cbn [app pdepth]. change (N.eqb 32 sym_ParenEnd) with false. change (N.eqb 32 sym_ParenStart) with false. cbv iota.
      rewrite pdepth_app, (pdepth_plain _ _ (op_text_pch op)). cbn [app pdepth].
      change (N.eqb 32 sym_ParenEnd) with false. change (N.eqb 32 sym_ParenStart) with false. cbv iota.
      rewrite pdepth_app, (IHb _ Hb). cbn [pdepth]. change (N.eqb 41 sym_ParenEnd) with true. cbv iota.
      destruct (N.eqb_spec (k + 1) 0) as [Z|_]; [lia|]. f_equal. lia.
  Qed.

  (* ---- getOperation steps over a printed operand ---- *)
  Definition gsteps (e : expr) : nat := match e with ENum n => length (dec n) | _ => 2 end.
  Lemma gsteps_le : forall e, gsteps e <= length (print_operand e).
  Proof.
    intros [n|p|op a b]; cbn [gsteps print_operand]; [lia| |]; repeat rewrite app_length; cbn [length s_var_open s_close]; lia.
  Qed.

  Ltac casc := cbv beta iota zeta delta [sym_Or sym_And sym_Greater sym_Less sym_Not sym_Equal sym_Subtract sym_Add sym_Divide
                                         sym_Multiple sym_Remainder sym_Exponent sym_ParenStart sym_BracketStart N.eqb Pos.eqb].

  Lemma go_operand : forall a f o e, at_ content o (print_operand a) -> pok a = true -> o + length (print_operand a) <= e ->
    get_operation content (gsteps a + f) o e = get_operation content f (o + length (print_operand a)) e.
  Proof.
    intros a f o e Ha Hok He. destruct a as [n|p|op a b]; cbn [gsteps print_operand pok] in *.
    - apply go_run; [exact Ha|apply isdig_gplain; apply (dec_digits n)|exact He].
    - (* {var:path} *)
      set (pp := print_path p) in *. pose proof (epath_wf p Hok) as Hw.
      repeat rewrite app_length in *. cbn [length s_var_open s_close] in *.
      cbn [Nat.add]. remember (S f) as g eqn:Eg. cbn [get_operation]. destruct (Nat.ltb_spec o e) as [_|X]; [|lia].
      rewrite (rd_at content 22 o 123%N) by (apply (at_nth _ _ _ Ha 0 123%N eq_refl); lia). cbn [bind]. casc.
      unfold skip_ne_do.
      rewrite (skip_ne_run content 24 sym_BracketEnd ([118;97;114;58]%N ++ pp) (S o) e).
      + rewrite app_length. cbn [length bind].
        destruct (Nat.ltb_spec (S o + (4 + length pp)) e) as [_|X]; [|lia].
        subst g. rewrite (go_plain _ (S o + (4 + length pp)) e 125%N); [f_equal; lia| |reflexivity|lia].
        apply (at_nth _ _ _ Ha (5 + length pp) 125%N); [|lia].
        change s_var_open with [123;118;97;114;58]%N. cbn [app nth_error Nat.add]. rewrite nth_error_app2 by lia. rewrite Nat.sub_diag. reflexivity.
      + apply (at_sub _ _ _ Ha [123%N] ([118;97;114;58]%N ++ pp) s_close); [reflexivity|cbn; lia].
      + intros Hin. cbn [app] in Hin. repeat (destruct Hin as [Hin|Hin]; [discriminate Hin|]).
        revert Hin. apply print_path_no; [exact Hw|discriminate|discriminate|reflexivity].
      + rewrite app_length. cbn [length].
        apply (at_nth _ _ _ Ha (5 + length pp) 125%N); [|lia].
        change s_var_open with [123;118;97;114;58]%N. cbn [app nth_error Nat.add]. rewrite nth_error_app2 by lia. rewrite Nat.sub_diag. reflexivity.
      + rewrite app_length. cbn [length]. lia.
    - (* ( a op b ) *)
      apply andb_prop in Hok. destruct Hok as [Hok Hb]. apply andb_prop in Hok. destruct Hok as [Ho Hoa].
      set (inner := print_operand a ++ [32%N] ++ op_text op ++ [32%N] ++ print_operand b) in *.
      assert (Hpo : [40%N] ++ print_operand a ++ [32%N] ++ op_text op ++ [32%N] ++ print_operand b ++ [41%N] = [40%N] ++ inner ++ [41%N])
        by (unfold inner; repeat rewrite <- app_assoc; reflexivity).
      rewrite Hpo in *. repeat rewrite app_length in *. cbn [length] in *.
      assert (Hpd : pdepth inner 0 = Some 0%N).
      { unfold inner. rewrite pdepth_app, (pdepth_operand a 0 Hoa). cbn [app pdepth].
        change (N.eqb 32 sym_ParenEnd) with false. change (N.eqb 32 sym_ParenStart) with false. cbv iota.
        rewrite pdepth_app, (pdepth_plain _ _ (op_text_pch op)). cbn [app pdepth].
        change (N.eqb 32 sym_ParenEnd) with false. change (N.eqb 32 sym_ParenStart) with false. cbv iota.
        apply (pdepth_operand b 0 Hb). }
      cbn [Nat.add]. remember (S f) as g eqn:Eg. cbn [get_operation]. destruct (Nat.ltb_spec o e) as [_|X]; [|lia].
      rewrite (rd_at content 22 o 40%N) by (apply (at_nth _ _ _ Ha 0 40%N eq_refl); lia). cbn [bind]. casc.
      rewrite (sp_scan inner (e - S o) (S o) e 0%N 0%N); [| |exact Hpd|lia|lia].
      2:{ apply (at_sub _ _ _ Ha [40%N] inner [41%N]); [reflexivity|cbn; lia]. }
      assert (H41 : nth_error content (S o + length inner) = Some 41%N).
      { apply (at_nth _ _ _ Ha (1 + length inner) 41%N); [|lia]. cbn [app Nat.add nth_error]. rewrite nth_error_app2 by lia. rewrite Nat.sub_diag. reflexivity. }
      destruct (e - S o - length inner) as [|g'] eqn:Eg'; [lia|]. cbn [skip_paren].
      destruct (Nat.ltb_spec (S o + length inner) e) as [_|X]; [|lia].
      rewrite (rd_at content 21 _ 41%N H41). cbn [bind]. change (N.eqb 41 sym_ParenEnd) with true. cbv iota. cbn [N.eqb bind].
      destruct (Nat.ltb_spec (S o + length inner) e) as [_|X]; [|lia].
      subst g. rewrite (go_plain _ (S o + length inner) e 41%N H41); [f_equal; lia|reflexivity|lia].
  Qed.

  (* ---- the operator after an operand ---- *)
  Definition endc (c : N) : Prop := c = 41%N \/ c = 125%N \/ isdig c = true.

  Lemma last_operand : forall a, pok a = true ->
    exists c, nth_error (print_operand a) (length (print_operand a) - 1) = Some c /\ endc c.
  Proof.
    intros a H. destruct a as [n|p|op a b]; cbn [print_operand].
    - destruct (dec_digits n) as [Hne Hd]. destruct (nth_error (dec n) (length (dec n) - 1)) as [c|] eqn:E.
      + exists c. split; [reflexivity|]. right; right. rewrite forallb_forall in Hd. apply Hd. apply (nth_error_In _ _ E).
      + apply nth_error_None in E. destruct (dec n); [contradiction|cbn in E; lia].
    - exists 125%N. split; [|right; left; reflexivity]. repeat rewrite app_length. cbn [length s_var_open s_close].
      change s_var_open with [123;118;97;114;58]%N. cbn [app].
      replace (5 + (length (print_path p) + 1) - 1) with (S (S (S (S (S (length (print_path p))))))) by lia. cbn [nth_error].
      rewrite nth_error_app2 by lia. rewrite Nat.sub_diag. reflexivity.
    - exists 41%N. split; [|left; reflexivity].
      replace ([40%N] ++ print_operand a ++ [32%N] ++ op_text op ++ [32%N] ++ print_operand b ++ [41%N])
        with (([40%N] ++ print_operand a ++ [32%N] ++ op_text op ++ [32%N] ++ print_operand b) ++ [41%N])
        by (repeat rewrite <- app_assoc; reflexivity).
      rewrite app_length. cbn [length]. rewrite nth_error_app2 by lia.
      replace (_ + 1 - 1 - _) with 0 by lia. reflexivity.
  Qed.

  Lemma is_expr_after : forall q c, nth_error content q = Some c -> endc c -> nth_error content (S q) = Some 32%N ->
    is_expression content (S (S q)) = Ok true.
  Proof.
    intros q c Hc He Hs. cbn [is_expression]. rewrite (rd_at content 20 (S q) 32%N Hs). cbn [bind].
    change (N.eqb 32 sym_Space) with true. cbv iota. rewrite (rd_at content 20 q c Hc). cbn [bind].
    destruct He as [->|[->|Hd]]; [reflexivity|reflexivity|].
    unfold isdig in Hd. unfold sym_Space, sym_ParenEnd, sym_BracketEnd, dg_Zero, dg_Nine.
    destruct (N.eqb_spec c 32) as [X|_]; [lia|]. destruct (N.eqb_spec c 41) as [X|_]; [lia|]. destruct (N.eqb_spec c 125) as [X|_]; [lia|].
    cbn [orb]. rewrite Hd. reflexivity.
  Qed.

  Lemma go_op : forall op f p e q c, p = S (S q) -> nth_error content q = Some c -> endc c -> nth_error content (S q) = Some 32%N ->
    at_ content p (op_text op ++ [32%N]) -> (op <= 10)%N -> p + length (op_text op) < e ->
    get_operation content (S f) p e = Ok (opq op, p).
  Proof.
    intros op f p e q c Hp Hc Hec Hs Ha Hop He.
    assert (Hie : is_expression content p = Ok true) by (rewrite Hp; apply (is_expr_after q c Hc Hec Hs)).
    assert (R0 : forall x, nth_error (op_text op ++ [32%N]) 0 = Some x -> nth_error content p = Some x)
      by (intros x Hx; apply (at_nth _ _ _ Ha 0 x Hx); lia).
    assert (R1 : forall x, nth_error (op_text op ++ [32%N]) 1 = Some x -> nth_error content (S p) = Some x)
      by (intros x Hx; apply (at_nth _ _ _ Ha 1 x Hx); lia).
    remember f as g eqn:Eg.
    destruct (op_text_cases op Hop) as [[E1 E2]|[[E1 E2]|[[E1 E2]|[[E1 E2]|[[E1 E2]|[[E1 E2]|[[E1 E2]|[[E1 E2]|[[E1 E2]|[[E1 E2]|[E1 E2]]]]]]]]]]];
      rewrite E1 in *; rewrite E2; cbn [length app] in *;
      cbn [get_operation]; (destruct (Nat.ltb_spec p e) as [_|X]; [|lia]);
      rewrite (rd_at content 22 p _ (R0 _ eq_refl)); cbn [bind]; casc;
      try (destruct (Nat.ltb_spec (S p) e) as [_|X]; [|lia]; rewrite (rd_at content 23 (S p) _ (R1 _ eq_refl)); cbn [bind]; casc);
      try (rewrite Hie; cbn [bind]); reflexivity.
  Qed.

  (* ---- trimming ---- *)
  Lemma trim_right_stop : forall f offset e c, nth_error content (e - 1) = Some c -> is_ws c = false -> offset < e ->
    trim_right content (S f) offset e = Ok e.
  Proof.
    intros f offset e c Hc Hw He. cbn [trim_right]. destruct (Nat.ltb_spec offset e) as [_|X]; [|lia].
    rewrite (rd_at content 26 _ c Hc). cbn [bind]. rewrite Hw. reflexivity.
  Qed.
  Lemma trim_right_one : forall f offset e c, nth_error content (e - 1) = Some 32%N -> nth_error content (e - 1 - 1) = Some c ->
    is_ws c = false -> offset < e - 1 -> trim_right content (S (S f)) offset e = Ok (e - 1).
  Proof.
    intros f offset e c H32 Hc Hw He. remember (S f) as g. cbn [trim_right]. destruct (Nat.ltb_spec offset e) as [_|X]; [|lia].
    rewrite (rd_at content 26 _ 32%N H32). cbn [bind]. change (is_ws 32) with true. cbv iota. subst g.
    apply (trim_right_stop f offset (e - 1) c Hc Hw He).
  Qed.

  Lemma endc_not_ws : forall c, endc c -> is_ws c = false.
  Proof.
    intros c [->|[->|H]]; [reflexivity|reflexivity|]. unfold isdig in H. unfold is_ws, ws_Space, ws_Line, ws_Tab, ws_Carriage.
    destruct (N.eqb_spec c 32), (N.eqb_spec c 10), (N.eqb_spec c 9), (N.eqb_spec c 13); cbn; lia.
  Qed.

  Lemma first_operand : forall a, pok a = true ->
    exists c r, print_operand a = c :: r /\ is_ws c = false /\
      match a with ENum _ => isdig c = true | EVar _ => c = 123%N | EBin _ _ _ => c = 40%N end.
  Proof.
    intros a H. destruct a as [n|p|op a b]; cbn [print_operand].
    - destruct (dec_digits n) as [Hne Hd]. destruct (dec n) as [|c r]; [contradiction|]. exists c, r. split; [reflexivity|].
      cbn [forallb] in Hd. apply andb_prop in Hd. destruct Hd as [Hc _]. split; [|exact Hc].
      apply endc_not_ws. right; right. exact Hc.
    - eexists _, _. split; [reflexivity|]. split; reflexivity.
    - eexists _, _. split; [reflexivity|]. split; reflexivity.
  Qed.

  Variable numf : list N -> N * N * nat.
  (* ---- unfolding equations ---- *)
  Lemma parse_expressions_S : forall f offset e chain,
    parse_expressions numf content (S f) offset e chain = pe_loop numf content f offset e chain [] op_NoOp.
  Proof. reflexivity. Qed.
  Lemma pe_loop_S : forall f offset e chain acc last_oper,
    pe_loop numf content (S f) offset e chain acc last_oper =
    if offset <? e then
      bind (get_operation content (S (e - offset)) offset e) (fun r =>
        let oper := fst r in let off2 := snd r in
        if N.eqb oper op_Error then Ok []
        else
          bind (parse_value numf content f oper last_oper offset off2 chain acc) (fun pv =>
            match pv with
            | None => Ok []
            | Some acc' =>
              let off3 := S off2 + (if N.ltb oper op_Greater then 1 else 0) in
              pe_loop numf content f off3 e chain acc' oper
            end))
    else if e <? offset then Ok (rev acc) else Ok [].
  Proof. reflexivity. Qed.
  Lemma parse_value_S : forall f oper last_oper offset e chain acc,
    parse_value numf content (S f) oper last_oper offset e chain acc =
    bind (skip_while content 25 is_ws (e - offset) offset e) (fun offset =>
    bind (trim_right content (e - offset) offset e) (fun e =>
      if offset <? e then
        bind (rd content 27 offset) (fun ch =>
          if N.eqb ch sym_ParenStart then
            bind (parse_expressions numf content f (S offset) (e - 1) chain) (fun sub =>
              if negb (N.eqb last_oper oper) || negb (N.eqb oper op_NoOp) then
                match sub with [] => Ok None | _ => Ok (Some (QSub oper sub :: acc)) end
              else
                match sub with [] => Ok None | _ => Ok (Some (rev sub)) end)
          else if N.eqb ch sym_BracketStart then
            if tpp_VariableFullLength <? e - offset then
              let e1 := e - tpp_InLineSuffixLength in
              bind (rd content 28 e1) (fun lastc =>
                if N.eqb lastc tpp_InLineLastChar then
                  let vo := offset + tpp_VariablePrefixLength in
                  bind (check_loop_variable content (mkV vo (t16 (e1 - vo)) 0 0) chain) (fun v =>
                    Ok (Some (QVar oper v :: acc)))
                else Ok None)
            else Ok None
          else
            let '(kind, bits, used) := numf (slice content offset e) in
            if negb (N.eqb kind 0) && (offset + used =? e) then Ok (Some (QNum oper kind bits :: acc))
            else if negb (N.eqb last_oper op_Equal) && negb (N.eqb last_oper op_NotEqual) &&
                    negb (N.eqb oper op_Equal) && negb (N.eqb oper op_NotEqual) then Ok None
            else Ok (Some (QText oper offset (e - offset) :: acc)))
      else Ok None)).
  Proof. reflexivity. Qed.

End Expr.

Section Expr2.
  Variable numf : list N -> N * N * nat.
  Variable content : list N.
  Variable env : list (list N * loopinfo).
  Hypothesis Hnum : forall n, (n < 10000000000000000000)%N -> numf (dec n) = (qn_natural, n, length (dec n)).
  Hypothesis Henv : env_in content env.
  Notation chain := (map snd env).

  Definition wsl (l : list N) : Prop := l = [] \/ l = [32%N].

  Lemma pv_trim : forall s wsb wsa offset e c0 r cl,
    wsl wsb -> wsl wsa -> at_ content offset (wsb ++ s ++ wsa) -> e = offset + length wsb + length s + length wsa ->
    s = c0 :: r -> is_ws c0 = false -> nth_error s (length s - 1) = Some cl -> is_ws cl = false ->
    skip_while content 25 is_ws (e - offset) offset e = Ok (offset + length wsb) /\
    trim_right content (e - (offset + length wsb)) (offset + length wsb) e = Ok (offset + length wsb + length s).
  Proof.
    intros s wsb wsa offset e c0 r cl Hb Ha Hat He Hs Hc0 Hl Hcl.
    assert (Hls : 1 <= length s) by (rewrite Hs; cbn; lia).
    pose proof (at_app _ _ _ _ Hat) as [Hat1 Hat2]. pose proof (at_app _ _ _ _ Hat2) as [Hat3 Hat4].
    assert (H0 : nth_error content (offset + length wsb) = Some c0).
    { apply (at_nth _ _ _ Hat3 0 c0); [rewrite Hs; reflexivity|lia]. }
    assert (Hlast : nth_error content (offset + length wsb + length s - 1) = Some cl).
    { apply (at_nth _ _ _ Hat3 (length s - 1) cl Hl). lia. }
    split.
    - apply (skip_while_run content 25 is_ws wsb (e - offset) offset e c0); try assumption; try lia.
      all: destruct Hb as [->| ->]; cbn [length forallb] in *; try reflexivity; lia.
    - destruct Ha as [->| ->]; cbn [length] in *.
      + replace (e - (offset + length wsb)) with (S (length s - 1)) by lia.
        replace (offset + length wsb + length s) with e by lia.
        apply (trim_right_stop content _ _ e cl); [|exact Hcl|lia].
        replace (e - 1) with (offset + length wsb + length s - 1) by lia. exact Hlast.
      + replace (e - (offset + length wsb)) with (S (S (length s - 1))) by lia.
        replace (offset + length wsb + length s) with (e - 1) by lia.
        apply (trim_right_one content _ _ e cl); [| |exact Hcl|lia].
        * apply (at_nth _ _ _ Hat4 0 32%N eq_refl). lia.
        * replace (e - 1 - 1) with (offset + length wsb + length s - 1) by lia. exact Hlast.
  Qed.

  Fixpoint pvneed (e : expr) : nat :=
    match e with EBin _ a b => 1 + Nat.max (2 + pvneed a) (Nat.max (3 + pvneed b) 4) | _ => 1 end.

  (* atoms *)
  Lemma pv_atom : forall a f oper last offset e wsb wsa acc,
    match a with EBin _ _ _ => False | _ => True end -> pok a = true ->
    wsl wsb -> wsl wsa -> at_ content offset (wsb ++ print_operand a ++ wsa) ->
    e = offset + length wsb + length (print_operand a) + length wsa -> 1 <= f ->
    parse_value numf content f oper last offset e chain acc = Ok (Some (q_operand env oper (offset + length wsb) a :: acc)).
  Proof.
    intros a f oper last offset e wsb wsa acc Hat0 Hok Hb Ha Hat He Hf.
    destruct f as [|f]; [lia|]. rewrite parse_value_S.
    destruct (first_operand a Hok) as (c0 & r & Hs & Hc0 & Hk).
    destruct (last_operand a Hok) as (cl & Hl & Hcl).
    destruct (pv_trim (print_operand a) wsb wsa offset e c0 r cl Hb Ha Hat He Hs Hc0 Hl (endc_not_ws cl Hcl)) as [E1 E2].
    rewrite E1. cbn [bind]. rewrite E2. cbn [bind].
    set (o' := offset + length wsb) in *.
    pose proof (at_app _ _ _ _ Hat) as [_ Hat2]. pose proof (at_app _ _ _ _ Hat2) as [Hat3 _]. fold o' in Hat3.
    assert (Hls : 1 <= length (print_operand a)) by (rewrite Hs; cbn; lia).
    destruct (Nat.ltb_spec o' (o' + length (print_operand a))) as [_|X]; [|lia].
    rewrite (rd_at content 27 o' c0) by (apply (at_nth _ _ _ Hat3 0 c0); [rewrite Hs; reflexivity|lia]). cbn [bind].
    destruct a as [n|p|op a b]; [| |contradiction]; cbn [print_operand pok q_operand] in *.
    - (* number *)
      unfold isdig in Hk. unfold sym_ParenStart, sym_BracketStart.
      destruct (N.eqb_spec c0 40) as [X|_]; [lia|]. destruct (N.eqb_spec c0 123) as [X|_]; [lia|].
      rewrite (at_slice content (dec n) o' Hat3). rewrite (Hnum n) by (apply N.ltb_lt; exact Hok).
      change (N.eqb qn_natural 0) with false. cbn [negb andb]. rewrite Nat.eqb_refl. reflexivity.
    - (* variable *)
      subst c0. change (N.eqb 123 sym_ParenStart) with false. change (N.eqb 123 sym_BracketStart) with true. cbv iota.
      set (pp := print_path p) in *. pose proof (epath_wf p Hok) as Hw. pose proof (wf_path_len p Hw) as Hpl. fold pp in Hpl.
      repeat rewrite app_length in *. cbn [length s_var_open s_close] in *.
      unfold tpp_VariableFullLength, tpp_InLineSuffixLength, tpp_VariablePrefixLength.
      destruct (Nat.ltb_spec 6 (o' + (5 + (length pp + 1)) - o')) as [_|X]; [|lia].
      rewrite (rd_at content 28 _ 125%N).
      2:{ apply (at_nth _ _ _ Hat3 (5 + length pp) 125%N); [|lia].
          change s_var_open with [123;118;97;114;58]%N. cbn [app nth_error Nat.add]. rewrite nth_error_app2 by lia. rewrite Nat.sub_diag. reflexivity. }
      cbn [bind]. change (N.eqb 125 tpp_InLineLastChar) with true. cbv iota.
      replace (o' + (5 + (length pp + 1)) - 1 - (o' + 5)) with (length pp) by lia. rewrite t16_small by lia.
      rewrite (clv_annot content env (o' + 5) (N.of_nat (length pp)) pp 125%N Henv); [| |reflexivity].
      + cbn [bind]. unfold vt_of. fold pp. reflexivity.
      + apply (at_sub _ _ _ Hat3 s_var_open (pp ++ [125%N]) []); [rewrite app_nil_r; reflexivity|cbn; lia].
  Qed.

  Definition PV (a : expr) : Prop := forall f oper last offset e wsb wsa acc,
    wsl wsb -> wsl wsa -> at_ content offset (wsb ++ print_operand a ++ wsa) ->
    e = offset + length wsb + length (print_operand a) + length wsa ->
    (last <> oper \/ oper <> op_NoOp) -> pvneed a <= f ->
    parse_value numf content f oper last offset e chain acc = Ok (Some (q_operand env oper (offset + length wsb) a :: acc)).

  Lemma opq_facts : forall op, (op <= 10)%N ->
    opq op <> op_Error /\ opq op <> op_NoOp /\ length (op_text op) = 1 + (if N.ltb (opq op) op_Greater then 1 else 0).
  Proof.
    intros op H. destruct (op_text_cases op H) as [[E1 E2]|[[E1 E2]|[[E1 E2]|[[E1 E2]|[[E1 E2]|[[E1 E2]|[[E1 E2]|[[E1 E2]|[[E1 E2]|[[E1 E2]|[E1 E2]]]]]]]]]]];
      rewrite E1, E2; repeat split; try discriminate; reflexivity.
  Qed.

  (* a op b  between [o] and [e] *)
  Lemma pe_bin : forall op a b f o e, PV a -> PV b -> pok a = true -> pok b = true -> (op <= 10)%N ->
    at_ content o (print_operand a ++ [32%N] ++ op_text op ++ [32%N] ++ print_operand b) ->
    e = o + length (print_operand a) + 1 + length (op_text op) + 1 + length (print_operand b) ->
    Nat.max (2 + pvneed a) (Nat.max (3 + pvneed b) 4) <= f ->
    parse_expressions numf content f o e chain =
    Ok [q_operand env (opq op) o a; q_operand env op_NoOp (o + length (print_operand a) + 1 + length (op_text op) + 1) b].
  Proof.
    intros op a b f o e PVa PVb Hoa Hob Hop Hat He Hf.
    destruct (opq_facts op Hop) as (Hq1 & Hq2 & Hq3).
    set (la := length (print_operand a)) in *. set (lb := length (print_operand b)) in *. set (lo := length (op_text op)) in *.
    destruct (last_operand a Hoa) as (cl & Hl & Hcl). fold la in Hl.
    destruct (first_operand a Hoa) as (c0 & r0 & Hs0 & _). assert (Hla : 1 <= la) by (unfold la; rewrite Hs0; cbn; lia).
    destruct (first_operand b Hob) as (c1 & r1 & Hs1 & _). assert (Hlb : 1 <= lb) by (unfold lb; rewrite Hs1; cbn; lia).
    pose proof (at_app _ _ _ _ Hat) as [Ha1 Ha2]. fold la in Ha2.
    pose proof (at_app _ _ _ _ Ha2) as [Ha3 Ha4]. cbn [length] in Ha4.
    pose proof (at_app _ _ _ _ Ha4) as [Ha5 Ha6]. fold lo in Ha6.
    pose proof (at_app _ _ _ _ Ha6) as [Ha7 Ha8]. cbn [length] in Ha8.
    destruct f as [|f1]; [lia|]. rewrite parse_expressions_S. destruct f1 as [|f2]; [lia|]. rewrite pe_loop_S.
    destruct (Nat.ltb_spec o e) as [_|X]; [|lia].
    (* the operator *)
    pose proof (gsteps_le a) as Hgs. fold la in Hgs.
    replace (S (e - o)) with (gsteps a + S (S (e - o - gsteps a - 1))) by lia.
    rewrite (go_operand content a _ o e Ha1 Hoa) by (fold la; lia). fold la.
    rewrite (go_plain content _ (o + la) e 32%N); [|apply (at_nth _ _ _ Ha3 0 32%N eq_refl); lia|reflexivity|lia].
    rewrite (go_op content op _ (S (o + la)) e (o + la - 1) cl); [|lia| | | | |exact Hop|fold lo; lia].
    2:{ apply (at_nth _ _ _ Ha1 (la - 1) cl Hl). lia. }
    2:{ exact Hcl. }
    2:{ replace (S (o + la - 1)) with (o + la) by lia. apply (at_nth _ _ _ Ha3 0 32%N eq_refl). lia. }
    2:{ replace (S (o + la)) with (o + la + 1) by lia. intros k Hk. rewrite app_length in Hk. cbn [length] in Hk. fold lo in Hk.
        destruct (Nat.lt_ge_cases k lo) as [Hlt|Hge].
        - rewrite nth_error_app1 by exact Hlt. apply Ha5. exact Hlt.
        - assert (k = lo) by lia. subst k. rewrite nth_error_app2 by (fold lo; lia). fold lo. rewrite Nat.sub_diag.
          apply (at_nth _ _ _ Ha7 0 32%N eq_refl). lia. }
    cbn [bind fst snd]. cbv zeta.
    destruct (N.eqb_spec (opq op) op_Error) as [X|_]; [contradiction|].
    (* the first operand *)
    rewrite (PVa f2 (opq op) op_NoOp o (S (o + la)) [] [32%N] []); [|left; reflexivity|right; reflexivity| | |right; exact Hq2|lia].
    2:{ cbn [app]. intros k Hk. rewrite app_length in Hk. cbn [length] in Hk. fold la in Hk.
        destruct (Nat.lt_ge_cases k la) as [Hlt|Hge].
        - rewrite nth_error_app1 by exact Hlt. apply Ha1. exact Hlt.
        - assert (k = la) by lia. subst k. rewrite nth_error_app2 by (fold la; lia). fold la. rewrite Nat.sub_diag.
          apply (at_nth _ _ _ Ha3 0 32%N eq_refl). lia. }
    2:{ cbn [length]. fold la. lia. }
    cbn [bind length]. rewrite Nat.add_0_r.
    replace (S (S (o + la)) + (if N.ltb (opq op) op_Greater then 1 else 0)) with (o + la + 1 + lo) by lia.
    (* the second operand *)
    destruct f2 as [|f3]; [lia|]. rewrite pe_loop_S.
    destruct (Nat.ltb_spec (o + la + 1 + lo) e) as [_|X]; [|lia].
    pose proof (gsteps_le b) as Hgb. fold lb in Hgb.
    replace (S (e - (o + la + 1 + lo))) with (S (gsteps b + (e - (o + la + 1 + lo) - gsteps b))) by lia.
    rewrite (go_plain content _ (o + la + 1 + lo) e 32%N); [|apply (at_nth _ _ _ Ha7 0 32%N eq_refl); lia|reflexivity|lia].
    rewrite (go_operand content b _ (S (o + la + 1 + lo)) e); [| |exact Hob|fold lb; lia].
    2:{ replace (S (o + la + 1 + lo)) with (o + la + 1 + lo + 1) by lia. exact Ha8. }
    fold lb. replace (S (o + la + 1 + lo) + lb) with e by lia. rewrite go_end. cbn [bind fst snd]. cbv zeta.
    change (N.eqb op_NoOp op_Error) with false. cbv iota.
    rewrite (PVb f3 op_NoOp (opq op) (o + la + 1 + lo) e [32%N] [] [q_operand env (opq op) o a]);
      [|right; reflexivity|left; reflexivity| | |left; exact Hq2|lia].
    2:{ rewrite app_nil_r. cbn [app]. intros k Hk. cbn [length] in Hk. fold lb in Hk. destruct k as [|k].
        - cbn [nth_error]. apply (at_nth _ _ _ Ha7 0 32%N eq_refl). lia.
        - cbn [nth_error]. replace (o + la + 1 + lo + S k) with (o + la + 1 + lo + 1 + k) by lia. apply Ha8. fold lb. lia. }
    2:{ cbn [length]. fold lb. lia. }
    cbn [bind length].
    destruct f3 as [|f4]; [lia|]. rewrite pe_loop_S.
    change (N.ltb op_NoOp op_Greater) with true. cbv iota.
    destruct (Nat.ltb_spec (S e + 1) e) as [X|_]; [lia|]. destruct (Nat.ltb_spec e (S e + 1)) as [_|X]; [|lia].
    cbn [rev app]. replace (o + la + 1 + lo + 1) with (o + la + 1 + lo + 1) by lia. reflexivity.
  Qed.

  Lemma pv_all : forall a, pok a = true -> PV a.
  Proof.
    intros a; induction a as [n|p|op a IHa b IHb]; intros Hok.
    - intros f oper last offset e wsb wsa acc Hb Ha Hat He _ Hf. apply (pv_atom (ENum n) f oper last offset e wsb wsa acc); try assumption; exact I.
    - intros f oper last offset e wsb wsa acc Hb Ha Hat He _ Hf. apply (pv_atom (EVar p) f oper last offset e wsb wsa acc); try assumption; exact I.
    - intros f oper last offset e wsb wsa acc Hb Ha Hat He Hcond Hf.
      pose proof Hok as Hok0. cbn [pok] in Hok. apply andb_prop in Hok. destruct Hok as [Hok Hob]. apply andb_prop in Hok. destruct Hok as [Hop Hoa].
      apply N.leb_le in Hop.
      cbn [pvneed] in Hf. destruct f as [|f]; [lia|]. rewrite parse_value_S.
      destruct (first_operand (EBin op a b) Hok0) as (c0 & r & Hs & Hc0 & Hk).
      destruct (last_operand (EBin op a b) Hok0) as (cl & Hl & Hcl).
      destruct (pv_trim (print_operand (EBin op a b)) wsb wsa offset e c0 r cl Hb Ha Hat He Hs Hc0 Hl (endc_not_ws cl Hcl)) as [E1 E2].
      rewrite E1. cbn [bind]. rewrite E2. cbn [bind].
      set (o' := offset + length wsb) in *.
      pose proof (at_app _ _ _ _ Hat) as [_ Hat2]. pose proof (at_app _ _ _ _ Hat2) as [Hat3 _]. fold o' in Hat3.
      set (inner := print_operand a ++ [32%N] ++ op_text op ++ [32%N] ++ print_operand b) in *.
      assert (Hpo : print_operand (EBin op a b) = [40%N] ++ inner ++ [41%N])
        by (cbn [print_operand]; unfold inner; repeat rewrite <- app_assoc; reflexivity).
      rewrite Hpo in *. repeat rewrite app_length in *. cbn [length] in *.
      destruct (Nat.ltb_spec o' (o' + (1 + (length inner + 1)))) as [_|X]; [|lia].
      rewrite (rd_at content 27 o' 40%N) by (apply (at_nth _ _ _ Hat3 0 40%N eq_refl); lia). cbn [bind].
      change (N.eqb 40 sym_ParenStart) with true. cbv iota.
      assert (Hli : length inner = length (print_operand a) + 1 + length (op_text op) + 1 + length (print_operand b))
        by (unfold inner; repeat rewrite app_length; cbn [length]; lia).
      rewrite (pe_bin op a b f (S o') (o' + (1 + (length inner + 1)) - 1) (IHa Hoa) (IHb Hob) Hoa Hob Hop); [| |lia|lia].
      2:{ apply (at_sub _ _ _ Hat3 [40%N] inner [41%N]); [reflexivity|cbn; lia]. }
      cbn [bind].
      assert (Hc : negb (N.eqb last oper) || negb (N.eqb oper op_NoOp) = true).
      { destruct Hcond as [H|H]; [apply N.eqb_neq in H; rewrite H; reflexivity|apply N.eqb_neq in H; rewrite H; apply orb_true_r]. }
      rewrite Hc. cbn [q_operand]. replace (S o') with (o' + 1) by lia. reflexivity.
  Qed.

  Lemma pvneed_le : forall a, pok a = true -> pvneed a <= 3 * length (print_operand a).
  Proof.
    intros a; induction a as [n|p|op a IHa b IHb]; intros H.
    - destruct (first_operand (ENum n) H) as (c & r & E & _). rewrite E. cbn; lia.
    - destruct (first_operand (EVar p) H) as (c & r & E & _). rewrite E. cbn; lia.
    - cbn [pok] in H. apply andb_prop in H. destruct H as [H Hb]. apply andb_prop in H. destruct H as [_ Ha].
      specialize (IHa Ha). specialize (IHb Hb). cbn [pvneed print_operand]. repeat rewrite app_length. cbn [length]. lia.
  Qed.

  (* parseExpressions on a whole printed expression *)
  Lemma pexpr_print : forall e off, pok e = true -> at_ content off (print_expr e) ->
    pexpr numf content off (off + length (print_expr e)) chain = Ok (qexpr_of env off e).
  Proof.
    intros e off Hok Hat. unfold pexpr.
    destruct e as [n|p|op a b].
    - (* a number *)
      cbn [print_expr qexpr_of] in *. set (le := length (print_operand (ENum n))) in *.
      destruct (first_operand (ENum n) Hok) as (c0 & r0 & Hs0 & _). assert (Hle : 1 <= le) by (unfold le; rewrite Hs0; cbn; lia).
      replace (3 * (off + le - off) + 4) with (S (S (S (3 * le + 1)))) by lia.
      rewrite parse_expressions_S, pe_loop_S. destruct (Nat.ltb_spec off (off + le)) as [_|X]; [|lia].
      pose proof (gsteps_le (ENum n)) as Hg. fold le in Hg.
      replace (S (off + le - off)) with (gsteps (ENum n) + (S le - gsteps (ENum n))) by lia.
      rewrite (go_operand content (ENum n) _ off (off + le) Hat Hok) by (fold le; lia). fold le. rewrite go_end.
      cbn [bind fst snd]. cbv zeta. change (N.eqb op_NoOp op_Error) with false. cbv iota.
      rewrite (pv_atom (ENum n) _ op_NoOp op_NoOp off (off + le) [] [] []); try exact I; try exact Hok; try (left; reflexivity); try lia.
      + cbn [bind length]. rewrite pe_loop_S. change (N.ltb op_NoOp op_Greater) with true. cbv iota.
        destruct (Nat.ltb_spec (S (off + le) + 1) (off + le)) as [X|_]; [lia|].
        destruct (Nat.ltb_spec (off + le) (S (off + le) + 1)) as [_|X]; [|lia]. rewrite Nat.add_0_r. reflexivity.
      + cbn [app]. rewrite app_nil_r. exact Hat.
      + cbn [length]. fold le. lia.
    - (* a variable *)
      cbn [print_expr qexpr_of] in *. set (le := length (print_operand (EVar p))) in *.
      destruct (first_operand (EVar p) Hok) as (c0 & r0 & Hs0 & _). assert (Hle : 1 <= le) by (unfold le; rewrite Hs0; cbn; lia).
      replace (3 * (off + le - off) + 4) with (S (S (S (3 * le + 1)))) by lia.
      rewrite parse_expressions_S, pe_loop_S. destruct (Nat.ltb_spec off (off + le)) as [_|X]; [|lia].
      pose proof (gsteps_le (EVar p)) as Hg. fold le in Hg.
      replace (S (off + le - off)) with (gsteps (EVar p) + (S le - gsteps (EVar p))) by lia.
      rewrite (go_operand content (EVar p) _ off (off + le) Hat Hok) by (fold le; lia). fold le. rewrite go_end.
      cbn [bind fst snd]. cbv zeta. change (N.eqb op_NoOp op_Error) with false. cbv iota.
      rewrite (pv_atom (EVar p) _ op_NoOp op_NoOp off (off + le) [] [] []); try exact I; try exact Hok; try (left; reflexivity); try lia.
      + cbn [bind length]. rewrite pe_loop_S. change (N.ltb op_NoOp op_Greater) with true. cbv iota.
        destruct (Nat.ltb_spec (S (off + le) + 1) (off + le)) as [X|_]; [lia|].
        destruct (Nat.ltb_spec (off + le) (S (off + le) + 1)) as [_|X]; [|lia]. rewrite Nat.add_0_r. reflexivity.
      + cbn [app]. rewrite app_nil_r. exact Hat.
      + cbn [length]. fold le. lia.
    - (* a op b *)
      cbn [pok] in Hok. apply andb_prop in Hok. destruct Hok as [Hok Hob]. apply andb_prop in Hok. destruct Hok as [Hop Hoa].
      apply N.leb_le in Hop. cbn [print_expr qexpr_of] in *.
      pose proof (pvneed_le a Hoa). pose proof (pvneed_le b Hob).
      apply (pe_bin op a b _ off _ (pv_all a Hoa) (pv_all b Hob) Hoa Hob Hop Hat).
      + repeat rewrite app_length. cbn [length]. lia.
      + repeat rewrite app_length. cbn [length]. lia.
  Qed.
End Expr2.

(* ---- the Finder over a printed expression (case MathID) ---- *)
Fixpoint nvars (e : expr) : nat := match e with ENum _ => 0 | EVar _ => 1 | EBin _ a b => nvars a + nvars b end.

Lemma tok_text : forall s pre rest, wf_text s = true -> tok pre (s ++ rest) = tok (pre ++ s) rest.
Proof. intros s pre rest H. unfold tok. rewrite spec_text by exact H. rewrite app_length. reflexivity. Qed.

Lemma isdig_wf_text : forall s, forallb isdig s = true -> wf_text s = true.
Proof.
  intros s; induction s as [|c r IH]; intros H; [reflexivity|]. cbn [forallb] in H. apply andb_prop in H. destruct H as [Hc Hr].
  cbn [wf_text]. unfold isdig in Hc.
  destruct (N.eqb_spec c 125) as [X|_]; [lia|]. destruct (N.eqb_spec c 123) as [X|_]; [lia|]. destruct (N.eqb_spec c 60) as [X|_]; [lia|].
  cbn [andb]. apply IH. exact Hr.
Qed.
Lemma op_sp_wf_text : forall op, (op <= 10)%N -> wf_text ([32%N] ++ op_text op ++ [32%N]) = true.
Proof.
  intros op H. destruct (op_text_cases op H) as [[E1 E2]|[[E1 E2]|[[E1 E2]|[[E1 E2]|[[E1 E2]|[[E1 E2]|[[E1 E2]|[[E1 E2]|[[E1 E2]|[[E1 E2]|[E1 E2]]]]]]]]]]];
    rewrite E1; reflexivity.
Qed.

Section MathScan.
  Variable w : N.
  Variable content : list N.

  Lemma ms_operand : forall a pre rest f, content = pre ++ print_operand a ++ rest -> pok a = true ->
    math_scan w content (nvars a + f) (tok pre (print_operand a ++ rest)) 0 =
    math_scan w content f (tok (pre ++ print_operand a) rest) 0.
  Proof.
    intros a; induction a as [n|p|op a IHa b IHb]; intros pre rest f Hc Hok; cbn [nvars print_operand pok] in *.
    - cbn [Nat.add]. rewrite tok_text by (apply isdig_wf_text; apply (dec_digits n)). reflexivity.
    - set (pp := print_path p) in *. pose proof (epath_wf p Hok) as Hw.
      assert (Hplain : forallb plain_char pp = true) by (apply okc_plain; apply path_okc; exact Hw).
      assert (Ht : tok pre ((s_var_open ++ pp ++ s_close) ++ rest) = (2%N, length pre + 5))
        by (unfold tok; repeat rewrite <- app_assoc; apply spec_var).
      rewrite Ht. cbn [Nat.add math_scan fst snd].
      change (N.ltb 2 tpp_MathID && negb (N.eqb 2 tpp_LineEndID)) with true. cbv iota.
      assert (Hc5 : content = (pre ++ s_var_open) ++ pp ++ s_close ++ rest) by (rewrite Hc; repeat rewrite <- app_assoc; reflexivity).
      assert (Hl5 : length (pre ++ s_var_open) = length pre + 5) by (rewrite app_length; reflexivity).
      rewrite <- Hl5. rewrite (fnext_tok w content _ _ Hc5). cbn [bind fst snd].
      assert (Ht2 : tok (pre ++ s_var_open) (pp ++ s_close ++ rest) = (1%N, S (length pre + 5 + length pp))).
      { unfold tok. rewrite spec_plain by exact Hplain. rewrite spec_close. rewrite Hl5. reflexivity. }
      rewrite Ht2. cbn [fst snd]. change (N.eqb 1 tpp_LineEndID) with true. cbv iota.
      assert (Hc6 : content = (pre ++ s_var_open ++ pp ++ s_close) ++ rest) by (rewrite Hc; repeat rewrite <- app_assoc; reflexivity).
      assert (Hl6 : length (pre ++ s_var_open ++ pp ++ s_close) = S (length pre + 5 + length pp))
        by (repeat rewrite app_length; cbn [length s_var_open s_close]; lia).
      rewrite <- Hl6. rewrite (fnext_tok w content _ _ Hc6). cbn [bind]. reflexivity.
    - apply andb_prop in Hok. destruct Hok as [Hok Hob]. apply andb_prop in Hok. destruct Hok as [Hop Hoa]. apply N.leb_le in Hop.
      replace (([40%N] ++ print_operand a ++ [32%N] ++ op_text op ++ [32%N] ++ print_operand b ++ [41%N]) ++ rest)
        with ([40%N] ++ print_operand a ++ (([32%N] ++ op_text op ++ [32%N]) ++ print_operand b ++ [41%N] ++ rest))
        by (repeat rewrite <- app_assoc; reflexivity).
      rewrite (tok_text [40%N]) by reflexivity.
      replace (nvars a + nvars b + f) with (nvars a + (nvars b + f)) by lia.
      rewrite (IHa (pre ++ [40%N]) _ (nvars b + f)); [|rewrite Hc; repeat rewrite <- app_assoc; reflexivity|exact Hoa].
      rewrite (tok_text ([32%N] ++ op_text op ++ [32%N])) by (apply op_sp_wf_text; exact Hop).
      rewrite (IHb _ ([41%N] ++ rest) f); [|rewrite Hc; repeat rewrite <- app_assoc; reflexivity|exact Hob].
      rewrite (tok_text [41%N]) by reflexivity.
      repeat rewrite <- app_assoc. reflexivity.
  Qed.

  Lemma ms_expr : forall e pre rest f, content = pre ++ print_expr e ++ rest -> pok e = true ->
    math_scan w content (nvars e + f) (tok pre (print_expr e ++ rest)) 0 =
    math_scan w content f (tok (pre ++ print_expr e) rest) 0.
  Proof.
    intros e pre rest f Hc Hok. destruct e as [n|p|op a b].
    - apply (ms_operand (ENum n)); assumption.
    - apply (ms_operand (EVar p)); assumption.
    - cbn [print_expr nvars pok] in *.
      apply andb_prop in Hok. destruct Hok as [Hok Hob]. apply andb_prop in Hok. destruct Hok as [Hop Hoa]. apply N.leb_le in Hop.
      replace ((print_operand a ++ [32%N] ++ op_text op ++ [32%N] ++ print_operand b) ++ rest)
        with (print_operand a ++ (([32%N] ++ op_text op ++ [32%N]) ++ print_operand b ++ rest))
        by (repeat rewrite <- app_assoc; reflexivity).
      replace (nvars a + nvars b + f) with (nvars a + (nvars b + f)) by lia.
      rewrite (ms_operand a pre _ (nvars b + f)); [|rewrite Hc; repeat rewrite <- app_assoc; reflexivity|exact Hoa].
      rewrite (tok_text ([32%N] ++ op_text op ++ [32%N])) by (apply op_sp_wf_text; exact Hop).
      rewrite (ms_operand b _ rest f); [|rewrite Hc; repeat rewrite <- app_assoc; reflexivity|exact Hob].
      repeat rewrite <- app_assoc. reflexivity.
  Qed.

  Lemma nvars_le : forall e, nvars e <= length (print_expr e).
  Proof.
    assert (H : forall a, nvars a <= length (print_operand a)).
    { intros a; induction a as [n|p|op a IHa b IHb]; cbn [nvars print_operand]; repeat rewrite app_length; cbn [length s_var_open]; lia. }
    intros [n|p|op a b]; cbn [print_expr nvars]; [apply (H (ENum n))|apply (H (EVar p))|].
    pose proof (H a). pose proof (H b). repeat rewrite app_length. cbn [length]. lia.
  Qed.
End MathScan.

(* ---- parseIfCase on the case attribute of an if tag ---- *)
Definition no34 (c : N) : bool := negb (N.eqb c 34).
Lemma operand_no34 : forall a, pok a = true -> forallb no34 (print_operand a) = true.
Proof.
  intros a; induction a as [n|p|op a IHa b IHb]; intros H; cbn [pok print_operand] in *.
  - destruct (dec_digits n) as [_ Hd]. apply forallb_forall. intros c Hc. rewrite forallb_forall in Hd. specialize (Hd c Hc).
    unfold isdig in Hd. unfold no34. destruct (N.eqb_spec c 34); [lia|reflexivity].
  - repeat rewrite forallb_app. cbn [forallb s_var_open s_close]. cbn. rewrite andb_true_r.
    apply forallb_forall. intros c Hc. unfold no34. destruct (N.eqb_spec c 34) as [->|_]; [|reflexivity].
    exfalso. revert Hc. apply print_path_no; [apply epath_wf; exact H|discriminate|discriminate|reflexivity].
  - apply andb_prop in H. destruct H as [H Hb]. apply andb_prop in H. destruct H as [Hop Ha]. apply N.leb_le in Hop.
    repeat rewrite forallb_app. rewrite (IHa Ha), (IHb Hb). cbn [forallb andb].
    destruct (op_text_cases op Hop) as [[E1 E2]|[[E1 E2]|[[E1 E2]|[[E1 E2]|[[E1 E2]|[[E1 E2]|[[E1 E2]|[[E1 E2]|[[E1 E2]|[[E1 E2]|[E1 E2]]]]]]]]]]];
      rewrite E1; reflexivity.
Qed.
Lemma expr_no34 : forall e, pok e = true -> ~ In 34%N (print_expr e).
Proof.
  intros e H Hin.
  assert (Hf : forallb no34 (print_expr e) = true).
  { destruct e as [n|p|op a b]; [apply (operand_no34 (ENum n) H)|apply (operand_no34 (EVar p) H)|].
    cbn [pok print_expr] in *. apply andb_prop in H. destruct H as [H Hb]. apply andb_prop in H. destruct H as [Hop Ha]. apply N.leb_le in Hop.
    repeat rewrite forallb_app. rewrite (operand_no34 a Ha), (operand_no34 b Hb). cbn [forallb andb].
    destruct (op_text_cases op Hop) as [[E1 E2]|[[E1 E2]|[[E1 E2]|[[E1 E2]|[[E1 E2]|[[E1 E2]|[[E1 E2]|[[E1 E2]|[[E1 E2]|[[E1 E2]|[E1 E2]]]]]]]]]]];
      rewrite E1; reflexivity. }
  rewrite forallb_forall in Hf. specialize (Hf _ Hin). discriminate Hf.
Qed.

Definition s_case_attr : list N := [32; 99; 97; 115; 101; 61; 34]%N.     (* space, the word case, the equal sign, the quote *)

Lemma parse_if_case_sim : forall content o e pe,
  at_ content o (s_case_attr ++ pe ++ [34; 62]%N) -> ~ In 34%N pe -> o + 7 + length pe + 2 <= e ->
  parse_if_case content o e = Ok (o + 7 + length pe + 2, o + 7, o + 7 + length pe).
Proof.
  intros content o e pe Ha H34 He.
  assert (Rk : forall k c, nth_error (s_case_attr ++ pe ++ [34; 62]%N) k = Some c -> nth_error content (o + k) = Some c)
    by (intros k c Hk; apply (at_nth _ _ _ Ha k c Hk); reflexivity).
  unfold parse_if_case. unfold skip_eq at 1.
  rewrite (skip_while_run content 30 (fun ch => N.eqb ch tpp_SpaceChar) [32%N] (e - o) o e 99%N);
    [|apply (at_sub _ _ _ Ha [] [32%N] ([99;97;115;101;61;34]%N ++ pe ++ [34;62]%N)); [reflexivity|cbn; lia]
     |reflexivity|apply (Rk 1 99%N); reflexivity|reflexivity|cbn [length]; lia|cbn [length]; lia].
  cbn [bind length]. destruct (Nat.ltb_spec (o + 1) e) as [_|X]; [|lia].
  unfold word_at. change (length tpp_Case) with 4. destruct (Nat.ltb_spec 4 (e - (o + 1))) as [_|X]; [|lia].
  rewrite is_equal_at_true by (apply (at_sub _ _ _ Ha [32%N] tpp_Case ([61;34]%N ++ pe ++ [34;62]%N)); [reflexivity|cbn; lia]).
  cbn [bind]. unfold tpp_CaseLength. replace (o + 1 + 4) with (o + 5) by lia.
  rewrite (skip_ne_stop content 32 tpp_EqualChar (o + 5) e); [|apply (Rk 5 61%N); reflexivity|lia].
  cbn [bind]. unfold skip_eq_do. replace (S (o + 5)) with (o + 6) by lia.
  rewrite (skip_eq_stop content 33 tpp_SpaceChar 34%N (o + 6) e); [|apply (Rk 6 34%N); reflexivity|discriminate|lia].
  cbn [bind]. destruct (Nat.ltb_spec (o + 6) e) as [_|X]; [|lia].
  rewrite (rd_at content 34 (o + 6) 34%N) by (apply (Rk 6 34%N); reflexivity). cbn [bind].
  replace (S (o + 6)) with (o + 7) by lia.
  assert (Hq : nth_error content (o + 7 + length pe) = Some 34%N).
  { replace (o + 7 + length pe) with (o + (7 + length pe)) by lia. apply Rk. unfold s_case_attr. cbn [app].
    change (7 + length pe) with (S (S (S (S (S (S (S (length pe)))))))). cbn [nth_error]. rewrite nth_error_app2 by lia. rewrite Nat.sub_diag. reflexivity. }
  rewrite (skip_ne_run content 35 34%N pe (o + 7) e); [|apply (at_sub _ _ _ Ha s_case_attr pe [34;62]%N); [reflexivity|cbn; lia]|exact H34|exact Hq|lia].
  cbn [bind].
  rewrite (skip_ne_run content 36 tpp_MultiLineLastChar [34%N] (o + 7 + length pe) e).
  - cbn [bind length]. f_equal. f_equal. f_equal. lia.
  - apply (at_sub _ _ _ Ha (s_case_attr ++ pe) [34%N] [62%N]); [rewrite <- app_assoc; reflexivity|rewrite app_length; cbn; lia].
  - intros [X|[]]. discriminate X.
  - cbn [length]. replace (o + 7 + length pe + 1) with (o + (7 + length pe + 1)) by lia. apply Rk. unfold s_case_attr. cbn [app].
    replace (7 + length pe + 1) with (S (S (S (S (S (S (S (length pe + 1)))))))) by lia. cbn [nth_error]. rewrite nth_error_app2 by lia.
    replace (length pe + 1 - length pe) with 1 by lia. reflexivity.
  - cbn [length]. lia.
Qed.
