(* ExprBridgeModel.v -- BRIDGE between the expression evaluator of the end-to-end template
   statement (TfullModel.q_top / q_val / q_arith: TmplModel.eval_expr transcribed to the
   QExpression arrays of the parser model) and the faithful model of QExpression evaluation
   (ExprModel.eval_items, tied to the C++ by the C04 correspondence).  DEFINITIONS ONLY.

   * [to_items]: total translation of the parser model's QExpression arrays (TparseModel.qexpr)
     into ExprModel's item lists (operand, following operator).
   * [benv]: the variable environment.  ExprModel's own getValue covers plain names of a flat
     object only; the renderer model's getValue (TrenderModel.get_value: loop items, [index]
     paths, every access checked) is the faithful one for templates.  The bridge plugs the
     latter into the former: every VariableTag of the expression becomes an abstract key
     ([vkey], its four fields) bound to the translation ([vval_of]) of what the renderer's
     getValue returns for it; a tag that resolves to nothing is a missing name.
   * [bridge_dom]: the boolean domain on which the two evaluators are proved to agree. *)
From Coq Require Import NArith ZArith List Bool Arith Floats.SpecFloat.
From Qv Require Import gen.Tables gen.Tables_tmpl gen.Tables_expr gen.Tables_digit gen.Tables_tparse
  FinderModel EscapeModel TmplModel TmplRender TmplProofs TparseModel TrenderModel TrenderProofs TrenderInst TfullModel.
From Qv Require ExprModel.
Import ListNotations.

Module E := ExprModel.

(* ------------------------------------------------------------------ *)
(* values *)

(* the binary64 with the given bit pattern *)
Definition sf_of_bits (b : N) : spec_float :=
  let s := N.testbit b 63 in
  let ex := ((b / 4503599627370496) mod 2048)%N in
  let m := (b mod 4503599627370496)%N in
  if N.eqb ex 0 then
    match m with N0 => S754_zero s | Npos p => S754_finite s p (-1074) end
  else if N.eqb ex 2047 then
    match m with N0 => S754_infinity s | _ => S754_nan end
  else
    match (m + 4503599627370496)%N with
    | Npos p => S754_finite s p (Z.of_N ex - 1075)
    | N0 => S754_nan
    end.

(* a Value of the template value model as ExprModel sees a variable's Value *)
Definition vval_of (x : jv) : E.vval :=
  match x with
  | JNat n => E.EvNat n
  | JInt z => E.EvInt (E.wrapZ z)
  | JReal b => E.EvReal (sf_of_bits b)
  | JStr s => E.EvStr s
  | JTrue => E.EvTrue
  | JFalse => E.EvFalse
  | JNull => E.EvNull
  | JUndef | JArr _ | JObj _ => E.EvOther
  end.

(* the key of a VariableTag in the bridged environment (never ends in ']') *)
Definition vkey (v : vtag) : list N := [N.of_nat (v_off v); v_len v; v_idlen v; v_level v; 0%N].

(* ------------------------------------------------------------------ *)
(* expressions *)

Definition num_of_kind (k bits : N) : E.qval :=
  if N.eqb k qn_natural then E.QNat bits
  else if N.eqb k qn_integer then E.QInt bits
  else E.QReal (sf_of_bits bits).

Section Translate.
  Variable content : list N.
  Fixpoint to_operand (q : qexpr) : E.operand :=
    match q with
    | QNum _ k b => E.ONum (num_of_kind k b)
    | QText _ off len => E.OText (TparseModel.slice content off (off + len))
    | QVar _ v => E.OVar (vkey v)
    | QSub _ l => E.OSub (map (fun x => (to_operand x, q_op x)) l)
    end.
  Definition to_item (q : qexpr) : E.item := (to_operand q, q_op q).
  Definition to_items (l : list qexpr) : E.items := map to_item l.
End Translate.

(* the VariableTags of an expression, and its parenthesis depth (+1) *)
Fixpoint qvars (q : qexpr) : list vtag :=
  match q with
  | QVar _ v => [v]
  | QSub _ l => flat_map qvars l
  | _ => []
  end.
Definition qvars_list (l : list qexpr) : list vtag := flat_map qvars l.
Fixpoint qdepth (q : qexpr) : nat :=
  match q with
  | QSub _ l => S (fold_right (fun x acc => Nat.max (qdepth x) acc) 0 l)
  | _ => 0
  end.
Definition qdepth_list (l : list qexpr) : nat := S (fold_right (fun x acc => Nat.max (qdepth x) acc) 0 l).

Section Env.
  Variable content : list N.
  Variable root : jv.
  Variable items : list (item jv).
  Definition benv_of (vs : list vtag) : E.env :=
    flat_map (fun v => match q_var content root items v with
                       | Some x => [(vkey v, vval_of x)]
                       | None => []
                       end) vs.
  Definition benv (l : list qexpr) : E.env := benv_of (qvars_list l).

  (* ------------------------------------------------------------------ *)
  (* the domain of the bridge *)

  (* operators of TfullModel.q_arith / the == != rule *)
  Definition op_covered (op : N) : bool :=
    N.eqb op op_Addition || N.eqb op op_Subtraction || N.eqb op op_Multiplication ||
    N.eqb op op_Equal || N.eqb op op_NotEqual ||
    N.eqb op op_Less || N.eqb op op_Greater || N.eqb op op_LessOrEqual || N.eqb op op_GreaterOrEqual ||
    N.eqb op op_And || N.eqb op op_Or.
  (* an operand: natural literal, variable, or a parenthesised pair a <op> b (one operator per level) *)
  Fixpoint q_shape1 (q : qexpr) : bool :=
    match q with
    | QNum _ k _ => N.eqb k qn_natural
    | QVar _ _ => true
    | QSub _ (a :: b :: nil) => op_covered (q_op a) && N.eqb (q_op b) op_NoOp && q_shape1 a && q_shape1 b
    | _ => false
    end.
  Definition q_shape (l : list qexpr) : bool :=
    match l with
    | [q] => N.eqb (q_op q) op_NoOp && q_shape1 q
    | [a; b] => op_covered (q_op a) && N.eqb (q_op b) op_NoOp && q_shape1 a && q_shape1 b
    | _ => false
    end.

  (* the Values the expression reads: exact kinds inside 64 bits (q_arith has no reals), strings on
     which TmplModel.nat_of_string and ExprModel.numeral agree (a natural numeral or plain text) *)
  Definition in63b (z : Z) : bool := ((-9223372036854775808 <? z) && (z <? 9223372036854775808))%Z.
  Definition str_ok (s : list N) : bool :=
    match E.numeral s, nat_of_string s with
    | E.NumNat n, Some m => N.eqb n m && in63b (Z.of_N n)
    | E.NotNum, None => true
    | _, _ => false
    end.
  Definition jv_ok (x : jv) : bool :=
    match x with
    | JNat n => in63b (Z.of_N n)
    | JInt z => in63b z
    | JReal _ => false
    | JStr s => str_ok s
    | _ => true
    end.
  Definition vars_ok (l : list qexpr) : bool :=
    forallb (fun v => match q_var content root items v with Some x => jv_ok x | None => true end) (qvars_list l).

  (* no 64-bit overflow: every literal and every arithmetic result q_val computes lies in (-2^63, 2^63) *)
  Fixpoint q_fits (q : qexpr) : bool :=
    match q with
    | QNum _ _ b => in63b (Z.of_N b)
    | QSub _ (a :: b :: nil) =>
      q_fits a && q_fits b &&
      match q_val content root items a, q_val content root items b with
      | Some x, Some y => match q_arith (q_op a) x y with Some z => in63b z | None => true end
      | _, _ => true
      end
    | _ => true
    end.
  Definition q_fits_list (l : list qexpr) : bool :=
    match l with
    | [a; b] => q_fits (QSub op_NoOp [a; b])
    | _ => forallb q_fits l
    end.

  Definition bridge_dom (l : list qexpr) : bool := q_shape l && vars_ok l && q_fits_list l.
End Env.

(* ------------------------------------------------------------------ *)
(* what renderMath prints / what the if forms test, from the faithful evaluator's answer *)
Definition num_text (v : E.qval) : option (list N) :=
  match v with
  | E.QNat b => Some (dec_z (Z.of_N b))           (* NumberToString(Natural) *)
  | E.QInt b => Some (dec_z (E.signed b))         (* NumberToString(Integer) *)
  | _ => None                                      (* reals: Digit::NumberToString, outside the bridge *)
  end.
Definition math_of_eval (r : E.outcome E.qval) : option (list N) :=
  match r with E.Ok v => num_text v | _ => None end.
Definition cond_of_eval (r : E.outcome E.qval) : option bool :=
  match r with
  | E.Ok v => match E.q_true v with E.Ok b => Some b | _ => None end
  | _ => None
  end.

(* Evaluate on the faithful model for an expression array of the parser model *)
Definition eval_faithful (content : list N) (root : jv) (items : list (item jv)) (ex : list qexpr) : E.outcome E.qval :=
  E.eval_items (benv content root items ex) (qdepth_list ex) (to_items content ex).

(* the renderer's two expression hooks with the faithful evaluator wherever the bridge's domain
   check passes (elsewhere the hooks of TfullModel are kept) *)
Definition faithful_math (content : list N) (root : jv) (k : nat) (ex : list qexpr) (items : list (item jv)) : option (list N) :=
  if bridge_dom content root items ex then math_of_eval (eval_faithful content root items ex)
  else jv_math content root k ex items.
Definition faithful_cond (content : list N) (root : jv) (k : nat) (ex : list qexpr) (items : list (item jv)) : option bool :=
  if bridge_dom content root items ex then cond_of_eval (eval_faithful content root items ex)
  else jv_cond content root k ex items.

Definition render_all_faithful (auto : bool) (w : N) (content : list N) (root : jv) : rres (list N) :=
  render_all jv get_key jv_members (jv_text auto w) char_and_length (fun v k => group_by k v) sort_set
             (var_text_cfg auto w) (faithful_math content root) (faithful_cond content root) w content root.
