(* Properties_C06.v -- C06: every RFC 8259 document parses to the value it denotes.
   Statements only; proofs in JsonProofsStr / Num / Parse / Complete / Doc / Cst / Int / C06.v.
   "Every RFC 8259 document" is read as "every text printed from a concrete syntax tree"
   ([cval], JsonModel.v): the tree fixes the whitespace at every gap, the spelling of every
   character (raw in the target encoding, short escape, \uXXXX with either case per digit,
   surrogate pair) and of every numeral; [cprint] is the text, [cdenote] the value.
   Real numerals (anything that is not an integer fitting 64 bits) enter through the predicate
   [reals_ok]: each such numeral is assumed to be taken whole by the number scanner and classified
   as a real -- that, and the value of the real, is C09's subject; the correspondence run
   compares reals by kind only. *)
From Coq Require Import NArith ZArith List Bool.
From Qv Require Import gen.Tables_json JsonModel JsonSpec JsonProofsBase JsonProofsStr JsonProofsNum JsonProofsParse
  JsonProofsComplete JsonProofsDoc JsonProofsCst JsonProofsInt JsonProofsC06 JsonDigitExt JsonDigitRfc JsonDigitC06 JsonDigitBig JsonDigitC08 JsonDigitForms.
Import ListNotations.
Local Open Scope N_scope.

(* the main statement, for every width, tree, and outer whitespace *)
Theorem c06_parse_print : forall w c ws1 ws2,
  cval_wf w c = true -> reals_ok c -> is_container c = true -> ws_wf ws1 = true -> ws_wf ws2 = true ->
  parse w (ws1 ++ cprint w c ++ ws2) = JOk (cdenote w c).
Proof. exact parse_print_all. Qed.
Print Assumptions c06_parse_print.

(* strings: every spelling of every character decodes to its encoding, unit for unit *)
Theorem c06_string_exact : forall w s rest, forallb (cchar_wf w) s = true ->
  pstring w (flat_map (cchar_print w) s ++ jc_quote :: rest) [] = JOk (Some (cstr_denote w s, rest), []).
Proof. intros w s rest H. apply pstring_complete. apply str_ok. exact H. Qed.
Print Assumptions c06_string_exact.

(* integers that fit 64 bits are exact, and the scanner takes exactly the numeral *)
Theorem c06_int_exact_unsigned : forall ds rest,
  digits_wf ds = true -> dval ds < 18446744073709551616 -> num_follow rest = true ->
  scan_number (ds ++ rest) = JOk (NumNat (dval ds) rest).
Proof. exact nat_ok. Qed.
Print Assumptions c06_int_exact_unsigned.

Theorem c06_int_exact_signed : forall ds rest,
  digits_wf ds = true -> 0 < dval ds -> dval ds <= 9223372036854775808 -> num_follow rest = true ->
  scan_number (dc_neg :: ds ++ rest) = JOk (NumInt (Z.opp (Z.of_N (dval ds))) rest).
Proof. exact neg_ok. Qed.
Print Assumptions c06_int_exact_signed.

(* duplicate keys: the last value, at the first key's position *)
Theorem c06_duplicate_keys : forall pre k v1 v2 post,
  (forall kv, In kv pre -> list_eqb k (fst kv) = false) ->
  obj_insert (pre ++ (k, v1) :: post) k v2 = pre ++ (k, v2) :: post.
Proof. exact obj_insert_replace. Qed.
Print Assumptions c06_duplicate_keys.

(* beyond printed trees: the reader accepts exactly the grammar Val, with the grammar's value *)
Theorem c06_reader_complete : forall w s v, Document w s v -> parse w s = JOk v.
Proof. exact parse_complete. Qed.
Print Assumptions c06_reader_complete.

(* the caller's scratch stream (JSON::Parse(stream, content, length), D81): whatever the stream holds
   on entry -- e.g. the decoded units a failed parse left behind -- the result is that of a parse
   with a fresh stream (the first step clears it); hence a sequence of texts parsed through one
   stream gives, text by text, the results of the texts alone *)
Theorem c06_scratch_stream_irrelevant : forall w st s,
  match parse_stream w st s with JOk (v, _) => JOk v | JErr e => JErr e end = parse w s.
Proof. exact parse_stream_any. Qed.
Print Assumptions c06_scratch_stream_irrelevant.

Theorem c06_history_independent : forall w texts st, parse_history w st texts = map (parse w) texts.
Proof. exact parse_history_independent. Qed.
Print Assumptions c06_history_independent.

(* non-vacuity: without the clearing step the leftover [a; LF] is prepended to the next escaped string *)
Theorem c06_d81_example :
  pval 20 0 [97; 10] [91; 34; 120; 92; 116; 121; 34; 93] = JOk (JArr [JStr [97; 10; 120; 9; 121]], [], []) /\
  parse_stream 0 [97; 10] [91; 34; 120; 92; 116; 121; 34; 93] = JOk (JArr [JStr [120; 9; 121]], []).
Proof. exact d81_leftover_without_clear. Qed.
Print Assumptions c06_d81_example.

(* non-vacuity: a tree with every construct is well-formed at every width and parses *)
Theorem c06_example : cval_wf 1 ex_tree = true /\ parse 1 (cprint 1 ex_tree) = JOk (cdenote 1 ex_tree).
Proof. split; [apply ex_tree_wf|exact ex_tree_parses]. Qed.
Print Assumptions c06_example.

(* ------------------------------------------------------------------ *)
(* REALS DISCHARGED (JsonDigitExt.v, JsonDigitRfc.v, JsonDigitC06.v).
   1. The verdict of the number scanner on a numeral does not depend on what follows it (nothing, whitespace,
      a comma, a closing bracket): *)
Theorem c06_scanner_verdict_independent_of_follower : forall l rest n,
  num_follow rest = true -> scan_number l = JOk n -> scan_number (l ++ rest) = JOk (ext_rest n rest).
Proof. exact scan_number_ext. Qed.
Print Assumptions c06_scanner_verdict_independent_of_follower.

(* hence real_numeral is decided by running the scanner on the numeral text alone (a boolean) *)
Theorem c06_real_numeral_decided : forall txt, real_wholeb txt = true -> real_numeral txt.
Proof. exact real_numeral_decided. Qed.
Print Assumptions c06_real_numeral_decided.

(* 2. Every numeral of the RFC number grammar ([RfcNum]: optional minus, a digit, then digits, optional point and
      digits, optional exponent -- a superset of the grammar) is taken WHOLE: the scanner never stops inside it *)
Theorem c06_rfc_numeral_taken_whole : forall txt, RfcNum txt -> exists n, scan_number txt = JOk n /\ whole n.
Proof. exact scan_number_rfc_whole. Qed.
Print Assumptions c06_rfc_numeral_taken_whole.

(* one with a fraction or an exponent ([RfcFrac]) is classified Real, or rejected by the scanner's range tests *)
Theorem c06_rfc_real_is_real_or_out_of_range : forall txt, RfcFrac txt ->
  scan_number txt = JOk (NumReal []) \/ scan_number txt = JOk NumNaN.
Proof. exact scan_number_rfc_real. Qed.
Print Assumptions c06_rfc_real_is_real_or_out_of_range.

(* so real_numeral HOLDS for every RFC real numeral in range; the range predicate is the boolean
   [real_in_range txt] = "the scanner's range tests do not reject the numeral" *)
Theorem c06_real_numeral_of_rfc_in_range : forall txt, RfcFrac txt -> real_in_range txt = true -> real_numeral txt.
Proof. exact rfc_real_numeral. Qed.
Print Assumptions c06_real_numeral_of_rfc_in_range.

(* 3. The main theorem with the abstract hypothesis reals_ok replaced by the boolean guard reals_okb (every real leaf:
      real_wholeb), which holds for RFC reals in range (c06_real_leaf_guard) *)
Theorem c06_parse_print_reals_decided : forall w c ws1 ws2,
  cval_wf w c = true -> reals_okb c = true -> is_container c = true -> ws_wf ws1 = true -> ws_wf ws2 = true ->
  parse w (ws1 ++ cprint w c ++ ws2) = JOk (cdenote w c).
Proof. exact parse_print_decided. Qed.
Print Assumptions c06_parse_print_reals_decided.

Theorem c06_real_leaf_guard : forall txt, RfcFrac txt -> real_in_range txt = true -> real_wholeb txt = true.
Proof. exact real_leaf_ok. Qed.
Print Assumptions c06_real_leaf_guard.

(* 4. Values: a real leaf denotes the bits DigitModel.string_to_number assigns to its numeral text ([values]) *)
Theorem c06_parse_print_values : forall w c ws1 ws2,
  cval_wf w c = true -> reals_okb c = true -> is_container c = true -> ws_wf ws1 = true -> ws_wf ws2 = true ->
  parse_values w (ws1 ++ cprint w c ++ ws2) = Some (values (cdenote w c)).
Proof. exact parse_print_values. Qed.
Print Assumptions c06_parse_print_values.

(* non-vacuity: a document with reals of every spelling (1.5, -0.00125e+3, 1E22, a 21-digit mantissa, 0e5,
   2.2250738585072014e-308), its guard, its parse, the bits of two leaves, the grammar predicate, the range test *)
Theorem c06_reals_example :
  cval_wf 0 real_ex = true /\ reals_okb real_ex = true /\ parse 0 (cprint 0 real_ex) = JOk (cdenote 0 real_ex) /\
  real_bits [49; 46; 53] = Some 4609434218613702656 /\ RfcFrac [49; 46; 53] /\ real_in_range [49; 101; 52; 48; 48] = false.
Proof.
  destruct real_ex_ok as [H1 H2]. destruct real_ex_values as [H3 _]. destruct real_ex_grammar as (H4 & _ & H5).
  split; [exact H1|]. split; [exact H2|]. split; [exact real_ex_parses|]. split; [exact H3|]. split; [exact H4|exact H5].
Qed.
Print Assumptions c06_reals_example.

(* 5. Integer numerals that do NOT fit (JsonDigitBig.v), and the independent RFC number recogniser (JsonDigitForms.v):
      every digit-only numeral is classified -- the exact unsigned value below 2^64, the exact negative value down to -2^63, and
      otherwise (2^64 or more; below -2^63; -0) Real with everything consumed, or NaN by the range tests: never a wrong integer *)
Theorem c06_int_numeral_classified : forall ds rest, digits_wf ds = true -> num_follow rest = true ->
  (dval ds < 18446744073709551616 -> scan_number (ds ++ rest) = JOk (NumNat (dval ds) rest)) /\
  (18446744073709551616 <= dval ds ->
     scan_number (ds ++ rest) = JOk (NumReal rest) \/ scan_number (ds ++ rest) = JOk NumNaN) /\
  (0 < dval ds -> dval ds <= int_min_abs ->
     scan_number (dc_neg :: ds ++ rest) = JOk (NumInt (Z.opp (Z.of_N (dval ds))) rest)) /\
  (int_min_abs < dval ds \/ dval ds = 0 ->
     scan_number (dc_neg :: ds ++ rest) = JOk (NumReal rest) \/ scan_number (dc_neg :: ds ++ rest) = JOk NumNaN).
Proof. exact int_numeral_classified. Qed.
Print Assumptions c06_int_numeral_classified.

(* a text accepted as a whole by the RFC recogniser rfc_number (written independently of the reader) is one of three:
   an unsigned integer that fits, a negative integer that fits, or a REAL TEXT (fraction or exponent, or digits that do not fit) *)
Theorem c06_rfc_number_classified : forall txt, rfc_numb txt = true ->
  (exists ds, digits_wf ds = true /\ txt = ds /\ dval ds < 18446744073709551616) \/
  (exists ds, digits_wf ds = true /\ txt = dc_neg :: ds /\ 0 < dval ds /\ dval ds <= int_min_abs) \/
  RfcRealText txt.
Proof. exact rfc_number_classified. Qed.
Print Assumptions c06_rfc_number_classified.

(* and what the scanner does with it, followed by anything that may follow a number in a document: NaN only for a real text
   the range tests reject *)
Theorem c06_rfc_number_scanned : forall txt rest, rfc_numb txt = true -> num_follow rest = true ->
  (exists n, scan_number (txt ++ rest) = JOk (NumNat n rest)) \/
  (exists z, scan_number (txt ++ rest) = JOk (NumInt z rest)) \/
  (RfcRealText txt /\ real_in_range txt = true /\ scan_number (txt ++ rest) = JOk (NumReal rest)) \/
  (RfcRealText txt /\ real_in_range txt = false /\ scan_number (txt ++ rest) = JOk NumNaN).
Proof. exact rfc_number_scanned. Qed.
Print Assumptions c06_rfc_number_scanned.

(* the guard of a real leaf, for every real text in range (supersedes c06_real_leaf_guard, which has RfcFrac only) *)
Theorem c06_real_text_guard : forall txt, RfcRealText txt -> real_in_range txt = true ->
  real_wholeb txt = true /\ real_numeral txt.
Proof. intros txt H1 H2. split; [apply realtext_leaf_ok|apply rfc_realtext_numeral]; assumption. Qed.
Print Assumptions c06_real_text_guard.

(* non-vacuity: 2^64, -(2^63+1) and -0 are real texts in range *)
Theorem c06_big_examples :
  scan_number [49;56;52;52;54;55;52;52;48;55;51;55;48;57;53;53;49;54;49;54] = JOk (NumReal []) /\
  RfcRealText [49;56;52;52;54;55;52;52;48;55;51;55;48;57;53;53;49;54;49;54] /\
  (RfcRealText [45;57;50;50;51;51;55;50;48;51;54;56;53;52;55;55;53;56;48;57] /\
   real_in_range [45;57;50;50;51;51;55;50;48;51;54;56;53;52;55;55;53;56;48;57] = true) /\
  (RfcRealText [45;48] /\ real_in_range [45;48] = true).
Proof. split; [exact big_ex1|]. split; [exact big_ex1_text|]. split; [exact big_ex2|exact big_ex3]. Qed.
Print Assumptions c06_big_examples.

(* What remains a predicate / a gap:
   - [real_in_range] is the scanner's own verdict (not NaN), not a statement about the magnitude of the numeral;
   - that JsonModel.scan_number and DigitModel.string_to_number (two transliterations of Digit::stringToNumber) agree on kind and
     consumed length is NOT proved here: both are tied to the C++ by their own correspondence runs, and the C06 check compares the
     two models on every numeral of every generated document (ocaml/json.ml, scanners_agree); [values] takes the bits from
     DigitModel.string_to_number applied to the numeral text alone;
   - that the bits are within one unit in the last place of the numeral: C09. *)

(* NOT proved (correspondence only): that real numerals satisfy [real_numeral] and are within one
   unit in the last place (C09); that every RFC 8259 text is the print of some tree (by
   inspection of cprint; cross-checked at run time by the extracted RFC recogniser rfc_ok). *)
