(* Properties_C06.v -- C06: every RFC 8259 document parses to the value it denotes.
   Statements only; proofs in JsonProofsStr / Num / Parse / Complete / Doc / Cst / Int / C06.v.
   "Every RFC 8259 document" is read as "every text printed from a concrete syntax tree"
   ([cval], JsonModel.v): the tree fixes the whitespace at every gap, the spelling of every
   character (raw in the target encoding, short escape, \uXXXX with either case per digit,
   surrogate pair) and of every numeral; [cprint] is the text, [cdenote] the value.
   Real numerals (anything that is not an integer fitting 64 bits) enter through the predicate
   [reals_ok]: each such numeral is assumed to be taken whole by the number scanner and classified
   as a real -- that, and the value of the real, is C09's subject; the correspondence run
   compares reals by kind only. *)
From Coq Require Import NArith ZArith List Bool.
From Qv Require Import gen.Tables_json JsonModel JsonSpec JsonProofsBase JsonProofsStr JsonProofsNum JsonProofsParse
  JsonProofsComplete JsonProofsDoc JsonProofsCst JsonProofsInt JsonProofsC06.
Import ListNotations.
Local Open Scope N_scope.

(* the main statement, for every width, tree, and outer whitespace *)
Theorem c06_parse_print : forall w c ws1 ws2,
  cval_wf w c = true -> reals_ok c -> is_container c = true -> ws_wf ws1 = true -> ws_wf ws2 = true ->
  parse w (ws1 ++ cprint w c ++ ws2) = JOk (cdenote w c).
Proof. exact parse_print_all. Qed.
Print Assumptions c06_parse_print.

(* strings: every spelling of every character decodes to its encoding, unit for unit *)
Theorem c06_string_exact : forall w s rest, forallb (cchar_wf w) s = true ->
  pstring w (flat_map (cchar_print w) s ++ jc_quote :: rest) [] = JOk (Some (cstr_denote w s, rest), []).
Proof. intros w s rest H. apply pstring_complete. apply str_ok. exact H. Qed.
Print Assumptions c06_string_exact.

(* integers that fit 64 bits are exact, and the scanner takes exactly the numeral *)
Theorem c06_int_exact_unsigned : forall ds rest,
  digits_wf ds = true -> dval ds < 18446744073709551616 -> num_follow rest = true ->
  scan_number (ds ++ rest) = JOk (NumNat (dval ds) rest).
Proof. exact nat_ok. Qed.
Print Assumptions c06_int_exact_unsigned.

Theorem c06_int_exact_signed : forall ds rest,
  digits_wf ds = true -> 0 < dval ds -> dval ds <= 9223372036854775808 -> num_follow rest = true ->
  scan_number (dc_neg :: ds ++ rest) = JOk (NumInt (Z.opp (Z.of_N (dval ds))) rest).
Proof. exact neg_ok. Qed.
Print Assumptions c06_int_exact_signed.

(* duplicate keys: the last value, at the first key's position *)
Theorem c06_duplicate_keys : forall pre k v1 v2 post,
  (forall kv, In kv pre -> list_eqb k (fst kv) = false) ->
  obj_insert (pre ++ (k, v1) :: post) k v2 = pre ++ (k, v2) :: post.
Proof. exact obj_insert_replace. Qed.
Print Assumptions c06_duplicate_keys.

(* beyond printed trees: the reader accepts exactly the grammar Val, with the grammar's value *)
Theorem c06_reader_complete : forall w s v, Document w s v -> parse w s = JOk v.
Proof. exact parse_complete. Qed.
Print Assumptions c06_reader_complete.

(* the caller's scratch stream (JSON::Parse(stream, content, length), D81): whatever the stream holds
   on entry -- e.g. the decoded units a failed parse left behind -- the result is that of a parse
   with a fresh stream (the first step clears it); hence a sequence of texts parsed through one
   stream gives, text by text, the results of the texts alone *)
Theorem c06_scratch_stream_irrelevant : forall w st s,
  match parse_stream w st s with JOk (v, _) => JOk v | JErr e => JErr e end = parse w s.
Proof. exact parse_stream_any. Qed.
Print Assumptions c06_scratch_stream_irrelevant.

Theorem c06_history_independent : forall w texts st, parse_history w st texts = map (parse w) texts.
Proof. exact parse_history_independent. Qed.
Print Assumptions c06_history_independent.

(* non-vacuity: without the clearing step the leftover [a; LF] is prepended to the next escaped string *)
Theorem c06_d81_example :
  pval 20 0 [97; 10] [91; 34; 120; 92; 116; 121; 34; 93] = JOk (JArr [JStr [97; 10; 120; 9; 121]], [], []) /\
  parse_stream 0 [97; 10] [91; 34; 120; 92; 116; 121; 34; 93] = JOk (JArr [JStr [120; 9; 121]], []).
Proof. exact d81_leftover_without_clear. Qed.
Print Assumptions c06_d81_example.

(* non-vacuity: a tree with every construct is well-formed at every width and parses *)
Theorem c06_example : cval_wf 1 ex_tree = true /\ parse 1 (cprint 1 ex_tree) = JOk (cdenote 1 ex_tree).
Proof. split; [apply ex_tree_wf|exact ex_tree_parses]. Qed.
Print Assumptions c06_example.

(* NOT proved (correspondence only): that real numerals satisfy [real_numeral] and are within one
   unit in the last place (C09); that every RFC 8259 text is the print of some tree (by
   inspection of cprint; cross-checked at run time by the extracted RFC recogniser rfc_ok). *)
