(* CmpModel.v -- C15: executable model of the comparison operators and of
   Memory::Sort, their specification and the boolean oracles.  Definitions
   only; proofs are in CmpProofs*.v.

   Modelled C++ (the tree AFTER findings/D3, D4, D5 patches):
     StringUtils::IsLess / IsGreater / IsEqual      Include/StringUtils.hpp
     String / StringView operator == != < <= > >=   Include/String.hpp, StringView.hpp
     Value operator < > <= >= ==                    Include/Value.hpp
     Memory::Sort<Ascend_T>                         Include/Memory.hpp
   Constants (ValueType enumerator values, signedness of the character types)
   come from gen/Tables_cmp.v, regenerated from the headers on every run.

   Code units are [N].  A string is the list of its code units; the explicit
   length arguments of the C++ are the list lengths (String/StringView always
   pass their own Length()). *)
From Coq Require Import NArith ZArith List Bool.
From Coq Require Import Floats.SpecFloat.
From Qv Require Import gen.Tables_cmp.
Import ListNotations.
Local Open Scope N_scope.

(* ------------------------------------------------------------------ *)
(** * Code units: how [left[offset] < right[offset]] compares two units *)

(* A signed character type compares its units as two's-complement numbers.
   [ukey] maps a unit to a number whose unsigned order is the order the C++
   comparison uses: for a signed type of [bits] bits the two halves of the
   range are exchanged; units outside the type's range are left alone, so the
   map is a bijection on N (no range hypothesis is needed in the theorems). *)
Definition ukey_sb (signed : bool) (bits : N) (u : N) : N :=
  if signed then
    let h := 2 ^ (bits - 1) in
    if u <? h then u + h else if u <? 2 * h then u - h else u
  else u.

(* width code: 0 char, 1 char16_t, 2 char32_t, 3 (anything else) wchar_t *)
Definition ukey (w : N) (u : N) : N :=
  match w with
  | 0 => ukey_sb char8_signed 8 u
  | 1 => ukey_sb char16_signed 16 u
  | 2 => ukey_sb char32_signed 32 u
  | _ => ukey_sb wchar_signed wchar_bits u
  end.

Definition cu_lt (w a b : N) : bool := ukey w a <? ukey w b.   (* a < b  *)
Definition cu_gt (w a b : N) : bool := ukey w b <? ukey w a.   (* a > b  *)

(* ------------------------------------------------------------------ *)
(** * StringUtils::IsLess / IsGreater / IsEqual *)

(* while ((left_length > offset) && (right_length > offset)) { ... ++offset; }
   return (left_length < right_length) || (orEqual && left_length == right_length);
   The loop consumes both strings in step; at its exit one of them is used up,
   and comparing the total lengths is comparing what is left. *)
Fixpoint is_less (w : N) (l r : list N) (orEqual : bool) : bool :=
  match l, r with
  | x :: l', y :: r' =>
      if cu_gt w x y then false
      else if cu_lt w x y then true
      else is_less w l' r' orEqual
  | _, _ => (length l <? length r)%nat || (orEqual && (length l =? length r)%nat)
  end.

Fixpoint is_greater (w : N) (l r : list N) (orEqual : bool) : bool :=
  match l, r with
  | x :: l', y :: r' =>
      if cu_lt w x y then false
      else if cu_gt w x y then true
      else is_greater w l' r' orEqual
  | _, _ => (length r <? length l)%nat || (orEqual && (length l =? length r)%nat)
  end.

(* IsEqual(left, right, length): while (length > offset && left[offset] == right[offset]) ++offset;
   return length == offset.  A read past the end of either list is [None]. *)
Fixpoint is_equal (l r : list N) (len : nat) : option bool :=
  match len with
  | O => Some true
  | S n =>
      match l, r with
      | x :: l', y :: r' => if x =? y then is_equal l' r' n else Some false
      | _, _ => None
      end
  end.

(* ------------------------------------------------------------------ *)
(** * The operator family of String and of StringView (identical bodies) *)

Definition str_lt (w : N) (a b : list N) : bool := is_less w a b false.
Definition str_le (w : N) (a b : list N) : bool := is_less w a b true.
Definition str_gt (w : N) (a b : list N) : bool := is_greater w a b false.
Definition str_ge (w : N) (a b : list N) : bool := is_greater w a b true.
(* (Length() == string.Length()) && IsEqual(First(), string.First(), Length()) *)
Definition str_eq (a b : list N) : option bool :=
  if (length a =? length b)%nat then is_equal a b (length a) else Some false.
Definition str_eqb (a b : list N) : bool :=
  match str_eq a b with Some x => x | None => false end.
Definition str_ne (a b : list N) : bool := negb (str_eqb a b).

(* the six results in the order  <  <=  >  >=  ==  != ; [None] = out-of-bounds read *)
Definition str_ops (w : N) (a b : list N) : option (list bool) :=
  match str_eq a b with
  | Some e => Some [str_lt w a b; str_le w a b; str_gt w a b; str_ge w a b; e; negb e]
  | None => None
  end.

(* ------------------------------------------------------------------ *)
(** * Specification for strings: lexicographic order by code unit *)

Inductive lex_lt (w : N) : list N -> list N -> Prop :=
| lex_nil  : forall y r, lex_lt w [] (y :: r)                      (* a proper prefix sorts first *)
| lex_head : forall x y l r, ukey w x < ukey w y -> lex_lt w (x :: l) (y :: r)
| lex_tail : forall x l r, lex_lt w l r -> lex_lt w (x :: l) (x :: r).

Fixpoint lex_cmp (w : N) (l r : list N) : comparison :=
  match l, r with
  | [], [] => Eq
  | [], _ :: _ => Lt
  | _ :: _, [] => Gt
  | x :: l', y :: r' =>
      match ukey w x ?= ukey w y with
      | Eq => lex_cmp w l' r'
      | c => c
      end
  end.

(* the six operator results a total order with three-way result [c] must give *)
Definition ops_of_cmp (c : comparison) : list bool :=
  match c with
  | Lt => [true; true; false; false; false; true]
  | Eq => [false; true; false; true; true; false]
  | Gt => [false; false; true; true; false; true]
  end.

Fixpoint bools_eqb (a b : list bool) : bool :=
  match a, b with
  | [], [] => true
  | x :: a', y :: b' => Bool.eqb x y && bools_eqb a' b'
  | _, _ => false
  end.

(* oracle for a string pair: the implementation's six results *)
Definition str_pair_oracle (w : N) (a b : list N) (impl : list bool) : bool :=
  bools_eqb impl (ops_of_cmp (lex_cmp w a b)).

(* ------------------------------------------------------------------ *)
(** * The (const Char_T * ) overloads and the hash-table items *)

(* StringUtils::Count(str): the right operand is what precedes the first NUL *)
Fixpoint cstr_cut (b : list N) : list N :=
  match b with
  | [] => []
  | x :: r => if x =? 0 then [] else x :: cstr_cut r
  end.

(* String / StringView  operator OP (const Char_T *str):  the same helper with
   right_length = Count(str); operator== is IsEqual(str, Count(str)) = length test + IsEqual *)
Definition cstr_ops (w : N) (a b : list N) : option (list bool) := str_ops w a (cstr_cut b).
Definition cstr_pair_oracle (w : N) (a b : list N) (impl : list bool) : bool :=
  str_pair_oracle w a (cstr_cut b) impl.

(* HAItem_T / HLItem_T  operator < > <= >= ==  : (Key OP item.Key), nothing else is looked at *)
Definition item_ops (w : N) (ka kb : list N) : option (list bool) :=
  match str_eq ka kb with
  | Some e => Some [str_lt w ka kb; str_gt w ka kb; str_le w ka kb; str_ge w ka kb; e]
  | None => None
  end.
Definition item_ops_of_cmp (c : comparison) : list bool :=
  match c with
  | Lt => [true; false; true; false; false]
  | Eq => [false; false; true; true; true]
  | Gt => [false; true; false; true; false]
  end.
Definition item_pair_oracle (w : N) (ka kb : list N) (impl : list bool) : bool :=
  bools_eqb impl (item_ops_of_cmp (lex_cmp w ka kb)).

(* ------------------------------------------------------------------ *)
(** * Doubles (as 64-bit patterns) *)

Definition dbl_isnan (b : N) : bool :=
  (((b / 2 ^ 52) mod 2 ^ 11) =? 2047) && negb ((b mod 2 ^ 52) =? 0).
(* sign-magnitude reading of the pattern: for non-NaN patterns the IEEE order
   is the order of these integers (-0 and +0 both give 0) *)
Definition dbl_key (b : N) : Z :=
  let mag := Z.of_N (b mod 2 ^ 63) in
  if ((b / 2 ^ 63) mod 2) =? 1 then (- mag)%Z else mag.
Definition dbl_ord (a b : N) : bool := negb (dbl_isnan a) && negb (dbl_isnan b).
Definition dbl_lt (a b : N) : bool := dbl_ord a b && (dbl_key a <? dbl_key b)%Z.
Definition dbl_gt (a b : N) : bool := dbl_ord a b && (dbl_key b <? dbl_key a)%Z.
Definition dbl_le (a b : N) : bool := dbl_ord a b && (dbl_key a <=? dbl_key b)%Z.
Definition dbl_ge (a b : N) : bool := dbl_ord a b && (dbl_key b <=? dbl_key a)%Z.
Definition dbl_eq (a b : N) : bool := dbl_ord a b && (dbl_key a =? dbl_key b)%Z.

(* specification side: the pattern as a Coq [spec_float] (binary64) *)
Definition sf_of_bits (b : N) : spec_float :=
  let s := ((b / 2 ^ 63) mod 2) =? 1 in
  let e := (b / 2 ^ 52) mod 2 ^ 11 in
  let m := b mod 2 ^ 52 in
  if e =? 0 then
    match m with
    | N0 => S754_zero s
    | Npos p => S754_finite s p (-1074)
    end
  else if e =? 2047 then
    (if m =? 0 then S754_infinity s else S754_nan)
  else
    match m + 2 ^ 52 with
    | N0 => S754_nan (* unreachable *)
    | Npos p => S754_finite s p (Z.of_N e - 1075)
    end.

(* ------------------------------------------------------------------ *)
(** * Value *)

(* Only what the comparison operators look at: the kind, and per kind the
   number of slots (Object: HArray::Size(), Array: Array::Size()), the string,
   the number, or the pointed-to value. *)
Inductive value : Type :=
| VUndef
| VPtr (p : value)
| VObj (size : N)
| VArr (size : N)
| VStr (s : list N)
| VUInt (n : N)
| VInt (z : Z)
| VDbl (bits : N)
| VTrue
| VFalse
| VNull.

(* ValueType as a number: the order of kinds *)
Definition rank (v : value) : N :=
  match v with
  | VUndef => vt_undefined
  | VPtr _ => vt_valueptr
  | VObj _ => vt_object
  | VArr _ => vt_array
  | VStr _ => vt_string
  | VUInt _ => vt_uintlong
  | VInt _ => vt_intlong
  | VDbl _ => vt_double
  | VTrue => vt_true
  | VFalse => vt_false
  | VNull => vt_null
  end.

Inductive cop := OpLt | OpGt | OpLe | OpGe | OpEq.

Definition n_op (op : cop) (x y : N) : bool :=
  match op with OpLt => x <? y | OpGt => y <? x | OpLe => x <=? y | OpGe => y <=? x | OpEq => x =? y end.
Definition z_op (op : cop) (x y : Z) : bool :=
  match op with OpLt => (x <? y)%Z | OpGt => (y <? x)%Z | OpLe => (x <=? y)%Z | OpGe => (y <=? x)%Z | OpEq => (x =? y)%Z end.
Definition d_op (op : cop) (x y : N) : bool :=
  match op with OpLt => dbl_lt x y | OpGt => dbl_gt x y | OpLe => dbl_le x y | OpGe => dbl_ge x y | OpEq => dbl_eq x y end.
Definition s_op (w : N) (op : cop) (x y : list N) : bool :=
  match op with OpLt => str_lt w x y | OpGt => str_gt w x y | OpLe => str_le w x y | OpGe => str_ge w x y | OpEq => str_eqb x y end.
(* case True / False / Null / Undefined of the switch *)
Definition unit_op (op : cop) : bool :=
  match op with OpLt | OpGt => false | OpLe | OpGe | OpEq => true end.
(* the final  return (type < val.Type())  etc.; operator== returns false (D4 patch) *)
Definition cross_op (op : cop) (ra rb : N) : bool :=
  match op with OpLt | OpLe => ra <? rb | OpGt | OpGe => rb <? ra | OpEq => false end.

(* neither operand is a ValuePtr (or, for the unpatched D5 behaviour, the fall
   through with a pointer on the right): same kind -> by content, else by kind *)
Definition v_core (w : N) (op : cop) (a b : value) : bool :=
  match a, b with
  | VObj x, VObj y => n_op op x y
  | VArr x, VArr y => n_op op x y
  | VStr x, VStr y => s_op w op x y
  | VUInt x, VUInt y => n_op op x y
  | VInt x, VInt y => z_op op x y
  | VDbl x, VDbl y => d_op op x y
  | VTrue, VTrue | VFalse, VFalse | VNull, VNull | VUndef, VUndef => unit_op op
  | _, _ => cross_op op (rank a) (rank b)
  end.

(* "else if (val.Type() == ValueType::ValuePtr) return operator<(*(val.value_));"  (D5 patch) *)
Fixpoint v_op_r (w : N) (op : cop) (a b : value) {struct b} : bool :=
  match b with
  | VPtr pb => v_op_r w op a pb
  | _ => v_core w op a b
  end.

(* both pointers: compare the targets; left pointer only: value_->operator<(val) *)
Fixpoint v_op (w : N) (op : cop) (a b : value) {struct a} : bool :=
  match a with
  | VPtr pa =>
      match b with
      | VPtr pb => v_op w op pa pb
      | _ => v_op w op pa b
      end
  | _ => v_op_r w op a b
  end.

Definition v_lt w := v_op w OpLt.
Definition v_gt w := v_op w OpGt.
Definition v_le w := v_op w OpLe.
Definition v_ge w := v_op w OpGe.
Definition v_eq w := v_op w OpEq.
(* results in the order  <  >  <=  >=  ==  *)
Definition v_ops (w : N) (a b : value) : list bool :=
  [v_lt w a b; v_gt w a b; v_le w a b; v_ge w a b; v_eq w a b].

Fixpoint deref (v : value) : value :=
  match v with VPtr p => deref p | _ => v end.

(* a NaN somewhere makes the pair unordered: outside the order theorems *)
Definition v_nan (v : value) : bool :=
  match deref v with VDbl b => dbl_isnan b | _ => false end.

(** ** Specification for values: kind first, then content *)
Definition sf_cmp (a b : N) : option comparison := SFcompare (sf_of_bits a) (sf_of_bits b).

Definition vspec_cmp (w : N) (a b : value) : option comparison :=
  match deref a, deref b with
  | VObj x, VObj y => Some (x ?= y)
  | VArr x, VArr y => Some (x ?= y)
  | VStr x, VStr y => Some (lex_cmp w x y)
  | VUInt x, VUInt y => Some (x ?= y)
  | VInt x, VInt y => Some (x ?= y)%Z
  | VDbl x, VDbl y => sf_cmp x y
  | x, y => Some (rank x ?= rank y)
  end.

(* expected  <  >  <=  >=  ==  *)
Definition vops_of_cmp (c : option comparison) : list bool :=
  match c with
  | Some Lt => [true; false; true; false; false]
  | Some Eq => [false; false; true; true; true]
  | Some Gt => [false; true; false; true; false]
  | None => [false; false; false; false; false]
  end.

Definition val_pair_oracle (w : N) (a b : value) (impl : list bool) : bool :=
  bools_eqb impl (vops_of_cmp (vspec_cmp w a b)).

(* ------------------------------------------------------------------ *)
(** * Memory::Sort *)

(* One call  Sort(arr, start, end)  works on the segment arr[start..end); the
   model is a function on that segment.  item = arr[start] is the pivot [p]
   (arr[start] is not written before the final swap).  Loop state:
     los = arr[start+1 .. index]      his = arr[index+1 .. offset)    rem = arr[offset .. end)
   A unit with  cmp x p  is exchanged with the first unit of [his] (or with
   itself when [his] is empty):  ++index; Swap(arr[index], arr[offset]). *)
Section Sort.
  Context {A : Type}.
  Variable cmp : A -> A -> bool.   (* Ascend_T: arr[offset] < item ; else arr[offset] > item *)

  Fixpoint part (p : A) (los his rem : list A) : list A * list A :=
    match rem with
    | [] => (los, his)
    | x :: rem' =>
        if cmp x p then
          match his with
          | [] => part p (los ++ [x]) [] rem'
          | h :: hs => part p (los ++ [x]) (hs ++ [h]) rem'
          end
        else part p los (his ++ [x]) rem'
    end.

  (* if (index != start) Swap(arr[index], arr[start]):  p :: los  becomes  last los :: (los without last) ++ [p];
     then Sort(arr, start, index) and Sort(arr, index + 1, end).  [fuel] bounds the
     recursion depth; [None] = out of fuel. *)
  Fixpoint msort (fuel : nat) (l : list A) : option (list A) :=
    match fuel with
    | O => None
    | S f =>
        match l with
        | [] => Some []
        | p :: rest =>
            let (los, his) := part p [] [] rest in
            let left := match los with [] => [] | _ :: _ => last los p :: removelast los end in
            match msort f left, msort f his with
            | Some a, Some b => Some (a ++ p :: b)
            | _, _ => None
            end
        end
    end.

  Definition sort (l : list A) : option (list A) := msort (S (length l)) l.
End Sort.

(* instances used by the library *)
Definition sort_n (asc : bool) (l : list N) : option (list N) :=
  sort (if asc then N.ltb else fun a b => N.ltb b a) l.
Definition sort_str (w : N) (asc : bool) (l : list (list N)) : option (list (list N)) :=
  sort (if asc then str_lt w else str_gt w) l.
Definition sort_val (w : N) (asc : bool) (l : list value) : option (list value) :=
  sort (if asc then v_lt w else v_gt w) l.
(* HAItem_T compares by Key only; a removed slot has an empty key and no value *)
Definition item : Type := (list N * option N)%type.
Definition sort_items (w : N) (asc : bool) (l : list item) : option (list item) :=
  sort (fun a b => if asc then str_lt w (fst a) (fst b) else str_gt w (fst a) (fst b)) l.
Definition live_items (l : list item) : list (list N * N) :=
  flat_map (fun it => match snd it with Some v => [(fst it, v)] | None => [] end) l.

(* ------------------------------------------------------------------ *)
(** * Oracles for sorted results *)

Section SortOracle.
  Context {A : Type}.
  Variable leb : A -> A -> bool.   (* "may stand before" *)
  Variable eqb : A -> A -> bool.   (* identity of elements *)

  Fixpoint sortedb (l : list A) : bool :=
    match l with
    | [] => true
    | x :: l' => forallb (leb x) l' && sortedb l'
    end.

  Fixpoint remove1 (x : A) (l : list A) : option (list A) :=
    match l with
    | [] => None
    | y :: l' => if eqb x y then Some l'
                 else match remove1 x l' with Some r => Some (y :: r) | None => None end
    end.

  Fixpoint permb (l1 l2 : list A) : bool :=
    match l1 with
    | [] => match l2 with [] => true | _ => false end
    | x :: l1' => match remove1 x l2 with Some r => permb l1' r | None => false end
    end.

  Definition sort_oracle (input output : list A) : bool := sortedb output && permb output input.
End SortOracle.

Fixpoint list_eqb (a b : list N) : bool :=
  match a, b with
  | [], [] => true
  | x :: a', y :: b' => (x =? y) && list_eqb a' b'
  | _, _ => false
  end.

Definition cmp_leb (asc : bool) (c : comparison) : bool :=
  match c with Eq => true | Lt => asc | Gt => negb asc end.
Definition cmp_ltb (asc : bool) (c : comparison) : bool :=
  match c with Eq => false | Lt => asc | Gt => negb asc end.

Definition n_sort_oracle (asc : bool) (input output : list N) : bool :=
  sort_oracle (fun a b => cmp_leb asc (a ?= b)) N.eqb input output.
Definition str_sort_oracle (w : N) (asc : bool) (input output : list (list N)) : bool :=
  sort_oracle (fun a b => cmp_leb asc (lex_cmp w a b)) list_eqb input output.

(* values: elements are identified after following pointers and with -0 = +0
   (the driver prints them that way); a NaN in the input makes the case void *)
Definition dbl_canon (b : N) : N := if b =? 2 ^ 63 then 0 else b.
Definition v_norm (v : value) : value :=
  match deref v with VDbl b => VDbl (dbl_canon b) | x => x end.
Definition v_same (a b : value) : bool :=
  match a, b with
  | VUndef, VUndef | VTrue, VTrue | VFalse, VFalse | VNull, VNull => true
  | VObj x, VObj y | VArr x, VArr y | VUInt x, VUInt y | VDbl x, VDbl y => x =? y
  | VStr x, VStr y => list_eqb x y
  | VInt x, VInt y => (x =? y)%Z
  | _, _ => false
  end.
Definition val_sort_oracle (w : N) (asc : bool) (input output : list value) : bool :=
  existsb v_nan input ||
  sort_oracle (fun a b => match vspec_cmp w a b with Some c => cmp_leb asc c | None => false end)
              v_same (map v_norm input) output.

(** ** Hash array: expected content from the operation list (association list) *)
Fixpoint al_put (k : list N) (v : N) (l : list (list N * N)) : list (list N * N) :=
  match l with
  | [] => [(k, v)]
  | (k', v') :: l' => if list_eqb k k' then (k', v) :: l' else (k', v') :: al_put k v l'
  end.
Definition al_del (k : list N) (l : list (list N * N)) : list (list N * N) :=
  filter (fun e => negb (list_eqb k (fst e))) l.
Fixpoint al_get (k : list N) (l : list (list N * N)) : option N :=
  match l with
  | [] => None
  | (k', v') :: l' => if list_eqb k k' then Some v' else al_get k l'
  end.
(* an operation is (key, Some v) = insert-or-assign, (key, None) = remove *)
Definition al_run (ops : list (list N * option N)) : list (list N * N) :=
  fold_left (fun l o => match snd o with Some v => al_put (fst o) v l | None => al_del (fst o) l end) ops [].

Definition entry_eqb (a b : list N * N) : bool := list_eqb (fst a) (fst b) && (snd a =? snd b).
Definition optn_eqb (a b : option N) : bool :=
  match a, b with Some x, Some y => x =? y | None, None => true | _, _ => false end.
Fixpoint optl_eqb (a b : list (option N)) : bool :=
  match a, b with
  | [], [] => true
  | x :: a', y :: b' => optn_eqb x y && optl_eqb a' b'
  | _, _ => false
  end.

(* after Sort: the live entries in iteration order are strictly ordered by key,
   are exactly the expected entries, and every queried key is found with the
   right value (absent keys are not found) *)
Definition harray_sort_oracle (w : N) (asc : bool) (ops : list (list N * option N)) (queries : list (list N))
           (post : list (list N * N)) (looked : list (option N)) : bool :=
  let expect := al_run ops in
  sortedb (fun a b => cmp_ltb asc (lex_cmp w (fst a) (fst b))) post
  && permb entry_eqb post expect
  && optl_eqb looked (map (fun q => al_get q expect) queries).
