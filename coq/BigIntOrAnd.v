(* BigIntOrAnd.v -- C19 lemmas, part 10: |= and &= with an operand type at least two words
   wide (D10 repaired): word-wise or / and with the words of the operand. *)
From Coq Require Import Arith NArith ZArith List Bool Lia Psatz.
From Coq Require Import ZifyBool ZifyNat ZifyN.
From Qv Require Import BigIntModel BigIntProofs BigIntHelpers BigIntShift BigIntBits BigIntWide BigIntSetWide.
Import ListNotations.
Local Open Scope N_scope.

Section W.
  Variable w : N.
  Hypothesis w_pos : 0 < w.
  Notation B := (Bw w).
  Notation val := (value w).
  Notation pw := (pw w).
  Notation bval := (bval w).

  (* two-level decomposition of or / and *)
  Lemma lor_cons : forall a b x y, a < B -> b < B -> N.lor (a + B * x) (b + B * y) = N.lor a b + B * N.lor x y.
  Proof.
    intros a b x y Ha Hb. unfold Bw in *. rewrite !(N.mul_comm (2 ^ w)).
    rewrite <- !lor_disjoint_add by (try assumption; apply lor_lt_pow2; assumption).
    rewrite <- !N.shiftl_mul_pow2, N.shiftl_lor.
    rewrite <- !N.lor_assoc. f_equal. rewrite !N.lor_assoc. f_equal. apply N.lor_comm.
  Qed.

  Lemma land_cons : forall a b x y, a < B -> b < B -> N.land (a + B * x) (b + B * y) = N.land a b + B * N.land x y.
  Proof.
    intros a b x y Ha Hb. unfold Bw in *. rewrite !(N.mul_comm (2 ^ w)).
    assert (Hl : N.land a b < 2 ^ w) by (pose proof (land_le_l a b); lia).
    rewrite <- !lor_disjoint_add by assumption.
    rewrite N.land_lor_distr_l, !N.land_lor_distr_r.
    rewrite (land_shift_low w a y Ha).
    rewrite (N.land_comm (x * 2 ^ w) b), (land_shift_low w b x Hb).
    rewrite N.lor_0_r, N.lor_0_l.
    rewrite <- !N.shiftl_mul_pow2, <- N.shiftl_land. reflexivity.
  Qed.

  (* the words of a number *)
  Fixpoint words_of (n : nat) (v : N) : list N :=
    match n with O => [] | S k => v mod B :: words_of k (v / B) end.

  Lemma words_of_length : forall n v, length (words_of n v) = n.
  Proof. induction n as [|n IH]; intros v; cbn; [reflexivity|]. rewrite IH. reflexivity. Qed.

  Lemma words_of_ok : forall n v, wordsok w (words_of n v).
  Proof.
    induction n as [|n IH]; intros v; cbn [words_of]; constructor; [|apply IH].
    apply N.mod_lt. pose proof (B_pos w). lia.
  Qed.

  Lemma words_of_val : forall n v, v < pw n -> val (words_of n v) = v.
  Proof.
    induction n as [|n IH]; intros v Hv.
    - rewrite pw_0 in Hv. cbn. lia.
    - cbn [words_of value]. pose proof (B_pos w) as HB. rewrite pw_S in Hv.
      rewrite IH by (apply N.div_lt_upper_bound; lia).
      pose proof (N.div_mod v B ltac:(lia)). lia.
  Qed.

  Lemma words_of_nth : forall n v p, (p < n)%nat -> nth p (words_of n v) 0 = (v / pw p) mod B.
  Proof.
    induction n as [|n IH]; intros v p Hp; [lia|].
    destruct p as [|p]; cbn [words_of nth].
    - rewrite pw_0, N.div_1_r. reflexivity.
    - rewrite IH by lia. rewrite pw_S, N.div_div; [reflexivity| |].
      + pose proof (B_pos w). lia.
      + pose proof (pw_pos w p). lia.
  Qed.

  (* point-wise or / and of two word lists is or / and of the values *)
  Section Pointwise.
    Variable f : N -> N -> N.
    Hypothesis f_cons : forall a b x y, a < B -> b < B -> f (a + B * x) (b + B * y) = f a b + B * f x y.
    Hypothesis f_00 : f 0 0 = 0.

    Lemma val_pointwise : forall l lb l', length lb = length l -> length l' = length l ->
      wordsok w l -> wordsok w lb ->
      (forall p, nth p l' 0 = f (nth p l 0) (nth p lb 0)) -> val l' = f (val l) (val lb).
    Proof.
      induction l as [|a t IH]; intros lb l' Hlb Hl' Hw Hwb Hp.
      - destruct lb; [|discriminate]. destruct l'; [|discriminate]. cbn. symmetry. exact f_00.
      - destruct lb as [|b tb]; [discriminate|]. destruct l' as [|c t']; [discriminate|].
        inversion Hw; subst. inversion Hwb; subst. cbn [value].
        rewrite f_cons by assumption.
        rewrite (IH tb t'); cbn in *; try lia; auto.
        + pose proof (Hp O) as H0. cbn in H0. rewrite H0. reflexivity.
        + intros p. exact (Hp (S p)).
    Qed.
  End Pointwise.

  (* the loop over the higher operand words; k is KOr or KAnd *)
  Definition fop (k : opk) : N -> N -> N := match k with KAnd => N.land | _ => N.lor end.

  Lemma wide_bit_loop : forall k, k = KOr \/ k = KAnd ->
    forall fuel s number i, wordsok w (words s) -> (index s < length (words s))%nat ->
    (N.size_nat number < fuel)%nat -> (number = 0 \/ number * pw i < pw (length (words s))) ->
    exists s' j, wide_loop w fuel k s number i = Ok (s', j) /\ (i <= j)%nat /\
      (j = i \/ j <= length (words s))%nat /\
      wordsok w (words s') /\ length (words s') = length (words s) /\
      (forall p, (p < i \/ j <= p)%nat -> nth p (words s') 0 = nth p (words s) 0) /\
      (forall p, (i <= p < j)%nat -> nth p (words s') 0 = fop k (nth p (words s) 0) ((number / pw (p - i)) mod B)) /\
      number / pw (j - i) = 0 /\
      (index s' < length (words s))%nat /\
      (k = KOr -> index s' = Nat.max (index s) (j - 1) \/ (j = i /\ index s' = index s)) /\
      (k = KOr -> j = i \/ nth (j - 1) (words s') 0 <> 0) /\
      (k = KAnd -> (index s' = index s \/ (i <= index s' < j)%nat) /\
                   (index s' = index s \/ nth (index s') (words s') 0 <> 0) /\
                   (forall p, (i <= p < j)%nat -> (index s' < p)%nat -> (index s < p)%nat -> nth p (words s') 0 = 0)).
  Proof.
    intros k Hk. induction fuel as [|f IH]; intros s number i Hw Hi Hf Hroom; [lia|].
    cbn [wide_loop]. destruct (N.eqb_spec number 0) as [->|Hnz].
    - exists s, i. split; [reflexivity|]. rewrite Nat.sub_diag, pw_0.
      repeat split; auto; try lia; try (intros; lia).
    - destruct Hroom as [|Hroom]; [contradiction|].
      pose proof (B_pos w) as HB. pose proof (pw_pos w i) as Hp.
      pose proof (N.div_mod number B ltac:(lia)) as Hdm. pose proof (N.mod_lt number B ltac:(lia)) as Hml.
      assert (Hil : (i < length (words s))%nat).
      { apply (pw_lt_inv w w_pos). assert (pw i <= number * pw i) by nia. lia. }
      set (x := number mod B) in *. set (a := nth i (words s) 0).
      pose proof (wordsok_nth w _ i Hw Hil) as Hab. fold a in Hab.
      assert (Hq : number / B * B <= number) by (rewrite N.mul_comm; lia).
      assert (Hfb : fop k a x < B).
      { destruct Hk as [-> | ->]; cbn [fop]; [apply lor_lt_pow2; assumption|pose proof (land_le_l a x); lia]. }
      set (y := fop k a x) in *.
      assert (Estep : exists idx1, wide_step w k s x i = Ok (mkBig (upd (words s) i y) idx1) /\
                 (idx1 < length (words s))%nat /\
                 (k = KOr -> idx1 = Nat.max (index s) i) /\
                 (k = KAnd -> idx1 = if y =? 0 then index s else i)).
      { destruct Hk as [-> | ->]; cbn [wide_step]; rewrite rd_ok by assumption; cbn [bind];
          rewrite wr_ok by assumption; cbn [bind]; fold a; cbn [fop] in y; fold y.
        - exists (if (index s <? i)%nat then i else index s). split; [reflexivity|].
          destruct (Nat.ltb_spec (index s) i); repeat split; try lia; intros; try discriminate; lia.
        - exists (if y =? 0 then index s else i). split; [reflexivity|].
          destruct (y =? 0); repeat split; try lia; intros; try discriminate; reflexivity. }
      destruct Estep as (idx1 & Estep & Hidx1 & HorI & HandI). rewrite Estep. cbn [bind].
      set (l1 := upd (words s) i y).
      destruct (IH (mkBig l1 idx1) (number / B) (S i)) as (s' & j & Hrun & Hij & Hjl & Hw' & Hl' & Hsame & Hmid & Hend & Hidx' & Hor & Hor2 & Hand).
      + cbn [words]. unfold l1. apply wordsok_upd; assumption.
      + cbn [words index]. unfold l1. rewrite length_upd. exact Hidx1.
      + pose proof (size_nat_div w w_pos number Hnz). lia.
      + destruct (N.eq_dec (number / B) 0) as [|Hq0]; [left; assumption|right].
        cbn [words]. unfold l1. rewrite length_upd, pw_S.
        assert (number / B * (B * pw i) <= number * pw i).
        { replace (number / B * (B * pw i)) with (number / B * B * pw i) by ring. apply N.mul_le_mono_r. exact Hq. }
        lia.
      + cbn [words index] in *. unfold l1 in Hl', Hjl, Hidx'. rewrite length_upd in Hl', Hjl, Hidx'.
        exists s', j. split; [exact Hrun|]. split; [lia|]. split; [right; lia|].
        split; [exact Hw'|]. split; [exact Hl'|].
        assert (Hdd : forall p, (S i <= p)%nat -> number / B / pw (p - S i) = number / pw (p - i)).
        { intros p Hp'. rewrite N.div_div by (try lia; pose proof (pw_pos w (p - S i)); lia).
          rewrite <- pw_S. f_equal. f_equal. lia. }
        split; [|split; [|split; [|split; [exact Hidx'|split; [|split]]]]].
        * intros p Hp'. rewrite Hsame by lia. unfold l1. apply nth_upd_other. lia.
        * intros p Hp'. destruct (Nat.eq_dec p i) as [->|Hne].
          -- rewrite Hsame by lia. unfold l1. rewrite nth_upd_same by lia.
             rewrite Nat.sub_diag, pw_0, N.div_1_r. reflexivity.
          -- rewrite Hmid by lia. unfold l1. rewrite nth_upd_other by lia. rewrite Hdd by lia. reflexivity.
        * rewrite <- Hdd by lia. exact Hend.
        * intros ->. specialize (Hor eq_refl). specialize (HorI eq_refl). left.
          destruct Hor as [Hor|(Hj & Hor)]; lia.
        * intros ->. right. specialize (Hor2 eq_refl). destruct Hor2 as [->|Hnzj]; [|exact Hnzj].
          (* the loop stopped right after this word: x is the whole non-zero rest *)
          replace (S i - 1)%nat with i by lia. rewrite Hsame by lia. unfold l1. rewrite nth_upd_same by lia.
          replace (S i - S i)%nat with O in Hend by lia. rewrite pw_0, N.div_1_r in Hend.
          unfold y. cbn [fop]. intros Hz. apply N.lor_eq_0_iff in Hz. destruct Hz as (_ & Hz). unfold x in Hz. lia.
        * intros ->. specialize (Hand eq_refl). specialize (HandI eq_refl).
          destruct Hand as (Ha1 & Ha2 & Ha3). cbn [fop] in *.
          destruct (N.eqb_spec y 0) as [Hy0|Hy0]; subst idx1.
          -- split; [destruct Ha1; [left; assumption|right; lia]|]. split.
             ++ destruct Ha2 as [Ha2|Ha2]; [left; exact Ha2|right; exact Ha2].
             ++ intros p Hp' Hp1 Hp2. destruct (Nat.eq_dec p i) as [->|Hne].
                ** rewrite Hsame by lia. unfold l1. rewrite nth_upd_same by lia. exact Hy0.
                ** apply Ha3; lia.
          -- split; [destruct Ha1 as [Ha1|Ha1]; right; lia|]. split.
             ++ right. destruct Ha2 as [Ha2|Ha2]; [|exact Ha2].
                rewrite Ha2. rewrite Hsame by lia. unfold l1. rewrite nth_upd_same by lia. exact Hy0.
             ++ intros p Hp' Hp1 Hp2. destruct (Nat.eq_dec p i) as [->|Hne].
                ** destruct Ha1; lia.
                ** apply Ha3; lia.
  Qed.

  (* the operand's word p, for every p *)
  Lemma words_of_nth_all : forall n v p, v < pw n -> nth p (words_of n v) 0 = (v / pw p) mod B.
  Proof.
    intros n v p Hv. destruct (Nat.lt_ge_cases p n) as [Hp|Hp]; [apply words_of_nth; exact Hp|].
    rewrite nth_overflow by (rewrite words_of_length; lia).
    assert (pw n <= pw p).
    { replace p with (n + (p - n))%nat by lia. rewrite pw_add. pose proof (pw_pos w (p - n)). pose proof (pw_pos w n). nia. }
    rewrite N.div_small by lia. rewrite N.mod_0_l; [reflexivity|]. pose proof (B_pos w). lia.
  Qed.

  Lemma div_pw_zero_mono : forall v j p, v / pw j = 0 -> (j <= p)%nat -> v / pw p = 0.
  Proof.
    intros v j p Hz Hp. pose proof (pw_pos w j). pose proof (pw_pos w (p - j)).
    apply N.div_small_iff in Hz; [|lia]. apply N.div_small.
    replace p with (j + (p - j))%nat by lia. rewrite pw_add. nia.
  Qed.

  Theorem or_wide_correct : forall ow s v, 1 < ow / w -> WF w s -> v < pw (length (words s)) ->
    exists s', do_operation_t w KOr ow s v = Ok s' /\ WF w s' /\ bval s' = N.lor (bval s) v /\
               length (words s') = length (words s).
  Proof.
    intros ow s v How HWF Hfit. pose proof HWF as ((Hw & Hi & Ha) & Ht).
    unfold do_operation_t. cbn [word0_step]. rewrite rd_ok by lia. cbn [bind]. rewrite wr_ok by lia. cbn [bind].
    destruct (N.ltb_spec 1 (ow / w)) as [_|]; [|lia].
    pose proof (B_pos w) as HB.
    pose proof (N.div_mod v B ltac:(lia)) as Hdm. pose proof (N.mod_lt v B ltac:(lia)) as Hml.
    set (a0 := nth 0 (words s) 0). pose proof (wordsok_nth w _ 0%nat Hw ltac:(lia)) as Ha0. fold a0 in Ha0.
    assert (Hy0 : N.lor a0 (v mod B) < B) by (apply lor_lt_pow2; assumption).
    set (l0 := upd (words s) 0 (N.lor a0 (v mod B))).
    rewrite size_nat_equiv.
    destruct (wide_bit_loop KOr (or_introl eq_refl) (S (N.size_nat v)) (mkBig l0 (index s)) (v / B) 1)
      as (s1 & j & Hrun & Hij & Hjl & Hw1 & Hl1 & Hsame & Hmid & Hend & Hidx1 & Hor & Hor2 & _).
    - cbn [words]. unfold l0. apply wordsok_upd; assumption.
    - cbn [words index]. unfold l0. rewrite length_upd. exact Hi.
    - destruct (N.eq_dec v 0) as [->|Hvnz]; [cbn; lia|]. pose proof (size_nat_div w w_pos v Hvnz). lia.
    - destruct (N.eq_dec (v / B) 0) as [|Hq0]; [left; assumption|right].
      cbn [words]. unfold l0. rewrite length_upd, pw_S, pw_0. lia.
    - rewrite Hrun. cbn [bind]. cbn [words index] in *. unfold l0 in Hl1, Hjl, Hidx1. rewrite length_upd in Hl1, Hjl, Hidx1.
      specialize (Hor eq_refl). specialize (Hor2 eq_refl).
      assert (Hvj : v / pw j = 0).
      { replace j with (S (j - 1)) by lia. rewrite pw_S. rewrite <- N.div_div by (try lia; pose proof (pw_pos w (j - 1)); lia). exact Hend. }
      assert (Hdd : forall p, (1 <= p)%nat -> v / B / pw (p - 1) = v / pw p).
      { intros p Hp. rewrite N.div_div by (try lia; pose proof (pw_pos w (p - 1)); lia).
        rewrite <- pw_S. f_equal. f_equal. lia. }
      assert (Hnth : forall p, nth p (words s1) 0 = N.lor (nth p (words s) 0) (nth p (words_of (length (words s)) v) 0)).
      { intros p. rewrite words_of_nth_all by exact Hfit.
        destruct (Nat.eq_dec p 0) as [->|Hp0].
        - rewrite Hsame by lia. unfold l0. rewrite nth_upd_same by lia. rewrite pw_0, N.div_1_r. reflexivity.
        - destruct (Nat.lt_ge_cases p j) as [Hpj|Hpj].
          + rewrite Hmid by lia. cbn [fop]. unfold l0. rewrite nth_upd_other by lia. rewrite Hdd by lia. reflexivity.
          + rewrite Hsame by lia. unfold l0. rewrite nth_upd_other by lia.
            rewrite (div_pw_zero_mono v j p Hvj Hpj). rewrite N.mod_0_l by lia. rewrite N.lor_0_r. reflexivity. }
      exists s1. split; [reflexivity|]. split; [|split; [|exact Hl1]].
      + split; [split; [exact Hw1|split; [lia|]]|].
        * intros p Hp. rewrite Hsame by (destruct Hor as [Hor|(Hj & Hor)]; lia).
          unfold l0. rewrite nth_upd_other by lia. apply Ha. destruct Hor as [Hor|(Hj & Hor)]; lia.
        * unfold top_nonzero. destruct (Nat.eq_dec (index s1) 0) as [E|E]; [left; exact E|right].
          destruct (Nat.eq_dec (index s1) (index s)) as [Es|Es].
          -- rewrite Es, Hnth. destruct Ht as [Ht|Ht]; [lia|]. intros Hz.
             apply N.lor_eq_0_iff in Hz. destruct Hz as (Hz & _). contradiction.
          -- assert (Hj1 : index s1 = (j - 1)%nat) by (destruct Hor as [Hor|(Hj & Hor)]; lia).
             rewrite Hj1. destruct Hor2 as [Hj|Hnz]; [lia|exact Hnz].
      + unfold BigIntProofs.bval.
        transitivity (N.lor (val (words s)) (val (words_of (length (words s)) v)));
          [|rewrite words_of_val by exact Hfit; reflexivity].
        apply (val_pointwise N.lor lor_cons eq_refl);
          [apply words_of_length|exact Hl1|exact Hw|apply words_of_ok|exact Hnth].
  Qed.

  Theorem and_wide_correct : forall ow s v, 1 < ow / w -> WF w s -> v < pw (length (words s)) ->
    exists s', do_operation_t w KAnd ow s v = Ok s' /\ WF w s' /\ bval s' = N.land (bval s) v /\
               length (words s') = length (words s).
  Proof.
    intros ow s v How HWF Hfit. pose proof HWF as ((Hw & Hi & Ha) & Ht).
    unfold do_operation_t. cbn [word0_step]. rewrite rd_ok by lia. cbn [bind]. rewrite wr_ok by lia. cbn [bind].
    destruct (N.ltb_spec 1 (ow / w)) as [_|]; [|lia].
    pose proof (B_pos w) as HB.
    pose proof (N.div_mod v B ltac:(lia)) as Hdm. pose proof (N.mod_lt v B ltac:(lia)) as Hml.
    set (a0 := nth 0 (words s) 0). pose proof (wordsok_nth w _ 0%nat Hw ltac:(lia)) as Ha0. fold a0 in Ha0.
    assert (Hy0 : N.land a0 (v mod B) < B) by (pose proof (land_le_l a0 (v mod B)); lia).
    set (l0 := upd (words s) 0 (N.land a0 (v mod B))).
    rewrite size_nat_equiv.
    destruct (wide_bit_loop KAnd (or_intror eq_refl) (S (N.size_nat v)) (mkBig l0 0) (v / B) 1)
      as (s1 & j & Hrun & Hij & Hjl & Hw1 & Hl1 & Hsame & Hmid & Hend & Hidx1 & _ & _ & Hand).
    - cbn [words]. unfold l0. apply wordsok_upd; assumption.
    - cbn [words index]. unfold l0. rewrite length_upd. lia.
    - destruct (N.eq_dec v 0) as [->|Hvnz]; [cbn; lia|]. pose proof (size_nat_div w w_pos v Hvnz). lia.
    - destruct (N.eq_dec (v / B) 0) as [|Hq0]; [left; assumption|right].
      cbn [words]. unfold l0. rewrite length_upd, pw_S, pw_0. lia.
    - rewrite Hrun. cbn [bind]. cbn [words index] in *. unfold l0 in Hl1, Hjl, Hidx1. rewrite length_upd in Hl1, Hjl, Hidx1.
      destruct (Hand eq_refl) as (Ha1 & Ha2 & Ha3).
      assert (Hjn : (j <= length (words s))%nat) by lia.
      destruct (clear_down_spec w (S (index s) - j) (words s1) j Hw1 ltac:(lia)) as (l2 & Hrun2 & Hl2 & Hw2 & Hz2 & Hs2).
      rewrite Hrun2. cbn [bind].
      assert (Hvj : v / pw j = 0).
      { replace j with (S (j - 1)) by lia. rewrite pw_S. rewrite <- N.div_div by (try lia; pose proof (pw_pos w (j - 1)); lia). exact Hend. }
      assert (Hdd : forall p, (1 <= p)%nat -> v / B / pw (p - 1) = v / pw p).
      { intros p Hp. rewrite N.div_div by (try lia; pose proof (pw_pos w (p - 1)); lia).
        rewrite <- pw_S. f_equal. f_equal. lia. }
      assert (Hnth : forall p, nth p l2 0 = N.land (nth p (words s) 0) (nth p (words_of (length (words s)) v) 0)).
      { intros p. rewrite words_of_nth_all by exact Hfit.
        destruct (Nat.lt_ge_cases p j) as [Hpj|Hpj].
        - rewrite Hs2 by lia. destruct (Nat.eq_dec p 0) as [->|Hp0].
          + rewrite Hsame by lia. unfold l0. rewrite nth_upd_same by lia. rewrite pw_0, N.div_1_r. reflexivity.
          + rewrite Hmid by lia. cbn [fop]. unfold l0. rewrite nth_upd_other by lia. rewrite Hdd by lia. reflexivity.
        - rewrite (div_pw_zero_mono v j p Hvj Hpj). rewrite N.mod_0_l by lia. rewrite N.land_0_r.
          destruct (Nat.le_gt_cases p (index s)) as [Hp2|Hp2].
          + apply Hz2. lia.
          + rewrite Hs2 by lia. rewrite Hsame by lia. unfold l0. rewrite nth_upd_other by lia. apply Ha, Hp2. }
      exists (mkBig l2 (index s1)). split; [reflexivity|]. split; [|split; [|cbn [words]; lia]].
      + split; [split; [exact Hw2|split; [cbn [words index]; lia|]]|].
        * intros p Hp. cbn [words index] in *. destruct (Nat.lt_ge_cases p j) as [Hpj|Hpj].
          -- rewrite Hs2 by lia. apply Ha3; lia.
          -- rewrite Hnth. rewrite words_of_nth_all by exact Hfit.
             rewrite (div_pw_zero_mono v j p Hvj Hpj). rewrite N.mod_0_l by lia. apply N.land_0_r.
        * unfold top_nonzero. cbn [words index]. destruct Ha2 as [Ha2|Ha2]; [left; exact Ha2|].
          destruct Ha1 as [Ha1|Ha1]; [left; exact Ha1|right]. rewrite Hs2 by lia. exact Ha2.
      + unfold BigIntProofs.bval. cbn [words].
        transitivity (N.land (val (words s)) (val (words_of (length (words s)) v)));
          [|rewrite words_of_val by exact Hfit; reflexivity].
        apply (val_pointwise N.land land_cons eq_refl);
          [apply words_of_length|lia|exact Hw|apply words_of_ok|exact Hnth].
  Qed.
End W.
