(* JsonProofsPrefix.v -- C07: every proper prefix of a printed container document is rejected. *)
From Coq Require Import NArith ZArith List Bool Lia.
From Qv Require Import gen.Tables_json JsonModel JsonSpec JsonProofsBase JsonProofsStr JsonProofsNum JsonProofsParse
  JsonProofsComplete JsonProofsDoc JsonProofsCst JsonProofsInt JsonProofsC06.
Import ListNotations.
Local Open Scope N_scope.

(* the grammar is deterministic: the reader is a function *)
Lemma val_fun : forall w r v1 r1 v2 r2, Val w r v1 r1 -> Val w r v2 r2 -> v1 = v2 /\ r1 = r2.
Proof.
  intros w r v1 r1 v2 r2 H1 H2. destruct (pcomplete_all w) as [Hc _].
  pose proof (Hc _ _ _ H1 (S (2 * length r)) (Nat.lt_succ_diag_r _)) as E1.
  pose proof (Hc _ _ _ H2 (S (2 * length r)) (Nat.lt_succ_diag_r _)) as E2.
  rewrite E1 in E2. inversion E2. auto.
Qed.

Lemma val_pval : forall w r v r' f, Val w r v r' -> (2 * length r < f)%nat -> pval f w [] r = JOk (v, r', []).
Proof. intros w r v r' f H Hf. destruct (pcomplete_all w) as [Hc _]. apply Hc; assumption. Qed.

(* ---------------- strings: no proper prefix of a string body ends the string ---------------- *)
Lemma sbody_prefix_free : forall w sb s, SBody w sb s -> forall z d, SBody w (sb ++ jc_quote :: z) d -> False.
Proof.
  intros w sb s H. induction H as [| c t d0 Hc HS IH | ch v t d0 Hv HS IH | ch h1 h2 h3 h4 t d0 Hn Hu Hx Hh HS IH
                                   | ch h1 h2 h3 h4 ch2 l1 l2 l3 l4 t d0 Hn Hu Hx Hh Hu2 Hx2 HS IH]; intros z d H2; cbn [app] in H2.
  - inversion H2; subst; try discriminate.
  - inversion H2; subst; try (eapply IH; eassumption); try (unfold raw_ok in Hc; rewrite N.eqb_refl in Hc; cbn in Hc; rewrite ?andb_false_r in Hc; discriminate).
  - inversion H2; subst; try (eapply IH; eassumption); try congruence.
    match goal with Hr : raw_ok jc_bslash = true |- _ => discriminate Hr end.
  - inversion H2; subst; try (eapply IH; eassumption); try congruence.
    match goal with Hr : raw_ok jc_bslash = true |- _ => discriminate Hr end.
  - inversion H2; subst; try (eapply IH; eassumption); try congruence.
    match goal with Hr : raw_ok jc_bslash = true |- _ => discriminate Hr end.
Qed.

(* a truncated string token is not a string: UnEscape<true> needs the closing quote (D61) *)
Lemma pstring_truncated : forall w body d k, SBody w body d -> (k <= length body)%nat ->
  exists st, pstring w (firstn k body) [] = JOk (None, st).
Proof.
  intros w body d k HS Hk.
  destruct (pstring w (firstn k body) []) as [[[[str r2]|] st]|e] eqn:E; [| eauto | exfalso; eapply pstring_no_err; eauto].
  exfalso. apply pstring_sound in E. destruct E as (sb & E1 & E2 & _).
  rewrite <- (firstn_skipn k body) in HS. rewrite E1 in HS. rewrite <- app_assoc in HS. cbn [app] in HS.
  eapply sbody_prefix_free; eauto.
Qed.

Section Prefix.
Variable w : N.

(* [trunc_ok x]: a proper prefix of the text of [x], if it is a value at all, is used up entirely *)
Definition trunc_ok (x : cval) : Prop :=
  forall k v r', (k < length (cprint w x))%nat -> Val w (firstn k (cprint w x)) v r' -> r' = [].

(* real numerals: the scanner's behaviour on a truncated real numeral is C09's subject *)
Definition real_trunc (txt : list N) : Prop :=
  forall k v r', (k < length txt)%nat -> Val w (firstn k txt) v r' -> r' = [].

Fixpoint reals_ok2 (c : cval) : Prop :=
  match c with
  | CRealT txt => real_numeral txt /\ real_trunc txt
  | CArr _ items =>
    (fix go (l : list (list N * cval * list N)) : Prop :=
       match l with [] => True | (_, x, _) :: t => reals_ok2 x /\ go t end) items
  | CObj _ ms =>
    (fix go (l : list (list N * list cchar * list N * list N * cval * list N)) : Prop :=
       match l with [] => True | (_, _, _, _, x, _) :: t => reals_ok2 x /\ go t end) ms
  | _ => True
  end.

Lemma reals_ok2_ok : forall n c, (csize c < n)%nat -> reals_ok2 c -> reals_ok c.
Proof.
  induction n as [|n IH]; intros c Hn H; [lia|].
  destruct c as [| | |ds|ds|txt|s|w0 items|w0 ms]; cbn [reals_ok2 reals_ok] in *; try exact I; try tauto.
  - cbn [csize] in Hn. induction items as [|[[wb x] wa] t IHt]; [exact I|]. destruct H as [H1 H2]. split.
    + apply IH; [lia|assumption].
    + apply IHt; [lia|assumption].
  - cbn [csize] in Hn. induction ms as [|[[[[[wb k] w1] w2] x] wa] t IHt]; [exact I|]. destruct H as [H1 H2]. split.
    + apply IH; [lia|assumption].
    + apply IHt; [lia|assumption].
Qed.

Definition failres (x : jres pres) : Prop := exists st, x = JOk (JUndef, [], st).
Definition endres (x : jres pres) : Prop := exists v st, x = JOk (v, [], st).

Lemma failres_end : forall x, failres x -> endres x.
Proof. intros x [st H]. exists JUndef, st. exact H. Qed.

Lemma val_not_undef : forall r r', ~ Val w r JUndef r'.
Proof. intros r r' H. apply Val_defined in H. discriminate. Qed.

(* a value that fails on every proper prefix satisfies trunc_ok (vacuously) *)
Lemma trunc_of_fail : forall x,
  (forall k f, (k < length (cprint w x))%nat -> (2 * length (cprint w x) + 2 < f)%nat -> failres (pval f w [] (firstn k (cprint w x)))) ->
  trunc_ok x.
Proof.
  intros x H k v r' Hk Hv. exfalso.
  assert (Hl : (length (firstn k (cprint w x)) <= length (cprint w x))%nat) by (rewrite firstn_length; apply Nat.le_min_r).
  assert (Hb1 : (2 * length (cprint w x) + 2 < 2 * length (cprint w x) + 3)%nat) by (clear; lia).
  assert (Hb2 : (2 * length (firstn k (cprint w x)) < 2 * length (cprint w x) + 3)%nat) by (clear -Hl; lia).
  destruct (H k (2 * length (cprint w x) + 3)%nat Hk Hb1) as [st E].
  rewrite (val_pval w _ _ _ _ Hv Hb2) in E. inversion E; subst. exact (val_not_undef _ _ Hv).
Qed.

Lemma endres_of_trunc : forall x k f, trunc_ok x -> (k < length (cprint w x))%nat ->
  (2 * length (cprint w x) < f)%nat -> endres (pval f w [] (firstn k (cprint w x))).
Proof.
  intros x k f Ht Hk Hf.
  assert (Hl : (length (firstn k (cprint w x)) <= length (cprint w x))%nat) by (rewrite firstn_length; apply Nat.le_min_r).
  destruct (pnoerr_all f) as [Hn _]. specialize (Hn w [] (firstn k (cprint w x))).
  destruct (pval f w [] (firstn k (cprint w x))) as [[[v r'] st]|e] eqn:E.
  - destruct (psound_all f) as [Hs _]. apply Hs in E as Hs1. destruct Hs1 as [[H1 H2]|[H1 H2]].
    + subst. exists JUndef, st. reflexivity.
    + pose proof (Ht k v r' Hk H1). subst. exists v, []. reflexivity.
  - cbn in Hn. destruct Hn as [_ Hn]. lia.
Qed.

(* a value followed by text [y]; every prefix of [y] may follow a value *)
Definition yfollow (y : list N) : Prop := forall j, num_follow (firstn j y) = true.

Lemma yfollow_intro : forall y, num_follow y = true -> yfollow y.
Proof. intros y H j. destruct j; [reflexivity|]. destruct y; [reflexivity|]. exact H. Qed.

Hypothesis Hstr : str_ok_stmt w.

Lemma step_val : forall x y k f, cval_wf w x = true -> reals_ok x -> trunc_ok x -> yfollow y ->
  (2 * (length (cprint w x) + length y) < f)%nat ->
  if (k <? length (cprint w x))%nat then endres (pval f w [] (firstn k (cprint w x ++ y)))
  else pval f w [] (firstn k (cprint w x ++ y)) = JOk (cdenote w x, firstn (k - length (cprint w x)) y, []).
Proof.
  intros x y k f Hw Hr Ht Hy Hf. rewrite firstn_app.
  destruct (k <? length (cprint w x))%nat eqn:E.
  - apply Nat.ltb_lt in E. replace (k - length (cprint w x))%nat with O by lia. cbn [firstn]. rewrite app_nil_r.
    apply endres_of_trunc; [assumption|assumption|lia].
  - apply Nat.ltb_ge in E. rewrite firstn_all2 by assumption.
    apply val_pval.
    + apply (cst_val w Hstr nat_ok neg_ok (S (csize x)) x (Nat.lt_succ_diag_r _) Hw Hr). right. apply Hy.
    + rewrite app_length, firstn_length. pose proof (Nat.le_min_r (k - length (cprint w x)) (length y)). lia.
Qed.

Lemma trim_cut_ws : forall pre rest k, ws_wf pre = true ->
  trim (firstn k (pre ++ rest)) = trim (firstn (k - length pre) rest).
Proof.
  intros pre rest k Hw. rewrite firstn_app. apply trim_ws_app.
  apply ws_wf_Forall in Hw. clear -Hw. revert k. induction Hw; intros k; destruct k; cbn; constructor; auto.
Qed.

Lemma trim_cut_val : forall x y k, cval_wf w x = true -> reals_ok x ->
  trim (firstn k (cprint w x ++ y)) = firstn k (cprint w x ++ y).
Proof.
  intros x y k Hw Hr.
  pose proof (cst_val w Hstr nat_ok neg_ok (S (csize x)) x (Nat.lt_succ_diag_r _) Hw Hr [] (or_intror eq_refl)) as Hv.
  rewrite app_nil_r in Hv. destruct (val_head_nonws _ _ _ _ Hv) as (c & t & E & Hc).
  rewrite E. cbn [app]. destruct k; [reflexivity|]. cbn [firstn]. apply trim_nonws. assumption.
Qed.

(* ---------------- truncated leaves ---------------- *)
Lemma val_nil : forall v r', ~ Val w [] v r'.
Proof. intros v r' H. destruct (val_head _ _ _ _ H) as (c & t & E & _). discriminate. Qed.

Lemma trunc_kw : forall lit, lit = [110; 117; 108; 108] \/ lit = [116; 114; 117; 101] \/ lit = [102; 97; 108; 115; 101] ->
  forall k v r', (k < length lit)%nat -> Val w (firstn k lit) v r' -> r' = [].
Proof.
  intros lit Hl k v r' Hk Hv. exfalso.
  assert (E : pval 20 w [] (firstn k lit) = JOk (v, r', [])).
  { apply val_pval; [exact Hv|]. rewrite firstn_length. destruct Hl as [ -> | [ -> | -> ] ]; cbn [length]; lia. }
  destruct Hl as [ -> | [ -> | -> ] ]; cbn [length] in Hk;
    (do 5 (destruct k as [|k]; [first [lia | vm_compute in E; inversion E; subst; exact (val_not_undef _ _ Hv)]|])); lia.
Qed.

Lemma trunc_str : forall s, forallb (cchar_wf w) s = true -> trunc_ok (CStr s).
Proof.
  intros s Hs k v r' Hk Hv. exfalso. cbn [cprint] in *. unfold cstr_print in *.
  set (body := flat_map (cchar_print w) s) in *.
  pose proof (Hstr s Hs) as HS. fold body in HS.
  destruct k as [|k]; [eapply val_nil; eauto|].
  cbn [app firstn] in Hv. rewrite app_length in Hk. cbn [length app] in Hk. rewrite app_length in Hk. cbn [length] in Hk.
  assert (Hcut : firstn k (body ++ [jc_quote]) = firstn k body).
  { rewrite firstn_app. replace (k - length body)%nat with O by lia. cbn [firstn]. apply app_nil_r. }
  rewrite Hcut in Hv.
  assert (E : pval (2 * S (length body) + 1) w [] (jc_quote :: firstn k body) = JOk (v, r', [])).
  { apply val_pval; [exact Hv|]. cbn [length]. rewrite firstn_length. lia. }
  rewrite Nat.add_1_r in E. cbn [pval has negb rd bind adv] in E.
  change (jc_quote =? jc_scurly) with false in E. change (jc_quote =? jc_ssquare) with false in E.
  rewrite N.eqb_refl in E. cbn iota in E.
  destruct (pstring_truncated w body _ k HS ltac:(lia)) as [st Ep]. rewrite Ep in E. cbn [bind pfail] in E.
  inversion E; subst. exact (val_not_undef _ _ Hv).
Qed.

Lemma digits_wf_firstn : forall ds k, digits_wf ds = true -> (0 < k)%nat -> (k < length ds)%nat -> digits_wf (firstn k ds) = true.
Proof.
  intros ds k H Hk Hl. unfold digits_wf in *. apply andb_true_iff in H. destruct H as [H1 H2].
  apply andb_true_iff. split.
  - apply forallb_forall. intros x Hx. rewrite forallb_forall in H1. apply H1.
    rewrite <- (firstn_skipn k ds). apply in_or_app. left. exact Hx.
  - destruct ds as [|d [|d2 t]]; cbn [length] in Hl; try lia.
    destruct k as [|[|k]]; [lia|reflexivity|]. cbn [firstn]. exact H2.
Qed.

Lemma dval_firstn_le : forall ds k, dval (firstn k ds) <= dval ds.
Proof.
  intros ds k. rewrite <- (firstn_skipn k ds) at 2. rewrite !dval_pacc, pacc_app. apply pacc_mono.
Qed.

Lemma trunc_nat : forall ds, cval_wf w (CNatD ds) = true -> trunc_ok (CNatD ds).
Proof.
  intros ds Hw k v r' Hk Hv. cbn [cprint] in *. cbn [cval_wf] in Hw. apply andb_true_iff in Hw. destruct Hw as [Hd Hlt].
  apply N.ltb_lt in Hlt.
  destruct k as [|k]; [exfalso; eapply val_nil; eauto|].
  assert (Hw2 : cval_wf w (CNatD (firstn (S k) ds)) = true).
  { cbn [cval_wf]. rewrite digits_wf_firstn by (try assumption; lia). cbn [andb]. apply N.ltb_lt.
    pose proof (dval_firstn_le ds (S k)). lia. }
  pose proof (cst_val w Hstr nat_ok neg_ok 2 (CNatD (firstn (S k) ds)) ltac:(cbn; lia) Hw2 I [] (or_intror eq_refl)) as Hv2.
  cbn [cprint] in Hv2. rewrite app_nil_r in Hv2. destruct (val_fun _ _ _ _ _ _ Hv Hv2) as [_ E]. exact E.
Qed.

Lemma dval_pos : forall d t, is_dig d = true -> (d =? dc_zero) = false -> 0 < dval (d :: t).
Proof.
  intros d t Hd Hz. rewrite dval_pacc. cbn [pacc fold_left]. fold (pacc t (0 * 10 + (d - dc_zero))).
  pose proof (pacc_mono t (0 * 10 + (d - dc_zero))). apply is_dig_bounds in Hd. apply N.eqb_neq in Hz.
  change dc_zero with 48 in *. lia.
Qed.

Lemma trunc_neg : forall ds, cval_wf w (CNegD ds) = true -> trunc_ok (CNegD ds).
Proof.
  intros ds Hw k v r' Hk Hv. cbn [cprint] in *. cbn [cval_wf] in Hw.
  apply andb_true_iff in Hw. destruct Hw as [Hw Hmax]. apply andb_true_iff in Hw. destruct Hw as [Hd Hpos].
  apply N.leb_le in Hmax.
  destruct k as [|[|k]]; [exfalso; eapply val_nil; eauto| |].
  - exfalso. cbn [firstn] in Hv.
    assert (E : pval 5 w [] [dc_neg] = JOk (v, r', [])) by (apply val_pval; [exact Hv|cbn; lia]).
    vm_compute in E. inversion E; subst. exact (val_not_undef _ _ Hv).
  - cbn [firstn length] in *.
    assert (Hl2 : (S k < length ds)%nat) by lia.
    assert (Hdw : digits_wf (firstn (S k) ds) = true) by (apply digits_wf_firstn; [assumption|lia|assumption]).
    assert (Hw2 : cval_wf w (CNegD (firstn (S k) ds)) = true).
    { cbn [cval_wf]. rewrite Hdw. cbn [andb]. apply andb_true_iff. split.
      - apply N.ltb_lt. destruct ds as [|d [|d2 t]]; cbn [length] in Hl2; try lia.
        cbn [firstn]. unfold digits_wf in Hd. apply andb_true_iff in Hd. destruct Hd as [Hd1 Hd2].
        cbn [forallb] in Hd1. apply andb_true_iff in Hd1. destruct Hd1 as [Hdd _].
        apply dval_pos; [assumption|]. apply negb_true_iff. exact Hd2.
      - apply N.leb_le. pose proof (dval_firstn_le ds (S k)). lia. }
    pose proof (cst_val w Hstr nat_ok neg_ok 2 (CNegD (firstn (S k) ds)) ltac:(cbn; lia) Hw2 I [] (or_intror eq_refl)) as Hv2.
    cbn [cprint] in Hv2. rewrite app_nil_r in Hv2. destruct (val_fun _ _ _ _ _ _ Hv Hv2) as [_ E]. exact E.
Qed.

(* ---------------- truncated arrays ---------------- *)
Definition item_okp (it : list N * cval * list N) : Prop :=
  match it with (wb, x, wa) =>
    ws_wf wb = true /\ ws_wf wa = true /\ cval_wf w x = true /\ reals_ok x /\ trunc_ok x end.

Lemma arr_loop_eq : forall f acc st r,
  arr_loop (S f) w acc st r =
  if has r then
    '(v, r1, st1) <- pval f w st r ;;
    let acc' := acc ++ [v] in
    let r2 := trim r1 in
    if has r2 then
      c <- rd 1153 r2 ;;
      if c =? jc_comma then (r3 <- adv 1156 r2 ;; arr_loop f w acc' st1 (trim r3))
      else if c =? jc_esquare then (r3 <- adv 1162 r2 ;; JOk (JArr acc', r3, st1))
      else pfail st1
    else pfail st1
  else pfail st.
Proof. reflexivity. Qed.

Lemma failres_pfail : forall st, failres (pfail st).
Proof. intros st. exists st. reflexivity. Qed.

Lemma ws_wf_app : forall a b, ws_wf a = true -> ws_wf b = true -> ws_wf (a ++ b) = true.
Proof. intros a b Ha Hb. unfold ws_wf in *. rewrite forallb_app, Ha, Hb. reflexivity. Qed.

Lemma arr_trunc : forall items, items <> [] -> Forall item_okp items ->
  forall pre k acc f, ws_wf pre = true ->
  (k < length (pre ++ items_text w items ++ [jc_esquare]))%nat ->
  (2 * length (pre ++ items_text w items ++ [jc_esquare]) + 2 < f)%nat ->
  failres (arr_loop f w acc [] (trim (firstn k (pre ++ items_text w items ++ [jc_esquare])))).
Proof.
  induction items as [|[[wb x] wa] more IH]; intros Hne Hall pre k acc f Hpre Hk Hf; [congruence|].
  inversion Hall as [|? ? Hit Hmore]; subst. cbn [item_okp] in Hit. destruct Hit as (Hwb & Hwa & Hwx & Hrx & Htx).
  remember (match more with [] => [jc_esquare] | _ => jc_comma :: items_text w more ++ [jc_esquare] end) as tail eqn:Etail.
  assert (Etxt : pre ++ items_text w ((wb, x, wa) :: more) ++ [jc_esquare] = (pre ++ wb) ++ (cprint w x) ++ wa ++ tail).
  { subst tail. destruct more as [|m2 more']; cbn [items_text item_text]; repeat (rewrite <- !app_assoc; cbn [app]); reflexivity. }
  rewrite Etxt in *. clear Etxt.
  assert (Hlen : length ((pre ++ wb) ++ (cprint w x) ++ wa ++ tail) = (length (pre ++ wb) + length (cprint w x) + length wa + length tail)%nat)
    by (rewrite !app_length; lia).
  rewrite Hlen in *.
  rewrite trim_cut_ws by (apply ws_wf_app; assumption).
  set (k1 := (k - length (pre ++ wb))%nat) in *.
  rewrite trim_cut_val by assumption.
  destruct f as [|f]; [lia|]. rewrite arr_loop_eq.
  destruct (has (firstn k1 ((cprint w x) ++ wa ++ tail))) eqn:Ehas; [|apply failres_pfail].
  assert (Hy : yfollow (wa ++ tail)).
  { apply yfollow_intro. subst tail. destruct more; apply num_follow_app; try assumption; rewrite N.eqb_refl; rewrite ?orb_true_r; reflexivity. }
  pose proof (step_val x (wa ++ tail) k1 f Hwx Hrx Htx Hy ltac:(rewrite app_length; lia)) as Hstep.
  destruct (k1 <? length (cprint w x))%nat eqn:Ek1.
  - destruct Hstep as (v' & st' & Ep). rewrite Ep. cbn [bind trim has]. apply failres_pfail.
  - rewrite Hstep. cbn [bind]. apply Nat.ltb_ge in Ek1.
    rewrite trim_cut_ws by assumption.
    set (k3 := (k1 - length (cprint w x) - length wa)%nat).
    assert (Htl : (1 <= length tail)%nat) by (subst tail; destruct more; cbn [length]; lia).
    assert (Hk3 : (k3 < length tail)%nat) by (unfold k3, k1; clear -Hk Htl; lia).
    destruct more as [|m2 more']; subst tail.
    + cbn [length] in Hk3. replace k3 with O by lia. cbn [firstn trim has]. apply failres_pfail.
    + destruct k3 as [|k4]; [cbn [firstn trim has]; apply failres_pfail|].
      cbn [firstn]. rewrite trim_nonws by reflexivity. cbn [has rd bind adv]. rewrite N.eqb_refl. cbn [bind].
      change (firstn k4 (items_text w (m2 :: more') ++ [jc_esquare])) with (firstn k4 ([] ++ items_text w (m2 :: more') ++ [jc_esquare])).
      apply IH; [discriminate|assumption|reflexivity| |].
      * cbn [app length] in *. lia.
      * cbn [app length] in *. lia.
Qed.

(* ---------------- truncated objects ---------------- *)
Definition member_okp (m : list N * list cchar * list N * list N * cval * list N) : Prop :=
  match m with (wb, k, w1, w2, x, wa) =>
    ws_wf wb = true /\ forallb (cchar_wf w) k = true /\ ws_wf w1 = true /\ ws_wf w2 = true /\ ws_wf wa = true /\
    cval_wf w x = true /\ reals_ok x /\ trunc_ok x end.

Lemma obj_loop_eq : forall f acc st r,
  obj_loop (S f) w acc st r =
  (inloop <- (if has r then (c <- rd 1089 r ;; JOk (c =? jc_quote)) else JOk false) ;;
   if inloop then
     r1 <- adv 1090 r ;;
     '(s, st1) <- pstring w r1 st ;;
     match s with
     | None => pfail st1
     | Some (key, r2) =>
       let r3 := trim r2 in
       iscolon <- (if has r3 then (c <- rd 1106 r3 ;; JOk (c =? jc_colon)) else JOk false) ;;
       if iscolon then
         r4 <- adv 1107 r3 ;;
         let r5 := trim r4 in
         '(v, r6, st2) <- pval f w st1 r5 ;;
         let acc' := obj_insert acc key v in
         let r7 := trim r6 in
         if has r7 then
           c <- rd 1114 r7 ;;
           if c =? jc_comma then (r8 <- adv 1117 r7 ;; obj_loop f w acc' st2 (trim r8))
           else if c =? jc_ecurly then (r8 <- adv 1123 r7 ;; JOk (JObj acc', r8, st2))
           else pfail st2
         else pfail st2
       else pfail st1
     end
   else pfail st).
Proof. reflexivity. Qed.

Lemma obj_trunc : forall ms, ms <> [] -> Forall member_okp ms ->
  forall pre k acc f, ws_wf pre = true ->
  (k < length (pre ++ members_text w ms ++ [jc_ecurly]))%nat ->
  (2 * length (pre ++ members_text w ms ++ [jc_ecurly]) + 2 < f)%nat ->
  failres (obj_loop f w acc [] (trim (firstn k (pre ++ members_text w ms ++ [jc_ecurly])))).
Proof.
  induction ms as [|[[[[[wb key] w1] w2] x] wa] more IH]; intros Hne Hall pre k acc f Hpre Hk Hf; [congruence|].
  inversion Hall as [|? ? Hit Hmore]; subst. cbn [member_okp] in Hit.
  destruct Hit as (Hwb & Hkey & Hw1 & Hw2 & Hwa & Hwx & Hrx & Htx).
  pose proof (Hstr key Hkey) as HS. set (body := flat_map (cchar_print w) key) in *.
  remember (match more with [] => [jc_ecurly] | _ => jc_comma :: members_text w more ++ [jc_ecurly] end) as tail eqn:Etail.
  assert (Htl : (1 <= length tail)%nat) by (subst tail; destruct more; cbn [length]; lia).
  assert (Etxt : pre ++ members_text w ((wb, key, w1, w2, x, wa) :: more) ++ [jc_ecurly]
                 = (pre ++ wb) ++ jc_quote :: body ++ jc_quote :: (w1 ++ jc_colon :: (w2 ++ cprint w x ++ wa ++ tail))).
  { subst tail. unfold body. destruct more as [|m2 more']; cbn [members_text member_text]; unfold cstr_print;
      repeat (rewrite <- !app_assoc; cbn [app]); reflexivity. }
  rewrite Etxt in *. clear Etxt.
  assert (Hlen : length ((pre ++ wb) ++ jc_quote :: body ++ jc_quote :: (w1 ++ jc_colon :: (w2 ++ cprint w x ++ wa ++ tail)))
                 = (length (pre ++ wb) + 1 + length body + 1 + length w1 + 1 + length w2 + length (cprint w x) + length wa + length tail)%nat).
  { rewrite !app_length. cbn [length]. rewrite !app_length. cbn [length]. rewrite !app_length. cbn [length]. rewrite !app_length. lia. }
  rewrite Hlen in *.
  rewrite trim_cut_ws by (apply ws_wf_app; assumption).
  set (k0 := (k - length (pre ++ wb))%nat) in *.
  destruct f as [|f]; [lia|]. rewrite obj_loop_eq.
  destruct k0 as [|k1] eqn:Ek0; [cbn [firstn trim has bind]; apply failres_pfail|].
  cbn [firstn]. rewrite trim_nonws by reflexivity. cbn [has rd bind adv]. rewrite N.eqb_refl. cbn [bind].
  destruct (Nat.le_gt_cases k1 (length body)) as [Hin|Hout].
  { (* the key is cut *)
    assert (Hcut : firstn k1 (body ++ jc_quote :: (w1 ++ jc_colon :: (w2 ++ cprint w x ++ wa ++ tail))) = firstn k1 body).
    { rewrite firstn_app. replace (k1 - length body)%nat with O by lia. cbn [firstn]. apply app_nil_r. }
    rewrite Hcut. destruct (pstring_truncated w body _ k1 HS Hin) as [st Ep]. rewrite Ep. cbn [bind]. apply failres_pfail. }
  assert (Hcut : firstn k1 (body ++ jc_quote :: (w1 ++ jc_colon :: (w2 ++ cprint w x ++ wa ++ tail)))
                 = body ++ jc_quote :: firstn (k1 - length body - 1) (w1 ++ jc_colon :: (w2 ++ cprint w x ++ wa ++ tail))).
  { rewrite firstn_app. rewrite firstn_all2 by lia. f_equal.
    destruct (k1 - length body)%nat as [|j] eqn:Ej; [lia|]. cbn [firstn]. f_equal. f_equal. lia. }
  rewrite Hcut. rewrite (pstring_complete w body _ _ HS). cbn [bind].
  set (k2 := (k1 - length body - 1)%nat) in *.
  rewrite trim_cut_ws by assumption.
  destruct (k2 - length w1)%nat as [|k4] eqn:Ek3; [cbn [firstn trim has bind]; apply failres_pfail|].
  cbn [firstn]. rewrite trim_nonws by reflexivity. cbn [has rd bind adv]. rewrite N.eqb_refl. cbn [bind].
  rewrite trim_cut_ws by assumption.
  set (k5 := (k4 - length w2)%nat) in *.
  rewrite trim_cut_val by assumption.
  assert (Hy : yfollow (wa ++ tail)).
  { apply yfollow_intro. subst tail. destruct more; apply num_follow_app; try assumption; rewrite N.eqb_refl; rewrite ?orb_true_r; reflexivity. }
  pose proof (step_val x (wa ++ tail) k5 f Hwx Hrx Htx Hy ltac:(rewrite app_length; clear -Hf; lia)) as Hstep.
  destruct (k5 <? length (cprint w x))%nat eqn:Ek5.
  - destruct Hstep as (v' & st' & Ep). rewrite Ep. cbn [bind trim has]. apply failres_pfail.
  - rewrite Hstep. cbn [bind]. apply Nat.ltb_ge in Ek5.
    rewrite trim_cut_ws by assumption.
    set (k7 := (k5 - length (cprint w x) - length wa)%nat).
    assert (Hk7 : (k7 < length tail)%nat) by (unfold k7, k5; clear -Hk Htl Ek0 Ek3 Hout; unfold k2 in *; lia).
    destruct more as [|m2 more']; subst tail.
    + cbn [length] in Hk7. replace k7 with O by lia. cbn [firstn trim has]. apply failres_pfail.
    + destruct k7 as [|k8]; [cbn [firstn trim has]; apply failres_pfail|].
      cbn [firstn]. rewrite trim_nonws by reflexivity. cbn [has rd bind adv]. rewrite N.eqb_refl. cbn [bind].
      change (firstn k8 (members_text w (m2 :: more') ++ [jc_ecurly])) with (firstn k8 ([] ++ members_text w (m2 :: more') ++ [jc_ecurly])).
      apply IH; [discriminate|assumption|reflexivity| |].
      * cbn [app length] in *. lia.
      * cbn [app length] in *. clear -Hf. lia.
Qed.

(* ---------------- all values ---------------- *)
Lemma items_okp : forall n items,
  ((fix go (l : list (list N * cval * list N)) : nat :=
      match l with [] => O | (_, x, _) :: t => (csize x + go t)%nat end) items < n)%nat ->
  forallb (fun it => match it with (wb, x, wa) => ws_wf wb && cval_wf w x && ws_wf wa end) items = true ->
  (fix go (l : list (list N * cval * list N)) : Prop :=
     match l with [] => True | (_, x, _) :: t => reals_ok2 x /\ go t end) items ->
  (forall x, (csize x < n)%nat -> cval_wf w x = true -> reals_ok2 x -> trunc_ok x) ->
  Forall item_okp items.
Proof.
  intros n items. induction items as [|[[wb x] wa] t IH]; intros Hs Hw Hr HP; [constructor|].
  cbn [forallb] in Hw. apply andb_true_iff in Hw. destruct Hw as [Hw1 Hw2].
  apply andb_true_iff in Hw1. destruct Hw1 as [Hw1 Hwa]. apply andb_true_iff in Hw1. destruct Hw1 as [Hwb Hx].
  destruct Hr as [Hr1 Hr2].
  constructor.
  - cbn [item_okp]. repeat split; auto.
    + apply (reals_ok2_ok (S (csize x))); [apply Nat.lt_succ_diag_r|assumption].
    + apply HP; auto. lia.
  - apply IH; auto. lia.
Qed.

Lemma members_okp : forall n ms,
  ((fix go (l : list (list N * list cchar * list N * list N * cval * list N)) : nat :=
      match l with [] => O | (_, _, _, _, x, _) :: t => (csize x + go t)%nat end) ms < n)%nat ->
  forallb (fun m => match m with (wb, k, w1, w2, x, wa) =>
             ws_wf wb && forallb (cchar_wf w) k && ws_wf w1 && ws_wf w2 && cval_wf w x && ws_wf wa end) ms = true ->
  (fix go (l : list (list N * list cchar * list N * list N * cval * list N)) : Prop :=
     match l with [] => True | (_, _, _, _, x, _) :: t => reals_ok2 x /\ go t end) ms ->
  (forall x, (csize x < n)%nat -> cval_wf w x = true -> reals_ok2 x -> trunc_ok x) ->
  Forall member_okp ms.
Proof.
  intros n ms. induction ms as [|[[[[[wb k] w1] w2] x] wa] t IH]; intros Hs Hw Hr HP; [constructor|].
  cbn [forallb] in Hw. apply andb_true_iff in Hw. destruct Hw as [Hw1 Hw2].
  repeat (apply andb_true_iff in Hw1; destruct Hw1 as [Hw1 ?]).
  destruct Hr as [Hr1 Hr2].
  constructor.
  - cbn [member_okp]. repeat split; auto.
    + apply (reals_ok2_ok (S (csize x))); [apply Nat.lt_succ_diag_r|assumption].
    + apply HP; auto. lia.
  - apply IH; auto. lia.
Qed.

Lemma arr_first_unit : forall items pre k, items <> [] -> Forall item_okp items -> ws_wf pre = true ->
  match trim (firstn k (pre ++ items_text w items ++ [jc_esquare])) with
  | [] => True
  | c :: _ => (c =? jc_esquare) = false
  end.
Proof.
  intros items pre k Hne Hall Hpre. destruct items as [|[[wb x] wa] more]; [congruence|].
  inversion Hall as [|? ? Hit _]; subst. cbn [item_okp] in Hit. destruct Hit as (Hwb & Hwa & Hwx & Hrx & _).
  assert (E : exists y, pre ++ items_text w ((wb, x, wa) :: more) ++ [jc_esquare] = (pre ++ wb) ++ cprint w x ++ y).
  { destruct more; cbn [items_text item_text]; eexists; repeat (rewrite <- !app_assoc; cbn [app]); reflexivity. }
  destruct E as [y E]. rewrite E. rewrite trim_cut_ws by (apply ws_wf_app; assumption).
  rewrite trim_cut_val by assumption.
  pose proof (cst_val w Hstr nat_ok neg_ok (S (csize x)) x (Nat.lt_succ_diag_r _) Hwx Hrx [] (or_intror eq_refl)) as Hv.
  rewrite app_nil_r in Hv. destruct (val_head _ _ _ _ Hv) as (c & t & Ec & Hc & _).
  rewrite Ec. cbn [app]. destruct (k - length (pre ++ wb))%nat; [exact I|]. cbn [firstn]. exact Hc.
Qed.

Lemma obj_first_unit : forall ms pre k, ms <> [] -> Forall member_okp ms -> ws_wf pre = true ->
  match trim (firstn k (pre ++ members_text w ms ++ [jc_ecurly])) with
  | [] => True
  | c :: _ => (c =? jc_ecurly) = false
  end.
Proof.
  intros ms pre k Hne Hall Hpre. destruct ms as [|[[[[[wb key] w1] w2] x] wa] more]; [congruence|].
  inversion Hall as [|? ? Hit _]; subst. cbn [member_okp] in Hit. destruct Hit as (Hwb & _).
  assert (E : exists y, pre ++ members_text w ((wb, key, w1, w2, x, wa) :: more) ++ [jc_ecurly] = (pre ++ wb) ++ jc_quote :: y).
  { destruct more; cbn [members_text member_text]; unfold cstr_print; eexists; repeat (rewrite <- !app_assoc; cbn [app]); reflexivity. }
  destruct E as [y E]. rewrite E. rewrite trim_cut_ws by (apply ws_wf_app; assumption).
  destruct (k - length (pre ++ wb))%nat; [exact I|]. cbn [firstn]. rewrite trim_nonws by reflexivity. reflexivity.
Qed.

Lemma trunc_all : forall n c, (csize c < n)%nat -> cval_wf w c = true -> reals_ok2 c ->
  trunc_ok c /\
  (is_container c = true -> forall k f, (k < length (cprint w c))%nat -> (2 * length (cprint w c) + 2 < f)%nat ->
     failres (pval f w [] (firstn k (cprint w c)))).
Proof.
  induction n as [|n IH]; intros c Hn Hw Hr; [lia|].
  destruct c as [| | |ds|ds|txt|s|w0 items|w0 ms].
  - split; [|discriminate]. intros k v r'. apply trunc_kw. auto.
  - split; [|discriminate]. intros k v r'. apply trunc_kw. auto.
  - split; [|discriminate]. intros k v r'. apply trunc_kw. auto.
  - split; [|discriminate]. apply trunc_nat. assumption.
  - split; [|discriminate]. apply trunc_neg. assumption.
  - split; [|discriminate]. cbn [reals_ok2] in Hr. destruct Hr as [_ Hr]. exact Hr.
  - split; [|discriminate]. apply trunc_str. exact Hw.
  - (* array *)
    assert (Hfail : forall k f, (k < length (cprint w (CArr w0 items)))%nat -> (2 * length (cprint w (CArr w0 items)) + 2 < f)%nat ->
                    failres (pval f w [] (firstn k (cprint w (CArr w0 items))))).
    { cbn [cval_wf] in Hw. apply andb_true_iff in Hw. destruct Hw as [Hw0 Hit]. cbn [csize] in Hn. cbn [reals_ok2] in Hr.
      assert (Hall : Forall item_okp items).
      { apply (items_okp n items); [lia|assumption|assumption|]. intros x Hx Hwx Hrx. apply (IH x Hx Hwx Hrx). }
      intros k f Hk Hf. cbn [cprint] in *. rewrite items_text_eq in *. cbn [app] in *.
      destruct f as [|f]; [lia|].
      destruct k as [|k]; [cbn [firstn pval has negb]; apply failres_pfail|].
      cbn [firstn pval has negb rd bind adv]. change (jc_ssquare =? jc_scurly) with false. rewrite N.eqb_refl. cbn iota.
      cbn [length] in Hk, Hf.
      destruct items as [|it items'].
      - cbn [items_text app] in *. rewrite trim_cut_ws by assumption.
        rewrite app_length in Hk. cbn [length] in Hk. replace (k - length w0)%nat with O by lia.
        cbn [firstn trim has negb bind]. destruct f as [|f]; [lia|]. cbn [arr_loop has]. apply failres_pfail.
      - pose proof (arr_first_unit (it :: items') w0 k ltac:(discriminate) Hall Hw0) as Hfu.
        destruct (trim (firstn k (w0 ++ items_text w (it :: items') ++ [jc_esquare]))) as [|c2 r3] eqn:Et.
        + cbn [has negb bind]. destruct f as [|f]; [lia|]. cbn [arr_loop has]. apply failres_pfail.
        + cbn [has negb rd bind]. rewrite Hfu. cbn [bind]. rewrite <- Et.
          apply arr_trunc; [discriminate|assumption|assumption|lia|lia]. }
    split; [apply trunc_of_fail; exact Hfail|intros _; exact Hfail].
  - (* object *)
    assert (Hfail : forall k f, (k < length (cprint w (CObj w0 ms)))%nat -> (2 * length (cprint w (CObj w0 ms)) + 2 < f)%nat ->
                    failres (pval f w [] (firstn k (cprint w (CObj w0 ms))))).
    { cbn [cval_wf] in Hw. apply andb_true_iff in Hw. destruct Hw as [Hw0 Hit]. cbn [csize] in Hn. cbn [reals_ok2] in Hr.
      assert (Hall : Forall member_okp ms).
      { apply (members_okp n ms); [lia|assumption|assumption|]. intros x Hx Hwx Hrx. apply (IH x Hx Hwx Hrx). }
      intros k f Hk Hf. cbn [cprint] in *. rewrite members_text_eq in *. cbn [app] in *.
      destruct f as [|f]; [lia|].
      destruct k as [|k]; [cbn [firstn pval has negb]; apply failres_pfail|].
      cbn [firstn pval has negb rd bind adv]. rewrite N.eqb_refl. cbn iota.
      cbn [length] in Hk, Hf.
      destruct ms as [|m ms'].
      - cbn [members_text app] in *. rewrite trim_cut_ws by assumption.
        rewrite app_length in Hk. cbn [length] in Hk. replace (k - length w0)%nat with O by lia.
        cbn [firstn trim has negb bind]. destruct f as [|f]; [lia|]. cbn [obj_loop has bind]. apply failres_pfail.
      - pose proof (obj_first_unit (m :: ms') w0 k ltac:(discriminate) Hall Hw0) as Hfu.
        destruct (trim (firstn k (w0 ++ members_text w (m :: ms') ++ [jc_ecurly]))) as [|c2 r3] eqn:Et.
        + cbn [has negb bind]. destruct f as [|f]; [lia|]. cbn [obj_loop has bind]. apply failres_pfail.
        + cbn [has negb rd bind]. rewrite Hfu. cbn [bind]. rewrite <- Et.
          apply obj_trunc; [discriminate|assumption|assumption|lia|lia]. }
    split; [apply trunc_of_fail; exact Hfail|intros _; exact Hfail].
Qed.

(* C07: every proper prefix of a printed container document is rejected *)
Theorem prefix_rejected : forall c k, cval_wf w c = true -> reals_ok2 c -> is_container c = true ->
  (k < length (cprint w c))%nat -> parse w (firstn k (cprint w c)) = JOk JUndef.
Proof.
  intros c k Hw Hr Hc Hk. set (p := firstn k (cprint w c)).
  destruct (parse_total w p) as (v & Hp & Hv). rewrite Hp. f_equal.
  destruct Hv as [Hv|[_ (r1 & Hval & Ht)]]; [exact Hv|exfalso].
  destruct (trunc_all (S (csize c)) c (Nat.lt_succ_diag_r _) Hw Hr) as [_ Hf].
  (* p starts with the opening bracket, so trim p = p *)
  assert (Htrim : trim p = p).
  { unfold p. destruct c; try discriminate; cbn [cprint app]; (destruct k; [reflexivity|]); cbn [firstn]; apply trim_nonws; reflexivity. }
  rewrite Htrim in Hval.
  destruct (Hf Hc k (2 * length (cprint w c) + 3)%nat Hk ltac:(lia)) as [st E]. fold p in E.
  assert (Hlen : (length p <= length (cprint w c))%nat) by (unfold p; rewrite firstn_length; apply Nat.le_min_r).
  rewrite (val_pval w _ _ _ _ Hval) in E by lia. inversion E; subst. exact (val_not_undef _ _ Hval).
Qed.

End Prefix.

Theorem prefix_rejected_all : forall w c k, cval_wf w c = true -> reals_ok2 w c -> is_container c = true ->
  (k < length (cprint w c))%nat -> parse w (firstn k (cprint w c)) = JOk JUndef.
Proof. intros w. apply (prefix_rejected w (str_ok w)). Qed.

(* non-vacuity: the example tree of C06 has no real numeral, so reals_ok2 is trivial *)
Example ex_tree_reals2 : reals_ok2 1 ex_tree.
Proof. cbn. tauto. Qed.
Example ex_tree_prefixes : forall k, (k < length (cprint 1 ex_tree))%nat -> parse 1 (firstn k (cprint 1 ex_tree)) = JOk JUndef.
Proof. intros k Hk. apply prefix_rejected_all; [apply ex_tree_wf|exact ex_tree_reals2|reflexivity|exact Hk]. Qed.
