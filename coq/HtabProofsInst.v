(* HtabProofsInst.v -- C13: the association-list specification says what the
   property says (lemmas on the sp_ functions), the char instance (keys = byte strings,
   H = the modelled StringUtils::Hash), and non-vacuity examples. *)
From Coq Require Import List NArith Arith Bool Lia ZifyBool ZifyN Permutation.
From Qv Require Import HtabModel HtabProofsBase HtabProofsHash HtabProofsInv HtabProofsOps HtabProofsOps2 HtabProofsOps3
  HtabProofsRename HtabProofsSort HtabProofsSort2 HtabProofsHistory.
Import ListNotations.

(* ---------- what the specification means ---------- *)
Section Spec.
Context {K V : Type}.
Variable keqb : K -> K -> bool.
Hypothesis keqb_spec : forall a b, keqb a b = true <-> a = b.

Lemma keqb_refl' k : keqb k k = true.
Proof. apply keqb_spec. reflexivity. Qed.
Lemma keqb_neq' a b : a <> b -> keqb a b = false.
Proof. intros Hn. destruct (keqb a b) eqn:E; auto. apply keqb_spec in E. contradiction. Qed.

(* lookup returns the last value stored *)
Lemma sp_get_put_same (l : list (K * V)) k v : sp_get keqb (sp_put keqb l k v) k = Some v.
Proof.
  induction l as [|(k', v') r IH]; simpl.
  - rewrite keqb_refl'. reflexivity.
  - destruct (keqb k' k) eqn:E; simpl; rewrite E; auto.
Qed.
Lemma sp_get_put_other (l : list (K * V)) k v k' : k' <> k -> sp_get keqb (sp_put keqb l k v) k' = sp_get keqb l k'.
Proof.
  intros Hn. induction l as [|(k2, v2) r IH]; simpl.
  - rewrite keqb_neq'; auto.
  - destruct (keqb k2 k) eqn:E; simpl.
    + apply keqb_spec in E. subst k2. rewrite (keqb_neq' k k') by auto. reflexivity.
    + destruct (keqb k2 k'); auto.
Qed.
(* a removed key is not found until stored again; other keys are unaffected *)
Lemma sp_get_remove_same (l : list (K * V)) k : NoDup (map fst l) -> sp_get keqb (sp_remove keqb l k) k = None.
Proof.
  induction l as [|(k', v') r IH]; intros Hnd; simpl; auto.
  inversion Hnd as [|? ? Hni Hr]; subst. destruct (keqb k' k) eqn:E; simpl.
  - apply keqb_spec in E. subst k'. clear - Hni keqb_spec. induction r as [|(k2, v2) r IH]; simpl in *; auto.
    destruct (keqb k2 k) eqn:E; [apply keqb_spec in E; subst; exfalso; apply Hni; left; reflexivity|].
    apply IH. intros Hin. apply Hni. right. exact Hin.
  - rewrite E. apply IH. exact Hr.
Qed.
Lemma sp_get_remove_other (l : list (K * V)) k k' : k' <> k -> sp_get keqb (sp_remove keqb l k) k' = sp_get keqb l k'.
Proof.
  intros Hn. induction l as [|(k2, v2) r IH]; simpl; auto.
  destruct (keqb k2 k) eqn:E; simpl.
  - apply keqb_spec in E. subst k2. rewrite (keqb_neq' k k') by auto. reflexivity.
  - destruct (keqb k2 k'); auto.
Qed.
(* iteration order = first-insertion order: storing under an existing key keeps its place,
   a new key goes to the end; removal keeps the order of the others *)
Lemma sp_keys_put (l : list (K * V)) k v :
  map fst (sp_put keqb l k v) = if sp_has keqb l k then map fst l else map fst l ++ [k].
Proof.
  unfold sp_has. induction l as [|(k', v') r IH]; simpl; auto.
  destruct (keqb k' k) eqn:E; simpl; auto. rewrite IH. destruct (sp_get keqb r k); reflexivity.
Qed.
Lemma sp_remove_order (l : list (K * V)) k v :
  sp_get keqb l k = Some v -> exists a b, l = a ++ (k, v) :: b /\ sp_remove keqb l k = a ++ b /\ sp_get keqb a k = None.
Proof.
  induction l as [|(k', v') r IH]; simpl; [discriminate|].
  destruct (keqb k' k) eqn:E.
  - intros Hv. inversion Hv; subst. apply keqb_spec in E. subst k'. exists [], r. auto.
  - intros Hv. destruct (IH Hv) as (a & b & -> & Hr & Ha). exists ((k', v') :: a), b. simpl. rewrite Hr, E. auto.
Qed.
(* rename keeps the position and the value *)
Lemma sp_rekey_order (l : list (K * V)) from to v :
  sp_get keqb l from = Some v -> exists a b, l = a ++ (from, v) :: b /\ sp_rekey keqb l from to = a ++ (to, v) :: b.
Proof.
  induction l as [|(k', v') r IH]; simpl; [discriminate|].
  destruct (keqb k' from) eqn:E.
  - intros Hv. inversion Hv; subst. apply keqb_spec in E. subst k'. exists [], r. auto.
  - intros Hv. destruct (IH Hv) as (a & b & -> & Hr). exists ((k', v') :: a), b. simpl. rewrite Hr. auto.
Qed.
End Spec.

(* ---------- the char instance ---------- *)
Lemma key_eqb_spec : forall a b : key, key_eqb a b = true <-> a = b.
Proof.
  induction a as [|x a IH]; intros [|y b]; simpl; split; intros E; try discriminate; auto.
  - apply andb_true_iff in E. destruct E as (E1 & E2). apply N.eqb_eq in E1. apply IH in E2. congruence.
  - inversion E; subst. rewrite N.eqb_refl. simpl. apply IH. reflexivity.
Qed.


(* the modelled String::operator< (D3-fixed) is a strict total order on keys *)
Lemma sbyte_inj a b : sbyte a = sbyte b -> a = b.
Proof. unfold sbyte. destruct (a <? 128)%N eqn:E1, (a <? 256)%N eqn:E2, (b <? 128)%N eqn:E3, (b <? 256)%N eqn:E4; lia. Qed.
Lemma key_ltb_irrefl : forall a : key, key_ltb a a = false.
Proof. induction a as [|x a IH]; simpl; auto. rewrite N.ltb_irrefl. exact IH. Qed.
Lemma key_ltb_trans : forall a b c : key, key_ltb a b = true -> key_ltb b c = true -> key_ltb a c = true.
Proof.
  induction a as [|x a IH]; intros [|y b] [|z c] H1 H2; simpl in *; try discriminate; auto.
  destruct (sbyte y <? sbyte x)%N eqn:E1; [discriminate|]. destruct (sbyte z <? sbyte y)%N eqn:E2; [discriminate|].
  destruct (sbyte x <? sbyte y)%N eqn:E3, (sbyte y <? sbyte z)%N eqn:E4.
  - replace (sbyte z <? sbyte x)%N with false by lia. replace (sbyte x <? sbyte z)%N with true by lia. reflexivity.
  - replace (sbyte z <? sbyte x)%N with false by lia. replace (sbyte x <? sbyte z)%N with true by lia. reflexivity.
  - replace (sbyte z <? sbyte x)%N with false by lia. replace (sbyte x <? sbyte z)%N with true by lia. reflexivity.
  - replace (sbyte z <? sbyte x)%N with false by lia. replace (sbyte x <? sbyte z)%N with false by lia. eapply IH; eauto.
Qed.
Lemma key_ltb_total : forall a b : key, a <> b -> key_ltb a b = true \/ key_ltb b a = true.
Proof.
  induction a as [|x a IH]; intros [|y b] Hn; simpl; auto; try contradiction.
  destruct (sbyte y <? sbyte x)%N eqn:E1.
  - right. replace (sbyte x <? sbyte y)%N with false by lia. reflexivity.
  - destruct (sbyte x <? sbyte y)%N eqn:E2; [left; reflexivity|].
    assert (Hxy : x = y) by (apply sbyte_inj; lia). subst y.
    destruct (IH b) as [Hl|Hr]; [intros ->; apply Hn; reflexivity|left; exact Hl|right; exact Hr].
Qed.

Definition CInv : cht -> Prop := @Inv key N c13_hash [] 0%N.
Definition c13_run : list cop -> cht -> option (cht * list (out N)) := @run key N key_eqb key_ltb c13_hash [] 0%N.
Definition c13_sp_run : list cop -> list (key * N) * bool -> option (list (key * N) * bool * list (out N)) :=
  @sp_run key N key_eqb key_ltb 0%N.
Definition c13_lookup (k : key) (s : cht) := @lookup key N key_eqb c13_hash [] 0%N k s.
Definition c13_get_key_index (k : key) (s : cht) := @get_key_index key N key_eqb c13_hash [] 0%N k s.
Definition c13_get_slot (i : nat) (s : cht) := @get_slot key N [] 0%N i s.
Definition c13_sort (asc : bool) (s : cht) := @sort key N key_ltb [] 0%N asc s.
Definition c13_resize (n : nat) (s : cht) := @resize_pub key N [] 0%N n s.
Definition c13_no_dead (s : cht) : Prop := @no_dead key N s.

Lemma c13_inv_init_l : CInv empty_ht.
Proof. apply (@Inv_empty key N key_eqb c13_hash [] 0%N). Qed.

Lemma c13_history_inv_l : forall ops, exists s outs, c13_run ops empty_ht = Some (s, outs) /\ CInv s.
Proof.
  intros ops. apply (@run_total key N key_eqb key_ltb c13_hash [] 0%N key_eqb_spec c13_hash_nonzero_l ops empty_ht).
  apply c13_inv_init_l.
Qed.

Lemma c13_history_l : forall ops l c outs,
  c13_sp_run ops ([], true) = Some ((l, c), outs) ->
  exists s, c13_run ops empty_ht = Some (s, outs) /\ CInv s /\ live s = l /\ (c = true -> c13_no_dead s).
Proof.
  intros ops l c outs Hsp.
  destruct (@run_refines key N key_eqb key_ltb c13_hash [] 0%N key_eqb_spec c13_hash_nonzero_l
              key_ltb_irrefl key_ltb_trans key_ltb_total ops empty_ht ([], true) (l, c) outs)
    as (s & Hr & HI & (Hl & Hc)); auto.
  - apply c13_inv_init_l.
  - split; simpl; [reflexivity|]. intros _. constructor.
  - exists s. auto.
Qed.


Definition c13_linked (s : cht) (st : list (key * N) * bool) : Prop := @linked key N s st.
Definition c13_find_key (s : cht) (k : key) := @find_key key N key_eqb [] 0%N s k (c13_hash k).

(* one operation, from ANY state satisfying the invariant *)
Lemma c13_step_refines_l : forall (o : cop) s st st' ou,
  CInv s -> c13_linked s st -> c13_sp_step o st = Some (st', ou) ->
  exists s', c13_step o s = Some (s', ou) /\ CInv s' /\ c13_linked s' st'.
Proof.
  intros o s st st' ou HI Hl Hsp.
  apply (@step_refines key N key_eqb key_ltb c13_hash [] 0%N key_eqb_spec c13_hash_nonzero_l
           key_ltb_irrefl key_ltb_trans key_ltb_total o s st st' ou HI Hl Hsp).
Qed.
Lemma c13_step_total_l : forall (o : cop) s, CInv s -> exists s' ou, c13_step o s = Some (s', ou) /\ CInv s'.
Proof.
  intros o s HI. apply (@step_total key N key_eqb key_ltb c13_hash [] 0%N key_eqb_spec c13_hash_nonzero_l o s HI).
Qed.
(* fuel: the chain walk of find (fuel |items| + 1) never runs out *)
Lemma c13_find_fuel_l : forall s k, CInv s -> 0 < cap s -> c13_find_key s k <> None.
Proof.
  intros s k HI Hc.
  destruct (@find_key_inv key N key_eqb c13_hash [] 0%N key_eqb_spec c13_hash_nonzero_l s k HI Hc)
    as (c & _ & [(pre & i & post & _ & _ & _ & _ & Hf)|(_ & Hf)]); unfold c13_find_key; rewrite Hf; discriminate.
Qed.

(* lookups in any state satisfying the invariant *)
Lemma c13_lookup_l : forall k s, CInv s ->
  exists r, c13_lookup k s = Some r /\ c13_get_key_index k s = Some r /\
    match r with
    | Some i => exists v, c13_get_slot i s = Some (k, v) /\ sp_get key_eqb (live s) k = Some v
    | None => sp_get key_eqb (live s) k = None
    end.
Proof.
  intros k s HI.
  destruct (@lookup_spec key N key_eqb c13_hash [] 0%N key_eqb_spec c13_hash_nonzero_l k s HI) as (r & Hl & Hg & Hr).
  exists r. split; [exact Hl|]. split; [exact Hg|]. destruct r as [i|].
  - destruct (@key_index_key key N key_eqb c13_hash [] 0%N key_eqb_spec c13_hash_nonzero_l k s i HI Hg) as (v & Hs & Hv).
    exists v. auto.
  - tauto.
Qed.

Lemma c13_index_key_index_l : forall i s k v, CInv s -> c13_get_slot i s = Some (k, v) -> c13_get_key_index k s = Some (Some i).
Proof. intros i s k v HI Hs. eapply (@index_key_index key N key_eqb c13_hash [] 0%N key_eqb_spec c13_hash_nonzero_l); eauto. Qed.

Lemma c13_index_clean_l : forall k s i, CInv s -> c13_no_dead s -> c13_get_key_index k s = Some (Some i) ->
  sp_index key_eqb (live s) k = Some i.
Proof. intros k s i HI Hnd Hg. eapply (@index_clean key N key_eqb c13_hash [] 0%N key_eqb_spec c13_hash_nonzero_l); eauto. Qed.

Lemma c13_sort_refines_l : forall asc s, CInv s ->
  exists s', c13_sort asc s = Some s' /\ CInv s' /\ live s' = @sp_sort key N key_ltb asc (live s).
Proof.
  intros asc s HI.
  destruct (@sort_refines key N key_eqb key_ltb c13_hash [] 0%N key_eqb_spec c13_hash_nonzero_l
              key_ltb_irrefl key_ltb_trans key_ltb_total asc s HI) as (s' & Hs & HI' & Hl & _).
  exists s'. auto.
Qed.

(* the specification's sort returns a permutation without inversions *)
Lemma c13_spec_sort_l : forall asc (l : list (key * N)),
  Permutation l (@sp_sort key N key_ltb asc l) /\
  Sorted.StronglySorted (fun x y => @pair_before key N key_ltb asc y x = false) (@sp_sort key N key_ltb asc l).
Proof.
  intros asc l. split.
  - apply (@sp_sort_perm key N key_ltb [] 0%N key_ltb_irrefl key_ltb_trans key_ltb_total).
  - apply (@sp_sort_sorted key N key_ltb [] 0%N key_ltb_irrefl key_ltb_trans key_ltb_total).
Qed.

Lemma c13_resize_general_l : forall n s, CInv s ->
  exists s', c13_resize n s = Some s' /\ CInv s' /\ c13_no_dead s' /\ exists m, m <= n /\ live s' = firstn m (live s).
Proof.
  intros n s HI.
  destruct (@resize_pub_inv key N key_eqb c13_hash [] 0%N key_eqb_spec c13_hash_nonzero_l n s HI) as (s' & Hr & HI' & Hnd & _ & Hm & _).
  exists s'. auto.
Qed.


(* end to end: after ANY history whose specification is defined, every observation of any key
   (Has / GetValue / GetItem / GetKeyIndex / GetKey, iteration) is the association list's *)
Lemma c13_history_observe_l : forall ops l c outs (k : key),
  c13_sp_run ops ([], true) = Some ((l, c), outs) ->
  exists s r, c13_run ops empty_ht = Some (s, outs) /\ live s = l /\
    c13_lookup k s = Some r /\ c13_get_key_index k s = Some r /\
    match r with
    | Some i => exists v, c13_get_slot i s = Some (k, v) /\ sp_get key_eqb l k = Some v /\
                          (c = true -> sp_index key_eqb l k = Some i)
    | None => sp_get key_eqb l k = None
    end.
Proof.
  intros ops l c outs k Hsp. destruct (c13_history_l ops l c outs Hsp) as (s & Hr & HI & Hl & Hc).
  destruct (c13_lookup_l k s HI) as (r & Hlk & Hgi & Hres). exists s, r. rewrite <- Hl.
  split; [exact Hr|]. split; [reflexivity|]. split; [exact Hlk|]. split; [exact Hgi|].
  destruct r as [i|]; [|exact Hres]. destruct Hres as (v & Hs & Hv). exists v. split; [exact Hs|]. split; [exact Hv|].
  intros Hct. apply c13_index_clean_l; auto.
Qed.

(* ---------- non-vacuity ---------- *)
Local Open Scope N_scope.
(* [97], [101], [97;98] share bucket 0 at capacities 2 and 4; [101], [97;98] also at 8 *)
Example ex_collide : map (fun k => N.land (c13_hash k) 3) [[97]; [101]; [97; 98]] = [0; 0; 0].
Proof. vm_compute. reflexivity. Qed.

Definition ex_ops : list cop :=
  [OInsert [97] 1; OInsert [101] 2; OInsert [97; 98] 3;      (* a three-entry chain in bucket 0 *)
   ORemove [101];                                            (* remove its middle *)
   ORename [97; 98] [100]; OInsert [101] 5;                  (* relink, re-insert *)
   OGet [] 7; OInsert [97; 97] 8; OInsert [102] 9;           (* growth drops the tombstone *)
   OMerge [([97], 11); ([0; 0], 12)] [[97]]; ORemoveAt [100]; OCompress; OSort true; OResize 4%nat; OCopy; OSort false].

Example ex_run_spec :
  c13_sp_run ex_ops ([], true) =
  Some (([([97; 97], 8); ([97], 1); ([0; 0], 12); ([], 7)], true),
        [ONone; ONone; ONone; ONone; OBool true; ONone; OVal 0; ONone; ONone; ONone; ONone; ONone; ONone; ONone; ONone; ONone]).
Proof. vm_compute. reflexivity. Qed.

Example ex_run_model :
  option_map (fun p => (live (fst p), snd p)) (c13_run ex_ops empty_ht) =
  Some ([([97; 97], 8); ([97], 1); ([0; 0], 12); ([], 7)],
        [ONone; ONone; ONone; ONone; OBool true; ONone; OVal 0; ONone; ONone; ONone; ONone; ONone; ONone; ONone; ONone; ONone]).
Proof. vm_compute. reflexivity. Qed.
