(* Extract_cmp.v -- extraction of the C15 models and oracles to OCaml.
   ExtrOcamlBasic only: bool, option, unit, list, prod map to the OCaml types;
   nat, positive, N, Z stay the extracted inductive types. *)
From Coq Require Import Extraction ExtrOcamlBasic NArith ZArith.
From Qv Require Import CmpModel.
Extraction Language OCaml.
Set Extraction Optimize.
Extraction "model_cmp.ml"
  N.add N.mul N.sub N.div_eucl N.compare Z.add Z.mul Z.sub Z.div_eucl Z.compare Z.of_N Z.to_N Z.opp
  CmpModel.str_ops CmpModel.str_pair_oracle CmpModel.lex_cmp
  CmpModel.cstr_ops CmpModel.cstr_pair_oracle CmpModel.item_ops CmpModel.item_pair_oracle
  CmpModel.v_ops CmpModel.val_pair_oracle CmpModel.v_norm CmpModel.v_nan
  CmpModel.sort_n CmpModel.sort_str CmpModel.sort_val CmpModel.sort_items CmpModel.live_items
  CmpModel.n_sort_oracle CmpModel.str_sort_oracle CmpModel.val_sort_oracle CmpModel.harray_sort_oracle.
