(* UniSweepU16c.v -- C20 sweep (finite domain, vm_compute; one evaluation, at Qed).
   Rebuilt only when UniModel.v / gen/Tables_uni.v change.  Blocks [12;13;14;15;16] of 2^16 code points, predicate P16. *)
From Coq Require Import NArith List Bool.
From Qv Require Import UniModel UniProofsBase.
Import ListNotations.
Local Open Scope N_scope.

Lemma sweep_u16_c : blocks [12;13;14;15;16] P16 = true.
Proof. vm_cast_no_check (eq_refl true). Qed.
