(* HtabProofsOps3.v -- C13: lookups (Has / GetValue / GetKeyIndex / GetKey), RemoveIndex,
   Reserve / Clear / Reset / Resize / Expect / Compress, copy, merge. *)
From Coq Require Import List NArith Arith Bool Lia ZifyBool ZifyNat ZifyN.
From Qv Require Import HtabModel HtabProofsBase HtabProofsInv HtabProofsOps HtabProofsOps2.
Import ListNotations.

Lemma filter_all {A} (p : A -> bool) (l : list A) : Forall (fun x => p x = true) l -> filter p l = l.
Proof. induction l as [|a l IH]; intros Hf; simpl; auto. inversion Hf; subst. rewrite H1. f_equal. auto. Qed.
Lemma filter_length_all {A} (p : A -> bool) (l : list A) : length (filter p l) = length l -> Forall (fun x => p x = true) l.
Proof.
  induction l as [|a l IH]; intros Hl; simpl in *; [constructor|].
  destruct (p a) eqn:E; simpl in Hl.
  - constructor; auto.
  - pose proof (filter_length_le p l). lia.
Qed.
Lemma Forall_firstn {A} (P : A -> Prop) n (l : list A) : Forall P l -> Forall P (firstn n l).
Proof. revert n; induction l as [|a l IH]; intros [|n] Hf; simpl; auto. inversion Hf; subst. constructor; auto. Qed.
Lemma In_firstn_in {A} n (l : list A) x : In x (firstn n l) -> In x l.
Proof.
  revert n; induction l as [|a l IH]; intros [|n] Hx; simpl in *; try contradiction.
  destruct Hx as [Hx|Hx]; [left; exact Hx|right; eapply IH; exact Hx].
Qed.
Lemma NoDup_firstn {A} n (l : list A) : NoDup l -> NoDup (firstn n l).
Proof.
  revert n; induction l as [|a l IH]; intros [|n] Hf; simpl; auto; try constructor.
  - inversion Hf; subst. intros Hin. apply H1. eapply In_firstn_in. exact Hin.
  - inversion Hf; subst. auto.
Qed.

Section Ops3.
Context {K V : Type}.
Variable keqb : K -> K -> bool.
Variable H : K -> N.
Variable kdef : K.
Variable vdef : V.
Hypothesis keqb_spec : forall a b, keqb a b = true <-> a = b.
Hypothesis H_nz : forall k, H k <> 0%N.

Notation ht := (ht K V).
Notation item := (item K V).
Notation it := (@it K V kdef vdef).
Notation rd_link := (@rd_link K V kdef vdef).
Notation wr_link := (@wr_link K V kdef vdef).
Notation set_val := (@set_val K V kdef vdef).
Notation insert_item := (@insert_item K V kdef vdef).
Notation resize := (@resize K V kdef vdef).
Notation find_key := (@find_key K V keqb kdef vdef).
Notation insert := (@insert K V keqb H kdef vdef).
Notation remove_h := (@remove_h K V keqb kdef vdef).
Notation remove := (@remove K V keqb H kdef vdef).
Notation remove_index := (@remove_index K V keqb kdef vdef).
Notation lookup := (@lookup K V keqb H kdef vdef).
Notation get_key_index := (@get_key_index K V keqb H kdef vdef).
Notation get_slot := (@get_slot K V kdef vdef).
Notation reset := (@reset K V).
Notation reserve := (@reserve K V).
Notation clear := (@clear K V).
Notation resize_pub := (@resize_pub K V kdef vdef).
Notation expect := (@expect K V kdef vdef).
Notation compress := (@compress K V kdef vdef).
Notation copy := (@copy K V kdef vdef).
Notation merge_one := (@merge_one K V keqb kdef vdef).
Notation merge_loop := (@merge_loop K V keqb kdef vdef).
Notation merge := (@merge K V keqb kdef vdef).
Notation Seg := (@Seg K V kdef vdef).
Notation Inv := (@Inv K V H kdef vdef).
Notation items_ok := (@items_ok K V H).
Notation hash_ok := (@hash_ok K V H).
Notation bucket_chain := (@bucket_chain K V kdef vdef).
Notation live_at := (@live_at K V kdef vdef).
Notation live_l := (@live_l K V).
Notation kv := (@kv K V).
Notation no_dead := (@no_dead K V).
Local Notation Inv_empty := (@Inv_empty K V keqb H kdef vdef).
Local Notation Inv_bucket_lt := (@Inv_bucket_lt K V keqb H kdef vdef).
Local Notation live_item_iff := (@live_item_iff K V keqb H kdef vdef).
Local Notation items_ok_idx := (@items_ok_idx K V keqb H kdef vdef).
Local Notation bucket_chain_frame := (@bucket_chain_frame K V keqb H kdef vdef).
Local Notation link_end_step := (@link_end_step K V keqb H kdef vdef).
Local Notation matches_iff := (@matches_iff K V keqb H kdef vdef keqb_spec H_nz).
Local Notation find_key_inv := (@find_key_inv K V keqb H kdef vdef keqb_spec H_nz).
Local Notation live_is_live_l := (@live_is_live_l K V keqb H kdef vdef keqb_spec H_nz).
Local Notation live_l_app := (@live_l_app K V keqb H kdef vdef keqb_spec H_nz).
Local Notation keqb_refl := (@keqb_refl K V keqb H kdef vdef keqb_spec H_nz).
Local Notation keqb_neq := (@keqb_neq K V keqb H kdef vdef keqb_spec H_nz).
Local Notation sp_get_none := (@sp_get_none K V keqb H kdef vdef keqb_spec H_nz).
Local Notation sp_get_found := (@sp_get_found K V keqb H kdef vdef keqb_spec H_nz).
Local Notation sp_index_none := (@sp_index_none K V keqb H kdef vdef keqb_spec H_nz).
Local Notation sp_index_found := (@sp_index_found K V keqb H kdef vdef keqb_spec H_nz).
Local Notation sp_put_fresh := (@sp_put_fresh K V keqb H kdef vdef keqb_spec H_nz).
Local Notation sp_put_found := (@sp_put_found K V keqb H kdef vdef keqb_spec H_nz).
Local Notation sp_remove_none := (@sp_remove_none K V keqb H kdef vdef keqb_spec H_nz).
Local Notation sp_remove_found := (@sp_remove_found K V keqb H kdef vdef keqb_spec H_nz).
Local Notation sp_rekey_found := (@sp_rekey_found K V keqb H kdef vdef keqb_spec H_nz).
Local Notation In_nth_lt := (@In_nth_lt K V keqb H kdef vdef keqb_spec H_nz).
Local Notation split_at := (@split_at K V keqb H kdef vdef keqb_spec H_nz).
Local Notation no_key_before := (@no_key_before K V keqb H kdef vdef keqb_spec H_nz).
Local Notation no_key_all := (@no_key_all K V keqb H kdef vdef keqb_spec H_nz).
Local Notation live_l_replace := (@live_l_replace K V keqb H kdef vdef keqb_spec H_nz).
Local Notation live_upd_same := (@live_upd_same K V keqb H kdef vdef keqb_spec H_nz).
Local Notation live_wr := (@live_wr K V keqb H kdef vdef keqb_spec H_nz).
Local Notation hash_ok_it := (@hash_ok_it K V keqb H kdef vdef keqb_spec H_nz).
Local Notation items_ok_wr := (@items_ok_wr K V keqb H kdef vdef keqb_spec H_nz).
Local Notation set_val_inv := (@set_val_inv K V keqb H kdef vdef keqb_spec H_nz).
Local Notation insert_item_inv := (@insert_item_inv K V keqb H kdef vdef keqb_spec H_nz).
Local Notation gh_step_inv := (@gh_step_inv K V keqb H kdef vdef keqb_spec H_nz).
Local Notation gh_loop_inv := (@gh_loop_inv K V keqb H kdef vdef keqb_spec H_nz).
Local Notation live_of_fields := (@live_of_fields K V keqb H kdef vdef keqb_spec H_nz).
Local Notation hash_ok_of_fields := (@hash_ok_of_fields K V keqb H kdef vdef keqb_spec H_nz).
Local Notation generate_hash_inv := (@generate_hash_inv K V keqb H kdef vdef keqb_spec H_nz).
Local Notation live_filter := (@live_filter K V keqb H kdef vdef keqb_spec H_nz).
Local Notation no_dead_fields := (@no_dead_fields K V keqb H kdef vdef keqb_spec H_nz).
Local Notation resize_inv := (@resize_inv K V keqb H kdef vdef keqb_spec H_nz).
Local Notation live_length_le := (@live_length_le K V keqb H kdef vdef keqb_spec H_nz).
Local Notation no_dead_live_length := (@no_dead_live_length K V keqb H kdef vdef keqb_spec H_nz).
Local Notation grow_if_full_inv := (@grow_if_full_inv K V keqb H kdef vdef keqb_spec H_nz).
Local Notation sp_put_absent := (@sp_put_absent K V keqb H kdef vdef keqb_spec H_nz).
Local Notation no_dead_set_val := (@no_dead_set_val K V keqb H kdef vdef keqb_spec H_nz).
Local Notation no_dead_wr := (@no_dead_wr K V keqb H kdef vdef keqb_spec H_nz).
Local Notation insert_refines := (@insert_refines K V keqb H kdef vdef keqb_spec H_nz).
Local Notation get_refines := (@get_refines K V keqb H kdef vdef keqb_spec H_nz).
Local Notation NoDup_keys_sp_remove := (@NoDup_keys_sp_remove K V keqb H kdef vdef keqb_spec H_nz).
Local Notation unlink_inv := (@unlink_inv K V keqb H kdef vdef keqb_spec H_nz).
Local Notation live_nil_of_size0 := (@live_nil_of_size0 K V keqb H kdef vdef keqb_spec H_nz).
Local Notation remove_refines := (@remove_refines K V keqb H kdef vdef keqb_spec H_nz).
Local Set Default Proof Using "All".

(* ---------- lookups ---------- *)
Lemma lookup_spec k s :
  Inv s ->
  exists r, lookup k s = Some r /\ get_key_index k s = Some r /\
    match r with
    | Some i => i < size s /\ live_at s i /\ ikey (it s i) = k /\ sp_get keqb (live s) k = Some (ival (it s i)) /\
                sp_index keqb (live s) k = Some (length (live_l (firstn i (items s))))
    | None => sp_get keqb (live s) k = None /\ sp_index keqb (live s) k = None
    end.
Proof.
  intros HI. unfold HtabModel.lookup, HtabModel.get_key_index. destruct (size s =? 0) eqn:E0.
  - apply Nat.eqb_eq in E0. exists None. rewrite (live_nil_of_size0 s E0). auto.
  - apply Nat.eqb_neq in E0. pose proof (inv_size _ _ _ _ HI) as Hsz.
    assert (Hc : 0 < cap s) by lia.
    destruct (find_key_inv s k HI Hc) as (c & Hbc & [(pre & i & post & -> & Hi & Hli & Hk & ->)|(Hno & ->)]).
    + exists (Some i). split; [reflexivity|]. split.
      * destruct Hbc as (Hseg & _). apply Seg_app in Hseg. destruct Hseg as (m & Hpre & (Hm & _)).
        change (nth (bucket (cap s) (H k)) (heads s) 0) with (rd_link s (Head (bucket (cap s) (H k)))) in Hpre.
        rewrite (Seg_rd_after kdef vdef s _ pre m Hpre). subst m. reflexivity.
      * assert (Hnk : no_key (firstn i (items s)) k) by (eapply no_key_before; eauto; apply (inv_items _ _ _ _ HI)).
        assert (Hlx : live_item (it s i) = true) by (apply live_item_iff; exact Hli).
        repeat split; auto.
        -- rewrite live_is_live_l, (split_at s i Hi). apply sp_get_found; auto.
        -- rewrite live_is_live_l. rewrite (split_at s i Hi) at 1. apply sp_index_found; auto.
    + exists None. split; [reflexivity|]. split; [reflexivity|].
      rewrite live_is_live_l. split; [apply sp_get_none|apply sp_index_none]; apply no_key_all; exact Hno.
Qed.

Lemma no_dead_live_map (s : ht) : no_dead s -> live s = map kv (items s).
Proof. intros Hnd. unfold live. rewrite filter_all by exact Hnd. reflexivity. Qed.

Lemma live_l_firstn_all (its : list item) n :
  Forall (fun x : item => live_item x = true) its -> live_l (firstn n its) = firstn n (live_l its).
Proof.
  intros Hf. unfold HtabProofsInv.live_l. rewrite (filter_all _ its Hf).
  rewrite (filter_all _ (firstn n its)) by (apply Forall_firstn; exact Hf). symmetry. apply firstn_map.
Qed.

(* in a state without removed slots, slot numbers are positions in the live list *)
Lemma index_clean k s i :
  Inv s -> no_dead s -> get_key_index k s = Some (Some i) -> sp_index keqb (live s) k = Some i.
Proof.
  intros HI Hnd Hg. destruct (lookup_spec k s HI) as (r & _ & Hg' & Hr). rewrite Hg in Hg'. inversion Hg'; subst r.
  destruct Hr as (Hi & _ & _ & _ & ->). f_equal.
  rewrite live_l_firstn_all by exact Hnd. rewrite firstn_length.
  unfold HtabProofsInv.live_l. rewrite filter_all by exact Hnd. rewrite map_length. fold (size s). lia.
Qed.

Lemma get_slot_spec i s :
  get_slot i s = if (i <? size s) && live_item (it s i) then Some (kv (it s i)) else None.
Proof. reflexivity. Qed.

(* key -> index -> key *)
Lemma key_index_key k s i :
  Inv s -> get_key_index k s = Some (Some i) ->
  exists v, get_slot i s = Some (k, v) /\ sp_get keqb (live s) k = Some v.
Proof.
  intros HI Hg. destruct (lookup_spec k s HI) as (r & _ & Hg' & Hr). rewrite Hg in Hg'. inversion Hg'; subst r.
  destruct Hr as (Hi & Hl & Hk & Hv & _). exists (ival (it s i)). split; [|exact Hv].
  unfold HtabModel.get_slot. apply Nat.ltb_lt in Hi. rewrite Hi. apply live_item_iff in Hl. rewrite Hl. simpl.
  rewrite Hk. reflexivity.
Qed.
(* index -> key -> index *)
Lemma index_key_index i s k v :
  Inv s -> get_slot i s = Some (k, v) -> get_key_index k s = Some (Some i).
Proof.
  intros HI Hs. unfold HtabModel.get_slot in Hs.
  destruct (i <? size s) eqn:Ei; [|discriminate]. destruct (live_item (it s i)) eqn:El; [|discriminate].
  simpl in Hs. inversion Hs; subst. apply Nat.ltb_lt in Ei. apply live_item_iff in El.
  destruct (lookup_spec (ikey (it s i)) s HI) as (r & _ & Hg & Hr). rewrite Hg. f_equal.
  destruct r as [j|].
  - destruct Hr as (Hj & Hlj & Hkj & _). f_equal.
    destruct (items_ok_idx s (inv_items _ _ _ _ HI)) as (_ & Hkeys). apply Hkeys; auto.
  - destruct Hr as (Hn & _). exfalso.
    rewrite live_is_live_l, (split_at s i Ei) in Hn. rewrite sp_get_found in Hn; [discriminate| | |reflexivity].
    + eapply no_key_before; eauto. apply (inv_items _ _ _ _ HI).
    + apply live_item_iff. exact El.
Qed.

(* ---------- RemoveIndex ---------- *)
Lemma remove_index_spec i s :
  Inv s ->
  remove_index i s = match get_slot i s with Some (k, _) => remove k s | None => Some s end.
Proof.
  intros HI. unfold HtabModel.remove_index, HtabModel.get_slot, HtabModel.remove.
  destruct (i <? size s) eqn:Ei; [|reflexivity]. destruct (live_item (it s i)) eqn:El; [|reflexivity]. simpl.
  apply Nat.ltb_lt in Ei.
  destruct (items_ok_idx s (inv_items _ _ _ _ HI)) as (Hh & _).
  rewrite (Hh i Ei) by (apply live_item_iff; exact El). reflexivity.
Qed.

Lemma sp_remove_nth_key (l : list (K * V)) i d :
  NoDup (map fst l) -> i < length l -> sp_remove keqb l (fst (nth i l d)) = sp_remove_nth l i.
Proof.
  revert i; induction l as [|(k, v) r IH]; intros i Hnd Hi; simpl in *; [lia|].
  inversion Hnd as [|? ? Hni Hr]; subst. destruct i as [|i]; simpl.
  - rewrite keqb_refl. reflexivity.
  - rewrite keqb_neq.
    + unfold sp_remove_nth in *. simpl. f_equal. apply IH; auto. lia.
    + intros ->. apply Hni. apply in_map. apply nth_In. lia.
Qed.

Lemma remove_index_clean i s :
  Inv s -> no_dead s ->
  exists s', remove_index i s = Some s' /\ Inv s' /\ live s' = sp_remove_nth (live s) i /\
             (size s <= i -> s' = s).
Proof.
  intros HI Hnd. rewrite (remove_index_spec i s HI). unfold HtabModel.get_slot.
  destruct (i <? size s) eqn:Ei.
  - apply Nat.ltb_lt in Ei.
    assert (El : live_item (it s i) = true).
    { unfold HtabProofsOps.no_dead in Hnd. rewrite Forall_forall in Hnd. apply Hnd. apply nth_In. exact Ei. }
    rewrite El. simpl.
    destruct (remove_refines (ikey (it s i)) s HI) as (s' & Hr & HI' & Hl & _).
    exists s'. split; [exact Hr|]. split; [exact HI'|]. split; [|lia].
    rewrite Hl. rewrite <- (sp_remove_nth_key (live s) i (kdef, vdef)).
    + f_equal. rewrite (no_dead_live_map s Hnd).
      change (kdef, vdef) with (kv (@dummy K V kdef vdef)). rewrite map_nth. reflexivity.
    + apply (inv_items _ _ _ _ HI).
    + rewrite (no_dead_live_length s Hnd). exact Ei.
  - simpl. apply Nat.ltb_ge in Ei. exists s. split; [reflexivity|]. split; [exact HI|]. split; [|auto].
    unfold sp_remove_nth. rewrite firstn_all2 by (rewrite (no_dead_live_length s Hnd); lia).
    rewrite skipn_all2 by (rewrite (no_dead_live_length s Hnd); lia). rewrite app_nil_r. reflexivity.
Qed.

(* ---------- Reset / Reserve / Clear ---------- *)
Lemma chains_of_zero_heads (s : ht) :
  heads s = zero_heads (cap s) -> size s = 0 -> forall b, b < cap s -> exists c, bucket_chain s (size s) b c.
Proof.
  intros Hh Hs b Hb. exists []. split; [|split; [constructor|split]].
  - simpl. rewrite Hh. apply nth_repeat_0.
  - intros i [].
  - intros i Hi. lia.
Qed.

Lemma Inv_fresh_nil n : 1 <= n -> Inv (@fresh K V n []).
Proof.
  intros Hn. destruct (alloc_cap_spec n Hn) as ((m & Hm) & _). split.
  - right. exists m. exact Hm.
  - simpl. apply repeat_length.
  - unfold size. simpl. lia.
  - split; [constructor|constructor].
  - apply chains_of_zero_heads; reflexivity.
Qed.

Lemma reset_inv s : Inv s -> Inv (reset s) /\ live (reset s) = [] /\ no_dead (reset s).
Proof.
  intros HI. unfold HtabModel.reset. destruct (cap s =? 0) eqn:E.
  - apply Nat.eqb_eq in E. pose proof (inv_size _ _ _ _ HI) as Hsz.
    assert (Hs0 : size s = 0) by lia. split; [exact HI|]. split; [apply live_nil_of_size0; exact Hs0|].
    unfold HtabProofsOps.no_dead, size in *. destruct (items s); [constructor|discriminate].
  - split; [apply Inv_empty|]. split; [reflexivity|constructor].
Qed.
Lemma reserve_inv n s : Inv s -> Inv (reserve n s) /\ live (reserve n s) = [] /\ no_dead (reserve n s).
Proof.
  intros HI. unfold HtabModel.reserve. destruct (n =? 0) eqn:E; [apply reset_inv; exact HI|].
  apply Nat.eqb_neq in E. split; [apply Inv_fresh_nil; lia|]. split; [reflexivity|constructor].
Qed.
Lemma clear_inv s : Inv s -> Inv (clear s) /\ live (clear s) = [] /\ no_dead (clear s).
Proof.
  intros HI. unfold HtabModel.clear. destruct (size s =? 0) eqn:E.
  - apply Nat.eqb_eq in E. split; [exact HI|]. split; [apply live_nil_of_size0; exact E|].
    unfold HtabProofsOps.no_dead, size in *. destruct (items s); [constructor|discriminate].
  - split; [|split; [reflexivity|constructor]].
    destruct HI as [Hcap Hhd Hsize Hok Hch]. split.
    + exact Hcap.
    + simpl. apply repeat_length.
    + unfold size. simpl. lia.
    + split; [constructor|constructor].
    + apply chains_of_zero_heads; reflexivity.
Qed.

(* ---------- Resize / Expect / Compress ---------- *)
Lemma filter_firstn_prefix {A} (p : A -> bool) n (l : list A) :
  exists m, filter p (firstn n l) = firstn m (filter p l) /\ m <= n.
Proof.
  revert n; induction l as [|a l IH]; intros [|n]; simpl; try (exists 0; split; [reflexivity|lia]).
  destruct (IH n) as (m & E & Hm). destruct (p a).
  - exists (S m). simpl. rewrite E. split; [reflexivity|lia].
  - exists m. split; [exact E|lia].
Qed.

Lemma items_ok_firstn n (s : ht) : items_ok s -> items_ok (mkHt (cap s) (heads s) (firstn n (items s))).
Proof.
  intros (Hf & Hnd). split; simpl.
  - apply Forall_firstn. exact Hf.
  - unfold live in *. simpl. destruct (filter_firstn_prefix (@live_item K V) n (items s)) as (m & -> & _).
    rewrite <- firstn_map, <- firstn_map. apply NoDup_firstn. exact Hnd.
Qed.

(* Resize(n) in ANY state: the entries of the first n slots survive (a prefix of the live list) *)
Lemma resize_pub_inv n s :
  Inv s ->
  exists s', resize_pub n s = Some s' /\ Inv s' /\ no_dead s' /\
             live s' = live_l (firstn n (items s)) /\
             (exists m, m <= n /\ live s' = firstn m (live s)) /\
             (no_dead s -> live s' = firstn n (live s)).
Proof.
  intros HI. unfold HtabModel.resize_pub. destruct (n =? 0) eqn:E0.
  - apply Nat.eqb_eq in E0. subst n. destruct (reset_inv s HI) as (HI' & Hl & Hnd).
    exists (reset s). split; [reflexivity|]. split; [exact HI'|]. split; [exact Hnd|].
    rewrite Hl. simpl. split; [reflexivity|]. split; [exists 0; auto|auto].
  - apply Nat.eqb_neq in E0.
    set (t := if n <? size s then mkHt (cap s) (heads s) (firstn n (items s)) else s).
    assert (Hlt : live t = live_l (firstn n (items s))).
    { unfold t. destruct (n <? size s) eqn:E; [reflexivity|]. apply Nat.ltb_ge in E.
      rewrite firstn_all2 by exact E. reflexivity. }
    assert (Hokt : items_ok t).
    { unfold t. destruct (n <? size s); [apply items_ok_firstn|]; apply (inv_items _ _ _ _ HI). }
    assert (Hlen : length (live t) <= n).
    { rewrite Hlt. unfold HtabProofsInv.live_l. rewrite map_length.
      pose proof (filter_length_le (@live_item K V) (firstn n (items s))). rewrite firstn_length in *. lia. }
    destruct (resize_inv n t Hokt ltac:(lia) Hlen) as (s' & Hr & HI' & Hl' & _ & _ & Hnd').
    exists s'. split; [exact Hr|]. split; [exact HI'|]. split; [exact Hnd'|].
    rewrite Hl', Hlt. split; [reflexivity|]. split.
    + unfold HtabProofsInv.live_l, live. destruct (filter_firstn_prefix (@live_item K V) n (items s)) as (m & -> & Hm).
      exists m. split; [exact Hm|]. symmetry. apply firstn_map.
    + intros Hnd. rewrite live_is_live_l. apply live_l_firstn_all. exact Hnd.
Qed.

Lemma expect_inv count s :
  Inv s ->
  exists s', expect count s = Some s' /\ Inv s' /\ live s' = live s /\ (no_dead s -> no_dead s').
Proof.
  intros HI. unfold HtabModel.expect. destruct (cap s <? count + size s) eqn:E.
  - apply Nat.ltb_lt in E. pose proof (live_length_le s).
    destruct (resize_inv (count + size s) s (inv_items _ _ _ _ HI) ltac:(lia) ltac:(lia)) as (s' & Hr & HI' & Hl' & _ & _ & Hnd').
    exists s'. auto.
  - exists s. auto.
Qed.

Lemma compress_inv s :
  Inv s ->
  exists s', compress s = Some s' /\ Inv s' /\ live s' = live s /\ no_dead s'.
Proof.
  intros HI. unfold HtabModel.compress.
  assert (Ha : actual_size s = length (live s)) by (unfold actual_size, live; rewrite map_length; reflexivity).
  destruct (actual_size s =? 0) eqn:E0.
  - apply Nat.eqb_eq in E0. destruct (reset_inv s HI) as (HI' & Hl & Hnd).
    exists (reset s). split; [reflexivity|]. split; [exact HI'|]. split; [|exact Hnd].
    rewrite Hl. symmetry. apply length_zero_iff_nil. lia.
  - apply Nat.eqb_neq in E0. destruct (actual_size s <? size s) eqn:E1.
    + destruct (resize_inv (actual_size s) s (inv_items _ _ _ _ HI) ltac:(lia) ltac:(lia)) as (s' & Hr & HI' & Hl' & _ & _ & Hnd').
      exists s'. auto.
    + apply Nat.ltb_ge in E1. exists s. split; [reflexivity|]. split; [exact HI|]. split; [reflexivity|].
      unfold HtabProofsOps.no_dead. apply filter_length_all. pose proof (filter_length_le (@live_item K V) (items s)).
      unfold actual_size, size in *. lia.
Qed.

(* ---------- copy ---------- *)
Lemma copy_inv s :
  Inv s -> exists s', copy s = Some s' /\ Inv s' /\ live s' = live s /\ no_dead s'.
Proof.
  intros HI. unfold HtabModel.copy. destruct (size s =? 0) eqn:E0.
  - apply Nat.eqb_eq in E0. exists (@empty_ht K V). split; [reflexivity|]. split; [apply Inv_empty|].
    split; [rewrite (live_nil_of_size0 s E0); reflexivity|constructor].
  - apply Nat.eqb_neq in E0. pose proof (live_length_le s).
    destruct (resize_inv (size s) s (inv_items _ _ _ _ HI) ltac:(lia) ltac:(lia)) as (s' & Hr & HI' & Hl' & _ & _ & Hnd').
    exists s'. auto.
Qed.

(* ---------- merge ---------- *)
Lemma merge_loop_inv : forall xs s,
  Inv s -> Forall hash_ok xs -> size s + length xs <= cap s ->
  exists s', merge_loop xs s = Some s' /\ Inv s' /\ live s' = sp_merge keqb (live s) (live_l xs) /\
             (no_dead s -> no_dead s').
Proof.
  induction xs as [|x xs IH]; intros s HI Hf Hcap.
  - exists s. simpl. auto.
  - inversion Hf as [|? ? Hx Hxs]; subst. simpl in Hcap. cbn [HtabModel.merge_loop].
    unfold HtabModel.merge_one. destruct (live_item x) eqn:El.
    + rewrite (Hx El).
      assert (Hc : 0 < cap s) by lia.
      assert (Hlx : live_l (x :: xs) = (ikey x, ival x) :: live_l xs).
      { unfold HtabProofsInv.live_l. simpl. rewrite El. reflexivity. }
      rewrite Hlx. unfold sp_merge. simpl.
      destruct (find_key_inv s (ikey x) HI Hc) as (c & Hbc & [(pre & i & post & -> & Hi & Hli & Hk & ->)|(Hno & ->)]).
      * destruct (set_val_inv s i (ival x) HI Hi Hli) as (HI' & Hl' & Hc' & Hs').
        destruct (IH (set_val s i (ival x)) HI' Hxs ltac:(lia)) as (s' & Hr & HI'' & Hl'' & Hnd'').
        exists s'. split; [exact Hr|]. split; [exact HI''|]. split.
        -- rewrite Hl'', Hl', Hk. reflexivity.
        -- intros Hnd. apply Hnd''. apply no_dead_set_val; auto.
      * destruct (insert_item_inv s (ikey x) (ival x) c HI ltac:(lia) Hbc Hno) as (HI' & Hl' & Hc' & Hs' & _ & _).
        destruct (IH _ HI' Hxs ltac:(lia)) as (s' & Hr & HI'' & Hl'' & Hnd'').
        exists s'. split; [exact Hr|]. split; [exact HI''|]. split.
        -- rewrite Hl'', Hl'. unfold sp_merge. f_equal. rewrite live_is_live_l. symmetry. apply sp_put_absent. apply no_key_all. exact Hno.
        -- intros Hnd. apply Hnd''. unfold HtabModel.insert_item. apply no_dead_wr. unfold HtabProofsOps.no_dead. simpl.
           apply Forall_app. split; [exact Hnd|]. constructor; [|constructor].
           apply live_item_iff. simpl. apply H_nz.
    + assert (Hlx : live_l (x :: xs) = live_l xs).
      { unfold HtabProofsInv.live_l. simpl. rewrite El. reflexivity. }
      rewrite Hlx. apply IH; auto. lia.
Qed.

Lemma merge_inv src s :
  Inv src -> Inv s ->
  exists s', merge src s = Some s' /\ Inv s' /\ live s' = sp_merge keqb (live s) (live src) /\
             (no_dead s -> no_dead s').
Proof.
  intros HIs HI. unfold HtabModel.merge.
  destruct (inv_items _ _ _ _ HIs) as (Hfs & _).
  destruct (cap s <? size s + size src) eqn:E.
  - apply Nat.ltb_lt in E. pose proof (live_length_le s).
    destruct (resize_inv (size s + size src) s (inv_items _ _ _ _ HI) ltac:(lia) ltac:(lia)) as (s1 & -> & HI1 & Hl1 & Hc1 & Hs1 & Hnd1).
    destruct (alloc_cap_spec (size s + size src) ltac:(lia)) as (_ & Hge).
    destruct (merge_loop_inv (items src) s1 HI1 Hfs) as (s' & Hr & HI' & Hl' & Hnd').
    + fold (size src). lia.
    + exists s'. split; [exact Hr|]. split; [exact HI'|]. split; [rewrite Hl', Hl1; reflexivity|auto].
  - apply Nat.ltb_ge in E.
    destruct (merge_loop_inv (items src) s HI Hfs) as (s' & Hr & HI' & Hl' & Hnd').
    + fold (size src). lia.
    + exists s'. auto.
Qed.

End Ops3.
