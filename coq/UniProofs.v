(* UniProofs.v -- C20: lemmas.  The finite facts come from the UniSweep*.v files
   (vm_compute over the whole domain, bound in the statement, lifted with
   forall_bits_spec); everything about UnEscape on texts of arbitrary length is
   by induction. *)
From Coq Require Import NArith ZArith List Bool Lia ZifyBool ZifyNat ZifyN.
From Qv Require Import gen.Tables_uni UniModel UniProofsBase
  UniSweepU8a UniSweepU8b UniSweepU8c UniSweepU16a UniSweepU16b UniSweepU16c UniSweepEsc.
Import ListNotations.
Local Open Scope N_scope.
Ltac Zify.zify_post_hook ::= Z.div_mod_to_equations.

(* ------------------------------------------------------------------ *)
(* small facts                                                          *)

Lemma eqb_list_true : forall a b, eqb_list a b = true -> a = b.
Proof.
  induction a as [|x a IH]; intros [|y b] H; cbn in H; try discriminate; [reflexivity|].
  apply andb_true_iff in H. destruct H as [Hx Hr]. apply N.eqb_eq in Hx. subst y.
  f_equal. now apply IH.
Qed.

Lemma eqb_list_refl : forall a, eqb_list a a = true.
Proof. induction a as [|x a IH]; cbn; [reflexivity|]. now rewrite N.eqb_refl, IH. Qed.

Lemma scalar_scalarb : forall cp, scalar cp <-> scalarb cp = true.
Proof. intros cp. unfold scalar, scalarb. lia. Qed.

Lemma scalar_bound : forall cp, scalar cp -> cp < 0x110000.
Proof. intros cp H. unfold scalar in H. lia. Qed.

Definition validw (w : N) : Prop := w = 1 \/ w = 2 \/ w = 4.

(* ------------------------------------------------------------------ *)
(* encoders                                                             *)

Lemma P8_all : forall cp, cp < 0x110000 -> P8 cp = true.
Proof. exact (blocks_cover P8 _ _ _ sweep_u8_a sweep_u8_b sweep_u8_c cover_17). Qed.

Lemma P16_all : forall cp, cp < 0x110000 -> P16 cp = true.
Proof. exact (blocks_cover P16 _ _ _ sweep_u16_a sweep_u16_b sweep_u16_c cover_17). Qed.

Lemma P8_parts : forall cp, scalar cp ->
  to_utf8 cp = std_utf8 cp /\ dec_utf8 (std_utf8 cp) = Some cp /\ length (std_utf8 cp) = utf8_len cp.
Proof.
  intros cp Hs. pose proof (P8_all cp (scalar_bound cp Hs)) as H. unfold P8 in H.
  apply scalar_scalarb in Hs. rewrite Hs in H. cbn [implb] in H. cbv zeta in H.
  apply andb_true_iff in H. destruct H as [H H3]. apply andb_true_iff in H. destruct H as [H1 H2].
  split; [now apply eqb_list_true|]. split.
  - unfold opt_is in H2. destruct (dec_utf8 (std_utf8 cp)) as [y|]; [|discriminate].
    apply N.eqb_eq in H2. now subst.
  - now apply Nat.eqb_eq.
Qed.

Lemma P16_parts : forall cp, scalar cp ->
  to_utf16 cp = std_utf16 cp /\ dec_utf16 (std_utf16 cp) = Some cp.
Proof.
  intros cp Hs. pose proof (P16_all cp (scalar_bound cp Hs)) as H. unfold P16 in H.
  apply scalar_scalarb in Hs. rewrite Hs in H. cbn [implb] in H. cbv zeta in H.
  apply andb_true_iff in H. destruct H as [H1 H2].
  split; [now apply eqb_list_true|].
  unfold opt_is in H2. destruct (dec_utf16 (std_utf16 cp)) as [y|]; [|discriminate].
  apply N.eqb_eq in H2. now subst.
Qed.

Lemma encode_utf8 : forall cp, scalar cp -> to_utf 1 cp = std_utf 1 cp.
Proof. intros cp Hs. exact (proj1 (P8_parts cp Hs)). Qed.

Lemma encode_utf16 : forall cp, scalar cp -> to_utf 2 cp = std_utf 2 cp.
Proof. intros cp Hs. exact (proj1 (P16_parts cp Hs)). Qed.

(* symbolic: no sweep *)
Lemma encode_utf32 : forall cp, scalar cp -> to_utf 4 cp = std_utf 4 cp.
Proof.
  intros cp Hs. apply scalar_bound in Hs.
  change (to_utf 4 cp) with [cp mod 4294967296]. change (std_utf 4 cp) with [cp].
  rewrite N.mod_small by lia. reflexivity.
Qed.

Lemma encode_all : forall w cp, validw w -> scalar cp -> to_utf w cp = std_utf w cp.
Proof.
  intros w cp [Hw|[Hw|Hw]] Hs; subst w;
    [now apply encode_utf8|now apply encode_utf16|now apply encode_utf32].
Qed.

(* the specification is sane: an independent decoder inverts it, and the UTF-8
   form has the RFC's (shortest) length *)
Lemma std_utf8_decodes : forall cp, scalar cp -> dec_utf8 (std_utf8 cp) = Some cp.
Proof. intros cp Hs. exact (proj1 (proj2 (P8_parts cp Hs))). Qed.

Lemma std_utf8_length : forall cp, scalar cp -> length (std_utf8 cp) = utf8_len cp.
Proof. intros cp Hs. exact (proj2 (proj2 (P8_parts cp Hs))). Qed.

Lemma std_utf16_decodes : forall cp, scalar cp -> dec_utf16 (std_utf16 cp) = Some cp.
Proof. intros cp Hs. exact (proj2 (P16_parts cp Hs)). Qed.

Lemma std_utf_nonempty : forall w cp, std_utf w cp <> [].
Proof.
  intros w cp. unfold std_utf, std_utf8, std_utf16, std_utf32.
  destruct (w =? 1); [|destruct (w =? 2)];
    repeat match goal with |- context [if ?c then _ else _] => destruct c end; discriminate.
Qed.

(* ------------------------------------------------------------------ *)
(* hexadecimal digits, surrogate test, recombination (lifted sweeps)    *)

Lemma hex_step_ok : forall n d up, n < 4096 -> d < 16 ->
  hex_step n (hex_char up d) = Some (n * 16 + d).
Proof.
  intros n d up Hn Hd.
  pose proof (forall_bits_below 12 Phex2 sweep_hex n Hn) as H. unfold Phex2 in H.
  pose proof (forall_bits_below 4 _ H d Hd) as H2. cbv beta in H2.
  apply andb_true_iff in H2. destruct H2 as [Hf Ht].
  unfold Pstep in Hf, Ht.
  destruct up.
  - destruct (hex_step n (hex_char true d)) as [r|]; [|discriminate]. apply N.eqb_eq in Ht. now subst.
  - destruct (hex_step n (hex_char false d)) as [r|]; [|discriminate]. apply N.eqb_eq in Hf. now subst.
Qed.

Lemma sur_ok : forall x, x < 65536 ->
  is_high_surrogate x = ((0xD800 <=? x) && (x <? 0xDC00)).
Proof.
  intros x Hx. pose proof (forall_bits_below 16 Psur sweep_sur x Hx) as H.
  unfold Psur in H. now apply eqb_prop in H.
Qed.

Lemma recombine_ok : forall hi lo, hi < 1024 -> lo < 1024 ->
  recombine (0xD800 + hi) (0xDC00 + lo) = 0x10000 + hi * 1024 + lo.
Proof.
  intros hi lo Hh Hl. pose proof (forall_bits_below 10 Prec2 sweep_rec hi Hh) as H. unfold Prec2 in H.
  pose proof (forall_bits_below 10 _ H lo Hl) as H2. cbv beta in H2. now apply N.eqb_eq in H2.
Qed.

(* the four digit characters of a \uXXXX escape *)
Definition hex4l (k : ecase) (x : N) : list N :=
  [hex_char (up1 k) (x / 4096); hex_char (up2 k) ((x / 256) mod 16);
   hex_char (up3 k) ((x / 16) mod 16); hex_char (up4 k) (x mod 16)].

Lemma u_escape_shape : forall k x,
  u_escape k x = 92 :: (if cap_u k then 85 else 117) :: hex4l k x.
Proof. reflexivity. Qed.

Lemma hex4_ok : forall k x rest, x < 65536 ->
  hex_string_to_number (hex4l k x ++ rest) 4 = x.
Proof.
  intros k x rest Hx. unfold hex_string_to_number, hex4l. cbn [app firstn hex_loop].
  rewrite (hex_step_ok 0) by lia.
  rewrite hex_step_ok by lia.
  rewrite hex_step_ok by lia.
  rewrite hex_step_ok by lia.
  lia.
Qed.

(* the offset-advancing overload: the same number, and the count of units consumed *)
Lemma hex_scan_cons : forall n d r n', hex_step n d = Some n' ->
  hex_scan (d :: r) n = (fst (hex_scan r n'), S (snd (hex_scan r n'))).
Proof. intros n d r n' H. cbn [hex_scan]. rewrite H. destruct (hex_scan r n'). reflexivity. Qed.

Lemma hex_scan_stop : forall n d r, hex_step n d = None -> hex_scan (d :: r) n = (n, O).
Proof. intros n d r H. cbn [hex_scan]. now rewrite H. Qed.

Lemma hex_scan_fst : forall ds n, fst (hex_scan ds n) = hex_loop ds n.
Proof.
  induction ds as [|d r IH]; intros n; cbn [hex_scan hex_loop]; [reflexivity|].
  destruct (hex_step n d) as [n'|]; [|reflexivity].
  rewrite <- IH. destruct (hex_scan r n'). reflexivity.
Qed.

Lemma hex_scan_count : forall ds n, (snd (hex_scan ds n) <= length ds)%nat.
Proof.
  induction ds as [|d r IH]; intros n; cbn [hex_scan length]; [cbn; lia|].
  destruct (hex_step n d) as [n'|]; [|cbn; lia].
  specialize (IH n'). destruct (hex_scan r n'). cbn in *. lia.
Qed.

(* D93: a group of four hexadecimal digits (any letter case) is accepted with its value *)
Lemma hex_group4_ok : forall k x rest, x < 65536 -> hex_group4 (hex4l k x ++ rest) = Some x.
Proof.
  intros k x rest Hx. unfold hex_group4, hex4l. cbn [app firstn].
  erewrite hex_scan_cons by (apply (hex_step_ok 0); lia).
  erewrite hex_scan_cons by (apply hex_step_ok; lia).
  erewrite hex_scan_cons by (apply hex_step_ok; lia).
  erewrite hex_scan_cons by (apply hex_step_ok; lia).
  cbn [hex_scan fst snd Nat.eqb]. f_equal. lia.
Qed.

(* ... and a group with a unit that is not a hexadecimal digit among its four is rejected *)
Lemma hex_group4_short : forall value, (snd (hex_scan (firstn 4 value) 0) < 4)%nat -> hex_group4 value = None.
Proof.
  intros value H. unfold hex_group4. destruct (hex_scan (firstn 4 value) 0) as [n c]. cbn [snd] in H.
  destruct (Nat.eqb_spec c 4) as [E|E]; [lia|reflexivity].
Qed.

(* ------------------------------------------------------------------ *)
(* the notation table is ASCII for the three widths                     *)

Definition ascii_jnot : jnot :=
  {| jq := 34; jbs := 92; jsl := 47; jb := 98; jt := 116; jn := 110; jf := 102; jr := 114;
     ju := 117; jcu := 85; cbs := 8; ctab := 9; clf := 10; cff := 12; ccr := 13 |}.

Lemma jnot_ascii : forall w, validw w -> jnot_of w = ascii_jnot.
Proof. intros w [H|[H|H]]; subst w; reflexivity. Qed.

Lemma digit_chars_ascii :
  dch_zero = 48 /\ dch_nine = 57 /\ dch_ua = 65 /\ dch_uf = 70 /\ dch_a = 97 /\ dch_f = 102 /\
  dch_seven = 55 /\ dch_uw = 87.
Proof. repeat split; reflexivity. Qed.

(* ------------------------------------------------------------------ *)
(* single steps of UnEscape                                             *)

Lemma unesc_plain : forall cl w k c r off pend stream, validw w -> plainb c = true ->
  unesc (S k) cl w (c :: r) off pend stream = unesc k cl w r (off + 1) (pend ++ [c]) stream.
Proof.
  intros cl w k c r off pend stream Hw Hc. cbn [unesc]. rewrite (jnot_ascii w Hw).
  cbn [jq jbs clf ctab ccr ascii_jnot]. unfold plainb in Hc.
  destruct (c =? 34); [discriminate|]. destruct (c =? 92); [discriminate|].
  destruct (c =? 10); [discriminate|]. destruct (c =? 9); [discriminate|].
  destruct (c =? 13); [discriminate|]. reflexivity.
Qed.

Lemma unesc_quote : forall cl w k r off pend stream, validw w ->
  unesc (S k) cl w (34 :: r) off pend stream = URet (off + 1) (flush stream pend).
Proof.
  intros cl w k r off pend stream Hw. cbn [unesc]. rewrite (jnot_ascii w Hw). reflexivity.
Qed.

Lemma unesc_u : forall cl w k (cap : bool) r2 off pend stream, validw w ->
  unesc (S k) cl w (92 :: (if cap then 85 else 117) :: r2) off pend stream =
  match u_branch w r2 with
  | UBFail => URet 0 (stream ++ pend)
  | UBOk e r' adv => unesc k cl w r' (off + 2 + adv) [] ((stream ++ pend) ++ e)
  end.
Proof.
  intros cl w k cap r2 off pend stream Hw. cbn [unesc]. rewrite (jnot_ascii w Hw).
  destruct cap; reflexivity.
Qed.

Lemma u_branch_bmp : forall w k x rest, x < 65536 -> is_high_surrogate x = false ->
  u_branch w (hex4l k x ++ rest) = UBOk (to_utf w x) rest 4.
Proof.
  intros w k x rest Hx Hs. unfold u_branch. cbv zeta.
  rewrite hex_group4_ok by exact Hx. rewrite Hs. reflexivity.
Qed.

(* a high surrogate followed by a second escape (backslash, u or U, four digits) *)
Lemma u_branch_pair : forall w k1 k2 hi lo (cap : bool) rest, validw w -> hi < 65536 -> lo < 65536 ->
  is_high_surrogate hi = true ->
  u_branch w (hex4l k1 hi ++ 92 :: (if cap then 85 else 117) :: hex4l k2 lo ++ rest)
  = UBOk (to_utf w (recombine hi lo)) rest 10.
Proof.
  intros w k1 k2 hi lo cap rest Hw Hh Hl Hs. unfold u_branch. rewrite (jnot_ascii w Hw). cbv zeta.
  rewrite hex_group4_ok by exact Hh. rewrite Hs.
  change (skipn 4 (hex4l k1 hi ++ 92 :: (if cap then 85 else 117) :: hex4l k2 lo ++ rest))
    with (92 :: (if cap then 85 else 117) :: hex4l k2 lo ++ rest).
  change (skipn 2 (92 :: (if cap then 85 else 117) :: hex4l k2 lo ++ rest)) with (hex4l k2 lo ++ rest).
  rewrite hex_group4_ok by exact Hl.
  destruct cap; reflexivity.
Qed.

(* D92: a high surrogate that is not followed by backslash + u / U fails *)
Lemma u_branch_lone : forall w k1 hi p q rest, validw w -> hi < 65536 -> is_high_surrogate hi = true ->
  (p =? 92) && ((q =? 117) || (q =? 85)) = false ->
  u_branch w (hex4l k1 hi ++ p :: q :: rest) = UBFail.
Proof.
  intros w k1 hi p q rest Hw Hh Hs Hpq. unfold u_branch. rewrite (jnot_ascii w Hw). cbv zeta.
  rewrite hex_group4_ok by exact Hh. rewrite Hs.
  change (skipn 4 (hex4l k1 hi ++ p :: q :: rest)) with (p :: q :: rest).
  cbn [negb low_escape_follows jbs ju jcu ascii_jnot]. rewrite Hpq. now rewrite andb_false_r.
Qed.

(* the escape text of a scalar value is consumed in one iteration and appends the
   encoder's output for exactly that value *)
Lemma unesc_escape : forall cl w k k1 k2 cp rest off pend stream, validw w -> scalar cp ->
  unesc (S k) cl w (json_escape k1 k2 cp ++ rest) off pend stream =
  unesc k cl w rest (off + N.of_nat (length (json_escape k1 k2 cp))) [] ((stream ++ pend) ++ to_utf w cp).
Proof.
  intros cl w k k1 k2 cp rest off pend stream Hw Hs. unfold json_escape.
  destruct (N.ltb_spec cp 65536) as [Hlt|Hge].
  - rewrite u_escape_shape. cbn [app]. rewrite unesc_u by exact Hw.
    rewrite u_branch_bmp; [f_equal; unfold hex4l; cbn [length]; lia|exact Hlt|].
    rewrite sur_ok by exact Hlt. unfold scalar in Hs. lia.
  - pose proof (scalar_bound cp Hs) as Hb.
    set (v := cp - 65536). assert (Hv : v < 1048576) by lia.
    assert (Hhi : v / 1024 < 1024) by lia. assert (Hlo : v mod 1024 < 1024) by lia.
    rewrite !u_escape_shape. cbn [app]. rewrite <- app_assoc.
    rewrite unesc_u by exact Hw.
    cbn [app].
    rewrite u_branch_pair; [| exact Hw | lia | lia | rewrite sur_ok by lia; lia].
    rewrite (recombine_ok (v / 1024) (v mod 1024) Hhi Hlo).
    replace (65536 + v / 1024 * 1024 + v mod 1024) with cp by lia.
    f_equal. cbn [length]. rewrite app_length. cbn [length]. unfold hex4l. cbn [length]. lia.
Qed.

(* ------------------------------------------------------------------ *)
(* UnEscape on a whole string body: any sequence of plain units and escapes *)

Fixpoint run_out (w : N) (items : list item) (pend stream : list N) : list N :=
  match items with
  | [] => flush stream pend
  | IPlain c :: r => run_out w r (pend ++ [c]) stream
  | IEsc _ _ cp :: r => run_out w r [] ((stream ++ pend) ++ std_utf w cp)
  end.

Lemma render_cons : forall it r, render (it :: r) = render_item it ++ render r.
Proof. reflexivity. Qed.

Lemma unesc_run : forall cl w, validw w -> forall items, Forall item_ok items ->
  forall k rest off pend stream,
  unesc (length items + S k) cl w (render items ++ 34 :: rest) off pend stream =
  URet (off + N.of_nat (length (render items)) + 1) (run_out w items pend stream).
Proof.
  intros cl w Hw items Hok. induction Hok as [|it r Hit Hr IH]; intros k rest off pend stream.
  - cbn [length render map concat app Nat.add]. rewrite unesc_quote by exact Hw.
    cbn [run_out]. f_equal. lia.
  - rewrite render_cons, <- app_assoc. cbn [length Nat.add].
    destruct it as [c|k1 k2 cp]; cbn [render_item item_ok] in *.
    + cbn [app]. rewrite unesc_plain by assumption. rewrite IH. cbn [run_out]. f_equal.
      rewrite ?app_length. cbn [app length]. lia.
    + rewrite unesc_escape by assumption. rewrite (encode_all w cp Hw Hit). rewrite IH.
      cbn [run_out]. f_equal. rewrite app_length. lia.
Qed.

Lemma render_item_length : forall it, (1 <= length (render_item it))%nat.
Proof.
  intros [c|k1 k2 cp]; cbn [render_item length]; [lia|].
  unfold json_escape. destruct (cp <? 65536); [cbn; lia|rewrite app_length; cbn; lia].
Qed.

Lemma render_length_ge : forall items, (length items <= length (render items))%nat.
Proof.
  induction items as [|it r IH]; [cbn; lia|].
  rewrite render_cons, app_length. pose proof (render_item_length it). cbn [length]. lia.
Qed.

Lemma unescape_items : forall w items rest, validw w -> Forall item_ok items ->
  unescape true w (render items ++ 34 :: rest) =
  URet (N.of_nat (length (render items)) + 1) (run_out w items [] []).
Proof.
  intros w items rest Hw Hok. unfold unescape.
  pose proof (render_length_ge items) as Hl.
  rewrite app_length. cbn [length].
  replace (S (length (render items) + S (length rest)))
    with (length items + S (S (length (render items)) - length items + length rest))%nat by lia.
  rewrite (unesc_run true w Hw items Hok). f_equal.
Qed.

Lemma run_out_spec : forall w items pend stream,
  run_out w items pend stream =
  if forallb is_plain items then flush stream (pend ++ value w items)
  else (stream ++ pend) ++ value w items.
Proof.
  intros w items. induction items as [|it r IH]; intros pend stream.
  - cbn. now rewrite app_nil_r.
  - destruct it as [c|k1 k2 cp]; cbn [run_out forallb is_plain andb].
    + rewrite IH. unfold value. cbn [map concat value_item].
      destruct (forallb is_plain r); rewrite <- !app_assoc; reflexivity.
    + rewrite IH. unfold value. cbn [map concat value_item]. fold (value w r).
      destruct (forallb is_plain r).
      * unfold flush. cbn [app].
        destruct ((stream ++ pend) ++ std_utf w cp) eqn:E.
        -- apply app_eq_nil in E. destruct E as [_ E]. now apply std_utf_nonempty in E.
        -- rewrite <- E. now rewrite <- !app_assoc.
      * rewrite app_nil_r. now rewrite <- !app_assoc.
Qed.

Lemma plain_render_value : forall w items, forallb is_plain items = true -> render items = value w items.
Proof.
  intros w items. induction items as [|it r IH]; intros H; [reflexivity|].
  cbn [forallb] in H. apply andb_true_iff in H. destruct H as [Hi Hr].
  destruct it as [c|]; [|discriminate]. unfold render, value in *. cbn [map concat render_item value_item].
  now rewrite IH.
Qed.

Lemma nonplain_value_nonempty : forall w items, forallb is_plain items = false -> value w items <> [].
Proof.
  intros w items. induction items as [|it r IH]; intros H; [discriminate|].
  destruct it as [c|k1 k2 cp]; unfold value; cbn [map concat value_item]; [discriminate|].
  intros E. apply app_eq_nil in E. destruct E as [E _]. now apply std_utf_nonempty in E.
Qed.

Lemma firstn_exact : forall (l r : list N), firstn (length l) (l ++ r) = l.
Proof. induction l as [|x l IH]; intros r; cbn; [reflexivity|now rewrite IH]. Qed.

(* the string case of parseValue on  body, closing quote, rest  yields the denoted value *)
Lemma parse_string_items : forall w items rest, validw w -> Forall item_ok items ->
  parse_string_value w (render items ++ 34 :: rest) = PStr (value w items).
Proof.
  intros w items rest Hw Hok. unfold parse_string_value.
  rewrite unescape_items by assumption.
  destruct (N.eqb_spec (N.of_nat (length (render items)) + 1) 0) as [E|_]; [lia|].
  rewrite run_out_spec. cbn [app].
  destruct (forallb is_plain items) eqn:Hp.
  - cbn [flush]. replace (N.of_nat (length (render items)) + 1 - 1) with (N.of_nat (length (render items))) by lia.
    rewrite Nat2N.id, firstn_exact. now rewrite (plain_render_value w items Hp).
  - pose proof (nonplain_value_nonempty w items Hp) as Hne.
    destruct (value w items); [contradiction|reflexivity].
Qed.

Lemma render_app : forall a b, render (a ++ b) = render a ++ render b.
Proof. intros a b. unfold render. now rewrite map_app, concat_app. Qed.
Lemma value_app : forall w a b, value w (a ++ b) = value w a ++ value w b.
Proof. intros w a b. unfold value. now rewrite map_app, concat_app. Qed.
Lemma render_plain : forall l, render (map IPlain l) = l.
Proof. induction l as [|x l IH]; [reflexivity|]. cbn [map]. rewrite render_cons, IH. reflexivity. Qed.
Lemma value_plain : forall w l, value w (map IPlain l) = l.
Proof. induction l as [|x l IH]; [reflexivity|]. unfold value in *. cbn [map concat value_item]. now rewrite IH. Qed.
Lemma plain_items_ok : forall l, Forall (fun c => plainb c = true) l -> Forall item_ok (map IPlain l).
Proof. intros l H. induction H as [|x l Hx Hl IH]; cbn [map]; constructor; assumption. Qed.

(* one escape between arbitrary plain neighbours *)
Lemma escape_in_context : forall w k1 k2 cp pre post rest,
  validw w -> scalar cp ->
  Forall (fun c => plainb c = true) pre -> Forall (fun c => plainb c = true) post ->
  parse_string_value w (pre ++ json_escape k1 k2 cp ++ post ++ 34 :: rest) = PStr (pre ++ std_utf w cp ++ post).
Proof.
  intros w k1 k2 cp pre post rest Hw Hs Hpre Hpost.
  pose proof (parse_string_items w (map IPlain pre ++ [IEsc k1 k2 cp] ++ map IPlain post) rest Hw) as H.
  rewrite !render_app, !value_app, !render_plain, !value_plain in H.
  unfold render, value in H. cbn [map concat render_item value_item] in H.
  rewrite !app_nil_r in H. rewrite <- !app_assoc in H. apply H.
  apply Forall_app. split; [now apply plain_items_ok|].
  apply Forall_app. split; [constructor; [exact Hs|constructor]|now apply plain_items_ok].
Qed.

Lemma escape_alone : forall w k1 k2 cp rest, validw w -> scalar cp ->
  parse_string_value w (json_escape k1 k2 cp ++ 34 :: rest) = PStr (std_utf w cp).
Proof.
  intros w k1 k2 cp rest Hw Hs.
  pose proof (escape_in_context w k1 k2 cp [] [] rest Hw Hs (Forall_nil _) (Forall_nil _)) as H.
  cbn [app] in H. now rewrite app_nil_r in H.
Qed.

(* the model functions that the correspondence run executes *)
Lemma model_json_ok : forall w k1 k2 cp pre post, validw w -> scalar cp ->
  Forall (fun c => plainb c = true) pre -> Forall (fun c => plainb c = true) post ->
  c20_model_json w k1 k2 cp pre post = PStr (pre ++ std_utf w cp ++ post).
Proof.
  intros w k1 k2 cp pre post Hw Hs Hpre Hpost. unfold c20_model_json, c20_json_text.
  now apply (escape_in_context w k1 k2 cp pre post [93]).
Qed.

(* ------------------------------------------------------------------ *)
(* the fuel of the model never runs out                                 *)

Lemma u_branch_len : forall w r2 e r' adv, u_branch w r2 = UBOk e r' adv -> (length r' <= length r2)%nat.
Proof.
  intros w r2 e r' adv H. unfold u_branch in H. cbv zeta in H.
  destruct (Nat.ltb 3 (length r2)); [|discriminate].
  destruct (hex_group4 r2) as [code|]; [|discriminate].
  destruct (negb _).
  - assert (E : r' = skipn 4 r2) by congruence. rewrite E, skipn_length. lia.
  - destruct (Nat.ltb 5 _ && _); [|discriminate].
    destruct (hex_group4 _) as [low|]; [|discriminate].
    assert (E : r' = skipn 4 (skipn 2 (skipn 4 r2))) by congruence. rewrite E, !skipn_length. lia.
Qed.

(* D93: an escape whose digit group is short fails, in either half *)
Lemma u_branch_short : forall w r2, hex_group4 r2 = None -> u_branch w r2 = UBFail.
Proof. intros w r2 H. unfold u_branch. cbv zeta. rewrite H. now destruct (Nat.ltb 3 (length r2)). Qed.

Lemma u_branch_short_low : forall w k1 hi (cap : bool) r4, validw w -> hi < 65536 ->
  is_high_surrogate hi = true -> hex_group4 r4 = None ->
  u_branch w (hex4l k1 hi ++ 92 :: (if cap then 85 else 117) :: r4) = UBFail.
Proof.
  intros w k1 hi cap r4 Hw Hh Hs Hl. unfold u_branch. cbv zeta.
  rewrite hex_group4_ok by exact Hh. rewrite Hs. cbn [negb].
  change (skipn 4 (hex4l k1 hi ++ 92 :: (if cap then 85 else 117) :: r4)) with (92 :: (if cap then 85 else 117) :: r4).
  change (skipn 2 (92 :: (if cap then 85 else 117) :: r4)) with r4. rewrite Hl.
  repeat match goal with |- context [if ?c then _ else _] => destruct c end; reflexivity.
Qed.

Lemma unesc_fuel_ok : forall fuel cl w rest off pend stream,
  (length rest < fuel)%nat -> unesc fuel cl w rest off pend stream <> UFuel.
Proof.
  induction fuel as [|k IH]; intros cl w rest off pend stream Hl; [lia|].
  cbn [unesc]. destruct rest as [|c r]; [destruct cl; discriminate|]. cbn [length] in Hl.
  destruct (c =? jq (jnot_of w)); [discriminate|].
  destruct (c =? jbs (jnot_of w)).
  - destruct r as [|ch r2]; [discriminate|]. cbn [length] in Hl.
    repeat match goal with
           | |- (if ?c then _ else _) <> _ => destruct c
           end; try discriminate; try (apply IH; lia).
    destruct (u_branch w r2) as [|e r' adv] eqn:E; [discriminate|].
    apply u_branch_len in E. apply IH. lia.
  - destruct (_ || _); [discriminate|]. apply IH. lia.
Qed.

Lemma unescape_total : forall cl w content, unescape cl w content <> UFuel.
Proof. intros cl w content. unfold unescape. apply unesc_fuel_ok. lia. Qed.

(* wchar_t selects one of the three modelled encoders (by the platform's sizeof(wchar_t)) *)
Lemma wchar_width_valid : validw (c20_width 5).
Proof. first [left; reflexivity | right; left; reflexivity | right; right; reflexivity]. Qed.

Lemma width_kinds : c20_width 1 = 1 /\ c20_width 2 = 2 /\ c20_width 4 = 4.
Proof. repeat split; reflexivity. Qed.

(* ------------------------------------------------------------------ *)
(* non-vacuity / witnesses                                              *)

(* U+1F600, lower-case escape, in the three widths *)
Example ex_grin_utf8 : c20_model_json 1 all_lower all_lower 0x1F600 [97] [98] = PStr [97; 0xF0; 0x9F; 0x98; 0x80; 98].
Proof. vm_compute. reflexivity. Qed.
Example ex_grin_utf16 : c20_model_json 2 all_upper all_lower 0x1F600 [] [] = PStr [0xD83D; 0xDE00].
Proof. vm_compute. reflexivity. Qed.
Example ex_grin_utf32 : c20_model_json 4 all_lower all_upper 0x1F600 [] [] = PStr [0x1F600].
Proof. vm_compute. reflexivity. Qed.
Example ex_escape_text : json_escape all_lower all_upper 0x64000 = [92; 117; 100; 57; 53; 48; 92; 117; 68; 67; 48; 48].
Proof. vm_compute. reflexivity. Qed.   (* 񤀀 *)
Example ex_bmp : c20_model_json 1 all_upper all_upper 0x20AC [] [] = PStr [0xE2; 0x82; 0xAC].
Proof. vm_compute. reflexivity. Qed.
Example ex_scalar : scalar 0x64000 /\ scalar 0 /\ scalar 0x10FFFF /\ ~ scalar 0xD800 /\ ~ scalar 0x110000.
Proof. unfold scalar. lia. Qed.

(* D11: the test of the unrepaired code, (code >> 8) == 0xD8, misses the high
   surrogates D900..DBFF; the model uses the repaired test *)
Definition old_high_test (code : N) : bool := N.shiftr code 8 =? 0xD8.
Example d11_old_test_misses : old_high_test 0xD950 = false /\ is_high_surrogate 0xD950 = true.
Proof. split; reflexivity. Qed.
Example d11_witness : c20_model_raw 1 [92; 117; 100; 57; 53; 48; 92; 117; 100; 99; 48; 48] = PStr [0xF1; 0xA4; 0x80; 0x80].
Proof. vm_compute. reflexivity. Qed.
(* D92: a high surrogate joins only with a following \u / \U escape; ordinary text behind a
   lone high surrogate (here \ud800ABCDEF) makes the parse fail instead of being swallowed;
   the VALUE of the second escape stays unchecked (\ud800\u0041 is taken as a pair) *)
Example d92_lone_high_then_text : c20_model_raw 1 [92; 117; 100; 56; 48; 48; 65; 66; 67; 68; 69; 70] = PFail.
Proof. vm_compute. reflexivity. Qed.
Example d92_lone_high_then_other_escape : c20_model_raw 1 [92; 117; 100; 56; 48; 48; 92; 110; 65; 66; 67; 68] = PFail.
Proof. vm_compute. reflexivity. Qed.
Example d92_lone_high_at_end : c20_model_raw 2 [92; 117; 100; 56; 48; 48] = PFail.
Proof. vm_compute. reflexivity. Qed.
Example d92_second_escape_value_unchecked :
  c20_model_raw 1 [92; 117; 100; 56; 48; 48; 92; 117; 48; 48; 52; 49] = PStr [0xF0; 0x90; 0x81; 0x81].
Proof. vm_compute. reflexivity. Qed.
(* D93: every \uXXXX group has to be four hexadecimal digits.  \u1 followed by the closing quote
   (the body of ["\u1","abcd"] up to the comma), \u00zz, a pair with a short low half: failure;
   four digits in the low half: still joined whatever their value *)
Example d93_one_digit : parse_string_value 1 [92; 117; 49; 34; 44; 34; 97; 98; 99; 100; 34; 93] = PFail.
Proof. vm_compute. reflexivity. Qed.
Example d93_two_digits_then_letters : c20_model_raw 1 [92; 117; 48; 48; 122; 122] = PFail.
Proof. vm_compute. reflexivity. Qed.
Example d93_short_low_half : c20_model_raw 2 [92; 117; 100; 56; 48; 48; 92; 117; 100; 99; 48; 120] = PFail.
Proof. vm_compute. reflexivity. Qed.
Example d93_low_half_four_digits_any_value :
  c20_model_raw 1 [92; 117; 100; 56; 48; 48; 92; 117; 48; 48; 52; 49] = PStr [0xF0; 0x90; 0x81; 0x81].
Proof. vm_compute. reflexivity. Qed.
(* a malformed escape, a backslash at the end, a missing closing quote: failure *)
Example ex_short : parse_string_value 1 [92; 117; 48; 48; 97] = PFail.
Proof. vm_compute. reflexivity. Qed.
Example ex_bslash_end : parse_string_value 1 [97; 92] = PFail.
Proof. vm_compute. reflexivity. Qed.
Example ex_unclosed : parse_string_value 1 [97; 98] = PFail /\ unescape false 1 [97; 98] = URet 2 [].
Proof. split; vm_compute; reflexivity. Qed.
