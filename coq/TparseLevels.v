(* TparseLevels.v -- the Level of a loop tag is its true depth.
   Since findings/D91 parse() creates a loop tag only while at most 255 tags are open, so Level = SizeT8(parent_storage.Size())
   does not wrap: in the tree parse() returns, every loop tag that lies under d open tags (loops, ifs, super variables,
   inline ifs) has Level = d <= 255.  Hence the Levels of nested loops are pairwise distinct (strictly increasing along
   every path): two loops that are active at the same time never share a slot of loops_items_. *)
From Coq Require Import NArith ZArith List Bool Arith Lia ZifyBool ZifyNat ZifyN.
From Qv Require Import gen.Tables_tmpl gen.Tables_expr gen.Tables_tparse FinderModel FinderProofs TparseModel TparseFinder TparseProofs
  TparseSafety TparseIif TparseTree.
Import ListNotations.

(* [dok d t]: the tag t lies under d open tags; every loop inside it carries its depth as Level *)
Fixpoint dok (d : nat) (t : tag) {struct t} : Prop :=
  let dl := fix dl (d : nat) (l : list tag) {struct l} : Prop :=
              match l with [] => True | x :: r => dok d x /\ dl d r end in
  match t with
  | PLoop l subs => l_level l = N.of_nat d /\ d <= 255 /\ dl (S d) subs
  | PIf _ _ cases =>
    (fix dc (cs : list ifcase) {struct cs} : Prop :=
       match cs with [] => True | PCase _ _ _ sb :: r => dl (S d) sb /\ dc r end) cases
  | PSVar _ _ _ subs | PIIf _ _ subs => dl (S d) subs
  | _ => True
  end.
Fixpoint doks (d : nat) (l : list tag) {struct l} : Prop :=
  match l with [] => True | x :: r => dok d x /\ doks d r end.
Definition dcases (d : nat) : list ifcase -> Prop :=
  fix dc (cs : list ifcase) {struct cs} : Prop :=
    match cs with [] => True | PCase _ _ _ sb :: r => doks (S d) sb /\ dc r end.

Lemma dok_loop : forall d l subs, dok d (PLoop l subs) <-> l_level l = N.of_nat d /\ d <= 255 /\ doks (S d) subs.
Proof. reflexivity. Qed.
Lemma dok_if : forall d o e cases, dok d (PIf o e cases) <-> dcases d cases.
Proof. reflexivity. Qed.
Lemma dok_svar : forall d o e v subs, dok d (PSVar o e v subs) <-> doks (S d) subs.
Proof. reflexivity. Qed.
Lemma dok_iif : forall d i c subs, dok d (PIIf i c subs) <-> doks (S d) subs.
Proof. reflexivity. Qed.

Lemma doks_app : forall d a b, doks d (a ++ b) <-> doks d a /\ doks d b.
Proof. intros d a b; induction a as [|x a IH]; cbn [app doks]; [tauto|]. rewrite IH. tauto. Qed.
Lemma dcases_app : forall d a b, dcases d (a ++ b) <-> dcases d a /\ dcases d b.
Proof. intros d a b; induction a as [|[co ce cc sb] a IH]; cbn [app dcases]; [tauto|]. rewrite IH. tauto. Qed.

(* the open tag of a frame at depth d (its child array is the frame above / the current array) *)
Definition open_d (d : nat) (t : tag) : Prop :=
  match t with
  | PLoop l _ => l_level l = N.of_nat d /\ d <= 255
  | PIf _ _ cases => match split_last cases with Some (ci, _) => dcases d ci | None => True end
  | _ => True
  end.
Fixpoint fr_ok (stk : list (list tag)) : Prop :=
  match stk with
  | [] => True
  | top :: rest => (exists init t, top = init ++ [t] /\ doks (length rest) init /\ open_d (length rest) t) /\ fr_ok rest
  end.
Definition D (st : pstate) : Prop := doks (length (ps_stack st)) (ps_cur st) /\ fr_ok (ps_stack st).

Lemma sl_snoc : forall A (l : list A) x, split_last (l ++ [x]) = Some (l, x).
Proof. intros A l x; induction l as [|y l IH]; [reflexivity|]. cbn [app split_last]. rewrite IH. reflexivity. Qed.
Lemma sl_some : forall A (l : list A) i t, split_last l = Some (i, t) -> l = i ++ [t].
Proof.
  intros A l; induction l as [|y l IH]; intros i t H; [discriminate H|].
  cbn [split_last] in H. destruct (split_last l) as [[i' t']|] eqn:E.
  - injection H as <- <-. rewrite (IH i' t' eq_refl). reflexivity.
  - injection H as <- <-. destruct l; [reflexivity|]. cbn in E. destruct (split_last l) as [[? ?]|]; discriminate E.
Qed.

(* closing the open tag of a frame with the current array *)
Lemma close_dok : forall d t cur1, open_d d t ->
  (match t with
   | PLoop l _ => exists l' subs, cur1 = PLoop l' subs /\ l_level l' = l_level l /\ doks (S d) subs
   | PIf o _ cases => exists e ci co ce0 cc sb0 ce, cases = ci ++ [PCase co ce0 cc sb0] /\ exists sb, cur1 = PIf o e (ci ++ [PCase co ce cc sb]) /\ doks (S d) sb
   | PSVar o _ v _ => exists e subs, cur1 = PSVar o e v subs /\ doks (S d) subs
   | PIIf _ c _ => exists i subs, cur1 = PIIf i c subs /\ doks (S d) subs
   | _ => False
   end) -> dok d cur1.
Proof.
  intros d t cur1 Ho H. destruct t as [v|v|o e ex|o e v sb|i c sb|l sb|o e cs]; try contradiction.
  - destruct H as (e' & subs & -> & Hs). apply dok_svar. exact Hs.
  - destruct H as (i' & subs & -> & Hs). apply dok_iif. exact Hs.
  - destruct H as (l' & subs & -> & El & Hs). apply dok_loop. cbn [open_d] in Ho. rewrite El. tauto.
  - destruct H as (e' & ci & co & ce0 & cc & sb0 & ce & Ec & sb' & -> & Hs). apply dok_if.
    cbn [open_d] in Ho. rewrite Ec, sl_snoc in Ho. apply dcases_app. split; [exact Ho|]. cbn [dcases]. tauto.
Qed.

Lemma D_eq : forall a b, ps_stack a = ps_stack b -> ps_cur a = ps_cur b -> D a -> D b.
Proof. intros a b E1 E2 [H1 H2]. unfold D. rewrite <- E1, <- E2. split; assumption. Qed.

Lemma D_push : forall st t ch chain, D st -> open_d (length (ps_stack st)) t -> D (push_tag st t ch chain).
Proof.
  intros st t ch chain [H1 H2] Ho. unfold D, push_tag. cbn [ps_stack ps_cur length doks fr_ok]. split; [exact I|].
  split; [|exact H2]. exists (ps_cur st), t. repeat split; assumption.
Qed.
Lemma D_append : forall st x, D st -> dok (length (ps_stack st)) x -> D (with_cur st (ps_cur st ++ [x])).
Proof.
  intros st x [H1 H2] Hx. unfold D, with_cur. cbn [ps_stack ps_cur]. split; [|exact H2].
  apply doks_app. split; [exact H1|]. cbn [doks]. tauto.
Qed.
Lemma D_finder : forall st mo, D st -> D (with_finder st mo).
Proof. intros st mo H. apply (D_eq st); [reflexivity|reflexivity|exact H]. Qed.

Section Levels.
  Variable numf : list N -> N * N * nat.
  Variable w : N.
  Variable content : list N.

  Lemma do_var_D : forall mk st st', (forall d v, dok d (mk v)) -> D st -> do_var w content mk st = Ok st' -> D st'.
  Proof.
    intros mk st st' Hmk HD H. unfold do_var in H.
    apply bind_ok in H. destruct H as (mo & _ & H).
    destruct (N.eqb (fst mo) tpp_LineEndID); [|injection H as <-; apply D_finder; exact HD].
    apply bind_ok in H. destruct H as (d & _ & H). apply bind_ok in H. destruct H as (d1 & _ & H).
    apply bind_ok in H. destruct H as (cur & Ec & H). apply bind_ok in H. destruct H as (mo2 & _ & H). injection H as <-.
    apply D_finder.
    destruct (N.eqb (t8 d1) 0).
    - injection Ec as <-. apply (D_eq st); [reflexivity|reflexivity|exact HD].
    - apply bind_ok in Ec. destruct Ec as (v & _ & Ec). injection Ec as <-. apply D_append; [exact HD|apply Hmk].
  Qed.

  Lemma do_math_D : forall st st', D st -> do_math numf w content st = Ok st' -> D st'.
  Proof.
    intros st st' HD H. unfold do_math in H.
    apply bind_ok in H. destruct H as (mo & _ & H). apply bind_ok in H. destruct H as (r & _ & H).
    destruct (fst r =? 0); [injection H as <-; apply D_finder; exact HD|].
    apply bind_ok in H. destruct H as (o & _ & H). apply bind_ok in H. destruct H as (e1 & _ & H).
    apply bind_ok in H. destruct H as (ex & _ & H). injection H as <-. apply D_finder. apply D_append; [exact HD|exact I].
  Qed.

  Lemma do_svar_D : forall st st', D st -> do_svar w content st = Ok st' -> D st'.
  Proof.
    intros st st' HD H. unfold do_svar in H.
    apply bind_ok in H. destruct H as (so & _ & H). apply bind_ok in H. destruct H as (mo & _ & H).
    apply bind_ok in H. destruct H as (o2 & _ & H). apply bind_ok in H. destruct H as (d & _ & H).
    destruct (N.eqb (t8 d) 0); injection H as <-; [apply D_finder; exact HD|].
    apply D_push; [apply D_finder; exact HD|exact I].
  Qed.

  Lemma do_iif_D : forall st st', D st -> do_iif numf w content st = Ok st' -> D st'.
  Proof.
    intros st st' HD H. unfold do_iif in H.
    apply bind_ok in H. destruct H as (io & _ & H). apply bind_ok in H. destruct H as (mo & _ & H).
    apply bind_ok in H. destruct H as (o1 & _ & H). apply bind_ok in H. destruct H as (is_case & _ & H).
    destruct is_case; [|injection H as <-; apply D_finder; exact HD].
    apply bind_ok in H. destruct H as (o2 & _ & H). apply bind_ok in H. destruct H as (o3 & _ & H).
    destruct (o3 <? snd mo); [|injection H as <-; apply D_finder; exact HD].
    apply bind_ok in H. destruct H as (quote & _ & H). apply bind_ok in H. destruct H as ([[o4 mtch] mo'] & _ & H).
    destruct (N.eqb mtch 0); [injection H as <-; apply D_finder; exact HD|].
    apply bind_ok in H. destruct H as (ex & _ & H). apply bind_ok in H. destruct H as (d & _ & H). injection H as <-.
    apply D_push; [apply D_finder; exact HD|exact I].
  Qed.

  Lemma set_attr_level : forall l att a o l', set_attr content l att a o = Ok l' -> l_level l' = l_level l.
  Proof.
    intros l att a o l' H. unfold set_attr in H.
    destruct att as [|p]; [injection H as <-; reflexivity|].
    do 3 (try destruct p as [p|p|]);
      repeat (apply bind_ok in H; let x := fresh "x" in destruct H as (x & _ & H)); injection H as <-; reflexivity.
  Qed.

  Lemma loop_attrs_level : forall fuel o e att l l', loop_attrs content fuel o e att l = Ok l' -> l_level l' = l_level l.
  Proof.
    intros fuel; induction fuel as [|f IH]; intros o e att l l' H; [discriminate H|]. cbn [loop_attrs] in H.
    apply bind_ok in H. destruct H as (o1 & _ & H). apply bind_ok in H. destruct H as (nm & _ & H).
    destruct nm as [[o2 att2]|].
    - apply bind_ok in H. destruct H as (o3 & _ & H). apply bind_ok in H. destruct H as (o4 & _ & H).
      destruct (o4 <? e); [|injection H as <-; reflexivity].
      apply bind_ok in H. destruct H as (q & _ & H). apply bind_ok in H. destruct H as (o5 & _ & H).
      apply bind_ok in H. destruct H as (l1 & Hs & H). apply set_attr_level in Hs.
      destruct (S o5 <? e); [rewrite (IH _ _ _ _ _ H); exact Hs|injection H as <-; exact Hs].
    - destruct (S o1 <? e); [exact (IH _ _ _ _ _ H)|injection H as <-; reflexivity].
  Qed.

  Lemma do_loop_D : forall st st', D st -> do_loop w content st = Ok st' -> D st'.
  Proof.
    intros st st' HD H. unfold do_loop in H.
    apply bind_ok in H. destruct H as (lo & _ & H). apply bind_ok in H. destruct H as (mo & _ & H).
    apply bind_ok in H. destruct H as (o1 & _ & H).
    destruct (o1 <? snd mo); cbn [andb] in H; [|injection H as <-; apply D_finder; exact HD].
    destruct (Nat.leb_spec (length (ps_stack st)) 255) as [Hdep|Hdep]; [|injection H as <-; apply D_finder; exact HD].
    apply bind_ok in H. destruct H as (l1 & Hl1 & H). apply bind_ok in H. destruct H as (d & _ & H). injection H as <-.
    unfold parse_loop_attributes in Hl1. apply loop_attrs_level in Hl1. cbn [l_level] in Hl1.
    apply D_push; [apply D_finder; exact HD|]. cbn [open_d l_level with_finder ps_stack]. rewrite Hl1. split; [unfold t8; lia|exact Hdep].
  Qed.

  Lemma do_if_D : forall st st', D st -> do_if numf w content st = Ok st' -> D st'.
  Proof.
    intros st st' HD H. unfold do_if in H.
    apply bind_ok in H. destruct H as (io & _ & H). apply bind_ok in H. destruct H as ([[o co] ce] & _ & H).
    apply bind_ok in H. destruct H as (st1 & Hs1 & H). apply bind_ok in H. destruct H as (mo & _ & H). injection H as <-.
    apply D_finder. destruct (o <? length content).
    - apply bind_ok in Hs1. destruct Hs1 as (ex & _ & Hs1). injection Hs1 as <-. apply D_push; [exact HD|]. cbn [open_d split_last]. exact I.
    - injection Hs1 as <-. exact HD.
  Qed.

  (* a frame, opened *)
  Lemma fr_top : forall top rest, fr_ok (top :: rest) ->
    exists init t, top = init ++ [t] /\ doks (length rest) init /\ open_d (length rest) t /\ fr_ok rest.
  Proof. intros top rest [(init & t & E & H1 & H2) H3]. exists init, t. repeat split; assumption. Qed.

  Lemma mk_D : forall fo fm stk cur ch chain, doks (length stk) cur -> fr_ok stk -> D (mkS fo fm stk cur ch chain).
  Proof. intros. split; assumption. Qed.

  Lemma finalize_iif_D : forall fo rest init i c subs chain st',
    doks (length rest) init -> doks (S (length rest)) subs -> fr_ok rest ->
    finalize_iif content fo rest init i c subs chain = Ok st' -> D st'.
  Proof.
    intros fo rest init i c subs chain st' Hi Hs Hr H. unfold finalize_iif in H.
    assert (Hdrop : D (mkS fo 0 rest init false chain)) by (apply mk_D; assumption).
    assert (Hkeep : forall i', D (mkS fo 0 rest (init ++ [PIIf i' c subs]) false chain)).
    { intros i'. apply mk_D; [|exact Hr]. apply doks_app. split; [exact Hi|]. cbn [doks]. split; [apply dok_iif; exact Hs|exact I]. }
    apply bind_ok in H. destruct H as (d & _ & H).
    destruct (N.ltb 65535 (N.of_nat d)); [injection H as <-; exact Hdrop|].
    apply bind_ok in H. destruct H as ([i2 re] & _ & H). cbn [fst snd] in H.
    destruct re.
    - injection H as <-. apply mk_D.
      + cbn [length]. exact Hs.
      + cbn [fr_ok]. split; [|exact Hr]. exists init, (PIIf i2 c subs). split; [reflexivity|]. split; [exact Hi|exact I].
    - destruct (negb (N.eqb (i_toff i2) 0) || negb (N.eqb (i_foff i2) 0)); [|injection H as <-; exact Hdrop].
      destruct (startid_scan subs _ 0) as [id|]; [|injection H as <-; exact Hdrop].
      destruct (255 <? id); [injection H as <-; exact Hdrop|].
      apply bind_ok in H. destruct H as (ok & _ & H). destruct ok; injection H as <-; [apply Hkeep|exact Hdrop].
  Qed.

  Lemma do_line_end_D : forall st st', D st -> do_line_end content st = Ok st' -> D st'.
  Proof.
    intros st st' [Hc Hf] H. unfold do_line_end in H.
    destruct (ps_child st); [|injection H as <-; split; assumption].
    destruct (ps_stack st) as [|top rest] eqn:Est; [injection H as <-; unfold D; rewrite Est; split; assumption|].
    destruct (fr_top _ _ Hf) as (init & t & -> & Hi & Ho & Hr). cbn [length] in Hc.
    apply bind_ok in H. destruct H as (cur1 & Hw & H). unfold writeback in Hw. rewrite sl_snoc in Hw.
    destruct t as [v|v|o e ex|o e v sb|i c sb|l sb|o e cs]; try discriminate Hw.
    - (* super variable *)
      injection Hw as <-. rewrite sl_snoc in H. injection H as <-. apply mk_D; [|exact Hr].
      apply doks_app. split; [exact Hi|]. cbn [doks]. split; [apply dok_svar; exact Hc|exact I].
    - (* inline if *)
      injection Hw as <-. rewrite sl_snoc in H. apply (finalize_iif_D _ _ _ _ _ _ _ _ Hi Hc Hr H).
    - (* an open loop abandoned *)
      injection Hw as <-. rewrite sl_snoc in H. injection H as <-. apply mk_D; [|exact Hr].
      apply doks_app. split; [exact Hi|]. cbn [doks]. split; [|exact I]. apply dok_loop. cbn [open_d] in Ho. tauto.
    - (* an open if abandoned *)
      destruct (split_last cs) as [[ci [co ce cc sb0]]|] eqn:Ecs; [|discriminate Hw]. injection Hw as <-.
      rewrite sl_snoc in H. injection H as <-. apply mk_D; [|exact Hr].
      apply doks_app. split; [exact Hi|]. cbn [doks]. split; [|exact I]. apply dok_if.
      cbn [open_d] in Ho. rewrite Ecs in Ho. apply dcases_app. split; [exact Ho|]. cbn [dcases]. tauto.
  Qed.

  Lemma do_loop_end_D : forall st st', D st -> do_loop_end st = Ok st' -> D st'.
  Proof.
    intros st st' [Hc Hf] H. unfold do_loop_end in H.
    destruct (ps_chain st) as [|li ch]; [injection H as <-; split; assumption|].
    destruct (ps_stack st) as [|top rest] eqn:Est; [injection H as <-; unfold D; rewrite Est; split; assumption|].
    destruct (fr_top _ _ Hf) as (init & t & -> & Hi & Ho & Hr). cbn [length] in Hc. rewrite sl_snoc in H.
    destruct t as [v|v|o e ex|o e v sb|i c sb|l sb|o e cs]; try (injection H as <-; unfold D; rewrite Est; split; assumption).
    apply bind_ok in H. destruct H as (e & _ & H). injection H as <-. apply mk_D; [|exact Hr].
    destruct (e <? l_off l + N.to_nat (l_coff l)); [exact Hi|].
    apply doks_app. split; [exact Hi|]. cbn [doks]. split; [|exact I]. apply dok_loop. cbn [open_d l_level] in *. tauto.
  Qed.

  Lemma do_if_end_D : forall st st', D st -> do_if_end st = Ok st' -> D st'.
  Proof.
    intros st st' [Hc Hf] H. unfold do_if_end in H.
    destruct (ps_stack st) as [|top rest] eqn:Est; [injection H as <-; unfold D; rewrite Est; split; assumption|].
    destruct (fr_top _ _ Hf) as (init & t & -> & Hi & Ho & Hr). cbn [length] in Hc. rewrite sl_snoc in H.
    destruct t as [v|v|o e ex|o e v sb|i c sb|l sb|o e cs]; try (injection H as <-; unfold D; rewrite Est; split; assumption).
    destruct (split_last cs) as [[ci [co ce cc sb0]]|] eqn:Ecs; [|discriminate H].
    apply bind_ok in H. destruct H as (e' & _ & H). injection H as <-. apply mk_D; [|exact Hr].
    apply doks_app. split; [exact Hi|]. cbn [doks]. split; [|exact I]. apply dok_if.
    cbn [open_d] in Ho. rewrite Ecs in Ho. apply dcases_app. split; [exact Ho|]. cbn [dcases]. tauto.
  Qed.

  Lemma do_else_D : forall st r, D st -> do_else numf w content st = Ok r -> D (fst r).
  Proof.
    intros st r [Hc Hf] H. unfold do_else in H.
    destruct (ps_stack st) as [|top rest] eqn:Est; [injection H as <-; unfold D; cbn [fst]; rewrite Est; split; assumption|].
    destruct (fr_top _ _ Hf) as (init & t & -> & Hi & Ho & Hr). cbn [length] in Hc. rewrite sl_snoc in H.
    destruct t as [v|v|o e ex|o e v sb|i c sb|l sb|o e cs]; try (injection H as <-; unfold D; cbn [fst]; rewrite Est; split; assumption).
    destruct (split_last cs) as [[ci [co ce cc sb0]]|] eqn:Ecs; [|discriminate H].
    cbn [open_d] in Ho. rewrite Ecs in Ho.
    apply bind_ok in H. destruct H as (e' & _ & H). cbv zeta in H.
    assert (Hopen : forall coff ex mo, D (mkS (snd mo) (fst mo)
                      ((init ++ [PIf o e ((ci ++ [PCase co e' cc (ps_cur st)]) ++ [PCase coff 0 ex []])]) :: rest) [] (ps_child st) (ps_chain st))).
    { intros coff ex mo. apply mk_D; [exact I|]. cbn [fr_ok]. split; [|exact Hr].
      eexists init, _. split; [reflexivity|]. split; [exact Hi|]. cbn [open_d]. rewrite sl_snoc.
      apply dcases_app. split; [exact Ho|]. cbn [dcases]. tauto. }
    assert (Hbad : forall fo fm, D (mkS fo fm rest init (ps_child st) (ps_chain st))) by (intros; apply mk_D; assumption).
    apply bind_ok in H. destruct H as (sc & _ & H). destruct (snd sc).
    - apply bind_ok in H. destruct H as ([[o1 co1] ce1] & _ & H). apply bind_ok in H. destruct H as (mo & _ & H).
      destruct ((o1 <? length content) && negb (ce1 =? 0)).
      + apply bind_ok in H. destruct H as (ex & _ & H). injection H as <-. cbn [fst]. apply Hopen.
      + injection H as <-. cbn [fst]. apply Hbad.
    - destruct (fst sc <? length content).
      + apply bind_ok in H. destruct H as (mo & _ & H). injection H as <-. cbn [fst]. apply Hopen.
      + injection H as <-. cbn [fst]. apply Hbad.
  Qed.

  Lemma then_next_D : forall r st', (forall s, r = Ok s -> D s) -> then_next w content r = Ok st' -> D st'.
  Proof.
    intros r st' Hr H. unfold then_next in H. apply bind_ok in H. destruct H as (s & Es & H).
    apply bind_ok in H. destruct H as (mo & _ & H). injection H as <-. apply D_finder. apply Hr. exact Es.
  Qed.

  Lemma step_D : forall st st', D st -> step numf w content st = Ok st' -> D st'.
  Proof.
    intros st st' HD H. unfold step in H.
    destruct (N.eqb (ps_fm st) tpp_LineEndID); [apply (then_next_D _ _ (fun s E => do_line_end_D st s HD E) H)|].
    destruct (N.eqb (ps_fm st) tpp_VariableID); [apply (do_var_D PVar st st' (fun d v => I) HD H)|].
    destruct (N.eqb (ps_fm st) tpp_RawVariableID); [apply (do_var_D PRaw st st' (fun d v => I) HD H)|].
    destruct (N.eqb (ps_fm st) tpp_MathID); [apply (do_math_D st st' HD H)|].
    destruct (N.eqb (ps_fm st) tpp_SuperVariableID); [apply (do_svar_D st st' HD H)|].
    destruct (N.eqb (ps_fm st) tpp_InLineIfID); [apply (do_iif_D st st' HD H)|].
    destruct (N.eqb (ps_fm st) tpp_LoopID); [apply (do_loop_D st st' HD H)|].
    destruct (N.eqb (ps_fm st) tpp_LoopEndID); [apply (then_next_D _ _ (fun s E => do_loop_end_D st s HD E) H)|].
    destruct (N.eqb (ps_fm st) tpp_IfID); [apply (do_if_D st st' HD H)|].
    destruct (N.eqb (ps_fm st) tpp_IfEndID); [apply (then_next_D _ _ (fun s E => do_if_end_D st s HD E) H)|].
    destruct (N.eqb (ps_fm st) tpp_ElseID).
    - apply bind_ok in H. destruct H as (r & Er & H). pose proof (do_else_D st r HD Er) as Hr.
      destruct (snd r); [|injection H as <-; exact Hr].
      apply (then_next_D (Ok (fst r)) st'); [intros s E; injection E as <-; exact Hr|exact H].
    - injection H as <-. exact HD.
  Qed.

  Lemma main_loop_D : forall fuel st st', D st -> main_loop numf w content fuel st = Ok st' -> D st'.
  Proof.
    intros fuel; induction fuel as [|f IH]; intros st st' HD H; cbn [main_loop] in H.
    - destruct (N.eqb (ps_fm st) 0); [injection H as <-; exact HD|discriminate H].
    - destruct (N.eqb (ps_fm st) 0); [injection H as <-; exact HD|].
      apply bind_ok in H. destruct H as (s1 & Es & H). apply (IH s1 st' (step_D st s1 HD Es) H).
  Qed.

  Theorem parse_gen_levels : forall l, parse_gen numf w content = Ok l -> doks 0 l.
  Proof.
    intros l H. unfold parse_gen in H. apply bind_ok in H. destruct H as (st & Hs & H). injection H as <-.
    unfold parse_state in Hs. apply bind_ok in Hs. destruct Hs as (mo & _ & Hs).
    assert (H0 : D (mkS (snd mo) (fst mo) [] [] false [])) by (apply mk_D; exact I).
    destruct (main_loop_D _ _ _ H0 Hs) as [Hc Hf]. unfold unwind.
    destruct (ps_stack st) as [|top rest] eqn:Est; [exact Hc|].
    (* the bottom frame *)
    assert (G : forall stk, fr_ok stk -> stk <> [] -> doks 0 (removelast (last stk []))).
    { intros stk; induction stk as [|f r IHs]; intros Hfr Hne; [contradiction|].
      destruct r as [|f2 r2].
      - cbn [last]. destruct Hfr as [(init & t & -> & Hi & _) _]. cbn [length] in Hi. rewrite removelast_last. exact Hi.
      - change (last (f :: f2 :: r2) []) with (last (f2 :: r2) []). apply IHs; [exact (proj2 Hfr)|discriminate]. }
    apply G; [exact Hf|discriminate].
  Qed.
End Levels.

Theorem parse_levels : forall w content l, parse_model w content = Ok l -> doks 0 l.
Proof. intros w content l H. apply (parse_gen_levels numf_digit w content l H). Qed.

(* ---- the Levels of nested loops are pairwise distinct ---- *)
(* [ldist lv t]: lv are the Levels of the loops enclosing t; no loop inside t repeats a Level of a loop around it *)
Fixpoint ldist (lv : list N) (t : tag) {struct t} : Prop :=
  let ll := fix ll (lv : list N) (l : list tag) {struct l} : Prop :=
              match l with [] => True | x :: r => ldist lv x /\ ll lv r end in
  match t with
  | PLoop l subs => ~ In (l_level l) lv /\ ll (l_level l :: lv) subs
  | PIf _ _ cases =>
    (fix lc (cs : list ifcase) {struct cs} : Prop :=
       match cs with [] => True | PCase _ _ _ sb :: r => ll lv sb /\ lc r end) cases
  | PSVar _ _ _ subs | PIIf _ _ subs => ll lv subs
  | _ => True
  end.
Fixpoint ldists (lv : list N) (l : list tag) {struct l} : Prop :=
  match l with [] => True | x :: r => ldist lv x /\ ldists lv r end.
Definition ldcases (lv : list N) : list ifcase -> Prop :=
  fix lc (cs : list ifcase) {struct cs} : Prop :=
    match cs with [] => True | PCase _ _ _ sb :: r => ldists lv sb /\ lc r end.
Lemma ldist_loop : forall lv l subs, ldist lv (PLoop l subs) <-> ~ In (l_level l) lv /\ ldists (l_level l :: lv) subs.
Proof. reflexivity. Qed.
Lemma ldist_if : forall lv o e cases, ldist lv (PIf o e cases) <-> ldcases lv cases.
Proof. reflexivity. Qed.
Lemma ldist_svar : forall lv o e v subs, ldist lv (PSVar o e v subs) <-> ldists lv subs.
Proof. reflexivity. Qed.
Lemma ldist_iif : forall lv i c subs, ldist lv (PIIf i c subs) <-> ldists lv subs.
Proof. reflexivity. Qed.

Fixpoint tsz (t : tag) {struct t} : nat :=
  let ls := fix ls (l : list tag) {struct l} : nat := match l with [] => 0 | x :: r => S (tsz x + ls r) end in
  match t with
  | PLoop _ s | PSVar _ _ _ s | PIIf _ _ s => S (ls s)
  | PIf _ _ cs => S ((fix cz (cs : list ifcase) {struct cs} : nat := match cs with [] => 0 | PCase _ _ _ sb :: r => S (ls sb + cz r) end) cs)
  | _ => 1
  end.
Fixpoint lsz (l : list tag) : nat := match l with [] => 0 | x :: r => S (tsz x + lsz r) end.
Fixpoint csz (cs : list ifcase) : nat := match cs with [] => 0 | PCase _ _ _ sb :: r => S (lsz sb + csz r) end.
Lemma tsz_loop : forall l s, tsz (PLoop l s) = S (lsz s). Proof. reflexivity. Qed.
Lemma tsz_svar : forall o e v s, tsz (PSVar o e v s) = S (lsz s). Proof. reflexivity. Qed.
Lemma tsz_iif : forall i c s, tsz (PIIf i c s) = S (lsz s). Proof. reflexivity. Qed.
Lemma tsz_if : forall o e cs, tsz (PIf o e cs) = S (csz cs). Proof. reflexivity. Qed.

Lemma depth_distinct : forall n,
  (forall t d lv, tsz t <= n -> dok d t -> (forall x, In x lv -> N.to_nat x < d) -> ldist lv t) /\
  (forall l d lv, lsz l <= n -> doks d l -> (forall x, In x lv -> N.to_nat x < d) -> ldists lv l).
Proof.
  induction n as [|n [IHt IHl]].
  - split.
    + intros t d lv H. destruct t; cbn in H; lia.
    + intros l d lv H _ _. destruct l; [exact I|cbn in H; lia].
  - assert (HL : forall l d lv, lsz l <= S n -> doks d l -> (forall x, In x lv -> N.to_nat x < d) -> ldists lv l).
    { intros l; induction l as [|x r IHr]; intros d lv Hs Hd Hlv; [exact I|].
      cbn [lsz] in Hs. cbn [doks] in Hd. destruct Hd as [Hx Hr]. cbn [ldists]. split.
      - apply (IHt x d lv); [lia|exact Hx|exact Hlv].
      - apply (IHr d lv); [lia|exact Hr|exact Hlv]. }
    split; [|exact HL].
    intros t d lv Hs Hd Hlv. destruct t as [v|v|o e ex|o e v sb|i c sb|l sb|o e cs]; try exact I.
    + rewrite tsz_svar in Hs. apply ldist_svar. apply dok_svar in Hd. apply (IHl sb (S d) lv); [lia|exact Hd|].
      intros x Hx. specialize (Hlv x Hx). lia.
    + rewrite tsz_iif in Hs. apply ldist_iif. apply dok_iif in Hd. apply (IHl sb (S d) lv); [lia|exact Hd|].
      intros x Hx. specialize (Hlv x Hx). lia.
    + rewrite tsz_loop in Hs. apply ldist_loop. apply dok_loop in Hd. destruct Hd as (El & Hd255 & Hsb). split.
      * intros Hin. specialize (Hlv _ Hin). rewrite El in Hlv. lia.
      * apply (IHl sb (S d)); [lia|exact Hsb|]. intros x [<-|Hx]; [rewrite El; lia|]. specialize (Hlv x Hx). lia.
    + rewrite tsz_if in Hs. apply ldist_if. apply dok_if in Hd.
      assert (HC : forall cs', csz cs' <= n -> dcases d cs' -> ldcases lv cs').
      { intros cs'; induction cs' as [|[co ce cc sb] r IHc]; intros Hc Hdc; [exact I|].
        cbn [csz] in Hc. cbn [dcases] in Hdc. destruct Hdc as [H1 H2]. cbn [ldcases]. split.
        - apply (IHl sb (S d) lv); [lia|exact H1|]. intros x Hx. specialize (Hlv x Hx). lia.
        - apply IHc; [lia|exact H2]. }
      apply HC; [lia|exact Hd].
Qed.

(* no loop carries the Level of a loop around it: two loops that are active together use different slots of loops_items_ *)
Theorem parse_levels_distinct : forall w content l, parse_model w content = Ok l -> ldists [] l.
Proof.
  intros w content l H. apply (proj2 (depth_distinct (lsz l)) l 0 []); [lia|exact (parse_levels w content l H)|].
  intros x [].
Qed.
