(* ExprBridgeExt.v -- the renderer model only looks at its two expression hooks through their
   answers: two pairs of hooks that answer alike render alike (no functional extensionality axiom). *)
From Coq Require Import NArith List Bool Arith Lia.
From Qv Require Import gen.Tables_tparse TparseModel TrenderModel TrenderProofs.
Import ListNotations.

Lemma tsize_pos' : forall t, 1 <= tsize t.
Proof. intros t; destruct t; cbn; lia. Qed.

Section Ext.
  Variable value : Type.
  Variable gk : value -> list N -> option value.
  Variable mem : value -> list (option value * list N).
  Variable vt : bool -> value -> option (list N).
  Variable vc : value -> option (list N).
  Variable gb : value -> list N -> option value.
  Variable sv : bool -> value -> value.
  Variable esc : list N -> list N.
  Variables m1 m2 : nat -> list qexpr -> list (item value) -> option (list N).
  Variables c1 c2 : nat -> list qexpr -> list (item value) -> option bool.
  Variable content : list N.
  Variable root : value.
  Hypothesis Hm : forall k ex items, m1 k ex items = m2 k ex items.
  Hypothesis Hc : forall k ex items, c1 k ex items = c2 k ex items.

  Notation T1 := (render_tag value gk mem vt vc gb sv esc m1 c1 content root).
  Notation T2 := (render_tag value gk mem vt vc gb sv esc m2 c2 content root).
  Notation L1 := (render_list value gk mem vt vc gb sv esc m1 c1 content root).
  Notation L2 := (render_list value gk mem vt vc gb sv esc m2 c2 content root).
  Notation G1 := (render_range value gk mem vt vc gb sv esc m1 c1 content root).
  Notation G2 := (render_range value gk mem vt vc gb sv esc m2 c2 content root).
  Notation E1 := (render_each value gk mem vt vc gb sv esc m1 c1 content root).
  Notation E2 := (render_each value gk mem vt vc gb sv esc m2 c2 content root).
  Notation K1 := (render_pick value gk mem vt vc gb sv esc m1 c1 content root).
  Notation K2 := (render_pick value gk mem vt vc gb sv esc m2 c2 content root).

  Lemma math_ext : forall o e ex off items,
    render_math value m1 content o e ex off items = render_math value m2 content o e ex off items.
  Proof. intros. unfold render_math. destruct ex; [reflexivity|]. rewrite Hm. reflexivity. Qed.

  Lemma sub_ext : forall t items,
    render_sub value gk vt esc m1 content root t items = render_sub value gk vt esc m2 content root t items.
  Proof. intros t items. destruct t; cbn [render_sub]; try reflexivity. rewrite math_ext. reflexivity. Qed.

  Lemma phrase_ext : forall fuel phrase subs items i j acc,
    phrase_scan value gk vt esc m1 content root fuel phrase subs items i j acc =
    phrase_scan value gk vt esc m2 content root fuel phrase subs items i j acc.
  Proof.
    induction fuel as [|f IH]; intros phrase subs items i j acc; cbn [phrase_scan]; [reflexivity|].
    repeat match goal with
    | |- (if ?c then _ else _) = (if ?c then _ else _) => destruct c; try reflexivity
    | |- match ?x with _ => _ end = match ?x with _ => _ end => destruct x; try reflexivity
    end; try apply IH.
    rewrite sub_ext. destruct (render_sub value gk vt esc m2 content root t items); cbn [rbind]; [apply IH|reflexivity].
  Qed.

  Ltac same_head := repeat match goal with
    | |- rbind ?x _ = rbind ?x _ => destruct x; cbn [rbind]; [|reflexivity]
    end.

  Lemma tag_ext : forall n t, tsize t <= n -> forall off items, T1 t off items = T2 t off items.
  Proof.
    induction n as [|n IH]; intros t Hn; [pose proof (tsize_pos' t); lia|].
    assert (HL : forall l, lsize l <= n -> forall off e items, L1 l off e items = L2 l off e items).
    { induction l as [|x r IHl]; intros Hl off e items; [reflexivity|].
      cbn [lsize] in Hl. cbn [render_list]. rewrite (IH x) by lia.
      destruct (T2 x off items) as [[[o off'] items']|]; cbn [rbind]; [|reflexivity].
      rewrite IHl by lia. reflexivity. }
    assert (HG : forall l, lsize l <= n -> forall skip take off e items, G1 l skip take off e items = G2 l skip take off e items).
    { induction l as [|x r IHl]; intros Hl skip take off e items; [reflexivity|].
      cbn [lsize] in Hl. cbn [render_range]. destruct skip; [|apply IHl; lia]. destruct take; [reflexivity|].
      rewrite (IH x) by lia.
      destruct (T2 x off items) as [[[o off'] items']|]; cbn [rbind]; [|reflexivity].
      rewrite IHl by lia. reflexivity. }
    intros off items. destruct t as [v|v|o e ex|o e v subs|i c subs|l subs|o e cases].
    - reflexivity.
    - reflexivity.
    - cbn [render_tag]. rewrite math_ext. reflexivity.
    - cbn [render_tag]. same_head.
      match goal with |- match ?x with _ => _ end = _ => destruct x; [|reflexivity] end.
      rewrite phrase_ext. reflexivity.
    - assert (Hsz : lsize subs <= n) by (cbn [tsize] in Hn; change (S (lsize subs) <= S n) in Hn; lia).
      rewrite !rtag_iif. same_head.
      assert (Hcc : match c with [] => None | _ => c1 (i_off i) c items end = match c with [] => None | _ => c2 (i_off i) c items end)
        by (destruct c; [reflexivity|apply Hc]).
      rewrite Hcc. destruct (match c with [] => None | _ => c2 (i_off i) c items end) as [[|]|]; [| |reflexivity].
      + cbv zeta. destruct (N.ltb (i_toff i) (i_foff i));
          (match goal with |- context [check_id ?s ?l ?x] => destruct (check_id s l x) end; cbn [rbind]; [rewrite HG by exact Hsz|]; reflexivity).
      + cbv zeta. destruct (N.ltb (i_foff i) (i_toff i));
          (match goal with |- context [check_id ?s ?l ?x] => destruct (check_id s l x) end; cbn [rbind]; [rewrite HG by exact Hsz|]; reflexivity).
    - assert (Hsz : lsize subs <= n) by (cbn [tsize] in Hn; change (S (lsize subs) <= S n) in Hn; lia).
      assert (HE : forall ms its, E1 l subs ms its = E2 l subs ms its).
      { induction ms as [|m r IHm]; intros its; [reflexivity|].
        rewrite !render_each_cons. same_head.
        destruct (fst m); [rewrite HL by exact Hsz|]; same_head; rewrite IHm; reflexivity. }
      rewrite !rtag_loop. same_head. cbv zeta.
      match goal with |- match ?x with _ => _ end = _ => destruct x; [|reflexivity] end.
      same_head.
      match goal with |- match ?x with _ => _ end = _ => destruct x; [|reflexivity] end.
      rewrite HE. reflexivity.
    - assert (Hsz : csize cases <= n) by (rewrite tsize_if in Hn; lia).
      assert (HK : forall cs, csize cs <= n -> K1 items cs = K2 items cs).
      { induction cs as [|[co ce cc sb] r IHc]; intros Hcs; [reflexivity|].
        cbn [csize] in Hcs. rewrite !render_pick_cons.
        destruct cc as [|q0 cc']; [apply HL; lia|]. rewrite Hc.
        destruct (c2 co (q0 :: cc') items) as [[|]|]; [apply HL; lia|apply IHc; lia|apply IHc; lia]. }
      rewrite !rtag_if. same_head.
      destruct cases as [|[co ce cc sb] r]; [reflexivity|]. destruct cc; [reflexivity|].
      rewrite HK by exact Hsz. reflexivity.
  Qed.

  Lemma list_ext : forall l off e items, L1 l off e items = L2 l off e items.
  Proof.
    induction l as [|x r IH]; intros off e items; [reflexivity|].
    cbn [render_list]. rewrite (tag_ext (tsize x) x (le_n _)).
    destruct (T2 x off items) as [[[o off'] items']|]; cbn [rbind]; [|reflexivity]. rewrite IH. reflexivity.
  Qed.

  Theorem render_model_ext : forall tags,
    render_model value gk mem vt vc gb sv esc m1 c1 content root tags =
    render_model value gk mem vt vc gb sv esc m2 c2 content root tags.
  Proof. intros tags. unfold render_model. rewrite list_ext. reflexivity. Qed.
End Ext.

Theorem render_all_ext : forall value gk mem vt vc gb sv esc
  (m1 m2 : list N -> value -> nat -> list qexpr -> list (item value) -> option (list N))
  (c1 c2 : list N -> value -> nat -> list qexpr -> list (item value) -> option bool) w content root,
  (forall k ex items, m1 content root k ex items = m2 content root k ex items) ->
  (forall k ex items, c1 content root k ex items = c2 content root k ex items) ->
  render_all value gk mem vt vc gb sv esc (m1 content root) (c1 content root) w content root =
  render_all value gk mem vt vc gb sv esc (m2 content root) (c2 content root) w content root.
Proof.
  intros. unfold render_all. destruct (parse_model w content); [|reflexivity].
  apply render_model_ext; assumption.
Qed.
