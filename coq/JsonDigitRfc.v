(* JsonDigitRfc.v -- every numeral of the RFC 8259 number grammar is taken WHOLE by the number scanner
   (Digit::stringToNumber as modelled by JsonModel.scan_number): the scanner never stops inside it.  A numeral
   with a fraction or an exponent is classified Real, or rejected (NaN) -- the latter only by the scanner's range
   tests (magnitude beyond the doubles).  Together with JsonDigitExt.v: real_numeral holds for every RFC numeral
   with a fraction or an exponent that is in range. *)
From Coq Require Import NArith ZArith List Bool Lia.
From Qv Require Import gen.Tables_json JsonModel JsonSpec JsonProofsBase JsonProofsNum JsonProofsDoc JsonProofsInt JsonDigitExt.
Import ListNotations.
Local Open Scope N_scope.

Definition digs (l : list N) : Prop := forallb is_dig l = true.

(* exponent part: nothing, or e|E, optional sign, at least one digit *)
Inductive ExpPart : list N -> Prop :=
| EP_nil : ExpPart []
| EP_some e sgn xs : (e = dc_e \/ e = dc_ue) -> (sgn = [] \/ sgn = [dc_pos] \/ sgn = [dc_neg]) -> digs xs -> xs <> [] ->
    ExpPart (e :: sgn ++ xs).

(* what can remain of a numeral: digits, then (if no point was seen yet) optionally a point and digits, then the exponent part *)
Definition Shape (hd : bool) (l : list N) : Prop :=
  exists ds EP, digs ds /\ ExpPart EP /\
    (l = ds ++ EP \/ (hd = false /\ exists fs, digs fs /\ l = ds ++ dc_dot :: fs ++ EP)).

Lemma digs_app : forall a b, digs a -> digs b -> digs (a ++ b).
Proof. intros a b Ha Hb. unfold digs in *. rewrite forallb_app, Ha, Hb. reflexivity. Qed.
Lemma digs_cons : forall c t, digs (c :: t) -> is_dig c = true /\ digs t.
Proof. intros c t H. unfold digs in *. cbn in H. apply andb_true_iff in H. exact H. Qed.

Lemma dig_not_e : forall c, is_dig c = true -> (c =? dc_dot) = false /\ ((c =? dc_e) || (c =? dc_ue)) = false /\ (c =? dc_pos) = false /\ (c =? dc_neg) = false.
Proof.
  intros c H. apply is_dig_bounds in H. repeat split; try (apply orb_false_iff; split); apply N.eqb_neq;
    [change dc_dot with 46|change dc_e with 101|change dc_ue with 69|change dc_pos with 43|change dc_neg with 45]; lia.
Qed.

Lemma pexp_digits_all : forall xs i ex, digs xs -> exists ex', pexp_digits i xs ex = ((i + length xs)%nat, [], ex').
Proof.
  induction xs as [|c t IH]; intros i ex H; cbn [pexp_digits length].
  - exists ex. rewrite Nat.add_0_r. reflexivity.
  - destruct (digs_cons _ _ H) as [Hc Ht]. rewrite Hc. destruct (IH (S i) (if ex <? 100000000 then m32 (m32 (ex * 10) + (c - dc_zero)) else ex) Ht) as [ex' E]. exists ex'. rewrite E. replace (S i + length t)%nat with (i + S (length t))%nat by lia. reflexivity.
Qed.

Lemma pexp_whole : forall i sgn xs, (sgn = [] \/ sgn = [dc_pos] \/ sgn = [dc_neg]) -> digs xs -> xs <> [] ->
  exists ex ng i', pexp i (sgn ++ xs) = (true, ex, ng, i', []).
Proof.
  intros i sgn xs Hs Hx Hne. destruct xs as [|x xs]; [congruence|]. destruct (digs_cons _ _ Hx) as [Hx1 Hx2].
  destruct (dig_not_e x Hx1) as (_ & _ & Hp & Hn).
  unfold pexp, pexp_tail. destruct Hs as [ -> | [ -> | -> ] ]; cbn [app].
  - rewrite Hp, Hn. cbn [orb]. destruct (pexp_digits_all (x :: xs) i 0 Hx) as [ex' E]. rewrite E.
    replace (i =? i + length (x :: xs))%nat with false by (symmetry; apply Nat.eqb_neq; cbn; lia). eauto.
  - change (dc_pos =? dc_pos) with true. cbn [orb]. rewrite Hp, Hn. cbn [orb].
    destruct (pexp_digits_all (x :: xs) (S i) 0 Hx) as [ex' E]. rewrite E.
    replace (S i =? S i + length (x :: xs))%nat with false by (symmetry; apply Nat.eqb_neq; cbn; lia). eauto.
  - change ((dc_neg =? dc_pos) || (dc_neg =? dc_neg)) with true. cbn iota. rewrite Hp, Hn. cbn [orb].
    destruct (pexp_digits_all (x :: xs) (S i) 0 Hx) as [ex' E]. rewrite E.
    replace (S i =? S i + length (x :: xs))%nat with false by (symmetry; apply Nat.eqb_neq; cbn; lia). eauto.
Qed.

Lemma tail_digits : forall ds l i hd dot eo, digs ds -> tail_loop i (ds ++ l) hd dot eo = tail_loop (i + length ds)%nat l hd dot eo.
Proof.
  induction ds as [|c t IH]; intros l i hd dot eo H; cbn [app length tail_loop]; [rewrite Nat.add_0_r; reflexivity|].
  destruct (digs_cons _ _ H) as [Hc Ht]. rewrite Hc. rewrite IH by assumption. f_equal. lia.
Qed.

Lemma tail_exp : forall EP i hd dot eo, ExpPart EP -> exists t, tail_loop i EP hd dot eo = Some t /\ t_r t = [].
Proof.
  intros EP i hd dot eo H. destruct H as [|e sgn xs He Hs Hx Hne].
  - cbn. eexists. split; reflexivity.
  - cbn [tail_loop].
    assert (Hed : is_dig e = false /\ (e =? dc_dot) = false /\ ((e =? dc_e) || (e =? dc_ue)) = true) by (destruct He as [ -> | -> ]; repeat split; reflexivity).
    destruct Hed as (H1 & H2 & H3). rewrite H1, H2, H3.
    destruct (pexp_whole (S i) sgn xs Hs Hx Hne) as (ex & ng & i' & E). rewrite E. eexists. split; reflexivity.
Qed.

Lemma tail_whole : forall hd l i dot eo, Shape hd l -> exists t, tail_loop i l hd dot eo = Some t /\ t_r t = [].
Proof.
  intros hd l i dot eo (ds & EP & Hds & HEP & [->|(-> & fs & Hfs & ->)]).
  - rewrite tail_digits by assumption. apply tail_exp. assumption.
  - rewrite tail_digits by assumption. cbn [tail_loop]. change (is_dig dc_dot) with false. cbn iota. rewrite N.eqb_refl. cbn [negb].
    rewrite tail_digits by assumption. apply tail_exp. assumption.
Qed.

Definition whole (n : numres) : Prop :=
  match n with NumNaN => True | NumNat _ r => r = [] | NumInt _ r => r = [] | NumReal r => r = [] end.
Definition realish (n : numres) : Prop := match n with NumNaN | NumReal _ => True | _ => False end.

Lemma real_tail_whole : forall num i l hd fo dot start tmp, Shape hd l ->
  whole (real_tail num i l hd fo dot start tmp) /\ realish (real_tail num i l hd fo dot start tmp).
Proof.
  intros num i l hd fo dot start tmp Hs. unfold real_tail.
  destruct (tail_whole hd l i dot O Hs) as (t & E & Et). rewrite E.
  repeat match goal with
         | |- context [let '(_, _) := ?x in _] => destruct x
         end.
  repeat match goal with
         | |- context [if ?b then _ else _] => destruct b
         end; try (split; [exact I|exact I]); try (split; [exact Et|exact I]).
  all: destruct (DigitModel.power_of_positive_ten _ _) as [[?|]|?]; (split; [try exact I; exact Et|exact I]).
Qed.

(* ---------------- the mantissa phase on a numeral ---------------- *)
Lemma digits_upto_full : forall l m i d n, (m <= i + length l)%nat ->
  exists p l' d' n', digits_upto m i l d n = JOk ((i + length p)%nat, l', d', n') /\ l = p ++ l' /\ digs p /\
    (m <= i + length p + length l')%nat /\ (d' = d \/ is_dig d' = true \/ exists t, l' = d' :: t).
Proof.
  induction l as [|c t IH]; intros m i d n Hm; cbn [digits_upto].
  - replace (i <? m)%nat with false by (symmetry; apply Nat.ltb_ge; cbn in Hm; lia).
    exists [], [], d, n. cbn. rewrite Nat.add_0_r. repeat split; auto; try lia.
  - destruct (i <? m)%nat eqn:E.
    + destruct (is_dig c) eqn:Ec.
      * destruct (IH m (S i) c (m64 (n * 10 + c - dc_zero))) as (p & l' & d' & n' & H1 & H2 & H3 & H4 & H5); [cbn in Hm; lia|].
        exists (c :: p), l', d', n'. rewrite H1. cbn [length app]. replace (i + S (length p))%nat with (S i + length p)%nat by lia.
        repeat split; auto.
        -- rewrite H2. reflexivity.
        -- unfold digs in *. cbn. rewrite Ec, H3. reflexivity.
        -- destruct H5 as [H5|H5]; [subst d'; auto|auto].
      * exists [], (c :: t), c, n. cbn [length app]. rewrite Nat.add_0_r. repeat split; auto. right. right. eauto.
    + exists [], (c :: t), d, n. cbn [length app]. rewrite Nat.add_0_r. repeat split; auto.
Qed.

Lemma exp_head : forall EP c t, ExpPart EP -> EP = c :: t -> is_dig c = false /\ (c =? dc_dot) = false /\ is_dee c = true /\ (c =? dc_x) = false /\ (c =? dc_ux) = false.
Proof.
  intros EP c t H E. destruct H as [|e sgn xs He]; [discriminate|]. inversion E; subst.
  destruct He as [ -> | -> ]; repeat split; reflexivity.
Qed.

Lemma shape_drop1 : forall hd c l, is_dig c = true -> Shape hd (c :: l) -> Shape hd l.
Proof.
  intros hd c l Hc (ds & EP & Hds & HEP & H).
  destruct ds as [|x ds'].
  - exfalso. destruct H as [H|(_ & fs & _ & H)]; cbn [app] in H.
    + symmetry in H. destruct (exp_head _ _ _ HEP H) as (Hd & _). congruence.
    + inversion H; subst. discriminate.
  - destruct (digs_cons _ _ Hds) as [_ Hds']. exists ds', EP. split; [assumption|]. split; [assumption|].
    destruct H as [H|(Hh & fs & Hfs & H)]; cbn [app] in H; inversion H; subst; [left; reflexivity|right; eauto].
Qed.

Lemma shape_drop : forall hd p l, digs p -> Shape hd (p ++ l) -> Shape hd l.
Proof.
  induction p as [|c p IH]; intros l Hp Hs; [exact Hs|]. destruct (digs_cons _ _ Hp) as [Hc Hp'].
  apply IH; [assumption|]. eapply shape_drop1; eauto.
Qed.

Lemma shape_dot : forall hd t, Shape hd (dc_dot :: t) -> hd = false /\ Shape true t.
Proof.
  intros hd t (ds & EP & Hds & HEP & H).
  destruct ds as [|x ds'].
  - destruct H as [H|(Hh & fs & Hfs & H)]; cbn [app] in H.
    + symmetry in H. destruct (exp_head _ _ _ HEP H) as (_ & Hd & _). discriminate.
    + inversion H; subst. split; [reflexivity|]. exists fs, EP. auto.
  - exfalso. destruct (digs_cons _ _ Hds) as [Hx _].
    destruct H as [H|(_ & fs & _ & H)]; cbn [app] in H; inversion H; subst; discriminate.
Qed.

(* the first unit of what remains is a digit, a point or an exponent marker *)
Lemma shape_head : forall hd c t, Shape hd (c :: t) -> is_dig c = true \/ is_dee c = true.
Proof.
  intros hd c t (ds & EP & Hds & HEP & H).
  destruct ds as [|x ds'].
  - destruct H as [H|(_ & fs & _ & H)]; cbn [app] in H.
    + symmetry in H. right. apply (exp_head _ _ _ HEP H).
    + inversion H; subst. right. reflexivity.
  - destruct (digs_cons _ _ Hds) as [Hx _]. destruct H as [H|(_ & fs & _ & H)]; cbn [app] in H; inversion H; subst; left; exact Hx.
Qed.

Lemma shape_weaken : forall l, Shape true l -> Shape false l.
Proof. intros l (ds & EP & H1 & H2 & [H|(H & _)]); [exists ds, EP; auto|discriminate]. Qed.

Lemma not_digs_drop : forall p l, digs p -> ~ digs (p ++ l) -> ~ digs l.
Proof. intros p l Hp Hn Hl. apply Hn. apply digs_app; assumption. Qed.

Definition good (m : nat) (s : mst) : Prop :=
  Shape (m_hasdot s) (m_r s) /\ (m <= m_i s + length (m_r s))%nat /\ (m_r s <> [] -> m_digit s <> dc_dot) /\
  (m_hasdot s = true -> m_real s = true).
Definition goodb (s : mst) : Prop := Shape (m_hasdot s) (m_r s) /\ (m_hasdot s = true -> m_real s = true).
Definition NI (s : mst) : Prop := m_hasdot s = true \/ ~ digs (m_r s).

Lemma mant_iter_shape : forall m s, good m s -> m_r s <> [] ->
  exists st, mant_iter m s = JOk st /\
    match st with
    | MNaN => False
    | MCont a => good m a /\ m_hasdot a = true /\ m_hasdot s = false /\ m_r a <> []
    | MBreak a => goodb a /\ (NI s -> NI a)
    end.
Proof.
  intros m s (Hs & Hm & Hd & Hr) Hne. unfold mant_iter.
  destruct (digits_upto_full (m_r s) m (m_i s) (m_digit s) (m_num s) Hm) as (p & l1 & dg1 & n1 & E & El & Hp & Hm1 & Hdg).
  rewrite E. cbn [bind].
  assert (Hs1 : Shape (m_hasdot s) l1) by (rewrite El in Hs; eapply shape_drop; eauto).
  assert (Hni : NI s -> m_hasdot s = true \/ ~ digs l1).
  { intros [H|H]; [left; exact H|right]. rewrite El in H. eapply not_digs_drop; eauto. }
  destruct (dg1 =? dc_dot) eqn:Edot.
  2:{ eexists. split; [reflexivity|]. split; [split; [exact Hs1|exact Hr]|]. exact Hni. }
  apply N.eqb_eq in Edot. subst dg1.
  destruct Hdg as [Hdg|[Hdg|[t Hdg]]]; [exfalso; apply (Hd Hne); auto|discriminate|].
  subst l1. destruct (shape_dot _ _ Hs1) as [Hh Hst]. rewrite Hh. cbn [negb adv bind].
  set (i1 := (m_i s + length p)%nat) in *.
  assert (Hb : forall d, goodb {| m_i := S i1; m_r := t; m_digit := d; m_num := n1; m_hasdot := true; m_real := true; m_dot := i1 |} /\
                         (NI s -> NI {| m_i := S i1; m_r := t; m_digit := d; m_num := n1; m_hasdot := true; m_real := true; m_dot := i1 |})).
  { intros d. split; [split; [exact Hst|reflexivity]|]. intros _. left. reflexivity. }
  assert (Hc : forall d, d <> dc_dot -> t <> [] ->
             good m {| m_i := S i1; m_r := t; m_digit := d; m_num := n1; m_hasdot := true; m_real := true; m_dot := i1 |}).
  { intros d Hdd Ht. split; [exact Hst|]. split; [cbn [m_i m_r length] in *; lia|]. split; [intros _; exact Hdd|reflexivity]. }
  destruct (S i1 <? m)%nat eqn:E2.
  - apply Nat.ltb_lt in E2. destruct t as [|d t2]; [cbn [length] in Hm1; lia|]. cbn [rd bind].
    destruct (is_dig19 d) eqn:E19.
    + eexists. split; [reflexivity|]. split; [apply Hc; [intros ->; discriminate|discriminate]|]. repeat split; auto. discriminate.
    + destruct ((d =? dc_zero) && (S (S i1) <? m)%nat) eqn:E3.
      * apply andb_true_iff in E3. destruct E3 as [_ E3]. apply Nat.ltb_lt in E3.
        destruct t2 as [|d2 t3]; [cbn [length] in Hm1; lia|]. cbn [tl rd bind].
        destruct (is_dig d2) eqn:Ed2; eexists; (split; [reflexivity|]).
        -- split; [apply Hc; [intros ->; discriminate|discriminate]|]. repeat split; auto. discriminate.
        -- apply Hb.
      * eexists. split; [reflexivity|]. apply Hb.
  - eexists. split; [reflexivity|]. apply Hb.
Qed.

Lemma mant_loop_shape : forall m s, good m s ->
  exists a, mant_loop 3 m s = JOk (MBreak a) /\ goodb a /\ (NI s -> NI a).
Proof.
  intros m s Hg. cbn [mant_loop].
  destruct (m_r s) as [|c0 t0] eqn:Er.
  { cbn [has]. exists s. split; [reflexivity|]. destruct Hg as (H1 & _ & _ & H4). split; [split; assumption|auto]. }
  cbn [has]. assert (Hne : m_r s <> []) by (rewrite Er; discriminate).
  destruct (mant_iter_shape m s Hg Hne) as (st & E & Hst). rewrite E. cbn [bind].
  destruct st as [a|a|]; [|exists a; split; [reflexivity|exact Hst]|contradiction].
  destruct Hst as (Hga & Hha & _ & Hnea).
  destruct (m_r a) as [|c1 t1] eqn:Era; [congruence|]. cbn [has].
  assert (Hnea' : m_r a <> []) by (rewrite Era; discriminate).
  destruct (mant_iter_shape m a Hga Hnea') as (st2 & E2 & Hst2). rewrite E2. cbn [bind].
  destruct st2 as [b|b|]; [destruct Hst2 as (_ & _ & Hf & _); congruence| |contradiction].
  exists b. split; [reflexivity|]. destruct Hst2 as [Hgb Hnib]. split; [exact Hgb|]. intros _. apply Hnib. left. exact Hha.
Qed.

(* ---------------- after the mantissa: the 20th digit, the classification ---------------- *)
Lemma scan_go_shape : forall neg s m fo start, good m s ->
  exists n, scan_go neg s m fo start = JOk n /\ whole n /\ (NI s -> realish n).
Proof.
  intros neg s m fo start Hg. unfold scan_go.
  destruct (mant_loop_shape m s Hg) as (a & E & (Hsa & Hra) & Hnia). rewrite E. cbn [bind].
  (* every way out ends in one of these *)
  assert (Hfin : forall i2 r2 num2 tmp2 real2, Shape (m_hasdot a) r2 -> (real2 = false -> r2 = []) ->
     (NI s -> real2 = true) ->
     exists n, (if negb real2 && negb neg then JOk (NumNat num2 r2)
                else if negb real2 && (num2 =? 0) then JOk (NumReal r2)
                else if negb real2 && (num2 <=? int_min_abs) then JOk (NumInt (- Z.of_N num2) r2)
                else if negb (num2 =? 0) || real2 then JOk (real_tail num2 i2 r2 (m_hasdot a) fo (m_dot a) start tmp2)
                else JOk (NumReal r2)) = JOk n /\ whole n /\ (NI s -> realish n)).
  { intros i2 r2 num2 tmp2 real2 Hsh Hr2 Hni.
    destruct real2.
    - cbn [negb andb orb]. rewrite orb_true_r. eexists. split; [reflexivity|].
      destruct (real_tail_whole num2 i2 r2 (m_hasdot a) fo (m_dot a) start tmp2 Hsh) as [H1 H2]. auto.
    - rewrite (Hr2 eq_refl) in *. cbn [negb andb].
      destruct (negb neg); [eexists; split; [reflexivity|]; split; [reflexivity|intros H; specialize (Hni H); discriminate]|].
      destruct (num2 =? 0); [eexists; split; [reflexivity|]; split; [reflexivity|intros _; exact I]|].
      destruct (num2 <=? int_min_abs); [eexists; split; [reflexivity|]; split; [reflexivity|intros H; specialize (Hni H); discriminate]|].
      cbn [negb orb]. eexists. split; [reflexivity|].
      destruct (real_tail_whole num2 i2 [] (m_hasdot a) fo (m_dot a) start tmp2 Hsh) as [H1 H2]. auto. }
  destruct (m_real a) eqn:Ereal; cbn [negb andb].
  { cbn [bind]. apply Hfin; [exact Hsa|discriminate|auto]. }
  assert (Hhd : m_hasdot a = false) by (destruct (m_hasdot a); [specialize (Hra eq_refl); congruence|reflexivity]).
  destruct (m_r a) as [|dg t] eqn:Er; cbn [has].
  { cbn [bind]. apply Hfin; [exact Hsa|reflexivity|].
    intros H. destruct (Hnia H) as [H1|H1]; [congruence|]. exfalso. apply H1. rewrite Er. reflexivity. }
  cbn [rd bind].
  destruct (is_dee dg) eqn:Edee.
  { cbn [bind]. apply Hfin; [exact Hsa|discriminate|auto]. }
  destruct (shape_head _ _ _ Hsa) as [Hdg|Hdg]; [|congruence]. rewrite Hdg.
  destruct ((nat_max_div10 <? m_num a) || (m_num a =? nat_max_div10) && (dc_five <? dg)).
  { cbn [bind]. apply Hfin; [exact Hsa|discriminate|auto]. }
  cbn [adv bind]. pose proof (shape_drop1 _ _ _ Hdg Hsa) as Hst.
  destruct t as [|dg2 t2]; cbn [has rd bind].
  - apply Hfin; [exact Hst|reflexivity|].
    intros H. destruct (Hnia H) as [H1|H1]; [congruence|]. exfalso. apply H1. rewrite Er. unfold digs. cbn. rewrite Hdg. reflexivity.
  - assert (Hreal2 : is_dee dg2 || is_dig dg2 = true) by (destruct (shape_head _ _ _ Hst) as [H2|H2]; rewrite H2; [apply orb_true_r|reflexivity]).
    rewrite Hreal2. apply Hfin; [exact Hst|discriminate|auto].
Qed.

(* ---------------- the whole scanner on an RFC numeral ---------------- *)
(* after the optional minus sign: a digit, then what Shape allows (RFC numerals, and a few more) *)
Lemma window_le : forall i r, (window i r <= i + length r)%nat.
Proof. intros i r. unfold window. destruct (Nat.ltb_spec (length r) 19); lia. Qed.

Lemma skip_zeros_shape : forall l i d, Shape true l ->
  exists i3 r3 d3, skip_zeros i l d = (i3, r3, d3) /\ Shape true r3 /\ (r3 <> [] -> d3 <> dc_dot).
Proof.
  induction l as [|a t IH]; intros i d Hs; cbn [skip_zeros].
  - exists i, [], d. repeat split; auto; congruence.
  - destruct (a =? dc_zero) eqn:E.
    + apply N.eqb_eq in E. subst a. apply IH. eapply shape_drop1; [|exact Hs]. reflexivity.
    + exists i, (a :: t), a. repeat split; auto. intros _ Ha. subst a.
      destruct (shape_dot _ _ Hs) as [Hf _]. discriminate.
Qed.

Lemma scan_unsigned_rfc : forall neg i d rem, is_dig d = true -> Shape false rem ->
  exists n, scan_unsigned neg i (d :: rem) = JOk n /\ whole n /\ (~ digs rem -> realish n).
Proof.
  intros neg i d rem Hd Hs. unfold scan_unsigned. cbn [has negb rd bind].
  destruct (is_dig19 d) eqn:E19.
  { cbn [adv bind].
    destruct (scan_go_shape neg {| m_i := S i; m_r := rem; m_digit := d; m_num := m64 (d - dc_zero); m_hasdot := false; m_real := false; m_dot := O |}
                (window i (d :: rem)) false i) as (n & E & Hw & Hr).
    { split; [exact Hs|]. split; [pose proof (window_le i (d :: rem)); cbn [length m_i m_r] in *; lia|].
      split; [intros _ Hdd; cbn in Hdd; subst d; discriminate|discriminate]. }
    exists n. split; [exact E|]. split; [exact Hw|]. intros Hnd. apply Hr. right. exact Hnd. }
  assert (Hz : d = dc_zero).
  { apply is_dig_bounds in Hd. unfold is_dig19 in E19. apply andb_false_iff in E19. destruct E19 as [E19|E19].
    - apply N.ltb_ge in E19. change dc_zero with 48 in *. lia.
    - apply N.leb_gt in E19. change dc_nine with 57 in *. lia. }
  subst d. change ((dc_zero =? dc_zero) || (dc_zero =? dc_dot)) with true. cbn iota.
  unfold scan_zero. cbn [tl]. change (dc_zero =? dc_zero) with true. cbn [andb].
  destruct rem as [|d1 t2].
  - cbn [has bind]. change (dc_zero =? dc_dot) with false. cbn iota.
    rewrite lone_zero_exact. exists (if neg then NumReal [] else NumNat 0 []). split; [reflexivity|].
    split; [destruct neg; reflexivity|]. intros H. exfalso. apply H. reflexivity.
  - cbn [has adv rd bind].
    destruct (shape_head _ _ _ Hs) as [Hd1|Hd1].
    + (* a second digit after the zero: not a number *)
      apply is_dig_bounds in Hd1 as Hb.
      replace ((d1 =? dc_x) || (d1 =? dc_ux)) with false
        by (symmetry; apply orb_false_iff; split; apply N.eqb_neq; [change dc_x with 120|change dc_ux with 88]; lia).
      rewrite Hd1. cbn [bind]. exists NumNaN. repeat split; auto.
    + assert (Hnd : is_dig d1 = false /\ (d1 =? dc_x) = false /\ (d1 =? dc_ux) = false).
      { unfold is_dee in Hd1. repeat (apply orb_true_iff in Hd1; destruct Hd1 as [Hd1|Hd1]); apply N.eqb_eq in Hd1; subst d1; repeat split; reflexivity. }
      destruct Hnd as (Hn1 & Hn2 & Hn3). rewrite Hn2, Hn3, Hn1. cbn [orb bind].
      destruct (d1 =? dc_dot) eqn:Edot.
      * apply N.eqb_eq in Edot. subst d1. destruct (shape_dot _ _ Hs) as [_ Hst]. cbn [adv bind].
        destruct (skip_zeros_shape t2 (S (S i)) dc_dot Hst) as (i3 & r3 & d3 & Es & Hs3 & Hd3). rewrite Es.
        replace (S i =? i)%nat with false by (symmetry; apply Nat.eqb_neq; lia). rewrite andb_false_r. cbn [andb].
        destruct (scan_go_shape neg {| m_i := i3; m_r := r3; m_digit := d3; m_num := 0; m_hasdot := true; m_real := true; m_dot := S i |}
                    (window i3 r3) true i3) as (n & E & Hw & Hr).
        { split; [exact Hs3|]. split; [apply window_le|]. split; [exact Hd3|reflexivity]. }
        exists n. split; [exact E|]. split; [exact Hw|]. intros _. apply Hr. left. reflexivity.
      * destruct (scan_go_shape neg {| m_i := S i; m_r := d1 :: t2; m_digit := d1; m_num := 0; m_hasdot := false; m_real := false; m_dot := O |}
                    (window (S i) (d1 :: t2)) false O) as (n & E & Hw & Hr).
        { split; [exact Hs|]. split; [apply window_le|]. split; [intros _ Hdd; cbn in Hdd; subst d1; rewrite N.eqb_refl in Edot; discriminate|discriminate]. }
        exists n. split; [exact E|]. split; [exact Hw|]. intros Hnd. apply Hr. right. exact Hnd.
Qed.

(* a numeral: optional minus, a digit, the rest *)
Definition RfcNum (txt : list N) : Prop :=
  exists sg d rem, (sg = [] \/ sg = [dc_neg]) /\ is_dig d = true /\ Shape false rem /\ txt = sg ++ d :: rem.
(* it has a fraction or an exponent *)
Definition RfcFrac (txt : list N) : Prop :=
  exists sg d rem, (sg = [] \/ sg = [dc_neg]) /\ is_dig d = true /\ Shape false rem /\ ~ digs rem /\ txt = sg ++ d :: rem.

Theorem scan_number_rfc_whole : forall txt, RfcNum txt -> exists n, scan_number txt = JOk n /\ whole n.
Proof.
  intros txt (sg & d & rem & Hsg & Hd & Hs & ->). unfold scan_number.
  destruct Hsg as [ -> | -> ]; cbn [app has negb rd bind].
  - destruct (digit_not_sign d Hd) as [Hn Hp]. rewrite Hn, Hp.
    destruct (scan_unsigned_rfc false O d rem Hd Hs) as (n & E & Hw & _). eauto.
  - rewrite N.eqb_refl. cbn [adv bind].
    destruct (scan_unsigned_rfc true 1 d rem Hd Hs) as (n & E & Hw & _). eauto.
Qed.

Theorem scan_number_rfc_real : forall txt, RfcFrac txt -> scan_number txt = JOk (NumReal []) \/ scan_number txt = JOk NumNaN.
Proof.
  intros txt (sg & d & rem & Hsg & Hd & Hs & Hnd & ->).
  assert (H : exists n, scan_number (sg ++ d :: rem) = JOk n /\ whole n /\ realish n).
  { unfold scan_number. destruct Hsg as [ -> | -> ]; cbn [app has negb rd bind].
    - destruct (digit_not_sign d Hd) as [Hn Hp]. rewrite Hn, Hp.
      destruct (scan_unsigned_rfc false O d rem Hd Hs) as (n & E & Hw & Hr). eauto.
    - rewrite N.eqb_refl. cbn [adv bind].
      destruct (scan_unsigned_rfc true 1 d rem Hd Hs) as (n & E & Hw & Hr). eauto. }
  destruct H as (n & E & Hw & Hr). rewrite E. destruct n; cbn in *; try contradiction; subst; auto.
Qed.

(* in range = the scanner's range tests do not reject the numeral (a boolean, computed on the text alone) *)
Definition real_in_range (txt : list N) : bool :=
  match scan_number txt with JOk NumNaN => false | _ => true end.

Theorem rfc_real_numeral : forall txt, RfcFrac txt -> real_in_range txt = true -> real_numeral txt.
Proof.
  intros txt Hf Hr. apply real_numeral_decided. unfold real_wholeb. unfold real_in_range in Hr.
  destruct (scan_number_rfc_real txt Hf) as [E|E]; rewrite E in *; [|discriminate].
  destruct Hf as (sg & d & rem & _ & _ & _ & _ & ->). destruct sg; reflexivity.
Qed.
