(* SeqProofsStream.v -- C14: every StringStream operation refines the list specification
   and keeps the pool invariant (no UAF / OOB), incl. self-append with growth (D19). *)
From Coq Require Import NArith List Arith Bool Lia.
From Qv Require Import SeqModel SeqLists SeqProofs SeqProofsArray SeqProofsUnits.
Import ListNotations.

Notation ainvN := (@ainv N).
Ltac splits := repeat match goal with |- _ /\ _ => split end.
Ltac set_inv H := eapply (ainv_set _ _ _ _ _ _ H).
Ltac set_inv' H := eapply (ainv_set' _ _ _ _ _ _ H).
Ltac move_inv H := eapply (ainv_move _ _ _ _ _ _ H).
Ltac others := intros ? ?; first [reflexivity | now rewrite !upd_other by auto | auto].
Ltac newblk := cbn [blk]; intros ? Hnb; first [discriminate Hnb | injection Hnb as <-; left; lia | right; exact Hnb | auto].

(* a source of cells that stays readable while only fresh blocks are added *)
Definition src_ok (h : hN) (s : @src N) (len : nat) (data : list N) : Prop :=
  length data = len /\
  forall h' : hN, (forall b, b < next h -> cells_of h' b = cells_of h b) -> rd_src h' s len = Ok data.

Lemma src_ok_ext : forall (h : hN) l len, len <= length l -> src_ok h (SExt l) len (firstn len l).
Proof.
  intros h l len Hl. split; [rewrite firstn_length; lia|]. intros h' _. cbn [rd_src].
  destruct (Nat.leb_spec len (length l)); [reflexivity|lia].
Qed.

Lemma owns_blk_lt : forall (h : hN) o (l : list N) b, hwf h -> owns h o l -> blk o = Some b -> b < next h.
Proof.
  intros h o l b Hw Ho Hb. destruct (cells_of h b) as [c|] eqn:E; [exact (live_lt _ _ _ Hw E)|].
  exfalso. exact (owns_live _ _ _ _ Ho Hb E).
Qed.

Lemma src_ok_obj : forall (h : hN) o l, hwf h -> owns h o l -> src_ok h (SPtr (blk o) 0) (size o) l.
Proof.
  intros h o l Hw Ho. split; [now destruct (owns_len _ _ _ Ho)|]. intros h' Hfr. cbn [rd_src].
  apply owns_read_all. apply owns_to with (h := h); [assumption|].
  intros b Hb. apply Hfr. eapply owns_blk_lt; eauto.
Qed.

Lemma src_ok_part : forall (h : hN) o l off n, hwf h -> owns h o l -> off + n <= size o ->
  src_ok h (SPtr (blk o) off) n (firstn n (skipn off l)).
Proof.
  intros h o l off n Hw Ho Hn. destruct (owns_len _ _ _ Ho) as (Hlen & _).
  split; [rewrite firstn_length, skipn_length; lia|]. intros h' Hfr. cbn [rd_src].
  apply owns_read; [|assumption]. apply owns_to with (h := h); [assumption|].
  intros b Hb. apply Hfr. eapply owns_blk_lt; eauto.
Qed.

Lemma src_ok_here : forall (h : hN) s len data, src_ok h s len data -> rd_src h s len = Ok data.
Proof. intros h s len data (_ & H). apply H. auto. Qed.

(* grow: a fresh block holds the content; the old storage is still allocated *)
Lemma t_grow_ok : forall (w : wN) s i n, ainvN w s -> size (ob w i) <= n ->
  exists w1, t_grow w i n = Ok (w1, blk (ob w i)) /\ ainvN w1 s /\
    (forall b, b < next (hp w) -> cells_of (hp w1) b = cells_of (hp w) b) /\
    next (hp w1) = S (next (hp w)) /\
    (forall k, k <> i -> ob w1 k = ob w k) /\ ob w1 i = mkObj (Some (next (hp w))) (size (ob w i)) n.
Proof.
  intros w s i n Hinv Hn. unfold t_grow. rewrite alloc_eq.
  pose proof (ainv_hwf _ _ Hinv) as Hwf. pose proof (ainv_obj _ _ i Hinv) as Hoi.
  destruct (owns_len _ _ _ Hoi) as (Hlen & Hsc).
  unfold mcopy, copy_in, rd_src.
  assert (Hoi1 : owns (halloc junkN (hp w) n) (ob w i) (s i)).
  { apply owns_to with (h := hp w); [assumption|]. intros b Hb. apply halloc_old.
    pose proof (ainv_lt w s i b Hinv Hb). lia. }
  rewrite (owns_read_all _ _ _ Hoi1). cbn [bind].
  destruct (fresh_fill junkN (hp w) n (s i) Hwf ltac:(lia)) as (h2 & Hwr & Hwf2 & Hn2 & Hfr2 & Hown2).
  rewrite Hwr. cbn [bind]. eexists. split; [reflexivity|].
  split.
  - set_inv Hinv; [exact Hwf2 | | | others | newblk].
    + intros b Hlt Hne. apply Hfr2. lia.
    + rewrite Hlen in Hown2. exact Hown2.
  - cbn [hp ob]. splits; auto.
    + intros b Hb. apply Hfr2. lia.
    + intros k Hk. now apply upd_other.
    + now rewrite upd_same.
Qed.

Lemma t_expand_ok : forall (w : wN) s i n, ainvN w s -> size (ob w i) <= n ->
  exists w', t_expand w i n = Ok w' /\ ainvN w' s /\
    (forall k, k <> i -> ob w' k = ob w k) /\ size (ob w' i) = size (ob w i) /\ cap (ob w' i) = n.
Proof.
  intros w s i n Hinv Hn. unfold t_expand.
  destruct (t_grow_ok w s i n Hinv Hn) as (w1 & Hg & Hinv1 & Hfr1 & Hn1 & Hoth & Hi1).
  rewrite Hg. cbn [bind fst snd].
  pose proof (ainv_hwf _ _ Hinv) as Hwf. pose proof (ainv_obj _ _ i Hinv) as Hoi.
  assert (Hoi1 : owns (hp w1) (ob w i) (s i)).
  { apply owns_to with (h := hp w); [assumption|]. intros b Hb. apply Hfr1. exact (ainv_lt w s i b Hinv Hb). }
  destruct (owns_free _ _ _ (ainv_hwf _ _ Hinv1) Hoi1) as (h2 & Hf & Hwf2 & Hn2 & Hfr2).
  rewrite Hf. cbn [bind]. eexists. split; [reflexivity|].
  split.
  - apply (ainv_heap _ _ _ Hinv1 Hwf2). intros k b Hb. apply Hfr2. intros Hold.
    destruct (Nat.eq_dec k i) as [->|Hk].
    + rewrite Hi1 in Hb. cbn [blk] in Hb. injection Hb as <-. pose proof (ainv_lt w s i _ Hinv Hold). lia.
    + rewrite Hoth in Hb by assumption. exact (ainv_distinct _ _ _ _ _ Hinv Hk Hb Hold).
  - cbn [ob]. rewrite Hi1. cbn [size cap]. auto.
Qed.

Lemma t_ensure_ok : forall (w : wN) s i need, ainvN w s ->
  exists w', t_ensure w i need = Ok w' /\ ainvN w' s /\
    (forall k, k <> i -> ob w' k = ob w k) /\ size (ob w' i) = size (ob w i) /\ need <= cap (ob w' i).
Proof.
  intros w s i need Hinv. unfold t_ensure.
  destruct (owns_len _ _ _ (ainv_obj _ _ i Hinv)) as (_ & Hsc).
  destruct (Nat.ltb_spec (cap (ob w i)) need) as [E|E].
  - destruct (t_expand_ok w s i need Hinv ltac:(lia)) as (w' & He & Hinv' & Hoth & Hs & Hc).
    exists w'. splits; auto. lia.
  - exists w. splits; auto.
Qed.

(* write(str, len), the source may point into the stream's own storage *)
Lemma t_write_ok : forall (w : wN) s i src len data s', ainvN w s -> src_ok (hp w) src len data ->
  s' i = s i ++ data -> (forall k, k <> i -> s' k = s k) ->
  exists w', t_write w i src len = Ok w' /\ ainvN w' s'.
Proof.
  intros w s i src len data s' Hinv (Hdl & Hsrc) Hsi Hsk. unfold t_write.
  pose proof (ainv_hwf _ _ Hinv) as Hwf. pose proof (ainv_obj _ _ i Hinv) as Hoi.
  destruct (owns_len _ _ _ Hoi) as (Hlen & Hsc).
  destruct (Nat.ltb_spec (cap (ob w i)) (size (ob w i) + len)) as [E|E].
  - destruct (t_grow_ok w s i (size (ob w i) + len) Hinv ltac:(lia)) as (w1 & Hg & Hinv1 & Hfr1 & Hn1 & Hoth & Hi1).
    rewrite Hg. cbn [bind fst snd]. unfold copy_in.
    rewrite (Hsrc (hp w1) Hfr1). cbn [bind].
    pose proof (ainv_obj _ _ i Hinv1) as Hoi1.
    destruct (owns_write (hp w1) (ob w1 i) (s i) (size (ob w1 i)) data (ainv_hwf _ _ Hinv1) Hoi1
                ltac:(rewrite Hi1; cbn [size cap]; lia)) as (h2 & Hwr & Hwf2 & Hn2 & Hfr2 & _ & Hown2).
    rewrite Hwr. cbn [bind].
    assert (Hold2 : owns h2 (ob w i) (s i)).
    { apply owns_to with (h := hp w); [assumption|]. intros b Hb.
      rewrite Hfr2; [apply Hfr1; exact (ainv_lt w s i b Hinv Hb)|].
      rewrite Hi1. cbn [blk]. intros Hx. injection Hx as <-. pose proof (ainv_lt w s i _ Hinv Hb). lia. }
    destruct (owns_free _ _ _ Hwf2 Hold2) as (h3 & Hf & Hwf3 & Hn3 & Hfr3).
    rewrite Hf. cbn [bind]. eexists. split; [reflexivity|].
    set_inv' Hinv1; [exact Hwf3 | | | exact Hsk | newblk].
    + intros k b Hk Hb. rewrite Hfr3; [apply Hfr2|].
      * exact (ainv_distinct _ _ _ _ _ Hinv1 Hk Hb).
      * rewrite Hoth in Hb by assumption. intros Hold. exact (ainv_distinct _ _ _ _ _ Hinv Hk Hb Hold).
    + rewrite Hsi. specialize (Hown2 ltac:(lia)). rewrite firstn_all2 in Hown2 by (rewrite Hi1; cbn [size]; lia).
      rewrite Hdl in Hown2. rewrite Hi1 in Hown2 |- *. cbn [blk size cap] in Hown2 |- *.
      apply owns_to with (h := h2); [exact Hown2|]. cbn [blk]. intros b Hb. injection Hb as <-. apply Hfr3.
      intros Hold. pose proof (ainv_lt w s i _ Hinv Hold). lia.
  - cbn [bind fst snd]. unfold copy_in. rewrite (Hsrc (hp w) (fun b _ => eq_refl)). cbn [bind].
    destruct (owns_write (hp w) (ob w i) (s i) (size (ob w i)) data Hwf Hoi ltac:(lia))
      as (h2 & Hwr & Hwf2 & Hn2 & Hfr2 & _ & Hown2).
    rewrite Hwr. cbn [bind free]. eexists. split; [reflexivity|].
    set_inv Hinv; [exact Hwf2 | | | exact Hsk | newblk].
    + intros b Hlt Hne. now apply Hfr2.
    + rewrite Hsi. specialize (Hown2 ltac:(lia)). rewrite firstn_all2 in Hown2 by lia. now rewrite Hdl in Hown2.
Qed.

Lemma t_set_size_ok : forall (w : wN) s i n s', ainvN w s -> n <= size (ob w i) ->
  s' i = firstn n (s i) -> (forall k, k <> i -> s' k = s k) -> ainvN (t_set_size w i n) s'.
Proof.
  intros w s i n s' Hinv Hn Hsi Hsk. unfold t_set_size.
  set_inv Hinv; [exact (ainv_hwf _ _ Hinv) | reflexivity | | exact Hsk | newblk].
  rewrite Hsi. apply owns_shrink; [exact (ainv_obj _ _ i Hinv) | assumption].
Qed.

Lemma t_reset_ok : forall (w : wN) s i s', ainvN w s ->
  s' i = [] -> (forall k, k <> i -> s' k = s k) ->
  exists w', t_reset w i = Ok w' /\ ainvN w' s' /\ ob w' i = null_obj /\ (forall k, k <> i -> ob w' k = ob w k).
Proof. exact (arr_reset_ok (A := N)). Qed.

Lemma t_append_char_ok : forall (w : wN) s i c s', ainvN w s ->
  s' i = s i ++ [c] -> (forall k, k <> i -> s' k = s k) ->
  exists w', t_append_char w i c = Ok w' /\ ainvN w' s'.
Proof.
  intros w s i c s' Hinv Hsi Hsk. unfold t_append_char.
  assert (Hstep : exists w1, (if cap (ob w i) =? size (ob w i) then t_expand w i (size (ob w i) + 1) else Ok w) = Ok w1
                   /\ ainvN w1 s /\ size (ob w1 i) < cap (ob w1 i)).
  { destruct (owns_len _ _ _ (ainv_obj _ _ i Hinv)) as (_ & Hsc).
    destruct (Nat.eqb_spec (cap (ob w i)) (size (ob w i))) as [E|E].
    - destruct (t_expand_ok w s i (size (ob w i) + 1) Hinv ltac:(lia)) as (w1 & Hr & Hinv1 & _ & Hs1 & Hc1).
      exists w1. splits; auto. lia.
    - exists w. splits; auto. lia. }
  destruct Hstep as (w1 & -> & Hinv1 & Hlt). cbn [bind].
  pose proof (ainv_obj _ _ i Hinv1) as Hoi. destruct (owns_len _ _ _ Hoi) as (Hlen & _).
  destruct (owns_write (hp w1) (ob w1 i) (s i) (size (ob w1 i)) [c] (ainv_hwf _ _ Hinv1) Hoi ltac:(cbn [length]; lia))
    as (h2 & Hwr & Hwf2 & Hn2 & Hfr2 & _ & Hown2).
  unfold wr1. rewrite Hwr. cbn [bind]. eexists. split; [reflexivity|].
  set_inv Hinv1; [exact Hwf2 | | | exact Hsk | newblk].
  - intros b Hlt' Hne. now apply Hfr2.
  - rewrite Hsi. specialize (Hown2 ltac:(lia)). cbn [length] in Hown2.
    rewrite firstn_all2 in Hown2 by lia. exact Hown2.
Qed.

Lemma obj_eta : forall o, mkObj (blk o) (size o) (cap o) = o.
Proof. now intros []. Qed.

(* a terminator is stored at [Length()], the content is untouched *)
Lemma t_insert_null_ok : forall (w : wN) s i, ainvN w s ->
  exists w', t_insert_null w i = Ok w' /\ ainvN w' s /\ terminated (hp w') (ob w' i) = Ok true.
Proof.
  intros w s i Hinv. unfold t_insert_null.
  assert (Hstep : exists w1, (if cap (ob w i) =? size (ob w i) then t_expand w i (size (ob w i) + 1) else Ok w) = Ok w1
                   /\ ainvN w1 s /\ size (ob w1 i) < cap (ob w1 i)).
  { destruct (owns_len _ _ _ (ainv_obj _ _ i Hinv)) as (_ & Hsc).
    destruct (Nat.eqb_spec (cap (ob w i)) (size (ob w i))) as [E|E].
    - destruct (t_expand_ok w s i (size (ob w i) + 1) Hinv ltac:(lia)) as (w1 & Hr & Hinv1 & _ & Hs1 & Hc1).
      exists w1. splits; auto. lia.
    - exists w. splits; auto. lia. }
  destruct Hstep as (w1 & -> & Hinv1 & Hlt). cbn [bind].
  pose proof (ainv_obj _ _ i Hinv1) as Hoi. destruct (owns_len _ _ _ Hoi) as (Hlen & _).
  destruct (owns_write (hp w1) (ob w1 i) (s i) (size (ob w1 i)) [0%N] (ainv_hwf _ _ Hinv1) Hoi ltac:(cbn [length]; lia))
    as (h2 & Hwr & Hwf2 & Hn2 & Hfr2 & Hown2 & _).
  pose proof (owns_write_read (hp w1) (ob w1 i) (s i) (size (ob w1 i)) [0%N] h2 Hoi ltac:(cbn [length]; lia) Hwr) as Hrd.
  unfold wr1. rewrite Hwr. cbn [bind]. eexists. split; [reflexivity|].
  split.
  - apply (ainv_ob_ext (mkW h2 (upd (ob w1) i (mkObj (blk (ob w1 i)) (size (ob w1 i)) (cap (ob w1 i)))))).
    + reflexivity.
    + intros k. cbn [ob]. destruct (Nat.eq_dec k i) as [->|Hk]; [now rewrite upd_same, obj_eta | now rewrite upd_other].
    + set_inv Hinv1; [exact Hwf2 | | | others | newblk].
      * intros b Hlt' Hne. now apply Hfr2.
      * specialize (Hown2 (size (ob w1 i)) ltac:(lia) ltac:(lia)). rewrite firstn_all2 in Hown2 by lia. exact Hown2.
  - cbn [hp ob]. unfold terminated.
    destruct (blk (ob w1 i)) as [b|] eqn:Eb.
    + unfold rd1. cbn [length] in Hrd. rewrite Hrd. reflexivity.
    + reflexivity.
Qed.

Lemma t_alloc_obj_ok : forall (h : hN) n, hwf h ->
  hwf (fst (t_alloc_obj h n)) /\ next h <= next (fst (t_alloc_obj h n)) /\
  (forall b, b < next h -> cells_of (fst (t_alloc_obj h n)) b = cells_of h b) /\
  owns (fst (t_alloc_obj h n)) (snd (t_alloc_obj h n)) [] /\
  (forall b, blk (snd (t_alloc_obj h n)) = Some b -> next h <= b).
Proof.
  intros h n Hw. unfold t_alloc_obj. destruct n as [|n'].
  - cbn [fst snd]. splits; auto. + apply owns_null. + cbn. discriminate.
  - rewrite alloc_eq. cbn [fst snd].
    destruct (fresh_fill junkN h (S n') [] Hw ltac:(cbn; lia)) as (h2 & Hwr & Hwf2 & Hn2 & Hfr2 & Hown2).
    rewrite wr_range_nil in Hwr. injection Hwr as <-.
    splits; auto.
    + lia.
    + intros b Hb. apply Hfr2. lia.
    + cbn [blk]. intros b Hb. injection Hb as <-. lia.
Qed.

Lemma eq_ext_ok : forall (w : wN) s i l len (buf : list N), ainvN w s ->
  len <= length buf -> firstn len buf = l -> length l = len ->
  t_eq_ext w i buf len = Ok (list_eqb (s i) l).
Proof.
  intros w s i l len buf Hinv Hlb Hl Hll. unfold t_eq_ext.
  pose proof (ainv_obj _ _ i Hinv) as Hoi. destruct (owns_len _ _ _ Hoi) as (Hlen & _).
  destruct (Nat.eqb_spec (size (ob w i)) len) as [E|E].
  - rewrite <- E. rewrite (owns_read_all _ _ _ Hoi). cbn [bind]. now rewrite E, Hl.
  - rewrite list_eqb_len by lia. reflexivity.
Qed.

Lemma eq_obj_ok : forall (w : wN) s i j, ainvN w s ->
  (if size (ob w i) =? size (ob w j) then
     a <- rd_range (hp w) (blk (ob w i)) 0 (size (ob w i)) ;;
     b <- rd_range (hp w) (blk (ob w j)) 0 (size (ob w i)) ;;
     Ok (w, @OBool N (list_eqb a b))
   else Ok (w, OBool false)) = Ok (w, OBool (list_eqb (s i) (s j))).
Proof.
  intros w s i j Hinv.
  pose proof (ainv_obj _ _ i Hinv) as Hoi. destruct (owns_len _ _ _ Hoi) as (Hleni & _).
  pose proof (ainv_obj _ _ j Hinv) as Hoj. destruct (owns_len _ _ _ Hoj) as (Hlenj & _).
  destruct (Nat.eqb_spec (size (ob w i)) (size (ob w j))) as [E|E].
  - rewrite (owns_read_all _ _ _ Hoi). cbn [bind]. rewrite E, (owns_read_all _ _ _ Hoj). reflexivity.
  - rewrite list_eqb_len by lia. reflexivity.
Qed.

(* String::copyString into a fresh exact block: content then the terminator *)
Lemma splice_fill_term : forall (data : list N),
  splice (splice (repeat junkN (length data + 1)) 0 data) (length data) [0%N] = data ++ [0%N].
Proof.
  intros data.
  assert (E : splice (repeat junkN (length data + 1)) 0 data = data ++ [junkN]).
  { unfold splice. cbn [firstn app Nat.add]. rewrite repeat_app, skipn_app, repeat_length, Nat.sub_diag.
    rewrite skipn_all2 by (rewrite repeat_length; lia). reflexivity. }
  rewrite E. apply splice_middle.
Qed.

Lemma s_copy_string_ok_t : forall (h : hN) src len data, hwf h -> src_ok h src len data ->
  exists h', s_copy_string h src len = Ok (h', mkObj (Some (next h)) len 0) /\ hwf h' /\ next h' = S (next h) /\ (forall b, b <> next h -> cells_of h' b = cells_of h b) /\ cells_of h' (next h) = Some (data ++ [0%N]).
Proof.
  intros h src len data Hw (Hdl & Hsrc). unfold s_copy_string. rewrite alloc_eq. unfold copy_in.
  rewrite (Hsrc (halloc junkN h (len + 1))) by (intros b Hb; apply halloc_old; lia). cbn [bind].
  destruct (wr_range_ok (halloc junkN h (len + 1)) (next h) (repeat junkN (len + 1)) 0 data (halloc_new _ _ _)
              ltac:(rewrite repeat_length; lia)) as (h2 & Hwr & Hb2 & Ho2 & Hn2).
  rewrite Hwr. cbn [bind].
  destruct (wr_range_ok h2 (next h) _ len [0%N] Hb2
              ltac:(rewrite splice_length; rewrite repeat_length; cbn [length]; lia)) as (h3 & Hwr3 & Hb3 & Ho3 & Hn3).
  unfold wr1. rewrite Hwr3. cbn [bind]. exists h3. split; [reflexivity|].
  split.
  { eapply hupd_hwf; [|split; [eassumption|split; eassumption]|right; rewrite Hn2, halloc_next; lia].
    eapply hupd_hwf; [apply halloc_hwf; eassumption|split; [eassumption|split; eassumption]|right; rewrite halloc_next; lia]. }
  split; [rewrite Hn3, Hn2; apply halloc_next|].
  split; [intros b Hb; rewrite Ho3, Ho2 by assumption; now apply halloc_old|].
  rewrite Hb3. f_equal. subst len. apply splice_fill_term.
Qed.

Definition trun := run tstep.
Definition tspec_run := spec_run tspec.

Theorem tstep_refines : forall (w : wN) s op, ainvN w s -> top_ok op ->
  exists w', tstep w op = Ok (w', snd (tspec s op)) /\ ainvN w' (fst (tspec s op)).
Proof.
  intros w s op Hinv Hok.
  pose proof (ainv_hwf _ _ Hinv) as Hwf.
  destruct op as [i n|i j|i j|i j|i j|i l|i l|i c|i j|i l|i l|i j|i l|i l|i|i|i|i n|i idx|i c idx|i n c|i l|i n|i n|i|i|i|i|i];
    cbn [tstep tspec fst snd top_ok] in *.
  - (* TNew *)
    destruct (owns_free _ _ _ Hwf (ainv_obj _ _ i Hinv)) as (h1 & Hf & Hwf1 & Hn1 & Hfr1).
    rewrite Hf. cbn [bind].
    destruct (t_alloc_obj_ok h1 n Hwf1) as (Hwf2 & Hn2 & Hfr2 & Hown2 & Hnew2).
    destruct (t_alloc_obj h1 n) as (h2, o) eqn:Ea. cbn [fst snd] in *.
    eexists. split; [reflexivity|].
    set_inv Hinv; [exact Hwf2 | | | others | ].
    + intros b Hlt Hne. rewrite Hfr2 by lia. now apply Hfr1.
    + now rewrite upd_same.
    + intros b Hb. left. rewrite <- Hn1. now apply Hnew2.
  - (* TCopyCtor *)
    destruct (owns_free _ _ _ Hwf (ainv_obj _ _ i Hinv)) as (h1 & Hf & Hwf1 & Hn1 & Hfr1).
    rewrite Hf. cbn [bind].
    assert (Hinv1 : ainvN (mkW h1 (upd (ob w) i null_obj)) (upd s i [])).
    { set_inv Hinv; [exact Hwf1 | | | others | newblk].
      - intros b Hlt Hne. now apply Hfr1.
      - rewrite upd_same. apply owns_null. }
    pose proof (ainv_obj _ _ j Hinv1) as Hoj. cbn [hp ob] in Hoj. rewrite !upd_other in Hoj by auto.
    destruct (owns_len _ _ _ Hoj) as (Hlenj & _).
    destruct (size (ob w j)) as [|n'] eqn:Esz.
    + eexists. split; [reflexivity|]. apply (inv_ext owns _ _ _ Hinv1). intros k.
      destruct (Nat.eq_dec k i) as [->|Hk]; [|now rewrite !upd_other].
      rewrite !upd_same. destruct (s j); [reflexivity|discriminate].
    + rewrite <- Esz in *. clear n' Esz.
      destruct (t_alloc_obj_ok h1 (size (ob w j)) Hwf1) as (Hwf2 & Hn2 & Hfr2 & Hown2 & Hnew2).
      destruct (t_alloc_obj h1 (size (ob w j))) as (h2, o) eqn:Ea. cbn [fst snd] in *.
      assert (Hinv2 : ainvN (mkW h2 (upd (ob w) i o)) (upd s i [])).
      { set_inv Hinv; [exact Hwf2 | | | others | ].
        - intros b Hlt Hne. rewrite Hfr2 by lia. now apply Hfr1.
        - now rewrite upd_same.
        - intros b Hb. left. rewrite <- Hn1. now apply Hnew2. }
      pose proof (ainv_obj _ _ j Hinv2) as Hoj2. cbn [hp ob] in Hoj2. rewrite !upd_other in Hoj2 by auto.
      destruct (t_write_ok (mkW h2 (upd (ob w) i o)) (upd s i []) i (SPtr (blk (ob w j)) 0) (size (ob w j)) (s j)
                  (upd s i (s j)) Hinv2 (src_ok_obj _ _ _ Hwf2 Hoj2)) as (w3 & Hw3 & Hinv3).
      { now rewrite !upd_same. }
      { intros k Hk. now rewrite !upd_other. }
      rewrite Hw3. cbn [bind]. eauto.
  - (* TMoveCtor *)
    destruct (owns_free _ _ _ Hwf (ainv_obj _ _ i Hinv)) as (h1 & Hf & Hwf1 & Hn1 & Hfr1).
    rewrite Hf. cbn [bind]. eexists. split; [reflexivity|].
    move_inv Hinv; [exact Hok | exact Hwf1 | | | | ].
    + intros b Hlt Hne. now apply Hfr1.
    + rewrite upd_other by auto. now rewrite upd_same.
    + now rewrite upd_same.
    + intros k Hki Hkj. now rewrite !upd_other by auto.
  - (* TMoveAssign *)
    destruct (Nat.eqb_spec i j) as [->|Hij]; [eauto|].
    destruct (owns_free _ _ _ Hwf (ainv_obj _ _ i Hinv)) as (h1 & Hf & Hwf1 & Hn1 & Hfr1).
    rewrite Hf. cbn [bind]. eexists. split; [reflexivity|].
    move_inv Hinv; [exact Hij | exact Hwf1 | | | | ].
    + intros b Hlt Hne. now apply Hfr1.
    + rewrite upd_other by auto. now rewrite upd_same.
    + now rewrite upd_same.
    + intros k Hki Hkj. now rewrite !upd_other by auto.
  - (* TCopyAssign *)
    destruct (Nat.eqb_spec i j) as [->|Hij].
    + eexists. split; [reflexivity|]. apply (inv_ext owns w s _ Hinv). intros k.
      destruct (Nat.eq_dec k j) as [->|Hk]; [now rewrite upd_same | now rewrite upd_other].
    + pose proof (t_set_size_ok w s i 0 (upd s i []) Hinv ltac:(lia) (upd_same _ _ _ _) (fun k Hk => upd_other _ _ _ _ _ Hk)) as Hinv1.
      pose proof (ainv_obj _ _ j Hinv1) as Hoj. unfold t_set_size in Hoj. cbn [hp ob] in Hoj. rewrite !upd_other in Hoj by auto.
      destruct (t_write_ok (t_set_size w i 0) (upd s i []) i (SPtr (blk (ob w j)) 0) (size (ob w j)) (s j)
                  (upd s i (s j)) Hinv1 (src_ok_obj _ _ _ Hwf Hoj)) as (w3 & Hw3 & Hinv3).
      { now rewrite !upd_same. }
      { intros k Hk. now rewrite !upd_other. }
      rewrite Hw3. cbn [bind]. eauto.
  - (* TAssignExt *)
    pose proof (t_set_size_ok w s i 0 (upd s i []) Hinv ltac:(lia) (upd_same _ _ _ _) (fun k Hk => upd_other _ _ _ _ _ Hk)) as Hinv1.
    destruct (t_write_ok (t_set_size w i 0) (upd s i []) i (SExt l) (length l) (firstn (length l) l)
                (upd s i l) Hinv1 (src_ok_ext _ _ _ (le_n _))) as (w3 & Hw3 & Hinv3).
    { rewrite !upd_same. now rewrite firstn_all. }
    { intros k Hk. now rewrite !upd_other. }
    rewrite Hw3. cbn [bind]. eauto.
  - (* TAssignCstr *)
    pose proof (t_set_size_ok w s i 0 (upd s i []) Hinv ltac:(lia) (upd_same _ _ _ _) (fun k Hk => upd_other _ _ _ _ _ Hk)) as Hinv1.
    pose proof (cstr_len_le l) as Hcl.
    destruct (t_write_ok (t_set_size w i 0) (upd s i []) i (SExt (l ++ [0%N])) (cstr_len l) (firstn (cstr_len l) (l ++ [0%N]))
                (upd s i (firstn (cstr_len l) l)) Hinv1 (src_ok_ext (hp (t_set_size w i 0)) (l ++ [0%N]) (cstr_len l) ltac:(rewrite app_length; lia))) as (w3 & Hw3 & Hinv3).
    { rewrite !upd_same. now rewrite firstn_cstr_app. }
    { intros k Hk. now rewrite !upd_other. }
    rewrite Hw3. cbn [bind]. eauto.
  - (* TAppendChar *)
    destruct (t_append_char_ok w s i c (upd s i (s i ++ [c])) Hinv (upd_same _ _ _ _) (fun k Hk => upd_other _ _ _ _ _ Hk))
      as (w1 & Hr & Hinv1). rewrite Hr. cbn [bind]. eauto.
  - (* TAppendObj *)
    destruct (t_write_ok w s i (SPtr (blk (ob w j)) 0) (size (ob w j)) (s j) (upd s i (s i ++ s j)) Hinv
                (src_ok_obj _ _ _ Hwf (ainv_obj _ _ j Hinv)) (upd_same _ _ _ _) (fun k Hk => upd_other _ _ _ _ _ Hk))
      as (w1 & Hr & Hinv1). rewrite Hr. cbn [bind]. eauto.
  - (* TAppendExt *)
    destruct (t_write_ok w s i (SExt l) (length l) (firstn (length l) l) (upd s i (s i ++ l)) Hinv
                (src_ok_ext _ _ _ (le_n _))) as (w1 & Hr & Hinv1).
    { rewrite upd_same. now rewrite firstn_all. }
    { intros k Hk. now rewrite upd_other. }
    rewrite Hr. cbn [bind]. eauto.
  - (* TAppendCstr *)
    pose proof (cstr_len_le l) as Hcl.
    destruct (t_write_ok w s i (SExt (l ++ [0%N])) (cstr_len l) (firstn (cstr_len l) (l ++ [0%N]))
                (upd s i (s i ++ firstn (cstr_len l) l)) Hinv (src_ok_ext (hp w) (l ++ [0%N]) (cstr_len l) ltac:(rewrite app_length; lia)))
      as (w1 & Hr & Hinv1).
    { rewrite upd_same. now rewrite firstn_cstr_app. }
    { intros k Hk. now rewrite upd_other. }
    rewrite Hr. cbn [bind]. eauto.
  - (* TEqObj *)
    rewrite (eq_obj_ok w s i j Hinv). eauto.
  - (* TEqExt *)
    rewrite (eq_ext_ok w s i l (length l) l Hinv (le_n _) (firstn_all _) eq_refl). cbn [bind]. eauto.
  - (* TEqCstr *)
    pose proof (cstr_len_le l) as Hcl.
    rewrite (eq_ext_ok w s i (firstn (cstr_len l) l) (cstr_len l) (l ++ [0%N]) Hinv
               ltac:(rewrite app_length; lia) (firstn_cstr_app _ _) (firstn_cstr_length _)). cbn [bind]. eauto.
  - (* TClear *)
    eexists. split; [reflexivity|].
    apply (t_set_size_ok w s i 0 _ Hinv ltac:(lia) (upd_same _ _ _ _) (fun k Hk => upd_other _ _ _ _ _ Hk)).
  - (* TReset *)
    destruct (t_reset_ok w s i (upd s i []) Hinv (upd_same _ _ _ _) (fun k Hk => upd_other _ _ _ _ _ Hk))
      as (w1 & Hr & Hinv1 & _). rewrite Hr. cbn [bind]. eauto.
  - (* TDetach *)
    destruct (t_reset_ok w s i (upd s i []) Hinv (upd_same _ _ _ _) (fun k Hk => upd_other _ _ _ _ _ Hk))
      as (w1 & Hr & Hinv1 & _). rewrite Hr. cbn [bind]. eauto.
  - (* TStepBack *)
    pose proof (ainv_obj _ _ i Hinv) as Hoi. destruct (owns_len _ _ _ Hoi) as (Hlen & _). rewrite Hlen.
    destruct (Nat.leb_spec n (size (ob w i))) as [E|E]; [|eauto].
    eexists. split; [reflexivity|].
    apply (t_set_size_ok w s i (size (ob w i) - n) (upd s i (firstn (size (ob w i) - n) (s i))) Hinv ltac:(lia) (upd_same _ _ _ _) (fun k Hk => upd_other _ _ _ _ _ Hk)).
  - (* TReverse *)
    pose proof (ainv_obj _ _ i Hinv) as Hoi. destruct (owns_len _ _ _ Hoi) as (Hlen & Hsc).
    rewrite (owns_read_all _ _ _ Hoi). cbn [bind].
    rewrite <- Hlen, rev_loop_spec.
    destruct (owns_write (hp w) (ob w i) (s i) 0 (reverse_spec idx (s i)) Hwf Hoi
                ltac:(rewrite reverse_spec_length; lia)) as (h2 & Hwr & Hwf2 & Hn2 & Hfr2 & _ & Hown2).
    rewrite Hwr. cbn [bind]. eexists. split; [reflexivity|].
    apply (ainv_ob_ext (mkW h2 (upd (ob w) i (mkObj (blk (ob w i)) (size (ob w i)) (cap (ob w i)))))).
    + reflexivity.
    + intros k. cbn [ob]. destruct (Nat.eq_dec k i) as [->|Hk]; [now rewrite upd_same, obj_eta | now rewrite upd_other].
    + set_inv Hinv; [exact Hwf2 | | | others | newblk].
      * intros b Hlt Hne. now apply Hfr2.
      * rewrite upd_same. specialize (Hown2 ltac:(lia)). cbn [firstn app Nat.add] in Hown2.
        rewrite reverse_spec_length, Hlen in Hown2. exact Hown2.
  - (* TInsertAt *)
    pose proof (ainv_obj _ _ i Hinv) as Hoi. destruct (owns_len _ _ _ Hoi) as (Hlen & Hsc).
    unfold insert_spec. rewrite Hlen.
    destruct (Nat.ltb_spec idx (size (ob w i))) as [E|E].
    + rewrite (owns_read_all _ _ _ Hoi). cbn [bind].
      destruct (insert_shift_spec (s i) c idx ltac:(lia)) as (Hspec & Hsl).
      destruct (insert_shift (s i) c idx) as (c', tmp) eqn:Eis. cbn [fst snd] in *.
      destruct (owns_write (hp w) (ob w i) (s i) 0 c' Hwf Hoi ltac:(lia)) as (h2 & Hwr & Hwf2 & Hn2 & Hfr2 & _ & Hown2).
      rewrite Hwr. cbn [bind].
      assert (Hinv1 : ainvN (mkW h2 (ob w)) (upd s i c')).
      { apply (ainv_ob_ext (mkW h2 (upd (ob w) i (mkObj (blk (ob w i)) (size (ob w i)) (cap (ob w i)))))).
        - reflexivity.
        - intros k. cbn [ob]. destruct (Nat.eq_dec k i) as [->|Hk]; [now rewrite upd_same, obj_eta | now rewrite upd_other].
        - set_inv Hinv; [exact Hwf2 | | | others | newblk].
          + intros b Hlt Hne. now apply Hfr2.
          + rewrite upd_same. specialize (Hown2 ltac:(lia)). cbn [firstn app Nat.add] in Hown2.
            rewrite Hsl, Hlen in Hown2. exact Hown2. }
      destruct (t_append_char_ok (mkW h2 (ob w)) (upd s i c') i tmp (upd s i (firstn idx (s i) ++ c :: skipn idx (s i))) Hinv1)
        as (w2 & Hr & Hinv2).
      { now rewrite !upd_same, Hspec. }
      { intros k Hk. now rewrite !upd_other. }
      rewrite Hr. cbn [bind]. eauto.
    + eexists. split; [reflexivity|]. apply (inv_ext owns w s _ Hinv). intros k.
      destruct (Nat.eq_dec k i) as [->|Hk]; [now rewrite upd_same | now rewrite upd_other].
  - (* TSetLength *)
    destruct (t_ensure_ok w s i n Hinv) as (w1 & He & Hinv1 & Hoth & Hs1 & Hc1).
    rewrite He. cbn [bind].
    pose proof (ainv_obj _ _ i Hinv1) as Hoi. destruct (owns_len _ _ _ Hoi) as (Hlen & Hsc).
    rewrite <- Hs1.
    destruct (owns_write (hp w1) (ob w1 i) (s i) (size (ob w1 i)) (repeat c (n - size (ob w1 i))) (ainv_hwf _ _ Hinv1) Hoi
                ltac:(rewrite repeat_length; lia)) as (h2 & Hwr & Hwf2 & Hn2 & Hfr2 & Hown2a & Hown2b).
    rewrite Hwr. cbn [bind]. eexists. split; [reflexivity|]. unfold t_set_size. cbn [hp ob].
    set_inv Hinv1; [exact Hwf2 | | | others | newblk].
    + intros b Hlt Hne. now apply Hfr2.
    + rewrite upd_same. rewrite Hlen. destruct (Nat.le_gt_cases n (size (ob w1 i))) as [Hle|Hgt].
      * replace (n - size (ob w1 i)) with 0 by lia. cbn [repeat]. rewrite app_nil_r. apply Hown2a; lia.
      * specialize (Hown2b ltac:(lia)). rewrite repeat_length in Hown2b.
        replace (size (ob w1 i) + (n - size (ob w1 i))) with n in Hown2b by lia.
        rewrite firstn_all2 in Hown2b by lia. rewrite firstn_all2 by lia. exact Hown2b.
  - (* TBuffer *)
    destruct (t_ensure_ok w s i (size (ob w i) + length l) Hinv) as (w1 & He & Hinv1 & Hoth & Hs1 & Hc1).
    rewrite He. cbn [bind].
    pose proof (ainv_obj _ _ i Hinv1) as Hoi. destruct (owns_len _ _ _ Hoi) as (Hlen & Hsc).
    unfold t_set_size. cbn [hp ob]. rewrite upd_same. cbn [blk].
    destruct (owns_write (hp w1) (ob w1 i) (s i) (size (ob w i)) l (ainv_hwf _ _ Hinv1) Hoi ltac:(lia))
      as (h2 & Hwr & Hwf2 & Hn2 & Hfr2 & _ & Hown2).
    rewrite Hwr. cbn [bind]. eexists. split; [reflexivity|].
    set_inv Hinv1; [exact Hwf2 | | | others | newblk].
    + intros b Hlt Hne. now apply Hfr2.
    + rewrite upd_same. specialize (Hown2 ltac:(lia)). rewrite firstn_all2 in Hown2 by lia. exact Hown2.
  - (* TExpect *)
    destruct (t_ensure_ok w s i (n + size (ob w i)) Hinv) as (w1 & He & Hinv1 & _).
    rewrite He. cbn [bind]. eauto.
  - (* TReserve *)
    destruct (t_reset_ok w s i (upd s i []) Hinv (upd_same _ _ _ _) (fun k Hk => upd_other _ _ _ _ _ Hk))
      as (w1 & Hr & Hinv1 & Hnull & _). rewrite Hr. cbn [bind].
    destruct (t_alloc_obj_ok (hp w1) n (ainv_hwf _ _ Hinv1)) as (Hwf2 & Hn2 & Hfr2 & Hown2 & Hnew2).
    destruct (t_alloc_obj (hp w1) n) as (h2, o) eqn:Ea. cbn [fst snd] in *.
    eexists. split; [reflexivity|].
    set_inv Hinv1; [exact Hwf2 | | | others | ].
    + intros b Hlt Hne. now apply Hfr2.
    + now rewrite upd_same.
    + intros b Hb. left. now apply Hnew2.
  - (* TGetString *)
    pose proof (ainv_obj _ _ i Hinv) as Hoi. destruct (owns_len _ _ _ Hoi) as (Hlen & Hsc).
    destruct (Nat.ltb_spec (size (ob w i)) (cap (ob w i))) as [E|E].
    + destruct (owns_write (hp w) (ob w i) (s i) (size (ob w i)) [0%N] Hwf Hoi ltac:(cbn [length]; lia))
        as (h1 & Hwr & Hwf1 & Hn1 & Hfr1 & Hown1 & _).
      pose proof (owns_write_read (hp w) (ob w i) (s i) (size (ob w i)) [0%N] h1 Hoi ltac:(cbn [length]; lia) Hwr) as Hrd.
      unfold wr1. rewrite Hwr. cbn [bind].
      specialize (Hown1 (size (ob w i)) ltac:(lia) ltac:(lia)). rewrite firstn_all2 in Hown1 by lia.
      rewrite obj_eta in Hown1.
      rewrite (owns_read_all _ _ _ Hown1). cbn [bind].
      assert (Ht : terminated h1 (ob w i) = Ok true).
      { unfold terminated. destruct (blk (ob w i)) as [b|] eqn:Eb; [|reflexivity].
        unfold rd1. cbn [length] in Hrd. rewrite Hrd. reflexivity. }
      rewrite Ht. cbn [bind].
      destruct (owns_free _ _ _ Hwf1 Hown1) as (h2 & Hf & Hwf2 & Hn2 & Hfr2).
      rewrite Hf. cbn [bind]. eexists. split; [reflexivity|].
      set_inv Hinv; [exact Hwf2 | | | others | newblk].
      * intros b Hlt Hne. rewrite Hfr2 by assumption. now apply Hfr1.
      * rewrite upd_same. apply owns_null.
    + destruct (s_copy_string_ok_t (hp w) (SPtr (blk (ob w i)) 0) (size (ob w i)) (s i) Hwf (src_ok_obj _ _ _ Hwf Hoi))
        as (h1 & Hcs & Hwf1 & Hn1 & Hfr1 & Hnew1).
      rewrite Hcs. cbn [bind fst snd]. unfold t_reset. cbn [hp ob].
      assert (Hoi1 : owns h1 (ob w i) (s i)).
      { apply owns_to with (h := hp w); [assumption|]. intros b Hb. apply Hfr1. pose proof (ainv_lt w s i b Hinv Hb). lia. }
      destruct (owns_free _ _ _ Hwf1 Hoi1) as (h2 & Hf & Hwf2 & Hn2 & Hfr2).
      rewrite Hf. cbn [bind hp ob blk size].
      assert (Hc2 : cells_of h2 (next (hp w)) = Some (s i ++ [0%N])).
      { rewrite Hfr2; [assumption|]. intros Hb. pose proof (ainv_lt w s i _ Hinv Hb). lia. }
      rewrite (rd_range_ok h2 _ _ 0 (size (ob w i)) Hc2) by (rewrite app_length; cbn [length]; lia).
      cbn [skipn bind]. unfold terminated. cbn [blk size]. unfold rd1.
      rewrite (rd_range_ok h2 _ _ (size (ob w i)) 1 Hc2) by (rewrite app_length; cbn [length]; lia).
      rewrite <- Hlen. rewrite skipn_app, skipn_all, Nat.sub_diag. cbn [skipn app firstn bind].
      destruct (free_ok h2 _ _ Hc2) as (h3 & Hf3 & Hb3 & Ho3 & Hn3). rewrite Hf3. cbn [bind].
      rewrite firstn_app, Nat.sub_diag, firstn_O, app_nil_r, firstn_all.
      eexists. split; [reflexivity|].
      set_inv Hinv; [ | | | others | newblk].
      * eapply hupd_hwf; [exact Hwf2 | split; [eassumption | split; eassumption] | left; reflexivity].
      * intros b Hlt Hne. rewrite Ho3 by lia. rewrite Hfr2 by assumption. apply Hfr1. lia.
      * rewrite upd_same. apply owns_null.
  - (* TGetStringView *)
    destruct (t_insert_null_ok w s i Hinv) as (w1 & Hr & Hinv1 & Ht).
    rewrite Hr. cbn [bind]. rewrite (owns_read_all _ _ _ (ainv_obj _ _ i Hinv1)). cbn [bind].
    rewrite Ht. cbn [bind]. eauto.
  - (* TInsertNull *)
    destruct (t_insert_null_ok w s i Hinv) as (w1 & Hr & Hinv1 & Ht).
    rewrite Hr. cbn [bind]. eauto.
  - (* TIter *)
    rewrite (owns_read_all _ _ _ (ainv_obj _ _ i Hinv)). cbn [bind]. eauto.
  - (* TStreamOut *)
    rewrite (owns_read_all _ _ _ (ainv_obj _ _ i Hinv)). cbn [bind]. eauto.
Qed.

Theorem trun_refines : forall ops (w : wN) s, ainvN w s -> Forall top_ok ops ->
  exists w', trun ops w = Ok (w', snd (tspec_run ops s)) /\ ainvN w' (fst (tspec_run ops s)).
Proof.
  induction ops as [|op ops IH]; intros w s Hinv Hok.
  - cbn. eauto.
  - inversion Hok as [|? ? Hop Hops]; subst.
    destruct (tstep_refines w s op Hinv Hop) as (w1 & Hs & Hinv1).
    destruct (IH w1 _ Hinv1 Hops) as (w2 & Hr & Hinv2).
    unfold trun, tspec_run in *. cbn [run spec_run]. rewrite Hs. cbn [bind fst snd]. rewrite Hr. cbn [bind fst snd].
    eauto.
Qed.
