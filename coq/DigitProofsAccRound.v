(* DigitProofsAccRound.v -- C10 accuracy: the rounding decision of Digit::roundStringNumber (after D33 / D49)
   IS round-half-even on the exact value: for a digit run (least significant digit first) denoting the
   integer X, a flag saying whether something non-zero was cut off below the run, and a rounding position i,
   the code rounds up exactly when  X + (cut-off part)  is above the half-way point of its 10^(i+1) interval,
   or is exactly half-way and the kept quotient is odd. *)
From Coq Require Import NArith ZArith List Bool Lia ZifyBool ZifyN ZifyNat.
From Qv Require Import gen.Tables_digit DigitModel DigitProofsInt DigitProofsSafety.
Import ListNotations.
Local Open Scope N_scope.

(* value of a run written least significant digit first *)
Fixpoint lval (run : list N) : N :=
  match run with [] => 0 | c :: t => (c - 48) + 10 * lval t end.

Lemma lval_rev_dval : forall run, lval run = dval (rev run).
Proof.
  induction run as [|c t IH]; [reflexivity|]. cbn [lval rev]. rewrite dval_app, IH. cbn [length].
  change (N.of_nat 1) with 1. rewrite N.pow_1_r.
  assert (H1 : dval [c] = c - 48) by (unfold dval; cbn [fold_left]; lia). rewrite H1. lia.
Qed.

Lemma lval_app : forall lo t, lval (lo ++ t) = lval lo + 10 ^ N.of_nat (length lo) * lval t.
Proof.
  induction lo as [|c lo IH]; intros t; cbn [app lval length].
  - rewrite N.pow_0_r. lia.
  - rewrite IH, Nat2N.inj_succ, N.pow_succ_r'. lia.
Qed.

Lemma lval_bound : forall lo, Forall dig lo -> lval lo < 10 ^ N.of_nat (length lo).
Proof.
  induction lo as [|c lo IH]; intros H; cbn [lval length]; [cbn; lia|].
  inversion H as [|? ? Hc Hl]; subst. specialize (IH Hl). rewrite Nat2N.inj_succ, N.pow_succ_r'. unfold dig in Hc. lia.
Qed.

Lemma lval_zero_iff : forall lo, Forall dig lo -> existsb (fun x => negb (x =? ch_zero)) lo = negb (lval lo =? 0).
Proof.
  induction lo as [|c lo IH]; intros H; [reflexivity|].
  inversion H as [|? ? Hc Hl]; subst. cbn [existsb lval]. rewrite (IH Hl). change ch_zero with 48. unfold dig in Hc.
  destruct (c =? 48) eqn:E1; destruct (lval lo =? 0) eqn:E2; cbn [negb orb];
    rewrite ?N.eqb_eq, ?N.eqb_neq in *; symmetry; rewrite ?negb_true_iff, ?negb_false_iff, ?N.eqb_eq, ?N.eqb_neq; lia.
Qed.

(* the decision, as the model computes it, on a run  lo ++ c :: hi  with the rounding digit c *)
Definition round_decision (lo : list N) (c : N) (hi : list N) (ru : bool) : bool :=
  let ru' := ru || ((c =? ch_five) && existsb (fun x => negb (x =? ch_zero)) lo) in
  let odd := match hi with
             | [] => false
             | c1 :: _ => (c =? ch_five) && negb ru' && (N.land (sub32 c1 ch_zero) 1 =? 1)
             end in
  (ch_five <? c) || ((c =? ch_five) && (ru' || odd)).

(* round-half-even on the exact value X + f, where sticky says 0 < f < 1 (else f = 0) *)
Definition half_even_up (X : N) (i : N) (sticky : bool) : bool :=
  let q := X / 10 ^ (i + 1) in
  let r := X mod 10 ^ (i + 1) in
  let h := 5 * 10 ^ i in
  (h <? r) || ((r =? h) && (sticky || N.odd q)).

Lemma land1_odd : forall d, N.land d 1 = if N.odd d then 1 else 0.
Proof.
  intros d. change 1 with (N.ones 1) at 1. rewrite N.land_ones. change (2 ^ 1) with 2.
  rewrite <- N.bit0_mod. rewrite N.bit0_odd. destruct (N.odd d); reflexivity.
Qed.

Theorem round_decision_is_half_even : forall lo c hi ru,
  Forall dig lo -> dig c -> Forall dig hi ->
  round_decision lo c hi ru = half_even_up (lval (lo ++ c :: hi)) (N.of_nat (length lo)) ru.
Proof.
  intros lo c hi ru Hlo Hc Hhi. unfold round_decision, half_even_up.
  rewrite lval_app. cbn [lval]. set (i := N.of_nat (length lo)). set (L := lval lo). set (Q := lval hi).
  pose proof (lval_bound lo Hlo) as HL. fold i L in HL.
  set (P := 10 ^ i) in *. assert (HP : 0 < P) by (apply N.neq_0_lt_0, N.pow_nonzero; lia).
  rewrite N.add_1_r, N.pow_succ_r'. fold P.
  unfold dig in Hc. set (d := c - 48). assert (Hd : d <= 9) by (unfold d; lia).
  assert (HX : L + P * (d + 10 * Q) = Q * (10 * P) + (L + P * d)) by lia. rewrite HX.
  assert (Hr : L + P * d < 10 * P) by nia.
  rewrite N.div_add_l by lia. rewrite (N.div_small (L + P * d)) by exact Hr. rewrite N.add_0_r.
  rewrite N.add_comm, N.mod_add by lia. rewrite (N.mod_small (L + P * d)) by exact Hr.
  rewrite (lval_zero_iff lo Hlo). fold L.
  change ch_five with 53. change ch_zero with 48.
  assert (Ec : (53 <? c) = (5 <? d)) by (unfold d; destruct (53 <? c) eqn:E; destruct (5 <? d) eqn:E'; rewrite ?N.ltb_lt, ?N.ltb_ge in *; lia).
  assert (Ec5 : (c =? 53) = (d =? 5)) by (unfold d; destruct (c =? 53) eqn:E; destruct (d =? 5) eqn:E'; rewrite ?N.eqb_eq, ?N.eqb_neq in *; lia).
  rewrite Ec, Ec5.
  (* parity of the kept quotient *)
  assert (Hodd : N.odd Q = match hi with [] => false | c1 :: _ => N.land (sub32 c1 48) 1 =? 1 end).
  { unfold Q. destruct hi as [|c1 t]; [reflexivity|]. inversion Hhi as [|? ? Hc1 _]; subst. unfold dig in Hc1.
    cbn [lval]. assert (Hs : sub32 c1 48 = c1 - 48) by (unfold sub32, two32; lia). rewrite Hs, land1_odd.
    rewrite N.odd_add_mul_even by (exists 5; lia). destruct (N.odd (c1 - 48)); reflexivity. }
  destruct (5 <? d) eqn:E6.
  - apply N.ltb_lt in E6. cbn [orb]. symmetry. apply orb_true_iff. left. apply N.ltb_lt. nia.
  - apply N.ltb_ge in E6. cbn [orb]. destruct (d =? 5) eqn:E5.
    + apply N.eqb_eq in E5. rewrite E5. cbn [andb].
      destruct (L =? 0) eqn:EL.
      * apply N.eqb_eq in EL. rewrite EL. cbn [negb]. rewrite orb_false_r, N.add_0_l.
        replace (5 * P <? P * 5) with false by (symmetry; apply N.ltb_ge; lia).
        replace (P * 5 =? 5 * P) with true by (symmetry; apply N.eqb_eq; lia). cbn [orb andb].
        rewrite Hodd. destruct ru; cbn [orb negb andb]; [reflexivity|]. destruct hi; reflexivity.
      * apply N.eqb_neq in EL. cbn [negb]. rewrite orb_true_r. cbn [orb].
        symmetry. apply orb_true_iff. left. apply N.ltb_lt. lia.
    + apply N.eqb_neq in E5. cbn [andb]. symmetry. apply orb_false_iff. split.
      * apply N.ltb_ge. nia.
      * apply andb_false_iff. left. apply N.eqb_neq. nia.
Qed.

(* ---- the model's roundStringNumber takes exactly this decision ---- *)
Lemma getc_app_mid : forall site lo c hi, getc site (lo ++ c :: hi) (N.of_nat (length lo)) = Ok c.
Proof.
  intros site lo c hi. unfold getc. rewrite Nat2N.id. rewrite nth_error_app2 by lia. rewrite Nat.sub_diag. reflexivity.
Qed.

Definition round_carry (buf : list N) (index1 : N) : res (list N * N * bool) :=
  let last := blen buf - 1 in
  do pos <- skip_nines (S (length buf)) buf index1;
  if last <? pos then Ok (buf ++ [ch_one], pos, true)
  else
    do c2 <- getc 5 buf pos;
    if c2 =? ch_nine then do b <- setc 6 buf pos ch_one; Ok (b, pos, true)
    else do b <- setc 7 buf pos (c2 + 1); Ok (b, pos, false).

Theorem round_string_number_decision : forall lo c hi ru,
  let buf := lo ++ c :: hi in let i := N.of_nat (length lo) in
  blen buf < 2 ^ 32 ->
  round_string_number buf 0 i ru =
  if round_decision lo c hi ru then round_carry buf (i + 1) else Ok (buf, i + 1, false).
Proof.
  intros lo c hi ru buf i H32. unfold round_string_number. fold buf.
  unfold buf at 1, i at 1. rewrite getc_app_mid. cbn [bind].
  rewrite N.sub_0_r. cbn [N.to_nat skipn]. replace (N.to_nat i) with (length lo) by (unfold i; symmetry; apply Nat2N.id).
  assert (Hlow : firstn (length lo) buf = lo) by (unfold buf; rewrite firstn_app, Nat.sub_diag, firstn_all; cbn [firstn]; apply app_nil_r).
  rewrite Hlow.
  assert (Hlen : blen buf = i + 1 + N.of_nat (length hi)).
  { unfold blen, buf, i. rewrite app_length. cbn [length]. lia. }
  assert (Ha : add32 i 1 = i + 1) by (unfold add32, two32; apply N.mod_small; change (2 ^ 32) with 4294967296 in H32; lia).
  rewrite Ha.
  set (ru' := ru || ((c =? ch_five) && existsb (fun x => negb (x =? ch_zero)) lo)).
  unfold round_decision. fold ru'.
  destruct hi as [|c1 t].
  - assert (El : (i <? blen buf - 1) = false) by (apply N.ltb_ge; cbn [length] in Hlen; lia).
    rewrite El, andb_false_r. cbn [bind]. unfold round_carry. reflexivity.
  - assert (El : (i <? blen buf - 1) = true) by (apply N.ltb_lt; cbn [length] in Hlen; lia).
    rewrite El, andb_true_r.
    assert (Hg : getc 4 buf (i + 1) = Ok c1).
    { unfold getc, buf, i. replace (N.to_nat (N.of_nat (length lo) + 1)) with (S (length lo)) by lia.
      rewrite nth_error_app2 by lia. replace (S (length lo) - length lo)%nat with 1%nat by lia. reflexivity. }
    destruct ((c =? ch_five) && negb ru') eqn:E; cbn [bind].
    + rewrite Hg. cbn [bind]. cbn [andb]. unfold round_carry. reflexivity.
    + cbn [andb]. unfold round_carry. reflexivity.
Qed.

(* together: on a run of decimal digits the code rounds up exactly when round-half-even says so *)
Corollary round_string_number_half_even : forall lo c hi ru,
  let buf := lo ++ c :: hi in let i := N.of_nat (length lo) in
  Forall dig lo -> dig c -> Forall dig hi -> blen buf < 2 ^ 32 ->
  round_string_number buf 0 i ru =
  if half_even_up (lval buf) i ru then round_carry buf (i + 1) else Ok (buf, i + 1, false).
Proof.
  intros lo c hi ru buf i Hlo Hc Hhi H32. unfold buf, i.
  rewrite <- (round_decision_is_half_even lo c hi ru Hlo Hc Hhi). apply round_string_number_decision. exact H32.
Qed.

(* non-vacuity: run "52" = 25 rounded at the 5 with nothing cut off: tie, quotient 2 even -> stays;
   "53" = 35: quotient 3 odd -> up; "52" with the sticky flag -> up (this is 2.5 vs 2.5000001 at 0 digits) *)
Example round_examples2 :
  half_even_up 25 0 false = false /\ half_even_up 35 0 false = true /\ half_even_up 25 0 true = true
  /\ round_string_number [53; 50] 0 0 false = Ok ([53; 50], 1, false)
  /\ round_string_number [53; 51] 0 0 false = Ok ([53; 52], 1, false)
  /\ round_string_number [53; 50] 0 0 true = Ok ([53; 51], 1, false).
Proof. repeat (match goal with |- _ /\ _ => split end); vm_compute; reflexivity. Qed.
