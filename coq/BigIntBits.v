(* BigIntBits.v -- C19 lemmas, part 5: = |= &= with a word operand (D10 repaired),
   copy-assignment (D31 repaired), FindLastBit, FindFirstBit (D6 repaired). *)
From Coq Require Import Arith NArith ZArith List Bool Lia Psatz.
From Coq Require Import ZifyBool ZifyNat ZifyN.
From Qv Require Import BigIntModel BigIntProofs BigIntHelpers BigIntShift.
Import ListNotations.
Local Open Scope N_scope.

Lemma land_shift_low : forall h v c, v < 2 ^ h -> N.land v (c * 2 ^ h) = 0.
Proof.
  intros h v c Hv. apply N.bits_inj. intros n. rewrite N.land_spec, N.bits_0.
  destruct (N.lt_ge_cases n h) as [Hn|Hn].
  - rewrite N.mul_pow2_bits_low by assumption. apply andb_false_r.
  - rewrite <- (N.mod_small v (2 ^ h)) by assumption.
    rewrite N.mod_pow2_bits_high by assumption. reflexivity.
Qed.

Lemma lor_lt_pow2 : forall h a b, a < 2 ^ h -> b < 2 ^ h -> N.lor a b < 2 ^ h.
Proof.
  intros h a b Ha Hb.
  destruct (N.eq_dec (N.lor a b) 0) as [E|E]; [rewrite E; apply N.neq_0_lt_0, N.pow_nonzero; lia|].
  apply N.log2_lt_pow2; [lia|]. rewrite N.log2_lor.
  destruct (N.eq_dec a 0) as [->|Ha0]; destruct (N.eq_dec b 0) as [->|Hb0].
  - exfalso. apply E. reflexivity.
  - cbn [N.log2]. rewrite N.max_r by lia. apply N.log2_lt_pow2; lia.
  - cbn [N.log2]. rewrite N.max_l by lia. apply N.log2_lt_pow2; lia.
  - apply N.max_lub_lt; apply N.log2_lt_pow2; lia.
Qed.

Lemma land_le_l : forall a b, N.land a b <= a.
Proof.
  intros a b. rewrite <- (N.lor_ldiff_and a b) at 2.
  assert (H : N.land (N.ldiff a b) (N.land a b) = 0).
  { apply N.bits_inj. intros n. rewrite !N.land_spec, N.ldiff_spec, N.bits_0.
    destruct (N.testbit a n), (N.testbit b n); reflexivity. }
  rewrite <- N.lxor_lor by assumption. rewrite <- N.add_nocarry_lxor by assumption. lia.
Qed.

Section W.
  Variable w : N.
  Notation B := (Bw w).
  Notation val := (value w).
  Notation pw := (pw w).
  Notation bval := (bval w).

  Lemma words_cons : forall s, WF0 w s -> exists a t, words s = a :: t /\ a < B /\ wordsok w t.
  Proof.
    intros s (Hw & Hi & _). destruct (words s) as [|a t]; [cbn in Hi; lia|].
    exists a, t. inversion Hw; subst. auto.
  Qed.

  (* the state "word 0 = x, everything else zero" *)
  Lemma single_word_WF : forall l x, wordsok w l -> (0 < length l)%nat -> nth 0 l 0 = x ->
    (forall j, (0 < j)%nat -> nth j l 0 = 0) -> WF w (mkBig l 0) /\ val l = x.
  Proof.
    intros l x Hw Hl H0 Hz. split.
    - split; [split; [exact Hw|split; [exact Hl|]]|left; reflexivity].
      intros j Hj. apply Hz. exact Hj.
    - rewrite <- (value_firstn_zero_above w l 1) by (intros j Hj; apply Hz; lia).
      rewrite value_firstn_S by assumption. cbn [firstn value]. rewrite pw_0, H0. lia.
  Qed.

  (* operator=(Number_T) *)
  Theorem assign_word_correct : forall s v, WF w s -> v < B ->
    exists s', assign w w s v = Ok s' /\ WF w s' /\ bval s' = v /\ length (words s') = length (words s).
  Proof.
    intros s v ((Hw & Hi & Ha) & _) Hv. unfold assign, do_operation. rewrite N.eqb_refl.
    cbn [do_operation_s word0_step]. rewrite wr_ok by lia. cbn [bind words index].
    rewrite Nat.sub_0_r.
    destruct (clear_down_spec w (index s) (upd (words s) 0 v) 1) as (l & Hrun & Hlen & Hw' & Hz & Hs).
    - apply wordsok_upd; assumption.
    - rewrite length_upd. lia.
    - rewrite Hrun. cbn [bind]. rewrite length_upd in Hlen.
      destruct (single_word_WF l v Hw' ltac:(lia)) as (HWF & Hval).
      + rewrite Hs by lia. apply nth_upd_same. lia.
      + intros j Hj. destruct (Nat.le_gt_cases j (index s)) as [Hj2|Hj2]; [apply Hz; lia|].
        rewrite Hs by lia. rewrite nth_upd_other by lia. apply Ha, Hj2.
      + exists (mkBig l 0). repeat split; try apply HWF; auto.
  Qed.

  (* operator&=(Number_T), with the D10 repair *)
  Theorem and_word_correct : forall s v, WF w s -> v < B ->
    exists s', do_operation w KAnd w s v = Ok s' /\ WF w s' /\ bval s' = N.land (bval s) v /\
               length (words s') = length (words s).
  Proof.
    intros s v HWF Hv. pose proof HWF as ((Hw & Hi & Ha) & _).
    unfold do_operation. rewrite N.eqb_refl. cbn [do_operation_s].
    rewrite rd_ok by lia. cbn [bind]. rewrite wr_ok by lia. cbn [bind].
    set (a := nth 0 (words s) 0).
    pose proof (wordsok_nth w _ 0%nat Hw ltac:(lia)) as Hab. fold a in Hab.
    assert (Hland : N.land a v < B).
    { pose proof (land_le_l a v). lia. }
    destruct (clear_down_spec w (index s) (upd (words s) 0 (N.land a v)) 1) as (l & Hrun & Hlen & Hw' & Hz & Hs).
    - apply wordsok_upd; assumption.
    - rewrite length_upd. lia.
    - rewrite Hrun. cbn [bind]. rewrite length_upd in Hlen.
      destruct (single_word_WF l (N.land a v) Hw' ltac:(lia)) as (HWF' & Hval).
      + rewrite Hs by lia. apply nth_upd_same. lia.
      + intros j Hj. destruct (Nat.le_gt_cases j (index s)) as [Hj2|Hj2]; [apply Hz; lia|].
        rewrite Hs by lia. rewrite nth_upd_other by lia. apply Ha, Hj2.
      + exists (mkBig l 0). split; [reflexivity|]. split; [exact HWF'|]. split; [|exact Hlen].
        unfold BigIntProofs.bval at 1. cbn [words]. rewrite Hval.
        (* and with a word only sees word 0 *)
        destruct (words_cons s (proj1 HWF)) as (a' & t & Hwd & Ha' & _).
        unfold BigIntProofs.bval. unfold a. rewrite Hwd. cbn [nth value].
        unfold Bw. rewrite (N.mul_comm (2 ^ w)).
        rewrite <- lor_disjoint_add by exact Ha'.
        rewrite N.land_lor_distr_l. rewrite (N.land_comm (val t * 2 ^ w) v), land_shift_low by exact Hv.
        rewrite N.lor_0_r. reflexivity.
  Qed.

  (* operator|=(Number_T) *)
  Theorem or_word_correct : forall s v, WF w s -> v < B ->
    exists s', do_operation w KOr w s v = Ok s' /\ WF w s' /\ bval s' = N.lor (bval s) v /\
               length (words s') = length (words s).
  Proof.
    intros s v HWF Hv. pose proof HWF as ((Hw & Hi & Ha) & Ht).
    unfold do_operation. rewrite N.eqb_refl. cbn [do_operation_s word0_step].
    rewrite rd_ok by lia. cbn [bind]. rewrite wr_ok by lia. cbn [bind].
    set (a := nth 0 (words s) 0).
    pose proof (wordsok_nth w _ 0%nat Hw ltac:(lia)) as Hab. fold a in Hab.
    assert (Hlor : N.lor a v < B) by (apply lor_lt_pow2; assumption).
    exists (mkBig (upd (words s) 0 (N.lor a v)) (index s)). split; [reflexivity|].
    split; [|split; [|cbn [words]; apply length_upd]].
    - split; [split; [apply wordsok_upd; assumption|split; [cbn; rewrite length_upd; lia|]]|].
      + intros j Hj. cbn [words index] in *. rewrite nth_upd_other by lia. apply Ha, Hj.
      + unfold top_nonzero. cbn [words index]. destruct Ht as [Ht|Ht]; [left; exact Ht|right].
        destruct (Nat.eq_dec (index s) 0) as [E|E]; [|rewrite nth_upd_other by lia; exact Ht].
        rewrite E in *. rewrite nth_upd_same by lia. fold a in Ht. intros Hz.
        apply N.lor_eq_0_iff in Hz. destruct Hz as (Hz & _). contradiction.
    - destruct (words_cons s (proj1 HWF)) as (a' & t & Hwd & Ha' & _).
      unfold BigIntProofs.bval. cbn [words]. unfold a in *. rewrite Hwd in *. cbn [upd nth value] in *.
      unfold Bw in *. rewrite (N.mul_comm (2 ^ w)).
      rewrite <- (lor_disjoint_add w a' (val t)) by exact Ha'.
      rewrite <- lor_disjoint_add by exact Hlor.
      rewrite <- !N.lor_assoc. f_equal. apply N.lor_comm.
  Qed.

  (* operator=(const BigInt &), with the D31 repair *)
  Lemma copy_loop_spec : forall cnt l src i, wordsok w l -> wordsok w src ->
    (i + cnt <= length l)%nat -> (i + cnt <= length src)%nat ->
    exists l', copy_loop cnt l src i = Ok l' /\ length l' = length l /\ wordsok w l' /\
      (forall j, (i <= j < i + cnt)%nat -> nth j l' 0 = nth j src 0) /\
      (forall j, (j < i \/ i + cnt <= j)%nat -> nth j l' 0 = nth j l 0).
  Proof.
    induction cnt as [|c IH]; intros l src i Hw Hws Hl Hls.
    - exists l. cbn. repeat split; auto. intros j Hj. lia.
    - cbn [copy_loop]. rewrite rd_ok by lia. cbn [bind]. rewrite wr_ok by lia. cbn [bind].
      destruct (IH (upd l i (nth i src 0)) src (S i)) as (l' & Hrun & Hlen & Hw' & Hc & Hs).
      + apply wordsok_upd; [assumption|apply wordsok_nth; [assumption|lia]].
      + assumption.
      + rewrite length_upd. lia.
      + lia.
      + rewrite length_upd in Hlen. exists l'. split; [exact Hrun|]. split; [exact Hlen|].
        split; [exact Hw'|]. split.
        * intros j Hj. destruct (Nat.eq_dec j i) as [->|Hne].
          -- rewrite Hs by lia. apply nth_upd_same. lia.
          -- apply Hc. lia.
        * intros j Hj. rewrite Hs by lia. apply nth_upd_other. lia.
  Qed.

  Theorem copy_assign_correct : forall s src, WF w s -> WF w src -> length (words src) = length (words s) ->
    exists s', copy_assign s src = Ok s' /\ WF w s' /\ bval s' = bval src /\
               length (words s') = length (words s).
  Proof.
    intros s src ((Hw & Hi & Ha) & _) ((Hws & His & Has) & Hts) Hlen. unfold copy_assign.
    destruct (copy_loop_spec (S (index src)) (words s) (words src) 0 Hw Hws ltac:(lia) ltac:(lia))
      as (l & Hrun & Hl & Hwl & Hc & Hs).
    rewrite Hrun. cbn [bind].
    destruct (clear_down_spec w (S (index s) - S (index src)) l (S (index src)) Hwl ltac:(lia))
      as (l' & Hrun' & Hl' & Hwl' & Hz & Hs').
    rewrite Hrun'. cbn [bind].
    assert (Hnth : forall j, nth j l' 0 = nth j (words src) 0).
    { intros j. destruct (Nat.le_gt_cases j (index src)) as [Hj|Hj].
      - rewrite Hs' by lia. apply Hc. lia.
      - rewrite (Has j Hj). destruct (Nat.le_gt_cases j (index s)) as [Hj2|Hj2].
        + apply Hz. lia.
        + rewrite Hs' by lia. rewrite Hs by lia. apply Ha, Hj2. }
    exists (mkBig l' (index src)). split; [reflexivity|]. split; [|split; [|cbn [words]; lia]].
    - split; [split; [exact Hwl'|split; [cbn; lia|]]|].
      + intros j Hj. cbn [words index] in *. rewrite Hnth. apply Has, Hj.
      + unfold top_nonzero. cbn [words index]. rewrite Hnth. exact Hts.
    - unfold BigIntProofs.bval. cbn [words]. apply val_ext, Hnth.
  Qed.

  (* FindLastBit *)
  Hypothesis w_pos : 0 < w.

  Theorem find_last_bit_correct : forall s, WF w s -> bval s <> 0 ->
    find_last_bit w s = Ok (N.log2 (bval s)).
  Proof.
    intros s HWF Hnz. pose proof HWF as ((Hw & Hi & Ha) & Ht). unfold find_last_bit.
    rewrite rd_ok by assumption. cbn [bind].
    set (t := nth (index s) (words s) 0).
    assert (Htnz : t <> 0).
    { destruct Ht as [E|Ht]; [|exact Ht]. intros Hz. apply Hnz.
      apply (WF_zero_iff w s HWF). split; [exact E|]. unfold t in Hz. rewrite E in Hz. exact Hz. }
    destruct (N.eqb_spec t 0) as [|_]; [contradiction|]. f_equal.
    pose proof (WF0_value_firstn w s (proj1 HWF)) as Hv. rewrite value_firstn_S in Hv by assumption.
    fold t in Hv. pose proof (value_firstn_bound w (words s) (index s) Hw ltac:(lia)) as Hlow.
    pose proof (wordsok_nth w _ _ Hw Hi) as Htb. fold t in Htb.
    rewrite pw_bits in *. set (e := w * N.of_nat (index s)) in *.
    destruct (N.log2_spec t ltac:(lia)) as (L1 & L2).
    symmetry. rewrite (N.mul_comm (N.of_nat (index s)) w). fold e.
    assert (H1 : 2 ^ N.log2 t * 2 ^ e <= t * 2 ^ e) by (apply N.mul_le_mono_r; assumption).
    rewrite N.pow_succ_r' in L2.
    assert (H2 : t * 2 ^ e + 2 ^ e <= 2 * 2 ^ N.log2 t * 2 ^ e).
    { replace (t * 2 ^ e + 2 ^ e) with ((t + 1) * 2 ^ e) by ring. apply N.mul_le_mono_r. lia. }
    apply (N.log2_unique' _ _ (bval s - 2 ^ (N.log2 t + e))); rewrite ?N.pow_add_r; lia.
  Qed.
End W.
