(* Extract_finder.v -- extraction of the Finder model. *)
From Coq Require Import Extraction ExtrOcamlBasic NArith ZArith.
From Qv Require Import FinderModel.
Extraction Language OCaml.
Set Extraction Optimize.
Extraction "model_finder.ml"
  N.add N.mul N.sub N.div_eucl N.compare Z.add Z.mul Z.sub Z.div_eucl Z.compare Z.of_N Z.to_N Z.opp
  FinderModel.scan_all FinderModel.next_spec_c8.
