(* HtabProofsHistory.v -- C13: every operation of a history refines its
   association-list specification; lifted to all operation sequences by induction. *)
From Coq Require Import List NArith Arith Bool Lia ZifyBool ZifyNat ZifyN Permutation Sorting.Sorted.
From Qv Require Import HtabModel HtabProofsBase HtabProofsInv HtabProofsOps HtabProofsOps2 HtabProofsOps3
  HtabProofsRename HtabProofsSort HtabProofsSort2.
Import ListNotations.

Section History.
Context {K V : Type}.
Variable keqb : K -> K -> bool.
Variable klt : K -> K -> bool.
Variable H : K -> N.
Variable kdef : K.
Variable vdef : V.
Hypothesis keqb_spec : forall a b, keqb a b = true <-> a = b.
Hypothesis H_nz : forall k, H k <> 0%N.

Notation ht := (ht K V).
Notation item := (item K V).
Notation op := (op K V).
Notation it := (@it K V kdef vdef).
Notation set_val := (@set_val K V kdef vdef).
Notation insert := (@insert K V keqb H kdef vdef).
Notation get := (@get K V keqb H kdef vdef).
Notation remove := (@remove K V keqb H kdef vdef).
Notation remove_index := (@remove_index K V keqb kdef vdef).
Notation lookup := (@lookup K V keqb H kdef vdef).
Notation get_key_index := (@get_key_index K V keqb H kdef vdef).
Notation get_slot := (@get_slot K V kdef vdef).
Notation build_ins := (@build_ins K V keqb H kdef vdef).
Notation build_rm := (@build_rm K V keqb H kdef vdef).
Notation build_src := (@build_src K V keqb H kdef vdef).
Notation step := (@step K V keqb klt H kdef vdef).
Notation run := (@run K V keqb klt H kdef vdef).
Notation sp_step := (@sp_step K V keqb klt vdef).
Notation sp_run := (@sp_run K V keqb klt vdef).
Notation Inv := (@Inv K V H kdef vdef).
Notation live_at := (@live_at K V kdef vdef).
Notation live_l := (@live_l K V).
Notation no_dead := (@no_dead K V).
Local Notation Inv_empty := (@Inv_empty K V keqb H kdef vdef).
Local Notation Inv_bucket_lt := (@Inv_bucket_lt K V keqb H kdef vdef).
Local Notation live_item_iff := (@live_item_iff K V keqb H kdef vdef).
Local Notation items_ok_idx := (@items_ok_idx K V keqb H kdef vdef).
Local Notation bucket_chain_frame := (@bucket_chain_frame K V keqb H kdef vdef).
Local Notation link_end_step := (@link_end_step K V keqb H kdef vdef).
Local Notation matches_iff := (@matches_iff K V keqb H kdef vdef keqb_spec H_nz).
Local Notation find_key_inv := (@find_key_inv K V keqb H kdef vdef keqb_spec H_nz).
Local Notation live_is_live_l := (@live_is_live_l K V keqb H kdef vdef keqb_spec H_nz).
Local Notation live_l_app := (@live_l_app K V keqb H kdef vdef keqb_spec H_nz).
Local Notation keqb_refl := (@keqb_refl K V keqb H kdef vdef keqb_spec H_nz).
Local Notation keqb_neq := (@keqb_neq K V keqb H kdef vdef keqb_spec H_nz).
Local Notation sp_get_none := (@sp_get_none K V keqb H kdef vdef keqb_spec H_nz).
Local Notation sp_get_found := (@sp_get_found K V keqb H kdef vdef keqb_spec H_nz).
Local Notation sp_index_none := (@sp_index_none K V keqb H kdef vdef keqb_spec H_nz).
Local Notation sp_index_found := (@sp_index_found K V keqb H kdef vdef keqb_spec H_nz).
Local Notation sp_put_fresh := (@sp_put_fresh K V keqb H kdef vdef keqb_spec H_nz).
Local Notation sp_put_found := (@sp_put_found K V keqb H kdef vdef keqb_spec H_nz).
Local Notation sp_remove_none := (@sp_remove_none K V keqb H kdef vdef keqb_spec H_nz).
Local Notation sp_remove_found := (@sp_remove_found K V keqb H kdef vdef keqb_spec H_nz).
Local Notation sp_rekey_found := (@sp_rekey_found K V keqb H kdef vdef keqb_spec H_nz).
Local Notation In_nth_lt := (@In_nth_lt K V keqb H kdef vdef keqb_spec H_nz).
Local Notation split_at := (@split_at K V keqb H kdef vdef keqb_spec H_nz).
Local Notation no_key_before := (@no_key_before K V keqb H kdef vdef keqb_spec H_nz).
Local Notation no_key_all := (@no_key_all K V keqb H kdef vdef keqb_spec H_nz).
Local Notation live_l_replace := (@live_l_replace K V keqb H kdef vdef keqb_spec H_nz).
Local Notation live_upd_same := (@live_upd_same K V keqb H kdef vdef keqb_spec H_nz).
Local Notation live_wr := (@live_wr K V keqb H kdef vdef keqb_spec H_nz).
Local Notation hash_ok_it := (@hash_ok_it K V keqb H kdef vdef keqb_spec H_nz).
Local Notation items_ok_wr := (@items_ok_wr K V keqb H kdef vdef keqb_spec H_nz).
Local Notation set_val_inv := (@set_val_inv K V keqb H kdef vdef keqb_spec H_nz).
Local Notation insert_item_inv := (@insert_item_inv K V keqb H kdef vdef keqb_spec H_nz).
Local Notation gh_step_inv := (@gh_step_inv K V keqb H kdef vdef keqb_spec H_nz).
Local Notation gh_loop_inv := (@gh_loop_inv K V keqb H kdef vdef keqb_spec H_nz).
Local Notation live_of_fields := (@live_of_fields K V keqb H kdef vdef keqb_spec H_nz).
Local Notation hash_ok_of_fields := (@hash_ok_of_fields K V keqb H kdef vdef keqb_spec H_nz).
Local Notation generate_hash_inv := (@generate_hash_inv K V keqb H kdef vdef keqb_spec H_nz).
Local Notation live_filter := (@live_filter K V keqb H kdef vdef keqb_spec H_nz).
Local Notation no_dead_fields := (@no_dead_fields K V keqb H kdef vdef keqb_spec H_nz).
Local Notation resize_inv := (@resize_inv K V keqb H kdef vdef keqb_spec H_nz).
Local Notation live_length_le := (@live_length_le K V keqb H kdef vdef keqb_spec H_nz).
Local Notation no_dead_live_length := (@no_dead_live_length K V keqb H kdef vdef keqb_spec H_nz).
Local Notation grow_if_full_inv := (@grow_if_full_inv K V keqb H kdef vdef keqb_spec H_nz).
Local Notation sp_put_absent := (@sp_put_absent K V keqb H kdef vdef keqb_spec H_nz).
Local Notation no_dead_set_val := (@no_dead_set_val K V keqb H kdef vdef keqb_spec H_nz).
Local Notation no_dead_wr := (@no_dead_wr K V keqb H kdef vdef keqb_spec H_nz).
Local Notation insert_refines := (@insert_refines K V keqb H kdef vdef keqb_spec H_nz).
Local Notation get_refines := (@get_refines K V keqb H kdef vdef keqb_spec H_nz).
Local Notation NoDup_keys_sp_remove := (@NoDup_keys_sp_remove K V keqb H kdef vdef keqb_spec H_nz).
Local Notation unlink_inv := (@unlink_inv K V keqb H kdef vdef keqb_spec H_nz).
Local Notation live_nil_of_size0 := (@live_nil_of_size0 K V keqb H kdef vdef keqb_spec H_nz).
Local Notation remove_refines := (@remove_refines K V keqb H kdef vdef keqb_spec H_nz).
Local Notation lookup_spec := (@lookup_spec K V keqb H kdef vdef keqb_spec H_nz).
Local Notation no_dead_live_map := (@no_dead_live_map K V keqb H kdef vdef keqb_spec H_nz).
Local Notation live_l_firstn_all := (@live_l_firstn_all K V keqb H kdef vdef keqb_spec H_nz).
Local Notation index_clean := (@index_clean K V keqb H kdef vdef keqb_spec H_nz).
Local Notation get_slot_spec := (@get_slot_spec K V keqb H kdef vdef keqb_spec H_nz).
Local Notation key_index_key := (@key_index_key K V keqb H kdef vdef keqb_spec H_nz).
Local Notation index_key_index := (@index_key_index K V keqb H kdef vdef keqb_spec H_nz).
Local Notation remove_index_spec := (@remove_index_spec K V keqb H kdef vdef keqb_spec H_nz).
Local Notation sp_remove_nth_key := (@sp_remove_nth_key K V keqb H kdef vdef keqb_spec H_nz).
Local Notation remove_index_clean := (@remove_index_clean K V keqb H kdef vdef keqb_spec H_nz).
Local Notation chains_of_zero_heads := (@chains_of_zero_heads K V keqb H kdef vdef keqb_spec H_nz).
Local Notation Inv_fresh_nil := (@Inv_fresh_nil K V keqb H kdef vdef keqb_spec H_nz).
Local Notation reset_inv := (@reset_inv K V keqb H kdef vdef keqb_spec H_nz).
Local Notation reserve_inv := (@reserve_inv K V keqb H kdef vdef keqb_spec H_nz).
Local Notation clear_inv := (@clear_inv K V keqb H kdef vdef keqb_spec H_nz).
Local Notation filter_firstn_prefix := (@filter_firstn_prefix K V keqb H kdef vdef keqb_spec H_nz).
Local Notation items_ok_firstn := (@items_ok_firstn K V keqb H kdef vdef keqb_spec H_nz).
Local Notation resize_pub_inv := (@resize_pub_inv K V keqb H kdef vdef keqb_spec H_nz).
Local Notation expect_inv := (@expect_inv K V keqb H kdef vdef keqb_spec H_nz).
Local Notation compress_inv := (@compress_inv K V keqb H kdef vdef keqb_spec H_nz).
Local Notation copy_inv := (@copy_inv K V keqb H kdef vdef keqb_spec H_nz).
Local Notation merge_loop_inv := (@merge_loop_inv K V keqb H kdef vdef keqb_spec H_nz).
Local Notation merge_inv := (@merge_inv K V keqb H kdef vdef keqb_spec H_nz).
Local Notation it_set_item_same := (@it_set_item_same K V keqb H kdef vdef keqb_spec H_nz).
Local Notation it_set_item_other := (@it_set_item_other K V keqb H kdef vdef keqb_spec H_nz).
Local Notation size_set_item := (@size_set_item K V keqb H kdef vdef keqb_spec H_nz).
Local Notation item_ext := (@item_ext K V keqb H kdef vdef keqb_spec H_nz).
Local Notation ht_ext := (@ht_ext K V keqb H kdef vdef keqb_spec H_nz).
Local Notation unlink_chains := (@unlink_chains K V keqb H kdef vdef keqb_spec H_nz).
Local Notation link_end_gen := (@link_end_gen K V keqb H kdef vdef keqb_spec H_nz).
Local Notation chain_ex_set_item := (@chain_ex_set_item K V keqb H kdef vdef keqb_spec H_nz).
Local Notation rd_wr := (@rd_wr K V keqb H kdef vdef keqb_spec H_nz).
Local Notation rd_set_item := (@rd_set_item K V keqb H kdef vdef keqb_spec H_nz).
Local Notation link_ok_wr := (@link_ok_wr K V keqb H kdef vdef keqb_spec H_nz).
Local Notation link_ok_set_item := (@link_ok_set_item K V keqb H kdef vdef keqb_spec H_nz).
Local Notation link_ok_after := (@link_ok_after K V keqb H kdef vdef keqb_spec H_nz).
Local Notation link_after_not_member := (@link_after_not_member K V keqb H kdef vdef keqb_spec H_nz).
Local Notation link_after_same_tail := (@link_after_same_tail K V keqb H kdef vdef keqb_spec H_nz).
Local Notation link_after_tail_member := (@link_after_tail_member K V keqb H kdef vdef keqb_spec H_nz).
Local Notation NoDup_keys_rekey := (@NoDup_keys_rekey K V keqb H kdef vdef keqb_spec H_nz).
Local Notation relink_inv := (@relink_inv K V keqb H kdef vdef keqb_spec H_nz).
Local Notation sp_has_found := (@sp_has_found K V keqb H kdef vdef keqb_spec H_nz).
Local Notation sp_has_absent := (@sp_has_absent K V keqb H kdef vdef keqb_spec H_nz).
Local Notation rename_refines := (@rename_refines K V keqb H kdef vdef keqb_spec H_nz).
Local Notation swap_perm := (@swap_perm K V keqb klt H kdef vdef keqb_spec H_nz).
Local Notation qpart_spec := (@qpart_spec K V keqb klt H kdef vdef keqb_spec H_nz).
Local Notation qsort_spec := (@qsort_spec K V keqb klt H kdef vdef keqb_spec H_nz).
Local Notation sort_items_spec := (@sort_items_spec K V keqb klt H kdef vdef keqb_spec H_nz).
Local Notation live_l_perm := (@live_l_perm K V keqb klt H kdef vdef keqb_spec H_nz).
Local Notation rebuild_perm_inv := (@rebuild_perm_inv K V keqb klt H kdef vdef keqb_spec H_nz).
Local Notation sort_inv := (@sort_inv K V keqb klt H kdef vdef keqb_spec H_nz).
Local Set Default Proof Using "All".

(* the link between an implementation state and a specification state *)
Definition linked (s : ht) (st : list (K * V) * bool) : Prop :=
  live s = fst st /\ (snd st = true -> no_dead s).


Lemma sp_remove_absent (l : list (K * V)) k : sp_get keqb l k = None -> sp_remove keqb l k = l.
Proof.
  induction l as [|(k', v') r IH]; simpl; auto. destruct (keqb k' k); [discriminate|].
  intros Hn. f_equal. apply IH. exact Hn.
Qed.

Lemma build_ins_inv : forall ins s, Inv s ->
  exists s', build_ins ins s = Some s' /\ Inv s' /\
             live s' = fold_left (fun a kv => sp_put keqb a (fst kv) (snd kv)) ins (live s).
Proof.
  induction ins as [|(k, v) r IH]; intros s HI; simpl.
  - exists s. auto.
  - destruct (insert_refines k v s HI) as (s1 & -> & HI1 & Hl1 & _). simpl.
    destruct (IH s1 HI1) as (s' & Hr & HI' & Hl'). exists s'. rewrite Hl', Hl1. auto.
Qed.
Lemma build_rm_inv : forall rm s, Inv s ->
  exists s', build_rm rm s = Some s' /\ Inv s' /\ live s' = fold_left (sp_remove keqb) rm (live s).
Proof.
  induction rm as [|k r IH]; intros s HI; simpl.
  - exists s. auto.
  - destruct (remove_refines k s HI) as (s1 & -> & HI1 & Hl1 & _). simpl.
    destruct (IH s1 HI1) as (s' & Hr & HI' & Hl'). exists s'. rewrite Hl', Hl1. auto.
Qed.
Lemma build_src_inv ins rm :
  exists src, build_src ins rm = Some src /\ Inv src /\ live src = sp_build keqb ins rm.
Proof.
  unfold HtabModel.build_src, sp_build.
  destruct (build_ins_inv ins (@empty_ht K V) (Inv_empty)) as (s1 & -> & HI1 & Hl1). simpl.
  destruct (build_rm_inv rm s1 HI1) as (s' & Hr & HI' & Hl'). exists s'. rewrite Hl', Hl1. auto.
Qed.

(* every operation terminates (no Error Fuel) and keeps the invariant, in every state *)
Lemma step_total (o : op) s : Inv s -> exists s' ou, step o s = Some (s', ou) /\ Inv s'.
Proof.
  intros HI. destruct o as [k v|k v|k|k|i|k|a b|n|n| | | |n|a| | |ins rm]; cbn [HtabModel.step].
  - destruct (insert_refines k v s HI) as (s' & -> & HI' & _). simpl. eauto.
  - destruct (get_refines k s HI) as (s' & i & -> & HI' & _ & Hi & Hl & _). simpl.
    destruct (set_val_inv s' i v HI' Hi Hl) as (HI'' & _). eauto.
  - destruct (get_refines k s HI) as (s' & i & -> & HI' & _). simpl. eauto.
  - destruct (remove_refines k s HI) as (s' & -> & HI' & _). simpl. eauto.
  - rewrite (remove_index_spec i s HI). destruct (get_slot i s) as [(k, v)|].
    + destruct (remove_refines k s HI) as (s' & -> & HI' & _). simpl. eauto.
    + simpl. eauto.
  - destruct (lookup_spec k s HI) as (r & _ & -> & _). simpl. destruct r as [i|]; [|eauto].
    rewrite (remove_index_spec i s HI). destruct (get_slot i s) as [(k', v)|].
    + destruct (remove_refines k' s HI) as (s' & -> & HI' & _). simpl. eauto.
    + simpl. eauto.
  - destruct (rename_refines a b s HI) as (s' & r & -> & HI' & _). simpl. eauto.
  - destruct (resize_pub_inv n s HI) as (s' & -> & HI' & _). simpl. eauto.
  - destruct (expect_inv n s HI) as (s' & -> & HI' & _). simpl. eauto.
  - destruct (compress_inv s HI) as (s' & -> & HI' & _). simpl. eauto.
  - destruct (clear_inv s HI) as (HI' & _). eauto.
  - destruct (reset_inv s HI) as (HI' & _). eauto.
  - destruct (reserve_inv n s HI) as (HI' & _). eauto.
  - destruct (sort_inv a s HI) as (s' & -> & HI' & _). simpl. eauto.
  - destruct (copy_inv s HI) as (c & -> & HIc & _). simpl.
    destruct (copy_inv c HIc) as (s' & -> & HI' & _). simpl. eauto.
  - eauto.
  - destruct (build_src_inv ins rm) as (src & -> & HIs & _). simpl.
    destruct (merge_inv src s HIs HI) as (s' & -> & HI' & _). simpl. eauto.
Qed.

Lemma run_total : forall (ops : list op) s, Inv s -> exists s' outs, run ops s = Some (s', outs) /\ Inv s'.
Proof.
  induction ops as [|o r IH]; intros s HI; simpl.
  - eauto.
  - destruct (step_total o s HI) as (s1 & ou & -> & HI1). simpl.
    destruct (IH s1 HI1) as (s' & outs & -> & HI'). simpl. eauto.
Qed.

(* ---------- Sort refines the specification's sort, for a strict total order on keys ---------- *)
Hypothesis klt_irrefl : forall a, klt a a = false.
Hypothesis klt_trans : forall a b c, klt a b = true -> klt b c = true -> klt a c = true.
Hypothesis klt_total : forall a b, a <> b -> klt a b = true \/ klt b a = true.

Lemma sort_refines asc s :
  Inv s ->
  exists s', @sort K V klt kdef vdef asc s = Some s' /\ Inv s' /\ live s' = @sp_sort K V klt asc (live s) /\
             (no_dead s -> no_dead s').
Proof.
  intros HI. destruct (sort_inv asc s HI) as (s' & Hs & HI' & Hp & Hnd & its' & Hits & Hl').
  exists s'. split; [exact Hs|]. split; [exact HI'|]. split; [|exact Hnd].
  destruct (@sort_items_sorted K V klt kdef vdef klt_irrefl klt_trans klt_total asc (items s)) as (its2 & Hits2 & _ & Hsorted).
  rewrite Hits in Hits2. inversion Hits2; subst its2.
  apply (@sorted_perm_unique K V klt kdef vdef klt_irrefl klt_trans klt_total asc).
  - rewrite Hl'. unfold HtabProofsInv.live_l.
    apply (@strongly_map K V klt kdef vdef klt_irrefl klt_trans klt_total _ _ (@HtabProofsInv.kv K V) (@ile K V klt asc) (@ple K V klt asc)).
    + intros x y Hxy. exact Hxy.
    + apply (@strongly_filter K V klt kdef vdef klt_irrefl klt_trans klt_total). apply (@sorted_range_strongly K V klt kdef vdef klt_irrefl klt_trans klt_total). exact Hsorted.
  - apply (@sp_sort_sorted K V klt kdef vdef klt_irrefl klt_trans klt_total).
  - eapply perm_trans; [apply Permutation_sym; exact Hp|]. apply (@sp_sort_perm K V klt kdef vdef klt_irrefl klt_trans klt_total).
  - apply (inv_items _ _ _ _ HI').
Qed.

(* every supported operation refines its specification *)
Lemma step_refines (o : op) s st st' ou :
  Inv s -> linked s st -> sp_step o st = Some (st', ou) ->
  exists s', step o s = Some (s', ou) /\ Inv s' /\ linked s' st'.
Proof.
  intros HI (Hl & Hc) Hsp. destruct st as (l, c). simpl in Hl, Hc. subst l.
  destruct o as [k v|k v|k|k|i|k|a b|n|n| | | |n|a| | |ins rm]; cbn [HtabModel.step]; simpl in Hsp.
  - inversion Hsp; subst. destruct (insert_refines k v s HI) as (s' & -> & HI' & Hl' & Hnd). simpl.
    exists s'. split; [reflexivity|]. split; [exact HI'|]. split; simpl; auto.
  - inversion Hsp; subst. destruct (get_refines k s HI) as (s' & i & -> & HI' & Hl' & Hi & Hli & Hk & Hv & Hnd). simpl.
    destruct (set_val_inv s' i v HI' Hi Hli) as (HI'' & Hl'' & _ & _).
    exists (set_val s' i v). rewrite Hv. split; [reflexivity|]. split; [exact HI''|]. split; simpl.
    + rewrite Hl'', Hk, Hl'. reflexivity.
    + intros Hc'. apply no_dead_set_val; auto.
  - inversion Hsp; subst. destruct (get_refines k s HI) as (s' & i & -> & HI' & Hl' & _ & _ & _ & _ & Hnd). simpl.
    exists s'. split; [reflexivity|]. split; [exact HI'|]. split; simpl; auto.
  - inversion Hsp; subst. destruct (remove_refines k s HI) as (s' & -> & HI' & Hl' & Hsame). simpl.
    exists s'. split; [reflexivity|]. split; [exact HI'|]. split; simpl; [exact Hl'|].
    intros Hc'. apply andb_true_iff in Hc'. destruct Hc' as (Hc1 & Hc2). apply negb_true_iff in Hc2.
    rewrite (Hsame Hc2). auto.
  - destruct c; [|discriminate]. inversion Hsp; subst.
    destruct (remove_index_clean i s HI (Hc eq_refl)) as (s' & -> & HI' & Hl' & Hsame). simpl.
    exists s'. split; [reflexivity|]. split; [exact HI'|]. split; simpl; [exact Hl'|].
    intros Hc'. apply negb_true_iff in Hc'. apply Nat.ltb_ge in Hc'.
    rewrite (no_dead_live_length s (Hc eq_refl)) in Hc'. rewrite (Hsame Hc'). auto.
  - inversion Hsp; subst. destruct (lookup_spec k s HI) as (r & _ & -> & Hr). simpl. destruct r as [i|].
    + destruct Hr as (Hi & Hli & Hk & Hg & _).
      destruct (key_index_key k s i HI) as (v & Hslot & _).
      { destruct (lookup_spec k s HI) as (r' & _ & Hg' & Hr'). destruct r' as [i'|].
        - destruct Hr' as (Hi' & Hli' & Hk' & _). f_equal. f_equal.
          destruct (items_ok_idx s (inv_items _ _ _ _ HI)) as (_ & Hkeys). rewrite Hg'. f_equal. f_equal.
          apply Hkeys; auto. congruence.
        - destruct Hr' as (Hn & _). rewrite Hn in Hg. discriminate. }
      rewrite (remove_index_spec i s HI), Hslot.
      destruct (remove_refines k s HI) as (s' & -> & HI' & Hl' & _). simpl.
      exists s'. split; [reflexivity|]. split; [exact HI'|]. split; simpl; [exact Hl'|].
      unfold sp_has. rewrite Hg. simpl. rewrite andb_false_r. discriminate.
    + destruct Hr as (Hg & _). exists s. split; [reflexivity|]. split; [exact HI|]. split; simpl.
      * symmetry. apply sp_remove_absent. exact Hg.
      * unfold sp_has. rewrite Hg. simpl. rewrite andb_true_r. exact Hc.
  - inversion Hsp; subst. destruct (rename_refines a b s HI) as (s' & r & -> & HI' & Hl' & Hnd). simpl.
    exists s'. rewrite <- Hl'. simpl. split; [reflexivity|]. split; [exact HI'|]. split; simpl; auto.
  - destruct (resize_pub_inv n s HI) as (s' & -> & HI' & Hnd' & _ & (m & Hm & Hpre) & Hclean). simpl.
    destruct (c || (length (live s) =? 0) || (n =? 0)) eqn:E; [|discriminate]. inversion Hsp; subst.
    exists s'. split; [reflexivity|]. split; [exact HI'|]. split; simpl; [|auto].
    apply orb_true_iff in E. destruct E as [E|E]; [apply orb_true_iff in E; destruct E as [E|E]|].
    + apply Hclean. apply Hc. exact E.
    + apply Nat.eqb_eq in E. apply length_zero_iff_nil in E. rewrite Hpre, E. rewrite !firstn_nil. reflexivity.
    + apply Nat.eqb_eq in E. subst n. assert (m = 0) by lia. subst m. exact Hpre.
  - inversion Hsp; subst. destruct (expect_inv n s HI) as (s' & -> & HI' & Hl' & Hnd). simpl.
    exists s'. split; [reflexivity|]. split; [exact HI'|]. split; simpl; auto.
  - inversion Hsp; subst. destruct (compress_inv s HI) as (s' & -> & HI' & Hl' & Hnd). simpl.
    exists s'. split; [reflexivity|]. split; [exact HI'|]. split; simpl; auto.
  - inversion Hsp; subst. destruct (clear_inv s HI) as (HI' & Hl' & Hnd).
    eexists. split; [reflexivity|]. split; [exact HI'|]. split; simpl; auto.
  - inversion Hsp; subst. destruct (reset_inv s HI) as (HI' & Hl' & Hnd).
    eexists. split; [reflexivity|]. split; [exact HI'|]. split; simpl; auto.
  - inversion Hsp; subst. destruct (reserve_inv n s HI) as (HI' & Hl' & Hnd).
    eexists. split; [reflexivity|]. split; [exact HI'|]. split; simpl; auto.
  - inversion Hsp; subst. destruct (sort_refines a s HI) as (s' & -> & HI' & Hl' & Hnd). simpl.
    exists s'. split; [reflexivity|]. split; [exact HI'|]. split; simpl; auto.
  - inversion Hsp; subst. destruct (copy_inv s HI) as (c0 & -> & HIc & Hlc & _). simpl.
    destruct (copy_inv c0 HIc) as (s' & -> & HI' & Hl' & Hnd). simpl.
    exists s'. split; [reflexivity|]. split; [exact HI'|]. split; simpl; [congruence|auto].
  - inversion Hsp; subst. exists s. split; [reflexivity|]. split; [exact HI|]. split; simpl; auto.
  - inversion Hsp; subst. destruct (build_src_inv ins rm) as (src & -> & HIs & Hls). simpl.
    destruct (merge_inv src s HIs HI) as (s' & -> & HI' & Hl' & Hnd). simpl.
    exists s'. split; [reflexivity|]. split; [exact HI'|]. split; simpl; [rewrite Hl', Hls; reflexivity|auto].
Qed.

Lemma run_refines : forall (ops : list op) s st st' outs,
  Inv s -> linked s st -> sp_run ops st = Some (st', outs) ->
  exists s', run ops s = Some (s', outs) /\ Inv s' /\ linked s' st'.
Proof.
  induction ops as [|o r IH]; intros s st st' outs HI Hlk Hsp; simpl in *.
  - inversion Hsp; subst. exists s. auto.
  -    destruct (sp_step o st) as [((l1, c1), ou)|] eqn:E1; [|discriminate]. simpl in Hsp.
    destruct (sp_run r (l1, c1)) as [(st2, outs2)|] eqn:E2; [|discriminate]. simpl in Hsp. inversion Hsp; subst.
    destruct (step_refines o s st (l1, c1) ou HI Hlk E1) as (s1 & -> & HI1 & Hlk1). simpl.
    destruct (IH s1 (l1, c1) st' outs2 HI1 Hlk1 E2) as (s' & -> & HI' & Hlk'). simpl.
    exists s'. auto.
Qed.

End History.
