(* JsonDigitForms.v -- the independent RFC 8259 number recogniser (JsonModel.rfc_number, the one the C08 validity
   theorems use) against the numeral classes of the reader: a text it accepts as a whole is a run of digits without
   a leading zero (optionally negated), or a numeral with a fraction or an exponent (RfcFrac).  So every RFC number is
   an integer read exactly, or a real text in the sense of JsonDigitBig.RfcRealText. *)
From Coq Require Import NArith ZArith List Bool Lia.
From Qv Require Import gen.Tables_json JsonModel JsonSpec JsonProofsBase JsonProofsNum JsonProofsDoc JsonProofsInt JsonDigitExt JsonDigitRfc JsonDigitBig JsonDigitC08.
Import ListNotations.
Local Open Scope N_scope.

Lemma rfc_dig_is : forall c, rfc_dig c = is_dig c.
Proof. reflexivity. Qed.

Lemma rfc_digits_split : forall r, exists ds, digs ds /\ r = ds ++ rfc_digits r.
Proof.
  induction r as [|c t IH]; [exists []; split; reflexivity|]. cbn [rfc_digits]. rewrite rfc_dig_is. destruct (is_dig c) eqn:E.
  - destruct IH as (ds & Hd & Et). exists (c :: ds). split; [unfold digs; cbn [forallb]; rewrite E; exact Hd|cbn [app]; f_equal; exact Et].
  - exists []. split; reflexivity.
Qed.

Lemma rfc_digits1_split : forall r r', rfc_digits1 r = Some r' -> exists ds, digs ds /\ ds <> [] /\ r = ds ++ r'.
Proof.
  intros r r' H. destruct r as [|c t]; [discriminate|]. cbn [rfc_digits1] in H. rewrite rfc_dig_is in H.
  destruct (is_dig c) eqn:E; [|discriminate]. inversion H; subst r'.
  destruct (rfc_digits_split t) as (ds & Hd & Et). exists (c :: ds). split; [unfold digs; cbn [forallb]; rewrite E; exact Hd|].
  split; [discriminate|cbn [app]; f_equal; exact Et].
Qed.

Definition exp_stage (r3 : list N) : option (list N) :=
  match r3 with
  | c3 :: t3 =>
    if (c3 =? 101) || (c3 =? 69) then
      match t3 with
      | s :: t4 => if (s =? 43) || (s =? 45) then rfc_digits1 t4 else rfc_digits1 t3
      | [] => None
      end
    else Some r3
  | [] => Some r3
  end.

Lemma exp_stage_whole : forall r3, exp_stage r3 = Some [] -> ExpPart r3.
Proof.
  intros r3 H. destruct r3 as [|c3 t3]; [constructor|]. cbn [exp_stage] in H.
  destruct ((c3 =? 101) || (c3 =? 69)) eqn:Ee; [|discriminate].
  assert (He : c3 = dc_e \/ c3 = dc_ue).
  { apply orb_true_iff in Ee. destruct Ee as [E|E]; apply N.eqb_eq in E; [left|right]; exact E. }
  destruct t3 as [|s t4]; [discriminate|].
  destruct ((s =? 43) || (s =? 45)) eqn:Es.
  - destruct (rfc_digits1_split _ _ H) as (xs & Hx & Hne & Et). rewrite app_nil_r in Et. subst t4.
    change (s :: xs) with ([s] ++ xs). constructor; try assumption.
    apply orb_true_iff in Es. destruct Es as [E|E]; apply N.eqb_eq in E; subst s; [right; left|right; right]; reflexivity.
  - destruct (rfc_digits1_split _ _ H) as (xs & Hx & Hne & Et). rewrite app_nil_r in Et.
    change (c3 :: s :: t4) with (c3 :: [] ++ s :: t4). rewrite Et. constructor; try assumption. left. reflexivity.
Qed.

Definition rfc_unsigned (r1 : list N) : option (list N) :=
  match r1 with
  | c :: t =>
    let ip := if c =? 48 then Some t else if rfc_dig c then Some (rfc_digits t) else None in
    match ip with
    | None => None
    | Some r2 =>
      let fp := match r2 with
                | c2 :: t2 => if c2 =? 46 then rfc_digits1 t2 else Some r2
                | [] => Some r2
                end in
      match fp with
      | None => None
      | Some r3 => exp_stage r3
      end
    end
  | [] => None
  end.

Lemma rfc_number_unsigned : forall r,
  rfc_number r = rfc_unsigned (match r with c :: t => if c =? 45 then t else r | [] => r end).
Proof. reflexivity. Qed.

Lemma not_digs_mid : forall ds x l, is_dig x = false -> ~ digs (ds ++ x :: l).
Proof.
  intros ds x l Hx H. unfold digs in H. rewrite forallb_app in H. apply andb_true_iff in H. destruct H as [_ H].
  cbn [forallb] in H. rewrite Hx in H. discriminate.
Qed.

Lemma exp_part_head : forall c t, ExpPart (c :: t) -> is_dig c = false.
Proof. intros c t H. destruct (exp_head (c :: t) c t H eq_refl) as (H1 & _). exact H1. Qed.

Lemma unsigned_forms : forall r1, rfc_unsigned r1 = Some [] ->
  digits_wf r1 = true \/ exists d rem, r1 = d :: rem /\ is_dig d = true /\ Shape false rem /\ ~ digs rem.
Proof.
  intros r1 H. destruct r1 as [|c t]; [discriminate|]. cbn [rfc_unsigned] in H.
  assert (Hip : forall r2, (if c =? 48 then Some t else if rfc_dig c then Some (rfc_digits t) else None) = Some r2 ->
            is_dig c = true /\ exists ds, digs ds /\ t = ds ++ r2 /\ (c = 48 -> ds = [])).
  { intros r2 E. destruct (c =? 48) eqn:E0.
    - apply N.eqb_eq in E0. subst c. inversion E; subst r2. split; [reflexivity|]. exists []. repeat split.
    - rewrite rfc_dig_is in E. destruct (is_dig c) eqn:Ed; [|discriminate]. inversion E; subst r2. split; [reflexivity|].
      destruct (rfc_digits_split t) as (ds & Hd & Et). exists ds. repeat split; try assumption.
      intros ->. discriminate. }
  destruct (if c =? 48 then Some t else if rfc_dig c then Some (rfc_digits t) else None) as [r2|]; [|discriminate].
  destruct (Hip r2 eq_refl) as (Hc & ds & Hds & Et & Hz). clear Hip. cbn zeta in H.
  destruct r2 as [|c2 t2].
  - (* digits only *)
    left. rewrite app_nil_r in Et. subst t. unfold digits_wf. cbn [forallb]. rewrite Hc. cbn [andb].
    change (forallb is_dig ds) with (forallb is_dig ds). rewrite Hds. cbn [andb].
    destruct ds as [|x xs]; [reflexivity|]. destruct (c =? dc_zero) eqn:E0; [|reflexivity].
    apply N.eqb_eq in E0. specialize (Hz E0). discriminate.
  - right. exists c, t. split; [reflexivity|]. split; [exact Hc|].
    destruct (c2 =? 46) eqn:Edot.
    + apply N.eqb_eq in Edot. subst c2.
      destruct (rfc_digits1 t2) as [r3|] eqn:Efp; [|discriminate].
      destruct (rfc_digits1_split _ _ Efp) as (fs & Hfs & _ & Et2). subst t2.
      pose proof (exp_stage_whole r3 H) as Hep. subst t. split.
      * exists ds, r3. split; [exact Hds|]. split; [exact Hep|]. right. split; [reflexivity|]. exists fs. split; [exact Hfs|reflexivity].
      * apply not_digs_mid. reflexivity.
    + pose proof (exp_stage_whole (c2 :: t2) H) as Hep. subst t. split.
      * exists ds, (c2 :: t2). split; [exact Hds|]. split; [exact Hep|]. left. reflexivity.
      * apply not_digs_mid. apply (exp_part_head c2 t2 Hep).
Qed.

Theorem rfc_number_forms : forall txt, rfc_numb txt = true ->
  (exists ds, digits_wf ds = true /\ (txt = ds \/ txt = dc_neg :: ds)) \/ RfcFrac txt.
Proof.
  intros txt H. unfold rfc_numb in H. rewrite rfc_number_unsigned in H.
  destruct txt as [|c0 t0]; [discriminate|].
  destruct (c0 =? 45) eqn:E45.
  - apply N.eqb_eq in E45. subst c0.
    destruct (rfc_unsigned t0) as [[|x r]|] eqn:E; try discriminate.
    destruct (unsigned_forms t0 E) as [Hw|(d & rem & -> & Hd & Hs & Hn)].
    + left. exists t0. split; [exact Hw|right; reflexivity].
    + right. exists [dc_neg], d, rem. split; [right; reflexivity|]. repeat split; assumption.
  - destruct (rfc_unsigned (c0 :: t0)) as [[|x r]|] eqn:E; try discriminate.
    destruct (unsigned_forms _ E) as [Hw|(d & rem & Er & Hd & Hs & Hn)].
    + left. exists (c0 :: t0). split; [exact Hw|left; reflexivity].
    + right. rewrite Er. exists [], d, rem. split; [left; reflexivity|]. repeat split; assumption.
Qed.

(* every RFC number: an unsigned integer read exactly, a negative integer read exactly, or a real text *)
Theorem rfc_number_classified : forall txt, rfc_numb txt = true ->
  (exists ds, digits_wf ds = true /\ txt = ds /\ dval ds < 18446744073709551616) \/
  (exists ds, digits_wf ds = true /\ txt = dc_neg :: ds /\ 0 < dval ds /\ dval ds <= int_min_abs) \/
  RfcRealText txt.
Proof.
  intros txt H. destruct (rfc_number_forms txt H) as [(ds & Hw & [->| ->])|Hf].
  - destruct (N.lt_ge_cases (dval ds) 18446744073709551616) as [Hl|Hg].
    + left. exists ds. auto.
    + right. right. right. exists ds. split; [exact Hw|]. left. auto.
  - destruct (N.eq_dec (dval ds) 0) as [E0|E0].
    + right. right. right. exists ds. split; [exact Hw|]. right. auto.
    + destruct (N.le_gt_cases (dval ds) int_min_abs) as [Hl|Hg].
      * right. left. exists ds. repeat split; try assumption. lia.
      * right. right. right. exists ds. split; [exact Hw|]. right. auto.
  - right. right. left. exact Hf.
Qed.

(* hence, for a text the RFC recogniser accepts, with what may follow a number in a document: the scanner gives the
   exact integer, or Real with everything consumed, or NaN -- and NaN only for a real text out of range *)
Theorem rfc_number_scanned : forall txt rest, rfc_numb txt = true -> num_follow rest = true ->
  (exists n, scan_number (txt ++ rest) = JOk (NumNat n rest)) \/
  (exists z, scan_number (txt ++ rest) = JOk (NumInt z rest)) \/
  (RfcRealText txt /\ real_in_range txt = true /\ scan_number (txt ++ rest) = JOk (NumReal rest)) \/
  (RfcRealText txt /\ real_in_range txt = false /\ scan_number (txt ++ rest) = JOk NumNaN).
Proof.
  intros txt rest H Hf.
  destruct (rfc_number_classified txt H) as [(ds & Hw & -> & Hl)|[(ds & Hw & -> & H0 & Hl)|Hr]].
  - left. eexists. apply nat_ok; assumption.
  - right. left. eexists. change ((dc_neg :: ds) ++ rest) with (dc_neg :: ds ++ rest). apply neg_ok; assumption.
  - right. right. destruct (rfc_realtext_real txt Hr) as [E|E].
    + left. split; [exact Hr|]. split; [unfold real_in_range; rewrite E; reflexivity|].
      rewrite (scan_number_ext txt rest _ Hf E). reflexivity.
    + right. split; [exact Hr|]. split; [unfold real_in_range; rewrite E; reflexivity|].
      rewrite (scan_number_ext txt rest _ Hf E). reflexivity.
Qed.

(* the C08 leaf guard (vleafb = taken whole as a Real, and accepted by the RFC recogniser) in grammar terms *)
Theorem vleafb_iff : forall txt,
  vleafb txt = true <-> rfc_numb txt = true /\ RfcRealText txt /\ real_in_range txt = true.
Proof.
  intros txt. unfold vleafb. rewrite andb_true_iff. split.
  - intros [Hw Hn]. split; [exact Hn|].
    assert (Hs : scan_number txt = JOk (NumReal [])).
    { unfold real_wholeb in Hw. destruct (scan_number txt) as [[| | |[|]]|]; try discriminate. reflexivity. }
    assert (Hr : real_in_range txt = true) by (unfold real_in_range; rewrite Hs; reflexivity).
    destruct (rfc_number_scanned txt [] Hn eq_refl) as [(n & E)|[(z & E)|[(H1 & _)|(_ & H2 & _)]]];
      rewrite ?app_nil_r in *; try congruence; auto.
  - intros (Hn & Hr & Hi). split; [apply realtext_leaf_ok; assumption|exact Hn].
Qed.
