(* EscapeProofs.v -- lemmas about EscapeModel.v (C03). *)
From Coq Require Import NArith PeanoNat List Bool Lia.
From Qv Require Import gen.Tables EscapeModel.
Import ListNotations.
Local Open Scope N_scope.

(* ---- table obligations: re-checked against the headers on every run ---- *)
Lemma tables_c8 :
  html_amp_c8 = std_amp /\ html_lt_c8 = std_lt /\ html_gt_c8 = std_gt /\
  html_quot_c8 = std_quot /\ html_apos_c8 = std_apos /\
  html_amp_len_c8 = 5 /\ html_lt_len_c8 = 4 /\ html_gt_len_c8 = 4 /\
  html_quot_len_c8 = 6 /\ html_apos_len_c8 = 6 /\ html_semicolon_c8 = 59.
Proof. repeat split; reflexivity. Qed.
Lemma tables_c16 :
  html_amp_c16 = std_amp /\ html_lt_c16 = std_lt /\ html_gt_c16 = std_gt /\
  html_quot_c16 = std_quot /\ html_apos_c16 = std_apos /\
  html_amp_len_c16 = 5 /\ html_lt_len_c16 = 4 /\ html_gt_len_c16 = 4 /\
  html_quot_len_c16 = 6 /\ html_apos_len_c16 = 6 /\ html_semicolon_c16 = 59.
Proof. repeat split; reflexivity. Qed.
Lemma tables_c32 :
  html_amp_c32 = std_amp /\ html_lt_c32 = std_lt /\ html_gt_c32 = std_gt /\
  html_quot_c32 = std_quot /\ html_apos_c32 = std_apos /\
  html_amp_len_c32 = 5 /\ html_lt_len_c32 = 4 /\ html_gt_len_c32 = 4 /\
  html_quot_len_c32 = 6 /\ html_apos_len_c32 = 6 /\ html_semicolon_c32 = 59.
Proof. repeat split; reflexivity. Qed.
Lemma tables_wc :
  html_amp_wc = std_amp /\ html_lt_wc = std_lt /\ html_gt_wc = std_gt /\
  html_quot_wc = std_quot /\ html_apos_wc = std_apos /\
  html_amp_len_wc = 5 /\ html_lt_len_wc = 4 /\ html_gt_len_wc = 4 /\
  html_quot_len_wc = 6 /\ html_apos_len_wc = 6 /\ html_semicolon_wc = 59.
Proof. repeat split; reflexivity. Qed.

(* the escaper with the standard entity strings *)
Definition escape_std : list N -> list N :=
  escape_on std_amp std_lt std_gt std_quot std_apos 5 4 4 6 6 59.

Lemma escape_w_std : forall w s, escape_w w s = escape_std s.
Proof.
  intros w s. unfold escape_w, escape_c8, escape_c16, escape_c32, escape_wc, escape_std.
  destruct tables_c8 as (-> & -> & -> & -> & -> & -> & -> & -> & -> & -> & ->).
  destruct tables_c16 as (-> & -> & -> & -> & -> & -> & -> & -> & -> & -> & ->).
  destruct tables_c32 as (-> & -> & -> & -> & -> & -> & -> & -> & -> & -> & ->).
  destruct tables_wc as (-> & -> & -> & -> & -> & -> & -> & -> & -> & -> & ->).
  destruct w as [|p]; [reflexivity|]. destruct p as [p|p|]; try reflexivity; destruct p; reflexivity.
Qed.

(* ------------------------------------------------------------------ *)
(* generic helpers *)

Lemma list_eqb_eq : forall a b, list_eqb a b = true <-> a = b.
Proof.
  induction a as [|x a IHa]; intros b; destruct b as [|y b]; cbn [list_eqb].
  - split; reflexivity.
  - split; intros H; discriminate H.
  - split; intros H; discriminate H.
  - rewrite andb_true_iff, N.eqb_eq, IHa. split.
    + intros [Hx Ha]. subst. reflexivity.
    + intros H. injection H as Hx Ha. split; assumption.
Qed.

Lemma is_prefix_split : forall p s, is_prefix p s = true -> s = p ++ skipn (length p) s.
Proof.
  intros p s H. unfold is_prefix in H. apply list_eqb_eq in H.
  rewrite <- H at 1. symmetry. apply firstn_skipn.
Qed.

(* the implementation's look-ahead test is a prefix test *)
Lemma lookahead_prefix : forall p c s,
  nth_is s (length p) c && list_eqb (firstn (length p) s) p = is_prefix (p ++ [c]) s.
Proof.
  unfold is_prefix, nth_is.
  induction p as [|a p IHp]; intros c s.
  - destruct s as [|x s]; [reflexivity|]. cbn.
    rewrite andb_true_r. destruct s; reflexivity.
  - destruct s as [|x s]; [reflexivity|].
    cbn [length app firstn nth_error list_eqb]. rewrite <- IHp.
    destruct (N.eqb x a); [reflexivity|]. cbn [andb]. apply andb_false_r.
Qed.

Definition ents : list (list N) := map fst std_entities.

Definition noent (s : list N) : Prop :=
  is_prefix std_amp s = false /\ is_prefix std_lt s = false /\ is_prefix std_gt s = false /\
  is_prefix std_quot s = false /\ is_prefix std_apos s = false.

Ltac destruct_ent H :=
  cbn [ents std_entities map fst In] in H;
  destruct H as [H|[H|[H|[H|[H|H]]]]]; [subst; clear H ..|destruct H].

Lemma ent_cases : forall s,
  (exists e r, In e ents /\ s = e ++ r) \/ noent s.
Proof.
  intros s.
  destruct (is_prefix std_amp s) eqn:H1.
  { left. exists std_amp, (skipn (length std_amp) s). split; [cbn; tauto|apply is_prefix_split, H1]. }
  destruct (is_prefix std_lt s) eqn:H2.
  { left. exists std_lt, (skipn (length std_lt) s). split; [cbn; tauto|apply is_prefix_split, H2]. }
  destruct (is_prefix std_gt s) eqn:H3.
  { left. exists std_gt, (skipn (length std_gt) s). split; [cbn; tauto|apply is_prefix_split, H3]. }
  destruct (is_prefix std_quot s) eqn:H4.
  { left. exists std_quot, (skipn (length std_quot) s). split; [cbn; tauto|apply is_prefix_split, H4]. }
  destruct (is_prefix std_apos s) eqn:H5.
  { left. exists std_apos, (skipn (length std_apos) s). split; [cbn; tauto|apply is_prefix_split, H5]. }
  right. repeat split; assumption.
Qed.

Lemma ent_head : forall e, In e ents -> exists e', e = 38 :: e'.
Proof. intros e H. destruct_ent H; eexists; reflexivity. Qed.

Lemma ent_length : forall e, In e ents -> (0 < length e)%nat.
Proof. intros e H. destruct_ent H; cbn; lia. Qed.

Lemma ent_chars : forall e, In e ents -> forall c, In c e -> special c = false.
Proof.
  intros e H c Hc.
  destruct_ent H; cbn in Hc; repeat (destruct Hc as [Hc|Hc]; [subst c; reflexivity|]); destruct Hc.
Qed.

Lemma ent_amp_pos : forall e, In e ents -> forall i, nth_error e i = Some ch_amp -> i = O.
Proof.
  intros e H i Hi.
  destruct_ent H; destruct i as [|[|[|[|[|[|[|i]]]]]]]; cbn in Hi;
    first [reflexivity|discriminate Hi].
Qed.

Lemma is_prefix_ne : forall e c t, In e ents -> c <> 38 -> is_prefix e (c :: t) = false.
Proof.
  intros e c t H Hc. apply N.eqb_neq in Hc.
  destruct_ent H; unfold is_prefix; cbn [length std_amp std_lt std_gt std_quot std_apos firstn list_eqb];
    rewrite Hc; reflexivity.
Qed.

Lemma noent_ne : forall c t, c <> 38 -> noent (c :: t).
Proof.
  intros c t Hc. unfold noent. repeat split; apply is_prefix_ne; try assumption; cbn; tauto.
Qed.

Lemma special_false : forall c, special c = false ->
  N.eqb c ch_lt = false /\ N.eqb c ch_gt = false /\ N.eqb c ch_quot = false /\ N.eqb c ch_apos = false.
Proof.
  intros c H. unfold special in H.
  apply orb_false_elim in H. destruct H as [H H4].
  apply orb_false_elim in H. destruct H as [H H3].
  apply orb_false_elim in H. destruct H as [H1 H2]. tauto.
Qed.

(* ------------------------------------------------------------------ *)
(* one step of the escaper *)

Notation E := (esc std_amp std_lt std_gt std_quot std_apos 5 4 4 6 6 59).

Lemma escape_std_E : forall s, escape_std s = E 0%nat s.
Proof. reflexivity. Qed.

Lemma la_quot : forall s, nth_is s 5 59 && pfx_eq 5 s std_quot = is_prefix std_quot s.
Proof. intros s. exact (lookahead_prefix [38; 113; 117; 111; 116] 59 s). Qed.
Lemma la_apos : forall s, nth_is s 5 59 && pfx_eq 5 s std_apos = is_prefix std_apos s.
Proof. intros s. exact (lookahead_prefix [38; 97; 112; 111; 115] 59 s). Qed.
Lemma la_amp : forall s, nth_is s 4 59 && pfx_eq 4 s std_amp = is_prefix std_amp s.
Proof. intros s. exact (lookahead_prefix [38; 97; 109; 112] 59 s). Qed.
Lemma la_lt : forall s, nth_is s 3 59 && pfx_eq 3 s std_lt = is_prefix std_lt s.
Proof. intros s. exact (lookahead_prefix [38; 108; 116] 59 s). Qed.
Lemma la_gt : forall s, nth_is s 3 59 && pfx_eq 3 s std_gt = is_prefix std_gt s.
Proof. intros s. exact (lookahead_prefix [38; 103; 116] 59 s). Qed.

Lemma esc_amp_unfold : forall t,
  E 0%nat (38 :: t) =
    if is_prefix std_quot (38 :: t) || is_prefix std_apos (38 :: t) then 38 :: E 5%nat t
    else if is_prefix std_amp (38 :: t) then 38 :: E 4%nat t
    else if is_prefix std_lt (38 :: t) || is_prefix std_gt (38 :: t) then 38 :: E 3%nat t
    else std_amp ++ E 0%nat t.
Proof.
  intros t.
  rewrite <- la_quot, <- la_apos, <- la_amp, <- la_lt, <- la_gt.
  rewrite <- !andb_orb_distrib_r.
  reflexivity.
Qed.

Lemma esc_ent : forall e r, In e ents -> E 0%nat (e ++ r) = e ++ E 0%nat r.
Proof.
  intros e r H.
  destruct_ent H; cbn [std_amp std_lt std_gt std_quot std_apos app];
    rewrite esc_amp_unfold; reflexivity.
Qed.

Lemma esc_amp_noent : forall t, noent (38 :: t) -> E 0%nat (38 :: t) = std_amp ++ E 0%nat t.
Proof.
  intros t (H1 & H2 & H3 & H4 & H5).
  rewrite esc_amp_unfold, H1, H2, H3, H4, H5. reflexivity.
Qed.

Lemma esc_lt : forall t, E 0%nat (60 :: t) = std_lt ++ E 0%nat t.
Proof. reflexivity. Qed.
Lemma esc_gt : forall t, E 0%nat (62 :: t) = std_gt ++ E 0%nat t.
Proof. reflexivity. Qed.
Lemma esc_quot : forall t, E 0%nat (34 :: t) = std_quot ++ E 0%nat t.
Proof. reflexivity. Qed.
Lemma esc_apos : forall t, E 0%nat (39 :: t) = std_apos ++ E 0%nat t.
Proof. reflexivity. Qed.

Lemma esc_plain : forall c t, c <> 38 -> special c = false -> E 0%nat (c :: t) = c :: E 0%nat t.
Proof.
  intros c t Hc Hs. apply N.eqb_neq in Hc.
  destruct (special_false c Hs) as (H1 & H2 & H3 & H4).
  cbn [esc]. unfold ch_amp. rewrite Hc, H1, H2, H3, H4. reflexivity.
Qed.

(* the shape of one step, for an arbitrary non-empty input *)
Inductive step_shape : list N -> Prop :=
| SS_ent e r : In e ents -> E 0%nat (e ++ r) = e ++ E 0%nat r -> step_shape (e ++ r)
| SS_amp t : noent (38 :: t) -> E 0%nat (38 :: t) = std_amp ++ E 0%nat t -> step_shape (38 :: t)
| SS_spec c e t : In (e, c) [(std_lt, 60); (std_gt, 62); (std_quot, 34); (std_apos, 39)] ->
    E 0%nat (c :: t) = e ++ E 0%nat t -> step_shape (c :: t)
| SS_plain c t : c <> 38 -> special c = false -> E 0%nat (c :: t) = c :: E 0%nat t -> step_shape (c :: t).

Lemma step_cases : forall c t, step_shape (c :: t).
Proof.
  intros c t.
  destruct (N.eqb_spec c 38) as [Hc|Hc].
  - subst c. destruct (ent_cases (38 :: t)) as [(e & r & He & Hs)|Hn].
    + rewrite Hs. apply SS_ent; [exact He|apply esc_ent, He].
    + apply SS_amp; [exact Hn|apply esc_amp_noent, Hn].
  - destruct (N.eqb_spec c 60) as [H1|H1].
    { subst c. apply (SS_spec 60 std_lt); [cbn; tauto|apply esc_lt]. }
    destruct (N.eqb_spec c 62) as [H2|H2].
    { subst c. apply (SS_spec 62 std_gt); [cbn; tauto|apply esc_gt]. }
    destruct (N.eqb_spec c 34) as [H3|H3].
    { subst c. apply (SS_spec 34 std_quot); [cbn; tauto|apply esc_quot]. }
    destruct (N.eqb_spec c 39) as [H4|H4].
    { subst c. apply (SS_spec 39 std_apos); [cbn; tauto|apply esc_apos]. }
    assert (Hs : special c = false).
    { unfold special, ch_lt, ch_gt, ch_quot, ch_apos.
      apply N.eqb_neq in H1, H2, H3, H4. rewrite H1, H2, H3, H4. reflexivity. }
    apply SS_plain; [exact Hc|exact Hs|apply esc_plain; assumption].
Qed.

Lemma ent_app_length : forall e r (s : list N), In e ents -> s = e ++ r -> (length r < length s)%nat.
Proof.
  intros e r s He Hs. subst s. rewrite app_length. pose proof (ent_length e He). lia.
Qed.

(* strong induction on the length of the input *)
Lemma length_ind : forall (P : list N -> Prop),
  (forall s, (forall r, (length r < length s)%nat -> P r) -> P s) -> forall s, P s.
Proof.
  intros P H s.
  assert (Hn : forall n r, (length r < n)%nat -> P r).
  { induction n as [|n IHn]; intros r Hr; [lia|].
    apply H. intros r' Hr'. apply IHn. lia. }
  apply (Hn (S (length s))). lia.
Qed.

(* ------------------------------------------------------------------ *)
(* Safe *)

Lemma Safe_std_amp : forall t, Safe t -> Safe (std_amp ++ t).
Proof. intros t H. apply Safe_ent; [cbn; tauto|exact H]. Qed.

Lemma Safe_E : forall s, Safe (E 0%nat s).
Proof.
  induction s as [s IH] using length_ind.
  destruct s as [|c t]; [apply Safe_nil|].
  destruct (step_cases c t) as [e r He Hs|t' Hn Hs|c' e t' He Hs|c' t' Hc Hsp Hs]; rewrite Hs.
  - apply Safe_ent; [exact He|]. apply IH. apply (ent_app_length e r _ He eq_refl).
  - apply Safe_std_amp. apply IH. cbn; lia.
  - apply Safe_ent.
    + cbn in He. destruct He as [He|[He|[He|[He|[]]]]]; injection He as <- <-; cbn; tauto.
    + apply IH. cbn; lia.
  - apply Safe_plain; [exact Hsp|exact Hc|]. apply IH. cbn; lia.
Qed.

Theorem escape_safe : forall w s, Safe (escape_w w s).
Proof. intros w s. rewrite escape_w_std. apply Safe_E. Qed.

Theorem safe_no_special : forall t, Safe t -> forall c, In c t -> special c = false.
Proof.
  intros t H. induction H as [|c t Hs Hc Ht IH|e t He Ht IH]; intros c0 Hin.
  - destruct Hin.
  - destruct Hin as [Hin|Hin]; [subst c0; exact Hs|apply IH, Hin].
  - apply in_app_or in Hin. destruct Hin as [Hin|Hin].
    + apply (ent_chars e He c0 Hin).
    + apply IH, Hin.
Qed.

Theorem safe_amp_entity : forall t, Safe t -> forall i, nth_error t i = Some ch_amp ->
  exists e, In e (map fst std_entities) /\ firstn (length e) (skipn i t) = e.
Proof.
  intros t H. induction H as [|c t Hs Hc Ht IH|e t He Ht IH]; intros i Hi.
  - destruct i; discriminate Hi.
  - destruct i as [|i].
    + cbn in Hi. injection Hi as Hi. contradiction.
    + cbn [nth_error] in Hi. cbn [skipn]. apply IH, Hi.
  - destruct (Nat.lt_ge_cases i (length e)) as [Hlt|Hge].
    + rewrite nth_error_app1 in Hi by exact Hlt.
      apply (ent_amp_pos e He) in Hi. subst i. exists e. split; [exact He|].
      cbn [skipn]. rewrite firstn_app, firstn_all, Nat.sub_diag. cbn [firstn]. apply app_nil_r.
    + rewrite nth_error_app2 in Hi by exact Hge.
      destruct (IH _ Hi) as (e' & He' & Hf). exists e'. split; [exact He'|].
      rewrite skipn_app, (skipn_all2 e Hge). exact Hf.
Qed.

(* ------------------------------------------------------------------ *)
(* decoder *)

Lemma dec_ent_cong : forall e r1 r2, In e ents -> dec 0 r1 = dec 0 r2 -> dec 0 (e ++ r1) = dec 0 (e ++ r2).
Proof.
  intros e r1 r2 H Hr.
  destruct_ent H.
  - change (ch_amp :: dec 0 r1 = ch_amp :: dec 0 r2). rewrite Hr. reflexivity.
  - change (ch_lt :: dec 0 r1 = ch_lt :: dec 0 r2). rewrite Hr. reflexivity.
  - change (ch_gt :: dec 0 r1 = ch_gt :: dec 0 r2). rewrite Hr. reflexivity.
  - change (ch_quot :: dec 0 r1 = ch_quot :: dec 0 r2). rewrite Hr. reflexivity.
  - change (ch_apos :: dec 0 r1 = ch_apos :: dec 0 r2). rewrite Hr. reflexivity.
Qed.

Lemma dec_noent : forall c t, noent (c :: t) -> dec 0 (c :: t) = c :: dec 0 t.
Proof.
  intros c t (H1 & H2 & H3 & H4 & H5). cbn [dec]. rewrite H1, H2, H3, H4, H5. reflexivity.
Qed.

Lemma dec_std_amp : forall r, dec 0 (std_amp ++ r) = 38 :: dec 0 r.
Proof. reflexivity. Qed.
Lemma dec_std_lt : forall r, dec 0 (std_lt ++ r) = 60 :: dec 0 r.
Proof. reflexivity. Qed.
Lemma dec_std_gt : forall r, dec 0 (std_gt ++ r) = 62 :: dec 0 r.
Proof. reflexivity. Qed.
Lemma dec_std_quot : forall r, dec 0 (std_quot ++ r) = 34 :: dec 0 r.
Proof. reflexivity. Qed.
Lemma dec_std_apos : forall r, dec 0 (std_apos ++ r) = 39 :: dec 0 r.
Proof. reflexivity. Qed.

Lemma dec_E : forall s, dec 0 (E 0%nat s) = dec 0 s.
Proof.
  induction s as [s IH] using length_ind.
  destruct s as [|c t]; [reflexivity|].
  destruct (step_cases c t) as [e r He Hs|t' Hn Hs|c' e t' He Hs|c' t' Hc Hsp Hs]; rewrite Hs.
  - apply dec_ent_cong; [exact He|]. apply IH. apply (ent_app_length e r _ He eq_refl).
  - rewrite dec_std_amp, (dec_noent _ _ Hn). f_equal. apply IH. cbn; lia.
  - assert (IHt : dec 0 (E 0%nat t') = dec 0 t') by (apply IH; cbn; lia).
    cbn in He. destruct He as [He|[He|[He|[He|[]]]]]; injection He as <- <-.
    + rewrite dec_std_lt, dec_noent by (apply noent_ne; discriminate). rewrite IHt. reflexivity.
    + rewrite dec_std_gt, dec_noent by (apply noent_ne; discriminate). rewrite IHt. reflexivity.
    + rewrite dec_std_quot, dec_noent by (apply noent_ne; discriminate). rewrite IHt. reflexivity.
    + rewrite dec_std_apos, dec_noent by (apply noent_ne; discriminate). rewrite IHt. reflexivity.
  - rewrite !dec_noent by (apply noent_ne; exact Hc). f_equal. apply IH. cbn; lia.
Qed.

Theorem decode_escape : forall w s, decode (escape_w w s) = decode s.
Proof. intros w s. rewrite escape_w_std. apply dec_E. Qed.

(* ------------------------------------------------------------------ *)
(* idempotence *)

Lemma Safe_fix : forall t, Safe t -> E 0%nat t = t.
Proof.
  intros t H. induction H as [|c t Hs Hc Ht IH|e t He Ht IH].
  - reflexivity.
  - rewrite esc_plain by assumption. rewrite IH. reflexivity.
  - rewrite esc_ent by exact He. rewrite IH. reflexivity.
Qed.

Theorem escape_idem : forall w s, escape_w w (escape_w w s) = escape_w w s.
Proof.
  intros w s. rewrite !escape_w_std. rewrite !escape_std_E. apply Safe_fix, Safe_E.
Qed.

(* ------------------------------------------------------------------ *)
(* the boolean oracle decides Safe *)

Lemma safeb_ent : forall e r, In e ents -> safeb 0 (e ++ r) = safeb 0 r.
Proof. intros e r H. destruct_ent H; reflexivity. Qed.

Lemma safeb_amp_noent : forall t, noent (38 :: t) -> safeb 0 (38 :: t) = false.
Proof.
  intros t (H1 & H2 & H3 & H4 & H5). cbn [safeb]. rewrite H1, H2, H3, H4, H5. reflexivity.
Qed.

Lemma safeb_ne : forall c t, c <> 38 -> safeb 0 (c :: t) = if special c then false else safeb 0 t.
Proof.
  intros c t Hc. apply N.eqb_neq in Hc. cbn [safeb]. unfold ch_amp. rewrite Hc. reflexivity.
Qed.

Theorem safeb_spec : forall t, safeb 0 t = true <-> Safe t.
Proof.
  intros t. split.
  - induction t as [t IH] using length_ind. intros H.
    destruct t as [|c t']; [apply Safe_nil|].
    destruct (N.eqb_spec c 38) as [Hc|Hc].
    + subst c. destruct (ent_cases (38 :: t')) as [(e & r & He & Hs)|Hn].
      * rewrite Hs in H |- *. rewrite safeb_ent in H by exact He.
        apply Safe_ent; [exact He|]. apply IH; [|exact H].
        apply (ent_app_length e r _ He Hs).
      * rewrite safeb_amp_noent in H by exact Hn. discriminate H.
    + rewrite safeb_ne in H by exact Hc.
      destruct (special c) eqn:Hs; [discriminate H|].
      apply Safe_plain; [exact Hs|exact Hc|]. apply IH; [cbn; lia|exact H].
  - intros H. induction H as [|c t Hs Hc Ht IH|e t He Ht IH].
    + reflexivity.
    + rewrite safeb_ne by exact Hc. rewrite Hs. exact IH.
    + rewrite safeb_ent by exact He. exact IH.
Qed.

(* ------------------------------------------------------------------ *)
(* {var:} / {raw:} *)

Theorem var_text_on : cfg_auto_escape_html = true -> forall w s, var_text w s = escape_w w s.
Proof. intros H w s. unfold var_text. rewrite H. reflexivity. Qed.

Theorem var_text_off : cfg_auto_escape_html = false -> forall w s, var_text w s = raw_text s.
Proof. intros H w s. unfold var_text. rewrite H. reflexivity. Qed.

Theorem raw_verbatim : forall s, raw_text s = s.
Proof. reflexivity. Qed.
