(* TparseTree.v -- the offset discipline of the parsed tree (TparseModel.tree_ok):
   basic facts about [wf_tags] and the proof that the parser establishes it for
   every text in which the Finder reports no "{svar:" and no "{if" token
   ([tree_ok_no_inline]).  For texts with super variables / inline ifs the
   property is checked by the correspondence run (tree_okb on every generated
   text), not proved here. *)
From Coq Require Import NArith ZArith List Bool Arith Lia ZifyBool ZifyNat ZifyN.
From Qv Require Import gen.Tables_tmpl gen.Tables_expr gen.Tables_tparse FinderModel FinderProofs TparseModel TparseFinder TparseProofs TparseSafety.
Import ListNotations.
Ltac Zify.zify_post_hook ::= Z.div_mod_to_equations.

Lemma wf_tag_le : forall t, wf_tag t -> tstart t <= tend t.
Proof.
  intros t H. destruct t as [v|v|o e ex|o e v sb|i c sb|l sb|o e cs]; cbn [wf_tag tstart tend] in *;
    unfold tpp_VariablePrefixLength, tpp_InLineSuffixLength, tpp_LoopSuffixLength in *; try lia;
    destruct H as [H _]; lia.
Qed.

Lemma wf_tags_le : forall l lo hi, wf_tags lo hi l -> lo <= hi.
Proof.
  intros l; induction l as [|x r IH]; intros lo hi H; [exact H|].
  cbn [wf_tags] in H. destruct H as (H1 & H2 & H3). apply wf_tag_le in H2. apply IH in H3. lia.
Qed.

Lemma wf_tags_mono : forall l lo hi hi', wf_tags lo hi l -> hi <= hi' -> wf_tags lo hi' l.
Proof.
  intros l; induction l as [|x r IH]; intros lo hi hi' H Hh; cbn [wf_tags] in *; [lia|].
  destruct H as (H1 & H2 & H3). split; [exact H1|split; [exact H2|eapply IH; eassumption]].
Qed.

Lemma wf_tags_lo : forall l lo lo' hi, wf_tags lo hi l -> lo' <= lo -> wf_tags lo' hi l.
Proof.
  intros l lo lo' hi H Hl. destruct l as [|x r]; cbn [wf_tags] in *; [lia|].
  destruct H as (H1 & H2 & H3). split; [lia|split; assumption].
Qed.

Lemma wf_tags_snoc : forall l lo t hi, wf_tags lo (tstart t) l -> wf_tag t -> tend t <= hi -> wf_tags lo hi (l ++ [t]).
Proof.
  intros l; induction l as [|x r IH]; intros lo t hi H Ht He; cbn [wf_tags app] in *.
  - split; [exact H|split; [exact Ht|exact He]].
  - destruct H as (H1 & H2 & H3). split; [exact H1|split; [exact H2|apply IH; assumption]].
Qed.

Lemma wf_cases_snoc : forall cs e' lo co ce cc sb,
  wf_cases co lo cs -> wf_tags co ce sb -> ce <= e' -> wf_cases e' lo (cs ++ [PCase co ce cc sb]).
Proof.
  intros cs; induction cs as [|[co0 ce0 cc0 sb0] r IH]; intros e' lo co ce cc sb H Hs He; cbn [wf_cases app] in *.
  - split; [exact H|split; [exact Hs|exact He]].
  - destruct H as (H1 & H2 & H3). split; [exact H1|split; [exact H2|eapply IH; eassumption]].
Qed.

Lemma wf_cases_le : forall cs e lo, wf_cases e lo cs -> lo <= e.
Proof.
  intros cs; induction cs as [|[co ce cc sb] r IH]; intros e lo H; cbn [wf_cases] in H; [exact H|].
  destruct H as (H1 & H2 & H3). apply wf_tags_le in H2. apply IH in H3. lia.
Qed.

(* the nested fixpoints inside wf_tag are wf_tags / wf_cases *)
Lemma wf_tag_loop : forall l sb, wf_tag (PLoop l sb) <->
  l_off l + N.to_nat (l_coff l) <= l_end l /\ wf_tags (l_off l + N.to_nat (l_coff l)) (l_end l) sb.
Proof. intros l sb. reflexivity. Qed.
Lemma wf_tag_if : forall o e cs, o <= e -> wf_cases e o cs -> wf_tag (PIf o e cs).
Proof.
  intros o e cs H1 H2. cbn [wf_tag]. split; [exact H1|]. clear H1. revert o H2.
  induction cs as [|[co ce cc sb] r IH]; intros lo H2; [exact H2|].
  cbn [wf_cases] in H2. destruct H2 as (A & B & C). split; [exact A|split; [exact B|]]. apply (IH ce C).
Qed.

(* ---- inversion helpers (equation form) ---- *)
Lemma csub_ok : forall site a b d, csub site a b = Ok d -> d = a - b /\ b <= a.
Proof. intros site a b d H. unfold csub in H. destruct (Nat.leb_spec b a); [injection H as <-; lia|discriminate H]. Qed.

Lemma bind_ok : forall A B (x : res A) (f : A -> res B) r, bind x f = Ok r -> exists a, x = Ok a /\ f a = Ok r.
Proof. intros A B [a|e] f r H; [exists a; split; [reflexivity|exact H]|discriminate H]. Qed.

Lemma check_loop_variable_same : forall content chain v v',
  check_loop_variable content v chain = Ok v' -> v_off v' = v_off v /\ v_len v' = v_len v.
Proof.
  intros content chain; induction chain as [|l r IH]; intros v v' H; cbn [check_loop_variable] in H.
  - injection H as <-. auto.
  - destruct (N.eqb (li_vlen l) 0); [apply IH; exact H|].
    apply bind_ok in H. destruct H as (b & _ & H). destruct b; [injection H as <-; cbn; auto|apply IH; exact H].
Qed.

Lemma set_attr_same : forall content l att ao o l', set_attr content l att ao o = Ok l' -> lsame l l'.
Proof.
  intros content l att ao o l' H. unfold set_attr in H.
  destruct att as [|[[|[]|]|[[]|[]|]|]]; try (injection H as <-; apply lsame_refl);
    repeat (apply bind_ok in H; destruct H as (? & _ & H)); injection H as <-; unfold lsame; cbn; auto.
Qed.

Lemma loop_attrs_same : forall content fuel offset e att l l',
  loop_attrs content fuel offset e att l = Ok l' -> lsame l l'.
Proof.
  intros content fuel; induction fuel as [|f IH]; intros offset e att l l' H; [discriminate H|].
  cbn [loop_attrs] in H.
  apply bind_ok in H. destruct H as (o1 & _ & H).
  apply bind_ok in H. destruct H as (nm & _ & H).
  destruct nm as [[o2 att2]|].
  - apply bind_ok in H. destruct H as (o3 & _ & H).
    apply bind_ok in H. destruct H as (o4 & _ & H).
    destruct (o4 <? e); [|injection H as <-; apply lsame_refl].
    apply bind_ok in H. destruct H as (q & _ & H).
    apply bind_ok in H. destruct H as (o5 & _ & H).
    apply bind_ok in H. destruct H as (l1 & H1 & H).
    apply set_attr_same in H1.
    destruct (S o5 <? e); [|injection H as <-; exact H1].
    eapply lsame_trans; [exact H1|eapply IH; exact H].
  - destruct (S o1 <? e); [eapply IH; exact H|injection H as <-; apply lsame_refl].
Qed.

Lemma t16_le : forall x, N.to_nat (t16 x) <= x.
Proof. intros x. unfold t16. lia. Qed.

Section Tree.
  Variable numf : list N -> N * N * nat.
  Variable w : N.
  Variable content : list N.
  Notation len := (length content).
  (* the text holds no "{svar:" and no "{if" token: the Finder never reports them *)
  Hypothesis Hns : forall o m o', next_w w content o = FOk m o' -> m <> 5%N /\ m <> 6%N.

  (* start of the pending token (the text length when there is none) *)
  Definition pos (fm : N) (fo : nat) : nat := if N.eqb fm 0 then len else fo - toklen fm.

  Definition child_lo (t : tag) : nat :=
    match t with
    | PLoop l _ => l_off l + N.to_nat (l_coff l)
    | PIf o _ cases => match split_last cases with Some (_, PCase co _ _ _) => co | None => o end
    | _ => 0
    end.
  Definition open_wf (t : tag) : Prop :=
    match t with
    | PLoop _ _ => True
    | PIf o _ cases => match split_last cases with Some (ci, PCase co _ _ _) => wf_cases co o ci | None => False end
    | _ => False
    end.
  Fixpoint stack_ok (stack : list (list tag)) (lo_cur : nat) : Prop :=
    match stack with
    | [] => lo_cur = 0
    | top :: rest =>
      exists init t lo, top = init ++ [t] /\ lo_cur = child_lo t /\ open_wf t /\ tstart t <= child_lo t /\
                        tstart t <= len /\ wf_tags lo (tstart t) init /\ stack_ok rest lo
    end.
  Definition cur_ok (fm : N) (fo : nat) (stack : list (list tag)) (lo : nat) (cur : list tag) : Prop :=
    wf_tags lo (pos fm fo) cur \/
    (cur = [] /\ (fm = 8%N \/ fm = 10%N) /\ exists init l sb rest, stack = (init ++ [PLoop l sb]) :: rest).
  Definition J (st : pstate) : Prop :=
    ps_child st = false /\ ps_fm st <> 5%N /\ ps_fm st <> 6%N /\
    exists lo, stack_ok (ps_stack st) lo /\ lo <= ps_fo st /\ cur_ok (ps_fm st) (ps_fo st) (ps_stack st) lo (ps_cur st).

  Lemma pos_le : forall fm fo, fm <> 0%N -> pos fm fo <= fo.
  Proof. intros fm fo H. unfold pos. destruct (N.eqb_spec fm 0); [contradiction|lia]. Qed.

  Lemma pos_after : forall o mo c, stepok content o mo -> c <= o -> c <= len -> c <= pos (fst mo) (snd mo).
  Proof.
    intros o mo c Hs Hc Hl. unfold pos. destruct (N.eqb_spec (fst mo) 0) as [E|E]; [exact Hl|].
    destruct (stepok_nz _ _ _ Hs E) as (_ & H & _). lia.
  Qed.

  Lemma fnext_facts : forall o mo, fnext w content o = Ok mo ->
    stepok content o mo /\ onlybrace content o mo /\ fst mo <> 5%N /\ fst mo <> 6%N.
  Proof.
    intros o mo H. pose proof (fnext_good2 numf w content o) as G. rewrite H in G. destruct G as [G1 G2].
    split; [exact G1|split; [exact G2|]].
    unfold fnext in H. destruct (next_w w content o) as [m o'|] eqn:E; [|discriminate H].
    injection H as <-. cbn. eapply Hns; exact E.
  Qed.

  (* what every case establishes before its last Next(): tags end at or before [c] *)
  Lemma J_after : forall stack cur chain lo c o mo,
    stack_ok stack lo -> wf_tags lo c cur -> c <= o -> c <= len -> fnext w content o = Ok mo ->
    J (mkS (snd mo) (fst mo) stack cur false chain).
  Proof.
    intros stack cur chain lo c o mo Hst Hw Hc Hl Hf.
    destruct (fnext_facts _ _ Hf) as (Hs & _ & H5 & H6).
    unfold J. cbn [ps_child ps_fm ps_fo ps_stack ps_cur]. split; [reflexivity|split; [exact H5|split; [exact H6|]]].
    exists lo. split; [exact Hst|]. pose proof (wf_tags_le _ _ _ Hw) as Hle. pose proof (stepok_le _ _ _ Hs) as Hle2.
    split; [lia|]. left. eapply wf_tags_mono; [exact Hw|]. eapply pos_after; eassumption.
  Qed.

  (* whatever the state, the tags of the current array end at or before the cursor *)
  Lemma cur_at_fo : forall fm fo stack lo cur, fm <> 0%N -> lo <= fo -> cur_ok fm fo stack lo cur -> wf_tags lo fo cur.
  Proof.
    intros fm fo stack lo cur Hm Hlo [H|(E & _)].
    - eapply wf_tags_mono; [exact H|apply pos_le; exact Hm].
    - subst cur. exact Hlo.
  Qed.

  Lemma stack_ok_top : forall init t rest lo,
    stack_ok ((init ++ [t]) :: rest) lo ->
    lo = child_lo t /\ open_wf t /\ tstart t <= child_lo t /\ exists lo0, wf_tags lo0 (tstart t) init /\ stack_ok rest lo0.
  Proof.
    intros init t rest lo (init' & t' & lo0 & E & H1 & H2 & H3 & _ & H4 & H5).
    apply app_inj_tail in E. destruct E as [<- <-]. repeat split; try assumption. exists lo0. split; assumption.
  Qed.

  Lemma then_next_J : forall st1 st', then_next w content (Ok st1) = Ok st' ->
    ps_child st1 = false ->
    (exists lo c, stack_ok (ps_stack st1) lo /\ wf_tags lo c (ps_cur st1) /\ c <= ps_fo st1 /\ c <= len) -> J st'.
  Proof.
    intros st1 st' H Hc (lo & c & H1 & H2 & H3 & H4). unfold then_next in H. cbn [bind] in H.
    apply bind_ok in H. destruct H as (mo & Hf & H). injection H as <-. unfold with_finder. rewrite Hc.
    exact (J_after _ _ _ lo c (ps_fo st1) mo H1 H2 H3 H4 Hf).
  Qed.

  (* facts of a state with a pending match *)
  Lemma J_parts : forall st, Inv content st -> J st -> ps_fm st <> 0%N ->
    ps_fo st <= len /\ toklen (ps_fm st) <= ps_fo st /\ ps_child st = false /\
    exists lo, stack_ok (ps_stack st) lo /\ lo <= ps_fo st /\ cur_ok (ps_fm st) (ps_fo st) (ps_stack st) lo (ps_cur st).
  Proof.
    intros st HI (Hc & _ & _ & lo & H1 & H2 & H3) Hm.
    destruct (inv_parts numf content st HI Hm) as (Hfo & Htl & _).
    split; [exact Hfo|split; [exact Htl|split; [exact Hc|]]]. exists lo. repeat split; assumption.
  Qed.

  Lemma cur_ok_plain : forall fm fo stack lo cur, fm <> 8%N -> fm <> 10%N ->
    cur_ok fm fo stack lo cur -> wf_tags lo (pos fm fo) cur.
  Proof. intros fm fo stack lo cur H8 H10 [H|(_ & [E|E] & _)]; [exact H|contradiction|contradiction]. Qed.

  (* ---- {var: / {raw: ---- *)
  Lemma do_var_J : forall mk st st',
    (forall v, tstart (mk v) = v_off v - tpp_VariablePrefixLength /\
               tend (mk v) = v_off v + N.to_nat (v_len v) + tpp_InLineSuffixLength /\
               (wf_tag (mk v) <-> tpp_VariablePrefixLength <= v_off v)) ->
    Inv content st -> J st -> toklen (ps_fm st) = 5 -> ps_fm st <> 8%N -> ps_fm st <> 10%N ->
    do_var w content mk st = Ok st' -> J st'.
  Proof.
    intros mk st st' Hmk HI HJ Hk H8 H10 H.
    assert (Hm : ps_fm st <> 0%N) by (intros E; rewrite E in Hk; discriminate Hk).
    destruct (J_parts st HI HJ Hm) as (Hfo & Htl & Hc & lo & Hst & Hlo & Hcur).
    apply cur_ok_plain in Hcur; [|assumption|assumption].
    assert (Hpos : pos (ps_fm st) (ps_fo st) = ps_fo st - 5).
    { unfold pos. destruct (N.eqb_spec (ps_fm st) 0); [contradiction|]. rewrite Hk. reflexivity. }
    unfold do_var in H.
    apply bind_ok in H. destruct H as (mo & Hf & H).
    destruct (fnext_facts _ _ Hf) as (Hs & _ & _ & _).
    destruct (N.eqb_spec (fst mo) tpp_LineEndID) as [E|E].
    - destruct (stepok_nz _ _ _ Hs) as (Hl & Hadv & _); [rewrite E; discriminate|]. rewrite E in Hadv. cbn in Hadv.
      apply bind_ok in H. destruct H as (d & Hd & H). apply csub_ok in Hd. destruct Hd as [-> _].
      apply bind_ok in H. destruct H as (d1 & Hd1 & H). apply csub_ok in Hd1. destruct Hd1 as [-> _].
      apply bind_ok in H. destruct H as (cur' & Hcur' & H).
      apply bind_ok in H. destruct H as (mo2 & Hf2 & H). injection H as <-.
      unfold with_finder, with_cur. cbn [ps_stack ps_cur ps_child ps_chain]. rewrite Hc.
      apply (J_after _ _ _ lo (snd mo) (snd mo) mo2 Hst); [|lia|exact Hl|exact Hf2].
      destruct (N.eqb (t8 (snd mo - ps_fo st - tpp_InLineSuffixLength)) 0).
      + injection Hcur' as <-. eapply wf_tags_mono; [exact Hcur|]. rewrite Hpos. lia.
      + apply bind_ok in Hcur'. destruct Hcur' as (v & Hv & Hcur'). injection Hcur' as <-.
        apply check_loop_variable_same in Hv. cbn [v_off v_len] in Hv. destruct Hv as [Ev1 Ev2].
        destruct (Hmk v) as (T1 & T2 & T3).
        apply wf_tags_snoc.
        * rewrite T1, Ev1. unfold tpp_VariablePrefixLength. rewrite <- Hpos. exact Hcur.
        * apply T3. rewrite Ev1. unfold tpp_VariablePrefixLength. lia.
        * rewrite T2, Ev1, Ev2. pose proof (t8_le (snd mo - ps_fo st - tpp_InLineSuffixLength)).
          unfold tpp_InLineSuffixLength in *. lia.
    - injection H as <-. unfold with_finder. rewrite Hc.
      apply (J_after _ _ _ lo (ps_fo st - 5) (ps_fo st) mo Hst); [rewrite <- Hpos; exact Hcur|lia|lia|exact Hf].
  Qed.

  (* ---- {math: ---- *)
  Lemma math_scan_56 : forall fuel mo sv r,
    (exists o, fnext w content o = Ok mo) -> math_scan w content fuel mo sv = Ok r ->
    fst (snd r) <> 5%N /\ fst (snd r) <> 6%N.
  Proof.
    intros fuel; induction fuel as [|f IH]; intros mo sv r Hf Hr; [discriminate Hr|].
    cbn [math_scan] in Hr. apply bind_ok in Hr. destruct Hr as ([mo1 sv1] & H1 & Hr). cbn [fst snd] in Hr.
    assert (Hmo1 : exists o1, fnext w content o1 = Ok mo1).
    { destruct (N.ltb (fst mo) tpp_MathID && negb (N.eqb (fst mo) tpp_LineEndID)).
      - apply bind_ok in H1. destruct H1 as (mo'' & Hf'' & H1). injection H1 as <- _. eexists; exact Hf''.
      - injection H1 as <- _. exact Hf. }
    destruct (N.eqb (fst mo1) tpp_LineEndID).
    - destruct sv1 as [|sv'].
      + apply bind_ok in Hr. destruct Hr as (mo2 & Hf2 & Hr). injection Hr as <-. cbn [fst snd].
        destruct (fnext_facts _ _ Hf2) as (_ & _ & A & B). split; assumption.
      + apply bind_ok in Hr. destruct Hr as (mo2 & Hf2 & Hr). eapply IH; [eexists; exact Hf2|exact Hr].
    - injection Hr as <-. cbn [fst snd]. destruct Hmo1 as [o1 Hf1]. destruct (fnext_facts _ _ Hf1) as (_ & _ & A & B). split; assumption.
  Qed.

  Lemma do_math_J : forall st st', Inv content st -> J st -> ps_fm st = tpp_MathID ->
    do_math numf w content st = Ok st' -> J st'.
  Proof.
    intros st st' HI HJ Hk H.
    assert (Hm : ps_fm st <> 0%N) by (rewrite Hk; discriminate).
    destruct (J_parts st HI HJ Hm) as (Hfo & Htl & Hc & lo & Hst & Hlo & Hcur). rewrite Hk in Htl. cbn in Htl.
    apply cur_ok_plain in Hcur; [|rewrite Hk; discriminate|rewrite Hk; discriminate].
    assert (Hpos : pos (ps_fm st) (ps_fo st) = ps_fo st - 6) by (rewrite Hk; reflexivity).
    unfold do_math in H.
    apply bind_ok in H. destruct H as (mo & Hf & H).
    destruct (fnext_facts _ _ Hf) as (Hs & _ & _ & _).
    apply bind_ok in H. destruct H as (r & Hr & H).
    pose proof (math_scan_good numf w content (S len) (ps_fo st) mo 0 Hs Hfo) as G. rewrite Hr in G. cbn [good] in G.
    destruct G as [Gs Ge].
    { intros _. lia. }
    { intros Hn. destruct (stepok_nz _ _ _ Hs Hn). lia. }
    destruct r as [eo mo']. cbn [fst snd] in *.
    destruct (Nat.eqb_spec eo 0) as [E0|E0].
    - injection H as <-. unfold with_finder. rewrite Hc.
      (* the last Next() of the scan was called at or after the cursor *)
      unfold J. cbn [ps_child ps_fm ps_fo ps_stack ps_cur].
      pose proof (math_scan_56 _ _ _ _ (ex_intro _ _ Hf) Hr) as H56. cbn [fst snd] in H56.
      split; [reflexivity|split; [apply H56|split; [apply H56|]]].
      exists lo. split; [exact Hst|]. pose proof (stepok_le _ _ _ Gs). split; [lia|]. left.
      eapply wf_tags_mono; [exact Hcur|]. rewrite Hpos. eapply pos_after; [exact Gs|lia|lia].
    - destruct Ge as [Ge|(G1 & G2 & G3 & G4)]; [contradiction|].
      apply bind_ok in H. destruct H as (o & Ho & H). apply csub_ok in Ho. destruct Ho as [-> _].
      apply bind_ok in H. destruct H as (e1 & He1 & H).
      apply bind_ok in H. destruct H as (ex & _ & H). injection H as <-.
      unfold with_finder, with_cur. cbn [ps_stack ps_cur ps_child ps_chain]. rewrite Hc.
      apply (J_after _ _ _ lo eo eo mo' Hst); [|lia|exact G2|exact G4].
      apply wf_tags_snoc; cbn [tstart tend wf_tag].
      + unfold tpp_MathPrefixLength. rewrite <- Hpos. exact Hcur.
      + unfold tpp_MathPrefixLength. lia.
      + lia.
  Qed.

  (* ---- <loop ---- *)
  Lemma do_loop_J : forall st st', Inv content st -> J st -> ps_fm st = tpp_LoopID ->
    do_loop w content st = Ok st' -> J st'.
  Proof.
    intros st st' HI HJ Hk H.
    assert (Hm : ps_fm st <> 0%N) by (rewrite Hk; discriminate).
    destruct (J_parts st HI HJ Hm) as (Hfo & Htl & Hc & lo & Hst & Hlo & Hcur). rewrite Hk in Htl. cbn in Htl.
    apply cur_ok_plain in Hcur; [|rewrite Hk; discriminate|rewrite Hk; discriminate].
    assert (Hpos : pos (ps_fm st) (ps_fo st) = ps_fo st - 5) by (rewrite Hk; reflexivity).
    unfold do_loop in H.
    apply bind_ok in H. destruct H as (lo_ & Hlo_ & H). apply csub_ok in Hlo_. destruct Hlo_ as [-> _].
    apply bind_ok in H. destruct H as (mo & Hf & H).
    destruct (fnext_facts _ _ Hf) as (Hs & _ & H5 & H6).
    assert (Hend : snd mo <= len) by (destruct Hs as (_ & Hx & _); auto).
    apply bind_ok in H. destruct H as (o1 & Ho1 & H). unfold skip_ne in Ho1.
    pose proof (skip_while_good content 106 (fun ch => negb (N.eqb ch tpp_MultiLineLastChar)) (snd mo - ps_fo st) (ps_fo st) (snd mo) Hend (Nat.le_refl _)) as G. rewrite Ho1 in G. cbn [good] in G.
    destruct (Nat.ltb_spec o1 (snd mo)) as [Hlt|Hge].
    - destruct (skip_while_stop _ _ _ _ _ _ _ Ho1 Hlt) as (ch & Hch1 & Hp).
      apply negb_false_iff, N.eqb_eq in Hp. rewrite Hp in Hch1.
      apply bind_ok in H. destruct H as (l1 & Hl1 & H). unfold parse_loop_attributes in Hl1.
      apply loop_attrs_same in Hl1. destruct Hl1 as (E1 & E2 & E3 & E4 & E5). cbn [l_off l_end l_coff l_level l_parent] in *.
      apply bind_ok in H. destruct H as (d & Hd & H). apply csub_ok in Hd. destruct Hd as [-> _]. injection H as <-.
      unfold push_tag, with_finder. cbn [ps_fo ps_fm ps_stack ps_cur ps_child ps_chain]. rewrite Hc.
      unfold J. cbn [ps_child ps_fm ps_fo ps_stack ps_cur].
      split; [reflexivity|split; [exact H5|split; [exact H6|]]].
      set (l2 := mkL (l_off l1) (l_end l1) _ _ _ _ _ _ _ _ _).
      exists (child_lo (PLoop l2 [])).
      pose proof (t16_le (o1 + tpp_MultiLineSuffixLength - (ps_fo st - tpp_LoopPrefixLength))) as Ht.
      assert (Hcl : child_lo (PLoop l2 []) <= o1 + 1).
      { cbn [child_lo l2 l_off l_coff]. rewrite E1. unfold tpp_MultiLineSuffixLength, tpp_LoopPrefixLength in *. lia. }
      split; [|split].
      + cbn [stack_ok]. exists (ps_cur st), (PLoop l2 []), lo.
        split; [reflexivity|split; [reflexivity|split; [exact I|split; [|split; [|split; [|exact Hst]]]]]].
        * cbn [tstart child_lo l2 l_off l_coff]. lia.
        * cbn [tstart l2 l_off]. rewrite E1. lia.
        * cbn [tstart l2 l_off]. rewrite E1. unfold tpp_LoopPrefixLength. rewrite <- Hpos. exact Hcur.
      + pose proof (stepok_le _ _ _ Hs). lia.
      + destruct (N.eq_dec (fst mo) 8) as [E8|E8]; [right; split; [reflexivity|split; [left; exact E8|eexists _, _, _, _; reflexivity]]|].
        destruct (N.eq_dec (fst mo) 10) as [E10|E10]; [right; split; [reflexivity|split; [right; exact E10|eexists _, _, _, _; reflexivity]]|].
        left. cbn [wf_tags]. unfold pos. destruct (N.eqb_spec (fst mo) 0) as [E0|E0]; [lia|].
        (* the '>' at o1 is not inside the pending token *)
        assert (Hnw : next_w w content (ps_fo st) = FOk (fst mo) (snd mo)).
        { unfold fnext in Hf. destruct (next_w w content (ps_fo st)) as [m o'|]; [injection Hf as <-; reflexivity|discriminate Hf]. }
        destruct (Nat.lt_ge_cases o1 (snd mo - toklen (fst mo))) as [Hin|Hout]; [lia|].
        exfalso. destruct (next_w_token_gt _ _ _ _ _ Hfo Hnw o1) as [X|X]; [lia|exact Hch1|contradiction|contradiction].
    - injection H as <-. unfold with_finder. rewrite Hc.
      apply (J_after _ _ _ lo (ps_fo st - 5) (ps_fo st) mo Hst); [rewrite <- Hpos; exact Hcur|lia|lia|exact Hf].
  Qed.

  (* ---- </loop> ---- *)
  Lemma do_loop_end_J : forall st st1, Inv content st -> J st -> ps_fm st = tpp_LoopEndID ->
    do_loop_end st = Ok st1 ->
    ps_child st1 = false /\ exists lo c, stack_ok (ps_stack st1) lo /\ wf_tags lo c (ps_cur st1) /\ c <= ps_fo st1 /\ c <= len.
  Proof.
    intros st st1 HI HJ Hk H.
    assert (Hm : ps_fm st <> 0%N) by (rewrite Hk; discriminate).
    destruct (J_parts st HI HJ Hm) as (Hfo & Htl & Hc & lo & Hst & Hlo & Hcur). rewrite Hk in Htl. cbn in Htl.
    assert (Hsame : ps_child st = false /\ exists lo c, stack_ok (ps_stack st) lo /\ wf_tags lo c (ps_cur st) /\ c <= ps_fo st /\ c <= len).
    { split; [exact Hc|]. exists lo, (ps_fo st). split; [exact Hst|split; [eapply cur_at_fo; eassumption|lia]]. }
    unfold do_loop_end in H.
    destruct (ps_chain st) as [|li chain]; [injection H as <-; exact Hsame|].
    destruct (ps_stack st) as [|top rest] eqn:Est; [injection H as <-; rewrite Est; exact Hsame|].
    pose proof Hst as Hst0. destruct Hst as (init & t & lo0 & Et & Elo & Hopen & Hts & Htl2 & Hinit & Hrest). subst top.
    rewrite split_last_app in H.
    destruct t as [| | | | |l sb|]; try (injection H as <-; rewrite Est; exact Hsame).
    apply bind_ok in H. destruct H as (e & He & H). apply csub_ok in He. destruct He as [-> _]. injection H as <-.
    cbn [ps_child ps_stack ps_cur ps_fo]. split; [exact Hc|].
    cbn [child_lo tstart] in *.
    destruct (Nat.ltb_spec (ps_fo st - tpp_LoopSuffixLength) (l_off l + N.to_nat (l_coff l))) as [Hdrop|Hkeep].
    - exists lo0, (l_off l). split; [exact Hrest|split; [exact Hinit|lia]].
    - exists lo0, (ps_fo st). split; [exact Hrest|split; [|lia]].
      apply wf_tags_snoc; [exact Hinit| |cbn [tend l_end]; unfold tpp_LoopSuffixLength in *; lia].
      apply wf_tag_loop. cbn [l_off l_coff l_end]. split; [exact Hkeep|].
      destruct Hcur as [Hw|(Ec & _)].
      + unfold pos in Hw. rewrite Hk in Hw. cbn in Hw. subst lo. unfold tpp_LoopSuffixLength. exact Hw.
      + rewrite Ec. exact Hkeep.
  Qed.

  (* ---- <if ---- *)
  Lemma do_if_J : forall st st', Inv content st -> J st -> ps_fm st = tpp_IfID ->
    do_if numf w content st = Ok st' -> J st'.
  Proof.
    intros st st' HI HJ Hk H.
    assert (Hm : ps_fm st <> 0%N) by (rewrite Hk; discriminate).
    destruct (J_parts st HI HJ Hm) as (Hfo & Htl & Hc & lo & Hst & Hlo & Hcur). rewrite Hk in Htl. cbn in Htl.
    apply cur_ok_plain in Hcur; [|rewrite Hk; discriminate|rewrite Hk; discriminate].
    assert (Hpos : pos (ps_fm st) (ps_fo st) = ps_fo st - 3) by (rewrite Hk; reflexivity).
    unfold do_if in H.
    apply bind_ok in H. destruct H as (io & Hio & H). apply csub_ok in Hio. destruct Hio as [-> _].
    apply bind_ok in H. destruct H as ([[o' co] ce] & Hp & H).
    pose proof (parse_if_case_good content (ps_fo st)) as G. rewrite Hp in G. cbn [good] in G. destruct G as [Go' _].
    apply bind_ok in H. destruct H as (st1 & H1 & H).
    apply bind_ok in H. destruct H as (mo & Hf & H). injection H as <-. unfold with_finder.
    destruct (Nat.ltb_spec o' len) as [Hlt|Hge].
    - apply bind_ok in H1. destruct H1 as (ex & _ & H1). injection H1 as <-.
      unfold push_tag. cbn [ps_stack ps_cur ps_child ps_chain]. rewrite Hc.
      apply (J_after _ _ _ o' o' o' mo); [|cbn [wf_tags]; lia|lia|lia|exact Hf].
      cbn [stack_ok]. exists (ps_cur st), (PIf (ps_fo st - tpp_IfPrefixLength) 0 [PCase o' 0 ex []]), lo.
      unfold tpp_IfPrefixLength.
      split; [reflexivity|split; [reflexivity|split; [cbn; lia|split; [cbn; lia|split; [cbn; lia|split; [|exact Hst]]]]]].
      cbn [tstart]. rewrite <- Hpos. exact Hcur.
    - injection H1 as <-. rewrite Hc.
      apply (J_after _ _ _ lo (ps_fo st - 3) o' mo Hst); [rewrite <- Hpos; exact Hcur|lia|lia|exact Hf].
  Qed.

  (* ---- </if> ---- *)
  Lemma do_if_end_J : forall st st1, Inv content st -> J st -> ps_fm st = tpp_IfEndID ->
    do_if_end st = Ok st1 ->
    ps_child st1 = false /\ exists lo c, stack_ok (ps_stack st1) lo /\ wf_tags lo c (ps_cur st1) /\ c <= ps_fo st1 /\ c <= len.
  Proof.
    intros st st1 HI HJ Hk H.
    assert (Hm : ps_fm st <> 0%N) by (rewrite Hk; discriminate).
    destruct (J_parts st HI HJ Hm) as (Hfo & Htl & Hc & lo & Hst & Hlo & Hcur). rewrite Hk in Htl. cbn in Htl.
    assert (Hsame : ps_child st = false /\ exists lo c, stack_ok (ps_stack st) lo /\ wf_tags lo c (ps_cur st) /\ c <= ps_fo st /\ c <= len).
    { split; [exact Hc|]. exists lo, (ps_fo st). split; [exact Hst|split; [eapply cur_at_fo; eassumption|lia]]. }
    unfold do_if_end in H.
    destruct (ps_stack st) as [|top rest] eqn:Est; [injection H as <-; rewrite Est; exact Hsame|].
    destruct Hst as (init & t & lo0 & Et & Elo & Hopen & Hts & Htl2 & Hinit & Hrest). subst top.
    rewrite split_last_app in H.
    destruct t as [| | | | | |o eo cases]; try (injection H as <-; rewrite Est; exact Hsame).
    cbn [open_wf child_lo tstart] in *.
    destruct (split_last cases) as [[ci [co ce0 cc sb0]]|] eqn:Ecs; [|destruct Hopen].
    apply bind_ok in H. destruct H as (e & He & H). apply csub_ok in He. destruct He as [-> _]. injection H as <-.
    cbn [ps_child ps_stack ps_cur ps_fo]. split; [exact Hc|].
    assert (Hw : wf_tags co (ps_fo st - 5) (ps_cur st)).
    { destruct Hcur as [Hw|(_ & _ & (i' & l' & s' & r' & Ex))].
      - unfold pos in Hw. rewrite Hk in Hw. cbn in Hw. subst lo. exact Hw.
      - injection Ex as Ex _. apply app_inj_tail in Ex. destruct Ex as [_ Ex]. discriminate Ex. }
    pose proof (wf_tags_le _ _ _ Hw) as Hle.
    exists lo0, (ps_fo st). split; [exact Hrest|split; [|lia]].
    apply wf_tags_snoc; [exact Hinit| |cbn [tend]; lia].
    apply wf_tag_if; [lia|].
    eapply wf_cases_snoc; [exact Hopen|unfold tpp_IfSuffixLength; exact Hw|unfold tpp_IfSuffixLength; lia].
  Qed.

  (* ---- <else ---- *)
  Lemma else_scan_le : forall fuel offset r, offset <= len -> else_scan content fuel offset = Ok r ->
    offset <= fst r /\ (snd r = false -> fst r <= len).
  Proof.
    intros fuel; induction fuel as [|f IH]; intros offset r Ho H; cbn [else_scan] in H.
    - destruct (Nat.ltb_spec offset len); [discriminate H|]. injection H as <-. cbn. lia.
    - destruct (Nat.ltb_spec offset len) as [Hlt|Hge]; [|injection H as <-; cbn; lia].
      apply bind_ok in H. destruct H as (ch & _ & H).
      destruct (N.eqb ch tpp_MultiLineLastChar); [injection H as <-; cbn; lia|].
      destruct (N.eqb ch tpp_IfFirstChar); [injection H as <-; cbn; split; [lia|discriminate]|].
      assert (Hs : S offset <= len) by lia. destruct (IH (S offset) r Hs H) as [A B]. split; [lia|exact B].
  Qed.

  Definition restedJ (st1 : pstate) : Prop :=
    ps_child st1 = false /\ exists lo c, stack_ok (ps_stack st1) lo /\ wf_tags lo c (ps_cur st1) /\ c <= ps_fo st1 /\ c <= len.

  Lemma do_else_J : forall st r, Inv content st -> J st -> ps_fm st = tpp_ElseID ->
    do_else numf w content st = Ok r -> if snd r then restedJ (fst r) else J (fst r).
  Proof.
    intros st r HI HJ Hk H.
    assert (Hm : ps_fm st <> 0%N) by (rewrite Hk; discriminate).
    destruct (J_parts st HI HJ Hm) as (Hfo & Htl & Hc & lo & Hst & Hlo & Hcur). rewrite Hk in Htl. cbn in Htl.
    assert (Hsame : restedJ st).
    { split; [exact Hc|]. exists lo, (ps_fo st). split; [exact Hst|split; [eapply cur_at_fo; eassumption|lia]]. }
    unfold do_else in H.
    destruct (ps_stack st) as [|top rest] eqn:Est; [injection H as <-; cbn [fst snd]; exact Hsame|].
    destruct Hst as (init & t & lo0 & Et & Elo & Hopen & Hts & Htl2 & Hinit & Hrest). subst top.
    rewrite split_last_app in H.
    destruct t as [| | | | | |o eo cases]; try (injection H as <-; cbn [fst snd]; exact Hsame).
    cbn [open_wf child_lo tstart] in *.
    destruct (split_last cases) as [[ci [co ce0 cc sb0]]|] eqn:Ecs; [|destruct Hopen].
    apply bind_ok in H. destruct H as (e & He & H). apply csub_ok in He. destruct He as [-> _].
    assert (Hw : wf_tags co (ps_fo st - 5) (ps_cur st)).
    { destruct Hcur as [Hw|(_ & [E|E] & _)]; [|rewrite Hk in E; discriminate E|rewrite Hk in E; discriminate E].
      unfold pos in Hw. rewrite Hk in Hw. cbn in Hw. subst lo. exact Hw. }
    pose proof (wf_tags_le _ _ _ Hw) as Hle.
    (* the two ways out *)
    assert (Hbad : forall fo fm, ps_fo st <= fo -> restedJ (mkS fo fm rest init (ps_child st) (ps_chain st))).
    { intros fo fm Hge. split; [exact Hc|]. cbn [ps_stack ps_cur ps_fo]. exists lo0, o. split; [exact Hrest|split; [exact Hinit|lia]]. }
    assert (Hopened : forall coff ex mo, ps_fo st <= coff -> coff <= len -> fnext w content coff = Ok mo ->
              J (mkS (snd mo) (fst mo)
                   ((init ++ [PIf o eo ((ci ++ [PCase co (ps_fo st - tpp_ElsePrefixLength) cc (ps_cur st)]) ++ [PCase coff 0 ex []])]) :: rest)
                   [] (ps_child st) (ps_chain st))).
    { intros coff ex mo Hge Hl Hf. rewrite Hc.
      apply (J_after _ _ _ coff coff coff mo); [|cbn [wf_tags]; lia|lia|exact Hl|exact Hf].
      cbn [stack_ok]. eexists init, _, lo0. split; [reflexivity|].
      cbn [child_lo open_wf tstart]. rewrite split_last_app.
      split; [reflexivity|split; [|split; [lia|split; [exact Htl2|split; [exact Hinit|exact Hrest]]]]].
      eapply wf_cases_snoc; [exact Hopen|unfold tpp_ElsePrefixLength; exact Hw|unfold tpp_ElsePrefixLength; lia]. }
    apply bind_ok in H. destruct H as ([offset isie] & Hsc & H). cbn [fst snd] in H.
    destruct (else_scan_le _ _ _ Hfo Hsc) as [Hs1 Hs2]. cbn [fst snd] in Hs1, Hs2.
    destruct isie.
    - apply bind_ok in H. destruct H as ([[o' co'] ce'] & Hp & H).
      pose proof (parse_if_case_good content offset) as G. rewrite Hp in G. cbn [good] in G. destruct G as [Go' _].
      apply bind_ok in H. destruct H as (mo & Hf & H).
      destruct (Nat.ltb_spec o' len) as [Hlt|Hge]; cbn [andb] in H.
      + destruct (negb (ce' =? 0)).
        * apply bind_ok in H. destruct H as (ex & _ & H). injection H as <-. cbn [fst snd].
          apply Hopened; [lia|lia|exact Hf].
        * injection H as <-. cbn [fst snd]. apply Hbad. destruct (fnext_facts _ _ Hf) as (Hs & _). pose proof (stepok_le _ _ _ Hs). lia.
      + injection H as <-. cbn [fst snd]. apply Hbad. destruct (fnext_facts _ _ Hf) as (Hs & _). pose proof (stepok_le _ _ _ Hs). lia.
    - specialize (Hs2 eq_refl).
      destruct (Nat.ltb_spec offset len) as [Hlt|Hge].
      + apply bind_ok in H. destruct H as (mo & Hf & H). injection H as <-. cbn [fst snd].
        apply Hopened; [lia|lia|exact Hf].
      + injection H as <-. cbn [fst snd]. apply Hbad. lia.
  Qed.

  (* ---- one iteration preserves J ---- *)
  Lemma step_J : forall st st', Inv content st -> J st -> ps_fm st <> 0%N ->
    step numf w content st = Ok st' -> J st'.
  Proof.
    intros st st' HI HJ Hm H. unfold step in H.
    destruct (J_parts st HI HJ Hm) as (Hfo & Htl & Hc & lo & Hst & Hlo & Hcur).
    assert (Hsame : restedJ st).
    { split; [exact Hc|]. exists lo, (ps_fo st). split; [exact Hst|split; [eapply cur_at_fo; eassumption|lia]]. }
    assert (Hnext : forall st1, restedJ st1 -> then_next w content (Ok st1) = Ok st' -> J st').
    { intros st1 [R1 R2] Hn. eapply then_next_J; eassumption. }
    destruct (N.eqb_spec (ps_fm st) tpp_LineEndID) as [E|N1].
    { unfold do_line_end in H. rewrite Hc in H. eapply Hnext; [exact Hsame|exact H]. }
    destruct (N.eqb_spec (ps_fm st) tpp_VariableID) as [E|N2].
    { eapply (do_var_J PVar); try eassumption; try (rewrite E; discriminate); try (rewrite E; reflexivity).
      intros v. cbn [tstart tend wf_tag]. split; [reflexivity|split; [reflexivity|tauto]]. }
    destruct (N.eqb_spec (ps_fm st) tpp_RawVariableID) as [E|N3].
    { eapply (do_var_J PRaw); try eassumption; try (rewrite E; discriminate); try (rewrite E; reflexivity).
      intros v. cbn [tstart tend wf_tag]. split; [reflexivity|split; [reflexivity|tauto]]. }
    destruct (N.eqb_spec (ps_fm st) tpp_MathID) as [E|N4]; [eapply do_math_J; eassumption|].
    destruct (N.eqb_spec (ps_fm st) tpp_SuperVariableID) as [E|N5]; [exfalso; destruct HJ as (_ & X & _); contradiction|].
    destruct (N.eqb_spec (ps_fm st) tpp_InLineIfID) as [E|N6]; [exfalso; destruct HJ as (_ & _ & X & _); contradiction|].
    destruct (N.eqb_spec (ps_fm st) tpp_LoopID) as [E|N7]; [eapply do_loop_J; eassumption|].
    destruct (N.eqb_spec (ps_fm st) tpp_LoopEndID) as [E|N8].
    { unfold then_next in H. apply bind_ok in H. destruct H as (st1 & H1 & H).
      eapply Hnext; [eapply do_loop_end_J; eassumption|]. unfold then_next. cbn [bind]. exact H. }
    destruct (N.eqb_spec (ps_fm st) tpp_IfID) as [E|N9]; [eapply do_if_J; eassumption|].
    destruct (N.eqb_spec (ps_fm st) tpp_IfEndID) as [E|N10].
    { unfold then_next in H. apply bind_ok in H. destruct H as (st1 & H1 & H).
      eapply Hnext; [eapply do_if_end_J; eassumption|]. unfold then_next. cbn [bind]. exact H. }
    destruct (N.eqb_spec (ps_fm st) tpp_ElseID) as [E|N11].
    { apply bind_ok in H. destruct H as ([st1 b] & H1 & H). cbn [fst snd] in H.
      pose proof (do_else_J _ _ HI HJ E H1) as R. cbn [fst snd] in R.
      destruct b; [eapply Hnext; [exact R|exact H]|injection H as <-; exact R]. }
    (* no other match id *)
    exfalso. destruct (inv_parts numf content st HI Hm) as (_ & _ & H1 & _).
    apply toklen_ids in H1. cbn in H1.
    repeat (destruct H1 as [H1|H1]; [symmetry in H1; contradiction|]). exact H1.
  Qed.

  Lemma main_loop_J : forall fuel st st', Inv content st -> J st ->
    main_loop numf w content fuel st = Ok st' -> Inv content st' /\ J st' /\ ps_fm st' = 0%N.
  Proof.
    intros fuel; induction fuel as [|f IH]; intros st st' HI HJ H; cbn [main_loop] in H.
    - destruct (N.eqb_spec (ps_fm st) 0) as [E|E]; [injection H as <-; auto|discriminate H].
    - destruct (N.eqb_spec (ps_fm st) 0) as [E|E]; [injection H as <-; auto|].
      apply bind_ok in H. destruct H as (st1 & H1 & H).
      destruct (inv_preserved numf w content st HI E) as (st1' & E1 & HI1). rewrite H1 in E1. injection E1 as <-.
      eapply IH; [exact HI1|exact (step_J st st1 HI HJ E H1)|exact H].
  Qed.

  (* C01, tree: for every text in which the Finder reports neither "{svar:" nor "{if", the tree the parser
     returns obeys the offset discipline the renderer relies on. *)
  Theorem tree_ok_gen : forall l, parse_gen numf w content = Ok l -> tree_ok len l.
  Proof.
    intros l H. unfold parse_gen in H. apply bind_ok in H. destruct H as (st & Hst & H). injection H as <-.
    unfold parse_state in Hst. apply bind_ok in Hst. destruct Hst as (mo & Hf & Hml).
    destruct (fnext_facts _ _ Hf) as (Hs & _ & H5 & H6).
    assert (HI0 : Inv content (mkS (snd mo) (fst mo) [] [] false [])).
    { split; [eapply (stepok_finok numf); exact Hs|]. cbn [ps_fo ps_stack ps_cur ps_chain]. repeat split; constructor. }
    assert (HJ0 : J (mkS (snd mo) (fst mo) [] [] false [])).
    { apply (J_after [] [] [] 0 0 0 mo); [reflexivity|cbn; lia|lia|lia|exact Hf]. }
    destruct (main_loop_J _ _ _ HI0 HJ0 Hml) as (HI & HJ & Hz).
    destruct HJ as (_ & _ & _ & lo & Hst & Hlo & Hcur).
    unfold unwind, tree_ok.
    assert (Hposlen : pos (ps_fm st) (ps_fo st) = len) by (unfold pos; rewrite Hz; reflexivity).
    destruct (ps_stack st) as [|top rest] eqn:Est.
    - cbn [stack_ok] in Hst. subst lo. destruct Hcur as [Hw|(_ & [E|E] & _)]; [|rewrite Hz in E; discriminate E|rewrite Hz in E; discriminate E].
      rewrite Hposlen in Hw. exact Hw.
    - (* unclosed containers: what is left is the bottom array without its last element *)
      clear Hcur Hlo Est HI. revert top lo Hst. induction rest as [|top2 rest2 IH]; intros top lo Hst.
      + cbn [last]. destruct Hst as (init & t & lo0 & Et & _ & _ & _ & Htl2 & Hinit & Hbot). cbn [stack_ok] in Hbot. subst lo0 top.
        rewrite removelast_last. eapply wf_tags_mono; [exact Hinit|exact Htl2].
      + destruct Hst as (init & t & lo0 & _ & _ & _ & _ & _ & _ & Hrest).
        change (last (top :: top2 :: rest2) []) with (last (top2 :: rest2) []). eapply IH. exact Hrest.
  Qed.
End Tree.

(* for the instantiated model *)
Theorem tree_ok_no_inline : forall w content l,
  (forall o m o', next_w w content o = FOk m o' -> m <> 5%N /\ m <> 6%N) ->
  parse_model w content = Ok l -> tree_ok (length content) l.
Proof. intros w content l H. apply tree_ok_gen. exact H. Qed.

(* non-vacuity: nested if / else / loop with variables and a math tag, malformed tail *)
Example tree_ok_example :
  let text := [60;105;102;32;99;97;115;101;61;34;49;34;62; 123;118;97;114;58;97;125; 60;108;111;111;112;32;118;97;108;117;101;61;34;118;34;62;
               123;109;97;116;104;58;49;43;123;118;97;114;58;118;125;125; 60;47;108;111;111;112;62; 60;101;108;115;101;62; 120; 60;47;105;102;62;
               60;108;111;111;112;62; 123;114;97;119;58]%N in
  exists l, parse_model 0 text = Ok l /\ length l = 1 /\ tree_okb (length text) l = true.
Proof. vm_compute. eexists; repeat split. Qed.
