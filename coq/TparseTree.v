(* TparseTree.v -- C01: the tree the parser model returns obeys the offset discipline the renderer relies on
   (TparseModel.tree_ok), for EVERY text ([tree_ok_all]).

   The invariant [J] of the main loop has two modes.
   alive: every array on the parent_storage stack is well formed up to its open last tag, the current array is
     well formed up to the start of the pending token, and the number of stack arrays whose last tag is a super
     variable / inline if is exactly 1 when is_child is set and 0 otherwise.
   dead: that number exceeds is_child.  This happens when a '}' pops the array of an unclosed <loop> / <if> (the
     unclosed tag then sits, never to be completed, in the current array) or leaves a super variable / inline if
     open below a closed one.  From then on the bottom-most such array is never popped again (popping it needs
     is_child with no other such array above), so the final clean-up drops everything above and including its
     last tag; the invariant keeps only the arrays from it downwards well formed. *)
From Coq Require Import NArith ZArith List Bool Arith Lia ZifyBool ZifyNat ZifyN.
From Qv Require Import gen.Tables_tmpl gen.Tables_expr gen.Tables_tparse FinderModel FinderProofs TparseModel TparseFinder TparseProofs TparseSafety TparseIif.
Import ListNotations.
Ltac Zify.zify_post_hook ::= Z.div_mod_to_equations.

(* ---- inversion helpers (equation form) ---- *)
Lemma csub_ok : forall site a b d, csub site a b = Ok d -> d = a - b /\ b <= a.
Proof. intros site a b d H. unfold csub in H. destruct (Nat.leb_spec b a); [injection H as <-; lia|discriminate H]. Qed.

Lemma bind_ok : forall A B (x : res A) (f : A -> res B) r, bind x f = Ok r -> exists a, x = Ok a /\ f a = Ok r.
Proof. intros A B [a|e] f r H; [exists a; split; [reflexivity|exact H]|discriminate H]. Qed.

Lemma t16_le : forall x, N.to_nat (t16 x) <= x.
Proof. intros x. unfold t16. lia. Qed.
Lemma t16_exact : forall x, (N.of_nat x <= 65535)%N -> N.to_nat (t16 x) = x.
Proof. intros x H. unfold t16. lia. Qed.
Lemma t8_exact : forall x, x <= 255 -> N.to_nat (t8 x) = x.
Proof. intros x H. unfold t8. lia. Qed.
Lemma t16_nz : forall x, 1 <= x -> (N.of_nat x <= 65535)%N -> t16 x <> 0%N.
Proof. intros x H1 H2. unfold t16. lia. Qed.

(* checkLoopVariable keeps Offset / Length and takes IDLength / Level from a loop of the chain *)
Lemma clv_same : forall content chain v v',
  check_loop_variable content v chain = Ok v' ->
  v_off v' = v_off v /\ v_len v' = v_len v /\
  forall L : list N, (forall li, In li chain -> In (li_level li) L) -> (v_idlen v <> 0%N -> In (v_level v) L) ->
                     (v_idlen v' <> 0%N -> In (v_level v') L).
Proof.
  intros content chain; induction chain as [|l r IH]; intros v v' H; cbn [check_loop_variable] in H.
  - injection H as <-. repeat split; auto.
  - assert (Hr : check_loop_variable content v r = Ok v' -> v_off v' = v_off v /\ v_len v' = v_len v /\
      forall L : list N, (forall li, In li (l :: r) -> In (li_level li) L) -> (v_idlen v <> 0%N -> In (v_level v) L) ->
                         (v_idlen v' <> 0%N -> In (v_level v') L)).
    { intros H'. destruct (IH _ _ H') as (A & B & C). split; [exact A|split; [exact B|]].
      intros L HL. apply C. intros li Hli. apply HL. right. exact Hli. }
    destruct (N.eqb (li_vlen l) 0); [apply Hr; exact H|].
    apply bind_ok in H. destruct H as (b & _ & H). destruct b; [|apply Hr; exact H].
    injection H as <-. cbn [v_off v_len v_idlen v_level]. split; [reflexivity|split; [reflexivity|]].
    intros L HL _ _. apply HL. left. reflexivity.
Qed.

Definition lsame_more (l l' : looprec) : Prop :=
  l_off l' = l_off l /\ l_end l' = l_end l /\ l_coff l' = l_coff l /\ l_level l' = l_level l /\ l_parent l' = l_parent l.

(* what the attribute scan of a loop head keeps / establishes; e = position of '>' *)
Definition lattr_ok (e : nat) (L : list N) (l : looprec) : Prop :=
  v_off (l_set l) + N.to_nat (v_len (l_set l)) <= e /\ (v_idlen (l_set l) <> 0%N -> In (v_level (l_set l)) L) /\
  N.to_nat (l_goff l) + N.to_nat (l_glen l) <= e - l_off l.

Lemma set_attr_tree : forall content L l att ao o e l',
  set_attr content l att ao o = Ok l' -> ao <= o -> o <= e ->
  (forall li, In li (l_parent l) -> In (li_level li) L) -> lattr_ok e L l ->
  lsame l l' /\ lattr_ok e L l'.
Proof.
  intros content L l att ao o e l' H Hao Hoe HL (A1 & A2 & A3). unfold set_attr in H.
  destruct att as [|[[|[]|]|[[]|[]|]|]]; try (injection H as <-; split; [apply lsame_refl|repeat split; assumption]).
  - apply bind_ok in H. destruct H as (ch & _ & H). injection H as <-. split; [unfold lsame; cbn; auto|repeat split; assumption].
  - apply bind_ok in H. destruct H as (d1 & Hd1 & H). apply csub_ok in Hd1. destruct Hd1 as [-> Hle1].
    apply bind_ok in H. destruct H as (d2 & Hd2 & H). apply csub_ok in Hd2. destruct Hd2 as [-> Hle2]. injection H as <-.
    split; [unfold lsame; cbn; auto|]. unfold lattr_ok. cbn [l_set l_goff l_glen l_off].
    first [ split; [exact A1|split; [exact A2|exact A3]]
          | split; [exact A1|split; [exact A2|]]; pose proof (t8_le (ao - l_off l)); pose proof (t8_le (o - ao)); lia ].
  - apply bind_ok in H. destruct H as (d1 & Hd1 & H). apply csub_ok in Hd1. destruct Hd1 as [-> Hle1].
    apply bind_ok in H. destruct H as (d2 & Hd2 & H). apply csub_ok in Hd2. destruct Hd2 as [-> Hle2]. injection H as <-.
    split; [unfold lsame; cbn; auto|]. unfold lattr_ok. cbn [l_set l_goff l_glen l_off].
    first [ split; [exact A1|split; [exact A2|exact A3]]
          | split; [exact A1|split; [exact A2|]]; pose proof (t8_le (ao - l_off l)); pose proof (t8_le (o - ao)); lia ].
  - apply bind_ok in H. destruct H as (d & Hd & H). apply csub_ok in Hd. destruct Hd as [-> Hle].
    apply bind_ok in H. destruct H as (v & Hv & H). injection H as <-.
    split; [unfold lsame; cbn; auto|]. unfold lattr_ok. cbn [l_set l_goff l_glen l_off].
    destruct (clv_same _ _ _ _ Hv) as (E1 & E2 & E3). cbn [v_off v_len v_idlen v_level] in *.
    split; [rewrite E1, E2; pose proof (t16_le (o - ao)); lia|split; [apply (E3 L HL A2)|exact A3]].
Qed.

Lemma lattr_mono : forall e L l l', lsame l l' -> lattr_ok e L l' -> True.
Proof. auto. Qed.

Lemma loop_attrs_tree : forall content L fuel offset e att l l',
  loop_attrs content fuel offset e att l = Ok l' -> e <= length content ->
  (forall li, In li (l_parent l) -> In (li_level li) L) -> lattr_ok e L l ->
  lsame l l' /\ lattr_ok e L l'.
Proof.
  intros content L fuel; induction fuel as [|f IH]; intros offset e att l l' H He HL Ha; [discriminate H|].
  cbn [loop_attrs] in H.
  apply bind_ok in H. destruct H as (o1 & _ & H).
  apply bind_ok in H. destruct H as (nm & _ & H).
  destruct nm as [[o2 att2]|].
  - apply bind_ok in H. destruct H as (o3 & _ & H).
    apply bind_ok in H. destruct H as (o4 & _ & H).
    destruct (Nat.ltb_spec o4 e) as [Hlt|Hge]; [|injection H as <-; split; [apply lsame_refl|exact Ha]].
    apply bind_ok in H. destruct H as (q & _ & H).
    apply bind_ok in H. destruct H as (o5 & Ho5 & H).
    pose proof (skip_ne_do_good content 55 q o4 e He) as G. rewrite Ho5 in G. cbn [good] in G.
    apply bind_ok in H. destruct H as (l1 & H1 & H).
    destruct (set_attr_tree _ L _ _ _ _ e _ H1) as [S1 S2]; [lia|lia|exact HL|exact Ha|].
    destruct (Nat.ltb_spec (S o5) e); [|injection H as <-; split; assumption].
    destruct S1 as (E1 & E2 & E3 & E4 & E5).
    destruct (IH _ _ _ _ _ H He) as [T1 T2]; [rewrite E5; exact HL|exact S2|].
    split; [eapply lsame_trans; [|exact T1]; unfold lsame; auto|exact T2].
  - destruct (S o1 <? e); [eapply IH; eassumption|injection H as <-; split; [apply lsame_refl|exact Ha]].
Qed.

(* ---- the attribute scan of an inline if: the slices it sets ---- *)
Definition sinv (o : nat) (i : iifrec) : Prop :=
  let ts := i_off i + N.to_nat (i_toff i) in let te := ts + N.to_nat (i_tlen i) in
  let fs := i_off i + N.to_nat (i_foff i) in let fe := fs + N.to_nat (i_flen i) in
  (i_toff i = 0%N /\ i_tlen i = 0%N \/ te < o) /\ (i_foff i = 0%N /\ i_flen i = 0%N \/ fe < o) /\
  (i_toff i <> 0%N -> i_foff i <> 0%N -> te < fs \/ fe < ts).

Lemma sinv_mono : forall o o' i, sinv o i -> o <= o' -> sinv o' i.
Proof. unfold sinv. intros o o' i (A & B & C) H. split; [|split; [|exact C]]; [destruct A as [A|A]|destruct B as [B|B]]; auto; right; lia. Qed.

Lemma set_iif_value_tree : forall i it ao o e i',
  set_iif_value i it ao o = Ok i' -> i_off i < ao -> ao <= o -> o < e -> (N.of_nat (e - i_off i) <= 65535)%N ->
  sinv ao i -> sinv (S o) i' /\ i_off i' = i_off i /\ i_len i' = i_len i /\ i_tid i' = i_tid i /\ i_fid i' = i_fid i.
Proof.
  intros i it ao o e i' H H1 H2 H3 H4 (A & B & C). unfold set_iif_value in H.
  apply bind_ok in H. destruct H as (d1 & Hd1 & H). apply csub_ok in Hd1. destruct Hd1 as [-> _].
  apply bind_ok in H. destruct H as (d2 & Hd2 & H). apply csub_ok in Hd2. destruct Hd2 as [-> _].
  assert (X1 : N.to_nat (t16 (ao - i_off i)) = ao - i_off i) by (apply t16_exact; lia).
  assert (X2 : N.to_nat (t16 (o - ao)) = o - ao) by (apply t16_exact; lia).
  assert (X3 : t16 (ao - i_off i) <> 0%N) by (apply t16_nz; lia).
  destruct it; injection H as <-; (split; [|cbn; auto]); unfold sinv; cbn [i_off i_toff i_tlen i_foff i_flen]; rewrite X1, X2.
  - split; [right; lia|split; [destruct B as [B|B]; [left; exact B|right; lia]|]].
    intros _ Hf. right. destruct B as [[B _]|B]; [contradiction|lia].
  - split; [destruct A as [A|A]; [left; exact A|right; lia]|split; [right; lia|]].
    intros Ht _. left. destruct A as [[A _]|A]; [contradiction|lia].
Qed.

Lemma iif_attrs_slices : forall content fuel offset e it toff i r,
  iif_attrs content fuel offset e it toff i = Ok (r, false) ->
  e <= length content -> i_off i <= offset -> offset <= e -> (N.of_nat (e - i_off i) <= 65535)%N -> sinv offset i ->
  slices_ok e r /\ i_off r = i_off i /\ i_len r = i_len i /\ i_tid r = i_tid i /\ i_fid r = i_fid i.
Proof.
  intros content fuel; induction fuel as [|f IH]; intros offset e it toff i r H He Hi Hoe H16 Hs; [discriminate H|].
  assert (Hdone : slices_ok e i /\ i_off i = i_off i /\ i_len i = i_len i /\ i_tid i = i_tid i /\ i_fid i = i_fid i).
  { split; [|auto]. destruct Hs as (A & B & C). unfold slices_ok. split; [|split; [|exact C]].
    - destruct A as [A|A]; [left; exact A|right; lia].
    - destruct B as [B|B]; [left; exact B|right; lia]. }
  cbn [iif_attrs] in H.
  apply bind_ok in H. destruct H as (o1 & Ho1 & H).
  pose proof (skip_eq_good content 65 tpp_SpaceChar offset e He) as G1. rewrite Ho1 in G1. cbn [good] in G1.
  destruct (Nat.ltb_spec o1 e) as [Hlt1|Hge1]; [|injection H as <-; exact Hdone].
  apply bind_ok in H. destruct H as (nm & Hnm & H).
  pose proof (iif_attr_name_good content o1 e it Hlt1 He) as G2. rewrite Hnm in G2. cbn [good] in G2.
  destruct nm as [[o2 it2]|]; [|injection H as <-; exact Hdone].
  apply bind_ok in H. destruct H as (o3 & Ho3 & H).
  pose proof (skip_ne_good content 66 tpp_EqualChar o2 e He) as G3. rewrite Ho3 in G3. cbn [good] in G3.
  apply bind_ok in H. destruct H as (o4 & Ho4 & H).
  pose proof (skip_eq_do_good content 67 tpp_SpaceChar o3 e He) as G4. rewrite Ho4 in G4. cbn [good] in G4.
  destruct (Nat.ltb_spec o4 e) as [Hlt4|Hge4].
  - apply bind_ok in H. destruct H as (q & _ & H).
    apply bind_ok in H. destruct H as (o5 & Ho5 & H).
    pose proof (skip_ne_good content 69 q (S o4) e He) as G5. rewrite Ho5 in G5. cbn [good] in G5.
    destruct (Nat.ltb_spec o5 e) as [Hlt5|Hge5]; [|discriminate H].
    apply bind_ok in H. destruct H as (i' & Hi' & H).
    destruct (set_iif_value_tree _ _ _ _ e _ Hi') as (S1 & E1 & E2 & E3 & E4); [lia|lia|lia|exact H16|eapply sinv_mono; [exact Hs|lia]|].
    destruct (Nat.ltb_spec (S o5) e) as [Hlt6|Hge6].
    + destruct (IH _ _ _ _ _ _ H He) as (R1 & R2 & R3 & R4 & R5); [rewrite E1; lia|lia|rewrite E1; exact H16|exact S1|].
      split; [exact R1|repeat split; congruence].
    + injection H as <-. split; [|repeat split; assumption].
      destruct S1 as (A & B & C). unfold slices_ok. split; [|split; [|exact C]].
      * destruct A as [A|A]; [left; exact A|right; lia].
      * destruct B as [B|B]; [left; exact B|right; lia].
  - destruct (Nat.ltb_spec (S o4) e); [lia|]. injection H as <-. exact Hdone.
Qed.

(* a re-opened inline if is back in the state it was created in *)
Lemma iif_attrs_reopen : forall content fuel offset e it toff i r,
  iif_attrs content fuel offset e it toff i = Ok (r, true) ->
  i_off r = i_off i /\ i_toff r = toff /\ i_tlen r = 0%N /\ i_foff r = 0%N /\ i_flen r = 0%N.
Proof.
  intros content fuel; induction fuel as [|f IH]; intros offset e it toff i r H; [discriminate H|].
  cbn [iif_attrs] in H.
  apply bind_ok in H. destruct H as (o1 & _ & H).
  destruct (o1 <? e); [|discriminate H].
  apply bind_ok in H. destruct H as (nm & _ & H).
  destruct nm as [[o2 it2]|]; [|discriminate H].
  apply bind_ok in H. destruct H as (o3 & _ & H).
  apply bind_ok in H. destruct H as (o4 & _ & H).
  destruct (o4 <? e).
  - apply bind_ok in H. destruct H as (q & _ & H).
    apply bind_ok in H. destruct H as (o5 & _ & H).
    destruct (o5 <? e).
    + apply bind_ok in H. destruct H as (i' & Hi' & H).
      assert (E : i_off i' = i_off i).
      { unfold set_iif_value in Hi'. apply bind_ok in Hi'. destruct Hi' as (d1 & _ & Hi'). apply bind_ok in Hi'. destruct Hi' as (d2 & _ & Hi').
        destruct it2; injection Hi' as <-; reflexivity. }
      destruct (S o5 <? e); [|discriminate H]. destruct (IH _ _ _ _ _ _ H) as (A & B). split; [congruence|exact B].
    + injection H as <-. cbn. auto.
  - destruct (S o4 <? e); [apply (IH _ _ _ _ _ _ H)|discriminate H].
Qed.

(* ---- stack arrays whose last tag is a super variable / inline if ---- *)
Definition is_sv (t : tag) : bool := match t with PSVar _ _ _ _ | PIIf _ _ _ => true | _ => false end.
Definition is_lf (t : tag) : bool := match t with PLoop _ _ | PIf _ _ _ => true | _ => false end.
Definition frame_sv (top : list tag) : nat :=
  match split_last top with Some (_, t) => if is_sv t then 1 else 0 | None => 0 end.
Fixpoint nsv (stack : list (list tag)) : nat :=
  match stack with [] => 0 | top :: rest => frame_sv top + nsv rest end.
Definition cnt (child : bool) : nat := if child then 1 else 0.
Definition levels (stack : list (list tag)) : list N := map li_level (open_loops stack).

Lemma split_last_snoc : forall A (l : list A) x, split_last (l ++ [x]) = Some (l, x).
Proof. intros A l x; induction l as [|y l IH]; [reflexivity|]. cbn [app split_last]. rewrite IH. reflexivity. Qed.

Lemma frame_sv_snoc : forall init t, frame_sv (init ++ [t]) = if is_sv t then 1 else 0.
Proof. intros. unfold frame_sv. rewrite split_last_snoc. reflexivity. Qed.
Lemma frame_sv_le : forall top, frame_sv top <= 1.
Proof. intros top. unfold frame_sv. destruct (split_last top) as [[? t]|]; [destruct (is_sv t)|]; lia. Qed.
Lemma nsv_app : forall a b, nsv (a ++ b) = nsv a + nsv b.
Proof. intros a b; induction a as [|x a IH]; [reflexivity|]. cbn [app nsv]. rewrite IH. lia. Qed.

Lemma levels_cons : forall init t rest,
  levels ((init ++ [t]) :: rest) = match t with PLoop l _ => l_level l :: levels rest | _ => levels rest end.
Proof.
  intros init t rest. unfold levels. cbn [open_loops]. unfold frame_loop. rewrite split_last_snoc.
  destruct t; reflexivity.
Qed.

Section Tree.
  Variable numf : list N -> N * N * nat.
  Variable w : N.
  Variable content : list N.
  Notation len := (length content).

  (* start of the pending token (the text length when there is none) *)
  Definition pos (fm : N) (fo : nat) : nat := if N.eqb fm 0 then len else fo - toklen fm.

  Definition child_lo (t : tag) : nat :=
    match t with
    | PSVar o _ _ _ => o
    | PIIf i _ _ => i_off i
    | PLoop l _ => l_off l + N.to_nat (l_coff l)
    | PIf o _ cases => match split_last cases with Some (_, PCase co _ _ _) => co | None => o end
    | _ => 0
    end.
  (* the fields of an open tag that are already final *)
  Definition open_wf (lv : list N) (t : tag) : Prop :=
    match t with
    | PSVar _ _ v _ => vt_ok len lv v
    | PIIf i _ _ => i_tlen i = 0%N /\ i_foff i = 0%N /\ i_flen i = 0%N
    | PLoop l _ => vt_ok len lv (l_set l) /\ l_off l + N.to_nat (l_goff l) + N.to_nat (l_glen l) <= len
    | PIf o _ cases => match split_last cases with Some (ci, PCase co _ _ _) => wf_cases len lv co o ci | None => False end
    | _ => False
    end.
  Fixpoint frames_ok (stack : list (list tag)) (lo_cur : nat) : Prop :=
    match stack with
    | [] => lo_cur = 0
    | top :: rest =>
      exists init t lo, top = init ++ [t] /\ lo_cur = child_lo t /\ open_wf (levels rest) t /\ tstart t <= child_lo t /\
                        tstart t <= len /\ wf_tags len (levels rest) lo (tstart t) init /\ frames_ok rest lo
    end.
  Definition cur_ok (fm : N) (fo : nat) (stack : list (list tag)) (lo : nat) (cur : list tag) : Prop :=
    wf_tags len (levels stack) lo (pos fm fo) cur \/
    (cur = [] /\ (fm = 8%N \/ fm = 10%N) /\ exists init l sb rest, stack = (init ++ [PLoop l sb]) :: rest).

  Definition alive (st : pstate) : Prop :=
    nsv (ps_stack st) = cnt (ps_child st) /\
    exists lo, frames_ok (ps_stack st) lo /\ lo <= ps_fo st /\ cur_ok (ps_fm st) (ps_fo st) (ps_stack st) lo (ps_cur st).
  Definition dead (stack : list (list tag)) (child : bool) : Prop :=
    cnt child < nsv stack /\
    exists prefix F suffix lo, stack = prefix ++ F :: suffix /\ nsv suffix = 0 /\ frame_sv F = 1 /\ frames_ok (F :: suffix) lo.
  Definition J (st : pstate) : Prop := alive st \/ dead (ps_stack st) (ps_child st).

  (* ---- dead is absorbing: the shapes of a stack change ---- *)
  Inductive shape (cur : list tag) (stack : list (list tag)) (child : bool) : list (list tag) -> bool -> Prop :=
  | sh_same : shape cur stack child stack child
  | sh_push_sv : forall t, is_sv t = true -> shape cur stack child ((cur ++ [t]) :: stack) true
  | sh_push_lf : forall t, is_lf t = true -> shape cur stack child ((cur ++ [t]) :: stack) child
  | sh_pop_le : forall top rest, stack = top :: rest -> child = true -> shape cur stack child rest false
  | sh_repush : forall init t t' rest, stack = (init ++ [t]) :: rest -> child = true -> is_sv t = true -> is_sv t' = true ->
                                       shape cur stack child ((init ++ [t']) :: rest) true
  | sh_pop_lf : forall init t rest, stack = (init ++ [t]) :: rest -> is_lf t = true -> shape cur stack child rest child
  | sh_swap : forall init t t' rest, stack = (init ++ [t]) :: rest -> is_lf t = true -> is_lf t' = true ->
                                     shape cur stack child ((init ++ [t']) :: rest) child.

  Lemma sv_lf : forall t, is_sv t = true -> is_lf t = true -> False.
  Proof. intros t; destruct t; cbn; intros; discriminate. Qed.

  Lemma dead_step : forall cur stack child stack' child',
    dead stack child -> shape cur stack child stack' child' -> dead stack' child'.
  Proof.
    intros cur stack child stack' child' (Hc & prefix & F & suffix & lo & Es & Hs0 & HF & Hok) Hsh.
    assert (Hn : nsv stack = nsv prefix + 1) by (rewrite Es, nsv_app; cbn [nsv]; lia).
    (* when the bottom-most such array is on top, is_child is clear and no pop can take it *)
    assert (Htop : prefix = [] -> child = false) by (intros ->; cbn in Hn; destruct child; [cbn in Hc; lia|reflexivity]).
    inversion Hsh; subst.
    - split; [exact Hc|]. exists prefix, F, suffix, lo. auto.
    - split; [|exists ((cur ++ [t]) :: prefix), F, suffix, lo; auto].
      change (nsv ((cur ++ [t]) :: prefix ++ F :: suffix)) with (frame_sv (cur ++ [t]) + nsv (prefix ++ F :: suffix)).
      rewrite frame_sv_snoc, H. cbn [cnt]. lia.
    - split; [|exists ((cur ++ [t]) :: prefix), F, suffix, lo; auto].
      change (nsv ((cur ++ [t]) :: prefix ++ F :: suffix)) with (frame_sv (cur ++ [t]) + nsv (prefix ++ F :: suffix)). lia.
    - destruct prefix as [|p prefix']; [specialize (Htop eq_refl); discriminate Htop|].
      cbn [app] in H. injection H as E1 E2. subst.
      split; [cbn [cnt]; rewrite nsv_app; cbn [nsv]; lia|]. exists prefix', F, suffix, lo. auto.
    - destruct prefix as [|p prefix']; [specialize (Htop eq_refl); discriminate Htop|].
      cbn [app] in H. injection H as E1 E2. subst.
      split; [|exists ((init ++ [t']) :: prefix'), F, suffix, lo; auto].
      change (nsv ((init ++ [t']) :: prefix' ++ F :: suffix)) with (frame_sv (init ++ [t']) + nsv (prefix' ++ F :: suffix)).
      rewrite frame_sv_snoc, H2, nsv_app. cbn [nsv cnt]. lia.
    - destruct prefix as [|p prefix'].
      + cbn [app] in H. injection H as E1 E2. subst. rewrite frame_sv_snoc in HF.
        destruct (is_sv t) eqn:E; [exfalso; eapply sv_lf; eassumption|discriminate HF].
      + cbn [app] in H. injection H as E1 E2. subst.
        assert (E0 : frame_sv (init ++ [t]) = 0).
        { rewrite frame_sv_snoc. destruct (is_sv t) eqn:E; [exfalso; eapply sv_lf; eassumption|reflexivity]. }
        split; [|exists prefix', F, suffix, lo; auto].
        cbn [app nsv] in Hc. rewrite E0 in Hc. lia.
    - destruct prefix as [|p prefix'].
      + cbn [app] in H. injection H as E1 E2. subst. rewrite frame_sv_snoc in HF.
        destruct (is_sv t) eqn:E; [exfalso; eapply sv_lf; eassumption|discriminate HF].
      + cbn [app] in H. injection H as E1 E2. subst.
        assert (E0 : frame_sv (init ++ [t]) = 0).
        { rewrite frame_sv_snoc. destruct (is_sv t) eqn:E; [exfalso; eapply sv_lf; eassumption|reflexivity]. }
        assert (E1 : frame_sv (init ++ [t']) = 0).
        { rewrite frame_sv_snoc. destruct (is_sv t') eqn:E; [exfalso; eapply sv_lf; eassumption|reflexivity]. }
        split; [|exists ((init ++ [t']) :: prefix'), F, suffix, lo; auto].
        change (nsv ((init ++ [t']) :: prefix' ++ F :: suffix)) with (frame_sv (init ++ [t']) + nsv (prefix' ++ F :: suffix)).
        cbn [app nsv] in Hc. rewrite E0 in Hc. rewrite E1. lia.
  Qed.

  (* an alive-shaped stack with too many such arrays is dead *)
  Lemma frames_ok_app : forall a b lo, frames_ok (a ++ b) lo -> exists lo', frames_ok b lo'.
  Proof.
    intros a; induction a as [|x a IH]; intros b lo H; [exists lo; exact H|].
    cbn [app frames_ok] in H. destruct H as (init & t & lo0 & _ & _ & _ & _ & _ & _ & H). apply (IH _ _ H).
  Qed.

  Lemma bottom_sv : forall stack, 1 <= nsv stack ->
    exists prefix F suffix, stack = prefix ++ F :: suffix /\ nsv suffix = 0 /\ frame_sv F = 1.
  Proof.
    intros stack; induction stack as [|top rest IH]; intros H; [cbn in H; lia|].
    cbn [nsv] in H. destruct (Nat.eq_dec (nsv rest) 0) as [E|E].
    - exists [], top, rest. pose proof (frame_sv_le top). split; [reflexivity|split; [exact E|lia]].
    - destruct IH as (p & F & s & E1 & E2 & E3); [lia|]. exists (top :: p), F, s. rewrite E1. auto.
  Qed.

  Lemma to_dead : forall stack child lo, frames_ok stack lo -> cnt child < nsv stack -> dead stack child.
  Proof.
    intros stack child lo Hok Hc. split; [exact Hc|].
    destruct (bottom_sv stack) as (p & F & s & E1 & E2 & E3); [lia|].
    rewrite E1 in Hok. destruct (frames_ok_app _ _ _ Hok) as [lo' Hok']. exists p, F, s, lo'. auto.
  Qed.

  (* ---- alive: generic steps ---- *)
  Lemma pos_le : forall fm fo, fm <> 0%N -> pos fm fo <= fo.
  Proof. intros fm fo H. unfold pos. destruct (N.eqb_spec fm 0); [contradiction|lia]. Qed.

  Lemma pos_after : forall o mo c, stepok content o mo -> c <= o -> c <= len -> c <= pos (fst mo) (snd mo).
  Proof.
    intros o mo c Hs Hc Hl. unfold pos. destruct (N.eqb_spec (fst mo) 0) as [E|E]; [exact Hl|].
    destruct (stepok_nz _ _ _ Hs E) as (_ & H & _). lia.
  Qed.

  Lemma fnext_step : forall o mo, fnext w content o = Ok mo -> stepok content o mo.
  Proof. intros o mo H. pose proof (fnext_good numf w content o) as G. rewrite H in G. exact G. Qed.

  (* what every case establishes before its last Next(): tags end at or before [c] *)
  Lemma J_settle : forall stack cur child chain lo c o mo,
    frames_ok stack lo -> wf_tags len (levels stack) lo c cur -> c <= o -> c <= len -> stepok content o mo ->
    cnt child <= nsv stack ->
    J (mkS (snd mo) (fst mo) stack cur child chain).
  Proof.
    intros stack cur child chain lo c o mo Hst Hw Hc Hl Hs Hn.
    destruct (Nat.eq_dec (nsv stack) (cnt child)) as [E|E].
    - left. split; [exact E|]. cbn [ps_stack ps_fo ps_fm ps_cur]. exists lo. split; [exact Hst|].
      pose proof (wf_tags_le _ _ _ _ _ Hw). pose proof (stepok_le _ _ _ Hs). split; [lia|].
      left. eapply wf_tags_mono; [exact Hw|]. eapply pos_after; eassumption.
    - right. cbn [ps_stack ps_child]. eapply to_dead; [exact Hst|lia].
  Qed.

  Lemma cur_at_fo : forall fm fo stack lo cur, fm <> 0%N -> lo <= fo -> cur_ok fm fo stack lo cur ->
    wf_tags len (levels stack) lo fo cur.
  Proof.
    intros fm fo stack lo cur Hm Hlo [H|(E & _)].
    - eapply wf_tags_mono; [exact H|apply pos_le; exact Hm].
    - subst cur. exact Hlo.
  Qed.

  Lemma cur_ok_plain : forall fm fo stack lo cur, fm <> 8%N -> fm <> 10%N ->
    cur_ok fm fo stack lo cur -> wf_tags len (levels stack) lo (pos fm fo) cur.
  Proof. intros fm fo stack lo cur H8 H10 [H|(_ & [E|E] & _)]; [exact H|contradiction|contradiction]. Qed.

  (* the state a case hands to the final Next() *)
  Definition restedJ (st1 : pstate) : Prop :=
    dead (ps_stack st1) (ps_child st1) \/
    (cnt (ps_child st1) <= nsv (ps_stack st1) /\
     exists lo c, frames_ok (ps_stack st1) lo /\ wf_tags len (levels (ps_stack st1)) lo c (ps_cur st1) /\ c <= ps_fo st1 /\ c <= len).

  Lemma then_next_J : forall st1 st', then_next w content (Ok st1) = Ok st' -> restedJ st1 -> J st'.
  Proof.
    intros st1 st' H HR. unfold then_next in H. cbn [bind] in H.
    apply bind_ok in H. destruct H as (mo & Hf & H). injection H as <-. unfold with_finder.
    destruct HR as [HD|(Hn & lo & c & H1 & H2 & H3 & H4)]; [right; exact HD|].
    exact (J_settle _ _ _ _ lo c (ps_fo st1) mo H1 H2 H3 H4 (fnext_step _ _ Hf) Hn).
  Qed.

  Lemma alive_parts : forall st, Inv content st -> alive st -> ps_fm st <> 0%N ->
    ps_fo st <= len /\ toklen (ps_fm st) <= ps_fo st /\ nsv (ps_stack st) = cnt (ps_child st) /\
    exists lo, frames_ok (ps_stack st) lo /\ lo <= ps_fo st /\ cur_ok (ps_fm st) (ps_fo st) (ps_stack st) lo (ps_cur st).
  Proof.
    intros st HI (Hn & lo & H1 & H2 & H3) Hm.
    destruct (inv_parts numf content st HI Hm) as (Hfo & Htl & _).
    split; [exact Hfo|split; [exact Htl|split; [exact Hn|]]]. exists lo. repeat split; assumption.
  Qed.

  Lemma chain_levels : forall st, Inv content st -> forall li, In li (ps_chain st) -> In (li_level li) (levels (ps_stack st)).
  Proof.
    intros st HI li Hli. destruct (inv_chainok content st HI) as (E & _). unfold levels. rewrite <- E. apply in_map. exact Hli.
  Qed.

  Lemma rested_same : forall st, Inv content st -> J st -> ps_fm st <> 0%N -> restedJ st.
  Proof.
    intros st HI [HA|HD] Hm; [|left; exact HD].
    destruct (alive_parts st HI HA Hm) as (Hfo & Htl & Hn & lo & Hst & Hlo & Hcur).
    right. split; [lia|]. exists lo, (ps_fo st). split; [exact Hst|split; [eapply cur_at_fo; eassumption|lia]].
  Qed.

  (* ---- {var: / {raw: ---- *)
  Lemma do_var_J : forall mk st st',
    (forall lv v, tstart (mk v) = v_off v - tpp_VariablePrefixLength /\
               tend (mk v) = v_off v + N.to_nat (v_len v) + tpp_InLineSuffixLength /\
               (wf_tag len lv (mk v) <-> tpp_VariablePrefixLength <= v_off v /\ (v_idlen v <> 0%N -> In (v_level v) lv))) ->
    Inv content st -> J st -> toklen (ps_fm st) = 5 -> ps_fm st <> 8%N -> ps_fm st <> 10%N ->
    do_var w content mk st = Ok st' -> J st'.
  Proof.
    intros mk st st' Hmk HI HJ Hk H8 H10 H.
    assert (Hm : ps_fm st <> 0%N) by (intros E; rewrite E in Hk; discriminate Hk).
    unfold do_var in H.
    apply bind_ok in H. destruct H as (mo & Hf & H). pose proof (fnext_step _ _ Hf) as Hs.
    destruct HJ as [HA|HD].
    2:{ right. destruct (N.eqb (fst mo) tpp_LineEndID).
        - apply bind_ok in H. destruct H as (d & _ & H). apply bind_ok in H. destruct H as (d1 & _ & H).
          apply bind_ok in H. destruct H as (cur' & _ & H). apply bind_ok in H. destruct H as (mo2 & _ & H). injection H as <-. exact HD.
        - injection H as <-. exact HD. }
    destruct (alive_parts st HI HA Hm) as (Hfo & Htl & Hn & lo & Hst & Hlo & Hcur).
    apply cur_ok_plain in Hcur; [|assumption|assumption].
    assert (Hpos : pos (ps_fm st) (ps_fo st) = ps_fo st - 5).
    { unfold pos. destruct (N.eqb_spec (ps_fm st) 0); [contradiction|]. rewrite Hk. reflexivity. }
    destruct (N.eqb_spec (fst mo) tpp_LineEndID) as [E|E].
    - destruct (stepok_nz _ _ _ Hs) as (Hl & Hadv & _); [rewrite E; discriminate|]. rewrite E in Hadv. cbn in Hadv.
      apply bind_ok in H. destruct H as (d & Hd & H). apply csub_ok in Hd. destruct Hd as [-> _].
      apply bind_ok in H. destruct H as (d1 & Hd1 & H). apply csub_ok in Hd1. destruct Hd1 as [-> _].
      apply bind_ok in H. destruct H as (cur' & Hcur' & H).
      apply bind_ok in H. destruct H as (mo2 & Hf2 & H). injection H as <-.
      unfold with_finder, with_cur. cbn [ps_stack ps_cur ps_child ps_chain].
      apply (J_settle _ _ _ _ lo (snd mo) (snd mo) mo2 Hst); [|lia|exact Hl|exact (fnext_step _ _ Hf2)|lia].
      destruct (N.eqb (t8 (snd mo - ps_fo st - tpp_InLineSuffixLength)) 0).
      + injection Hcur' as <-. eapply wf_tags_mono; [exact Hcur|]. rewrite Hpos. lia.
      + apply bind_ok in Hcur'. destruct Hcur' as (v & Hv & Hcur'). injection Hcur' as <-.
        destruct (clv_same _ _ _ _ Hv) as (Ev1 & Ev2 & Ev3). cbn [v_off v_len v_idlen] in Ev1, Ev2, Ev3.
        destruct (Hmk (levels (ps_stack st)) v) as (T1 & T2 & T3).
        apply wf_tags_snoc.
        * rewrite T1, Ev1. unfold tpp_VariablePrefixLength. rewrite <- Hpos. exact Hcur.
        * apply T3. split; [rewrite Ev1; unfold tpp_VariablePrefixLength; lia|].
          apply Ev3; [apply chain_levels; exact HI|intros X; contradiction X; reflexivity].
        * rewrite T2, Ev1, Ev2. pose proof (t8_le (snd mo - ps_fo st - tpp_InLineSuffixLength)).
          unfold tpp_InLineSuffixLength in *. lia.
    - injection H as <-. unfold with_finder.
      apply (J_settle _ _ _ _ lo (ps_fo st - 5) (ps_fo st) mo Hst); [rewrite <- Hpos; exact Hcur|lia|lia|exact Hs|lia].
  Qed.

  (* ---- {math: ---- *)
  Lemma do_math_J : forall st st', Inv content st -> J st -> ps_fm st = tpp_MathID ->
    do_math numf w content st = Ok st' -> J st'.
  Proof.
    intros st st' HI HJ Hk H.
    assert (Hm : ps_fm st <> 0%N) by (rewrite Hk; discriminate).
    destruct (inv_parts numf content st HI Hm) as (Hfo & Htl & _). rewrite Hk in Htl. cbn in Htl.
    unfold do_math in H.
    apply bind_ok in H. destruct H as (mo & Hf & H). pose proof (fnext_step _ _ Hf) as Hs.
    apply bind_ok in H. destruct H as (r & Hr & H).
    pose proof (math_scan_good numf w content (S len) (ps_fo st) mo 0 Hs Hfo) as G. rewrite Hr in G. cbn [good] in G.
    destruct G as [Gs Ge].
    { intros _. lia. }
    { intros Hn. destruct (stepok_nz _ _ _ Hs Hn). lia. }
    destruct r as [eo mo']. cbn [fst snd] in *.
    destruct (Nat.eqb_spec eo 0) as [E0|E0].
    - injection H as <-. unfold with_finder. destruct HJ as [HA|HD]; [|right; exact HD].
      destruct (alive_parts st HI HA Hm) as (_ & _ & Hn & lo & Hst & Hlo & Hcur).
      apply cur_ok_plain in Hcur; [|rewrite Hk; discriminate|rewrite Hk; discriminate].
      apply (J_settle _ _ _ _ lo (ps_fo st - 6) (ps_fo st) mo' Hst); [|lia|lia|exact Gs|lia].
      unfold pos in Hcur. rewrite Hk in Hcur. exact Hcur.
    - destruct Ge as [Ge|(G1 & G2 & G3 & G4)]; [contradiction|].
      apply bind_ok in H. destruct H as (o & Ho & H). apply csub_ok in Ho. destruct Ho as [-> _].
      apply bind_ok in H. destruct H as (e1 & He1 & H).
      apply bind_ok in H. destruct H as (ex & _ & H). injection H as <-.
      unfold with_finder, with_cur. cbn [ps_stack ps_cur ps_child ps_chain].
      destruct HJ as [HA|HD]; [|right; exact HD].
      destruct (alive_parts st HI HA Hm) as (_ & _ & Hn & lo & Hst & Hlo & Hcur).
      apply cur_ok_plain in Hcur; [|rewrite Hk; discriminate|rewrite Hk; discriminate].
      unfold pos in Hcur. rewrite Hk in Hcur. cbn in Hcur.
      apply (J_settle _ _ _ _ lo eo eo mo' Hst); [|lia|exact G2|exact (fnext_step _ _ G4)|lia].
      apply wf_tags_snoc; cbn [tstart tend wf_tag]; unfold tpp_MathPrefixLength; [exact Hcur|lia|lia].
  Qed.

  (* pushing a tag that owns an open child array *)
  Lemma frames_push : forall stack lo cur t,
    frames_ok stack lo -> wf_tags len (levels stack) lo (tstart t) cur ->
    open_wf (levels stack) t -> tstart t <= child_lo t -> tstart t <= len ->
    frames_ok ((cur ++ [t]) :: stack) (child_lo t).
  Proof.
    intros stack lo cur t Hst Hw Ho H1 H2. cbn [frames_ok]. exists cur, t, lo. repeat split; assumption.
  Qed.

  Lemma nsv_push : forall cur t stack, nsv ((cur ++ [t]) :: stack) = (if is_sv t then 1 else 0) + nsv stack.
  Proof. intros. cbn [nsv]. rewrite frame_sv_snoc. reflexivity. Qed.

  (* ---- {svar: ---- *)
  Lemma do_svar_J : forall st st', Inv content st -> J st -> ps_fm st = tpp_SuperVariableID ->
    do_svar w content st = Ok st' -> J st'.
  Proof.
    intros st st' HI HJ Hk H.
    assert (Hm : ps_fm st <> 0%N) by (rewrite Hk; discriminate).
    destruct (inv_parts numf content st HI Hm) as (Hfo & Htl & _). rewrite Hk in Htl. cbn in Htl.
    unfold do_svar in H.
    apply bind_ok in H. destruct H as (so & Hso & H). apply csub_ok in Hso. destruct Hso as [-> _].
    apply bind_ok in H. destruct H as (mo & Hf & H). pose proof (fnext_step _ _ Hf) as Hs.
    assert (Hend : snd mo <= len) by (destruct Hs as (_ & Hx & _); auto).
    apply bind_ok in H. destruct H as (o2 & Ho2 & H).
    pose proof (skip_ne_good content 95 tpp_VariablesSeparatorChar (ps_fo st) (snd mo) Hend) as G. rewrite Ho2 in G. cbn [good] in G.
    apply bind_ok in H. destruct H as (d & Hd & H). apply csub_ok in Hd. destruct Hd as [-> _].
    unfold with_finder in H. cbn [ps_stack ps_cur ps_child ps_chain] in H.
    destruct (N.eqb (t8 (o2 - ps_fo st)) 0).
    - injection H as <-. destruct HJ as [HA|HD]; [|right; exact HD].
      destruct (alive_parts st HI HA Hm) as (_ & _ & Hn & lo & Hst & Hlo & Hcur).
      apply cur_ok_plain in Hcur; [|rewrite Hk; discriminate|rewrite Hk; discriminate].
      unfold pos in Hcur. rewrite Hk in Hcur. cbn in Hcur.
      apply (J_settle _ _ _ _ lo (ps_fo st - 6) (ps_fo st) mo Hst); [exact Hcur|lia|lia|exact Hs|lia].
    - injection H as <-. unfold push_tag. cbn [ps_fo ps_fm ps_stack ps_cur].
      destruct HJ as [HA|HD].
      2:{ right. cbn [ps_stack ps_child]. eapply dead_step; [exact HD|apply sh_push_sv; reflexivity]. }
      destruct (alive_parts st HI HA Hm) as (_ & _ & Hn & lo & Hst & Hlo & Hcur).
      apply cur_ok_plain in Hcur; [|rewrite Hk; discriminate|rewrite Hk; discriminate].
      unfold pos in Hcur. rewrite Hk in Hcur. cbn in Hcur.
      set (t := PSVar (ps_fo st - tpp_SuperVariablePrefixLength) 0 (mkV (ps_fo st) (t8 (o2 - ps_fo st)) 0 0) []).
      apply (J_settle _ _ _ _ (child_lo t) (ps_fo st - 6) (ps_fo st) mo).
      + apply frames_push with (lo := lo); [exact Hst|exact Hcur| |cbn; lia|cbn; unfold tpp_SuperVariablePrefixLength; lia].
        cbn [open_wf t]. split; [cbn [v_off v_len]; pose proof (t8_le (o2 - ps_fo st)); lia|cbn; intros X; contradiction X; reflexivity].
      + cbn [wf_tags child_lo t]. unfold tpp_SuperVariablePrefixLength. lia.
      + lia.
      + lia.
      + exact Hs.
      + rewrite nsv_push. cbn [is_sv t cnt]. lia.
  Qed.

  (* ---- {if ---- *)
  Lemma do_iif_J : forall st st', Inv content st -> J st -> ps_fm st = tpp_InLineIfID ->
    do_iif numf w content st = Ok st' -> J st'.
  Proof.
    intros st st' HI HJ Hk H.
    assert (Hm : ps_fm st <> 0%N) by (rewrite Hk; discriminate).
    destruct (inv_parts numf content st HI Hm) as (Hfo & Htl & _). rewrite Hk in Htl. cbn in Htl.
    (* no tag: the current array is untouched *)
    assert (Hplain : forall mo', stepok content (ps_fo st) mo' -> J (with_finder st mo')).
    { intros mo' Hs'. unfold with_finder. destruct HJ as [HA|HD]; [|right; exact HD].
      destruct (alive_parts st HI HA Hm) as (_ & _ & Hn & lo & Hst & Hlo & Hcur).
      apply cur_ok_plain in Hcur; [|rewrite Hk; discriminate|rewrite Hk; discriminate].
      unfold pos in Hcur. rewrite Hk in Hcur. cbn in Hcur.
      apply (J_settle _ _ _ _ lo (ps_fo st - 3) (ps_fo st) mo' Hst); [exact Hcur|lia|lia|exact Hs'|lia]. }
    unfold do_iif in H.
    apply bind_ok in H. destruct H as (io & Hio & H). apply csub_ok in Hio. destruct Hio as [-> _].
    apply bind_ok in H. destruct H as (mo & Hf & H). pose proof (fnext_step _ _ Hf) as Hs.
    assert (Hend : snd mo <= len) by (destruct Hs as (_ & Hx & _); auto).
    apply bind_ok in H. destruct H as (o1 & Ho1 & H).
    pose proof (skip_eq_good content 99 tpp_SpaceChar (ps_fo st) (snd mo) Hend) as G1. rewrite Ho1 in G1. cbn [good] in G1.
    apply bind_ok in H. destruct H as (is_case & _ & H).
    destruct is_case; [|injection H as <-; apply Hplain; exact Hs].
    apply bind_ok in H. destruct H as (o2 & Ho2 & H).
    pose proof (skip_ne_good content 101 tpp_EqualChar (o1 + tpp_CaseLength) (snd mo) Hend) as G2. rewrite Ho2 in G2. cbn [good] in G2.
    apply bind_ok in H. destruct H as (o3 & Ho3 & H).
    pose proof (skip_eq_do_good content 102 tpp_SpaceChar o2 (snd mo) Hend) as G3. rewrite Ho3 in G3. cbn [good] in G3.
    destruct (Nat.ltb_spec o3 (snd mo)) as [Hlt|Hge]; [|injection H as <-; apply Hplain; exact Hs].
    apply bind_ok in H. destruct H as (quote & _ & H).
    apply bind_ok in H. destruct H as ([[off' mtch] mo'] & Hsc & H).
    pose proof (iif_case_scan_good numf w content (S len) (ps_fo st) quote (S o3) mo Hs Hfo) as G4. rewrite Hsc in G4. cbn [good] in G4.
    destruct G4 as (Gs & Goff & Glen); [lia|lia|intros Hn; destruct (stepok_nz _ _ _ Hs Hn); lia|].
    destruct (N.eqb_spec mtch 0) as [Ez|Ez]; [injection H as <-; apply Hplain; exact Gs|].
    apply bind_ok in H. destruct H as (ex & _ & H).
    apply bind_ok in H. destruct H as (d & Hd & H). apply csub_ok in Hd. destruct Hd as [-> _]. injection H as <-.
    unfold push_tag, with_finder. cbn [ps_fo ps_fm ps_stack ps_cur ps_child ps_chain].
    destruct HJ as [HA|HD].
    2:{ right. cbn [ps_stack ps_child]. eapply dead_step; [exact HD|apply sh_push_sv; reflexivity]. }
    destruct (alive_parts st HI HA Hm) as (_ & _ & Hn & lo & Hst & Hlo & Hcur).
    apply cur_ok_plain in Hcur; [|rewrite Hk; discriminate|rewrite Hk; discriminate].
    unfold pos in Hcur. rewrite Hk in Hcur. cbn in Hcur.
    match goal with |- J (mkS _ _ ((_ ++ [?tt]) :: _) _ _ _) => set (t := tt) end.
    apply (J_settle _ _ _ _ (child_lo t) (ps_fo st - 3) (ps_fo st) mo').
    - apply frames_push with (lo := lo); [exact Hst|exact Hcur|cbn; auto|cbn; lia|cbn; unfold tpp_InLineIfPrefixLength; lia].
    - cbn [wf_tags child_lo t i_off]. unfold tpp_InLineIfPrefixLength. lia.
    - lia.
    - lia.
    - exact Gs.
    - rewrite nsv_push. cbn [is_sv t cnt]. lia.
  Qed.

  (* ---- <loop ---- *)
  Lemma do_loop_J : forall st st', Inv content st -> J st -> ps_fm st = tpp_LoopID ->
    do_loop w content st = Ok st' -> J st'.
  Proof.
    intros st st' HI HJ Hk H.
    assert (Hm : ps_fm st <> 0%N) by (rewrite Hk; discriminate).
    destruct (inv_parts numf content st HI Hm) as (Hfo & Htl & _). rewrite Hk in Htl. cbn in Htl.
    unfold do_loop in H.
    apply bind_ok in H. destruct H as (lo_ & Hlo_ & H). apply csub_ok in Hlo_. destruct Hlo_ as [-> _].
    apply bind_ok in H. destruct H as (mo & Hf & H). pose proof (fnext_step _ _ Hf) as Hs.
    assert (Hend : snd mo <= len) by (destruct Hs as (_ & Hx & _); auto).
    apply bind_ok in H. destruct H as (o1 & Ho1 & H). unfold skip_ne in Ho1.
    pose proof (skip_while_good content 106 (fun ch => negb (N.eqb ch tpp_MultiLineLastChar)) (snd mo - ps_fo st) (ps_fo st) (snd mo) Hend (Nat.le_refl _)) as G.
    rewrite Ho1 in G. cbn [good] in G.
    destruct (Nat.ltb_spec o1 (snd mo)) as [Hlt|Hge]; cbn [andb] in H.
    2:{ injection H as <-. unfold with_finder. destruct HJ as [HA|HD]; [|right; exact HD].
      destruct (alive_parts st HI HA Hm) as (_ & _ & Hn & lo & Hst & Hlo & Hcur).
      apply cur_ok_plain in Hcur; [|rewrite Hk; discriminate|rewrite Hk; discriminate].
      unfold pos in Hcur. rewrite Hk in Hcur. cbn in Hcur.
      apply (J_settle _ _ _ _ lo (ps_fo st - 5) (ps_fo st) mo Hst); [exact Hcur|lia|lia|exact Hs|lia]. }
    destruct (Nat.leb_spec (length (ps_stack st)) 255) as [Hdep|Hdep].
    2:{ injection H as <-. unfold with_finder. destruct HJ as [HA|HD]; [|right; exact HD].
      destruct (alive_parts st HI HA Hm) as (_ & _ & Hn & lo & Hst & Hlo & Hcur).
      apply cur_ok_plain in Hcur; [|rewrite Hk; discriminate|rewrite Hk; discriminate].
      unfold pos in Hcur. rewrite Hk in Hcur. cbn in Hcur.
      apply (J_settle _ _ _ _ lo (ps_fo st - 5) (ps_fo st) mo Hst); [exact Hcur|lia|lia|exact Hs|lia]. }
    - destruct (skip_while_stop _ _ _ _ _ _ _ Ho1 Hlt) as (ch & Hch1 & Hp).
      apply negb_false_iff, N.eqb_eq in Hp. rewrite Hp in Hch1.
      apply bind_ok in H. destruct H as (l1 & Hl1 & H). unfold parse_loop_attributes in Hl1.
      apply bind_ok in H. destruct H as (d & Hd & H). apply csub_ok in Hd. destruct Hd as [-> _]. injection H as <-.
      unfold push_tag, with_finder. cbn [ps_fo ps_fm ps_stack ps_cur ps_child ps_chain].
      destruct HJ as [HA|HD].
      2:{ right. cbn [ps_stack ps_child]. eapply dead_step; [exact HD|apply sh_push_lf; reflexivity]. }
      destruct (alive_parts st HI HA Hm) as (_ & _ & Hn & lo & Hst & Hlo & Hcur).
      apply cur_ok_plain in Hcur; [|rewrite Hk; discriminate|rewrite Hk; discriminate].
      unfold pos in Hcur. rewrite Hk in Hcur. cbn in Hcur.
      destruct (loop_attrs_tree content (levels (ps_stack st)) _ _ _ _ _ _ Hl1) as [(E1 & E2 & E3 & E4 & E5) (A1 & A2 & A3)].
      { lia. }
      { cbn [l_parent]. apply chain_levels. exact HI. }
      { unfold lattr_ok. cbn. split; [lia|split; [intros X; contradiction X; reflexivity|lia]]. }
      cbn [l_off l_end l_coff l_level l_parent] in *.
      match goal with |- J (mkS _ _ ((_ ++ [PLoop ?ll []]) :: _) _ _ _) => set (l2 := ll) end.
      pose proof (t16_le (o1 + tpp_MultiLineSuffixLength - (ps_fo st - tpp_LoopPrefixLength))) as Ht.
      assert (Hcl : child_lo (PLoop l2 []) <= o1 + 1).
      { cbn [child_lo l2 l_off l_coff]. rewrite E1. unfold tpp_MultiLineSuffixLength, tpp_LoopPrefixLength in *. lia. }
      assert (Hfr : frames_ok ((ps_cur st ++ [PLoop l2 []]) :: ps_stack st) (child_lo (PLoop l2 []))).
      { apply frames_push with (lo := lo); [exact Hst| | | |].
        - cbn [tstart l2 l_off]. rewrite E1. unfold tpp_LoopPrefixLength. exact Hcur.
        - cbn [open_wf l2 l_set l_off l_goff l_glen]. rewrite E1. unfold tpp_LoopPrefixLength in *.
          split; [split; [lia|exact A2]|lia].
        - cbn [tstart child_lo l2 l_off l_coff]. lia.
        - cbn [tstart l2 l_off]. rewrite E1. lia. }
      left. split; [cbn [ps_stack ps_child]; rewrite nsv_push; cbn [is_sv]; lia|].
      cbn [ps_stack ps_fo ps_fm ps_cur]. exists (child_lo (PLoop l2 [])). split; [exact Hfr|].
      pose proof (stepok_le _ _ _ Hs). split; [lia|].
      destruct (N.eq_dec (fst mo) 8) as [E8|E8]; [right; split; [reflexivity|split; [left; exact E8|eexists _, _, _, _; reflexivity]]|].
      destruct (N.eq_dec (fst mo) 10) as [E10|E10]; [right; split; [reflexivity|split; [right; exact E10|eexists _, _, _, _; reflexivity]]|].
      left. cbn [wf_tags]. unfold pos. destruct (N.eqb_spec (fst mo) 0) as [E0|E0]; [lia|].
      (* the '>' at o1 is not inside the pending token *)
      assert (Hnw : next_w w content (ps_fo st) = FOk (fst mo) (snd mo)).
      { unfold fnext in Hf. destruct (next_w w content (ps_fo st)) as [m o'|]; [injection Hf as <-; reflexivity|discriminate Hf]. }
      destruct (Nat.lt_ge_cases o1 (snd mo - toklen (fst mo))) as [Hin|Hout]; [lia|].
      exfalso. destruct (next_w_token_gt _ _ _ _ _ Hfo Hnw o1) as [X|X]; [lia|exact Hch1|contradiction|contradiction].
  Qed.

  Lemma frames_top : forall init t rest lo, frames_ok ((init ++ [t]) :: rest) lo ->
    lo = child_lo t /\ open_wf (levels rest) t /\ tstart t <= child_lo t /\ tstart t <= len /\
    exists lo0, wf_tags len (levels rest) lo0 (tstart t) init /\ frames_ok rest lo0.
  Proof.
    intros init t rest lo (init' & t' & lo0 & E & H1 & H2 & H3 & H4 & H5 & H6).
    apply app_inj_tail in E. destruct E as [<- <-]. repeat split; try assumption. exists lo0. split; assumption.
  Qed.

  (* ---- </loop> ---- *)
  Lemma do_loop_end_J : forall st st1, Inv content st -> J st -> ps_fm st = tpp_LoopEndID ->
    do_loop_end st = Ok st1 -> restedJ st1.
  Proof.
    intros st st1 HI HJ Hk H.
    assert (Hm : ps_fm st <> 0%N) by (rewrite Hk; discriminate).
    destruct (inv_parts numf content st HI Hm) as (Hfo & Htl & _). rewrite Hk in Htl. cbn in Htl.
    pose proof (rested_same st HI HJ Hm) as Hsame.
    unfold do_loop_end in H.
    destruct (ps_chain st) as [|li chain]; [injection H as <-; exact Hsame|].
    destruct (ps_stack st) as [|top rest] eqn:Est; [injection H as <-; exact Hsame|].
    destruct (split_last top) as [[init t]|] eqn:Esl; [|discriminate H].
    apply split_last_some in Esl. subst top.
    destruct t as [| | | | |l sb|]; try (injection H as <-; exact Hsame).
    apply bind_ok in H. destruct H as (e & He & H). apply csub_ok in He. destruct He as [-> _]. injection H as <-.
    destruct HJ as [HA|HD].
    2:{ left. cbn [ps_stack ps_child]. rewrite Est in HD. apply (dead_step [] _ _ _ _ HD). exact (sh_pop_lf _ _ _ init (PLoop l sb) rest eq_refl eq_refl). }
    destruct (alive_parts st HI HA Hm) as (_ & _ & Hn & lo & Hst & Hlo & Hcur). rewrite Est in Hst, Hn, Hcur.
    destruct (frames_top _ _ _ _ Hst) as (Elo & Hopen & Hts & Htl2 & lo0 & Hinit & Hrest).
    cbn [child_lo tstart open_wf] in *. unfold cur_ok in Hcur. rewrite levels_cons in Hcur.
    right. cbn [ps_child ps_stack ps_cur ps_fo].
    split; [cbn [nsv] in Hn; rewrite frame_sv_snoc in Hn; cbn [is_sv] in Hn; lia|].
    destruct (Nat.ltb_spec (ps_fo st - tpp_LoopSuffixLength) (l_off l + N.to_nat (l_coff l))) as [Hdrop|Hkeep].
    - exists lo0, (l_off l). split; [exact Hrest|split; [exact Hinit|lia]].
    - exists lo0, (ps_fo st). split; [exact Hrest|split; [|lia]].
      apply wf_tags_snoc; [exact Hinit| |cbn [tend l_end]; unfold tpp_LoopSuffixLength in *; lia].
      cbn [wf_tag l_off l_coff l_end l_set l_goff l_glen l_level]. destruct Hopen as [Hset Hgrp].
      split; [exact Hkeep|split; [exact Hset|split; [exact Hgrp|]]].
      destruct Hcur as [Hw|(Ec & _)].
      + unfold pos in Hw. rewrite Hk in Hw. cbn in Hw. subst lo. unfold tpp_LoopSuffixLength. exact Hw.
      + rewrite Ec. exact Hkeep.
  Qed.

  (* ---- <if ---- *)
  Lemma do_if_J : forall st st', Inv content st -> J st -> ps_fm st = tpp_IfID ->
    do_if numf w content st = Ok st' -> J st'.
  Proof.
    intros st st' HI HJ Hk H.
    assert (Hm : ps_fm st <> 0%N) by (rewrite Hk; discriminate).
    destruct (inv_parts numf content st HI Hm) as (Hfo & Htl & _). rewrite Hk in Htl. cbn in Htl.
    unfold do_if in H.
    apply bind_ok in H. destruct H as (io & Hio & H). apply csub_ok in Hio. destruct Hio as [-> _].
    apply bind_ok in H. destruct H as ([[o' co] ce] & Hp & H).
    pose proof (parse_if_case_good content (ps_fo st)) as G. rewrite Hp in G. cbn [good] in G. destruct G as [Go' _].
    apply bind_ok in H. destruct H as (st1 & H1 & H).
    apply bind_ok in H. destruct H as (mo & Hf & H). injection H as <-. unfold with_finder.
    pose proof (fnext_step _ _ Hf) as Hs.
    destruct (Nat.ltb_spec o' len) as [Hlt|Hge].
    - apply bind_ok in H1. destruct H1 as (ex & _ & H1). injection H1 as <-.
      unfold push_tag. cbn [ps_stack ps_cur ps_child ps_chain].
      destruct HJ as [HA|HD].
      2:{ right. cbn [ps_stack ps_child]. eapply dead_step; [exact HD|apply sh_push_lf; reflexivity]. }
      destruct (alive_parts st HI HA Hm) as (_ & _ & Hn & lo & Hst & Hlo & Hcur).
      apply cur_ok_plain in Hcur; [|rewrite Hk; discriminate|rewrite Hk; discriminate].
      unfold pos in Hcur. rewrite Hk in Hcur. cbn in Hcur.
      match goal with |- J (mkS _ _ ((_ ++ [?tt]) :: _) _ _ _) => set (t := tt) end.
      apply (J_settle _ _ _ _ (child_lo t) o' o' mo); [|cbn [wf_tags child_lo t split_last]; lia|lia|lia|exact Hs|rewrite nsv_push; cbn [is_sv t]; lia].
      apply frames_push with (lo := lo); [exact Hst|cbn [tstart t]; unfold tpp_IfPrefixLength; exact Hcur| | |].
      + cbn [open_wf t split_last wf_cases]. unfold tpp_IfPrefixLength. lia.
      + cbn [tstart child_lo t split_last]. unfold tpp_IfPrefixLength. lia.
      + cbn [tstart t]. lia.
    - injection H1 as <-. destruct HJ as [HA|HD]; [|right; exact HD].
      destruct (alive_parts st HI HA Hm) as (_ & _ & Hn & lo & Hst & Hlo & Hcur).
      apply cur_ok_plain in Hcur; [|rewrite Hk; discriminate|rewrite Hk; discriminate].
      unfold pos in Hcur. rewrite Hk in Hcur. cbn in Hcur.
      apply (J_settle _ _ _ _ lo (ps_fo st - 3) o' mo Hst); [exact Hcur|lia|lia|exact Hs|lia].
  Qed.

  (* ---- </if> ---- *)
  Lemma do_if_end_J : forall st st1, Inv content st -> J st -> ps_fm st = tpp_IfEndID ->
    do_if_end st = Ok st1 -> restedJ st1.
  Proof.
    intros st st1 HI HJ Hk H.
    assert (Hm : ps_fm st <> 0%N) by (rewrite Hk; discriminate).
    destruct (inv_parts numf content st HI Hm) as (Hfo & Htl & _). rewrite Hk in Htl. cbn in Htl.
    pose proof (rested_same st HI HJ Hm) as Hsame.
    unfold do_if_end in H.
    destruct (ps_stack st) as [|top rest] eqn:Est; [injection H as <-; exact Hsame|].
    destruct (split_last top) as [[init t]|] eqn:Esl; [|discriminate H].
    apply split_last_some in Esl. subst top.
    destruct t as [| | | | | |o eo cases]; try (injection H as <-; exact Hsame).
    destruct (split_last cases) as [[ci [co ce0 cc sb0]]|] eqn:Ecs; [|discriminate H].
    apply bind_ok in H. destruct H as (e & He & H). apply csub_ok in He. destruct He as [-> _]. injection H as <-.
    destruct HJ as [HA|HD].
    2:{ left. cbn [ps_stack ps_child]. rewrite Est in HD. apply (dead_step [] _ _ _ _ HD).
        exact (sh_pop_lf _ _ _ init (PIf o eo cases) rest eq_refl eq_refl). }
    destruct (alive_parts st HI HA Hm) as (_ & _ & Hn & lo & Hst & Hlo & Hcur). rewrite Est in Hst, Hn, Hcur.
    destruct (frames_top _ _ _ _ Hst) as (Elo & Hopen & Hts & Htl2 & lo0 & Hinit & Hrest).
    cbn [child_lo tstart open_wf] in *. rewrite Ecs in *. unfold cur_ok in Hcur. rewrite levels_cons in Hcur.
    right. cbn [ps_child ps_stack ps_cur ps_fo].
    split; [cbn [nsv] in Hn; rewrite frame_sv_snoc in Hn; cbn [is_sv] in Hn; lia|].
    assert (Hw : wf_tags len (levels rest) co (ps_fo st - 5) (ps_cur st)).
    { destruct Hcur as [Hw|(_ & _ & (i' & l' & s' & r' & Ex))].
      - unfold pos in Hw. rewrite Hk in Hw. cbn in Hw. subst lo. exact Hw.
      - injection Ex as Ex _. apply app_inj_tail in Ex. destruct Ex as [_ Ex]. discriminate Ex. }
    pose proof (wf_tags_le _ _ _ _ _ Hw) as Hle.
    exists lo0, (ps_fo st). split; [exact Hrest|split; [|lia]].
    apply wf_tags_snoc; [exact Hinit| |cbn [tend]; lia].
    apply wf_tag_if; [lia|].
    eapply wf_cases_snoc; [exact Hopen|unfold tpp_IfSuffixLength; exact Hw|unfold tpp_IfSuffixLength; lia].
  Qed.

  (* ---- <else ---- *)
  Lemma else_scan_le : forall fuel offset r, offset <= len -> else_scan content fuel offset = Ok r ->
    offset <= fst r /\ (snd r = false -> fst r <= len).
  Proof.
    intros fuel; induction fuel as [|f IH]; intros offset r Ho H; cbn [else_scan] in H.
    - destruct (Nat.ltb_spec offset len); [discriminate H|]. injection H as <-. cbn. lia.
    - destruct (Nat.ltb_spec offset len) as [Hlt|Hge]; [|injection H as <-; cbn; lia].
      apply bind_ok in H. destruct H as (ch & _ & H).
      destruct (N.eqb ch tpp_MultiLineLastChar); [injection H as <-; cbn; lia|].
      destruct (N.eqb ch tpp_IfFirstChar); [injection H as <-; cbn; split; [lia|discriminate]|].
      assert (Hs : S offset <= len) by lia. destruct (IH (S offset) r Hs H) as [A B]. split; [lia|exact B].
  Qed.

  Lemma do_else_J : forall st r, Inv content st -> J st -> ps_fm st = tpp_ElseID ->
    do_else numf w content st = Ok r -> if snd r then restedJ (fst r) else J (fst r).
  Proof.
    intros st r HI HJ Hk H.
    assert (Hm : ps_fm st <> 0%N) by (rewrite Hk; discriminate).
    destruct (inv_parts numf content st HI Hm) as (Hfo & Htl & _). rewrite Hk in Htl. cbn in Htl.
    pose proof (rested_same st HI HJ Hm) as Hsame.
    unfold do_else in H.
    destruct (ps_stack st) as [|top rest] eqn:Est; [injection H as <-; cbn [fst snd]; exact Hsame|].
    destruct (split_last top) as [[init t]|] eqn:Esl; [|discriminate H].
    apply split_last_some in Esl. subst top.
    destruct t as [| | | | | |o eo cases]; try (injection H as <-; cbn [fst snd]; exact Hsame).
    destruct (split_last cases) as [[ci [co ce0 cc sb0]]|] eqn:Ecs; [|discriminate H].
    apply bind_ok in H. destruct H as (e & He & H). apply csub_ok in He. destruct He as [-> _].
    (* the two ways out *)
    assert (Hbad : forall fo fm, ps_fo st <= fo -> restedJ (mkS fo fm rest init (ps_child st) (ps_chain st))).
    { intros fo fm Hge. destruct HJ as [HA|HD].
      2:{ left. cbn [ps_stack ps_child]. rewrite Est in HD. apply (dead_step [] _ _ _ _ HD).
          exact (sh_pop_lf _ _ _ init (PIf o eo cases) rest eq_refl eq_refl). }
      destruct (alive_parts st HI HA Hm) as (_ & _ & Hn & lo & Hst & Hlo & Hcur). rewrite Est in Hst, Hn.
      destruct (frames_top _ _ _ _ Hst) as (Elo & Hopen & Hts & Htl2 & lo0 & Hinit & Hrest).
      right. cbn [ps_child ps_stack ps_cur ps_fo].
      split; [cbn [nsv] in Hn; rewrite frame_sv_snoc in Hn; cbn [is_sv] in Hn; lia|].
      cbn [tstart child_lo] in *. rewrite Ecs in *.
      exists lo0, o. split; [exact Hrest|split; [exact Hinit|lia]]. }
    assert (Hopened : forall coff ex mo, ps_fo st <= coff -> coff <= len -> stepok content coff mo ->
              J (mkS (snd mo) (fst mo)
                   ((init ++ [PIf o eo ((ci ++ [PCase co (ps_fo st - tpp_ElsePrefixLength) cc (ps_cur st)]) ++ [PCase coff 0 ex []])]) :: rest)
                   [] (ps_child st) (ps_chain st))).
    { intros coff ex mo Hge Hl Hs. destruct HJ as [HA|HD].
      2:{ right. cbn [ps_stack ps_child]. rewrite Est in HD. apply (dead_step [] _ _ _ _ HD).
          eapply (sh_swap _ _ _ init (PIf o eo cases)); reflexivity. }
      destruct (alive_parts st HI HA Hm) as (_ & _ & Hn & lo & Hst & Hlo & Hcur). rewrite Est in Hst, Hn, Hcur.
      destruct (frames_top _ _ _ _ Hst) as (Elo & Hopen & Hts & Htl2 & lo0 & Hinit & Hrest).
      cbn [child_lo tstart open_wf] in *. rewrite Ecs in *. unfold cur_ok in Hcur. rewrite levels_cons in Hcur.
      assert (Hw : wf_tags len (levels rest) co (ps_fo st - 5) (ps_cur st)).
      { destruct Hcur as [Hw|(_ & [E|E] & _)]; [|rewrite Hk in E; discriminate E|rewrite Hk in E; discriminate E].
        unfold pos in Hw. rewrite Hk in Hw. cbn in Hw. subst lo. exact Hw. }
      pose proof (wf_tags_le _ _ _ _ _ Hw) as Hle.
      match goal with |- J (mkS _ _ ((_ ++ [?tt]) :: _) _ _ _) => set (t := tt) end.
      assert (Ecl : child_lo t = coff) by (cbn [child_lo t]; rewrite split_last_snoc; reflexivity).
      apply (J_settle _ _ _ _ (child_lo t) coff coff mo); [|rewrite Ecl; cbn [wf_tags]; lia|lia|exact Hl|exact Hs|].
      - cbn [frames_ok]. exists init, t, lo0. split; [reflexivity|split; [reflexivity|]].
        rewrite Ecl. cbn [open_wf tstart t]. rewrite split_last_snoc.
        split; [|split; [lia|split; [exact Htl2|split; [exact Hinit|exact Hrest]]]].
        eapply wf_cases_snoc; [exact Hopen|unfold tpp_ElsePrefixLength; exact Hw|unfold tpp_ElsePrefixLength; lia].
      - cbn [nsv] in *. rewrite frame_sv_snoc in *. cbn [is_sv t] in *. lia. }
    apply bind_ok in H. destruct H as ([offset isie] & Hsc & H). cbn [fst snd] in H.
    destruct (else_scan_le _ _ _ Hfo Hsc) as [Hs1 Hs2]. cbn [fst snd] in Hs1, Hs2.
    destruct isie.
    - apply bind_ok in H. destruct H as ([[o' co'] ce'] & Hp & H).
      pose proof (parse_if_case_good content offset) as G. rewrite Hp in G. cbn [good] in G. destruct G as [Go' _].
      apply bind_ok in H. destruct H as (mo & Hf & H). pose proof (fnext_step _ _ Hf) as Hs.
      destruct (Nat.ltb_spec o' len) as [Hlt|Hge]; cbn [andb] in H.
      + destruct (negb (ce' =? 0)).
        * apply bind_ok in H. destruct H as (ex & _ & H). injection H as <-. cbn [fst snd].
          apply Hopened; [lia|lia|exact Hs].
        * injection H as <-. cbn [fst snd]. apply Hbad. pose proof (stepok_le _ _ _ Hs). lia.
      + injection H as <-. cbn [fst snd]. apply Hbad. pose proof (stepok_le _ _ _ Hs). lia.
    - specialize (Hs2 eq_refl).
      destruct (Nat.ltb_spec offset len) as [Hlt|Hge].
      + apply bind_ok in H. destruct H as (mo & Hf & H). injection H as <-. cbn [fst snd].
        apply Hopened; [lia|lia|exact (fnext_step _ _ Hf)].
      + injection H as <-. cbn [fst snd]. apply Hbad. lia.
  Qed.

  (* ---- '}' ---- *)
  Lemma finalize_iif_shape : forall fo rest init i c subs chain st1,
    finalize_iif content fo rest init i c subs chain = Ok st1 ->
    (ps_stack st1 = rest /\ ps_child st1 = false) \/
    (exists i2, ps_stack st1 = (init ++ [PIIf i2 c subs]) :: rest /\ ps_child st1 = true).
  Proof.
    intros fo rest init i c subs chain st1 H. unfold finalize_iif in H.
    apply bind_ok in H. destruct H as (d & _ & H).
    destruct (N.ltb 65535 (N.of_nat d)); [injection H as <-; left; auto|].
    apply bind_ok in H. destruct H as ([i2 repush] & _ & H). cbn [fst snd] in H.
    destruct repush; [injection H as <-; right; exists i2; auto|].
    destruct (negb (N.eqb (i_toff i2) 0) || negb (N.eqb (i_foff i2) 0)); [|injection H as <-; left; auto].
    destruct (startid_scan subs _ 0) as [id|]; [|injection H as <-; left; auto].
    destruct (255 <? id); [injection H as <-; left; auto|].
    apply bind_ok in H. destruct H as (ok & _ & H). destruct ok; injection H as <-; left; auto.
  Qed.

  Lemma finalize_iif_J : forall fo rest init i c subs chain st1 lo0,
    finalize_iif content fo rest init i c subs chain = Ok st1 ->
    fo <= len -> i_off i <= fo -> i_tlen i = 0%N -> i_foff i = 0%N -> i_flen i = 0%N ->
    frames_ok rest lo0 -> wf_tags len (levels rest) lo0 (i_off i) init ->
    wf_tags len (levels rest) (i_off i) fo subs -> nsv rest = 0 -> i_off i <= len ->
    cnt (ps_child st1) <= nsv (ps_stack st1) /\
    exists lo c, frames_ok (ps_stack st1) lo /\ wf_tags len (levels (ps_stack st1)) lo c (ps_cur st1) /\ c <= fo /\ c <= len /\ ps_fo st1 = fo.
  Proof.
    intros fo rest init i c subs chain st1 lo0 H Hfo Hi Z1 Z2 Z3 Hrest Hinit Hsubs Hn Hil. unfold finalize_iif in H.
    assert (Hdrop : cnt false <= nsv rest /\
              exists lo c, frames_ok rest lo /\ wf_tags len (levels rest) lo c init /\ c <= fo /\ c <= len /\ fo = fo).
    { split; [cbn; lia|]. exists lo0, (i_off i). repeat split; try assumption. }
    apply bind_ok in H. destruct H as (d & Hd & H). apply csub_ok in Hd. destruct Hd as [-> _].
    destruct (N.ltb_spec 65535 (N.of_nat (fo - i_off i))) as [Hbig|H16]; [injection H as <-; exact Hdrop|].
    set (i1 := mkI (i_off i) (t16 (fo - i_off i)) 0 (i_tlen i) (i_foff i) (i_flen i) (i_tid i) (i_fid i)) in *.
    apply bind_ok in H. destruct H as ([i2 repush] & Hat & H). cbn [fst snd] in H.
    destruct repush.
    - (* re-opened *)
      injection H as <-. cbn [ps_stack ps_child ps_cur ps_fo].
      destruct (iif_attrs_reopen _ _ _ _ _ _ _ _ Hat) as (R1 & R2 & R3 & R4 & R5). cbn [i1 i_off] in R1.
      split; [rewrite nsv_push; cbn; lia|].
      exists (i_off i), fo. rewrite levels_cons.
      split; [|split; [exact Hsubs|split; [lia|split; [exact Hfo|reflexivity]]]].
      cbn [frames_ok]. exists init, (PIIf i2 c subs), lo0. cbn [child_lo tstart open_wf]. rewrite R1.
      repeat split; try assumption; lia.
    - destruct (Nat.le_gt_cases (i_off i + N.to_nat (i_toff i)) fo) as [Hoff|Hoff].
      2:{ (* the provisional start lies after the end: nothing is scanned, nothing is set *)
          replace (fo - (i_off i + N.to_nat (i_toff i))) with 0 in Hat by lia.
          cbn [iif_attrs] in Hat. unfold skip_eq in Hat.
          replace (fo - (i_off i + N.to_nat (i_toff i))) with 0 in Hat by lia. cbn [skip_while] in Hat.
          destruct (Nat.ltb_spec (i_off i + N.to_nat (i_toff i)) fo) as [X|_]; [lia|]. cbn [bind] in Hat.
          destruct (Nat.ltb_spec (i_off i + N.to_nat (i_toff i)) fo) as [X|_]; [lia|]. injection Hat as <-.
          cbn [i1 i_toff i_foff] in H. rewrite Z2 in H. cbn in H. injection H as <-. exact Hdrop. }
      destruct (iif_attrs_slices _ _ _ _ _ _ _ _ Hat) as (S1 & E1 & E2 & E3 & E4).
      { exact Hfo. } { cbn [i1 i_off]. lia. } { exact Hoff. } { cbn [i1 i_off]. exact H16. }
      { unfold sinv. cbn [i1 i_off i_toff i_tlen i_foff i_flen]. rewrite Z1, Z2, Z3. split; [left; auto|split; [left; auto|intros X; contradiction X; reflexivity]]. }
      cbn [i1 i_off i_len i_tid i_fid] in E1, E2, E3, E4.
      destruct (negb (N.eqb (i_toff i2) 0) || negb (N.eqb (i_foff i2) 0)) eqn:Eset; [|injection H as <-; exact Hdrop].
      destruct (startid_scan subs _ 0) as [id|] eqn:Escan; [|injection H as <-; exact Hdrop].
      destruct (Nat.ltb_spec 255 id) as [H255|H255]; [injection H as <-; exact Hdrop|].
      apply bind_ok in H. destruct H as (ok & Hok & H). destruct ok; injection H as <-; [|exact Hdrop].
      cbn [ps_stack ps_child ps_cur ps_fo]. split; [cbn; lia|].
      exists lo0, fo. split; [exact Hrest|split; [|split; [lia|split; [exact Hfo|reflexivity]]]].
      match type of Hok with sub_tags_valid ?ii subs = _ => set (i3 := ii) in * end.
      assert (X16 : N.to_nat (t16 (fo - i_off i)) = fo - i_off i) by (apply t16_exact; exact H16).
      assert (Eo3 : i_off i3 = i_off i) by (unfold i3; destruct (N.ltb (i_toff i2) (i_foff i2)); cbn [i_off]; exact E1).
      apply wf_tags_snoc; [cbn [tstart]; rewrite Eo3; exact Hinit| |].
      + cbn [wf_tag].
        assert (F3 : i_off i3 = i_off i2 /\ i_len i3 = i_len i2 /\ i_toff i3 = i_toff i2 /\ i_tlen i3 = i_tlen i2 /\
                     i_foff i3 = i_foff i2 /\ i_flen i3 = i_flen i2 /\
                     (if N.ltb (i_toff i2) (i_foff i2) then N.to_nat (i_fid i3) = id else N.to_nat (i_tid i3) = id)).
        { unfold i3. destruct (N.ltb (i_toff i2) (i_foff i2)); cbn; repeat split; apply t8_exact; exact H255. }
        destruct F3 as (G1 & G2 & G3 & G4 & G5 & G6 & G7).
        apply (iif_partition len (levels rest) i3 subs (i_off i) fo id fo Hsubs Hok).
        * unfold slices_ok. rewrite G1, G3, G4, G5, G6. exact S1.
        * rewrite G1, G2, E1, E2, X16. lia.
        * rewrite G3, G5. apply orb_prop in Eset. destruct Eset as [X|X]; apply negb_true_iff, N.eqb_neq in X; auto.
        * rewrite G3, G5, G1. exact Escan.
        * rewrite G3, G5. exact G7.
      + cbn [tend]. unfold i3. destruct (N.ltb (i_toff i2) (i_foff i2)); cbn [i_off i_len]; rewrite E1, E2, X16; lia.
  Qed.

  Lemma do_line_end_J : forall st st1, Inv content st -> J st -> ps_fm st = tpp_LineEndID ->
    do_line_end content st = Ok st1 -> restedJ st1.
  Proof.
    intros st st1 HI HJ Hk H.
    assert (Hm : ps_fm st <> 0%N) by (rewrite Hk; discriminate).
    destruct (inv_parts numf content st HI Hm) as (Hfo & Htl & _ & Hs1 & _). rewrite Hk in Htl. cbn in Htl.
    pose proof (rested_same st HI HJ Hm) as Hsame.
    unfold do_line_end in H.
    destruct (ps_child st) eqn:Ec; [|injection H as <-; exact Hsame].
    destruct (ps_stack st) as [|top rest] eqn:Est; [injection H as <-; exact Hsame|].
    inversion Hs1 as [|? ? (init & t & Et & Hcont) _]; subst.
    rewrite (writeback_good content 1 (ps_fo st) init t (ps_cur st) Hcont) in H. cbn [bind] in H.
    rewrite split_last_snoc in H.
    (* dead: any of these is a pop by '}' (or the re-opening of an inline if) *)
    assert (Hpop : forall cur' chain', dead ((init ++ [t]) :: rest) true -> restedJ (mkS (ps_fo st) 0 rest cur' false chain')).
    { intros cur' chain' HD. left. cbn [ps_stack ps_child]. apply (dead_step [] _ _ _ _ HD). exact (sh_pop_le _ _ _ _ rest eq_refl eq_refl). }
    destruct t as [| | |o e v sb|i c sb|l sb|o eo cases]; cbn [container_ok] in Hcont; try contradiction; cbn [plug] in H.
    - (* super variable *)
      injection H as <-. destruct HJ as [HA|HD]; [|apply Hpop; rewrite Est, Ec in HD; exact HD].
      destruct (alive_parts st HI HA Hm) as (_ & _ & Hn & lo & Hst & Hlo & Hcur). rewrite Est in Hst, Hn, Hcur. rewrite Ec in Hn.
      destruct (frames_top _ _ _ _ Hst) as (Elo & Hopen & Hts & Htl2 & lo0 & Hinit & Hrest).
      cbn [child_lo tstart open_wf] in *. unfold cur_ok in Hcur. rewrite levels_cons in Hcur.
      cbn [nsv] in Hn. rewrite frame_sv_snoc in Hn. cbn [is_sv cnt] in Hn.
      right. cbn [ps_child ps_stack ps_cur ps_fo]. split; [cbn; lia|].
      destruct Hcur as [Hw|(_ & [E|E] & _)]; [|rewrite Hk in E; discriminate E|rewrite Hk in E; discriminate E].
      unfold pos in Hw. rewrite Hk in Hw. cbn in Hw. subst lo. pose proof (wf_tags_le _ _ _ _ _ Hw).
      exists lo0, (ps_fo st). split; [exact Hrest|split; [|lia]].
      apply wf_tags_snoc; [exact Hinit| |cbn [tend]; lia].
      cbn [wf_tag]. split; [lia|split; [exact Hopen|]]. eapply wf_tags_mono; [exact Hw|lia].
    - (* inline if *)
      destruct HJ as [HA|HD].
      2:{ rewrite Est, Ec in HD. destruct (finalize_iif_shape _ _ _ _ _ _ _ _ H) as [[E1 E2]|(i2 & E1 & E2)].
          - left. rewrite E1, E2. apply (dead_step [] _ _ _ _ HD). exact (sh_pop_le _ _ _ _ rest eq_refl eq_refl).
          - left. rewrite E1, E2. apply (dead_step [] _ _ _ _ HD).
            exact (sh_repush _ _ _ init (PIIf i c sb) (PIIf i2 c (ps_cur st)) rest eq_refl eq_refl eq_refl eq_refl). }
      destruct (alive_parts st HI HA Hm) as (_ & _ & Hn & lo & Hst & Hlo & Hcur). rewrite Est in Hst, Hn, Hcur. rewrite Ec in Hn.
      destruct (frames_top _ _ _ _ Hst) as (Elo & (Z1 & Z2 & Z3) & Hts & Htl2 & lo0 & Hinit & Hrest).
      cbn [child_lo tstart] in *. unfold cur_ok in Hcur. rewrite levels_cons in Hcur.
      cbn [nsv] in Hn. rewrite frame_sv_snoc in Hn. cbn [is_sv cnt] in Hn.
      destruct Hcur as [Hw|(_ & [E|E] & _)]; [|rewrite Hk in E; discriminate E|rewrite Hk in E; discriminate E].
      unfold pos in Hw. rewrite Hk in Hw. cbn in Hw. subst lo.
      destruct (finalize_iif_J _ _ _ _ _ _ _ _ lo0 H Hfo Hcont Z1 Z2 Z3 Hrest Hinit) as (Q1 & lo & c0 & Q2 & Q3 & Q4 & Q5 & Q6);
        [eapply wf_tags_mono; [exact Hw|lia]|lia|exact Htl2|].
      right. split; [exact Q1|]. exists lo, c0. rewrite Q6. repeat split; assumption.
    - (* an open loop is abandoned *)
      injection H as <-. destruct HJ as [HA|HD]; [|apply Hpop; rewrite Est, Ec in HD; exact HD].
      destruct (alive_parts st HI HA Hm) as (_ & _ & Hn & lo & Hst & Hlo & Hcur). rewrite Est in Hst, Hn. rewrite Ec in Hn.
      destruct (frames_top _ _ _ _ Hst) as (_ & _ & _ & _ & lo0 & _ & Hrest).
      cbn [nsv] in Hn. rewrite frame_sv_snoc in Hn. cbn [is_sv cnt] in Hn.
      left. cbn [ps_stack ps_child]. eapply to_dead; [exact Hrest|cbn; lia].
    - (* an open if is abandoned *)
      destruct (split_last cases) as [[ci [co ce cc sb]]|] eqn:Ecs; [|contradiction Hcont; apply split_last_none in Ecs; exact Ecs].
      injection H as <-. destruct HJ as [HA|HD]; [|apply Hpop; rewrite Est, Ec in HD; exact HD].
      destruct (alive_parts st HI HA Hm) as (_ & _ & Hn & lo & Hst & Hlo & Hcur). rewrite Est in Hst, Hn. rewrite Ec in Hn.
      destruct (frames_top _ _ _ _ Hst) as (_ & _ & _ & _ & lo0 & _ & Hrest).
      cbn [nsv] in Hn. rewrite frame_sv_snoc in Hn. cbn [is_sv cnt] in Hn.
      left. cbn [ps_stack ps_child]. eapply to_dead; [exact Hrest|cbn; lia].
  Qed.

  (* ---- one iteration preserves J ---- *)
  Lemma step_J : forall st st', Inv content st -> J st -> ps_fm st <> 0%N ->
    step numf w content st = Ok st' -> J st'.
  Proof.
    intros st st' HI HJ Hm H. unfold step in H.
    assert (Hnext : forall st1, restedJ st1 -> then_next w content (Ok st1) = Ok st' -> J st').
    { intros st1 R Hn. eapply then_next_J; eassumption. }
    destruct (N.eqb_spec (ps_fm st) tpp_LineEndID) as [E|N1].
    { unfold then_next in H. apply bind_ok in H. destruct H as (st1 & H1 & H).
      eapply Hnext; [eapply do_line_end_J; eassumption|]. unfold then_next. cbn [bind]. exact H. }
    destruct (N.eqb_spec (ps_fm st) tpp_VariableID) as [E|N2].
    { eapply (do_var_J PVar); try eassumption; try (rewrite E; discriminate); try (rewrite E; reflexivity).
      intros lv v. cbn [tstart tend wf_tag]. split; [reflexivity|split; [reflexivity|tauto]]. }
    destruct (N.eqb_spec (ps_fm st) tpp_RawVariableID) as [E|N3].
    { eapply (do_var_J PRaw); try eassumption; try (rewrite E; discriminate); try (rewrite E; reflexivity).
      intros lv v. cbn [tstart tend wf_tag]. split; [reflexivity|split; [reflexivity|tauto]]. }
    destruct (N.eqb_spec (ps_fm st) tpp_MathID) as [E|N4]; [eapply do_math_J; eassumption|].
    destruct (N.eqb_spec (ps_fm st) tpp_SuperVariableID) as [E|N5]; [eapply do_svar_J; eassumption|].
    destruct (N.eqb_spec (ps_fm st) tpp_InLineIfID) as [E|N6]; [eapply do_iif_J; eassumption|].
    destruct (N.eqb_spec (ps_fm st) tpp_LoopID) as [E|N7]; [eapply do_loop_J; eassumption|].
    destruct (N.eqb_spec (ps_fm st) tpp_LoopEndID) as [E|N8].
    { unfold then_next in H. apply bind_ok in H. destruct H as (st1 & H1 & H).
      eapply Hnext; [eapply do_loop_end_J; eassumption|]. unfold then_next. cbn [bind]. exact H. }
    destruct (N.eqb_spec (ps_fm st) tpp_IfID) as [E|N9]; [eapply do_if_J; eassumption|].
    destruct (N.eqb_spec (ps_fm st) tpp_IfEndID) as [E|N10].
    { unfold then_next in H. apply bind_ok in H. destruct H as (st1 & H1 & H).
      eapply Hnext; [eapply do_if_end_J; eassumption|]. unfold then_next. cbn [bind]. exact H. }
    destruct (N.eqb_spec (ps_fm st) tpp_ElseID) as [E|N11].
    { apply bind_ok in H. destruct H as ([st1 b] & H1 & H). cbn [fst snd] in H.
      pose proof (do_else_J _ _ HI HJ E H1) as R. cbn [fst snd] in R.
      destruct b; [eapply Hnext; [exact R|exact H]|injection H as <-; exact R]. }
    exfalso. destruct (inv_parts numf content st HI Hm) as (_ & _ & H1 & _).
    apply toklen_ids in H1. cbn in H1.
    repeat (destruct H1 as [H1|H1]; [symmetry in H1; contradiction|]). exact H1.
  Qed.

  Lemma main_loop_J : forall fuel st st', Inv content st -> J st ->
    main_loop numf w content fuel st = Ok st' -> Inv content st' /\ J st' /\ ps_fm st' = 0%N.
  Proof.
    intros fuel; induction fuel as [|f IH]; intros st st' HI HJ H; cbn [main_loop] in H.
    - destruct (N.eqb_spec (ps_fm st) 0) as [E|E]; [injection H as <-; auto|discriminate H].
    - destruct (N.eqb_spec (ps_fm st) 0) as [E|E]; [injection H as <-; auto|].
      apply bind_ok in H. destruct H as (st1 & H1 & H).
      destruct (inv_preserved numf w content st HI E) as (st1' & E1 & HI1). rewrite H1 in E1. injection E1 as <-.
      eapply IH; [exact HI1|exact (step_J st st1 HI HJ E H1)|exact H].
  Qed.

  (* what the final clean-up leaves of a well-formed stack: the bottom array without its last tag *)
  Lemma frames_bottom : forall stack lo, frames_ok stack lo -> stack <> [] ->
    wf_tags len [] 0 len (removelast (last stack [])).
  Proof.
    intros stack; induction stack as [|top rest IH]; intros lo H Hne; [contradiction|].
    destruct H as (init & t & lo0 & Et & _ & _ & _ & Htl2 & Hinit & Hrest). destruct rest as [|top2 rest2].
    - cbn [last]. cbn [frames_ok] in Hrest. subst lo0 top. rewrite removelast_last.
      eapply wf_tags_mono; [exact Hinit|exact Htl2].
    - change (last (top :: top2 :: rest2) []) with (last (top2 :: rest2) []). eapply IH; [exact Hrest|discriminate].
  Qed.

  Theorem tree_ok_gen : forall l, parse_gen numf w content = Ok l -> tree_ok len l.
  Proof.
    intros l H. unfold parse_gen in H. apply bind_ok in H. destruct H as (st & Hst & H). injection H as <-.
    unfold parse_state in Hst. apply bind_ok in Hst. destruct Hst as (mo & Hf & Hml).
    pose proof (fnext_step _ _ Hf) as Hs.
    assert (HI0 : Inv content (mkS (snd mo) (fst mo) [] [] false [])).
    { split; [eapply (stepok_finok numf); exact Hs|]. cbn [ps_fo ps_stack ps_cur ps_chain]. repeat split; constructor. }
    assert (HJ0 : J (mkS (snd mo) (fst mo) [] [] false [])).
    { apply (J_settle [] [] false [] 0 0 0 mo); [reflexivity|cbn; lia|lia|lia|exact Hs|cbn; lia]. }
    destruct (main_loop_J _ _ _ HI0 HJ0 Hml) as (HI & HJ & Hz).
    unfold unwind, tree_ok.
    destruct HJ as [(Hn & lo & Hst & Hlo & Hcur)|(_ & prefix & F & suffix & lo & Es & _ & _ & Hok)].
    - destruct (ps_stack st) as [|top rest] eqn:Est.
      + cbn [frames_ok] in Hst. subst lo.
        destruct Hcur as [Hw|(_ & [E|E] & _)]; [|rewrite Hz in E; discriminate E|rewrite Hz in E; discriminate E].
        unfold pos in Hw. rewrite Hz in Hw. exact Hw.
      + eapply frames_bottom; [exact Hst|discriminate].
    - rewrite Es. destruct (prefix ++ F :: suffix) as [|x y] eqn:E; [destruct prefix; discriminate E|]. rewrite <- E.
      replace (last (prefix ++ F :: suffix) []) with (last (F :: suffix) []).
      + eapply frames_bottom; [exact Hok|discriminate].
      + clear. induction prefix as [|p r IH]; [reflexivity|]. rewrite IH. cbn [app]. destruct (r ++ F :: suffix) eqn:E; [destruct r; discriminate E|reflexivity].
  Qed.
End Tree.

(* C01, tree: for EVERY text the tree the parser returns obeys the offset discipline the renderer relies on *)
Theorem tree_ok_all : forall w content l, parse_model w content = Ok l -> tree_ok (length content) l.
Proof. intros w content l. apply tree_ok_gen. Qed.

(* kept for Properties_C01.v: the earlier, conditional form *)
Theorem tree_ok_no_inline : forall w content l,
  (forall o m o', next_w w content o = FOk m o' -> m <> 5%N /\ m <> 6%N) ->
  parse_model w content = Ok l -> tree_ok (length content) l.
Proof. intros w content l _. apply tree_ok_all. Qed.

(* non-vacuity: nested if / else / loop, an inline if with both values and sub tags, a super variable, malformed tail *)
Example tree_ok_example :
  let text := [60;105;102;32;99;97;115;101;61;34;49;34;62; 123;118;97;114;58;97;125; 60;108;111;111;112;32;118;97;108;117;101;61;34;118;34;62;
               123;109;97;116;104;58;49;43;123;118;97;114;58;118;125;125; 60;47;108;111;111;112;62; 60;101;108;115;101;62; 120; 60;47;105;102;62;
               123;105;102;32;99;97;115;101;61;34;49;34;32;116;114;117;101;61;34;123;118;97;114;58;97;125;34;32;102;97;108;115;101;61;34;123;114;97;119;58;98;125;34;125;
               123;115;118;97;114;58;115;44;32;123;118;97;114;58;97;125;125;
               60;108;111;111;112;62; 123;114;97;119;58]%N in
  exists l, parse_model 0 text = Ok l /\ length l = 3 /\ tree_okb (length text) l = true.
Proof. vm_compute. eexists; repeat split. Qed.
