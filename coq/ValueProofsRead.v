(* ValueProofsRead.v -- every observer (the getter dump, the Stringify skeleton,
   Size, the typed getters and coercions, the rendered loop) is a function of
   the abstraction: observer v = d_observer (abs v).  Lifted to the full text
   trace of every history: run_model = run_spec. *)
From Coq Require Import NArith ZArith List Bool Lia.
From Qv Require Import gen.Tables_value ValueModel ValueProofs ValueProofsObs.
Import ListNotations.
Local Open Scope N_scope.

(* the inner loops of the nested fixpoints, named *)
Definition sv_items (pp : nat -> list N) : list value -> list N :=
  fix go (l : list value) : list N :=
    match l with
    | [] => []
    | x :: r => if is_undef x then go r else sv pp x ++ js_comma :: go r
    end.
Definition sv_slots (pp : nat -> list N) : slots -> list N :=
  fix go (l : slots) : list N :=
    match l with
    | [] => []
    | None :: r => go r
    | Some (k, x) :: r => if is_undef x then go r else quoted k ++ js_colon :: sv pp x ++ js_comma :: go r
    end.
Definition d_sv_items (pp : nat -> list N) : list doc -> list N :=
  fix go (l : list doc) : list N :=
    match l with
    | [] => []
    | x :: r => if d_is_undef x then go r else d_sv pp x ++ js_comma :: go r
    end.
Definition d_sv_members (pp : nat -> list N) : members -> list N :=
  fix go (l : members) : list N :=
    match l with
    | [] => []
    | (k, x) :: r => if d_is_undef x then go r else quoted k ++ js_colon :: d_sv pp x ++ js_comma :: go r
    end.
Definition dump_slots (pp : nat -> list N) : slots -> list (list N) :=
  fix go (l : slots) : list (list N) :=
    match l with
    | [] => []
    | None :: r => go r
    | Some (k, x) :: r => (units_text k ++ 61 :: dump pp x) :: go r
    end.
Definition d_dump_members (pp : nat -> list N) : members -> list (list N) :=
  fix go (l : members) : list (list N) :=
    match l with
    | [] => []
    | (k, x) :: r => (units_text k ++ 61 :: d_dump pp x) :: go r
    end.

Lemma sv_arr : forall pp l, sv pp (Arr l) = js_ssquare :: close_with (sv_items pp l) js_esquare.
Proof. reflexivity. Qed.
Lemma sv_obj : forall pp sl, sv pp (Obj sl) = js_scurly :: close_with (sv_slots pp sl) js_ecurly.
Proof. reflexivity. Qed.
Lemma d_sv_arr : forall pp l, d_sv pp (DArr l) = js_ssquare :: close_with (d_sv_items pp l) js_esquare.
Proof. reflexivity. Qed.
Lemma d_sv_obj : forall pp b m, d_sv pp (DObj b m) = js_scurly :: close_with (d_sv_members pp m) js_ecurly.
Proof. reflexivity. Qed.
Lemma dump_obj : forall pp sl,
    dump pp (Obj sl) = 123 :: size_dump (negb (has_hole sl)) (length sl) ++ 59 :: join_with 44 (dump_slots pp sl) ++ [125].
Proof. reflexivity. Qed.
Lemma d_dump_obj : forall pp b m,
    d_dump pp (DObj b m) = 123 :: size_dump (negb b) (length m) ++ 59 :: join_with 44 (d_dump_members pp m) ++ [125].
Proof. reflexivity. Qed.

(* ---- Stringify ---- *)
Lemma sv_abs : forall pp pp', (forall id, pp id = pp' id) -> forall v, sv pp v = d_sv pp' (abs v).
Proof.
  intros pp pp' Hpp. induction v as [s|i|s|l IH|sl IH] using value_ind'; try reflexivity.
  - apply Hpp.
  - rewrite sv_arr. cbn [abs]. rewrite d_sv_arr. f_equal. f_equal.
    induction IH as [|x r Hx Hr IHr]; [reflexivity|].
    cbn [sv_items d_sv_items map]. rewrite abs_is_undef. destruct (is_undef x); [exact IHr|].
    rewrite Hx. f_equal. f_equal. exact IHr.
  - rewrite sv_obj, abs_obj, d_sv_obj. f_equal. f_equal.
    induction sl as [|[[k x]|] r IHr]; [reflexivity| |]; inversion IH as [|? ? Hx Hr]; subst.
    + rewrite absm_cons_some. cbn [sv_slots d_sv_members]. rewrite abs_is_undef. cbn in Hx.
      destruct (is_undef x); [exact (IHr Hr)|]. rewrite Hx, (IHr Hr). reflexivity.
    + rewrite absm_cons_none. exact (IHr Hr).
Qed.

Lemma pool_sv_abs : forall id, pool_sv id = dpool_sv id.
Proof. intros id. unfold pool_sv, dpool_sv. rewrite pool_abs. apply sv_abs. reflexivity. Qed.

Lemma stringify_abs : forall v, stringify v = d_stringify (abs v).
Proof.
  intros v. destruct v as [s|i|s|l|sl]; unfold stringify, d_stringify.
  - apply (sv_abs _ _ pool_sv_abs (Undef s)).
  - cbn [abs]. rewrite pool_abs. destruct (pool_get i) as [s'|j|s'|l'|sl'] eqn:E.
    + apply (sv_abs _ _ pool_sv_abs (Undef s')).
    + apply (sv_abs _ _ pool_sv_abs (Ptr j)).
    + reflexivity.
    + apply (sv_abs _ _ pool_sv_abs (Arr l')).
    + rewrite abs_obj. rewrite <- abs_obj. apply (sv_abs _ _ pool_sv_abs (Obj sl')).
  - reflexivity.
  - apply (sv_abs _ _ pool_sv_abs (Arr l)).
  - rewrite abs_obj. rewrite <- abs_obj. apply (sv_abs _ _ pool_sv_abs (Obj sl)).
Qed.

(* ---- the getter dump (types, keys, values, iteration by index, Size) ---- *)
Lemma size_dump_abs : forall sl,
    size_dump (negb (has_hole sl)) (length sl) = size_dump (negb (has_hole sl)) (length (absm sl)).
Proof.
  intros sl. destruct (has_hole sl) eqn:Hh; [reflexivity|]. rewrite (nohole_live sl Hh). reflexivity.
Qed.

Lemma dump_abs : forall pp pp', (forall id, pp id = pp' id) -> forall v, dump pp v = d_dump pp' (abs v).
Proof.
  intros pp pp' Hpp. induction v as [s|i|s|l IH|sl IH] using value_ind'; try reflexivity.
  - cbn [dump abs d_dump]. f_equal. apply Hpp.
  - cbn [dump abs d_dump]. f_equal. f_equal. f_equal. rewrite map_map.
    induction IH as [|x r Hx Hr IHr]; [reflexivity|]. cbn [map]. rewrite Hx, IHr. reflexivity.
  - rewrite dump_obj, abs_obj, d_dump_obj, size_dump_abs. f_equal. f_equal. f_equal. f_equal. f_equal.
    induction sl as [|[[k x]|] r IHr]; [reflexivity| |]; inversion IH as [|? ? Hx Hr]; subst.
    + rewrite absm_cons_some. cbn [dump_slots d_dump_members]. cbn in Hx. rewrite Hx, (IHr Hr). reflexivity.
    + rewrite absm_cons_none. exact (IHr Hr).
Qed.

Lemma pool_dump_abs : forall id, pool_dump id = dpool_dump id.
Proof. intros id. unfold pool_dump, dpool_dump. rewrite pool_abs. apply dump_abs. reflexivity. Qed.

Lemma dump_value_abs : forall v, dump_value v = d_dump_value (abs v).
Proof.
  intros v. unfold dump_value, d_dump_value. rewrite (dump_abs _ _ pool_dump_abs v), stringify_abs. reflexivity.
Qed.

Lemma dump_state_abs : forall st, dump_state st = d_dump_state (abss st).
Proof.
  intros st. unfold dump_state, d_dump_state, abss. rewrite map_map. f_equal.
  apply map_ext. intros v. apply dump_value_abs.
Qed.

(* ---- typed getters, coercions, Size, Length ---- *)
Lemma read_np_abs : forall v, read_np v = d_read_np (abs v).
Proof.
  intros [s|i|s|l|sl]; try reflexivity.
  - cbn [read_np abs d_read_np]. rewrite map_length. reflexivity.
  - rewrite abs_obj. cbn [read_np d_read_np]. destruct (has_hole sl) eqn:Hh; [reflexivity|].
    rewrite (nohole_live sl Hh). reflexivity.
Qed.

Lemma read_value_abs : forall v, read_value v = d_read (abs v).
Proof.
  intros v. destruct v as [s|i|s|l|sl]; unfold read_value, d_read.
  - reflexivity.
  - cbn [abs]. rewrite pool_abs. apply read_np_abs.
  - reflexivity.
  - apply (read_np_abs (Arr l)).
  - rewrite abs_obj. rewrite <- abs_obj. apply (read_np_abs (Obj sl)).
Qed.

(* ---- the rendered loop ---- *)
Lemma render_member_abs : forall x, render_member x = d_render_member (abs x).
Proof.
  intros x. unfold render_member, d_render_member. rewrite <- deref_abs.
  destruct (deref x) as [s|i|s|l|sl]; reflexivity.
Qed.

Lemma render_elem_abs : forall e, render_elem e = d_render_elem (abs e).
Proof.
  intros e. unfold render_elem, d_render_elem. destruct (obj_slots_abs e) as [_ E]. rewrite <- E.
  f_equal. f_equal. f_equal. unfold absm. rewrite map_map. apply map_ext. intros [k x]. cbn [fst snd].
  rewrite abs_is_undef, render_member_abs. reflexivity.
Qed.

Lemma render_group_abs : forall kv, render_group kv = d_render_group (fst kv, abs (snd kv)).
Proof.
  intros [k x]. unfold render_group, d_render_group. cbn [fst snd]. rewrite abs_is_undef.
  destruct (is_undef x); [reflexivity|]. f_equal. f_equal. f_equal. f_equal.
  rewrite <- arr_items_abs, map_map. apply map_ext. intros e. rewrite abs_is_undef, render_elem_abs. reflexivity.
Qed.

Lemma render_groups_abs : forall v k, render_groups v k = d_render_groups (abs v) k.
Proof.
  intros v k. unfold render_groups, d_render_groups, d_render_groups_g. rewrite <- group_by_abs.
  destruct (group_by v k) as [ok [g|]]; unfold gb_abs; cbn [fst snd oabs option_map]; [|destruct ok; reflexivity].
  destruct ok; [|reflexivity]. f_equal. f_equal. destruct (obj_slots_abs g) as [_ E]. rewrite <- E.
  unfold absm. rewrite map_map. apply map_ext. intros kv. apply render_group_abs.
Qed.

(* ---- every operation, outputs included ---- *)
Theorem step_abs_all : forall st o, oc_abs (step st o) = d_step (abss st) o.
Proof.
  intros st o. destruct (is_reader o) eqn:Hr; [|apply step_abs; exact Hr].
  destruct o; try discriminate; unfold d_step; cbn [step d_step_g]; rewrite <- st_get_abs;
    destruct (st_get st t) as [v|]; cbn [oabs option_map oc_abs]; try reflexivity.
  - rewrite read_value_abs. reflexivity.
  - rewrite render_groups_abs. reflexivity.
Qed.

(* the observable text trace of a history *)
Theorem run_abs : forall ops st, run st ops = d_run (abss st) ops.
Proof.
  induction ops as [|o r IH]; intros st; [reflexivity|].
  cbn [run d_run]. rewrite <- (step_abs_all st o).
  destruct (step st o) as [st' out| |]; cbn [oc_abs].
  - rewrite dump_state_abs, IH. reflexivity.
  - rewrite IH. reflexivity.
  - reflexivity.
Qed.

Theorem run_model_is_run_spec : forall ops, run_model ops = run_spec ops.
Proof. intros ops. unfold run_model, run_spec. rewrite (run_abs ops init_state). reflexivity. Qed.

(* the planner marks exactly the steps the specification leaves unspecified *)
Fixpoint d_plan (st : dstate) (ops : list op) : list bool :=
  match ops with
  | [] => []
  | o :: r =>
    match d_step st o with
    | Done st' _ => false :: d_plan st' r
    | Skipped => false :: d_plan st r
    | Unspec => true :: d_plan st r
    end
  end.
Theorem plan_abs : forall ops st, plan st ops = d_plan (abss st) ops.
Proof.
  induction ops as [|o r IH]; intros st; [reflexivity|].
  cbn [plan d_plan]. rewrite <- (step_abs_all st o).
  destruct (step st o) as [st' out| |]; cbn [oc_abs]; rewrite IH; reflexivity.
Qed.

(* ---- coercions agree with the stored content ---- *)
Lemma coercions_agree :
  (forall n, get_uint64 (set_number (SUInt n)) = n /\ get_double_q (set_number (SUInt n)) = (real_den * Z.of_N n)%Z
             /\ set_bool (SUInt n) = Some (0 <? n))
  /\ (forall z, get_int64 (set_number (SInt z)) = z /\ get_uint64 (set_number (SInt z)) = wrap_u64 z
                /\ get_double_q (set_number (SInt z)) = (real_den * z)%Z /\ set_bool (SInt z) = Some (Z.ltb 0 z))
  /\ (forall q, get_double_q (set_number (SReal q)) = q /\ get_int64 (set_number (SReal q)) = Z.quot q real_den
                /\ set_bool (SReal q) = Some (Z.ltb 0 q))
  /\ (set_number STrue = NNat 1 /\ set_number SFalse = NNat 0 /\ set_number SNull = NNat 0
      /\ set_bool STrue = Some true /\ set_bool SFalse = Some false /\ set_bool SNull = Some false)
  /\ (forall t, set_number (SStr t) = parse_num t /\ char_and_length (SStr t) = Some t /\ scalar_text (SStr t) = t).
Proof. repeat split. Qed.

(* a value in int64 range read back through the unsigned getter and re-read as
   signed is itself (two's complement round trip) *)
Lemma wrap_roundtrip : forall z, (- two63 <= z < two63)%Z -> wrap_i64 (Z.of_N (wrap_u64 z)) = z.
Proof.
  intros z Hz. unfold wrap_i64, wrap_u64, two63, two64 in *.
  rewrite Z2N.id by (apply Z.mod_pos_bound; lia).
  rewrite Z.mod_mod by lia.
  destruct (Z.ltb (z mod 18446744073709551616) 9223372036854775808) eqn:E.
  - apply Z.ltb_lt in E. destruct (Z.ltb_spec z 0).
    + rewrite <- (Z.mod_unique z 18446744073709551616 (-1) (z + 18446744073709551616)) in E by lia. lia.
    + rewrite Z.mod_small in * by lia. reflexivity.
  - apply Z.ltb_ge in E. destruct (Z.ltb_spec z 0).
    + rewrite <- (Z.mod_unique z 18446744073709551616 (-1) (z + 18446744073709551616)) by lia. lia.
    + rewrite Z.mod_small in E by lia. lia.
Qed.
