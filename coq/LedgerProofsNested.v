(* LedgerProofsNested.v -- C16, phase 3: Array<Node> with nested Array<Node>: every operation of
   cpp/drv_nested.cpp, in the order of the current code, never reads through a dangling reference, never
   releases a dead block, and keeps the ownership ledger; all histories; the pre-D52 orders are Error UAF. *)
From Coq Require Import NArith List Arith Bool Lia.
From Qv Require Import SeqModel LedgerProofs LedgerValueModel LedgerProofsValue LedgerProofsValueOps LedgerProofsValueTop LedgerNestedModel.
Import ListNotations.

(* the ledger while an operation runs: [extra] = blocks held by its locals (a detached source) *)
Definition ninv (h : vheap) (tree : val) (extra : list nat) : Prop :=
  (forall x, cnt x (blocks tree) + cnt x extra = b2n (live h x)) /\ (forall x, nxt h <= x -> live h x = false).

Lemma ninv_vledger : forall h tree, ninv h tree [] <-> vledger (h, tree).
Proof.
  intros h tree. unfold ninv, vledger. cbn [fst snd]. split; intros (Hc & Hf); (split; [|exact Hf]); intros x; specialize (Hc x); rewrite cnt_nil in *; lia.
Qed.

Lemma change_ok : forall h tree extra p c c' k rem extra', ninv h tree extra -> vget tree p = Some c ->
  (forall x, cnt x (blocks c') + cnt x rem + cnt x extra' = cnt x (blocks c) + cnt x extra + cnt x (seq (nxt h) k)) ->
  exists h2, change h tree p c' k rem = Ok (h2, vset tree p c') /\ ninv h2 (vset tree p c') extra' /\ nxt h <= nxt h2.
Proof.
  intros h tree extra p c c' k rem extra' (Hc & Hf) Hg Hok.
  pose proof (valloc_cnt h k Hf) as Ha.
  assert (Hpre : forall x, cnt x rem <= b2n (live (valloc_n h k) x)).
  { intros x. rewrite Ha. specialize (Hok x). specialize (Hc x). pose proof (vget_cnt_le p tree c Hg x). lia. }
  destruct (vfree_list_ok rem (valloc_n h k) Hpre) as (h2 & E & Hn & Hfr).
  exists h2. unfold change. rewrite E. cbn [bind]. split; [reflexivity|]. split; [split|].
  - intros x. pose proof (vset_cnt p tree c Hg c' x). specialize (Hok x). specialize (Hc x). specialize (Hfr x). rewrite Ha in Hfr. lia.
  - intros x Hx. rewrite Hn in Hx. cbn [valloc_n nxt] in Hx. specialize (Hfr x). rewrite Ha in Hfr.
    rewrite (Hf x) in Hfr by lia. rewrite cnt_seq in Hfr.
    destruct (Nat.ltb_spec x (nxt h + k)); [lia|]. rewrite andb_false_r in Hfr. cbn [b2n] in Hfr.
    destruct (live h2 x); [cbn in Hfr; lia|reflexivity].
  - rewrite Hn. cbn. lia.
Qed.

Lemma detach_ok : forall h tree extra s sub, ninv h tree extra -> vget tree s = Some sub ->
  ninv h (vset tree s empty_arr) (blocks sub ++ extra).
Proof.
  intros h tree extra s sub (Hc & Hf) Hg. split; [|exact Hf]. intros x. rewrite cnt_app.
  pose proof (vset_cnt s tree sub Hg empty_arr x) as H1. cbn [blocks empty_arr flat_map app] in H1. rewrite cnt_nil in H1. specialize (Hc x). lia.
Qed.

Lemma ncheck_ok : forall h tree extra l, ninv h tree extra ->
  (forall x, In x l -> 0 < cnt x (blocks tree) + cnt x extra) -> check_live h l = Ok tt.
Proof.
  intros h tree extra l (Hc & _) Hl. apply check_live_ok. intros x Hx. specialize (Hl x Hx). specialize (Hc x).
  destruct (live h x); [reflexivity|cbn in Hc; lia].
Qed.

Lemma vown_cnt_le : forall v x, cnt x (vown v) <= cnt x (blocks v).
Proof. intros [t o k] x. cbn [vown blocks]. rewrite cnt_app. lia. Qed.

Lemma holder_in_tree : forall tree s x, In x (holder tree s) -> 0 < cnt x (blocks tree).
Proof.
  intros tree s x. unfold holder. destruct (rev s) as [|[|a] [|b rq]]; try (intros []).
  destruct (vget tree (rev rq)) as [par|] eqn:E; [|intros []]. intros Hx. apply cnt_In in Hx.
  pose proof (vown_cnt_le par x). pose proof (vget_cnt_le _ _ _ E x). lia.
Qed.

Lemma arr_at_get : forall tree p c, arr_at tree p = Some c -> vget tree p = Some c /\ vtag c = TArr.
Proof.
  intros tree p c. unfold arr_at. destruct (vget tree p) as [v|]; [|discriminate]. unfold is_arr.
  destruct v as [t o k]. destruct t; try discriminate. intros [= <-]. auto.
Qed.

Lemma resized_ok : forall grow c n c1 k rem, vtag c = TArr -> resized grow c n = (c1, k, rem) ->
  vkids c1 = vkids c /\ forall x, cnt x (blocks c1) + cnt x rem = cnt x (blocks c) + cnt x (seq n k).
Proof.
  intros grow [t own kids] n c1 k rem Ht H. unfold resized in H. cbn [vown vkids] in H.
  destruct (grown grow own n) as ((own', k0), rem0) eqn:Eg. injection H as <- <- <-. split; [reflexivity|].
  intros x. pose proof (grown_ok _ _ _ _ _ _ Eg x). cbn [blocks]. rewrite !cnt_app. lia.
Qed.

Lemma blocks_leaf : forall id, blocks (leaf id) = [].
Proof. reflexivity. Qed.

(* ---------- the operations ---------- *)
Definition nres_ok (st : nstate) (r : res nstate) : Prop :=
  exists st', r = Ok st' /\ vledger st' /\ nxt (fst st) <= nxt (fst st').

Lemma nres_same : forall st, vledger st -> nres_ok st (Ok st).
Proof. intros st Hl. exists st. auto. Qed.

Lemma npush_ledger : forall st d id grow, vledger st -> nres_ok st (npush st d id grow).
Proof.
  intros (h, tree) d id grow Hl. unfold npush. destruct (arr_at tree d) as [c|] eqn:Ed; [|now apply nres_same].
  apply arr_at_get in Ed as (Hg & Ht). destruct (resized grow c (nxt h)) as ((c1, k), rem) eqn:Er.
  destruct (resized_ok _ _ _ _ _ _ Ht Er) as (Hk & Hb).
  destruct (change_ok h tree [] d c (Node TArr (vown c1) (vkids c ++ [leaf id])) k rem [] (proj2 (ninv_vledger h tree) Hl) Hg) as (h2 & E & Hi & Hn).
  - intros x. specialize (Hb x). destruct c1 as [t1 o1 k1]. cbn [vown vkids blocks] in *. subst k1.
    rewrite !cnt_app, cnt_flat_map_app in *. cbn [flat_map]. rewrite blocks_leaf. cnt_norm. lia.
  - exists (h2, vset tree d (Node TArr (vown c1) (vkids c ++ [leaf id]))). split; [exact E|]. split; [now apply ninv_vledger|exact Hn].
Qed.

Lemma nmove_assign_ledger : forall st d s, vledger st -> nres_ok st (nmove_assign st d s).
Proof.
  intros (h, tree) d s Hl. unfold nmove_assign. destruct (arr_at tree d) as [c0|] eqn:Ed; [|now apply nres_same].
  destruct (arr_at tree s) as [sub|] eqn:Es; [|now apply nres_same]. apply arr_at_get in Es as (Hs & _).
  pose proof (proj2 (ninv_vledger h tree) Hl) as Hi.
  rewrite (ncheck_ok h tree [] _ Hi). 2:{ intros x Hx. pose proof (holder_in_tree tree s x Hx). lia. }
  cbn [bind]. destruct (vget (vset tree s empty_arr) d) as [c|] eqn:Eg; [|now apply nres_same].
  pose proof (detach_ok h tree [] s sub Hi Hs) as Hi1.
  destruct (change_ok h _ _ d c sub 0 (blocks c) [] Hi1 Eg) as (h2 & E & Hi2 & Hn).
  - intros x. rewrite app_nil_r. cnt_norm. lia.
  - eexists. split; [exact E|]. split; [now apply ninv_vledger|exact Hn].
Qed.

Lemma ncopy_assign_ledger : forall st d s, vledger st -> nres_ok st (ncopy_assign st d s).
Proof.
  intros (h, tree) d s Hl. unfold ncopy_assign. destruct (arr_at tree d) as [c|] eqn:Ed; [|now apply nres_same].
  destruct (arr_at tree s) as [src|] eqn:Es; [|now apply nres_same]. apply arr_at_get in Es as (Hs & _). apply arr_at_get in Ed as (Hd & _).
  pose proof (proj2 (ninv_vledger h tree) Hl) as Hi.
  rewrite (ncheck_ok h tree [] _ Hi). 2:{ intros x Hx. pose proof (holder_in_tree tree s x Hx). lia. }
  cbn [bind]. rewrite (ncheck_ok h tree [] _ Hi). 2:{ intros x Hx. apply cnt_In in Hx. pose proof (vget_cnt_le _ _ _ Hs x). lia. }
  cbn [bind].
  destruct (change_ok h tree [] d c (copy_of (nxt h) src) (length (blocks (norm src))) (blocks c) [] Hi Hd) as (h2 & E & Hi2 & Hn).
  - intros x. rewrite copy_of_blocks. cnt_norm. lia.
  - eexists. split; [exact E|]. split; [now apply ninv_vledger|exact Hn].
Qed.

Lemma nappend_copy_ledger : forall st d s grow, vledger st -> nres_ok st (nappend_copy st d s grow).
Proof.
  intros (h, tree) d s grow Hl. unfold nappend_copy. destruct (arr_at tree d) as [c|] eqn:Ed; [|now apply nres_same].
  destruct (arr_at tree s) as [src0|] eqn:Es; [|now apply nres_same]. apply arr_at_get in Ed as (Hd & Ht).
  pose proof (proj2 (ninv_vledger h tree) Hl) as Hi.
  rewrite (ncheck_ok h tree [] _ Hi). 2:{ intros x Hx. pose proof (holder_in_tree tree s x Hx). lia. }
  cbn [bind]. destruct (vkids src0) as [|e0 es0]; [now apply nres_same|].
  destruct (resized grow c (nxt h)) as ((c1, k), rem) eqn:Er. destruct (resized_ok _ _ _ _ _ _ Ht Er) as (Hk & Hb).
  destruct (change_ok h tree [] d c c1 k rem [] Hi Hd) as (h1 & E1 & Hi1 & Hn1).
  { intros x. specialize (Hb x). cnt_norm. lia. }
  rewrite E1. cbn [bind]. set (tree1 := vset tree d c1) in *.
  destruct (arr_at tree1 s) as [src|] eqn:Es1.
  2:{ eexists. split; [reflexivity|]. split; [now apply ninv_vledger|exact Hn1]. }
  apply arr_at_get in Es1 as (Hs1 & _).
  rewrite (ncheck_ok h1 tree1 [] _ Hi1). 2:{ intros x Hx. apply cnt_In in Hx. pose proof (vget_cnt_le _ _ _ Hs1 x). lia. }
  cbn [bind]. destruct (copies (nxt h1) (vkids src)) as (n1, news) eqn:Ec. destruct (copies_ok _ _ _ _ Ec) as (Hle & Hcn).
  assert (Hd1 : vget tree1 d = Some c1).
  { subst tree1. clear - Hd. revert tree Hd. induction d as [|a r IH]; intros tree Hd; [reflexivity|].
    cbn [vget vset] in *. destruct (nth_error (vkids tree) a) as [ck|] eqn:E; [|discriminate]. cbn [vkids].
    assert (Hn : nth_error (replace_nth (vkids tree) a (vset ck r c1)) a = Some (vset ck r c1)).
    { clear - E. revert a E. induction (vkids tree) as [|b l IHl]; intros [|a] E; cbn in *; try discriminate; auto. }
    rewrite Hn. now apply IH. }
  destruct (change_ok h1 tree1 [] d c1 (Node TArr (vown c1) (vkids c1 ++ news)) (n1 - nxt h1) [] [] Hi1 Hd1) as (h2 & E2 & Hi2 & Hn2).
  - intros x. specialize (Hcn x). destruct c1 as [t1 o1 k1]. cbn [vown vkids blocks]. rewrite !cnt_app, cnt_flat_map_app. cnt_norm. lia.
  - eexists. split; [exact E2|]. split; [now apply ninv_vledger|]. cbn [fst] in *. lia.
Qed.

Lemma vget_vset_same : forall d tree c c1, vget tree d = Some c -> vget (vset tree d c1) d = Some c1.
Proof.
  induction d as [|a r IH]; intros tree c c1 Hd; [reflexivity|].
  cbn [vget vset] in *. destruct (nth_error (vkids tree) a) as [ck|] eqn:E; [|discriminate]. cbn [vkids].
  assert (Hn : nth_error (replace_nth (vkids tree) a (vset ck r c1)) a = Some (vset ck r c1)).
  { clear - E. revert a E. induction (vkids tree) as [|b l IHl]; intros [|a] E; cbn in *; try discriminate; auto. }
  rewrite Hn. now apply (IH ck c).
Qed.

Lemma nappend_move_ledger : forall st d s grow, vledger st -> nres_ok st (nappend_move st d s grow).
Proof.
  intros (h, tree) d s grow Hl. unfold nappend_move. destruct (unrelated d s || is_prefix d s); [|now apply nres_same].
  destruct (arr_at tree d) as [c0|] eqn:Ed; [|now apply nres_same].
  destruct (arr_at tree s) as [sub|] eqn:Es; [|now apply nres_same]. apply arr_at_get in Es as (Hs & _).
  pose proof (proj2 (ninv_vledger h tree) Hl) as Hi.
  rewrite (ncheck_ok h tree [] _ Hi). 2:{ intros x Hx. pose proof (holder_in_tree tree s x Hx). lia. }
  cbn [bind]. pose proof (detach_ok h tree [] s sub Hi Hs) as Hi1. rewrite app_nil_r in Hi1.
  set (tree1 := vset tree s empty_arr) in *.
  destruct (arr_at tree1 d) as [c|] eqn:Ed1; [|now apply nres_same]. apply arr_at_get in Ed1 as (Hd1 & Ht).
  destruct sub as [ts sown skids]. cbn [vown vkids].
  destruct (vown c) as [|b0 own0] eqn:Eown.
  - (* Capacity() == 0 *)
    destruct (change_ok h tree1 _ d c (Node TArr sown (vkids c ++ skids)) 0 [] [] Hi1 Hd1) as (h2 & E & Hi2 & Hn).
    + intros x. destruct c as [t o k]. cbn [vown vkids blocks] in *. subst o. rewrite !cnt_app, cnt_flat_map_app. cnt_norm. lia.
    + eexists. split; [exact E|]. split; [now apply ninv_vledger|exact Hn].
  - destruct (resized grow c (nxt h)) as ((c1, k), rem) eqn:Er. destruct (resized_ok _ _ _ _ _ _ Ht Er) as (Hk & Hb).
    destruct (change_ok h tree1 _ d c c1 k rem (blocks (Node ts sown skids)) Hi1 Hd1) as (h1 & E1 & Hi2 & Hn1).
    { intros x. specialize (Hb x). lia. }
    rewrite E1. cbn [bind].
    rewrite (ncheck_ok h1 _ _ sown Hi2). 2:{ intros x Hx. apply cnt_In in Hx. cbn [blocks]. rewrite cnt_app. lia. }
    cbn [bind].
    destruct (change_ok h1 (vset tree1 d c1) _ d c1 (Node TArr (vown c1) (vkids c1 ++ skids)) 0 sown [] Hi2 (vget_vset_same d tree1 c c1 Hd1)) as (h2 & E2 & Hi3 & Hn2).
    + intros x. destruct c1 as [t1 o1 k1]. cbn [vown vkids blocks]. rewrite !cnt_app, cnt_flat_map_app. cnt_norm. lia.
    + eexists. split; [exact E2|]. split; [now apply ninv_vledger|]. cbn [fst] in *. lia.
Qed.

Theorem nstep_ledger : forall st op, vledger st -> exists st', nstep st op = Ok st' /\ vledger st' /\ nxt (fst st) <= nxt (fst st').
Proof.
  intros st [d id grow|d s|d s|d s grow|d s grow] Hl; cbn [nstep].
  - now apply npush_ledger. - now apply nmove_assign_ledger. - now apply ncopy_assign_ledger.
  - now apply nappend_copy_ledger. - now apply nappend_move_ledger.
Qed.

Theorem nrun_ledger : forall ops st, vledger st -> exists st', nrun ops st = Ok st' /\ vledger st'.
Proof.
  induction ops as [|op r IH]; intros st Hl; cbn [nrun]; [exists st; auto|].
  destruct (nstep_ledger st op Hl) as (st1 & E1 & Hl1 & _). rewrite E1. cbn [bind]. now apply IH.
Qed.

Lemma vledger_nstate0 : vledger nstate0.
Proof. split; cbn; [reflexivity|reflexivity]. Qed.

(* C16 for Array<Node> with nested Array<Node>: every history from the empty array *)
Theorem nested_ledger : forall ops : list nop,
  exists st st', nrun ops nstate0 = Ok st /\ vledger st /\ destroy_all_values st = Ok st' /\ live_ids (fst st') = [].
Proof.
  intros ops. destruct (nrun_ledger ops nstate0 vledger_nstate0) as (st & E & Hl).
  destruct (destroy_all_values_empty st Hl) as (st' & Ed & _ & Hlive & _).
  exists st, st'. auto.
Qed.

(* ---------- non-vacuity; the orders before D52 ---------- *)
(* a = [1[3,4], 2]: exact-fit growth (every push reallocates) *)
Definition ex_build : list nop :=
  [NPush [0] 1 true; NPush [0] 2 true; NPush [0;0;0] 3 true; NPush [0;0;0] 4 true; NPush [0;0;0;1;0] 5 true].

Example ex_nested_contents :
  match nrun (ex_build ++ [NAppendCopy [0] [0;0;0] true; NAppendMove [0] [0;0;0] true; NCopyAssign [0] [0;1;0];
                           NPush [0] 7 true; NPush [0;0;0] 8 true; NMoveAssign [0] [0;0;0]]) nstate0 with
  | Ok st => contents st = [TOpen; TId 8; TOpen; TClose; TClose] /\ length (live_ids (fst st)) = 1
  | Error _ => False
  end.
Proof. vm_compute. auto. Qed.

Example ex_nested_append :
  match nrun (ex_build ++ [NAppendCopy [0] [0;0;0] true; NAppendMove [0] [0;0;0] true]) nstate0 with
  | Ok st => contents st = [TOpen; TId 1; TOpen; TClose; TId 2; TOpen; TClose;
                            TId 3; TOpen; TClose; TId 4; TOpen; TId 5; TOpen; TClose; TClose;
                            TId 3; TOpen; TClose; TId 4; TOpen; TId 5; TOpen; TClose; TClose; TClose]
  | Error _ => False
  end.
Proof. vm_compute. reflexivity. Qed.

(* D52: root += root[0].kids and root += Move(root[0].kids) with the growth BEFORE the source record is read *)
Example ex_d52_resize_first_is_uaf :
  match nrun ex_build nstate0 with
  | Ok st => append_copy_resize_first st [0] [0;0;0] true = Error UAF /\
             append_move_resize_first st [0] [0;0;0] true = Error UAF /\
             (exists st1, nappend_copy st [0] [0;0;0] true = Ok st1) /\ (exists st2, nappend_move st [0] [0;0;0] true = Ok st2)
  | Error _ => False
  end.
Proof. vm_compute. repeat split; eexists; reflexivity. Qed.

(* D52 in general: whenever the source record lies in the destination's element block and the append
   reallocates, the order "grow first, then read the source record" reads a released block *)
Theorem d52_resize_first_is_uaf : forall h tree d s c src,
  vledger (h, tree) -> arr_at tree d = Some c -> arr_at tree s = Some src ->
  vown c <> [] -> holder tree s = vown c ->
  append_copy_resize_first (h, tree) d s true = Error UAF /\ append_move_resize_first (h, tree) d s true = Error UAF.
Proof.
  intros h tree d s c src Hl Hd Hs Hown Hh.
  assert (H : forall r, (let '(c1, k, rem) := resized true c (nxt h) in
                         st1 <- change h tree d c1 k rem ;; _ <- check_live (fst st1) (holder tree s) ;; Ok st1) = r -> r = Error UAF).
  { intros r <-. pose proof Hd as Hd0. apply arr_at_get in Hd0 as (Hg & Ht).
    destruct (resized true c (nxt h)) as ((c1, k), rem) eqn:Er. destruct (resized_ok _ _ _ _ _ _ Ht Er) as (_ & Hb).
    destruct (change_ok h tree [] d c c1 k rem [] (proj2 (ninv_vledger h tree) Hl) Hg) as (h2 & E & _ & _).
    { intros x. specialize (Hb x). cnt_norm. lia. }
    rewrite E. cbn [bind fst]. rewrite Hh.
    unfold resized, grown in Er. destruct (vown c) as [|b own] eqn:Eo; [contradiction|]. injection Er as <- <- <-.
    unfold change in E. apply bind_ok in E as (h2' & E & E2). injection E2 as <-. apply vfree_list_inv in E as (_ & Hfr).
    specialize (Hfr b). rewrite cnt_cons, Nat.eqb_refl in Hfr. cbn [b2n] in Hfr.
    assert (Hdead : live h2' b = false).
    { destruct (live h2' b); [|reflexivity]. cbn [b2n] in Hfr. destruct (live (valloc_n h 1) b); cbn in Hfr; lia. }
    cbn [check_live]. now rewrite Hdead. }
  unfold append_copy_resize_first, append_move_resize_first. rewrite Hd, Hs. split; now apply H.
Qed.
