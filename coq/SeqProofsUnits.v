(* SeqProofsUnits.v -- C14: facts about the code-unit helpers of SeqModel (comparison,
   C-string length, the Reverse swap loop, the InsertAt shift loop, Trim). *)
From Coq Require Import NArith List Arith Bool Lia.
From Qv Require Import SeqModel SeqLists SeqProofs.
Import ListNotations.
Local Open Scope N_scope.

Lemma list_eqb_len : forall a b, length a <> length b -> list_eqb a b = false.
Proof.
  induction a as [|x a IH]; intros [|y b] H; cbn in *; try reflexivity; try congruence.
  rewrite IH by congruence. apply andb_false_r.
Qed.

Lemma cstr_len_le : forall l, (cstr_len l <= length l)%nat.
Proof. induction l as [|x l IH]; cbn; [lia|]. destruct (x =? 0); lia. Qed.

Lemma cstr_len_app0 : forall m rest, cstr_len (m ++ 0 :: rest) = cstr_len m.
Proof.
  induction m as [|x m IH]; intros rest; cbn; [reflexivity|].
  destruct (x =? 0); [reflexivity|]. now rewrite IH.
Qed.

Lemma firstn_cstr_app : forall l r, firstn (cstr_len l) (l ++ r) = firstn (cstr_len l) l.
Proof.
  intros l r. rewrite firstn_app. pose proof (cstr_len_le l).
  replace (cstr_len l - length l)%nat with 0%nat by lia. now rewrite firstn_O, app_nil_r.
Qed.

Lemma firstn_cstr_length : forall l, length (firstn (cstr_len l) l) = cstr_len l.
Proof. intros l. rewrite firstn_length. pose proof (cstr_len_le l). lia. Qed.

(* ---------- Reverse ---------- *)
Lemma nth_middle' : forall (pre : list N) x post, nth (length pre) (pre ++ x :: post) 0 = x.
Proof. intros. apply nth_middle. Qed.

Lemma splice_middle : forall (pre : list N) x post y,
  splice (pre ++ x :: post) (length pre) [y] = pre ++ y :: post.
Proof.
  intros pre x post y. unfold splice. cbn [length].
  rewrite firstn_app, Nat.sub_diag, firstn_O, app_nil_r, firstn_all.
  rewrite skipn_app. replace (length pre + 1 - length pre)%nat with 1%nat by lia.
  rewrite skipn_all2 by lia. reflexivity.
Qed.

Lemma swap_cells_ends : forall pre x mid y post,
  swap_cells (pre ++ x :: mid ++ y :: post) (length pre) (length pre + 1 + length mid)
  = pre ++ y :: mid ++ x :: post.
Proof.
  intros pre x mid y post. unfold swap_cells. cbv zeta.
  assert (E1 : nth (length pre) (pre ++ x :: mid ++ y :: post) 0 = x) by apply nth_middle.
  assert (E2 : nth (length pre + 1 + length mid) (pre ++ x :: mid ++ y :: post) 0 = y).
  { replace (pre ++ x :: mid ++ y :: post) with ((pre ++ x :: mid) ++ y :: post) by (now rewrite <- app_assoc).
    replace (length pre + 1 + length mid)%nat with (length (pre ++ x :: mid)) by (rewrite app_length; cbn; lia).
    apply nth_middle. }
  rewrite E1, E2. rewrite splice_middle.
  replace (pre ++ y :: mid ++ y :: post) with ((pre ++ y :: mid) ++ y :: post) by (now rewrite <- app_assoc).
  replace (length pre + 1 + length mid)%nat with (length (pre ++ y :: mid)) by (rewrite app_length; cbn; lia).
  rewrite splice_middle. now rewrite <- app_assoc.
Qed.

Lemma swap_cells_same : forall pre x post,
  swap_cells (pre ++ x :: post) (length pre) (length pre) = pre ++ x :: post.
Proof.
  intros pre x post. unfold swap_cells. cbv zeta. rewrite nth_middle'. now rewrite !splice_middle.
Qed.

Lemma list_ends : forall (m : list N), (2 <= length m)%nat -> exists x mid y, m = x :: mid ++ [y].
Proof.
  intros m Hm. destruct m as [|x m]; [cbn in Hm; lia|].
  destruct (exists_last (l := m)) as (mid & y & ->); [destruct m; [cbn in Hm; lia|discriminate]|].
  eauto.
Qed.

Lemma rev_loop_mid : forall fuel mid pre post, (length mid <= fuel)%nat ->
  rev_loop fuel (length pre) (length pre + length mid) (pre ++ mid ++ post) = pre ++ rev mid ++ post.
Proof.
  induction fuel as [|fuel IH]; intros mid pre post Hf.
  - destruct mid; [reflexivity|cbn in Hf; lia].
  - cbn [rev_loop]. destruct mid as [|x mid].
    + cbn [length]. rewrite Nat.add_0_r, Nat.ltb_irrefl. reflexivity.
    + destruct mid as [|x2 mid2].
      * cbn [length]. destruct (Nat.ltb_spec (length pre) (length pre + 1)) as [_|?]; [|lia].
        replace (length pre + 1 - 1)%nat with (length pre) by lia.
        cbn [app]. rewrite swap_cells_same.
        destruct fuel as [|f]; [reflexivity|]. cbn [rev_loop].
        destruct (Nat.ltb_spec (S (length pre)) (length pre)); [lia|reflexivity].
      * destruct (list_ends (x :: x2 :: mid2)) as (a & m & y & E); [cbn; lia|].
        injection E as <- E2. 
        assert (Hl : length (x2 :: mid2) = (length m + 1)%nat) by (rewrite E2, app_length; cbn; lia).
        rewrite E2. cbn [length] in Hl |- *. rewrite app_length. cbn [length].
        destruct (Nat.ltb_spec (length pre) (length pre + S (length m + 1))) as [_|?]; [|lia].
        replace (length pre + S (length m + 1) - 1)%nat with (length pre + 1 + length m)%nat by lia.
        replace (pre ++ (x :: m ++ [y]) ++ post) with (pre ++ x :: m ++ y :: post)
          by (cbn [app]; now rewrite <- app_assoc).
        rewrite swap_cells_ends.
        replace (pre ++ y :: m ++ x :: post) with ((pre ++ [y]) ++ m ++ (x :: post)) by (now rewrite <- app_assoc).
        replace (S (length pre)) with (length (pre ++ [y])) by (rewrite app_length; cbn; lia).
        replace (length pre + 1 + length m)%nat with (length (pre ++ [y]) + length m)%nat by (rewrite app_length; cbn; lia).
        rewrite IH by (cbn [length] in Hf; lia).
        cbn [rev]. rewrite rev_app_distr. cbn [rev app]. now rewrite <- !app_assoc.
Qed.

Lemma rev_loop_spec : forall c idx, rev_loop (length c) idx (length c) c = reverse_spec idx c.
Proof.
  intros c idx. unfold reverse_spec. destruct (Nat.lt_ge_cases idx (length c)) as [Hlt|Hge].
  - pose proof (rev_loop_mid (length c) (skipn idx c) (firstn idx c) [] ltac:(rewrite skipn_length; lia)) as H.
    rewrite !app_nil_r, firstn_skipn in H. rewrite firstn_length, skipn_length in H.
    replace (Nat.min idx (length c)) with idx in H by lia.
    replace (idx + (length c - idx))%nat with (length c) in H by lia. exact H.
  - rewrite skipn_all2, firstn_all2 by lia. cbn [rev]. rewrite app_nil_r.
    destruct (length c) as [|f] eqn:E; [reflexivity|]. cbn [rev_loop].
    destruct (Nat.ltb_spec idx (S f)); [lia|reflexivity].
Qed.

Lemma reverse_spec_length : forall idx l, length (reverse_spec idx l) = length l.
Proof.
  intros idx l. unfold reverse_spec. rewrite app_length, rev_length, <- app_length. now rewrite firstn_skipn.
Qed.

(* ---------- InsertAt ---------- *)
Lemma firstn_pred_nth : forall (m : list N), m <> [] ->
  firstn (length m - 1) m ++ [nth (length m - 1) m 0] = m.
Proof.
  intros m Hm. destruct (exists_last Hm) as (m' & y & ->).
  rewrite app_length. cbn [length]. replace (length m' + 1 - 1)%nat with (length m') by lia.
  rewrite firstn_app, Nat.sub_diag, firstn_O, app_nil_r, firstn_all. now rewrite nth_middle.
Qed.

Lemma nth_skipn' : forall (c : list N) a b, nth (a + b) c 0 = nth b (skipn a c) 0.
Proof.
  intros c a. revert c. induction a as [|a IH]; intros c b; [reflexivity|].
  destruct c as [|x c]; [cbn; now destruct b|]. cbn [Nat.add nth skipn]. apply IH.
Qed.

Lemma insert_shift_spec : forall c ch idx, (idx < length c)%nat ->
  fst (insert_shift c ch idx) ++ [snd (insert_shift c ch idx)] = firstn idx c ++ ch :: skipn idx c /\
  length (fst (insert_shift c ch idx)) = length c.
Proof.
  intros c ch idx Hlt. unfold insert_shift. cbn [fst snd]. split.
  - rewrite <- app_assoc. f_equal. cbn [app]. f_equal.
    set (m := skipn idx c). assert (Hm : length m = (length c - idx)%nat) by apply skipn_length.
    replace (length c - 1 - idx)%nat with (length m - 1)%nat by lia.
    replace (length c - 1)%nat with (idx + (length m - 1))%nat by lia.
    rewrite nth_skipn'. fold m. apply firstn_pred_nth. intros E. rewrite E in Hm. cbn in Hm. lia.
  - rewrite app_length, firstn_length. cbn [length]. rewrite firstn_length, skipn_length. lia.
Qed.

(* ---------- Trim ---------- *)
Lemma skipn_take_while : forall p l, skipn (length (take_while p l)) l = drop_while p l.
Proof.
  intros p. induction l as [|x l IH]; cbn; [reflexivity|]. destruct (p x); cbn; [apply IH|reflexivity].
Qed.
Lemma take_while_le : forall p l, (length (take_while p l) <= length l)%nat.
Proof. intros p. induction l as [|x l IH]; cbn; [lia|]. destruct (p x); cbn; lia. Qed.

Lemma trim_bounds_spec : forall c,
  firstn (snd (trim_bounds c)) (skipn (fst (trim_bounds c)) c) = trim_spec c /\
  (fst (trim_bounds c) + snd (trim_bounds c) <= length c)%nat.
Proof.
  intros c. unfold trim_bounds, trim_spec. destruct c as [|x c']; [cbn; auto|].
  set (c := x :: c'). cbn [fst snd].
  rewrite skipn_take_while. set (r := drop_while is_ws c).
  assert (Hr : (length r = length c - length (take_while is_ws c))%nat)
    by (subst r; rewrite <- skipn_take_while; apply skipn_length).
  pose proof (take_while_le is_ws c). pose proof (take_while_le is_ws (rev r)) as Hr2. rewrite rev_length in Hr2.
  split; [|lia].
  rewrite firstn_skipn_rev. rewrite <- skipn_take_while.
  f_equal. f_equal. lia.
Qed.
