(* Properties_C13.v -- C13: the hash array is an insertion-ordered map under every
   operation sequence.  Statements only; proofs are in HtabProofs*.v.

   Model: HtabModel.v (HashTable.hpp / HArray.hpp / HList.hpp, StringUtils::Hash).
   `live s` = the live entries in iteration order; `sp_*` = association-list operations.
   All theorems hold for arbitrary keys (empty, embedded NULs) and ANY collision
   pattern: the proofs are a Section over an arbitrary hash H with H k <> 0 and never
   use injectivity of H; here they are instantiated with the modelled hash. *)
From Coq Require Import List NArith Arith Bool Permutation Sorting.Sorted.
From Qv Require Import HtabModel HtabProofsHash HtabProofsInv HtabProofsOps HtabProofsHistory HtabProofsInst.
Import ListNotations.

(* The modelled StringUtils::Hash has bit 31 set and fits 32 bits, for every key. *)
Theorem c13_hash_top_bit : forall k : list N, N.testbit (c13_hash k) 31 = true /\ (c13_hash k < w32)%N.
Proof. exact c13_hash_top_bit_l. Qed.
Print Assumptions c13_hash_top_bit.

(* ... hence it is never 0, the value that marks a removed item. *)
Theorem c13_hash_nonzero : forall k : list N, c13_hash k <> 0%N.
Proof. exact c13_hash_nonzero_l. Qed.
Print Assumptions c13_hash_nonzero.

(* The invariant (HtabProofsInv.Inv): capacity 0 or a power of two, |heads| = capacity,
   |items| <= capacity, live items store the hash of their key and have pairwise distinct
   keys, and for every bucket there is a duplicate-free chain from its head that contains
   only items of that bucket and every live item of that bucket.  It holds initially. *)
Theorem c13_inv_init : CInv empty_ht.
Proof. exact c13_inv_init_l. Qed.
Print Assumptions c13_inv_init.

(* ALL operation sequences (all 17 operation kinds, incl. Sort and positional operations
   in states with removed slots): no chain walk ever runs out of fuel and the invariant
   holds afterwards. *)
Theorem c13_history_inv : forall ops : list cop,
  exists s outs, c13_run ops empty_ht = Some (s, outs) /\ CInv s.
Proof. exact c13_history_inv_l. Qed.
Print Assumptions c13_history_inv.

(* Refinement, lifted to all operation sequences by induction over the operation list
   (all 17 operation kinds: Insert, Get/operator[], HList::Insert, Remove, RemoveIndex,
   RemoveIndex(GetKeyIndex k), Rename, Resize, Expect, Compress, Clear, Reset, Reserve, Sort,
   copy, move, merge): whenever the association-list specification of a history is
   defined -- it is undefined only for RemoveIndex / a shrinking Resize applied in a state
   that may hold removed slots, where positions depend on the growth policy -- the model
   produces the same outputs, its live entries IN ITERATION ORDER are the specification's
   list, and a `clean` specification state has no removed slot. *)
Theorem c13_history : forall (ops : list cop) l c outs,
  c13_sp_run ops ([], true) = Some ((l, c), outs) ->
  exists s, c13_run ops empty_ht = Some (s, outs) /\ CInv s /\ live s = l /\ (c = true -> c13_no_dead s).
Proof. exact c13_history_l. Qed.
Print Assumptions c13_history.

(* In the property's words, end to end: after ANY operation sequence whose specification is
   defined, a key is found exactly when the association list has it (stored and not removed
   since), lookup returns the list's value (the last one stored), the entries in iteration
   order are the list (first-insertion order, key order after a sort: see the c13_spec theorems), the index
   reported for a key names the slot holding that key, and in states without removed
   slots that index is the key's position in iteration order. *)
Theorem c13_history_observe : forall ops l c outs (k : key),
  c13_sp_run ops ([], true) = Some ((l, c), outs) ->
  exists s r, c13_run ops empty_ht = Some (s, outs) /\ live s = l /\
    c13_lookup k s = Some r /\ c13_get_key_index k s = Some r /\
    match r with
    | Some i => exists v, c13_get_slot i s = Some (k, v) /\ sp_get key_eqb l k = Some v /\
                          (c = true -> sp_index key_eqb l k = Some i)
    | None => sp_get key_eqb l k = None
    end.
Proof. exact c13_history_observe_l. Qed.
Print Assumptions c13_history_observe.

(* One operation from ANY state satisfying the invariant (not only reachable ones):
   c13_linked s (l, clean) := live s = l /\ (clean = true -> no removed slot in s). *)
Theorem c13_step_refines : forall (o : cop) s st st' ou,
  CInv s -> c13_linked s st -> c13_sp_step o st = Some (st', ou) ->
  exists s', c13_step o s = Some (s', ou) /\ CInv s' /\ c13_linked s' st'.
Proof. exact c13_step_refines_l. Qed.
Print Assumptions c13_step_refines.

(* every operation terminates without a fuel error and keeps the invariant, in every state *)
Theorem c13_step_total : forall (o : cop) s, CInv s -> exists s' ou, c13_step o s = Some (s', ou) /\ CInv s'.
Proof. exact c13_step_total_l. Qed.
Print Assumptions c13_step_total.

(* fuel sufficiency for find *)
Theorem c13_find_fuel : forall s k, CInv s -> 0 < cap s -> c13_find_key s k <> None.
Proof. exact c13_find_fuel_l. Qed.
Print Assumptions c13_find_fuel.

(* Sort (the transliterated Memory::Sort quicksort + rehash) yields the entries in the
   order of the specification's sort ... *)
Theorem c13_sort_refines : forall asc s, CInv s ->
  exists s', c13_sort asc s = Some s' /\ CInv s' /\ live s' = @sp_sort key N key_ltb asc (live s).
Proof. exact c13_sort_refines_l. Qed.
Print Assumptions c13_sort_refines.

(* ... which is a permutation without inversions w.r.t. the key comparison (key order) *)
Theorem c13_spec_sort : forall asc (l : list (key * N)),
  Permutation l (@sp_sort key N key_ltb asc l) /\
  StronglySorted (fun x y => @pair_before key N key_ltb asc y x = false) (@sp_sort key N key_ltb asc l).
Proof. exact c13_spec_sort_l. Qed.
Print Assumptions c13_spec_sort.

(* Has / GetValue / GetKeyIndex / GetKey in ANY state satisfying the invariant: a key is
   found exactly when the association list has it, with the list's value; the index
   returned for a key names the slot holding that key (key -> index -> key). *)
Theorem c13_lookup : forall k s, CInv s ->
  exists r, c13_lookup k s = Some r /\ c13_get_key_index k s = Some r /\
    match r with
    | Some i => exists v, c13_get_slot i s = Some (k, v) /\ sp_get key_eqb (live s) k = Some v
    | None => sp_get key_eqb (live s) k = None
    end.
Proof. exact c13_lookup_l. Qed.
Print Assumptions c13_lookup.

(* index -> key -> index *)
Theorem c13_index_key_index : forall i s k v, CInv s ->
  c13_get_slot i s = Some (k, v) -> c13_get_key_index k s = Some (Some i).
Proof. exact c13_index_key_index_l. Qed.
Print Assumptions c13_index_key_index.

(* in a state without removed slots the slot number of a key is its position in iteration order *)
Theorem c13_index_clean : forall k s i, CInv s -> c13_no_dead s ->
  c13_get_key_index k s = Some (Some i) -> sp_index key_eqb (live s) k = Some i.
Proof. exact c13_index_clean_l. Qed.
Print Assumptions c13_index_clean.

(* Resize(n) in any state: the result has no removed slot and holds a prefix of the entries *)
Theorem c13_resize_general : forall n s, CInv s ->
  exists s', c13_resize n s = Some s' /\ CInv s' /\ c13_no_dead s' /\ exists m, m <= n /\ live s' = firstn m (live s).
Proof. exact c13_resize_general_l. Qed.
Print Assumptions c13_resize_general.

(* The specification says what the property says. *)
(* lookup returns the last value stored under the key; other keys are unaffected *)
Theorem c13_spec_get_put_same : forall (l : list (key * N)) k v, sp_get key_eqb (sp_put key_eqb l k v) k = Some v.
Proof. exact (sp_get_put_same key_eqb key_eqb_spec). Qed.
Print Assumptions c13_spec_get_put_same.
Theorem c13_spec_get_put_other : forall (l : list (key * N)) k v k', k' <> k ->
  sp_get key_eqb (sp_put key_eqb l k v) k' = sp_get key_eqb l k'.
Proof. exact (sp_get_put_other key_eqb key_eqb_spec). Qed.
Print Assumptions c13_spec_get_put_other.
(* a removed key is not found (until stored again); other keys are unaffected *)
Theorem c13_spec_get_remove_same : forall (l : list (key * N)) k, NoDup (map fst l) ->
  sp_get key_eqb (sp_remove key_eqb l k) k = None.
Proof. exact (sp_get_remove_same key_eqb key_eqb_spec). Qed.
Print Assumptions c13_spec_get_remove_same.
Theorem c13_spec_get_remove_other : forall (l : list (key * N)) k k', k' <> k ->
  sp_get key_eqb (sp_remove key_eqb l k) k' = sp_get key_eqb l k'.
Proof. exact (sp_get_remove_other key_eqb key_eqb_spec). Qed.
Print Assumptions c13_spec_get_remove_other.
(* iteration order is first-insertion order *)
Theorem c13_spec_keys_put : forall (l : list (key * N)) k v,
  map fst (sp_put key_eqb l k v) = if sp_has key_eqb l k then map fst l else map fst l ++ [k].
Proof. exact (sp_keys_put key_eqb). Qed.
Print Assumptions c13_spec_keys_put.
Theorem c13_spec_remove_order : forall (l : list (key * N)) k v, sp_get key_eqb l k = Some v ->
  exists a b, l = a ++ (k, v) :: b /\ sp_remove key_eqb l k = a ++ b /\ sp_get key_eqb a k = None.
Proof. exact (sp_remove_order key_eqb key_eqb_spec). Qed.
Print Assumptions c13_spec_remove_order.
(* rename keeps position and value *)
Theorem c13_spec_rekey_order : forall (l : list (key * N)) from to v, sp_get key_eqb l from = Some v ->
  exists a b, l = a ++ (from, v) :: b /\ sp_rekey key_eqb l from to = a ++ (to, v) :: b.
Proof. exact (sp_rekey_order key_eqb key_eqb_spec). Qed.
Print Assumptions c13_spec_rekey_order.
