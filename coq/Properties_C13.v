(* Properties_C13.v -- C13: the hash array is an insertion-ordered map under every
   operation sequence.  Statements only; proofs are in HtabProofs*.v. *)
From Coq Require Import List NArith Arith Bool.
From Qv Require Import HtabModel HtabProofsHash.
Import ListNotations.

(* The modelled StringUtils::Hash has bit 31 set and fits 32 bits, for every key. *)
Theorem c13_hash_top_bit : forall k : list N, N.testbit (c13_hash k) 31 = true /\ (c13_hash k < w32)%N.
Proof. exact c13_hash_top_bit_l. Qed.
Print Assumptions c13_hash_top_bit.

(* ... hence it is never 0, the value that marks a removed item. *)
Theorem c13_hash_nonzero : forall k : list N, c13_hash k <> 0%N.
Proof. exact c13_hash_nonzero_l. Qed.
Print Assumptions c13_hash_nonzero.
