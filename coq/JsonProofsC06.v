(* JsonProofsC06.v -- the pieces of C06 put together (no hypotheses left except the predicate
   [reals_ok] on real numerals), duplicate keys, and a non-vacuity example. *)
From Coq Require Import NArith ZArith List Bool Lia.
From Qv Require Import gen.Tables_json JsonModel JsonSpec JsonProofsBase JsonProofsStr JsonProofsNum JsonProofsParse
  JsonProofsComplete JsonProofsDoc JsonProofsCst JsonProofsInt.
Import ListNotations.
Local Open Scope N_scope.

Theorem parse_print_all : forall w c ws1 ws2,
  cval_wf w c = true -> reals_ok c -> is_container c = true -> ws_wf ws1 = true -> ws_wf ws2 = true ->
  parse w (ws1 ++ cprint w c ++ ws2) = JOk (cdenote w c).
Proof. intros w. apply (parse_print w (str_ok w) nat_ok neg_ok). Qed.

Theorem suffix_rejected_all : forall w c ws1 x rest,
  cval_wf w c = true -> reals_ok c -> is_container c = true -> ws_wf ws1 = true -> trim (x :: rest) <> [] ->
  parse w (ws1 ++ cprint w c ++ x :: rest) = JOk JUndef.
Proof. intros w. apply (print_suffix_rejected w (str_ok w) nat_ok neg_ok). Qed.

(* duplicate keys: the later value replaces the earlier one where the earlier one stands *)
Lemma obj_insert_replace : forall pre k v1 v2 post,
  (forall kv, In kv pre -> list_eqb k (fst kv) = false) ->
  obj_insert (pre ++ (k, v1) :: post) k v2 = pre ++ (k, v2) :: post.
Proof.
  induction pre as [|[k' v'] pre IH]; intros k v1 v2 post Hp; cbn.
  - rewrite list_eqb_refl. reflexivity.
  - pose proof (Hp (k', v') (or_introl eq_refl)) as Hk. cbn [fst] in Hk. rewrite Hk.
    rewrite IH; [reflexivity|]. intros kv Hin. apply Hp. right. assumption.
Qed.

Lemma obj_insert_fresh : forall acc k v,
  (forall kv, In kv acc -> list_eqb k (fst kv) = false) -> obj_insert acc k v = acc ++ [(k, v)].
Proof.
  induction acc as [|[k' v'] acc IH]; intros k v Hp; cbn; [reflexivity|].
  pose proof (Hp (k', v') (or_introl eq_refl)) as Hk. cbn [fst] in Hk. rewrite Hk.
  rewrite IH; [reflexivity|]. intros kv Hin. apply Hp. right. assumption.
Qed.

(* a document exercising every construct; no real numeral, so [reals_ok] is trivial *)
Definition ex_tree : cval :=
  CObj [32] [
    ([10], [CRaw 97; CShort 110; CHex 233 5; CPair 128512 165], [9], [32],
       CArr [] [([], CNatD [49; 56; 52; 52; 54; 55; 52; 52; 48; 55; 51; 55; 48; 57; 53; 53; 49; 54; 49; 53], [32]);
                ([13], CNegD [57; 50; 50; 51; 51; 55; 50; 48; 51; 54; 56; 53; 52; 55; 55; 53; 56; 48; 56], []);
                ([], CStr [CRaw 8364; CShort 34; CHex 0 0], []); ([], CTrue, []); ([], CNull, [32; 32])], []);
    ([], [CRaw 97; CShort 110; CHex 233 0; CPair 128512 0], [], [], CFalse, [10]);
    ([], [], [], [], CObj [] [], [])].

Example ex_tree_wf : cval_wf 0 ex_tree = true /\ cval_wf 1 ex_tree = true /\ cval_wf 2 ex_tree = true.
Proof. repeat split; vm_compute; reflexivity. Qed.
Example ex_tree_reals : reals_ok ex_tree.
Proof. cbn. tauto. Qed.
Example ex_tree_parses : parse 1 (cprint 1 ex_tree) = JOk (cdenote 1 ex_tree).
Proof. rewrite <- (app_nil_r (cprint 1 ex_tree)). apply (parse_print_all 1 ex_tree [] []); try reflexivity. exact ex_tree_reals. Qed.
(* the duplicate key keeps the first position and the last value *)
Example ex_tree_value : exists k rest, cdenote 1 ex_tree = JObj ((k, JFalse) :: rest).
Proof. vm_compute. eauto. Qed.
