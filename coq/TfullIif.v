(* TfullIif.v -- C02 on the faithful models, parser half, the inline if: case InLineIfID (the case scan over the Finder's
   matches), the values, and the attribute scanner / start ids / validation run at the closing brace. *)
From Coq Require Import NArith ZArith List Bool Arith Lia ZifyBool ZifyNat ZifyN.
From Qv Require Import gen.Tables gen.Tables_tmpl gen.Tables_expr gen.Tables_digit gen.Tables_tparse EscapeModel FinderModel FinderProofs
  TmplModel TmplRender TmplProofs TparseModel TparseFinder TparseRound TrenderModel TfullModel TfullSem TfullParse TfullExpr.
Import ListNotations.
Ltac Zify.zify_post_hook ::= Z.div_mod_to_equations.

(* ---- a closing brace ahead: the Finder has a match ---- *)
Lemma first_word_in : forall g t id n, first_word g t = Some (id, n) -> exists word, In (id, word) g.
Proof.
  intros g; induction g as [|[i wd] g IH]; intros t id n H; [discriminate H|]. cbn [first_word] in H.
  destruct (is_prefix_l wd t).
  - injection H as <- _. exists wd. left. reflexivity.
  - destruct (IH t id n H) as [word Hw]. exists word. right. exact Hw.
Qed.

Lemma next_spec_brace : forall s off, In 125%N s -> fst (next_spec_c8 s off) <> 0%N /\ off < snd (next_spec_c8 s off).
Proof.
  intros s; induction s as [|c t IH]; intros off Hin; [destruct Hin|].
  unfold next_spec_c8. rewrite next_spec_cons. fold next_spec_c8.
  assert (Hrec : c <> 125%N -> fst (next_spec_c8 t (S off)) <> 0%N /\ off < snd (next_spec_c8 t (S off))).
  { intros Hc. destruct Hin as [E|Hin]; [congruence|]. destruct (IH (S off) Hin) as [A B]. split; [exact A|lia]. }
  destruct (index_of c finder_first_chars_c8 0) as [g|] eqn:Eg.
  - assert (Hc : c <> 125%N).
    { intros ->. cbn in Eg. discriminate Eg. }
    destruct (first_word (nth g finder_groups_c8 []) t) as [[id n]|] eqn:Ef; [|apply Hrec; exact Hc].
    cbn [fst snd]. split; [|lia].
    destruct (first_word_in _ _ _ _ Ef) as [word Hw].
    assert (Hg : In (nth g finder_groups_c8 []) finder_groups_c8).
    { destruct (nth_in_or_default g finder_groups_c8 []) as [H|H]; [exact H|]. rewrite H in Hw. destruct Hw. }
    destruct (c8_words_ok _ _ _ Hg Hw) as (_ & _ & Hz). exact Hz.
  - unfold finder_single_char_c8. destruct (N.eqb_spec c 125) as [E|E]; [cbn [fst snd]; split; [discriminate|lia]|].
    apply Hrec. exact E.
Qed.

Section IifScan.
  Variable w : N.
  Variable content : list N.

  (* a scan that runs over a whole range *)
  Lemma skip_while_to_end : forall site p n fuel o e,
    (forall k, k < n -> exists c, nth_error content (o + k) = Some c /\ p c = true) -> o + n = e -> n <= fuel ->
    skip_while content site p fuel o e = Ok e.
  Proof.
    intros site p n; induction n as [|n IH]; intros fuel o e H He Hf.
    - rewrite Nat.add_0_r in He. subst e. destruct fuel; cbn [skip_while]; rewrite Nat.ltb_irrefl; reflexivity.
    - destruct fuel as [|f]; [lia|]. cbn [skip_while]. destruct (Nat.ltb_spec o e) as [_|X]; [|lia].
      destruct (H 0 ltac:(lia)) as (c & Hc & Hp). rewrite Nat.add_0_r in Hc. rewrite (rd_at content site o c Hc). cbn [bind]. rewrite Hp.
      apply IH; [|lia|lia]. intros k Hk. destruct (H (S k) ltac:(lia)) as (c' & Hc' & Hp'). exists c'. split; [|exact Hp'].
      rewrite <- Hc'. f_equal. lia.
  Qed.
  Lemma skip_while_to_stop : forall site p n fuel o e c,
    (forall k, k < n -> exists c, nth_error content (o + k) = Some c /\ p c = true) ->
    nth_error content (o + n) = Some c -> p c = false -> o + n < e -> n < fuel ->
    skip_while content site p fuel o e = Ok (o + n).
  Proof.
    intros site p n; induction n as [|n IH]; intros fuel o e c H Hc Hpc He Hf.
    - rewrite Nat.add_0_r in *. destruct fuel as [|f]; [lia|]. cbn [skip_while]. destruct (Nat.ltb_spec o e) as [_|X]; [|lia].
      rewrite (rd_at content site o c Hc). cbn [bind]. rewrite Hpc. reflexivity.
    - destruct fuel as [|f]; [lia|]. cbn [skip_while]. destruct (Nat.ltb_spec o e) as [_|X]; [|lia].
      destruct (H 0 ltac:(lia)) as (c0 & Hc0 & Hp). rewrite Nat.add_0_r in Hc0. rewrite (rd_at content site o c0 Hc0). cbn [bind]. rewrite Hp.
      replace (o + S n) with (S o + n) by lia. apply (IH f (S o) e c); try lia.
      + intros k Hk. destruct (H (S k) ltac:(lia)) as (c' & Hc' & Hp'). exists c'. split; [|exact Hp']. rewrite <- Hc'. f_equal. lia.
      + rewrite <- Hc. f_equal. lia.
      + exact Hpc.
  Qed.

  (* no double quote in [lo, q), one at q *)
  Definition noq (lo q : nat) : Prop := forall k, lo <= k -> k < q -> exists c, nth_error content k = Some c /\ c <> 34%N.

  Lemma skip_q_end : forall lo q o e, noq lo q -> lo <= o -> o <= e -> e <= q -> skip_ne content 97 34%N o e = Ok e.
  Proof.
    intros lo q o e Hn Hlo Hoe Heq. unfold skip_ne. apply (skip_while_to_end 97 _ (e - o)); [|lia|lia].
    intros k Hk. destruct (Hn (o + k) ltac:(lia) ltac:(lia)) as (c & Hc & Hne). exists c. split; [exact Hc|].
    apply negb_true_iff. apply N.eqb_neq. exact Hne.
  Qed.
  Lemma skip_q_stop : forall lo q o e, noq lo q -> nth_error content q = Some 34%N -> lo <= o -> o <= q -> q < e ->
    skip_ne content 97 34%N o e = Ok q.
  Proof.
    intros lo q o e Hn Hq Hlo Hoq Hqe. unfold skip_ne.
    rewrite (skip_while_to_stop 97 (fun ch => negb (N.eqb ch 34)) (q - o) (e - o) o e 34%N); try lia.
    - f_equal. lia.
    - intros k Hk. destruct (Hn (o + k) ltac:(lia) ltac:(lia)) as (c & Hc & Hne). exists c. split; [exact Hc|].
      apply negb_true_iff. apply N.eqb_neq. exact Hne.
    - replace (o + (q - o)) with q by lia. exact Hq.
  Qed.

  (* the case scan over a printed operand / expression: the variables' tokens are stepped over *)
  Lemma ics_operand : forall a pre rest f lo q o, content = pre ++ print_operand a ++ rest -> pok a = true ->
    noq lo q -> lo <= o -> o <= length pre -> length (pre ++ print_operand a) <= q ->
    exists o', lo <= o' /\ o' <= length (pre ++ print_operand a) /\
      iif_case_scan w content (nvars a + f) 34%N o (snd (tok pre (print_operand a ++ rest))) (tok pre (print_operand a ++ rest)) =
      iif_case_scan w content f 34%N o' (snd (tok (pre ++ print_operand a) rest)) (tok (pre ++ print_operand a) rest).
  Proof.
    intros a; induction a as [n|p|op a IHa b IHb]; intros pre rest f lo q o Hc Hok Hn Hlo Ho Hq; cbn [nvars print_operand pok] in *.
    - exists o. rewrite app_length. split; [exact Hlo|]. split; [lia|].
      cbn [Nat.add]. rewrite tok_text by (apply isdig_wf_text; apply (dec_digits n)). reflexivity.
    - set (pp := print_path p) in *. pose proof (epath_wf p Hok) as Hw.
      assert (Hplain : forallb plain_char pp = true) by (apply okc_plain; apply path_okc; exact Hw).
      assert (Ht : tok pre ((s_var_open ++ pp ++ s_close) ++ rest) = (2%N, length pre + 5))
        by (unfold tok; repeat rewrite <- app_assoc; apply spec_var).
      assert (Hc5 : content = (pre ++ s_var_open) ++ pp ++ s_close ++ rest) by (rewrite Hc; repeat rewrite <- app_assoc; reflexivity).
      assert (Hl5 : length (pre ++ s_var_open) = length pre + 5) by (rewrite app_length; reflexivity).
      assert (Ht2 : tok (pre ++ s_var_open) (pp ++ s_close ++ rest) = (1%N, S (length pre + 5 + length pp))).
      { unfold tok. rewrite spec_plain by exact Hplain. rewrite spec_close. rewrite Hl5. reflexivity. }
      assert (Hc6 : content = (pre ++ s_var_open ++ pp ++ s_close) ++ rest) by (rewrite Hc; repeat rewrite <- app_assoc; reflexivity).
      assert (Hl6 : length (pre ++ s_var_open ++ pp ++ s_close) = S (length pre + 5 + length pp))
        by (repeat rewrite app_length; cbn [length s_var_open s_close]; lia).
      exists (length pre + 5). rewrite Hl6 in *. split; [lia|]. split; [lia|].
      rewrite Ht. cbn [Nat.add iif_case_scan fst snd]. change (N.eqb 2 0) with false. cbv iota.
      rewrite (skip_q_end lo q o (length pre + 5) Hn Hlo) by lia. cbn [bind]. rewrite Nat.ltb_irrefl.
      rewrite <- Hl5. rewrite (fnext_tok w content _ _ Hc5). cbn [bind]. rewrite Ht2. cbn [fst snd].
      change (N.eqb 1 tpp_LineEndID) with true. cbv iota.
      rewrite <- Hl6. rewrite (fnext_tok w content _ _ Hc6). cbn [bind]. rewrite Hl5. reflexivity.
    - apply andb_prop in Hok. destruct Hok as [Hok Hob]. apply andb_prop in Hok. destruct Hok as [Hop Hoa]. apply N.leb_le in Hop.
      replace (([40%N] ++ print_operand a ++ [32%N] ++ op_text op ++ [32%N] ++ print_operand b ++ [41%N]) ++ rest)
        with ([40%N] ++ print_operand a ++ (([32%N] ++ op_text op ++ [32%N]) ++ print_operand b ++ [41%N] ++ rest))
        by (repeat rewrite <- app_assoc; reflexivity).
      rewrite (tok_text [40%N]) by reflexivity.
      replace (nvars a + nvars b + f) with (nvars a + (nvars b + f)) by lia.
      assert (Hlen : length (pre ++ [40%N] ++ print_operand a ++ [32%N] ++ op_text op ++ [32%N] ++ print_operand b ++ [41%N])
                     = length pre + 1 + length (print_operand a) + 1 + length (op_text op) + 1 + length (print_operand b) + 1)
        by (repeat rewrite app_length; cbn [length]; lia).
      rewrite Hlen in Hq.
      destruct (IHa (pre ++ [40%N]) (([32%N] ++ op_text op ++ [32%N]) ++ print_operand b ++ [41%N] ++ rest) (nvars b + f) lo q o)
        as (o1 & Ho1a & Ho1b & E1); [rewrite Hc; repeat rewrite <- app_assoc; reflexivity|exact Hoa|exact Hn|exact Hlo
                                     |rewrite app_length; cbn [length]; lia|repeat rewrite app_length; cbn [length]; lia|].
      rewrite E1. rewrite (tok_text ([32%N] ++ op_text op ++ [32%N])) by (apply op_sp_wf_text; exact Hop).
      destruct (IHb (((pre ++ [40%N]) ++ print_operand a) ++ [32%N] ++ op_text op ++ [32%N]) ([41%N] ++ rest) f lo q o1)
        as (o2 & Ho2a & Ho2b & E2); [rewrite Hc; repeat rewrite <- app_assoc; reflexivity|exact Hob|exact Hn|exact Ho1a
                                     |repeat rewrite app_length in *; cbn [length] in *; lia|repeat rewrite app_length; cbn [length]; lia|].
      rewrite E2. rewrite (tok_text [41%N]) by reflexivity.
      exists o2. split; [exact Ho2a|]. split; [repeat rewrite app_length in *; cbn [length] in *; lia|].
      repeat rewrite <- app_assoc. reflexivity.
  Qed.

  Lemma ics_expr : forall e pre rest f lo q o, content = pre ++ print_expr e ++ rest -> pok e = true ->
    noq lo q -> lo <= o -> o <= length pre -> length (pre ++ print_expr e) <= q ->
    exists o', lo <= o' /\ o' <= length (pre ++ print_expr e) /\
      iif_case_scan w content (nvars e + f) 34%N o (snd (tok pre (print_expr e ++ rest))) (tok pre (print_expr e ++ rest)) =
      iif_case_scan w content f 34%N o' (snd (tok (pre ++ print_expr e) rest)) (tok (pre ++ print_expr e) rest).
  Proof.
    intros e pre rest f lo q o Hc Hok Hn Hlo Ho Hq. destruct e as [n|p|op a b].
    - apply (ics_operand (ENum n) pre rest f lo q o); assumption.
    - apply (ics_operand (EVar p) pre rest f lo q o); assumption.
    - cbn [print_expr nvars pok] in *.
      apply andb_prop in Hok. destruct Hok as [Hok Hob]. apply andb_prop in Hok. destruct Hok as [Hop Hoa]. apply N.leb_le in Hop.
      replace ((print_operand a ++ [32%N] ++ op_text op ++ [32%N] ++ print_operand b) ++ rest)
        with (print_operand a ++ (([32%N] ++ op_text op ++ [32%N]) ++ print_operand b ++ rest))
        by (repeat rewrite <- app_assoc; reflexivity).
      replace (nvars a + nvars b + f) with (nvars a + (nvars b + f)) by lia.
      destruct (ics_operand a pre (([32%N] ++ op_text op ++ [32%N]) ++ print_operand b ++ rest) (nvars b + f) lo q o)
        as (o1 & Ho1a & Ho1b & E1); [rewrite Hc; repeat rewrite <- app_assoc; reflexivity|exact Hoa|exact Hn|exact Hlo|exact Ho
                                     |repeat rewrite app_length in *; cbn [length] in *; lia|].
      rewrite E1. rewrite (tok_text ([32%N] ++ op_text op ++ [32%N])) by (apply op_sp_wf_text; exact Hop).
      destruct (ics_operand b ((pre ++ print_operand a) ++ [32%N] ++ op_text op ++ [32%N]) rest f lo q o1)
        as (o2 & Ho2a & Ho2b & E2); [rewrite Hc; repeat rewrite <- app_assoc; reflexivity|exact Hob|exact Hn|exact Ho1a
                                     |repeat rewrite app_length in *; cbn [length] in *; lia|repeat rewrite app_length in *; cbn [length] in *; lia|].
      rewrite E2. exists o2. split; [exact Ho2a|]. split; [repeat rewrite app_length in *; cbn [length] in *; lia|].
      repeat rewrite <- app_assoc. reflexivity.
  Qed.
End IifScan.

(* ---- the main loop on a printed AST ---- *)
Fixpoint steps (n : tnode) : nat :=
  let sl := fix sl (l : list tnode) : nat := match l with [] => 0 | x :: r => steps x + sl r end in
  match n with
  | TVar _ | TRaw _ | TMath _ => 1
  | TLoop _ _ _ _ body => S (S (sl body))
  | TSVar _ subs => S (S (length subs))
  | TIIf _ t f => S (S (sl t + match f with Some fl => sl fl | None => 0 end))
  | TIf _ body more =>
    S (sl body + (fix sm (l : list (option expr * list tnode)) : nat :=
                    match l with [] => 1 | (_, b) :: r => S (sl b + sm r) end) more)
  | _ => 0
  end.
Fixpoint steps_list (l : list tnode) : nat := match l with [] => 0 | x :: r => steps x + steps_list r end.
Fixpoint steps_more (l : list (option expr * list tnode)) : nat :=
  match l with [] => 1 | (_, b) :: r => S (steps_list b + steps_more r) end.
Lemma steps_loop : forall s v g so body, steps (TLoop s v g so body) = S (S (steps_list body)).
Proof. reflexivity. Qed.
Lemma steps_svar : forall p subs, steps (TSVar p subs) = S (S (length subs)).
Proof. reflexivity. Qed.
Lemma steps_sub_ok : forall subs, forallb sub_ok subs = true -> steps_list subs = length subs.
Proof.
  intros subs; induction subs as [|x r IH]; intros H; [reflexivity|]. cbn [forallb] in H. apply andb_prop in H. destruct H as [Hx Hr].
  cbn [steps_list length]. rewrite (IH Hr). destruct x; try discriminate Hx; reflexivity.
Qed.
Lemma steps_iif : forall c t f, steps (TIIf c t f) = S (S (steps_list t + match f with Some fl => steps_list fl | None => 0 end)).
Proof. intros c t f. destruct f; reflexivity. Qed.
Lemma steps_if : forall c body more, steps (TIf c body more) = S (steps_list body + steps_more more).
Proof. reflexivity. Qed.


Lemma spec_math : forall r off, next_spec_c8 (s_math_open ++ r) off = (4%N, off + 6).
Proof. intros r off. cbn. f_equal. lia. Qed.


Definition sttc (ch : bool) (mo : N * nat) (stk : list (list tag)) (cur : list tag) (chain : list loopinfo) : pstate :=
  mkS (snd mo) (fst mo) stk cur ch chain.

Section IifSim.
  Variable numf : list N -> N * N * nat.
  Variable w : N.
  Variable content : list N.
  Hypothesis Hnum : forall n, (n < 10000000000000000000)%N -> numf (dec n) = (qn_natural, n, length (dec n)).

  (* case InLineIfID *)
  Lemma do_iif_sim : forall env stk cur pre c r' fm,
    content = pre ++ s_iif_open ++ print_expr c ++ 34%N :: r' -> In 125%N r' -> pok c = true -> env_in content env ->
    do_iif numf w content (mkS (length pre + 3) fm stk cur false (map snd env)) =
    Ok (sttc true (tok (pre ++ s_iif_open ++ print_expr c) (34%N :: r'))
             ((cur ++ [PIIf (mkI (length pre) 0 (t16 (10 + length (print_expr c) + 1)) 0 0 0 0 0) (qexpr_of env (length pre + 10) c) []]) :: stk)
             [] (map snd env)).
  Proof.
    intros env stk cur pre c r' fm Hc H125 Hok Henv. set (pe := print_expr c) in *. set (rest := 34%N :: r') in *.
    set (off := length pre).
    assert (Hc1 : content = (pre ++ [123;105;102]%N) ++ s_case_attr ++ pe ++ rest)
      by (rewrite Hc; unfold s_iif_open, s_case_attr; repeat rewrite <- app_assoc; reflexivity).
    assert (Hl1 : length (pre ++ [123;105;102]%N) = off + 3) by (rewrite app_length; reflexivity).
    assert (Hc2 : content = (pre ++ s_iif_open) ++ pe ++ rest) by (rewrite Hc; repeat rewrite <- app_assoc; reflexivity).
    assert (Hl2 : length (pre ++ s_iif_open) = off + 10) by (rewrite app_length; reflexivity).
    assert (Hc3 : content = (pre ++ s_iif_open ++ pe) ++ rest) by (rewrite Hc; repeat rewrite <- app_assoc; reflexivity).
    assert (Hl3 : length (pre ++ s_iif_open ++ pe) = off + 10 + length pe) by (repeat rewrite app_length; cbn [length s_iif_open]; unfold off; lia).
    assert (Hat : at_ content (off + 3) (s_case_attr ++ pe ++ rest)).
    { rewrite <- Hl1. apply (at_split content _ _ []). rewrite app_nil_r. exact Hc1. }
    assert (Rk : forall k x, nth_error (s_case_attr ++ pe ++ rest) k = Some x -> nth_error content (off + 3 + k) = Some x)
      by (intros k x Hk; apply (at_nth _ _ _ Hat k x Hk); reflexivity).
    assert (Hlen : length content = off + 10 + length pe + length rest)
      by (rewrite Hc; repeat rewrite app_length; cbn [length s_iif_open]; unfold off; lia).
    set (mo := tok (pre ++ s_iif_open) (pe ++ rest)).
    assert (Hmo : fnext w content (off + 3) = Ok mo).
    { rewrite <- Hl1. rewrite (fnext_tok w content _ _ Hc1). f_equal. unfold mo.
      replace (pre ++ s_iif_open) with ((pre ++ [123;105;102]%N) ++ s_case_attr) by (unfold s_iif_open, s_case_attr; rewrite <- app_assoc; reflexivity).
      apply tok_text. reflexivity. }
    assert (Hmo_gt : off + 10 < snd mo).
    { unfold mo, tok. rewrite Hl2. apply next_spec_brace. apply in_or_app. right. right. exact H125. }
    unfold do_iif. cbn [ps_fo ps_chain].
    rewrite csub_eq by (unfold tpp_InLineIfPrefixLength; lia). cbn [bind].
    replace (off + 3 - tpp_InLineIfPrefixLength) with off by (unfold tpp_InLineIfPrefixLength; lia).
    rewrite Hmo. cbn [bind].
    unfold skip_eq at 1.
    rewrite (skip_while_run content 99 (fun ch => N.eqb ch tpp_SpaceChar) [32%N] (snd mo - (off + 3)) (off + 3) (snd mo) 99%N);
      [|apply (at_sub _ _ _ Hat [] [32%N] ([99;97;115;101;61;34]%N ++ pe ++ rest)); [reflexivity|cbn; lia]
       |reflexivity|apply (Rk 1 99%N); reflexivity|reflexivity|cbn [length]; lia|cbn [length]; lia].
    cbn [bind length]. destruct (Nat.ltb_spec (off + 3 + 1) (snd mo)) as [_|X]; [|lia].
    unfold word_at. change (length tpp_Case) with 4. destruct (Nat.ltb_spec 4 (snd mo - (off + 3 + 1))) as [_|X]; [|lia].
    rewrite is_equal_at_true by (apply (at_sub _ _ _ Hat [32%N] tpp_Case ([61;34]%N ++ pe ++ rest)); [reflexivity|cbn; lia]).
    cbn [bind]. unfold tpp_CaseLength. replace (off + 3 + 1 + 4) with (off + 8) by lia.
    rewrite (skip_ne_stop content 101 tpp_EqualChar (off + 8) (snd mo)); [|replace (off + 8) with (off + 3 + 5) by lia; apply (Rk 5 61%N); reflexivity|lia].
    cbn [bind]. unfold skip_eq_do. replace (S (off + 8)) with (off + 9) by lia.
    rewrite (skip_eq_stop content 102 tpp_SpaceChar 34%N (off + 9) (snd mo)); [|replace (off + 9) with (off + 3 + 6) by lia; apply (Rk 6 34%N); reflexivity|discriminate|lia].
    cbn [bind]. destruct (Nat.ltb_spec (off + 9) (snd mo)) as [_|X]; [|lia].
    rewrite (rd_at content 103 (off + 9) 34%N) by (replace (off + 9) with (off + 3 + 6) by lia; apply (Rk 6 34%N); reflexivity).
    cbn [bind]. replace (S (off + 9)) with (off + 10) by lia.
    (* the scan *)
    set (q := off + 10 + length pe).
    assert (Hnq : noq content (off + 10) q).
    { intros k Hk1 Hk2. assert (Hat2 : at_ content (off + 10) pe) by (rewrite <- Hl2; apply (at_split _ _ _ _ Hc2)).
      destruct (nth_error pe (k - (off + 10))) as [x|] eqn:Ex; [|apply nth_error_None in Ex; unfold q in Hk2; lia].
      exists x. split; [apply (at_nth _ _ _ Hat2 (k - (off + 10)) x Ex); lia|].
      intros ->. apply (expr_no34 c Hok). apply (nth_error_In _ _ Ex). }
    assert (Hq34 : nth_error content q = Some 34%N).
    { unfold q. rewrite <- Hl3. replace (length (pre ++ s_iif_open ++ pe)) with (length (pre ++ s_iif_open ++ pe) + 0) by lia.
      rewrite Hc3 at 1. replace rest with (rest ++ []) by apply app_nil_r. rewrite nth_mid by (cbn; lia). reflexivity. }
    pose proof (nvars_le c) as Hnv. fold pe in Hnv.
    replace (S (length content)) with (nvars c + S (length content - nvars c)) by lia.
    destruct (ics_expr w content c (pre ++ s_iif_open) rest (S (length content - nvars c)) (off + 10) q (off + 10) Hc2 Hok Hnq)
      as (o' & Ho1 & Ho2 & E); [lia|rewrite Hl2; lia|fold pe; rewrite app_length, Hl2; unfold q; lia|].
    assert (Ho2' : o' <= q) by (repeat rewrite app_length in Ho2; cbn [length s_iif_open] in Ho2; fold pe in Ho2; unfold q, off; lia).
    fold pe in E. fold mo in E. rewrite E. clear E.
    replace ((pre ++ s_iif_open) ++ pe) with (pre ++ s_iif_open ++ pe) in * by (rewrite <- app_assoc; reflexivity).
    set (mo' := tok (pre ++ s_iif_open ++ pe) rest) in *.
    assert (Hmo' : fst mo' <> 0%N /\ q < snd mo').
    { unfold mo', tok. rewrite Hl3. apply next_spec_brace. right. exact H125. }
    destruct Hmo' as [Hm1 Hm2].
    cbn [iif_case_scan]. destruct (N.eqb_spec (fst mo') 0) as [X|_]; [contradiction|].
    rewrite (skip_q_stop content (off + 10) q o' (snd mo') Hnq Hq34 Ho1) by lia.
    cbn [bind]. destruct (Nat.ltb_spec q (snd mo')) as [_|X]; [|lia]. cbn [bind]. cbv beta iota.
    destruct (N.eqb_spec (fst mo') 0) as [X|_]; [contradiction|].
    pose proof (pexpr_print numf content env Hnum Henv c (off + 10) Hok) as Hpx. fold pe in Hpx. fold q in Hpx. rewrite Hpx.
    2:{ rewrite <- Hl2. apply (at_split _ _ _ _ Hc2). }
    cbn [bind]. rewrite csub_eq by (unfold q; lia). cbn [bind].
    replace (S q - off) with (10 + length pe + 1) by (unfold q; lia).
    unfold push_tag, with_finder, sttc. cbn [ps_fo ps_fm ps_stack ps_cur ps_child ps_chain]. reflexivity.
  Qed.

  (* case VariableID / RawVariableID on a printed variable *)
  Lemma do_var_simc : forall ch mk env stk cur pre op p post fm,
    content = pre ++ (op ++ print_path p ++ s_close) ++ post -> length op = 5 ->
    TfullModel.wf_path p = true -> env_in content env ->
    do_var w content mk (mkS (length pre + 5) fm stk cur ch (map snd env)) =
    Ok (sttc ch (tok (pre ++ op ++ print_path p ++ s_close) post) stk (cur ++ [mk (vt_of env (length pre + 5) p)]) (map snd env)).
  Proof.
    intros ch mk env stk cur pre op p post fm Hc Hop Hw Henv.
    set (pp := print_path p) in *. pose proof (wf_path_len p Hw) as Hpl. fold pp in Hpl.
    assert (Hplain : forallb plain_char pp = true) by (apply okc_plain; apply path_okc; exact Hw).
    assert (Hc5 : content = (pre ++ op) ++ pp ++ s_close ++ post) by (rewrite Hc; repeat rewrite <- app_assoc; reflexivity).
    assert (Hl5 : length (pre ++ op) = length pre + 5) by (rewrite app_length; lia).
    assert (Hfn : fnext w content (length pre + 5) = Ok (1%N, S (length pre + 5 + length pp))).
    { rewrite <- Hl5. rewrite Hc5 at 1. rewrite fnext_at, spec_plain by exact Hplain. rewrite spec_close. rewrite Hl5. reflexivity. }
    assert (Hc6 : content = (pre ++ op ++ pp ++ s_close) ++ post) by (rewrite Hc; repeat rewrite <- app_assoc; reflexivity).
    assert (Hl6 : length (pre ++ op ++ pp ++ s_close) = S (length pre + 5 + length pp))
      by (repeat rewrite app_length; cbn [length s_close]; lia).
    unfold do_var. cbn [ps_fo ps_cur ps_chain]. rewrite Hfn. cbn [bind fst snd].
    change (N.eqb 1 tpp_LineEndID) with true. cbv iota.
    rewrite csub_eq by lia. cbn [bind].
    replace (S (length pre + 5 + length pp) - (length pre + 5)) with (S (length pp)) by lia.
    rewrite csub_eq by (unfold tpp_InLineSuffixLength; lia). cbn [bind].
    replace (S (length pp) - tpp_InLineSuffixLength) with (length pp) by (unfold tpp_InLineSuffixLength; lia).
    rewrite t8_small by lia.
    destruct (N.eqb_spec (N.of_nat (length pp)) 0) as [E|_]; [lia|].
    rewrite (clv_annot content env (length pre + 5) (N.of_nat (length pp)) pp 125%N Henv); [| |reflexivity].
    2:{ rewrite <- Hl5. apply (at_split content (pre ++ op) (pp ++ [125%N]) post). rewrite Hc5. repeat rewrite <- app_assoc. reflexivity. }
    cbn [bind]. rewrite <- Hl6. rewrite (fnext_tok w content _ post Hc6). cbn [bind].
    unfold with_finder, with_cur, sttc, vt_of. cbn [ps_stack ps_cur ps_child ps_chain ps_fo ps_fm]. fold pp. reflexivity.
  Qed.


  (* case MathID *)
  Lemma do_math_simc : forall ch env stk cur pre e post fm,
    content = pre ++ (s_math_open ++ print_expr e ++ s_close) ++ post -> pok e = true -> env_in content env ->
    do_math numf w content (mkS (length pre + 6) fm stk cur ch (map snd env)) =
    Ok (sttc ch (tok (pre ++ s_math_open ++ print_expr e ++ s_close) post) stk
            (cur ++ [PMath (length pre) (length pre + 6 + length (print_expr e) + 1) (qexpr_of env (length pre + 6) e)]) (map snd env)).
  Proof.
    intros ch env stk cur pre e post fm Hc Hok Henv.
    set (pe := print_expr e) in *.
    assert (Hc1 : content = (pre ++ s_math_open) ++ pe ++ (s_close ++ post)) by (rewrite Hc; repeat rewrite <- app_assoc; reflexivity).
    assert (Hl1 : length (pre ++ s_math_open) = length pre + 6) by (rewrite app_length; reflexivity).
    assert (Hc2 : content = (pre ++ s_math_open ++ pe) ++ s_close ++ post) by (rewrite Hc; repeat rewrite <- app_assoc; reflexivity).
    assert (Hl2 : length (pre ++ s_math_open ++ pe) = length pre + 6 + length pe) by (repeat rewrite app_length; cbn [length s_math_open]; lia).
    assert (Hc3 : content = (pre ++ s_math_open ++ pe ++ s_close) ++ post) by (rewrite Hc; repeat rewrite <- app_assoc; reflexivity).
    assert (Hl3 : length (pre ++ s_math_open ++ pe ++ s_close) = S (length pre + 6 + length pe))
      by (repeat rewrite app_length; cbn [length s_math_open s_close]; lia).
    assert (Hlen : length content = length pre + 6 + length pe + 1 + length post)
      by (rewrite Hc; repeat rewrite app_length; cbn [length s_math_open s_close]; lia).
    unfold do_math. cbn [ps_fo ps_chain ps_cur].
    rewrite <- Hl1. rewrite (fnext_tok w content _ _ Hc1). cbn [bind].
    pose proof (nvars_le e) as Hnv. fold pe in Hnv.
    replace (S (length content)) with (nvars e + S (length content - nvars e)) by lia.
    rewrite (ms_expr w content e (pre ++ s_math_open) (s_close ++ post) _ Hc1 Hok). fold pe.
    replace ((pre ++ s_math_open) ++ pe) with (pre ++ s_math_open ++ pe) by (rewrite <- app_assoc; reflexivity).
    assert (Ht : tok (pre ++ s_math_open ++ pe) (s_close ++ post) = (1%N, S (length pre + 6 + length pe)))
      by (unfold tok; rewrite spec_close, Hl2; reflexivity).
    rewrite Ht. cbn [math_scan fst snd].
    change (N.ltb 1 tpp_MathID && negb (N.eqb 1 tpp_LineEndID)) with false. cbv iota. cbn [bind fst snd].
    change (N.eqb 1 tpp_LineEndID) with true. cbv iota.
    rewrite <- Hl3. rewrite (fnext_tok w content _ _ Hc3). cbn [bind fst snd]. rewrite Hl3.
    destruct (Nat.eqb_spec (S (length pre + 6 + length pe)) 0) as [X|_]; [lia|].
    rewrite Hl1. rewrite csub_eq by (unfold tpp_MathPrefixLength; lia). cbn [bind].
    rewrite csub_eq by (unfold tpp_InLineSuffixLength; lia). cbn [bind].
    replace (S (length pre + 6 + length pe) - tpp_InLineSuffixLength) with (length pre + 6 + length pe) by (unfold tpp_InLineSuffixLength; lia).
    pose proof (pexpr_print numf content env Hnum Henv e (length pre + 6) Hok) as Hpx. fold pe in Hpx. rewrite Hpx.
    - cbn [bind]. unfold with_finder, with_cur, sttc. cbn [ps_fo ps_fm ps_stack ps_cur ps_child ps_chain].
      replace (length pre + 6 - tpp_MathPrefixLength) with (length pre) by (unfold tpp_MathPrefixLength; lia).
      replace (length pre + 6 + length pe + 1) with (S (length pre + 6 + length pe)) by lia. reflexivity.
    - rewrite <- Hl1. apply (at_split _ _ _ _ Hc1).
  Qed.




  Lemma leaf_list_par : forall l depth env stk cur pre post fuel,
    forallb inl_ok l = true -> forallb (wf_node1 (map fst env) depth) l = true ->
    content = pre ++ print_nodes l ++ post -> env_in content env ->
    main_loop numf w content (steps_list l + fuel) (sttc true (tok pre (print_nodes l ++ post)) stk cur (map snd env)) =
    main_loop numf w content fuel (sttc true (tok (pre ++ print_nodes l) post) stk (cur ++ build_list env depth (length pre) l) (map snd env)).
  Proof.
    intros l; induction l as [|x r IH]; intros depth env stk cur pre post fuel Hi Hwf Hc Henv.
    - cbn [print_nodes steps_list build_list app Nat.add]. repeat rewrite app_nil_r. reflexivity.
    - cbn [forallb] in Hi, Hwf. apply andb_prop in Hi. destruct Hi as [Hix Hir]. apply andb_prop in Hwf. destruct Hwf as [Hwx Hwr].
      cbn [print_nodes steps_list build_list] in *.
      assert (Hc' : content = (pre ++ print_node x) ++ print_nodes r ++ post) by (rewrite Hc; repeat rewrite <- app_assoc; reflexivity).
      replace (steps x + steps_list r + fuel) with (steps x + (steps_list r + fuel)) by lia.
      replace ((print_node x ++ print_nodes r) ++ post) with (print_node x ++ (print_nodes r ++ post)) by (rewrite app_assoc; reflexivity).
      assert (Hx : main_loop numf w content (steps x + (steps_list r + fuel)) (sttc true (tok pre (print_node x ++ print_nodes r ++ post)) stk cur (map snd env)) =
                   main_loop numf w content (steps_list r + fuel)
                     (sttc true (tok (pre ++ print_node x) (print_nodes r ++ post)) stk (cur ++ build env depth (length pre) x) (map snd env))).
      { destruct x as [s|p|p|e|p sb|c t f|c b m|st v g so b]; try discriminate Hix.
        - cbn [wf_node1] in Hwx. cbn [steps print_node build Nat.add]. rewrite app_nil_r. rewrite tok_text by exact Hwx. reflexivity.
        - cbn [wf_node1] in Hwx. apply andb_prop in Hwx. destruct Hwx as [Hw Hu].
          rewrite print_node_TVar in *. cbn [steps build Nat.add].
          assert (Ht : tok pre ((s_var_open ++ print_path p ++ s_close) ++ print_nodes r ++ post) = (2%N, length pre + 5))
            by (unfold tok; repeat rewrite <- app_assoc; apply spec_var).
          rewrite Ht. rewrite main_loop_step by (cbn; discriminate). unfold step.
          change (sttc true (2%N, length pre + 5) stk cur (map snd env)) with (mkS (length pre + 5) 2 stk cur true (map snd env)). cbn [ps_fm].
          change (N.eqb 2 tpp_LineEndID) with false. change (N.eqb 2 tpp_VariableID) with true. cbv iota.
          rewrite (do_var_simc true PVar env stk cur pre s_var_open p (print_nodes r ++ post) 2); [reflexivity|rewrite Hc; repeat rewrite <- app_assoc; reflexivity|reflexivity|exact Hw|exact Henv].
        - cbn [wf_node1] in Hwx. apply andb_prop in Hwx. destruct Hwx as [Hw Hu].
          rewrite print_node_TRaw in *. cbn [steps build Nat.add].
          assert (Ht : tok pre ((s_raw_open ++ print_path p ++ s_close) ++ print_nodes r ++ post) = (3%N, length pre + 5))
            by (unfold tok; repeat rewrite <- app_assoc; apply spec_raw).
          rewrite Ht. rewrite main_loop_step by (cbn; discriminate). unfold step.
          change (sttc true (3%N, length pre + 5) stk cur (map snd env)) with (mkS (length pre + 5) 3 stk cur true (map snd env)). cbn [ps_fm].
          change (N.eqb 3 tpp_LineEndID) with false. change (N.eqb 3 tpp_VariableID) with false. change (N.eqb 3 tpp_RawVariableID) with true. cbv iota.
          rewrite (do_var_simc true PRaw env stk cur pre s_raw_open p (print_nodes r ++ post) 3); [reflexivity|rewrite Hc; repeat rewrite <- app_assoc; reflexivity|reflexivity|exact Hw|exact Henv].
        - cbn [wf_node1] in Hwx. pose proof (wf_expr_pok _ _ Hwx) as Hok.
          rewrite print_node_TMath in *. cbn [steps Nat.add].
          assert (Ht : tok pre ((s_math_open ++ print_expr e ++ s_close) ++ print_nodes r ++ post) = (4%N, length pre + 6))
            by (unfold tok; repeat rewrite <- app_assoc; apply spec_math).
          rewrite Ht. rewrite main_loop_step by (cbn; discriminate). unfold step.
          change (sttc true (4%N, length pre + 6) stk cur (map snd env)) with (mkS (length pre + 6) 4 stk cur true (map snd env)). cbn [ps_fm].
          change (N.eqb 4 tpp_LineEndID) with false. change (N.eqb 4 tpp_VariableID) with false. change (N.eqb 4 tpp_RawVariableID) with false.
          change (N.eqb 4 tpp_MathID) with true. cbv iota.
          rewrite (do_math_simc true env stk cur pre e (print_nodes r ++ post) 4); [|rewrite Hc; repeat rewrite <- app_assoc; reflexivity|exact Hok|exact Henv].
          cbn [bind build print_node]. repeat rewrite app_length. cbn [length s_math_open s_close].
          replace (length pre + (6 + (length (print_expr e) + 1))) with (length pre + 6 + length (print_expr e) + 1) by lia. reflexivity. }
      rewrite Hx. rewrite (IH depth env stk (cur ++ build env depth (length pre) x) (pre ++ print_node x) post fuel Hir Hwr Hc' Henv).
      repeat rewrite <- app_assoc. rewrite app_length. reflexivity.
  Qed.
End IifSim.

(* ---- the attribute scanner at the closing brace ---- *)
Lemma t16_id : forall x, (N.of_nat x <= 65535)%N -> t16 x = N.of_nat x.
Proof. intros x H. unfold t16. apply N.mod_small. lia. Qed.

Definition s_true_in : list N := [32; 116; 114; 117; 101; 61; 34]%N.        (* space true = quote *)
Definition s_false_in : list N := [32; 102; 97; 108; 115; 101; 61; 34]%N.   (* space false = quote *)

Section IifAttrs.
  Variable content : list N.

  Lemma iif_true_iter : forall f o e is_true toff i T,
    at_ content o (s_true_in ++ T ++ [34%N]) -> ~ In 34%N T -> o + 7 + length T + 1 < e ->
    iif_attrs content (S f) o e is_true toff i =
    bind (set_iif_value i true (o + 7) (o + 7 + length T)) (fun i' =>
      if S (o + 7 + length T) <? e then iif_attrs content f (S (o + 7 + length T)) e false toff i' else Ok (i', false)).
  Proof.
    intros f o e is_true toff i T Ha H34 He. remember f as g. cbn [iif_attrs].
    assert (Rk : forall k c, nth_error (s_true_in ++ T ++ [34%N]) k = Some c -> nth_error content (o + k) = Some c)
      by (intros k c Hk; apply (at_nth _ _ _ Ha k c Hk); reflexivity).
    unfold skip_eq at 1.
    rewrite (skip_while_run content 65 (fun ch => N.eqb ch tpp_SpaceChar) [32%N] (e - o) o e 116%N);
      [|apply (at_sub _ _ _ Ha [] [32%N] ([116;114;117;101;61;34]%N ++ T ++ [34%N])); [reflexivity|cbn; lia]
       |reflexivity|apply (Rk 1 116%N); reflexivity|reflexivity|cbn [length]; lia|cbn [length]; lia].
    cbn [bind length]. destruct (Nat.ltb_spec (o + 1) e) as [_|X]; [|lia].
    unfold iif_attr_name. rewrite (rd_at content 62 (o + 1) 116%N) by (apply (Rk 1 116%N); reflexivity). cbn [bind].
    change (N.eqb 116 tpp_TrueChar) with true. cbv iota.
    unfold word_at. change (length tpp_True) with 4. destruct (Nat.ltb_spec 4 (e - (o + 1))) as [_|X]; [|lia].
    rewrite is_equal_at_true by (apply (at_sub _ _ _ Ha [32%N] tpp_True ([61;34]%N ++ T ++ [34%N])); [reflexivity|cbn; lia]).
    cbn [bind]. unfold tpp_TrueLength. replace (o + 1 + 4) with (o + 5) by lia.
    rewrite (skip_ne_stop content 66 tpp_EqualChar (o + 5) e); [|apply (Rk 5 61%N); reflexivity|lia].
    cbn [bind]. unfold skip_eq_do. replace (S (o + 5)) with (o + 6) by lia.
    rewrite (skip_eq_stop content 67 tpp_SpaceChar 34%N (o + 6) e); [|apply (Rk 6 34%N); reflexivity|discriminate|lia].
    cbn [bind]. destruct (Nat.ltb_spec (o + 6) e) as [_|X]; [|lia].
    rewrite (rd_at content 68 (o + 6) 34%N) by (apply (Rk 6 34%N); reflexivity). cbn [bind].
    replace (S (o + 6)) with (o + 7) by lia.
    rewrite (skip_ne_run content 69 34%N T (o + 7) e).
    - cbn [bind]. destruct (Nat.ltb_spec (o + 7 + length T) e) as [_|X]; [|lia]. reflexivity.
    - apply (at_sub _ _ _ Ha s_true_in T [34%N]); [reflexivity|cbn; lia].
    - exact H34.
    - replace (o + 7 + length T) with (o + (7 + length T)) by lia. apply Rk. unfold s_true_in. cbn [app].
      change (7 + length T) with (S (S (S (S (S (S (S (length T)))))))). cbn [nth_error]. rewrite nth_error_app2 by lia. rewrite Nat.sub_diag. reflexivity.
    - lia.
  Qed.

  Lemma iif_false_iter : forall f o e toff i F,
    at_ content o (s_false_in ++ F ++ [34%N]) -> ~ In 34%N F -> o + 8 + length F + 1 < e ->
    iif_attrs content (S f) o e false toff i =
    bind (set_iif_value i false (o + 8) (o + 8 + length F)) (fun i' =>
      if S (o + 8 + length F) <? e then iif_attrs content f (S (o + 8 + length F)) e false toff i' else Ok (i', false)).
  Proof.
    intros f o e toff i F Ha H34 He. remember f as g. cbn [iif_attrs].
    assert (Rk : forall k c, nth_error (s_false_in ++ F ++ [34%N]) k = Some c -> nth_error content (o + k) = Some c)
      by (intros k c Hk; apply (at_nth _ _ _ Ha k c Hk); reflexivity).
    unfold skip_eq at 1.
    rewrite (skip_while_run content 65 (fun ch => N.eqb ch tpp_SpaceChar) [32%N] (e - o) o e 102%N);
      [|apply (at_sub _ _ _ Ha [] [32%N] ([102;97;108;115;101;61;34]%N ++ F ++ [34%N])); [reflexivity|cbn; lia]
       |reflexivity|apply (Rk 1 102%N); reflexivity|reflexivity|cbn [length]; lia|cbn [length]; lia].
    cbn [bind length]. destruct (Nat.ltb_spec (o + 1) e) as [_|X]; [|lia].
    unfold iif_attr_name. rewrite (rd_at content 62 (o + 1) 102%N) by (apply (Rk 1 102%N); reflexivity). cbn [bind].
    change (N.eqb 102 tpp_TrueChar) with false. change (N.eqb 102 tpp_FalseChar) with true. cbv iota.
    unfold word_at. change (length tpp_False) with 5. destruct (Nat.ltb_spec 5 (e - (o + 1))) as [_|X]; [|lia].
    rewrite is_equal_at_true by (apply (at_sub _ _ _ Ha [32%N] tpp_False ([61;34]%N ++ F ++ [34%N])); [reflexivity|cbn; lia]).
    cbn [bind]. unfold tpp_FalseLength. replace (o + 1 + 5) with (o + 6) by lia.
    rewrite (skip_ne_stop content 66 tpp_EqualChar (o + 6) e); [|apply (Rk 6 61%N); reflexivity|lia].
    cbn [bind]. unfold skip_eq_do. replace (S (o + 6)) with (o + 7) by lia.
    rewrite (skip_eq_stop content 67 tpp_SpaceChar 34%N (o + 7) e); [|apply (Rk 7 34%N); reflexivity|discriminate|lia].
    cbn [bind]. destruct (Nat.ltb_spec (o + 7) e) as [_|X]; [|lia].
    rewrite (rd_at content 68 (o + 7) 34%N) by (apply (Rk 7 34%N); reflexivity). cbn [bind].
    replace (S (o + 7)) with (o + 8) by lia.
    rewrite (skip_ne_run content 69 34%N F (o + 8) e).
    - cbn [bind]. destruct (Nat.ltb_spec (o + 8 + length F) e) as [_|X]; [|lia]. reflexivity.
    - apply (at_sub _ _ _ Ha s_false_in F [34%N]); [reflexivity|cbn; lia].
    - exact H34.
    - replace (o + 8 + length F) with (o + (8 + length F)) by lia. apply Rk. unfold s_false_in. cbn [app].
      change (8 + length F) with (S (S (S (S (S (S (S (S (length F))))))))). cbn [nth_error]. rewrite nth_error_app2 by lia. rewrite Nat.sub_diag. reflexivity.
    - lia.
  Qed.

  Lemma iif_break : forall f o e is_true toff i, nth_error content o = Some 125%N -> o < e ->
    iif_attrs content (S f) o e is_true toff i = Ok (i, false).
  Proof.
    intros f o e is_true toff i Hc He. remember f as g. cbn [iif_attrs].
    rewrite (skip_eq_stop content 65 tpp_SpaceChar 125%N o e Hc) by (discriminate || lia). cbn [bind].
    destruct (Nat.ltb_spec o e) as [_|X]; [|lia].
    unfold iif_attr_name. rewrite (rd_at content 62 o 125%N Hc). cbn [bind].
    change (N.eqb 125 tpp_TrueChar) with false. change (N.eqb 125 tpp_FalseChar) with false. cbv iota. reflexivity.
  Qed.
End IifAttrs.

(* ---- the sub tags of an inline if: where they lie ---- *)
Definition leaf_in (lo hi : nat) (t : tag) : Prop :=
  match t with
  | PVar v | PRaw v => lo + 5 <= v_off v /\ v_off v + N.to_nat (v_len v) + 1 <= hi
  | PMath o e _ => lo <= o /\ o <= e /\ e <= hi
  | _ => False
  end.
Lemma leaf_in_mono : forall lo hi lo' hi' t, leaf_in lo hi t -> lo' <= lo -> hi <= hi' -> leaf_in lo' hi' t.
Proof. intros lo hi lo' hi' t H H1 H2. destruct t; cbn [leaf_in] in *; lia. Qed.

Lemma build_list_span : forall l env depth o, forallb inl_ok l = true ->
  Forall (leaf_in o (o + length (print_nodes l))) (build_list env depth o l).
Proof.
  intros l; induction l as [|x r IH]; intros env depth o Hi; [constructor|].
  cbn [forallb] in Hi. apply andb_prop in Hi. destruct Hi as [Hx Hr].
  cbn [build_list print_nodes]. rewrite app_length. apply Forall_app. split.
  - destruct x as [s|p|p|e|p sb|c t f|c b m|st v g so b]; try discriminate Hx; cbn [build]; first [constructor; fail | constructor; [|constructor]].
    + unfold vt_of. cbn [leaf_in v_off v_len]. rewrite Nat2N.id. rewrite print_node_TVar. repeat rewrite app_length. cbn [length s_var_open s_close]. lia.
    + unfold vt_of. cbn [leaf_in v_off v_len]. rewrite Nat2N.id. rewrite print_node_TRaw. repeat rewrite app_length. cbn [length s_raw_open s_close]. lia.
    + cbn [leaf_in]. lia.
  - eapply Forall_impl; [|apply (IH env depth (o + length (print_node x)) Hr)].
    intros t Ht. apply (leaf_in_mono _ _ _ _ t Ht); lia.
Qed.

Definition tkey (t : tag) : option nat := match t with PVar v | PRaw v => Some (v_off v) | PMath o _ _ => Some o | _ => None end.

Lemma sid_skip : forall A B first id, Forall (fun t => exists k, tkey t = Some k /\ k < first) A ->
  startid_scan (A ++ B) first id = startid_scan B first (id + length A).
Proof.
  intros A; induction A as [|t A IH]; intros B first id H; [cbn [app length]; rewrite Nat.add_0_r; reflexivity|].
  inversion H as [|? ? (k & Hk & Hlt) HA]; subst. cbn [app startid_scan length]. unfold tkey in Hk.
  replace (match t with PVar v | PRaw v => Some (v_off v) | PMath o _ _ => Some o | _ => None end) with (Some k) by (symmetry; exact Hk).
  destruct (Nat.leb_spec first k) as [X|_]; [lia|]. rewrite (IH B first (S id) HA). f_equal. lia.
Qed.
Lemma sid_stop : forall B first id, match B with [] => True | t :: _ => exists k, tkey t = Some k /\ first <= k end ->
  startid_scan B first id = Some id.
Proof.
  intros [|t r] first id H; [reflexivity|]. destruct H as (k & Hk & Hle). cbn [startid_scan]. unfold tkey in Hk.
  replace (match t with PVar v | PRaw v => Some (v_off v) | PMath o _ _ => Some o | _ => None end) with (Some k) by (symmetry; exact Hk).
  destruct (Nat.leb_spec first k) as [_|X]; [reflexivity|lia].
Qed.

Lemma leaf_in_key_lt : forall lo hi first t, leaf_in lo hi t -> hi < first -> exists k, tkey t = Some k /\ k < first.
Proof. intros lo hi first t H Hf. destruct t; cbn [leaf_in tkey] in *; try contradiction; eexists; (split; [reflexivity|lia]). Qed.
Lemma leaf_in_key_ge : forall lo hi t, leaf_in lo hi t -> exists k, tkey t = Some k /\ lo <= k.
Proof. intros lo hi t H. destruct t; cbn [leaf_in tkey] in *; try contradiction; eexists; (split; [reflexivity|lia]). Qed.

Lemma sub_tags_valid_true : forall i subs,
  Forall (fun t => (i_toff i <> 0%N /\ leaf_in (i_off i + N.to_nat (i_toff i)) (i_off i + N.to_nat (i_toff i) + N.to_nat (i_tlen i)) t) \/
                   (i_foff i <> 0%N /\ leaf_in (i_off i + N.to_nat (i_foff i)) (i_off i + N.to_nat (i_foff i) + N.to_nat (i_flen i)) t)) subs ->
  sub_tags_valid i subs = Ok true.
Proof.
  intros i subs H. induction H as [|t r Ht Hr IH]; [reflexivity|]. cbn [sub_tags_valid]. cbv zeta.
  destruct t as [v|v|o e ex|o e v sb|ii c sb|l sb|o e cs]; try (destruct Ht as [[_ X]|[_ X]]; contradiction X).
  - destruct Ht as [[Hz [H1 H2]]|[Hz [H1 H2]]]; (rewrite csub_eq by (unfold tpp_VariablePrefixLength; lia)); cbn [bind];
      unfold tpp_VariablePrefixLength, tpp_InLineSuffixLength.
    + apply N.eqb_neq in Hz. rewrite Hz. cbn [negb andb].
      destruct (Nat.leb_spec (i_off i + N.to_nat (i_toff i)) (v_off v - 5)) as [_|X]; [|lia].
      destruct (Nat.leb_spec (v_off v + N.to_nat (v_len v) + 1) (i_off i + N.to_nat (i_toff i) + N.to_nat (i_tlen i))) as [_|X]; [|lia].
      cbn [andb orb]. exact IH.
    + apply N.eqb_neq in Hz. rewrite Hz. cbn [negb andb].
      destruct (Nat.leb_spec (i_off i + N.to_nat (i_foff i)) (v_off v - 5)) as [_|X]; [|lia].
      destruct (Nat.leb_spec (v_off v + N.to_nat (v_len v) + 1) (i_off i + N.to_nat (i_foff i) + N.to_nat (i_flen i))) as [_|X]; [|lia].
      cbn [andb]. rewrite orb_true_r. exact IH.
  - destruct Ht as [[Hz [H1 H2]]|[Hz [H1 H2]]]; (rewrite csub_eq by (unfold tpp_VariablePrefixLength; lia)); cbn [bind];
      unfold tpp_VariablePrefixLength, tpp_InLineSuffixLength.
    + apply N.eqb_neq in Hz. rewrite Hz. cbn [negb andb].
      destruct (Nat.leb_spec (i_off i + N.to_nat (i_toff i)) (v_off v - 5)) as [_|X]; [|lia].
      destruct (Nat.leb_spec (v_off v + N.to_nat (v_len v) + 1) (i_off i + N.to_nat (i_toff i) + N.to_nat (i_tlen i))) as [_|X]; [|lia].
      cbn [andb orb]. exact IH.
    + apply N.eqb_neq in Hz. rewrite Hz. cbn [negb andb].
      destruct (Nat.leb_spec (i_off i + N.to_nat (i_foff i)) (v_off v - 5)) as [_|X]; [|lia].
      destruct (Nat.leb_spec (v_off v + N.to_nat (v_len v) + 1) (i_off i + N.to_nat (i_foff i) + N.to_nat (i_flen i))) as [_|X]; [|lia].
      cbn [andb]. rewrite orb_true_r. exact IH.
  - destruct Ht as [[Hz (H1 & H0 & H2)]|[Hz (H1 & H0 & H2)]].
    + apply N.eqb_neq in Hz. rewrite Hz. cbn [negb andb].
      destruct (Nat.leb_spec (i_off i + N.to_nat (i_toff i)) o) as [_|X]; [|lia].
      destruct (Nat.leb_spec e (i_off i + N.to_nat (i_toff i) + N.to_nat (i_tlen i))) as [_|X]; [|lia].
      cbn [andb orb]. exact IH.
    + apply N.eqb_neq in Hz. rewrite Hz. cbn [negb andb].
      destruct (Nat.leb_spec (i_off i + N.to_nat (i_foff i)) o) as [_|X]; [|lia].
      destruct (Nat.leb_spec e (i_off i + N.to_nat (i_foff i) + N.to_nat (i_flen i))) as [_|X]; [|lia].
      cbn [andb]. rewrite orb_true_r. exact IH.
Qed.

Lemma set_iif_value_eq : forall i b a o, i_off i <= a -> a <= o ->
  set_iif_value i b a o =
  if b then Ok (mkI (i_off i) (i_len i) (t16 (a - i_off i)) (t16 (o - a)) (i_foff i) (i_flen i) (i_tid i) (i_fid i))
  else Ok (mkI (i_off i) (i_len i) (i_toff i) (i_tlen i) (t16 (a - i_off i)) (t16 (o - a)) (i_tid i) (i_fid i)).
Proof. intros i b a o H1 H2. unfold set_iif_value. rewrite csub_eq by lia. cbn [bind]. rewrite csub_eq by lia. reflexivity. Qed.

Section Finalize.
  Variable content : list N.

  (* the closing brace of  {if case="e" true="T" false="F"}  ([q] is the quote that ends the case) *)
  Lemma finalize_iif_some : forall off lpe T F A B stk cur0 ex chain,
    let q := off + 10 + lpe in let ts := q + 8 in let fs := ts + length T + 9 in
    let tot := 10 + lpe + 8 + length T + 9 + length F + 2 in
    at_ content (q + 1) (s_true_in ++ T ++ [34%N] ++ s_false_in ++ F ++ [34; 125]%N) -> ~ In 34%N T -> ~ In 34%N F ->
    (N.of_nat tot <= 65535)%N -> length A <= 255 ->
    Forall (leaf_in ts (ts + length T)) A -> Forall (leaf_in fs (fs + length F)) B ->
    finalize_iif content (off + tot) stk cur0 (mkI off 0 (t16 (10 + lpe + 1)) 0 0 0 0 0) ex (A ++ B) chain =
    Ok (mkS (off + tot) 0 stk
            (cur0 ++ [PIIf (mkI off (N.of_nat tot) (N.of_nat (ts - off)) (N.of_nat (length T)) (N.of_nat (fs - off)) (N.of_nat (length F)) 0
                                (N.of_nat (length A))) ex (A ++ B)]) false chain).
  Proof.
    intros off lpe T F A B stk cur0 ex chain q ts fs tot Hat HT HF Htot HA HlA HlB.
    unfold finalize_iif. cbn [i_toff i_off i_tlen i_foff i_flen i_tid i_fid].
    rewrite csub_eq by lia. cbn [bind]. replace (off + tot - off) with tot by lia.
    destruct (N.ltb_spec 65535 (N.of_nat tot)) as [X|_]; [lia|].
    rewrite (t16_id (10 + lpe + 1)) by (unfold tot in Htot; lia). rewrite Nat2N.id. rewrite (t16_id tot Htot).
    replace (off + (10 + lpe + 1)) with (q + 1) by (unfold q; lia).
    pose proof (at_app _ _ _ _ Hat) as [Ha1 Ha2]. cbn [length s_true_in] in Ha2.
    pose proof (at_app _ _ _ _ Ha2) as [Ha3 Ha4].
    pose proof (at_app _ _ _ _ Ha4) as [Ha5 Ha6]. cbn [length] in Ha6.
    assert (Hat1 : at_ content (q + 1) (s_true_in ++ T ++ [34%N])).
    { intros k Hk. repeat rewrite app_length in Hk. cbn [length s_true_in] in Hk. rewrite (Hat k) by (repeat rewrite app_length; cbn [length s_true_in]; lia).
      rewrite (app_assoc s_true_in), (app_assoc (s_true_in ++ T)). rewrite nth_error_app1 by (repeat rewrite app_length; cbn [length s_true_in]; lia).
      rewrite <- app_assoc. reflexivity. }
    assert (Hat2 : at_ content (q + 1 + 7 + length T + 1) (s_false_in ++ F ++ [34%N])).
    { intros k Hk. repeat rewrite app_length in Hk. cbn [length s_false_in] in Hk.
      replace (q + 1 + 7 + length T + 1 + k) with (q + 1 + 7 + length T + 1 + k) by lia.
      rewrite (Ha6 k) by (repeat rewrite app_length; cbn [length s_false_in]; lia).
      rewrite (app_assoc s_false_in). replace ([34; 125]%N) with ([34%N] ++ [125%N]) by reflexivity. rewrite (app_assoc (s_false_in ++ F)).
      rewrite nth_error_app1 by (repeat rewrite app_length; cbn [length s_false_in]; lia). rewrite <- app_assoc. reflexivity. }
    assert (H125 : nth_error content (off + tot - 1) = Some 125%N).
    { replace (off + tot - 1) with (q + 1 + 7 + length T + 1 + (8 + length F + 1)) by (unfold q, tot; lia).
      rewrite (Ha6 (8 + length F + 1)) by (repeat rewrite app_length; cbn [length s_false_in]; lia).
      rewrite nth_error_app2 by (cbn [length s_false_in]; lia). cbn [length s_false_in].
      rewrite nth_error_app2 by lia. replace (8 + length F + 1 - 8 - length F) with 1 by lia. reflexivity. }
    set (e := off + tot) in *.
    destruct (e - (q + 1)) as [|[|g]] eqn:Eg; [unfold e, q, tot in Eg; lia|unfold e, q, tot in Eg; lia|].
    rewrite (iif_true_iter content _ (q + 1) e false _ _ T Hat1 HT) by (unfold e, q, tot; lia).
    rewrite set_iif_value_eq by (cbn [i_off]; unfold q; lia). cbn [bind i_off i_len i_toff i_tlen i_foff i_flen i_tid i_fid].
    destruct (Nat.ltb_spec (S (q + 1 + 7 + length T)) e) as [_|X]; [|unfold e, q, tot in X; lia].
    replace (S (q + 1 + 7 + length T)) with (q + 1 + 7 + length T + 1) by lia.
    rewrite (iif_false_iter content _ (q + 1 + 7 + length T + 1) e _ _ F Hat2 HF) by (unfold e, q, tot; lia).
    rewrite set_iif_value_eq by (cbn [i_off]; unfold q; lia). cbn [bind i_off i_len i_toff i_tlen i_foff i_flen i_tid i_fid].
    destruct (Nat.ltb_spec (S (q + 1 + 7 + length T + 1 + 8 + length F)) e) as [_|X]; [|unfold e, q, tot in X; lia].
    rewrite iif_break; [|replace (S (q + 1 + 7 + length T + 1 + 8 + length F)) with (e - 1) by (unfold e, q, tot; lia); exact H125|unfold e, q, tot; lia].
    cbn [bind fst snd i_off i_len i_toff i_tlen i_foff i_flen i_tid i_fid].
    replace (q + 1 + 7 - off) with (ts - off) by (unfold ts; lia).
    replace (q + 1 + 7 + length T - (q + 1 + 7)) with (length T) by lia.
    replace (q + 1 + 7 + length T + 1 + 8 - off) with (fs - off) by (unfold fs, ts; lia).
    replace (q + 1 + 7 + length T + 1 + 8 + length F - (q + 1 + 7 + length T + 1 + 8)) with (length F) by lia.
    rewrite (t16_id (ts - off)) by (unfold ts, q, tot in *; lia). rewrite (t16_id (length T)) by (unfold tot in *; lia).
    rewrite (t16_id (fs - off)) by (unfold fs, ts, q, tot in *; lia). rewrite (t16_id (length F)) by (unfold tot in *; lia).
    destruct (N.eqb_spec (N.of_nat (ts - off)) 0) as [X|_]; [unfold ts, q in X; lia|]. cbn [negb orb].
    destruct (N.ltb_spec (N.of_nat (ts - off)) (N.of_nat (fs - off))) as [_|X]; [|unfold fs in X; lia].
    rewrite Nat2N.id. replace (fs - off + off) with fs by (unfold fs, ts, q; lia).
    rewrite (sid_skip A B fs 0).
    2:{ eapply Forall_impl; [|exact HlA]. intros t Ht. apply (leaf_in_key_lt _ _ fs t Ht). unfold fs. lia. }
    rewrite (sid_stop B fs (0 + length A)).
    2:{ destruct B as [|t r]; [exact I|]. inversion HlB; subst. destruct (leaf_in_key_ge _ _ t H1) as (k & Hk & Hge). exists k. split; [exact Hk|lia]. }
    cbn [Nat.add]. destruct (Nat.ltb_spec 255 (length A)) as [X|_]; [lia|].
    rewrite (t8_small (length A)) by lia.
    rewrite sub_tags_valid_true.
    - cbn [bind]. reflexivity.
    - cbn [i_off i_toff i_tlen i_foff i_flen]. rewrite !Nat2N.id. apply Forall_app. split.
      + eapply Forall_impl; [|exact HlA]. intros t Ht. left. split; [unfold ts, q; lia|].
        replace (off + (ts - off)) with ts by (unfold ts, q; lia). exact Ht.
      + eapply Forall_impl; [|exact HlB]. intros t Ht. right. split; [unfold fs, ts, q; lia|].
        replace (off + (fs - off)) with fs by (unfold fs, ts, q; lia). exact Ht.
  Qed.

  Lemma finalize_iif_none : forall off lpe T A stk cur0 ex chain,
    let q := off + 10 + lpe in let ts := q + 8 in
    let tot := 10 + lpe + 8 + length T + 2 in
    at_ content (q + 1) (s_true_in ++ T ++ [34; 125]%N) -> ~ In 34%N T ->
    (N.of_nat tot <= 65535)%N -> Forall (leaf_in ts (ts + length T)) A ->
    finalize_iif content (off + tot) stk cur0 (mkI off 0 (t16 (10 + lpe + 1)) 0 0 0 0 0) ex A chain =
    Ok (mkS (off + tot) 0 stk
            (cur0 ++ [PIIf (mkI off (N.of_nat tot) (N.of_nat (ts - off)) (N.of_nat (length T)) 0 0 0 0) ex A]) false chain).
  Proof.
    intros off lpe T A stk cur0 ex chain q ts tot Hat HT Htot HlA.
    unfold finalize_iif. cbn [i_toff i_off i_tlen i_foff i_flen i_tid i_fid].
    rewrite csub_eq by lia. cbn [bind]. replace (off + tot - off) with tot by lia.
    destruct (N.ltb_spec 65535 (N.of_nat tot)) as [X|_]; [lia|].
    rewrite (t16_id (10 + lpe + 1)) by (unfold tot in Htot; lia). rewrite Nat2N.id. rewrite (t16_id tot Htot).
    replace (off + (10 + lpe + 1)) with (q + 1) by (unfold q; lia).
    assert (Hat1 : at_ content (q + 1) (s_true_in ++ T ++ [34%N])).
    { intros k Hk. repeat rewrite app_length in Hk. cbn [length s_true_in] in Hk. rewrite (Hat k) by (repeat rewrite app_length; cbn [length s_true_in]; lia).
      replace ([34; 125]%N) with ([34%N] ++ [125%N]) by reflexivity.
      rewrite (app_assoc s_true_in), (app_assoc (s_true_in ++ T)). rewrite nth_error_app1 by (repeat rewrite app_length; cbn [length s_true_in]; lia).
      rewrite <- app_assoc. reflexivity. }
    assert (H125 : nth_error content (off + tot - 1) = Some 125%N).
    { replace (off + tot - 1) with (q + 1 + (7 + length T + 1)) by (unfold q, tot; lia).
      rewrite (Hat (7 + length T + 1)) by (repeat rewrite app_length; cbn [length s_true_in]; lia).
      rewrite nth_error_app2 by (cbn [length s_true_in]; lia). cbn [length s_true_in].
      rewrite nth_error_app2 by lia. replace (7 + length T + 1 - 7 - length T) with 1 by lia. reflexivity. }
    set (e := off + tot) in *.
    destruct (e - (q + 1)) as [|g] eqn:Eg; [unfold e, q, tot in Eg; lia|].
    rewrite (iif_true_iter content _ (q + 1) e false _ _ T Hat1 HT) by (unfold e, q, tot; lia).
    rewrite set_iif_value_eq by (cbn [i_off]; unfold q; lia). cbn [bind i_off i_len i_toff i_tlen i_foff i_flen i_tid i_fid].
    destruct (Nat.ltb_spec (S (q + 1 + 7 + length T)) e) as [_|X]; [|unfold e, q, tot in X; lia].
    rewrite iif_break; [|replace (S (q + 1 + 7 + length T)) with (e - 1) by (unfold e, q, tot; lia); exact H125|unfold e, q, tot; lia].
    cbn [bind fst snd i_off i_len i_toff i_tlen i_foff i_flen i_tid i_fid].
    replace (q + 1 + 7 - off) with (ts - off) by (unfold ts; lia).
    replace (q + 1 + 7 + length T - (q + 1 + 7)) with (length T) by lia.
    rewrite (t16_id (ts - off)) by (unfold ts, q, tot in *; lia). rewrite (t16_id (length T)) by (unfold tot in *; lia).
    destruct (N.eqb_spec (N.of_nat (ts - off)) 0) as [X|_]; [unfold ts, q in X; lia|]. cbn [negb orb].
    destruct (N.ltb_spec (N.of_nat (ts - off)) 0) as [X|_]; [lia|].
    rewrite Nat2N.id. replace (ts - off + off) with ts by (unfold ts, q; lia).
    rewrite (sid_stop A ts 0).
    2:{ destruct A as [|t r]; [exact I|]. inversion HlA; subst. destruct (leaf_in_key_ge _ _ t H1) as (k & Hk & Hge). exists k. split; [exact Hk|lia]. }
    destruct (Nat.ltb_spec 255 0) as [X|_]; [lia|]. change (t8 0) with 0%N.
    rewrite sub_tags_valid_true.
    - cbn [bind]. reflexivity.
    - cbn [i_off i_toff i_tlen i_foff i_flen]. rewrite !Nat2N.id.
      eapply Forall_impl; [|exact HlA]. intros t Ht. left. split; [unfold ts, q; lia|].
      replace (off + (ts - off)) with ts by (unfold ts, q; lia). exact Ht.
  Qed.
End Finalize.

Lemma spec_iif : forall r off, next_spec_c8 (s_iif_open ++ r) off = (6%N, off + 3).
Proof. intros r off. cbn. f_equal. lia. Qed.

(* the values of an inline if hold no double quote *)
Lemma inl_no34 : forall l names depth, forallb inl_ok l = true -> forallb (wf_node1 names depth) l = true -> ~ In 34%N (print_nodes l).
Proof.
  intros l names depth; induction l as [|x r IH]; intros Hi Hw Hin; [destruct Hin|].
  cbn [forallb] in Hi, Hw. apply andb_prop in Hi. destruct Hi as [Hix Hir]. apply andb_prop in Hw. destruct Hw as [Hwx Hwr].
  cbn [print_nodes] in Hin. apply in_app_or in Hin. destruct Hin as [Hin|Hin]; [|exact (IH Hir Hwr Hin)].
  destruct x as [s|p|p|e|p sb|c t f|c b m|st v g so b]; try discriminate Hix.
  - cbn [inl_ok print_node] in *. rewrite forallb_forall in Hix. specialize (Hix _ Hin). discriminate Hix.
  - cbn [wf_node1] in Hwx. apply andb_prop in Hwx. destruct Hwx as [Hp _]. rewrite print_node_TVar in Hin.
    apply in_app_or in Hin. destruct Hin as [Hin|Hin]; [cbn in Hin; repeat (destruct Hin as [Hin|Hin]; [discriminate Hin|]); exact Hin|].
    apply in_app_or in Hin. destruct Hin as [Hin|Hin]; [|cbn in Hin; destruct Hin as [Hin|[]]; discriminate Hin].
    revert Hin. apply print_path_no; [exact Hp|discriminate|discriminate|reflexivity].
  - cbn [wf_node1] in Hwx. apply andb_prop in Hwx. destruct Hwx as [Hp _]. rewrite print_node_TRaw in Hin.
    apply in_app_or in Hin. destruct Hin as [Hin|Hin]; [cbn in Hin; repeat (destruct Hin as [Hin|Hin]; [discriminate Hin|]); exact Hin|].
    apply in_app_or in Hin. destruct Hin as [Hin|Hin]; [|cbn in Hin; destruct Hin as [Hin|[]]; discriminate Hin].
    revert Hin. apply print_path_no; [exact Hp|discriminate|discriminate|reflexivity].
  - cbn [wf_node1] in Hwx. rewrite print_node_TMath in Hin.
    apply in_app_or in Hin. destruct Hin as [Hin|Hin]; [cbn in Hin; repeat (destruct Hin as [Hin|Hin]; [discriminate Hin|]); exact Hin|].
    apply in_app_or in Hin. destruct Hin as [Hin|Hin]; [|cbn in Hin; destruct Hin as [Hin|[]]; discriminate Hin].
    revert Hin. apply expr_no34. apply (wf_expr_pok _ _ Hwx).
Qed.

(* case LineEndID on the closing brace of an inline if *)
Lemma do_line_end_iif : forall content fo fm stk cur0 i0 ex subs chain,
  do_line_end content (mkS fo fm ((cur0 ++ [PIIf i0 ex []]) :: stk) subs true chain) =
  finalize_iif content fo stk cur0 i0 ex subs chain.
Proof.
  intros. unfold do_line_end. cbn [ps_child ps_stack ps_cur ps_fo ps_chain]. unfold writeback. rewrite split_last_snoc. cbn [bind].
  rewrite split_last_snoc. reflexivity.
Qed.


(* ---- the super variable ---- *)
Lemma spec_svar : forall r off, next_spec_c8 (s_svar_open ++ r) off = (5%N, off + 6).
Proof. intros r off. cbn. f_equal. lia. Qed.

Definition subs_nodes (subs : list tnode) : list tnode := flat_map (fun x => [TText s_comma_sp; x]) subs.
Lemma subs_nodes_print : forall subs, print_nodes (subs_nodes subs) = print_subs subs.
Proof. intros subs; induction subs as [|x r IH]; [reflexivity|]. cbn [subs_nodes flat_map app print_nodes print_subs print_node]. fold (subs_nodes r). rewrite IH. reflexivity. Qed.
Lemma subs_nodes_build : forall env d subs o, build_list env d o (subs_nodes subs) = build_subs env d o subs.
Proof.
  intros env d subs; induction subs as [|x r IH]; intros o; [reflexivity|].
  cbn [subs_nodes flat_map app build_list build print_node]. fold (subs_nodes r). rewrite build_subs_cons. cbn [length s_comma_sp].
  rewrite IH. reflexivity.
Qed.
Lemma subs_nodes_steps : forall subs, steps_list (subs_nodes subs) = steps_list subs.
Proof. intros subs; induction subs as [|x r IH]; [reflexivity|]. cbn [subs_nodes flat_map app steps_list steps]. fold (subs_nodes r). rewrite IH. reflexivity. Qed.
Lemma subs_nodes_inl : forall subs, forallb sub_ok subs = true -> forallb inl_ok (subs_nodes subs) = true.
Proof.
  intros subs; induction subs as [|x r IH]; intros H; [reflexivity|]. cbn [forallb] in H. apply andb_prop in H. destruct H as [Hx Hr].
  cbn [subs_nodes flat_map app forallb]. fold (subs_nodes r). rewrite (IH Hr). destruct x; try discriminate Hx; reflexivity.
Qed.
Lemma subs_nodes_wf : forall names d subs, forallb (wf_node1 names d) subs = true -> forallb (wf_node1 names d) (subs_nodes subs) = true.
Proof.
  intros names d subs; induction subs as [|x r IH]; intros H; [reflexivity|]. cbn [forallb] in H. apply andb_prop in H. destruct H as [Hx Hr].
  cbn [subs_nodes flat_map app forallb]. fold (subs_nodes r). rewrite (IH Hr), Hx. reflexivity.
Qed.

Section SvarSim.
  Variable w : N.
  Variable content : list N.

  (* case SuperVariableID *)
  Lemma do_svar_sim : forall (chain : list loopinfo) stk cur pre p rest fm,
    content = pre ++ s_svar_open ++ print_path p ++ s_comma_sp ++ rest -> In 125%N rest ->
    TfullModel.wf_path p = true -> no44 (print_path p) = true ->
    do_svar w content (mkS (length pre + 6) fm stk cur false chain) =
    Ok (sttc true (tok (pre ++ s_svar_open ++ print_path p ++ s_comma_sp) rest)
             ((cur ++ [PSVar (length pre) 0 (mkV (length pre + 6) (N.of_nat (length (print_path p))) 0 0) []]) :: stk) [] chain).
  Proof.
    intros chain stk cur pre p rest fm Hc H125 Hw H44. set (pp := print_path p) in *. set (off := length pre).
    pose proof (wf_path_len p Hw) as Hpl. fold pp in Hpl.
    assert (Hplain : forallb plain_char pp = true) by (apply okc_plain; apply path_okc; exact Hw).
    assert (Hc1 : content = (pre ++ s_svar_open) ++ pp ++ s_comma_sp ++ rest) by (rewrite Hc; repeat rewrite <- app_assoc; reflexivity).
    assert (Hl1 : length (pre ++ s_svar_open) = off + 6) by (rewrite app_length; reflexivity).
    set (mo := tok (pre ++ s_svar_open ++ pp ++ s_comma_sp) rest).
    assert (Hl2 : length (pre ++ s_svar_open ++ pp ++ s_comma_sp) = off + 6 + length pp + 2)
      by (repeat rewrite app_length; cbn [length s_svar_open s_comma_sp]; unfold off; lia).
    assert (Hmo : fnext w content (off + 6) = Ok mo).
    { rewrite <- Hl1. rewrite (fnext_tok w content _ _ Hc1). f_equal. unfold mo, tok.
      rewrite spec_plain by exact Hplain. rewrite (spec_text s_comma_sp) by reflexivity.
      repeat rewrite app_length. cbn [length s_svar_open s_comma_sp]. f_equal. lia. }
    assert (Hgt : off + 6 + length pp + 2 < snd mo).
    { unfold mo, tok. rewrite Hl2. apply next_spec_brace. exact H125. }
    unfold do_svar. cbn [ps_fo ps_chain].
    rewrite csub_eq by (unfold tpp_SuperVariablePrefixLength; lia). cbn [bind].
    replace (off + 6 - tpp_SuperVariablePrefixLength) with off by (unfold tpp_SuperVariablePrefixLength; lia).
    rewrite Hmo. cbn [bind].
    assert (Hat : at_ content (off + 6) (pp ++ s_comma_sp)).
    { rewrite <- Hl1. apply (at_split content _ _ rest). rewrite Hc1. repeat rewrite <- app_assoc. reflexivity. }
    pose proof (at_app _ _ _ _ Hat) as [Hat1 Hat2].
    rewrite (skip_ne_run content 95 tpp_VariablesSeparatorChar pp (off + 6) (snd mo) Hat1).
    - cbn [bind]. rewrite csub_eq by lia. cbn [bind]. replace (off + 6 + length pp - (off + 6)) with (length pp) by lia.
      rewrite t8_small by lia. destruct (N.eqb_spec (N.of_nat (length pp)) 0) as [X|_]; [lia|].
      unfold push_tag, with_finder, sttc. cbn [ps_fo ps_fm ps_stack ps_cur ps_child ps_chain]. reflexivity.
    - intros Hin. unfold no44 in H44. rewrite forallb_forall in H44. specialize (H44 _ Hin). discriminate H44.
    - apply (at_nth _ _ _ Hat2 0 44%N eq_refl). lia.
    - lia.
  Qed.

  (* case LineEndID on the closing brace of a super variable *)
  Lemma do_line_end_svar : forall fo fm stk cur0 o v subs chain,
    do_line_end content (mkS fo fm ((cur0 ++ [PSVar o 0 v []]) :: stk) subs true chain) =
    Ok (mkS fo 0 stk (cur0 ++ [PSVar o fo v subs]) false chain).
  Proof.
    intros. unfold do_line_end. cbn [ps_child ps_stack ps_cur ps_fo ps_chain]. unfold writeback. rewrite split_last_snoc. cbn [bind].
    rewrite split_last_snoc. reflexivity.
  Qed.
End SvarSim.
