(* TfullParseMain.v -- C02 on the faithful models, parser half: the main loop of the parser model on the printed text of
   a well-formed AST (induction over the AST), and the round trip theorem [parse_print_full]. *)
From Coq Require Import NArith ZArith List Bool Arith Lia ZifyBool ZifyNat ZifyN.
From Qv Require Import gen.Tables gen.Tables_tmpl gen.Tables_expr gen.Tables_digit gen.Tables_tparse EscapeModel FinderModel FinderProofs
  TmplModel TmplRender TmplProofs TparseModel TparseFinder TparseRound TrenderModel TfullModel TfullSem TfullParse TfullExpr TfullNum TfullIif.
Import ListNotations.
Ltac Zify.zify_post_hook ::= Z.div_mod_to_equations.

Lemma spec_if : forall r off, next_spec_c8 (s_if_open ++ r) off = (9%N, off + 3).
Proof. intros r off. cbn. f_equal. lia. Qed.
Lemma spec_if_end : forall r off, next_spec_c8 (s_if_end ++ r) off = (10%N, off + 5).
Proof. intros r off. cbn. f_equal. lia. Qed.
Lemma spec_else : forall r off, next_spec_c8 (s_else ++ r) off = (11%N, off + 5).
Proof. intros r off. cbn. f_equal. lia. Qed.
Lemma spec_elseif : forall r off, next_spec_c8 (s_elseif_open ++ r) off = (11%N, off + 5).
Proof. intros r off. cbn. f_equal. lia. Qed.

Lemma spec_loop : forall r off, next_spec_c8 (s_loop_open ++ r) off = (7%N, off + 5).
Proof. intros r off. cbn. f_equal. lia. Qed.
Lemma spec_loop_end : forall r off, next_spec_c8 (s_loop_end ++ r) off = (8%N, off + 7).
Proof. intros r off. cbn. f_equal. lia. Qed.

Lemma val_at : forall content env depth pre set val group sort rest bl,
  content = pre ++ loop_head set val group sort ++ rest ->
  let lr := loop_rec env depth (length pre) set val group sort bl in
  at_ content (l_off lr + N.to_nat (l_voff lr)) val.
Proof.
  intros content env depth pre set val group sort rest bl Hc lr.
  destruct val as [|v0 vr]; [intros k Hk; cbn in Hk; lia|].
  set (val := v0 :: vr) in *.
  assert (Hc2 : content = (pre ++ s_loop_open ++ hp_set set ++ s_value_attr) ++ val ++ (s_quote ++ hp_grp group ++ hp_sort sort ++ s_gt ++ rest)).
  { rewrite Hc, loop_head_parts. unfold hp_val, val. repeat rewrite <- app_assoc. reflexivity. }
  replace (l_off lr + N.to_nat (l_voff lr)) with (length (pre ++ s_loop_open ++ hp_set set ++ s_value_attr)).
  - apply (at_split _ _ _ _ Hc2).
  - unfold lr, loop_rec, val. cbn [l_off l_voff]. rewrite Nat2N.id. repeat rewrite app_length. cbn [length s_loop_open s_value_attr].
    destruct set as [p|]; unfold hp_set; repeat rewrite app_length; cbn [length s_set_attr s_quote]; lia.
Qed.

Section Sim2.
  Variable numf : list N -> N * N * nat.
  Variable w : N.
  Variable content : list N.
  Hypothesis Hnum : forall n, (n < 10000000000000000000)%N -> numf (dec n) = (qn_natural, n, length (dec n)).
  Notation ML := (main_loop numf w content).

  (* case MathID *)
  Lemma do_math_sim : forall env stk cur pre e post fm,
    content = pre ++ (s_math_open ++ print_expr e ++ s_close) ++ post -> pok e = true -> env_in content env ->
    do_math numf w content (mkS (length pre + 6) fm stk cur false (map snd env)) =
    Ok (stt (tok (pre ++ s_math_open ++ print_expr e ++ s_close) post) stk
            (cur ++ [PMath (length pre) (length pre + 6 + length (print_expr e) + 1) (qexpr_of env (length pre + 6) e)]) (map snd env)).
  Proof.
    intros env stk cur pre e post fm Hc Hok Henv.
    set (pe := print_expr e) in *.
    assert (Hc1 : content = (pre ++ s_math_open) ++ pe ++ (s_close ++ post)) by (rewrite Hc; repeat rewrite <- app_assoc; reflexivity).
    assert (Hl1 : length (pre ++ s_math_open) = length pre + 6) by (rewrite app_length; reflexivity).
    assert (Hc2 : content = (pre ++ s_math_open ++ pe) ++ s_close ++ post) by (rewrite Hc; repeat rewrite <- app_assoc; reflexivity).
    assert (Hl2 : length (pre ++ s_math_open ++ pe) = length pre + 6 + length pe) by (repeat rewrite app_length; cbn [length s_math_open]; lia).
    assert (Hc3 : content = (pre ++ s_math_open ++ pe ++ s_close) ++ post) by (rewrite Hc; repeat rewrite <- app_assoc; reflexivity).
    assert (Hl3 : length (pre ++ s_math_open ++ pe ++ s_close) = S (length pre + 6 + length pe))
      by (repeat rewrite app_length; cbn [length s_math_open s_close]; lia).
    assert (Hlen : length content = length pre + 6 + length pe + 1 + length post)
      by (rewrite Hc; repeat rewrite app_length; cbn [length s_math_open s_close]; lia).
    unfold do_math. cbn [ps_fo ps_chain ps_cur].
    rewrite <- Hl1. rewrite (fnext_tok w content _ _ Hc1). cbn [bind].
    pose proof (nvars_le e) as Hnv. fold pe in Hnv.
    replace (S (length content)) with (nvars e + S (length content - nvars e)) by lia.
    rewrite (ms_expr w content e (pre ++ s_math_open) (s_close ++ post) _ Hc1 Hok). fold pe.
    replace ((pre ++ s_math_open) ++ pe) with (pre ++ s_math_open ++ pe) by (rewrite <- app_assoc; reflexivity).
    assert (Ht : tok (pre ++ s_math_open ++ pe) (s_close ++ post) = (1%N, S (length pre + 6 + length pe)))
      by (unfold tok; rewrite spec_close, Hl2; reflexivity).
    rewrite Ht. cbn [math_scan fst snd].
    change (N.ltb 1 tpp_MathID && negb (N.eqb 1 tpp_LineEndID)) with false. cbv iota. cbn [bind fst snd].
    change (N.eqb 1 tpp_LineEndID) with true. cbv iota.
    rewrite <- Hl3. rewrite (fnext_tok w content _ _ Hc3). cbn [bind fst snd]. rewrite Hl3.
    destruct (Nat.eqb_spec (S (length pre + 6 + length pe)) 0) as [X|_]; [lia|].
    rewrite Hl1. rewrite csub_eq by (unfold tpp_MathPrefixLength; lia). cbn [bind].
    rewrite csub_eq by (unfold tpp_InLineSuffixLength; lia). cbn [bind].
    replace (S (length pre + 6 + length pe) - tpp_InLineSuffixLength) with (length pre + 6 + length pe) by (unfold tpp_InLineSuffixLength; lia).
    pose proof (pexpr_print numf content env Hnum Henv e (length pre + 6) Hok) as Hpx. fold pe in Hpx. rewrite Hpx.
    - cbn [bind]. unfold with_finder, with_cur, stt. cbn [ps_fo ps_fm ps_stack ps_cur ps_child ps_chain].
      replace (length pre + 6 - tpp_MathPrefixLength) with (length pre) by (unfold tpp_MathPrefixLength; lia).
      replace (length pre + 6 + length pe + 1) with (S (length pre + 6 + length pe)) by lia. reflexivity.
    - rewrite <- Hl1. apply (at_split _ _ _ _ Hc1).
  Qed.


  (* case IfID *)
  Lemma do_if_sim : forall env stk cur pre c rest fm,
    content = pre ++ s_if_open ++ print_expr c ++ s_tag_close ++ rest -> rest <> [] -> pok c = true -> env_in content env ->
    do_if numf w content (mkS (length pre + 3) fm stk cur false (map snd env)) =
    Ok (stt (tok (pre ++ s_if_open ++ print_expr c ++ s_tag_close) rest)
            ((cur ++ [PIf (length pre) 0 [PCase (length pre + 10 + length (print_expr c) + 2) 0 (qexpr_of env (length pre + 10) c) []]]) :: stk)
            [] (map snd env)).
  Proof.
    intros env stk cur pre c rest fm Hc Hrest Hok Henv. set (pe := print_expr c) in *.
    assert (Hlr : 1 <= length rest) by (destruct rest; [contradiction|cbn; lia]).
    assert (Hlen : length content = length pre + 10 + length pe + 2 + length rest)
      by (rewrite Hc; repeat rewrite app_length; cbn [length s_if_open s_tag_close]; lia).
    assert (Hc1 : content = (pre ++ [60;105;102]%N) ++ (s_case_attr ++ pe ++ [34;62]%N) ++ rest)
      by (rewrite Hc; unfold s_if_open, s_case_attr, s_tag_close; repeat rewrite <- app_assoc; reflexivity).
    assert (Hat : at_ content (length pre + 3) (s_case_attr ++ pe ++ [34;62]%N)).
    { replace (length pre + 3) with (length (pre ++ [60;105;102]%N)) by (rewrite app_length; reflexivity). apply (at_split _ _ _ _ Hc1). }
    unfold do_if. cbn [ps_fo ps_chain ps_child].
    rewrite csub_eq by (unfold tpp_IfPrefixLength; lia). cbn [bind].
    rewrite (parse_if_case_sim content (length pre + 3) (length content) pe Hat (expr_no34 c Hok)) by lia.
    cbn [bind]. replace (length pre + 3 + 7) with (length pre + 10) by lia.
    destruct (Nat.ltb_spec (length pre + 10 + length pe + 2) (length content)) as [_|X]; [|lia].
    pose proof (pexpr_print numf content env Hnum Henv c (length pre + 10) Hok) as Hpx. fold pe in Hpx. rewrite Hpx.
    2:{ apply (at_sub _ _ _ Hat s_case_attr pe [34;62]%N); [reflexivity|cbn; lia]. }
    cbn [bind].
    assert (Hc2 : content = (pre ++ s_if_open ++ pe ++ s_tag_close) ++ rest) by (rewrite Hc; repeat rewrite <- app_assoc; reflexivity).
    assert (Hl2 : length (pre ++ s_if_open ++ pe ++ s_tag_close) = length pre + 10 + length pe + 2)
      by (repeat rewrite app_length; cbn [length s_if_open s_tag_close]; lia).
    rewrite <- Hl2. rewrite (fnext_tok w content _ _ Hc2). cbn [bind]. rewrite Hl2.
    unfold push_tag, with_finder, stt. cbn [ps_fo ps_fm ps_stack ps_cur ps_child ps_chain].
    replace (length pre + 3 - tpp_IfPrefixLength) with (length pre) by (unfold tpp_IfPrefixLength; lia). reflexivity.
  Qed.

  (* case ElseID on an else-if tag *)
  Lemma do_elseif_sim : forall env stk cur0 off ci co cc subs prc e rest,
    content = prc ++ s_elseif_open ++ print_expr e ++ s_tag_close ++ rest -> rest <> [] -> pok e = true -> env_in content env ->
    do_else numf w content (mkS (length prc + 5) 11 ((cur0 ++ [PIf off 0 (ci ++ [PCase co 0 cc []])]) :: stk) subs false (map snd env)) =
    Ok (stt (tok (prc ++ s_elseif_open ++ print_expr e ++ s_tag_close) rest)
            ((cur0 ++ [PIf off 0 ((ci ++ [PCase co (length prc) cc subs]) ++
                                  [PCase (length prc + 15 + length (print_expr e) + 2) 0 (qexpr_of env (length prc + 15) e) []])]) :: stk)
            [] (map snd env), false).
  Proof.
    intros env stk cur0 off ci co cc subs prc e rest Hc Hrest Hok Henv. set (pe := print_expr e) in *.
    assert (Hlr : 1 <= length rest) by (destruct rest; [contradiction|cbn; lia]).
    assert (Hlen : length content = length prc + 15 + length pe + 2 + length rest)
      by (rewrite Hc; repeat rewrite app_length; cbn [length s_elseif_open s_tag_close]; lia).
    assert (Hc1 : content = (prc ++ [60;101;108;115;101;32;105;102]%N) ++ (s_case_attr ++ pe ++ [34;62]%N) ++ rest)
      by (rewrite Hc; unfold s_elseif_open, s_case_attr, s_tag_close; repeat rewrite <- app_assoc; reflexivity).
    assert (Hat : at_ content (length prc + 8) (s_case_attr ++ pe ++ [34;62]%N)).
    { replace (length prc + 8) with (length (prc ++ [60;101;108;115;101;32;105;102]%N)) by (rewrite app_length; reflexivity). apply (at_split _ _ _ _ Hc1). }
    assert (Hat0 : at_ content (length prc) s_elseif_open) by (apply (at_split _ _ _ _ Hc)).
    unfold do_else. cbn [ps_stack ps_fo ps_fm ps_cur ps_child ps_chain].
    rewrite split_last_snoc. rewrite split_last_snoc.
    rewrite csub_eq by (unfold tpp_ElsePrefixLength; lia). cbn [bind].
    replace (length prc + 5 - tpp_ElsePrefixLength) with (length prc) by (unfold tpp_ElsePrefixLength; lia).
    (* the scan for the if after else *)
    destruct (length content - (length prc + 5)) as [|[|g]] eqn:Eg; [lia|lia|].
    remember (S g) as g1. cbn [else_scan]. destruct (Nat.ltb_spec (length prc + 5) (length content)) as [_|X]; [|lia].
    rewrite (rd_at content 111 (length prc + 5) 32%N) by (apply (at_nth _ _ _ Hat0 5 32%N eq_refl); lia). cbn [bind].
    change (N.eqb 32 tpp_MultiLineLastChar) with false. change (N.eqb 32 tpp_IfFirstChar) with false. cbv iota.
    subst g1. cbn [else_scan]. destruct (Nat.ltb_spec (S (length prc + 5)) (length content)) as [_|X]; [|lia].
    rewrite (rd_at content 111 (S (length prc + 5)) 105%N) by (apply (at_nth _ _ _ Hat0 6 105%N eq_refl); lia). cbn [bind].
    change (N.eqb 105 tpp_MultiLineLastChar) with false. change (N.eqb 105 tpp_IfFirstChar) with true. cbv iota. cbn [bind fst snd].
    replace (S (length prc + 5) + tpp_IfAfterElseLength) with (length prc + 8) by (unfold tpp_IfAfterElseLength; lia).
    rewrite (parse_if_case_sim content (length prc + 8) (length content) pe Hat (expr_no34 e Hok)) by lia.
    cbn [bind]. replace (length prc + 8 + 7) with (length prc + 15) by lia.
    assert (Hc2 : content = (prc ++ s_elseif_open ++ pe ++ s_tag_close) ++ rest) by (rewrite Hc; repeat rewrite <- app_assoc; reflexivity).
    assert (Hl2 : length (prc ++ s_elseif_open ++ pe ++ s_tag_close) = length prc + 15 + length pe + 2)
      by (repeat rewrite app_length; cbn [length s_elseif_open s_tag_close]; lia).
    rewrite <- Hl2. rewrite (fnext_tok w content _ _ Hc2). cbn [bind]. rewrite Hl2.
    destruct (Nat.ltb_spec (length prc + 15 + length pe + 2) (length content)) as [_|X]; [|lia].
    destruct (Nat.eqb_spec (length prc + 15 + length pe) 0) as [X|_]; [lia|]. cbn [negb andb].
    pose proof (pexpr_print numf content env Hnum Henv e (length prc + 15) Hok) as Hpx. fold pe in Hpx. rewrite Hpx.
    2:{ replace (length prc + 15) with (length prc + 8 + length s_case_attr) by (cbn; lia).
        apply (at_sub _ _ _ Hat s_case_attr pe [34;62]%N); reflexivity. }
    cbn [bind]. unfold stt. reflexivity.
  Qed.

  (* case ElseID on a plain else tag *)
  Lemma do_else_sim : forall (env : list (list N * loopinfo)) stk cur0 off ci co cc subs prc rest,
    content = prc ++ s_else ++ rest -> rest <> [] ->
    do_else numf w content (mkS (length prc + 5) 11 ((cur0 ++ [PIf off 0 (ci ++ [PCase co 0 cc []])]) :: stk) subs false (map snd env)) =
    Ok (stt (tok (prc ++ s_else) rest)
            ((cur0 ++ [PIf off 0 ((ci ++ [PCase co (length prc) cc subs]) ++ [PCase (length prc + 6) 0 [] []])]) :: stk)
            [] (map snd env), false).
  Proof.
    intros env stk cur0 off ci co cc subs prc rest Hc Hrest.
    assert (Hlr : 1 <= length rest) by (destruct rest; [contradiction|cbn; lia]).
    assert (Hlen : length content = length prc + 6 + length rest)
      by (rewrite Hc; repeat rewrite app_length; cbn [length s_else]; lia).
    assert (Hat0 : at_ content (length prc) s_else) by (apply (at_split _ _ _ _ Hc)).
    unfold do_else. cbn [ps_stack ps_fo ps_fm ps_cur ps_child ps_chain].
    rewrite split_last_snoc. rewrite split_last_snoc.
    rewrite csub_eq by (unfold tpp_ElsePrefixLength; lia). cbn [bind].
    replace (length prc + 5 - tpp_ElsePrefixLength) with (length prc) by (unfold tpp_ElsePrefixLength; lia).
    destruct (length content - (length prc + 5)) as [|g] eqn:Eg; [lia|].
    cbn [else_scan]. destruct (Nat.ltb_spec (length prc + 5) (length content)) as [_|X]; [|lia].
    rewrite (rd_at content 111 (length prc + 5) 62%N) by (apply (at_nth _ _ _ Hat0 5 62%N eq_refl); lia). cbn [bind].
    change (N.eqb 62 tpp_MultiLineLastChar) with true. cbv iota. cbn [bind fst snd].
    destruct (Nat.ltb_spec (length prc + 5) (length content)) as [_|X]; [|lia].
    assert (Hc2 : content = (prc ++ s_else) ++ rest) by (rewrite Hc; repeat rewrite <- app_assoc; reflexivity).
    assert (Hl2 : length (prc ++ s_else) = S (length prc + 5)) by (rewrite app_length; cbn [length s_else]; lia).
    rewrite <- Hl2. rewrite (fnext_tok w content _ _ Hc2). cbn [bind]. rewrite Hl2.
    unfold stt. replace (S (length prc + 5)) with (length prc + 6) by lia. reflexivity.
  Qed.

  (* case IfEndID, then finder.Next() *)
  Lemma do_if_end_sim : forall (env : list (list N * loopinfo)) stk cur0 off ci co cc subs prc post,
    content = prc ++ s_if_end ++ post ->
    then_next w content (do_if_end (mkS (length prc + 5) 10 ((cur0 ++ [PIf off 0 (ci ++ [PCase co 0 cc []])]) :: stk) subs false (map snd env))) =
    Ok (stt (tok (prc ++ s_if_end) post) stk (cur0 ++ [PIf off (length prc + 5) (ci ++ [PCase co (length prc) cc subs])]) (map snd env)).
  Proof.
    intros env stk cur0 off ci co cc subs prc post Hc.
    unfold do_if_end. cbn [ps_stack ps_fo ps_fm ps_cur ps_child ps_chain].
    rewrite split_last_snoc. rewrite split_last_snoc.
    rewrite csub_eq by (unfold tpp_IfSuffixLength; lia). cbn [bind].
    replace (length prc + 5 - tpp_IfSuffixLength) with (length prc) by (unfold tpp_IfSuffixLength; lia).
    unfold then_next. cbn [bind ps_fo].
    assert (Hc2 : content = (prc ++ s_if_end) ++ post) by (rewrite Hc; repeat rewrite <- app_assoc; reflexivity).
    assert (Hl2 : length (prc ++ s_if_end) = length prc + 5) by (rewrite app_length; cbn [length s_if_end]; lia).
    rewrite <- Hl2. rewrite (fnext_tok w content _ _ Hc2). cbn [bind]. rewrite Hl2.
    unfold with_finder, stt. reflexivity.
  Qed.

  Definition node_par (x : tnode) : Prop :=
    forall depth env stk cur pre post fuel,
      wf_node1 (map fst env) depth x = true -> content = pre ++ print_node x ++ post ->
      env_in content env -> length stk = depth ->
      ML (steps x + fuel) (stt (tok pre (print_node x ++ post)) stk cur (map snd env)) =
      ML fuel (stt (tok (pre ++ print_node x) post) stk (cur ++ build env depth (length pre) x) (map snd env)).

  Lemma list_par : forall l, Forall node_par l ->
    forall depth env stk cur pre post fuel,
      forallb (wf_node1 (map fst env) depth) l = true -> content = pre ++ print_nodes l ++ post ->
      env_in content env -> length stk = depth ->
      ML (steps_list l + fuel) (stt (tok pre (print_nodes l ++ post)) stk cur (map snd env)) =
      ML fuel (stt (tok (pre ++ print_nodes l) post) stk (cur ++ build_list env depth (length pre) l) (map snd env)).
  Proof.
    intros l Hl. induction Hl as [|x r Hx Hr IH]; intros depth env stk cur pre post fuel Hwf Hc Henv Hstk.
    - cbn [print_nodes steps_list build_list app Nat.add]. repeat rewrite app_nil_r. reflexivity.
    - cbn [forallb] in Hwf. apply andb_prop in Hwf. destruct Hwf as [Hwx Hwr].
      cbn [print_nodes steps_list build_list] in *.
      replace (steps x + steps_list r + fuel) with (steps x + (steps_list r + fuel)) by lia.
      replace ((print_node x ++ print_nodes r) ++ post) with (print_node x ++ (print_nodes r ++ post)) by (rewrite app_assoc; reflexivity).
      rewrite (Hx depth env stk cur pre (print_nodes r ++ post) (steps_list r + fuel) Hwx) by (try assumption; rewrite Hc; repeat rewrite <- app_assoc; reflexivity).
      rewrite (IH depth env stk (cur ++ build env depth (length pre) x) (pre ++ print_node x) post fuel Hwr)
        by (try assumption; rewrite Hc; repeat rewrite <- app_assoc; reflexivity).
      repeat rewrite <- app_assoc. rewrite app_length. reflexivity.
  Qed.


  Lemma app_ne : forall (a b : list N), b <> [] -> a ++ b <> [].
  Proof. intros a b H E. apply app_eq_nil in E. destruct E as [_ E]. contradiction. Qed.

  Ltac eq11 := change (N.eqb 11 tpp_LineEndID) with false; change (N.eqb 11 tpp_VariableID) with false; change (N.eqb 11 tpp_RawVariableID) with false;
    change (N.eqb 11 tpp_MathID) with false; change (N.eqb 11 tpp_SuperVariableID) with false; change (N.eqb 11 tpp_InLineIfID) with false;
    change (N.eqb 11 tpp_LoopID) with false; change (N.eqb 11 tpp_LoopEndID) with false; change (N.eqb 11 tpp_IfID) with false;
    change (N.eqb 11 tpp_IfEndID) with false; change (N.eqb 11 tpp_ElseID) with true; cbv iota.

  Lemma if_tail : forall more, Forall (fun cb : option expr * list tnode => Forall node_par (snd cb)) more ->
    forall depth env stk cur0 off ci co cc subs prc post fuel,
      wf_more (map fst env) depth more = true ->
      content = prc ++ print_more more ++ s_if_end ++ post ->
      env_in content env -> length stk = depth ->
      ML (steps_more more + fuel)
         (stt (tok prc (print_more more ++ s_if_end ++ post)) ((cur0 ++ [PIf off 0 (ci ++ [PCase co 0 cc []])]) :: stk) subs (map snd env)) =
      ML fuel
         (stt (tok (prc ++ print_more more ++ s_if_end) post) stk
              (cur0 ++ [PIf off (length (prc ++ print_more more ++ s_if_end))
                            (ci ++ PCase co (length prc) cc subs :: build_more env depth (length prc) more)])
              (map snd env)).
  Proof.
    intros more Hm. induction Hm as [|[oe b] r Hb Hr IH]; intros depth env stk cur0 off ci co cc subs prc post fuel Hwf Hc Henv Hstk.
    - cbn [print_more app steps_more Nat.add] in *.
      assert (Ht : tok prc (s_if_end ++ post) = (10%N, length prc + 5)) by (unfold tok; apply spec_if_end).
      rewrite Ht. rewrite main_loop_step by (cbn; discriminate). unfold step.
      match goal with |- context [stt (10%N, ?o) ?a ?b ?c] => change (stt (10%N, o) a b c) with (mkS o 10 a b false c) end. cbn [ps_fm].
      change (N.eqb 10 tpp_LineEndID) with false. change (N.eqb 10 tpp_VariableID) with false. change (N.eqb 10 tpp_RawVariableID) with false.
      change (N.eqb 10 tpp_MathID) with false. change (N.eqb 10 tpp_SuperVariableID) with false. change (N.eqb 10 tpp_InLineIfID) with false.
      change (N.eqb 10 tpp_LoopID) with false. change (N.eqb 10 tpp_LoopEndID) with false. change (N.eqb 10 tpp_IfID) with false.
      change (N.eqb 10 tpp_IfEndID) with true. cbv iota.
      rewrite (do_if_end_sim env stk cur0 off ci co cc subs prc post Hc). cbn [bind].
      rewrite app_length. cbn [length s_if_end build_more]. reflexivity.
    - cbn [snd] in Hb. destruct oe as [e|].
      + (* else if *)
        rewrite wf_more_some in Hwf. apply andb_prop in Hwf. destruct Hwf as [Hwf Hwr]. apply andb_prop in Hwf. destruct Hwf as [Hwe Hwb].
        pose proof (wf_expr_pok _ _ Hwe) as Hok.
        cbn [print_more steps_more] in *. set (pe := print_expr e) in *. set (pb := print_nodes b) in *.
        set (rest := pb ++ print_more r ++ s_if_end ++ post).
        assert (Hc1 : content = prc ++ s_elseif_open ++ pe ++ s_tag_close ++ rest)
          by (rewrite Hc; unfold rest; repeat rewrite <- app_assoc; reflexivity).
        assert (Hrest : rest <> []) by (unfold rest; apply app_ne; apply app_ne; discriminate).
        assert (Ht : tok prc ((s_elseif_open ++ pe ++ s_tag_close ++ pb ++ print_more r) ++ s_if_end ++ post) = (11%N, length prc + 5))
          by (unfold tok; repeat rewrite <- app_assoc; apply spec_elseif).
        rewrite Ht. replace (S (steps_list b + steps_more r) + fuel) with (S (steps_list b + (steps_more r + fuel))) by lia.
        rewrite main_loop_step by (cbn; discriminate). unfold step.
        match goal with |- context [stt (11%N, ?o) ?a ?b ?c] => change (stt (11%N, o) a b c) with (mkS o 11 a b false c) end. cbn [ps_fm].
        eq11.
        rewrite (do_elseif_sim env stk cur0 off ci co cc subs prc e rest Hc1 Hrest Hok Henv). cbn [bind fst snd]. fold pe.
        set (prc' := prc ++ s_elseif_open ++ pe ++ s_tag_close).
        assert (Hl' : length prc' = length prc + 15 + length pe + 2)
          by (unfold prc'; repeat rewrite app_length; cbn [length s_elseif_open s_tag_close]; lia).
        assert (Hc2 : content = prc' ++ pb ++ (print_more r ++ s_if_end ++ post))
          by (rewrite Hc; unfold prc'; repeat rewrite <- app_assoc; reflexivity).
        pose proof (fun stk' Hs => list_par b Hb (S depth) env stk' [] prc' (print_more r ++ s_if_end ++ post) (steps_more r + fuel) Hwb Hc2 Henv Hs) as Hbd.
        fold pb in Hbd. unfold rest. rewrite Hbd by (cbn [length]; lia). clear Hbd. cbn [app].
        assert (Hc3 : content = (prc' ++ pb) ++ print_more r ++ s_if_end ++ post) by (rewrite Hc2; repeat rewrite <- app_assoc; reflexivity).
        rewrite (IH depth env stk cur0 off (ci ++ [PCase co (length prc) cc subs]) (length prc + 15 + length pe + 2)
                   (qexpr_of env (length prc + 15) e) (build_list env (S depth) (length prc') b) (prc' ++ pb) post fuel Hwr Hc3 Henv Hstk).
        rewrite build_more_some. cbv zeta. fold pe pb.
        unfold prc'. repeat rewrite <- app_assoc. repeat rewrite app_length. cbn [length s_elseif_open s_tag_close app].
        repeat (f_equal; try lia).
      + (* else *)
        rewrite wf_more_none in Hwf. apply andb_prop in Hwf. destruct Hwf as [Hwb Hr0].
        assert (Hwr : wf_more (map fst env) depth r = true) by (destruct r; [reflexivity|discriminate Hr0]).
        cbn [print_more steps_more] in *. set (pb := print_nodes b) in *.
        set (rest := pb ++ print_more r ++ s_if_end ++ post).
        assert (Hc1 : content = prc ++ s_else ++ rest) by (rewrite Hc; unfold rest; repeat rewrite <- app_assoc; reflexivity).
        assert (Hrest : rest <> []) by (unfold rest; apply app_ne; apply app_ne; discriminate).
        assert (Ht : tok prc ((s_else ++ pb ++ print_more r) ++ s_if_end ++ post) = (11%N, length prc + 5))
          by (unfold tok; repeat rewrite <- app_assoc; apply spec_else).
        rewrite Ht. replace (S (steps_list b + steps_more r) + fuel) with (S (steps_list b + (steps_more r + fuel))) by lia.
        rewrite main_loop_step by (cbn; discriminate). unfold step.
        match goal with |- context [stt (11%N, ?o) ?a ?b ?c] => change (stt (11%N, o) a b c) with (mkS o 11 a b false c) end. cbn [ps_fm].
        eq11.
        rewrite (do_else_sim env stk cur0 off ci co cc subs prc rest Hc1 Hrest). cbn [bind fst snd].
        set (prc' := prc ++ s_else).
        assert (Hl' : length prc' = length prc + 6) by (unfold prc'; rewrite app_length; cbn [length s_else]; lia).
        assert (Hc2 : content = prc' ++ pb ++ (print_more r ++ s_if_end ++ post))
          by (rewrite Hc; unfold prc'; repeat rewrite <- app_assoc; reflexivity).
        pose proof (fun stk' Hs => list_par b Hb (S depth) env stk' [] prc' (print_more r ++ s_if_end ++ post) (steps_more r + fuel) Hwb Hc2 Henv Hs) as Hbd.
        fold pb in Hbd. unfold rest. rewrite Hbd by (cbn [length]; lia). clear Hbd. cbn [app].
        assert (Hc3 : content = (prc' ++ pb) ++ print_more r ++ s_if_end ++ post) by (rewrite Hc2; repeat rewrite <- app_assoc; reflexivity).
        rewrite (IH depth env stk cur0 off (ci ++ [PCase co (length prc) cc subs]) (length prc + 6)
                   [] (build_list env (S depth) (length prc') b) (prc' ++ pb) post fuel Hwr Hc3 Henv Hstk).
        rewrite build_more_none. cbv zeta. fold pb.
        unfold prc'. repeat rewrite <- app_assoc. repeat rewrite app_length. cbn [length s_else app].
        repeat (f_equal; try lia).
  Qed.

  Lemma node_par_all : forall x, node_par x.
  Proof.
    apply tnode_ind2; unfold node_par.
    - (* text *)
      intros s depth env stk cur pre post fuel Hwf Hc Henv Hstk. cbn [wf_node1] in Hwf.
      cbn [steps print_node build Nat.add]. rewrite app_nil_r. unfold tok.
      rewrite spec_text by exact Hwf. rewrite app_length. reflexivity.
    - (* var *)
      intros p depth env stk cur pre post fuel Hwf Hc Henv Hstk. cbn [wf_node1] in Hwf. apply andb_prop in Hwf. destruct Hwf as [Hw Hu].
      rewrite print_node_TVar in *. cbn [steps build Nat.add].
      assert (Ht : tok pre ((s_var_open ++ print_path p ++ s_close) ++ post) = (2%N, length pre + 5))
        by (unfold tok; repeat rewrite <- app_assoc; apply spec_var).
      rewrite Ht. rewrite main_loop_step by (cbn; discriminate). unfold step, stt. cbn [ps_fm fst snd].
      change (N.eqb 2 tpp_LineEndID) with false. change (N.eqb 2 tpp_VariableID) with true. cbv iota.
      rewrite (do_var_sim2 numf w content PVar env stk cur pre s_var_open p post 2 Hc eq_refl Hw Henv). reflexivity.
    - (* raw *)
      intros p depth env stk cur pre post fuel Hwf Hc Henv Hstk. cbn [wf_node1] in Hwf. apply andb_prop in Hwf. destruct Hwf as [Hw Hu].
      rewrite print_node_TRaw in *. cbn [steps build Nat.add].
      assert (Ht : tok pre ((s_raw_open ++ print_path p ++ s_close) ++ post) = (3%N, length pre + 5))
        by (unfold tok; repeat rewrite <- app_assoc; apply spec_raw).
      rewrite Ht. rewrite main_loop_step by (cbn; discriminate). unfold step, stt. cbn [ps_fm fst snd].
      change (N.eqb 3 tpp_LineEndID) with false. change (N.eqb 3 tpp_VariableID) with false. change (N.eqb 3 tpp_RawVariableID) with true. cbv iota.
      rewrite (do_var_sim2 numf w content PRaw env stk cur pre s_raw_open p post 3 Hc eq_refl Hw Henv). reflexivity.
    - (* math *)
      intros e depth env stk cur pre post fuel Hwf Hc Henv Hstk. cbn [wf_node1] in Hwf. pose proof (wf_expr_pok _ _ Hwf) as Hok.
      rewrite print_node_TMath in *. cbn [steps Nat.add].
      assert (Ht : tok pre ((s_math_open ++ print_expr e ++ s_close) ++ post) = (4%N, length pre + 6))
        by (unfold tok; repeat rewrite <- app_assoc; apply spec_math).
      rewrite Ht. rewrite main_loop_step by (cbn; discriminate). unfold step.
      change (stt (4%N, length pre + 6) stk cur (map snd env)) with (mkS (length pre + 6) 4 stk cur false (map snd env)). cbn [ps_fm].
      change (N.eqb 4 tpp_LineEndID) with false. change (N.eqb 4 tpp_VariableID) with false. change (N.eqb 4 tpp_RawVariableID) with false.
      change (N.eqb 4 tpp_MathID) with true. cbv iota.
      rewrite (do_math_sim env stk cur pre e post 4 Hc Hok Henv). cbn [bind].
      cbn [build print_node]. repeat rewrite app_length. cbn [length s_math_open s_close].
      replace (length pre + (6 + (length (print_expr e) + 1))) with (length pre + 6 + length (print_expr e) + 1) by lia. reflexivity.
    - (* super variable *)
      intros p subs depth env stk cur pre post fuel Hwf Hc Henv Hstk.
      rewrite wf_TSVar in Hwf. apply andb_prop in Hwf. destruct Hwf as [Hwf Hws]. apply andb_prop in Hwf. destruct Hwf as [Hwf Hso].
      apply andb_prop in Hwf. destruct Hwf as [Hwf Hne]. apply andb_prop in Hwf. destruct Hwf as [Hwf Hfr]. apply andb_prop in Hwf. destruct Hwf as [Hwp H44].
      rewrite steps_svar. rewrite build_TSVar. rewrite print_node_TSVar in *.
      set (off := length pre). set (pp := print_path p) in *.
      set (tot := length (s_svar_open ++ pp ++ print_subs subs ++ s_close)).
      assert (Htot : tot = 6 + length pp + length (print_subs subs) + 1)
        by (unfold tot; repeat rewrite app_length; cbn [length s_svar_open s_close]; lia).
      destruct subs as [|x0 r0] eqn:Esubs; [discriminate Hne|]. rewrite <- Esubs in *.
      assert (Hps : print_subs subs = s_comma_sp ++ (print_node x0 ++ print_subs r0)) by (rewrite Esubs; reflexivity).
      set (rest := (print_node x0 ++ print_subs r0) ++ s_close ++ post).
      assert (Hc1 : content = pre ++ s_svar_open ++ pp ++ s_comma_sp ++ rest)
        by (rewrite Hc, Hps; unfold rest; repeat rewrite <- app_assoc; reflexivity).
      assert (H125 : In 125%N rest) by (unfold rest; apply in_or_app; right; left; reflexivity).
      assert (Ht : tok pre ((s_svar_open ++ pp ++ print_subs subs ++ s_close) ++ post) = (5%N, off + 6))
        by (unfold tok; repeat rewrite <- app_assoc; apply spec_svar).
      rewrite Ht. rewrite <- (steps_sub_ok subs Hso). replace (S (S (steps_list subs)) + fuel) with (S (steps_list subs + S fuel)) by lia.
      rewrite main_loop_step by (cbn; discriminate). unfold step.
      change (stt (5%N, off + 6) stk cur (map snd env)) with (mkS (off + 6) 5 stk cur false (map snd env)). cbn [ps_fm].
      change (N.eqb 5 tpp_LineEndID) with false. change (N.eqb 5 tpp_VariableID) with false. change (N.eqb 5 tpp_RawVariableID) with false.
      change (N.eqb 5 tpp_MathID) with false. change (N.eqb 5 tpp_SuperVariableID) with true. cbv iota.
      unfold off at 1. rewrite (do_svar_sim w content (map snd env) stk cur pre p rest 5 Hc1 H125 Hwp H44). cbn [bind]. fold pp off.
      set (v := mkV (off + 6) (N.of_nat (length pp)) 0 0).
      set (stk' := (cur ++ [PSVar off 0 v []]) :: stk).
      set (prs := pre ++ s_svar_open ++ pp).
      assert (Hlp : length prs = off + 6 + length pp) by (unfold prs, off; repeat rewrite app_length; cbn [length s_svar_open]; lia).
      replace (tok (pre ++ s_svar_open ++ pp ++ s_comma_sp) rest) with (tok prs (print_nodes (subs_nodes subs) ++ (s_close ++ post))).
      2:{ rewrite subs_nodes_print, Hps. unfold prs, rest.
          replace ((s_comma_sp ++ print_node x0 ++ print_subs r0) ++ s_close ++ post) with (s_comma_sp ++ (print_node x0 ++ print_subs r0) ++ s_close ++ post)
            by (repeat rewrite <- app_assoc; reflexivity).
          rewrite (tok_text s_comma_sp) by reflexivity. repeat rewrite <- app_assoc. reflexivity. }
      assert (Hcs : content = prs ++ print_nodes (subs_nodes subs) ++ (s_close ++ post))
        by (rewrite subs_nodes_print, Hc; unfold prs; repeat rewrite <- app_assoc; reflexivity).
      rewrite <- (subs_nodes_steps subs).
      rewrite (leaf_list_par numf w content Hnum (subs_nodes subs) (S depth) env stk' [] prs _ (S fuel)
                 (subs_nodes_inl subs Hso) (subs_nodes_wf _ _ subs Hws) Hcs Henv).
      cbn [app]. rewrite subs_nodes_build, subs_nodes_print, Hlp.
      set (tags := build_subs env (S depth) (off + 6 + length pp) subs).
      assert (Hl3 : length (prs ++ print_subs subs) = off + tot - 1) by (rewrite app_length, Hlp, Htot; lia).
      assert (Ht3 : tok (prs ++ print_subs subs) (s_close ++ post) = (1%N, off + tot))
        by (unfold tok; rewrite spec_close, Hl3; f_equal; rewrite Htot; lia).
      rewrite Ht3. rewrite main_loop_step by (cbn; discriminate). unfold step.
      change (sttc true (1%N, off + tot) stk' tags (map snd env)) with (mkS (off + tot) 1 stk' tags true (map snd env)). cbn [ps_fm].
      change (N.eqb 1 tpp_LineEndID) with true. cbv iota.
      unfold stk'. rewrite do_line_end_svar. unfold then_next. cbn [bind ps_fo].
      assert (Hc4 : content = (pre ++ s_svar_open ++ pp ++ print_subs subs ++ s_close) ++ post) by (rewrite Hc; repeat rewrite <- app_assoc; reflexivity).
      assert (Hl4 : length (pre ++ s_svar_open ++ pp ++ print_subs subs ++ s_close) = off + tot) by (rewrite Htot; unfold off; repeat rewrite app_length; cbn [length s_svar_open s_close]; lia).
      rewrite <- Hl4. rewrite (fnext_tok w content _ _ Hc4). cbn [bind]. rewrite Hl4.
      unfold with_finder, stt. cbn [ps_stack ps_cur ps_child ps_chain]. reflexivity.
    - (* inline if with a false value *)
      intros c t fl _ _ depth env stk cur pre post fuel Hwf Hc Henv Hstk.
      rewrite wf_TIIf in Hwf. apply andb_prop in Hwf. destruct Hwf as [Hwf Hnt]. apply andb_prop in Hwf. destruct Hwf as [Hwf H16].
      apply andb_prop in Hwf. destruct Hwf as [Hwf Hf]. apply andb_prop in Hf. destruct Hf as [Hifl Hwfl].
      apply andb_prop in Hwf. destruct Hwf as [Hwf Hwt]. apply andb_prop in Hwf. destruct Hwf as [Hwc Hit].
      apply N.leb_le in H16. apply Nat.leb_le in Hnt.
      pose proof (wf_expr_pok _ _ Hwc) as Hok.
      rewrite steps_iif. rewrite build_TIIf_some. cbv zeta.
      set (off := length pre). set (pe := print_expr c) in *. set (pt := print_nodes t) in *. set (pf := print_nodes fl) in *.
      set (tot := length (print_node (TIIf c t (Some fl)))) in *.
      assert (Htot : tot = 10 + length pe + 8 + length pt + 9 + length pf + 2)
        by (unfold tot; rewrite print_node_TIIf; repeat rewrite app_length; cbn [length s_iif_open s_true_attr s_false_attr s_iif_close]; fold pe pt pf; lia).
      rewrite print_node_TIIf in Hc |- *. fold pe pt pf in Hc |- *.
      set (ts := off + 10 + length pe + 8). set (fs := ts + length pt + 9).
      set (A := build_list env (S depth) ts t). set (B := build_list env (S depth) fs fl).
      set (ex := qexpr_of env (off + 10) c).
      set (r' := s_true_in ++ pt ++ s_false_attr ++ pf ++ s_iif_close ++ post).
      assert (Hc1 : content = pre ++ s_iif_open ++ pe ++ 34%N :: r')
        by (rewrite Hc; unfold r', s_true_attr, s_true_in; repeat rewrite <- app_assoc; reflexivity).
      assert (H125 : In 125%N r').
      { unfold r'. apply in_or_app. right. apply in_or_app. right. apply in_or_app. right. apply in_or_app. right. apply in_or_app. left. right. left. reflexivity. }
      (* {if *)
      assert (Ht : tok pre ((s_iif_open ++ pe ++ s_true_attr ++ pt ++ (s_false_attr ++ pf) ++ s_iif_close) ++ post) = (6%N, off + 3))
        by (unfold tok; repeat rewrite <- app_assoc; apply spec_iif).
      rewrite Ht. replace (S (S (steps_list t + steps_list fl)) + fuel) with (S (steps_list t + (steps_list fl + S fuel))) by lia.
      rewrite main_loop_step by (cbn; discriminate). unfold step.
      change (stt (6%N, off + 3) stk cur (map snd env)) with (mkS (off + 3) 6 stk cur false (map snd env)). cbn [ps_fm].
      change (N.eqb 6 tpp_LineEndID) with false. change (N.eqb 6 tpp_VariableID) with false. change (N.eqb 6 tpp_RawVariableID) with false.
      change (N.eqb 6 tpp_MathID) with false. change (N.eqb 6 tpp_SuperVariableID) with false. change (N.eqb 6 tpp_InLineIfID) with true. cbv iota.
      unfold off at 1. rewrite (do_iif_sim numf w content Hnum env stk cur pre c r' 6 Hc1 H125 Hok Henv). cbn [bind]. fold pe off ex.
      set (i0 := mkI off 0 (t16 (10 + length pe + 1)) 0 0 0 0 0).
      set (stk' := (cur ++ [PIIf i0 ex []]) :: stk).
      (* the true value *)
      set (prt := pre ++ s_iif_open ++ pe ++ s_true_attr).
      assert (Hlt : length prt = ts) by (unfold prt, ts, off; repeat rewrite app_length; cbn [length s_iif_open s_true_attr]; lia).
      replace (tok (pre ++ s_iif_open ++ pe) (34%N :: r')) with (tok prt (pt ++ (s_false_attr ++ pf ++ s_iif_close ++ post))).
      2:{ unfold prt, r'. replace (34%N :: s_true_in ++ pt ++ s_false_attr ++ pf ++ s_iif_close ++ post)
            with (s_true_attr ++ pt ++ s_false_attr ++ pf ++ s_iif_close ++ post) by reflexivity.
          rewrite (tok_text s_true_attr) by reflexivity. repeat rewrite <- app_assoc. reflexivity. }
      assert (Hct : content = prt ++ pt ++ (s_false_attr ++ pf ++ s_iif_close ++ post)) by (rewrite Hc; unfold prt; repeat rewrite <- app_assoc; reflexivity).
      pose proof (leaf_list_par numf w content Hnum t (S depth) env stk' [] prt _ (steps_list fl + S fuel) Hit Hwt Hct Henv) as Hlp. fold pt in Hlp. rewrite Hlp. clear Hlp.
      cbn [app]. rewrite Hlt. fold A.
      (* the false value *)
      set (prf := (prt ++ pt) ++ s_false_attr).
      assert (Hlf : length prf = fs) by (unfold prf, fs; repeat rewrite app_length; rewrite Hlt; cbn [length s_false_attr]; lia).
      rewrite (tok_text s_false_attr) by reflexivity. fold prf.
      assert (Hcf : content = prf ++ pf ++ (s_iif_close ++ post)) by (rewrite Hc; unfold prf, prt; repeat rewrite <- app_assoc; reflexivity).
      pose proof (leaf_list_par numf w content Hnum fl (S depth) env stk' A prf _ (S fuel) Hifl Hwfl Hcf Henv) as Hlp. fold pf in Hlp. rewrite Hlp. clear Hlp.
      rewrite Hlf. fold B.
      (* the closing brace *)
      replace (s_iif_close ++ post) with ([34%N] ++ s_close ++ post) by reflexivity.
      rewrite (tok_text [34%N]) by reflexivity.
      assert (Hl3 : length ((prf ++ pf) ++ [34%N]) = off + tot - 1)
        by (repeat rewrite app_length; rewrite Hlf, Htot; unfold fs, ts; cbn [length]; lia).
      assert (Ht3 : tok ((prf ++ pf) ++ [34%N]) (s_close ++ post) = (1%N, off + tot))
        by (unfold tok; rewrite spec_close, Hl3; f_equal; rewrite Htot; lia).
      rewrite Ht3. rewrite main_loop_step by (cbn; discriminate). unfold step.
      change (sttc true (1%N, off + tot) stk' (A ++ B) (map snd env)) with (mkS (off + tot) 1 stk' (A ++ B) true (map snd env)). cbn [ps_fm].
      change (N.eqb 1 tpp_LineEndID) with true. cbv iota.
      unfold stk'. rewrite do_line_end_iif. unfold i0.
      assert (HlA : length A = ntags t) by (apply ntags_build; exact Hit).
      pose proof (finalize_iif_some content off (length pe) pt pf A B stk cur ex (map snd env)) as Hfin. cbv zeta in Hfin.
      replace (10 + length pe + 8 + length pt + 9 + length pf + 2) with tot in Hfin by lia.
      fold ts in Hfin. fold fs in Hfin.
      unfold then_next. rewrite Hfin; clear Hfin.
      + cbn [bind ps_fo].
        assert (Hc4 : content = (pre ++ s_iif_open ++ pe ++ s_true_attr ++ pt ++ (s_false_attr ++ pf) ++ s_iif_close) ++ post)
          by (rewrite Hc; repeat rewrite <- app_assoc; reflexivity).
        assert (Hl4 : length (pre ++ s_iif_open ++ pe ++ s_true_attr ++ pt ++ (s_false_attr ++ pf) ++ s_iif_close) = off + tot)
          by (rewrite Htot; unfold off; repeat rewrite app_length; cbn [length s_iif_open s_true_attr s_false_attr s_iif_close]; lia).
        rewrite <- Hl4. rewrite (fnext_tok w content _ _ Hc4). cbn [bind]. rewrite Hl4.
        unfold with_finder, stt. cbn [ps_stack ps_cur ps_child ps_chain]. rewrite HlA. reflexivity.
      + replace (off + 10 + length pe + 1) with (length (pre ++ s_iif_open ++ pe ++ [34%N])) by (repeat rewrite app_length; cbn [length s_iif_open]; unfold off; lia).
        apply (at_split content _ _ post). rewrite Hc. unfold s_true_attr, s_true_in, s_false_attr, s_false_in, s_iif_close. repeat rewrite <- app_assoc. reflexivity.
      + apply (inl_no34 t _ _ Hit Hwt).
      + apply (inl_no34 fl _ _ Hifl Hwfl).
      + exact H16.
      + rewrite HlA. lia.
      + pose proof (build_list_span t env (S depth) ts Hit) as Hs. fold pt in Hs. exact Hs.
      + pose proof (build_list_span fl env (S depth) fs Hifl) as Hs. fold pf in Hs. exact Hs.
    - (* inline if without a false value *)
      intros c t _ depth env stk cur pre post fuel Hwf Hc Henv Hstk.
      rewrite wf_TIIf in Hwf. apply andb_prop in Hwf. destruct Hwf as [Hwf Hnt]. apply andb_prop in Hwf. destruct Hwf as [Hwf H16].
      apply andb_prop in Hwf. destruct Hwf as [Hwf _].
      apply andb_prop in Hwf. destruct Hwf as [Hwf Hwt]. apply andb_prop in Hwf. destruct Hwf as [Hwc Hit].
      apply N.leb_le in H16.
      pose proof (wf_expr_pok _ _ Hwc) as Hok.
      rewrite steps_iif. rewrite build_TIIf_none. cbv zeta.
      set (off := length pre). set (pe := print_expr c) in *. set (pt := print_nodes t) in *.
      set (tot := length (print_node (TIIf c t None))) in *.
      assert (Htot : tot = 10 + length pe + 8 + length pt + 2)
        by (unfold tot; rewrite print_node_TIIf; repeat rewrite app_length; cbn [length s_iif_open s_true_attr s_iif_close]; fold pe pt; lia).
      rewrite print_node_TIIf in Hc |- *. fold pe pt in Hc |- *. cbn [app] in Hc |- *.
      set (ts := off + 10 + length pe + 8).
      set (A := build_list env (S depth) ts t).
      set (ex := qexpr_of env (off + 10) c).
      set (r' := s_true_in ++ pt ++ s_iif_close ++ post).
      assert (Hc1 : content = pre ++ s_iif_open ++ pe ++ 34%N :: r')
        by (rewrite Hc; unfold r', s_true_attr, s_true_in; repeat rewrite <- app_assoc; reflexivity).
      assert (H125 : In 125%N r').
      { unfold r'. apply in_or_app. right. apply in_or_app. right. apply in_or_app. left. right. left. reflexivity. }
      assert (Ht : tok pre ((s_iif_open ++ pe ++ s_true_attr ++ pt ++ s_iif_close) ++ post) = (6%N, off + 3))
        by (unfold tok; repeat rewrite <- app_assoc; apply spec_iif).
      rewrite Ht. replace (S (S (steps_list t + 0)) + fuel) with (S (steps_list t + S fuel)) by lia.
      rewrite main_loop_step by (cbn; discriminate). unfold step.
      change (stt (6%N, off + 3) stk cur (map snd env)) with (mkS (off + 3) 6 stk cur false (map snd env)). cbn [ps_fm].
      change (N.eqb 6 tpp_LineEndID) with false. change (N.eqb 6 tpp_VariableID) with false. change (N.eqb 6 tpp_RawVariableID) with false.
      change (N.eqb 6 tpp_MathID) with false. change (N.eqb 6 tpp_SuperVariableID) with false. change (N.eqb 6 tpp_InLineIfID) with true. cbv iota.
      unfold off at 1. rewrite (do_iif_sim numf w content Hnum env stk cur pre c r' 6 Hc1 H125 Hok Henv). cbn [bind]. fold pe off ex.
      set (i0 := mkI off 0 (t16 (10 + length pe + 1)) 0 0 0 0 0).
      set (stk' := (cur ++ [PIIf i0 ex []]) :: stk).
      set (prt := pre ++ s_iif_open ++ pe ++ s_true_attr).
      assert (Hlt : length prt = ts) by (unfold prt, ts, off; repeat rewrite app_length; cbn [length s_iif_open s_true_attr]; lia).
      replace (tok (pre ++ s_iif_open ++ pe) (34%N :: r')) with (tok prt (pt ++ (s_iif_close ++ post))).
      2:{ unfold prt, r'. replace (34%N :: s_true_in ++ pt ++ s_iif_close ++ post)
            with (s_true_attr ++ pt ++ s_iif_close ++ post) by reflexivity.
          rewrite (tok_text s_true_attr) by reflexivity. repeat rewrite <- app_assoc. reflexivity. }
      assert (Hct : content = prt ++ pt ++ (s_iif_close ++ post)) by (rewrite Hc; unfold prt; repeat rewrite <- app_assoc; reflexivity).
      pose proof (leaf_list_par numf w content Hnum t (S depth) env stk' [] prt _ (S fuel) Hit Hwt Hct Henv) as Hlp. fold pt in Hlp. rewrite Hlp. clear Hlp.
      cbn [app]. rewrite Hlt. fold A.
      replace (s_iif_close ++ post) with ([34%N] ++ s_close ++ post) by reflexivity.
      rewrite (tok_text [34%N]) by reflexivity.
      assert (Hl3 : length ((prt ++ pt) ++ [34%N]) = off + tot - 1)
        by (repeat rewrite app_length; rewrite Hlt, Htot; unfold ts; cbn [length]; lia).
      assert (Ht3 : tok ((prt ++ pt) ++ [34%N]) (s_close ++ post) = (1%N, off + tot))
        by (unfold tok; rewrite spec_close, Hl3; f_equal; rewrite Htot; lia).
      rewrite Ht3. rewrite main_loop_step by (cbn; discriminate). unfold step.
      change (sttc true (1%N, off + tot) stk' A (map snd env)) with (mkS (off + tot) 1 stk' A true (map snd env)). cbn [ps_fm].
      change (N.eqb 1 tpp_LineEndID) with true. cbv iota.
      unfold stk'. rewrite do_line_end_iif. unfold i0.
      pose proof (finalize_iif_none content off (length pe) pt A stk cur ex (map snd env)) as Hfin. cbv zeta in Hfin.
      replace (10 + length pe + 8 + length pt + 2) with tot in Hfin by lia.
      fold ts in Hfin.
      unfold then_next. rewrite Hfin; clear Hfin.
      + cbn [bind ps_fo].
        assert (Hc4 : content = (pre ++ s_iif_open ++ pe ++ s_true_attr ++ pt ++ s_iif_close) ++ post)
          by (rewrite Hc; repeat rewrite <- app_assoc; reflexivity).
        assert (Hl4 : length (pre ++ s_iif_open ++ pe ++ s_true_attr ++ pt ++ s_iif_close) = off + tot)
          by (rewrite Htot; unfold off; repeat rewrite app_length; cbn [length s_iif_open s_true_attr s_iif_close]; lia).
        rewrite <- Hl4. rewrite (fnext_tok w content _ _ Hc4). cbn [bind]. rewrite Hl4.
        unfold with_finder, stt. cbn [ps_stack ps_cur ps_child ps_chain]. reflexivity.
      + replace (off + 10 + length pe + 1) with (length (pre ++ s_iif_open ++ pe ++ [34%N])) by (repeat rewrite app_length; cbn [length s_iif_open]; unfold off; lia).
        apply (at_split content _ _ post). rewrite Hc. unfold s_true_attr, s_true_in, s_iif_close. repeat rewrite <- app_assoc. reflexivity.
      + apply (inl_no34 t _ _ Hit Hwt).
      + exact H16.
      + pose proof (build_list_span t env (S depth) ts Hit) as Hs. fold pt in Hs. exact Hs.
    - (* if *)
      intros c body more Hb Hm depth env stk cur pre post fuel Hwf Hc Henv Hstk.
      rewrite wf_TIf in Hwf. apply andb_prop in Hwf. destruct Hwf as [Hwf Hwm]. apply andb_prop in Hwf. destruct Hwf as [Hwc Hwb].
      pose proof (wf_expr_pok _ _ Hwc) as Hok.
      rewrite print_node_TIf in *. rewrite steps_if. set (pe := print_expr c) in *. set (pb := print_nodes body) in *.
      set (rest := pb ++ print_more more ++ s_if_end ++ post).
      assert (Hc1 : content = pre ++ s_if_open ++ pe ++ s_tag_close ++ rest) by (rewrite Hc; unfold rest; repeat rewrite <- app_assoc; reflexivity).
      assert (Hrest : rest <> []) by (unfold rest; apply app_ne; apply app_ne; discriminate).
      assert (Ht : tok pre ((s_if_open ++ pe ++ s_tag_close ++ pb ++ print_more more ++ s_if_end) ++ post) = (9%N, length pre + 3))
        by (unfold tok; repeat rewrite <- app_assoc; apply spec_if).
      rewrite Ht. replace (S (steps_list body + steps_more more) + fuel) with (S (steps_list body + (steps_more more + fuel))) by lia.
      rewrite main_loop_step by (cbn; discriminate). unfold step.
      change (stt (9%N, length pre + 3) stk cur (map snd env)) with (mkS (length pre + 3) 9 stk cur false (map snd env)). cbn [ps_fm].
      change (N.eqb 9 tpp_LineEndID) with false. change (N.eqb 9 tpp_VariableID) with false. change (N.eqb 9 tpp_RawVariableID) with false.
      change (N.eqb 9 tpp_MathID) with false. change (N.eqb 9 tpp_SuperVariableID) with false. change (N.eqb 9 tpp_InLineIfID) with false.
      change (N.eqb 9 tpp_LoopID) with false. change (N.eqb 9 tpp_LoopEndID) with false. change (N.eqb 9 tpp_IfID) with true. cbv iota.
      rewrite (do_if_sim env stk cur pre c rest 9 Hc1 Hrest Hok Henv). cbn [bind]. fold pe.
      set (prc := pre ++ s_if_open ++ pe ++ s_tag_close).
      assert (Hl : length prc = length pre + 10 + length pe + 2)
        by (unfold prc; repeat rewrite app_length; cbn [length s_if_open s_tag_close]; lia).
      assert (Hc2 : content = prc ++ pb ++ (print_more more ++ s_if_end ++ post))
        by (rewrite Hc; unfold prc; repeat rewrite <- app_assoc; reflexivity).
      pose proof (fun stk' Hs => list_par body Hb (S depth) env stk' [] prc (print_more more ++ s_if_end ++ post) (steps_more more + fuel) Hwb Hc2 Henv Hs) as Hbd.
      fold pb in Hbd. unfold rest. rewrite Hbd by (cbn [length]; lia). clear Hbd. cbn [app].
      assert (Hc3 : content = (prc ++ pb) ++ print_more more ++ s_if_end ++ post) by (rewrite Hc2; repeat rewrite <- app_assoc; reflexivity).
      pose proof (if_tail more Hm depth env stk cur (length pre) [] (length pre + 10 + length pe + 2) (qexpr_of env (length pre + 10) c)
                    (build_list env (S depth) (length prc) body) (prc ++ pb) post fuel Hwm Hc3 Henv Hstk) as Htl.
      cbn [app] in Htl. rewrite Htl. clear Htl.
      rewrite build_TIf. cbv zeta. fold pe pb. rewrite print_node_TIf. fold pe pb.
      unfold prc. repeat rewrite <- app_assoc. repeat rewrite app_length. cbn [length s_if_open s_tag_close app].
      repeat (f_equal; try lia).
    - (* loop *)
      intros set val group sort body Hb depth env stk cur pre post fuel Hwf Hc Henv Hstk.
      cbn [wf_node1] in Hwf.
      apply andb_prop in Hwf. destruct Hwf as [Hwf Hbody]. apply andb_prop in Hwf. destruct Hwf as [Hwf Hhl].
      apply andb_prop in Hwf. destruct Hwf as [Hwf Hsort]. apply andb_prop in Hwf. destruct Hwf as [Hwf Hgrp].
      apply andb_prop in Hwf. destruct Hwf as [Hwf Hval]. apply andb_prop in Hwf. destruct Hwf as [Hd Hset].
      apply Nat.leb_le in Hd. apply Nat.leb_le in Hhl.
      assert (Hset' : match set with Some p => TfullModel.wf_path p = true | None => True end)
        by (destruct set as [p|]; [apply andb_prop in Hset; exact (proj1 Hset)|exact I]).
      rewrite print_node_TLoop in *. rewrite steps_loop.
      set (head := loop_head set val group sort) in *. set (pbody := print_nodes body) in *.
      set (lr := loop_rec env depth (length pre) set val group sort (length pbody)).
      pose proof (loop_rec_fields env depth (length pre) set val group sort (length pbody)) as F.
      cbv zeta in F. fold lr head in F. destruct F as (F1 & F2 & F3 & F4 & F5 & F6 & F7 & F8).
      assert (Hc1 : content = pre ++ head ++ (pbody ++ s_loop_end ++ post)) by (rewrite Hc; repeat rewrite <- app_assoc; reflexivity).
      (* <loop *)
      assert (Ht : tok pre ((head ++ pbody ++ s_loop_end) ++ post) = (7%N, length pre + 5)).
      { unfold tok, head. rewrite loop_head_attrs. repeat rewrite <- app_assoc. apply spec_loop. }
      rewrite Ht. replace (S (S (steps_list body)) + fuel) with (S (steps_list body + S fuel)) by lia.
      rewrite main_loop_step by (cbn; discriminate). unfold step.
      change (stt (7%N, length pre + 5) stk cur (map snd env)) with (mkS (length pre + 5) 7 stk cur false (map snd env)). cbn [ps_fm].
      change (N.eqb 7 tpp_LineEndID) with false. change (N.eqb 7 tpp_VariableID) with false. change (N.eqb 7 tpp_RawVariableID) with false.
      change (N.eqb 7 tpp_MathID) with false. change (N.eqb 7 tpp_SuperVariableID) with false. change (N.eqb 7 tpp_InLineIfID) with false.
      change (N.eqb 7 tpp_LoopID) with true. cbv iota.
      rewrite (do_loop_sim numf w content env depth stk cur pre set val group sort (pbody ++ s_loop_end ++ post) (length pbody) 7
                 Hc1 Hset' Hval Hgrp Hhl Hd Hstk Henv).
      cbv zeta. cbn [bind]. fold head. fold lr.
      set (l2 := up_end lr 0).
      set (env' := (val, info_of lr) :: env).
      assert (Hinfo : info_of l2 = info_of lr) by reflexivity.
      rewrite Hinfo.
      change (info_of lr :: map snd env) with (map snd env').
      (* the body *)
      assert (Henv' : env_in content env').
      { constructor; [|exact Henv]. cbn [fst snd]. split; [reflexivity|]. split; [|exact Hval].
        unfold info_of. cbn [li_off li_voff]. apply (val_at content env depth pre set val group sort _ (length pbody) Hc1). }
      assert (Hc2 : content = (pre ++ head) ++ pbody ++ (s_loop_end ++ post)) by (rewrite Hc; repeat rewrite <- app_assoc; reflexivity).
      pose proof (list_par body Hb (S depth) env' ((cur ++ [PLoop l2 []]) :: stk) [] (pre ++ head) (s_loop_end ++ post) (S fuel)
                    Hbody Hc2 Henv' ltac:(cbn [length]; lia)) as Hbd.
      unfold tok at 1 in Hbd. rewrite app_length in Hbd. unfold stt at 1 in Hbd.
      fold pbody in Hbd. rewrite Hbd. clear Hbd. cbn [app].
      (* </loop> *)
      assert (Ht2 : tok ((pre ++ head) ++ pbody) (s_loop_end ++ post) = (8%N, length pre + length head + length pbody + 7)).
      { unfold tok. rewrite spec_loop_end. repeat rewrite app_length. reflexivity. }
      rewrite Ht2. rewrite main_loop_step by (cbn; discriminate). unfold step.
      match goal with |- context [stt (8%N, ?o) ?a ?b ?c] => change (stt (8%N, o) a b c) with (mkS o 8 a b false c) end. cbn [ps_fm].
      change (N.eqb 8 tpp_LineEndID) with false. change (N.eqb 8 tpp_VariableID) with false. change (N.eqb 8 tpp_RawVariableID) with false.
      change (N.eqb 8 tpp_MathID) with false. change (N.eqb 8 tpp_SuperVariableID) with false. change (N.eqb 8 tpp_InLineIfID) with false.
      change (N.eqb 8 tpp_LoopID) with false. change (N.eqb 8 tpp_LoopEndID) with true. cbv iota.
      change (map snd env') with (info_of l2 :: map snd env).
      pose proof (do_loop_end_sim numf w content env depth stk cur pre set val group sort body post
                    (build_list env' (S depth) (length pre + length head) body) Hc) as Hend.
      cbv zeta in Hend. fold head pbody lr l2 in Hend. rewrite Hend. cbn [bind].
      rewrite <- F3. reflexivity.
  Qed.
End Sim2.

Lemma steps_le : forall x, steps x <= length (print_node x).
Proof.
  assert (HL : forall l, Forall (fun x => steps x <= length (print_node x)) l -> steps_list l <= length (print_nodes l)).
  { intros l H. induction H as [|x r Hx Hr IH]; [cbn; lia|]. cbn [steps_list print_nodes]. rewrite app_length. lia. }
  apply tnode_ind2.
  - intros s. cbn [steps]. lia.
  - intros p. rewrite print_node_TVar. cbn [steps]. rewrite app_length. cbn [length s_var_open]. lia.
  - intros p. rewrite print_node_TRaw. cbn [steps]. rewrite app_length. cbn [length s_raw_open]. lia.
  - intros e. rewrite print_node_TMath. cbn [steps]. rewrite app_length. cbn [length s_math_open]. lia.
  - intros p subs. rewrite steps_svar, print_node_TSVar. repeat rewrite app_length. cbn [length s_svar_open s_close].
    assert (H2 : 2 * length subs <= length (print_subs subs)).
    { induction subs as [|x r IH]; [cbn; lia|]. cbn [print_subs length]. repeat rewrite app_length. cbn [length s_comma_sp]. lia. }
    lia.
  - intros c t fl Ht Hf. rewrite steps_iif, print_node_TIIf. repeat rewrite app_length. cbn [length s_iif_open s_iif_close].
    pose proof (HL t Ht). pose proof (HL fl Hf). lia.
  - intros c t Ht. rewrite steps_iif, print_node_TIIf. repeat rewrite app_length. cbn [length s_iif_open s_iif_close].
    pose proof (HL t Ht). lia.
  - intros c body more Hb Hm. rewrite steps_if, print_node_TIf. repeat rewrite app_length. cbn [length s_if_open s_if_end].
    pose proof (HL body Hb) as H1.
    assert (H2 : steps_more more <= length (print_more more) + 1).
    { induction Hm as [|[oe b] r Hx Hr IH]; [cbn; lia|]. cbn [snd] in Hx. pose proof (HL b Hx) as H3.
      destruct oe as [e|]; cbn [steps_more print_more]; repeat rewrite app_length; cbn [length s_elseif_open s_else]; lia. }
    lia.
  - intros set val group sort body Hb. rewrite steps_loop, print_node_TLoop. repeat rewrite app_length. cbn [length s_loop_end].
    pose proof (HL body Hb). lia.
Qed.
Lemma steps_list_le : forall l, steps_list l <= length (print_nodes l).
Proof.
  intros l; induction l as [|x r IH]; [cbn; lia|]. cbn [steps_list print_nodes]. rewrite app_length. pose proof (steps_le x). lia.
Qed.

Theorem parse_print_full_gen : forall numf w ast,
  (forall n, (n < 10000000000000000000)%N -> numf (dec n) = (qn_natural, n, length (dec n))) -> wf_template ast = true ->
  parse_gen numf w (print_nodes ast) = Ok (tree_of_full ast).
Proof.
  intros numf w ast Hnum Hwf. set (content := print_nodes ast).
  unfold parse_gen, parse_state.
  assert (Hc0 : content = [] ++ content) by reflexivity.
  pose proof (fnext_tok w content [] content Hc0) as Hf. cbn [length] in Hf. rewrite Hf. cbn [bind].
  pose proof (steps_list_le ast) as Hle. fold content in Hle.
  replace (S (S (length content))) with (steps_list ast + (S (S (length content)) - steps_list ast)) by lia.
  assert (Hall : Forall (node_par numf w content) ast) by (apply Forall_forall; intros x _; apply node_par_all; exact Hnum).
  pose proof (list_par numf w content Hnum ast Hall 0 [] [] [] [] [] (S (S (length content)) - steps_list ast) Hwf) as Hp.
  cbn [map app length] in Hp. rewrite app_nil_r in Hp. fold content in Hp. unfold stt at 1 in Hp.
  rewrite Hp; [|reflexivity|constructor|reflexivity].
  unfold tok, stt. cbn [next_spec_c8 next_spec fst snd].
  rewrite main_loop_done by reflexivity. cbn [bind]. unfold unwind. cbn [ps_stack ps_cur]. reflexivity.
Qed.

(* C02, parser side: parsing the printed text of a well-formed AST yields exactly [tree_of_full ast] *)
Theorem parse_print_full : forall w ast, wf_template ast = true ->
  parse_model w (print_nodes ast) = Ok (tree_of_full ast).
Proof. intros w ast H. apply parse_print_full_gen; [exact numf_digit_dec|exact H]. Qed.
