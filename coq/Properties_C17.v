(* Properties_C17.v -- the C17 theorems and nothing else (model-level purity;
   thread interleavings are a runtime matter, see DESIGN.md C17). *)
From Coq Require Import NArith ZArith List.
From Qv Require Import gen.Tables EscapeModel TmplModel TmplRender TmplProofs TmplPurity.
Import ListNotations.

(* a render only appends, and what it appends does not depend on what the stream held *)
Theorem c17_append_only : forall pre auto w root content tags,
  exists out, render_to pre auto w root content tags = pre ++ out /\
              out = render_to [] auto w root content tags.
Proof. exact render_to_appends. Qed.
Print Assumptions c17_append_only.

(* any sequence of renders reusing one parsed tag tree, with different values,
   into one stream, equals the concatenation of fresh single renders *)
Theorem c17_cache_reuse : forall auto w content tags roots pre,
  fold_left (fun s r => render_to s auto w r content tags) roots pre =
  pre ++ concat (map (fun r => render auto w r content tags) roots).
Proof. exact render_sequence. Qed.
Print Assumptions c17_cache_reuse.

(* ... and each of them is the documented expansion for the value presented *)
Theorem c17_cached_is_expansion : forall auto w ast, wf_ast ast = true ->
  forall roots pre,
  fold_left (fun s r => render_to s auto w r (print_nodes ast) (lay_nodes 0 ast)) roots pre =
  pre ++ concat (map (fun r => expand auto w r ast) roots).
Proof. exact cached_render_is_expansion. Qed.
Print Assumptions c17_cached_is_expansion.
