(* Properties_C17.v -- the C17 theorems and nothing else (model-level purity; interleavings of N threads at the
   granularity of one top-level tag per step under an arbitrary schedule.  That the C++ performs no write to the
   shared tag array / value / text, and its finer interleavings, are runtime matters: ThreadSanitizer run, DESIGN.md C17). *)
From Coq Require Import NArith ZArith List.
From Qv Require Import gen.Tables EscapeModel TmplModel TmplRender TmplProofs TmplPurity TmplThreads.
Import ListNotations.

(* a render only appends, and what it appends does not depend on what the stream held *)
Theorem c17_append_only : forall pre auto w root content tags,
  exists out, render_to pre auto w root content tags = pre ++ out /\
              out = render_to [] auto w root content tags.
Proof. exact render_to_appends. Qed.
Print Assumptions c17_append_only.

(* any sequence of renders reusing one parsed tag tree, with different values,
   into one stream, equals the concatenation of fresh single renders *)
Theorem c17_cache_reuse : forall auto w content tags roots pre,
  fold_left (fun s r => render_to s auto w r content tags) roots pre =
  pre ++ concat (map (fun r => render auto w r content tags) roots).
Proof. exact render_sequence. Qed.
Print Assumptions c17_cache_reuse.

(* ... and each of them is the documented expansion for the value presented *)
Theorem c17_cached_is_expansion : forall auto w ast, wf_ast ast = true ->
  forall roots pre,
  fold_left (fun s r => render_to s auto w r (print_nodes ast) (lay_nodes 0 ast)) roots pre =
  pre ++ concat (map (fun r => expand auto w r ast) roots).
Proof. exact cached_render_is_expansion. Qed.
Print Assumptions c17_cached_is_expansion.

(* ---- N threads share the text and the parsed tag list; each has its own value and its own (pre-filled) stream; a
        schedule is ANY list of thread numbers (any order, any repetitions, unfair, numbers out of range idle); one step
        renders the next top-level tag of that thread.  Whatever the schedule: a thread only ever extends its own
        stream by a prefix of its fresh render, and once finished holds exactly pre ++ fresh render ---- *)
Theorem c17_any_interleaving : forall auto w content tags (jobs : list (jv * list N)) (sched : list nat) k root pre t,
  nth_error jobs k = Some (root, pre) ->
  nth_error (run_sched auto w content sched (pool0 tags jobs)) k = Some t ->
  exists o rest, t_out t = pre ++ o /\ o ++ rest = render auto w root content tags /\ (t_done t = true -> rest = []).
Proof. exact any_interleaving. Qed.
Print Assumptions c17_any_interleaving.

(* ---- two schedules that let every thread finish end with the same streams: the fresh renders ---- *)
Theorem c17_schedules_agree : forall auto w content tags jobs s1 s2,
  Forall (fun t => t_done t = true) (run_sched auto w content s1 (pool0 tags jobs)) ->
  Forall (fun t => t_done t = true) (run_sched auto w content s2 (pool0 tags jobs)) ->
  map t_out (run_sched auto w content s1 (pool0 tags jobs)) = map t_out (run_sched auto w content s2 (pool0 tags jobs)) /\
  map t_out (run_sched auto w content s1 (pool0 tags jobs)) = map (fun j => snd j ++ render auto w (fst j) content tags) jobs.
Proof. exact schedules_agree. Qed.
Print Assumptions c17_schedules_agree.

(* ---- such schedules exist (the hypothesis above is satisfiable for every pool): round robin ---- *)
Theorem c17_round_robin_finishes : forall auto w content tags jobs,
  Forall (fun t => t_done t = true) (run_sched auto w content (round_robin (length jobs) (S (length tags))) (pool0 tags jobs)).
Proof. exact round_robin_finishes. Qed.
Print Assumptions c17_round_robin_finishes.

(* ---- with the tag tree of a printed well-formed template a finished thread holds the documented expansion ---- *)
Theorem c17_concurrent_is_expansion : forall auto w ast, wf_ast ast = true ->
  forall jobs sched k root pre t,
  nth_error jobs k = Some (root, pre) ->
  nth_error (run_sched auto w (print_nodes ast) sched (pool0 (lay_nodes 0 ast) jobs)) k = Some t -> t_done t = true ->
  t_out t = pre ++ expand auto w root ast.
Proof. exact finished_thread_has_expansion. Qed.
Print Assumptions c17_concurrent_is_expansion.
