(* LedgerProofsStream.v -- C16: every StringStream operation keeps the ownership ledger. *)
From Coq Require Import NArith List Arith Bool Lia.
From Qv Require Import SeqModel SeqProofs SeqProofsTop LedgerModel LedgerProofs LedgerProofsTactics LedgerProofsString.
Import ListNotations.

Lemma ledger_blk_ext : forall (w : wN) (h : hN) (ob1 ob2 : nat -> obj), (forall k, blk (ob1 k) = blk (ob2 k)) ->
  ledger_inv (mkW h ob2) -> ledger_inv (mkW h ob1).
Proof. intros w h ob1 ob2 He Hl. apply (ledger_inv_ext (mkW h ob2)); cbn [hp ob]; auto. Qed.

Lemma t_set_size_ledger : forall (w : wN) i n, ledger_inv w -> ledger_inv (t_set_size w i n).
Proof. intros w i n Hl. unfold t_set_size. apply ledger_inplace; auto. Qed.

(* grow + release of the old storage, in either order of the later steps: the final heap h3 is the
   grown heap minus the old block *)
Lemma t_grown_ledger : forall (w : wN) i c (w1 : wN) p (h3 : hN) o', ledger_inv w -> t_grow w i c = Ok (w1, p) ->
  next h3 = next (hp w1) -> (forall x, al h3 x = al (hp w1) x && negb (pis p x)) -> blk o' = blk (ob w1 i) ->
  ledger_inv (mkW h3 (upd (ob w1) i o')) /\ forall k, k <> i -> ob w1 k = ob w k.
Proof.
  intros w i c w1 p h3 o' Hl H Hn3 Ha3 Hb. unfold t_grow in H. rewrite alloc_eq in H. prim_inv.
  cbn [hp ob] in *. rewrite upd_same in Hb. cbn [blk] in Hb. split; [|intros k Hk; now apply upd_other].
  apply (ledger_blk_ext w h3 _ (upd (ob w) i o')).
  { intros k. unfold upd. destruct (k =? i); reflexivity. }
  apply ledger_set; [assumption|next_rw; lia|rewrite Hb; al_solve Hl|]. rewrite Hb. fresh_new Hl.
Qed.

Lemma t_expand_ledger : forall (w w' : wN) i c, ledger_inv w -> t_expand w i c = Ok w' ->
  ledger_inv w' /\ forall k, k <> i -> ob w' k = ob w k.
Proof.
  intros w w' i c Hl H. unfold t_expand in H. apply bind_ok in H as ((w1, p) & E1 & H). cbn [fst snd] in H.
  apply bind_ok in H as (h1 & E2 & H). injection H as <-. apply free_inv in E2 as (Hn & Ha & _).
  destruct (t_grown_ledger w i c w1 p h1 (ob w1 i) Hl E1 Hn Ha eq_refl) as (Hl' & Hf). split; [|exact Hf].
  apply (ledger_blk_ext w h1 _ (upd (ob w1) i (ob w1 i))); [|assumption].
  intros k. unfold upd. destruct (Nat.eqb_spec k i) as [->|]; reflexivity.
Qed.

Lemma t_ensure_ledger : forall (w w' : wN) i need, ledger_inv w -> t_ensure w i need = Ok w' ->
  ledger_inv w' /\ forall k, k <> i -> ob w' k = ob w k.
Proof.
  intros w w' i need Hl H. unfold t_ensure in H. destruct (cap (ob w i) <? need).
  - now apply t_expand_ledger in H.
  - injection H as <-. split; [assumption|reflexivity].
Qed.

Lemma t_write_ledger : forall (w w' : wN) i s len, ledger_inv w -> t_write w i s len = Ok w' ->
  ledger_inv w' /\ forall k, k <> i -> ob w' k = ob w k.
Proof.
  intros w w' i s len Hl H. unfold t_write in H. apply bind_ok in H as ((w1, p) & E1 & H). cbn [fst snd] in H.
  apply bind_ok in H as (h2 & E2 & H). apply bind_ok in H as (h3 & E3 & H). injection H as <-.
  apply copy_in_inv in E2 as (Hn2 & Ha2). apply free_inv in E3 as (Hn3 & Ha3 & _).
  destruct (cap (ob w i) <? size (ob w i) + len).
  - destruct (t_grown_ledger w i _ w1 p h3 (mkObj (blk (ob w1 i)) (size (ob w i) + len) (cap (ob w1 i))) Hl E1) as (Hl' & Hf);
      [next_rw; reflexivity|intros x; al_rw; reflexivity|reflexivity|].
    split; [assumption|]. intros k Hk. cbn [ob]. rewrite upd_other by assumption. now apply Hf.
  - injection E1 as <- <-. split; [|intros k Hk; cbn [ob]; now apply upd_other].
    apply ledger_inplace; [assumption|next_rw; reflexivity| |reflexivity].
    intros x. al_rw. cbn [pis negb]. now rewrite andb_true_r.
Qed.

Lemma t_append_char_ledger : forall (w w' : wN) i c, ledger_inv w -> t_append_char w i c = Ok w' ->
  ledger_inv w' /\ forall k, k <> i -> ob w' k = ob w k.
Proof.
  intros w w' i c Hl H. unfold t_append_char in H. apply bind_ok in H as (w1 & E1 & H).
  assert (H1 : ledger_inv w1 /\ forall k, k <> i -> ob w1 k = ob w k).
  { destruct (cap (ob w i) =? size (ob w i)); [now apply t_expand_ledger in E1|injection E1 as <-; split; [assumption|reflexivity]]. }
  destruct H1 as (Hl1 & Hf1). apply bind_ok in H as (h2 & E2 & H). injection H as <-. apply wr1_inv in E2 as (Hn2 & Ha2).
  split; [apply ledger_inplace; auto|]. intros k Hk. cbn [ob]. rewrite upd_other by assumption. now apply Hf1.
Qed.

Lemma t_insert_null_ledger : forall (w w' : wN) i, ledger_inv w -> t_insert_null w i = Ok w' ->
  ledger_inv w' /\ forall k, k <> i -> ob w' k = ob w k.
Proof.
  intros w w' i Hl H. unfold t_insert_null in H. apply bind_ok in H as (w1 & E1 & H).
  assert (H1 : ledger_inv w1 /\ forall k, k <> i -> ob w1 k = ob w k).
  { destruct (cap (ob w i) =? size (ob w i)); [now apply t_expand_ledger in E1|injection E1 as <-; split; [assumption|reflexivity]]. }
  destruct H1 as (Hl1 & Hf1). apply bind_ok in H as (h2 & E2 & H). injection H as <-. apply wr1_inv in E2 as (Hn2 & Ha2).
  split; [|exact Hf1]. apply (ledger_inv_ext w1); cbn [hp ob]; auto.
Qed.

Lemma t_reset_ledger : forall (w w' : wN) i, ledger_inv w -> t_reset w i = Ok w' ->
  ledger_inv w' /\ (forall k, k <> i -> ob w' k = ob w k) /\ ob w' i = null_obj.
Proof.
  intros w w' i Hl H. unfold t_reset in H. prim_inv. split; [|split; [intros k Hk; cbn [ob]; now apply upd_other|apply upd_same]].
  apply ledger_set; [assumption|next_rw; lia|al_solve Hl|fresh_new Hl].
Qed.

(* the storage of i has just been released (h1); a stream of capacity n is constructed in its place *)
Lemma t_alloc_install : forall (w : wN) i (h1 h2 : hN) n o, ledger_inv w ->
  free (hp w) (blk (ob w i)) = Ok h1 -> t_alloc_obj h1 n = (h2, o) -> ledger_inv (mkW h2 (upd (ob w) i o)).
Proof.
  intros w i h1 h2 n o Hl Hf H. apply free_inv in Hf as (Hn1 & Ha1 & _). unfold t_alloc_obj in H. destruct n as [|n].
  - injection H as <- <-. apply ledger_set; [assumption|next_rw; lia|al_solve Hl|fresh_new Hl].
  - rewrite alloc_eq in H. injection H as <- <-.
    apply ledger_set; [assumption|next_rw; lia|al_solve Hl|fresh_new Hl].
Qed.

Theorem tstep_ledger : forall (w w' : wN) op o, ledger_inv w -> top_ok op -> tstep w op = Ok (w', o) ->
  ledger_inv w' /\ forall k, ~ In k (tidx op) -> ob w' k = ob w k.
Proof.
  intros w w' op o Hl Hok H.
  destruct op as [i n|i j|i j|i j|i j|i l|i l|i c|i j|i l|i l|i j|i l|i l|i|i|i|i n|i idx|i c idx|i n c|i l|i n|i n|i|i|i|i|i];
    cbn [tstep top_ok] in *.
  - (* TNew *)
    apply bind_ok in H as (h1 & E1 & H). destruct (t_alloc_obj h1 n) as (h2, o2) eqn:E2. injection H as <- <-.
    split; [|frame_tac]. exact (t_alloc_install w i h1 h2 n o2 Hl E1 E2).
  - (* TCopyCtor *)
    apply bind_ok in H as (h1 & E1 & H). destruct (size (ob w j)) as [|n] eqn:Es.
    + injection H as <- <-. apply free_inv in E1 as (Hn1 & Ha1 & _). split; [|frame_tac].
      apply ledger_set; [assumption|next_rw; lia|al_solve Hl|fresh_new Hl].
    + destruct (t_alloc_obj h1 (S n)) as (h2, o2) eqn:E2. apply bind_ok in H as (w3 & E3 & H). injection H as <- <-.
      pose proof (t_alloc_install w i h1 h2 (S n) o2 Hl E1 E2) as Hl2.
      destruct (t_write_ledger _ w3 i _ _ Hl2 E3) as (Hl3 & Hf3). split; [assumption|]. cbn [ob] in Hf3.
      intros k Hk. cbn [tidx In] in Hk. rewrite Hf3 by (intros ->; apply Hk; auto). apply upd_other. intros ->. apply Hk; auto.
  - (* TMoveCtor *)
    apply bind_ok in H as (h1 & E1 & H). injection H as <- <-. apply free_inv in E1 as (Hn1 & Ha1 & _). split; [|frame_tac].
    apply ledger_set2; [assumption|assumption|next_rw; lia|al_solve Hl|].
    intros b Hb. split; [|right; right; assumption]. rewrite Hn1. apply (li_lt w b Hl). now apply (li_owned_live w Hl j).
  - (* TMoveAssign *)
    destruct (Nat.eqb_spec i j) as [->|Hij]; [same_world H Hl|].
    apply bind_ok in H as (h1 & E1 & H). injection H as <- <-. apply free_inv in E1 as (Hn1 & Ha1 & _). split; [|frame_tac].
    apply ledger_set2; [assumption|assumption|next_rw; lia|al_solve Hl|].
    intros b Hb. split; [|right; right; assumption]. rewrite Hn1. apply (li_lt w b Hl). now apply (li_owned_live w Hl j).
  - (* TCopyAssign *)
    destruct (Nat.eqb_spec i j) as [->|Hij]; [same_world H Hl|].
    apply bind_ok in H as (w1 & E1 & H). injection H as <- <-.
    destruct (t_write_ledger _ w1 i _ _ (t_set_size_ledger w i 0 Hl) E1) as (Hl1 & Hf1). split; [assumption|].
    unfold t_set_size in Hf1. cbn [ob] in Hf1.
    intros k Hk. cbn [tidx In] in Hk. rewrite Hf1 by (intros ->; apply Hk; auto). apply upd_other. intros ->. apply Hk; auto.
  - (* TAssignExt *)
    apply bind_ok in H as (w1 & E1 & H). injection H as <- <-.
    destruct (t_write_ledger _ w1 i _ _ (t_set_size_ledger w i 0 Hl) E1) as (Hl1 & Hf1). split; [assumption|].
    unfold t_set_size in Hf1. cbn [ob] in Hf1.
    intros k Hk. cbn [tidx In] in Hk. rewrite Hf1 by (intros ->; apply Hk; auto). apply upd_other. intros ->. apply Hk; auto.
  - (* TAssignCstr *)
    apply bind_ok in H as (w1 & E1 & H). injection H as <- <-.
    destruct (t_write_ledger _ w1 i _ _ (t_set_size_ledger w i 0 Hl) E1) as (Hl1 & Hf1). split; [assumption|].
    unfold t_set_size in Hf1. cbn [ob] in Hf1.
    intros k Hk. cbn [tidx In] in Hk. rewrite Hf1 by (intros ->; apply Hk; auto). apply upd_other. intros ->. apply Hk; auto.
  - (* TAppendChar *)
    apply bind_ok in H as (w1 & E1 & H). injection H as <- <-.
    destruct (t_append_char_ledger w w1 i c Hl E1) as (Hl1 & Hf1). split; [assumption|frame_tac].
  - (* TAppendObj *)
    apply bind_ok in H as (w1 & E1 & H). injection H as <- <-.
    destruct (t_write_ledger w w1 i _ _ Hl E1) as (Hl1 & Hf1). split; [assumption|frame_tac].
  - (* TAppendExt *)
    apply bind_ok in H as (w1 & E1 & H). injection H as <- <-.
    destruct (t_write_ledger w w1 i _ _ Hl E1) as (Hl1 & Hf1). split; [assumption|frame_tac].
  - (* TAppendCstr *)
    apply bind_ok in H as (w1 & E1 & H). injection H as <- <-.
    destruct (t_write_ledger w w1 i _ _ Hl E1) as (Hl1 & Hf1). split; [assumption|frame_tac].
  - (* TEqObj *)
    destruct (size (ob w i) =? size (ob w j)); [|same_world H Hl].
    apply bind_ok in H as (a & _ & H). apply bind_ok in H as (b & _ & H). same_world H Hl.
  - (* TEqExt *)
    apply bind_ok in H as (b & _ & H). same_world H Hl.
  - (* TEqCstr *)
    apply bind_ok in H as (b & _ & H). same_world H Hl.
  - (* TClear *)
    injection H as <- <-. split; [now apply t_set_size_ledger|]. unfold t_set_size. frame_tac.
  - (* TReset *)
    apply bind_ok in H as (w1 & E1 & H). injection H as <- <-.
    destruct (t_reset_ledger w w1 i Hl E1) as (Hl1 & Hf1 & _). split; [assumption|frame_tac].
  - (* TDetach *)
    apply bind_ok in H as (w1 & E1 & H). injection H as <- <-.
    destruct (t_reset_ledger w w1 i Hl E1) as (Hl1 & Hf1 & _). split; [assumption|frame_tac].
  - (* TStepBack *)
    destruct (n <=? size (ob w i)); [|same_world H Hl].
    injection H as <- <-. split; [now apply t_set_size_ledger|]. unfold t_set_size. frame_tac.
  - (* TReverse *)
    apply bind_ok in H as (c & _ & H). apply bind_ok in H as (h1 & E1 & H). injection H as <- <-.
    apply wr_range_inv in E1 as (Hn1 & Ha1). split; [|reflexivity].
    apply (ledger_inv_ext w); cbn [hp ob]; auto.
  - (* TInsertAt *)
    destruct (idx <? size (ob w i)); [|same_world H Hl].
    apply bind_ok in H as (c0 & _ & H). destruct (insert_shift c0 c idx) as (c', tmp).
    apply bind_ok in H as (h1 & E1 & H). apply bind_ok in H as (w2 & E2 & H). injection H as <- <-.
    apply wr_range_inv in E1 as (Hn1 & Ha1).
    assert (Hl1 : ledger_inv (mkW h1 (ob w))) by (apply (ledger_inv_ext w); cbn [hp ob]; auto).
    destruct (t_append_char_ledger _ w2 i _ Hl1 E2) as (Hl2 & Hf2). split; [assumption|]. cbn [ob] in Hf2. frame_tac.
  - (* TSetLength *)
    apply bind_ok in H as (w1 & E1 & H). apply bind_ok in H as (h2 & E2 & H). injection H as <- <-.
    destruct (t_ensure_ledger w w1 i n Hl E1) as (Hl1 & Hf1). apply wr_range_inv in E2 as (Hn2 & Ha2).
    assert (Hl2 : ledger_inv (mkW h2 (ob w1))) by (apply (ledger_inv_ext w1); cbn [hp ob]; auto).
    split; [now apply t_set_size_ledger|]. unfold t_set_size. cbn [hp ob]. frame_tac.
  - (* TBuffer *)
    apply bind_ok in H as (w1 & E1 & H). apply bind_ok in H as (h3 & E3 & H). injection H as <- <-.
    destruct (t_ensure_ledger w w1 i _ Hl E1) as (Hl1 & Hf1). apply wr_range_inv in E3 as (Hn3 & Ha3).
    pose proof (t_set_size_ledger w1 i (size (ob w i) + length l) Hl1) as Hl2.
    split; [apply (ledger_inv_ext (t_set_size w1 i (size (ob w i) + length l))); cbn [hp ob]; auto|].
    unfold t_set_size. cbn [hp ob]. frame_tac.
  - (* TExpect *)
    apply bind_ok in H as (w1 & E1 & H). injection H as <- <-.
    destruct (t_ensure_ledger w w1 i _ Hl E1) as (Hl1 & Hf1). split; [assumption|frame_tac].
  - (* TReserve *)
    apply bind_ok in H as (w1 & E1 & H). destruct (t_alloc_obj (hp w1) n) as (h2, o2) eqn:E2. injection H as <- <-.
    destruct (t_reset_ledger w w1 i Hl E1) as (Hl1 & Hf1 & Hnull).
    assert (Ef : free (hp w1) (blk (ob w1 i)) = Ok (hp w1)) by now rewrite Hnull.
    split; [exact (t_alloc_install w1 i (hp w1) h2 n o2 Hl1 Ef E2)|frame_tac].
  - (* TGetString *)
    destruct (size (ob w i) <? cap (ob w i)).
    + apply bind_ok in H as (h1 & E1 & H). apply bind_ok in H as (c & _ & H). apply bind_ok in H as (t & _ & H).
      apply bind_ok in H as (h2 & E2 & H). injection H as <- <-. apply wr1_inv in E1 as (Hn1 & Ha1). apply free_inv in E2 as (Hn2 & Ha2 & _).
      split; [|frame_tac]. apply ledger_set; [assumption|next_rw; lia|al_solve Hl|fresh_new Hl].
    + apply bind_ok in H as (r & E1 & H). apply s_copy_string_shape in E1 as (Hb & Hn1 & Ha1).
      apply bind_ok in H as (w1 & E2 & H). apply bind_ok in H as (c & _ & H). apply bind_ok in H as (t & _ & H).
      apply bind_ok in H as (h2 & E3 & H). injection H as <- <-.
      unfold t_reset in E2. cbn [hp ob] in E2. apply bind_ok in E2 as (h1 & E2 & E4). injection E4 as <-. cbn [hp ob] in *.
      apply free_inv in E2 as (Hn2 & Ha2 & _). apply free_inv in E3 as (Hn3 & Ha3 & _).
      split; [|frame_tac]. apply ledger_set; [assumption|next_rw; lia|rewrite Hb in Ha3; al_solve Hl|fresh_new Hl].
  - (* TGetStringView *)
    apply bind_ok in H as (w1 & E1 & H). apply bind_ok in H as (c & _ & H). apply bind_ok in H as (t & _ & H). injection H as <- <-.
    destruct (t_insert_null_ledger w w1 i Hl E1) as (Hl1 & Hf1). split; [assumption|frame_tac].
  - (* TInsertNull *)
    apply bind_ok in H as (w1 & E1 & H). injection H as <- <-.
    destruct (t_insert_null_ledger w w1 i Hl E1) as (Hl1 & Hf1). split; [assumption|frame_tac].
  - (* TIter: read only *)
    apply bind_ok in H as (c0 & _ & H). same_world H Hl.
  - (* TStreamOut: read only *)
    apply bind_ok in H as (c0 & _ & H). same_world H Hl.
Qed.
