(* JsonProofsWrite.v -- the writer: JSONUtils::Escape against the string grammar (round trip of
   every code unit), RFC 8259 validity of the escaped text. *)
From Coq Require Import NArith ZArith List Bool Lia.
From Qv Require Import gen.Tables_json JsonModel JsonSpec JsonProofsBase JsonProofsStr.
Import ListNotations.
Local Open Scope N_scope.

Lemma lt32_cases : forall c, c < 32 -> In c [0;1;2;3;4;5;6;7;8;9;10;11;12;13;14;15;16;17;18;19;20;21;22;23;24;25;26;27;28;29;30;31].
Proof.
  intros c H. destruct c as [|p]; [cbn; auto|].
  do 5 (try (destruct p as [p|p|]); try lia); cbn; repeat (first [left; reflexivity | right]).
Qed.

Lemma to_utf_small : forall w c, c < 128 -> to_utf w c = [c].
Proof.
  intros w c H. unfold to_utf. apply N.ltb_lt in H.
  assert (H2 : (c <? 65536) = true) by (apply N.ltb_lt; apply N.ltb_lt in H; lia).
  apply N.ltb_lt in H.
  destruct (w =? 0) eqn:E0.
  - apply N.ltb_lt in H. rewrite H. unfold cut, cu_bits. rewrite E0. apply N.ltb_lt in H. f_equal. apply N.mod_small. cbn. lia.
  - destruct (w =? 1) eqn:E1.
    + rewrite H2. unfold cut, cu_bits. rewrite E0, E1. f_equal. apply N.mod_small. cbn. lia.
    + unfold cut, cu_bits. rewrite E0, E1. f_equal. apply N.mod_small. cbn. lia.
Qed.

(* the escape of one unit is a one-unit string body *)
Lemma esc_unit_body : forall w c t d, SBody w t d -> SBody w (esc_unit c ++ t) (c :: d).
Proof.
  intros w c t d Ht. unfold esc_unit.
  destruct ((c =? jc_quote) || (c =? jc_bslash) || (c =? jc_slash)) eqn:E1.
  { cbn [app]. apply SB_esc; [|assumption]. unfold esc_simple. rewrite E1. reflexivity. }
  destruct ((c =? jc_ctl_b) || (c =? jc_ctl_t) || (c =? jc_ctl_n) || (c =? jc_ctl_f) || (c =? jc_ctl_r)) eqn:E2.
  { cbn [app]. apply SB_esc; [|assumption].
    repeat (apply orb_true_iff in E2; destruct E2 as [E2|E2]); apply N.eqb_eq in E2; subst c; reflexivity. }
  destruct (c <? 32) eqn:E3.
  { apply N.ltb_lt in E3. cbn [app].
    assert (Hh : hex4v dc_zero dc_zero (dc_zero + N.shiftr c 4) (hexdig (N.land c 15)) = c)
      by (apply lt32_cases in E3; cbn [In] in E3; repeat (destruct E3 as [E3|E3]; [subst c; reflexivity|]); contradiction).
    replace (c :: d) with (to_utf w (hex4v dc_zero dc_zero (dc_zero + N.shiftr c 4) (hexdig (N.land c 15))) ++ d)
      by (rewrite Hh, to_utf_small by lia; reflexivity).
    apply SB_u; [reflexivity|reflexivity| | |assumption].
    { clear Hh. apply lt32_cases in E3; cbn [In] in E3; repeat (destruct E3 as [E3|E3]; [subst c; reflexivity|]); contradiction. }
    rewrite Hh. unfold is_high. apply N.eqb_neq. intros Hc.
    apply lt32_cases in E3; cbn [In] in E3; repeat (destruct E3 as [E3|E3]; [subst c; discriminate|]); contradiction. }
  cbn [app]. apply SB_raw; [|assumption].
  unfold raw_ok. apply orb_false_iff in E1. destruct E1 as [E1 _]. apply orb_false_iff in E1. destruct E1 as [Eq Eb].
  rewrite Eq, Eb. cbn [negb andb].
  apply orb_false_iff in E2. destruct E2 as [E2 Er]. apply orb_false_iff in E2. destruct E2 as [E2 _].
  apply orb_false_iff in E2. destruct E2 as [E2 En]. apply orb_false_iff in E2. destruct E2 as [_ Et].
  rewrite En, Et, Er. reflexivity.
Qed.

Theorem escape_json_body : forall w s, SBody w (escape_json s) s.
Proof.
  intros w s. induction s as [|c s IH]; cbn [escape_json flat_map]; [constructor|].
  apply esc_unit_body. exact IH.
Qed.

(* the string round trip: what Escape wrote between two quotes is read back unit for unit *)
Theorem escape_roundtrip : forall w s rest,
  pstring w (escape_json s ++ jc_quote :: rest) [] = JOk (Some (s, rest), []).
Proof. intros. apply pstring_complete. apply escape_json_body. Qed.

(* ... and the escaped text is a string of RFC 8259: nothing below 0x20, no bare quote or backslash *)
Lemma rfc_string_esc_unit : forall c t, rfc_string (esc_unit c ++ t) = rfc_string t.
Proof.
  intros c t. unfold esc_unit.
  destruct ((c =? jc_quote) || (c =? jc_bslash) || (c =? jc_slash)) eqn:E1.
  { repeat (apply orb_true_iff in E1; destruct E1 as [E1|E1]); apply N.eqb_eq in E1; subst c; reflexivity. }
  destruct ((c =? jc_ctl_b) || (c =? jc_ctl_t) || (c =? jc_ctl_n) || (c =? jc_ctl_f) || (c =? jc_ctl_r)) eqn:E2.
  { repeat (apply orb_true_iff in E2; destruct E2 as [E2|E2]); apply N.eqb_eq in E2; subst c; reflexivity. }
  destruct (c <? 32) eqn:E3.
  { apply N.ltb_lt in E3. apply lt32_cases in E3; cbn [In] in E3.
    repeat (destruct E3 as [E3|E3]; [subst c; reflexivity|]); contradiction. }
  cbn [app rfc_string].
  apply orb_false_iff in E1. destruct E1 as [E1 _]. apply orb_false_iff in E1. destruct E1 as [Eq Eb].
  change jc_quote with 34 in Eq. change jc_bslash with 92 in Eb. rewrite Eq, Eb, E3. reflexivity.
Qed.

Theorem escape_json_rfc : forall s rest, rfc_string (escape_json s ++ 34 :: rest) = Some rest.
Proof.
  induction s as [|c s IH]; intros rest; cbn [escape_json flat_map app].
  - cbn. reflexivity.
  - rewrite <- app_assoc. rewrite rfc_string_esc_unit. apply IH.
Qed.
