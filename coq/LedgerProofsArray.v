(* LedgerProofsArray.v -- C16: every Array operation keeps the ownership ledger. *)
From Coq Require Import NArith List Arith Bool Lia.
From Qv Require Import SeqModel SeqProofs SeqProofsArray SeqProofsTop LedgerModel LedgerProofs LedgerProofsTactics.
Import ListNotations.

Section ArrayLedger.
Context {A : Type} (junk d : A).
Notation heap := (@heap A).
Notation world := (@world A).

(* Array: an object without capacity has no storage *)
Definition arr_inv (w : world) : Prop := ledger_inv w /\ forall k, cap (ob w k) = 0 -> blk (ob w k) = None.

Lemma arr_resize_ledger : forall (w w' : world) i c, ledger_inv w -> arr_resize junk w i c = Ok w' ->
  ledger_inv w' /\ w' = mkW (hp w') (upd (ob w) i (mkObj (Some (next (hp w))) (size (ob w i)) c)) /\ next (hp w') = S (next (hp w)).
Proof.
  intros w w' i c Hl H. unfold arr_resize in H. rewrite alloc_eq in H. prim_inv.
  split; [|split; [reflexivity|cbn [hp]; rewrite Hn, Hn0; apply halloc_next]].
  apply ledger_set; [assumption|rewrite Hn, Hn0, halloc_next; lia|al_solve Hl|].
  cbn [blk]. intros b [= <-]. split; [rewrite Hn, Hn0, halloc_next; lia|left].
  destruct (al (hp w) (next (hp w))) eqn:E; [|reflexivity]. pose proof (li_lt w _ Hl E). lia.
Qed.

Lemma cap0_upd : forall (ob0 : nat -> @obj) i o', (forall k, cap (ob0 k) = 0 -> blk (ob0 k) = None) ->
  (cap o' = 0 -> blk o' = None) -> forall k, cap (upd ob0 i o' k) = 0 -> blk (upd ob0 i o' k) = None.
Proof. intros ob0 i o' H Ho k. unfold upd. destruct (k =? i); auto. Qed.

Lemma arr_inv_resize : forall (w w' : world) i c, arr_inv w -> 0 < c -> arr_resize junk w i c = Ok w' ->
  arr_inv w' /\ (forall k, k <> i -> ob w' k = ob w k) /\ size (ob w' i) = size (ob w i).
Proof.
  intros w w' i c (Hl & Hc) Hpos H. destruct (arr_resize_ledger w w' i c Hl H) as (Hl' & Hw' & Hn).
  rewrite Hw' in *. cbn [hp ob] in *. split; [split; [assumption|]|split].
  - cbn [ob]. apply cap0_upd; [assumption|]. cbn [cap]. lia.
  - intros k Hk. now apply upd_other.
  - now rewrite upd_same.
Qed.

Lemma arr_reset_ledger : forall (w w' : world) i, arr_inv w -> arr_reset w i = Ok w' ->
  arr_inv w' /\ (forall k, k <> i -> ob w' k = ob w k) /\ ob w' i = null_obj.
Proof.
  intros w w' i (Hl & Hc) H. destruct (destroy_obj_ok w i Hl) as (w1 & E & Hl1 & _).
  unfold destroy_obj in E. unfold arr_reset in H. rewrite E in H. injection H as <-.
  apply bind_ok in E as (h & _ & E). injection E as <-.
  split; [split; [assumption|]|split].
  - cbn [ob]. apply cap0_upd; auto.
  - intros k Hk. now apply upd_other.
  - apply upd_same.
Qed.

(* the storage of i has just been released (h1); Array(n, init) is constructed in its place *)
Lemma arr_construct_ledger : forall (w w' : world) i (h1 : heap) n init, arr_inv w ->
  free (hp w) (blk (ob w i)) = Ok h1 -> arr_construct junk d h1 (ob w) i n init = Ok w' ->
  arr_inv w' /\ forall k, k <> i -> ob w' k = ob w k.
Proof.
  intros w w' i h1 n init (Hl & Hc) Hf H. unfold arr_construct in H. prim_inv.
  destruct n as [|n].
  - prim_inv. split; [split|intros k Hk; now apply upd_other].
    + apply ledger_set; [assumption|lia|al_solve Hl|cbn; discriminate].
    + cbn [ob]. apply cap0_upd; auto.
  - rewrite alloc_eq in H. destruct init; prim_inv.
    + split; [split|intros k Hk; now apply upd_other].
      * apply ledger_set; [assumption|rewrite Hn0, halloc_next; lia|al_solve Hl|].
        cbn [blk]. intros b [= <-]. rewrite Hn0, halloc_next, Hn. split; [lia|left].
        destruct (al (hp w) (next (hp w))) eqn:E; [|reflexivity]. pose proof (li_lt w _ Hl E). lia.
      * cbn [ob]. apply cap0_upd; [assumption|cbn [cap]; lia].
    + split; [split|intros k Hk; now apply upd_other].
      * apply ledger_set; [assumption|rewrite halloc_next; lia|al_solve Hl|].
        cbn [blk]. intros b [= <-]. rewrite halloc_next, Hn. split; [lia|left].
        destruct (al (hp w) (next (hp w))) eqn:E; [|reflexivity]. pose proof (li_lt w _ Hl E). lia.
      * cbn [ob]. apply cap0_upd; [assumption|cbn [cap]; lia].
Qed.

Lemma fresh_not_live : forall (w : world), ledger_inv w -> al (hp w) (next (hp w)) = false.
Proof. intros w Hl. apply (li_fresh w Hl). lia. Qed.

(* copyArray: nothing, or one fresh block *)
Lemma arr_copy_of_shape : forall (h : heap) oj r, arr_copy_of junk h oj = Ok r ->
  (r = (h, null_obj)) \/
  (blk (snd r) = Some (next h) /\ 0 < cap (snd r) /\ next (fst r) = S (next h) /\ forall x, al (fst r) x = (x =? next h) || al h x).
Proof.
  intros h oj r H. unfold arr_copy_of in H. destruct (size oj) as [|n] eqn:Es.
  - injection H as <-. now left.
  - rewrite alloc_eq in H. prim_inv. right. cbn [fst snd blk cap]. split; [reflexivity|]. split; [lia|].
    split; [rewrite Hn; apply halloc_next|]. intros x. now rewrite Ha, al_halloc.
Qed.

Lemma arr_append_item_ledger : forall (w w' : world) i x, arr_inv w -> arr_append_item junk w i x = Ok w' ->
  arr_inv w' /\ forall k, k <> i -> ob w' k = ob w k.
Proof.
  intros w w' i x Hi H. unfold arr_append_item in H. apply bind_ok in H as (w1 & E1 & H).
  assert (H1 : arr_inv w1 /\ forall k, k <> i -> ob w1 k = ob w k).
  { destruct (size (ob w i) =? cap (ob w i)).
    - destruct (arr_inv_resize w w1 i (cap (ob w i) + 1) Hi ltac:(lia) E1) as (Hi1 & Hf1 & _). split; assumption.
    - injection E1 as <-. split; [assumption|reflexivity]. }
  destruct H1 as ((Hl1 & Hc1) & Hf1). prim_inv. split; [split|].
  - apply ledger_inplace; auto.
  - cbn [ob]. apply cap0_upd; [assumption|]. cbn [cap blk]. apply Hc1.
  - intros k Hk. cbn [ob]. rewrite upd_other by assumption. now apply Hf1.
Qed.

Lemma arr_Resize_ledger : forall (w w' : world) i n, arr_inv w -> arr_Resize junk w i n = Ok w' ->
  arr_inv w' /\ forall k, k <> i -> ob w' k = ob w k.
Proof.
  intros w w' i n Hi H. unfold arr_Resize in H. destruct n as [|n].
  - destruct (arr_reset_ledger w w' i Hi H) as (Hi' & Hf & _). split; assumption.
  - set (w1 := if S n <? size (ob w i) then mkW (hp w) (upd (ob w) i (mkObj (blk (ob w i)) (S n) (cap (ob w i)))) else w) in H.
    assert (H1 : arr_inv w1 /\ forall k, k <> i -> ob w1 k = ob w k).
    { subst w1. destruct (S n <? size (ob w i)); [|split; [assumption|reflexivity]].
      destruct Hi as (Hl & Hc). split; [split|].
      - apply ledger_inplace; auto.
      - cbn [ob]. apply cap0_upd; [assumption|]. cbn [cap blk]. apply Hc.
      - intros k Hk. cbn [ob]. now apply upd_other. }
    destruct H1 as (Hi1 & Hf1).
    destruct (arr_inv_resize w1 w' i (S n) Hi1 ltac:(lia) H) as (Hi' & Hf' & _). split; [assumption|].
    intros k Hk. rewrite Hf' by assumption. now apply Hf1.
Qed.


Lemma cap0_upd2 : forall (ob0 : nat -> @obj) i j oi', (forall k, cap (ob0 k) = 0 -> blk (ob0 k) = None) ->
  (cap oi' = 0 -> blk oi' = None) -> forall k, cap (upd (upd ob0 i oi') j null_obj k) = 0 -> blk (upd (upd ob0 i oi') j null_obj k) = None.
Proof. intros ob0 i j oi' H Ho. apply cap0_upd; [now apply cap0_upd|reflexivity]. Qed.

Ltac frame1 := let k := fresh "k" in let Hk := fresh "Hk" in intros k Hk; cbn [aidx In] in Hk; cbn [ob];
  rewrite ?upd_other by (intros ->; apply Hk; auto); try reflexivity.

Theorem astep_ledger : forall (w w' : world) op o, arr_inv w -> aop_ok op -> astep junk d w op = Ok (w', o) ->
  arr_inv w' /\ forall k, ~ In k (aidx op) -> ob w' k = ob w k.
Proof.
  intros w w' op o Hi Hok H. pose proof Hi as (Hl & Hc).
  destruct op as [i n init|i j|i j|i j|i j|i j|i j|i x|i k0|i|i|i|i n init|i n|i n|i n|i|i n|i k1 k2|i]; cbn [astep aop_ok] in *.
  - (* ANewSized *)
    apply bind_ok in H as (h1 & E1 & H). apply bind_ok in H as (w2 & E2 & H). injection H as <- <-.
    destruct (arr_construct_ledger w w2 i h1 n init Hi E1 E2) as (Hi2 & Hf). split; [assumption|].
    intros k Hk. apply Hf. cbn in Hk. intros ->. auto.
  - (* ACopyCtor *)
    apply bind_ok in H as (h1 & E1 & H). apply bind_ok in H as (r & E2 & H). injection H as <- <-.
    apply free_inv in E1 as (Hn1 & Ha1 & _).
    destruct (arr_copy_of_shape h1 (ob w j) r E2) as [->|(Hb & Hcap & Hn2 & Ha2)]; cbn [fst snd].
    + split; [split|frame1].
      * apply ledger_set; [assumption|lia|al_solve Hl|cbn; discriminate].
      * cbn [ob]. apply cap0_upd; auto.
    + split; [split|frame1].
      * apply ledger_set; [assumption|lia|rewrite Hb; al_solve Hl|].
        rewrite Hb. intros b [= <-]. split; [lia|left]. rewrite Hn1. now apply fresh_not_live.
      * cbn [ob]. apply cap0_upd; [assumption|lia].
  - (* AMoveCtor *)
    apply bind_ok in H as (h1 & E1 & H). injection H as <- <-. apply free_inv in E1 as (Hn1 & Ha1 & _).
    split; [split|frame1].
    + apply ledger_set2; [assumption|assumption|lia|al_solve Hl|].
      intros b Hb. split; [|right; right; assumption]. rewrite Hn1. apply (li_lt w b Hl). now apply (li_owned_live w Hl j).
    + cbn [ob]. apply cap0_upd2; auto.
  - (* AMoveAssign *)
    destruct (Nat.eqb_spec i j) as [->|Hij].
    + injection H as <- <-. split; [assumption|reflexivity].
    + apply bind_ok in H as (h1 & E1 & H). injection H as <- <-. apply free_inv in E1 as (Hn1 & Ha1 & _).
      split; [split|frame1].
      * apply ledger_set2; [assumption|assumption|lia|al_solve Hl|].
        intros b Hb. split; [|right; right; assumption]. rewrite Hn1. apply (li_lt w b Hl). now apply (li_owned_live w Hl j).
      * cbn [ob]. apply cap0_upd2; auto.
  - (* ACopyAssign *)
    destruct (Nat.eqb_spec i j) as [->|Hij].
    + injection H as <- <-. split; [assumption|reflexivity].
    + apply bind_ok in H as (r & E2 & H). apply bind_ok in H as (h2 & E1 & H). injection H as <- <-.
      apply free_inv in E1 as (Hn1 & Ha1 & _).
      destruct (arr_copy_of_shape (hp w) (ob w j) r E2) as [->|(Hb & Hcap & Hn2 & Ha2)]; cbn [fst snd] in *.
      * split; [split|frame1].
        -- apply ledger_set; [assumption|lia|al_solve Hl|cbn; discriminate].
        -- cbn [ob]. apply cap0_upd; auto.
      * split; [split|frame1].
        -- apply ledger_set; [assumption|lia|rewrite Hb; al_solve Hl|].
           rewrite Hb. intros b [= <-]. split; [lia|left]. now apply fresh_not_live.
        -- cbn [ob]. apply cap0_upd; [assumption|lia].
  - (* AAppendMove *)
    destruct (cap (ob w i)) as [|c] eqn:Ecap.
    + injection H as <- <-. pose proof (Hc i Ecap) as Hnull. split; [split|frame1].
      * apply ledger_set2; [assumption|assumption|lia|rewrite Hnull; al_solve Hl|].
        intros b Hb. split; [|right; right; assumption]. apply (li_lt w b Hl). now apply (li_owned_live w Hl j).
      * cbn [ob]. apply cap0_upd2; auto.
    + apply bind_ok in H as (w1 & E1 & H).
      assert (H1 : arr_inv w1 /\ forall k, k <> i -> ob w1 k = ob w k).
      { destruct (S c <? size (ob w i) + size (ob w j)) eqn:Elt.
        - apply Nat.ltb_lt in Elt.
          destruct (arr_inv_resize w w1 i (size (ob w i) + size (ob w j)) Hi ltac:(lia) E1) as (Hi1 & Hf1 & _). split; assumption.
        - injection E1 as <-. split; [assumption|reflexivity]. }
      destruct H1 as ((Hl1 & Hc1) & Hf1).
      apply bind_ok in H as (h2 & E2 & H). apply bind_ok in H as (h3 & E3 & H). injection H as <- <-.
      apply mcopy_inv in E2 as (Hn2 & Ha2). apply free_inv in E3 as (Hn3 & Ha3 & _).
      split; [split|].
      * apply ledger_set2; [assumption|assumption|lia|cbn [blk]; al_solve Hl1|].
        cbn [blk]. intros b Hb. split; [|right; left; assumption]. rewrite Hn3, Hn2. apply (li_lt w1 b Hl1). now apply (li_owned_live w1 Hl1 i).
      * cbn [ob]. apply cap0_upd2; [assumption|]. cbn [cap blk]. apply Hc1.
      * intros k Hk. cbn [aidx In] in Hk. cbn [ob]. rewrite !upd_other by (intros ->; apply Hk; auto). apply Hf1. intros ->. apply Hk; auto.
  - (* AAppendCopy *)
    apply bind_ok in H as (w1 & E1 & H).
    assert (H1 : arr_inv w1 /\ forall k, k <> i -> ob w1 k = ob w k).
    { destruct (cap (ob w i) <? size (ob w i) + size (ob w j)) eqn:Elt.
      - apply Nat.ltb_lt in Elt.
        destruct (arr_inv_resize w w1 i (size (ob w i) + size (ob w j)) Hi ltac:(lia) E1) as (Hi1 & Hf1 & _). split; assumption.
      - injection E1 as <-. split; [assumption|reflexivity]. }
    destruct H1 as ((Hl1 & Hc1) & Hf1).
    apply bind_ok in H as (h2 & E2 & H). injection H as <- <-. apply mcopy_inv in E2 as (Hn2 & Ha2).
    split; [split|].
    + apply ledger_inplace; auto.
    + cbn [ob]. apply cap0_upd; [assumption|]. cbn [cap blk]. apply Hc1.
    + intros k Hk. cbn [aidx In] in Hk. cbn [ob]. rewrite upd_other by (intros ->; apply Hk; auto). apply Hf1. intros ->. apply Hk; auto.
  - (* AAppendItem *)
    apply bind_ok in H as (w1 & E1 & H). injection H as <- <-.
    destruct (arr_append_item_ledger w w1 i x Hi E1) as (Hi1 & Hf1). split; [assumption|].
    intros k Hk. apply Hf1. intros ->. apply Hk. cbn. auto.
  - (* AAppendOwn *)
    destruct (k0 <? size (ob w i)).
    + apply bind_ok in H as (x & _ & H). apply bind_ok in H as (w1 & E1 & H). injection H as <- <-.
      destruct (arr_append_item_ledger w w1 i x Hi E1) as (Hi1 & Hf1). split; [assumption|].
      intros k Hk. apply Hf1. intros ->. apply Hk. cbn. auto.
    + injection H as <- <-. split; [assumption|reflexivity].
  - (* AClear *)
    injection H as <- <-. split; [split|frame1].
    + apply ledger_inplace; auto.
    + cbn [ob]. apply cap0_upd; [assumption|]. cbn [cap blk]. apply Hc.
  - (* AReset *)
    apply bind_ok in H as (w1 & E1 & H). injection H as <- <-.
    destruct (arr_reset_ledger w w1 i Hi E1) as (Hi1 & Hf1 & _). split; [assumption|].
    intros k Hk. apply Hf1. intros ->. apply Hk. cbn. auto.
  - (* ADetach *)
    apply bind_ok in H as (w1 & E1 & H). injection H as <- <-.
    destruct (arr_reset_ledger w w1 i Hi E1) as (Hi1 & Hf1 & _). split; [assumption|].
    intros k Hk. apply Hf1. intros ->. apply Hk. cbn. auto.
  - (* AReserve *)
    apply bind_ok in H as (w1 & E1 & H). apply bind_ok in H as (w2 & E2 & H). injection H as <- <-.
    destruct (arr_reset_ledger w w1 i Hi E1) as (Hi1 & Hf1 & Hnull).
    assert (Ef : free (hp w1) (blk (ob w1 i)) = Ok (hp w1)) by now rewrite Hnull.
    destruct (arr_construct_ledger w1 w2 i (hp w1) n init Hi1 Ef E2) as (Hi2 & Hf2). split; [assumption|].
    intros k Hk. assert (k <> i) by (intros ->; apply Hk; cbn; auto). rewrite Hf2, Hf1; auto.
  - (* AResize *)
    apply bind_ok in H as (w1 & E1 & H). injection H as <- <-.
    destruct (arr_Resize_ledger w w1 i n Hi E1) as (Hi1 & Hf1). split; [assumption|].
    intros k Hk. apply Hf1. intros ->. apply Hk. cbn. auto.
  - (* AResizeInit *)
    apply bind_ok in H as (w1 & E1 & H). apply bind_ok in H as (h2 & E2 & H). injection H as <- <-.
    destruct (arr_Resize_ledger w w1 i n Hi E1) as ((Hl1 & Hc1) & Hf1).
    assert (Hh2 : next h2 = next (hp w1) /\ forall x, al h2 x = al (hp w1) x).
    { destruct (size (ob w1 i) <? n); [now apply wr_range_inv in E2|injection E2 as <-; auto]. }
    destruct Hh2 as (Hn2 & Ha2). split; [split|].
    + apply ledger_inplace; auto.
    + cbn [ob]. apply cap0_upd; [assumption|]. cbn [cap blk]. apply Hc1.
    + intros k Hk. cbn [aidx In] in Hk. cbn [ob]. rewrite upd_other by (intros ->; apply Hk; auto). apply Hf1. intros ->. apply Hk; auto.
  - (* AExpect *)
    apply bind_ok in H as (w1 & E1 & H). injection H as <- <-.
    destruct (cap (ob w i) <? n + size (ob w i)) eqn:Elt.
    + apply Nat.ltb_lt in Elt.
      destruct (arr_inv_resize w w1 i (n + size (ob w i)) Hi ltac:(lia) E1) as (Hi1 & Hf1 & _). split; [assumption|].
      intros k Hk. apply Hf1. intros ->. apply Hk. cbn. auto.
    + injection E1 as <-. split; [assumption|reflexivity].
  - (* ACompress *)
    apply bind_ok in H as (w1 & E1 & H). injection H as <- <-.
    destruct (arr_Resize_ledger w w1 i _ Hi E1) as (Hi1 & Hf1). split; [assumption|].
    intros k Hk. apply Hf1. intros ->. apply Hk. cbn. auto.
  - (* ADrop *)
    destruct (n <=? size (ob w i)); injection H as <- <-; [|split; [assumption|reflexivity]].
    split; [split|frame1].
    + apply ledger_inplace; auto.
    + cbn [ob]. apply cap0_upd; [assumption|]. cbn [cap blk]. apply Hc.
  - (* ASwap: two reads, two in-place writes *)
    destruct ((k1 <? size (ob w i)) && (k2 <? size (ob w i))); [|injection H as <- <-; split; [assumption|reflexivity]].
    apply bind_ok in H as (x & _ & H). apply bind_ok in H as (y & _ & H).
    apply bind_ok in H as (h1 & E1 & H). apply bind_ok in H as (h2 & E2 & H). injection H as <- <-.
    apply wr1_inv in E1 as (Hn1 & Ha1). apply wr1_inv in E2 as (Hn2 & Ha2).
    split; [split|reflexivity].
    + apply (ledger_inv_ext w); cbn [hp ob]; [congruence | intros x0; now rewrite Ha2, Ha1 | reflexivity | assumption].
    + exact Hc.
  - (* AIter: read only *)
    apply bind_ok in H as (c & _ & H). injection H as <- <-. split; [assumption|reflexivity].
Qed.

Lemma arr_inv0 : arr_inv (@world0 A).
Proof. split; [apply ledger_inv0|reflexivity]. Qed.

Lemma pool_within_step : forall (w w' : world) (idx : list nat) n, (forall k, ~ In k idx -> ob w' k = ob w k) ->
  Forall (fun k => k < n) idx -> pool_within n w -> (forall k, In k idx -> n <= k -> False) -> pool_within n w'.
Proof.
  intros w w' idx n Hf _ Hp Hlt k Hk. rewrite Hf; [now apply Hp|]. intros Hin. exact (Hlt k Hin Hk).
Qed.

Theorem arun_ledger : forall ops (w w' : world) outs, arr_inv w -> Forall aop_ok ops ->
  run (astep junk d) ops w = Ok (w', outs) ->
  arr_inv w' /\ forall n, within aidx n ops -> pool_within n w -> pool_within n w'.
Proof.
  induction ops as [|op r IH]; intros w w' outs Hi Hok H; cbn [run] in H.
  - injection H as <- <-. split; [assumption|auto].
  - apply bind_ok in H as (x & E1 & H). apply bind_ok in H as (y & E2 & H). injection H as <- <-.
    destruct x as (w1, o1). cbn [fst snd] in *. inversion Hok as [|? ? Hop Hr]; subst.
    destruct (astep_ledger w w1 op o1 Hi Hop E1) as (Hi1 & Hf1).
    destruct y as (w2, o2). cbn [fst] in *.
    destruct (IH w1 w2 o2 Hi1 Hr E2) as (Hi2 & Hp2). split; [assumption|].
    intros n Hw Hp. inversion Hw as [|? ? Hidx Hwr]; subst. apply Hp2; [assumption|].
    intros k Hk. rewrite Hf1; [now apply Hp|]. intros Hin. rewrite Forall_forall in Hidx. specialize (Hidx k Hin). lia.
Qed.

(* C16 for Array histories from the empty pool *)
Theorem array_ledger : forall (ops : list (@aop A)) n, Forall aop_ok ops -> within aidx n ops ->
  exists w outs w', run (astep junk d) ops world0 = Ok (w, outs) /\ ledger_inv w /\
    destroy_all n w = Ok w' /\ live_blocks (hp w') = [] /\ next (hp w') = next (hp w).
Proof.
  intros ops n Hok Hw. destruct (SeqProofsTop.array_history junk d ops Hok) as (w & Hrun & _).
  destruct (arun_ledger ops world0 w _ arr_inv0 Hok Hrun) as ((Hl & _) & Hp).
  assert (Hpw : pool_within n w) by (apply Hp; [assumption|intros k _; reflexivity]).
  destruct (destroy_all_empty n w Hl Hpw) as (w' & Ed & Hlive & _ & Hn).
  exists w, (snd (spec_run (aspec d) ops spec0)), w'. auto.
Qed.
End ArrayLedger.
